import Req.Lemmas.C02H3
/-!
C02 — HTTP/3: reading the response head(s) off the QUIC stream in any segmentation:
`requestStream.ReadResponse` (frame header through `ParseNext`, skipping unknown / GREASE
frames, `io.ReadFull` of the encoded field block, the QPACK-decoded field list as side input,
`parseHeaders` + `updateResponseFromHeaders`) and `doRequest`'s 1xx loop.
-/
namespace Req.C02
open Req.Proto

theorem framesWire_length_ge (skips : List WFrame) (h : ∀ g ∈ skips, g.OK) :
    skips.length ≤ (framesWire skips).length := by
  induction skips with
  | nil => simp [framesWire]
  | cons g gs ih =>
    have hne := WFrame.hdr_ne g (h g (by simp))
    have hpos : 0 < g.hdr.length := List.length_pos_iff.mpr hne
    have := ih (fun g' hg' => h g' (by simp [hg']))
    rw [framesWire_cons]
    simp only [List.length_cons, List.length_append]
    omega

/-- A response head as it travels on the stream: skippable frames the origin may interleave,
the HEADERS frame, and what the QPACK decoder makes of its payload. -/
structure WHead where
  skips : List WFrame
  frame : WFrame
  fields : Fields             -- decoded field list (side input)
  parsed : H3Head             -- what `parseHeaders` + `updateResponseFromHeaders` make of it
deriving Repr

def WHead.OK (maxH : Nat) (w : WHead) : Prop :=
  (∀ g ∈ w.skips, g.OK ∧ skippable g.typ) ∧ w.frame.OK ∧ w.frame.typ = 1 ∧
  w.frame.payload.length ≤ maxH ∧ h3ParseHead w.fields = some w.parsed

def WHead.wire (w : WHead) : Bytes := framesWire w.skips ++ w.frame.wire

/-- **`ReadResponse`** on a stream that starts with a head, for every segmentation. -/
theorem readResponse_spec (s : H3Stream) (w : WHead) (maxH : Nat) (hw : w.OK maxH) (R : Bytes)
    (rest : List Fields) (hfl : s.net.segs.flatten = w.wire ++ R) (hlists : s.fieldLists = w.fields :: rest)
    (hmax : s.maxHeaderBytes = maxH) :
    ∃ s', s.readResponse = (.ok w.parsed, s') ∧ s'.net.segs.flatten = R ∧ s'.net.fin = s.net.fin ∧
      s'.fieldLists = rest ∧ s'.remInFrame = s.remInFrame ∧ s'.parsedTrailer = s.parsedTrailer ∧
      s'.trailer = s.trailer ∧ s'.maxHeaderBytes = s.maxHeaderBytes := by
  obtain ⟨hsk, hf, hft, hlen, hparse⟩ := hw
  have hfl' : s.net.segs.flatten = framesWire w.skips ++ (w.frame.hdr ++ (w.frame.payload ++ R)) := by
    rw [hfl]; simp [WHead.wire, WFrame.wire, List.append_assoc]
  have hfuel : w.skips.length < s.net.size + 1 := by
    have h1 := framesWire_length_ge w.skips (fun g hg => (hsk g hg).1)
    rw [Net.size_eq, hfl']
    simp only [List.length_append]
    omega
  obtain ⟨n1, hp, hfl1, hfin1⟩ := parseNext_skip (s.net.size + 1) s.net w.skips w.frame _ hsk hf (Or.inr hft)
    hfl' hfuel
  have hne0 : ¬ w.frame.typ = 0 := by omega
  simp only [hne0, if_false] at hp
  obtain ⟨n2, hr, hfl2, hfin2⟩ := Net.readN_spec (w.frame.payload.length + 1) w.frame.payload.length [] n1
    w.frame.payload R hfl1 rfl (by omega)
  refine ⟨{ s with net := n2, fieldLists := rest }, ?_, hfl2, by simp [hfin2, hfin1], rfl, rfl, rfl, rfl, rfl⟩
  unfold H3Stream.readResponse
  rw [hp]
  simp only
  have : ¬ w.frame.payload.length > s.maxHeaderBytes := by rw [hmax]; omega
  simp only [this, if_false, hr, hlists, hparse]

/-- An interim head: 1xx other than 101. -/
def WHead.Interim (w : WHead) : Prop := 100 ≤ w.parsed.status ∧ w.parsed.status ≤ 199 ∧ w.parsed.status ≠ 101

def headsWire (ws : List WHead) : Bytes := (ws.map WHead.wire).flatten

/-- **The 1xx loop of `doRequest`**: up to five interim responses are skipped, the final head
is returned, the stream stands right behind it. -/
theorem readFinalResponse_spec (is : List WHead) (maxH : Nat) (his : ∀ i ∈ is, i.OK maxH ∧ i.Interim)
    (w : WHead) (hw : w.OK maxH) (hfinal : ¬ w.Interim)
    (fuel n1xx : Nat) (hfuel : is.length < fuel) (hn : n1xx + is.length ≤ 5)
    (s : H3Stream) (R : Bytes) (rest : List Fields)
    (hfl : s.net.segs.flatten = headsWire is ++ (w.wire ++ R))
    (hlists : s.fieldLists = is.map (·.fields) ++ (w.fields :: rest)) (hmax : s.maxHeaderBytes = maxH) :
    ∃ s', H3Stream.readFinalResponse fuel n1xx s = (.ok w.parsed, s') ∧ s'.net.segs.flatten = R ∧
      s'.net.fin = s.net.fin ∧ s'.fieldLists = rest ∧ s'.remInFrame = s.remInFrame ∧
      s'.parsedTrailer = s.parsedTrailer ∧ s'.trailer = s.trailer ∧ s'.maxHeaderBytes = s.maxHeaderBytes := by
  induction is generalizing fuel n1xx s with
  | nil =>
    cases fuel with
    | zero => simp at hfuel
    | succ fuel =>
      simp only [headsWire, List.map_nil, List.flatten_nil, List.nil_append] at hfl hlists
      obtain ⟨s', h1, h2, h3, h4, h5, h6, h7, h8⟩ := readResponse_spec s w maxH hw R rest hfl hlists hmax
      refine ⟨s', ?_, h2, h3, h4, h5, h6, h7, h8⟩
      unfold H3Stream.readFinalResponse
      rw [h1]
      simp only
      have : ¬ (100 ≤ w.parsed.status ∧ w.parsed.status ≤ 199 ∧ w.parsed.status ≠ 101) := hfinal
      simp only [this, if_false]
  | cons i is ih =>
    cases fuel with
    | zero => simp at hfuel
    | succ fuel =>
      obtain ⟨hi, hint⟩ := his i (by simp)
      have hfl' : s.net.segs.flatten = i.wire ++ (headsWire is ++ (w.wire ++ R)) := by
        rw [hfl]; simp [headsWire, List.append_assoc]
      have hlists' : s.fieldLists = i.fields :: (is.map (·.fields) ++ (w.fields :: rest)) := by
        rw [hlists]; simp
      obtain ⟨s1, h1, h2, h3, h4, h5, h6, h7, h8⟩ := readResponse_spec s i maxH hi _ _ hfl' hlists' hmax
      obtain ⟨s', g1, g2, g3, g4, g5, g6, g7, g8⟩ := ih (fun j hj => his j (by simp [hj])) fuel (n1xx + 1)
        (by simp at hfuel; omega) (by simp at hn; omega) s1 h2 h4 (by rw [h8, hmax])
      refine ⟨s', ?_, g2, by rw [g3, h3], g4, by rw [g5, h5], by rw [g6, h6], by rw [g7, h7], by rw [g8, h8]⟩
      unfold H3Stream.readFinalResponse
      rw [h1]
      simp only
      have hc : 100 ≤ i.parsed.status ∧ i.parsed.status ≤ 199 ∧ i.parsed.status ≠ 101 := hint
      have hle : ¬ n1xx + 1 > 5 := by simp at hn; omega
      simp only [hc, ne_eq, not_false_eq_true, and_self, if_true, hle, if_false]
      exact g1

end Req.C02
