import Req.H2.Monitor
/-!
C06 — helper lemmas about the monitor alone: its count of unacknowledged SETTINGS frames.
-/
set_option linter.unusedSimpArgs false
namespace Req.Lemmas.C06
open Req.H2 Req.H2.Conn Req.H2.Monitor

/-- SETTINGS acknowledgements written by the client -/
def ackCount : List Event → Nat
  | [] => 0
  | .c .settingsAck :: es => ackCount es + 1
  | _ :: es => ackCount es

/-- a SETTINGS frame the peer may expect an acknowledgement for (not itself a protocol violation) -/
def validSettings (vals : List (Nat × Nat)) : Bool :=
  !(vals.any (fun p => (p.1 == sInitialWindowSize && decide (p.2 > 2147483647)) ||
      (p.1 == sMaxFrameSize && (decide (p.2 < 16384) || decide (p.2 > 16777215)))))

/-- SETTINGS frames sent by the peer that call for an acknowledgement -/
def settingsCount : List Event → Nat
  | [] => 0
  | .p (.settings vals) :: es => settingsCount es + (if validSettings vals then 1 else 0)
  | _ :: es => settingsCount es

theorem ackSetting_pending (m : Send) (p : Nat × Nat) : (ackSetting m p).pending = m.pending := by
  unfold ackSetting; split
  · rfl
  · split
    · rfl
    · split <;> rfl

theorem foldl_ackSetting_pending (vals : List (Nat × Nat)) :
    ∀ m : Send, (vals.foldl ackSetting m).pending = m.pending := by
  induction vals with
  | nil => intro m; rfl
  | cons p ps ih => intro m; simp only [List.foldl_cons]; rw [ih, ackSetting_pending]

theorem client_pending {m m' : Send} {f : Frame} (h : m.client f = .ok m') :
    (f = .settingsAck → m'.pending.length + 1 = m.pending.length) ∧
    (f ≠ .settingsAck → m'.pending = m.pending) := by
  cases f with
  | settingsAck =>
    refine ⟨fun _ => ?_, fun hne => absurd rfl hne⟩
    cases hh : m.hdrOpen with
    | some v => simp [Send.client, hh] at h
    | none =>
      simp only [Send.client, hh] at h
      cases hp : m.pending with
      | nil => simp [hp] at h
      | cons vals rest =>
        simp [hp] at h
        rw [← h, foldl_ackSetting_pending]
        simp
  | settings vals =>
    refine ⟨fun hx => (by cases hx), fun _ => ?_⟩
    cases hh : m.hdrOpen with
    | some v => simp [Send.client, hh] at h
    | none => simp [Send.client, hh] at h; rw [← h]
  | ping ack d =>
    refine ⟨fun hx => (by cases hx), fun _ => ?_⟩
    cases hh : m.hdrOpen with
    | some v => simp [Send.client, hh] at h
    | none => simp [Send.client, hh] at h; rw [← h]
  | windowUpdate id inc =>
    refine ⟨fun hx => (by cases hx), fun _ => ?_⟩
    cases hh : m.hdrOpen with
    | some v => simp [Send.client, hh] at h
    | none => simp [Send.client, hh] at h; rw [← h]
  | priority id =>
    refine ⟨fun hx => (by cases hx), fun _ => ?_⟩
    cases hh : m.hdrOpen with
    | some v => simp [Send.client, hh] at h
    | none =>
      simp only [Send.client, hh] at h
      split at h
      · cases h
      · split at h
        · cases h
        · cases h; rfl
  | headers id len es eh =>
    refine ⟨fun hx => (by cases hx), fun _ => ?_⟩
    cases hh : m.hdrOpen with
    | some v => simp [Send.client, hh] at h
    | none =>
      simp only [Send.client, hh] at h
      repeat' (first | (cases h <;> rfl) | split at h)
  | continuation id len eh =>
    refine ⟨fun hx => (by cases hx), fun _ => ?_⟩
    cases hh : m.hdrOpen with
    | none => simp [Send.client, hh] at h
    | some v =>
      simp only [Send.client, hh] at h
      split at h
      · cases h
      · split at h
        · cases h
        · cases h; rfl
  | data id len es =>
    refine ⟨fun hx => (by cases hx), fun _ => ?_⟩
    cases hh : m.hdrOpen with
    | some v => simp [Send.client, hh] at h
    | none =>
      simp only [Send.client, hh] at h
      split at h
      · cases h
      · split at h
        · cases h
        · split at h
          · cases h
          · split at h
            · cases h
            · split at h
              · cases h
              · split at h
                · cases h
                · cases h; rfl
  | rst id =>
    refine ⟨fun hx => (by cases hx), fun _ => ?_⟩
    cases hh : m.hdrOpen with
    | some v => simp [Send.client, hh] at h
    | none =>
      simp only [Send.client, hh] at h
      split at h
      · cases h
      · split at h
        · cases h
        · split at h
          · cases h; rfl
          · cases h; rfl

theorem peer_pending (m : Send) (f : PFrame) :
    (m.peer f).pending.length =
      m.pending.length + (match f with | .settings vals => if validSettings vals then 1 else 0 | _ => 0) := by
  cases f with
  | settings vals =>
    simp only [Send.peer, validSettings]
    split
    · rename_i h; simp [h]
    · rename_i h; simp [h]
  | settingsAck => rfl
  | windowUpdate id inc =>
    simp only [Send.peer]
    split
    · rfl
    · split <;> rfl
  | rst id code => simp only [Send.peer]; split <;> rfl
  | goaway last => rfl
  | resp id es status cl => simp only [Send.peer]; split <;> rfl
  | data id len pad es => simp only [Send.peer]; split <;> rfl
  | ping ack d => rfl
  | pushPromise id p => rfl

/-- bookkeeping of the monitor: pending = SETTINGS sent − acknowledgements received -/
theorem pending_count (h : List Event) :
    ∀ {m m' : Send}, Send.run m h = .ok m' →
      m'.pending.length + ackCount h = m.pending.length + settingsCount h := by
  induction h with
  | nil => intro m m' hr; cases hr; rfl
  | cons e es ih =>
    intro m m' hr
    cases e with
    | c f =>
      simp only [Send.run, Send.step] at hr
      cases hc : m.client f with
      | error r => rw [hc] at hr; cases hr
      | ok m1 =>
        rw [hc] at hr
        have := ih hr
        have hp := client_pending hc
        cases f with
        | settingsAck =>
          have := hp.1 rfl
          simp only [ackCount, settingsCount]; omega
        | settings vals => have := hp.2 (by simp); simp only [ackCount, settingsCount]; rw [← this]; omega
        | windowUpdate id inc => have := hp.2 (by simp); simp only [ackCount, settingsCount]; rw [← this]; omega
        | priority id => have := hp.2 (by simp); simp only [ackCount, settingsCount]; rw [← this]; omega
        | headers id len es' eh => have := hp.2 (by simp); simp only [ackCount, settingsCount]; rw [← this]; omega
        | continuation id len eh => have := hp.2 (by simp); simp only [ackCount, settingsCount]; rw [← this]; omega
        | data id len es' => have := hp.2 (by simp); simp only [ackCount, settingsCount]; rw [← this]; omega
        | rst id => have := hp.2 (by simp); simp only [ackCount, settingsCount]; rw [← this]; omega
        | ping ack d => have := hp.2 (by simp); simp only [ackCount, settingsCount]; rw [← this]; omega
    | p f =>
      simp only [Send.run, Send.step] at hr
      have := ih hr
      have hp := peer_pending m f
      cases f <;> simp only [ackCount, settingsCount] at * <;> omega

end Req.Lemmas.C06
