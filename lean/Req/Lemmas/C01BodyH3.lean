import Req.H3.BodyWrite
import Req.Lemmas.C01Body
import Req.Lemmas.C05H3
/-! Lemmas about `Req.H3.BodyWrite` (C01, HTTP/3 request-body DATA framing). -/
namespace Req.Lemmas.C01BodyH3
open Req.Proto Req.H2.BodyWrite Req.H3.BodyWrite Req.H3.Frame Req.Lemmas.C01Body

theorem copy_spec (buf : Nat) :
    ∀ (fuel : Nat) (r : Reader),
      (∃ tail, (copy buf fuel r).1.flatten ++ tail = r.data ∧ ((copy buf fuel r).2 = .closed → tail = [])) ∧
      (∀ w ∈ (copy buf fuel r).1, w ≠ [] ∧ w.length ≤ buf) := by
  intro fuel
  induction fuel with
  | zero => intro r; exact ⟨⟨r.data, by simp [copy], by simp [copy]⟩, by simp [copy]⟩
  | succ fuel ih =>
    intro r
    simp only [copy]
    have hd := read_data r buf
    have heof := read_eof r buf
    have hlen := read_len r buf
    generalize hr : r.read buf = x at *
    obtain ⟨chunk, e, r1⟩ := x
    simp only at hd heof hlen ⊢
    have hws : (if chunk.isEmpty = true then ([] : List Bytes) else [chunk]).flatten = chunk := by
      split
      next h => simp [List.isEmpty_iff.mp h]
      next h => simp
    have hmem : ∀ w ∈ (if chunk.isEmpty = true then ([] : List Bytes) else [chunk]), w ≠ [] ∧ w.length ≤ buf := by
      intro w hw
      split at hw
      · cases hw
      next h =>
        simp only [List.mem_singleton] at hw
        subst hw
        exact ⟨fun hc => h (by simp [hc]), hlen⟩
    cases e with
    | none =>
      simp only
      obtain ⟨⟨tail, ht, htd⟩, hw⟩ := ih r1
      generalize copy buf fuel r1 = res at *
      obtain ⟨ws', o⟩ := res
      simp only at ht htd hw ⊢
      refine ⟨⟨tail, ?_, htd⟩, ?_⟩
      · rw [List.flatten_append, hws, List.append_assoc, ht, hd]
      · intro w hw'
        rcases List.mem_append.mp hw' with h | h
        · exact hmem w h
        · exact hw w h
    | eof =>
      simp only
      refine ⟨⟨[], ?_, by simp⟩, hmem⟩
      rw [hws, List.append_nil, ← hd, heof rfl, List.append_nil]
    | fail =>
      simp only
      exact ⟨⟨r.data, by simp, by simp⟩, by simp⟩

theorem copy_progress (buf : Nat) (hb : 1 ≤ buf) :
    ∀ (fuel : Nat) (r : Reader), r.sizes.length + r.data.length + 2 ≤ fuel →
      (r.ending = .eof ∨ r.ending = .eofWithLast) → (copy buf fuel r).2 = .closed := by
  intro fuel
  induction fuel with
  | zero => intro r h; omega
  | succ fuel ih =>
    intro r hfuel hend
    simp only [copy]
    have he := read_ending r buf
    have hnf := read_no_fail r buf hend
    have hat := read_at_end r buf
    have hm := read_measure r buf hb
    generalize hr : r.read buf = x at *
    obtain ⟨chunk, e, r1⟩ := x
    simp only at he hnf hat hm ⊢
    cases e with
    | none =>
      simp only
      have hne : r.data ≠ [] := by
        intro h
        have := hat h hend
        simp at this
      have := ih r1 (by have := hm hne; omega) (by rw [he]; exact hend)
      generalize copy buf fuel r1 = res at *
      obtain ⟨ws', o⟩ := res
      exact this
    | eof => rfl
    | fail => exact absurd rfl hnf

theorem dataFrame_parse (w rest : Bytes) (hw : w.length < 2 ^ 62) :
    ∃ x, dataFrame w = some x ∧ x ≠ [] ∧ parseNext 1 (x ++ rest) = (.ok (.data w.length), w ++ rest) := by
  obtain ⟨⟨out, ho, hp⟩, _⟩ := Req.Lemmas.C05.H3.h3_frameHeader_roundtrip w.length (w ++ rest) 0 hw
  refine ⟨out ++ w, by simp [dataFrame, ho], ?_, by rw [List.append_assoc]; exact hp⟩
  intro h
  have ho' : out = [] := by
    cases out with
    | nil => rfl
    | cons a b => simp at h
  rw [ho'] at hp
  have h2 := (Req.Lemmas.C05.H3.h3_frameHeader_roundtrip w.length [] 0 hw).1
  obtain ⟨out2, ho2, hp2⟩ := h2
  rw [ho] at ho2
  simp only [Option.some.injEq] at ho2
  rw [← ho2, ho'] at hp2
  simp [parseNext, Req.H3.Varint.read, Req.H3.Varint.parse] at hp2

theorem originLoop_wire (cl : Option Nat) :
    ∀ (ws : List Bytes) (fuel : Nat) (s acc : Bytes), wire ws = some s → (∀ w ∈ ws, w.length < 2 ^ 62) →
      ws.length + 1 ≤ fuel →
      originLoop cl fuel s acc =
        if clMatches cl (acc ++ ws.flatten).length then some (acc ++ ws.flatten) else none := by
  intro ws
  induction ws with
  | nil =>
    intro fuel s acc hs _ hf
    simp only [wire, Option.some.injEq] at hs
    subst hs
    cases fuel with
    | zero => omega
    | succ fuel => simp [originLoop]
  | cons w ws ih =>
    intro fuel s acc hs hlt hf
    cases fuel with
    | zero => omega
    | succ fuel =>
      simp only [wire] at hs
      cases hws : wire ws with
      | none => simp [hws] at hs
      | some y =>
        obtain ⟨x, hx, hxne, hp⟩ := dataFrame_parse w y (hlt w (by simp))
        simp only [hx, hws, Option.some.injEq] at hs
        subst hs
        have hne : (x ++ y).isEmpty = false := by
          cases x with
          | nil => exact absurd rfl hxne
          | cons _ _ => rfl
        simp only [originLoop, hne, Bool.false_eq_true, if_false, hp]
        have : ¬ (w ++ y).length < w.length := by simp
        simp only [this, if_false, List.drop_left, List.take_left]
        rw [ih fuel y (acc ++ w) hws (fun v hv => hlt v (by simp [hv])) (by simp at hf; omega)]
        simp [List.append_assoc]

theorem wire_some (ws : List Bytes) (h : ∀ w ∈ ws, w.length < 2 ^ 62) :
    ∃ s, wire ws = some s ∧ ws.length ≤ s.length := by
  induction ws with
  | nil => exact ⟨[], rfl, by simp⟩
  | cons w ws ih =>
    obtain ⟨y, hy, hl⟩ := ih (fun v hv => h v (by simp [hv]))
    obtain ⟨x, hx, hxne, _⟩ := dataFrame_parse w [] (h w (by simp))
    refine ⟨x ++ y, by simp [wire, hx, hy], ?_⟩
    have : 0 < x.length := List.length_pos_iff.mpr hxne
    simp only [List.length_cons, List.length_append]
    omega

end Req.Lemmas.C01BodyH3
