import Req.Client.Redirect
import Req.Lemmas.C11Hdr
/-! C11: composition and redirect-chain invariants. -/
namespace Req.Lemmas.C11
open Req.Proto Req.Redirect

/-- The decision of the composed closure does not depend on the header state. -/
theorem compose_allow_iff (ps : List (Option Policy)) (req : Bytes) (h : Headers) (via : Via) :
    (compose ps req h via).1 = .allow ↔ ∀ p, some p ∈ ps → p.check req via = .allow := by
  induction ps generalizing h with
  | nil => simp [compose]
  | cons q qs ih =>
    cases q with
    | none =>
      simp only [compose, ih, List.mem_cons, reduceCtorEq, false_or]
    | some p =>
      simp only [compose]
      cases hc : p.check req via with
      | allow =>
        simp only [ih, List.mem_cons, Option.some.injEq]
        constructor
        · intro hall p' hp'
          rcases hp' with rfl | hp'
          · exact hc
          · exact hall p' hp'
        · intro hall p' hp'
          exact hall p' (Or.inr hp')
      | deny =>
        simp only [reduceCtorEq, false_iff]
        intro hall
        have := hall p (by simp)
        rw [hc] at this
        exact absurd this (by simp)
      | useLast =>
        simp only [reduceCtorEq, false_iff]
        intro hall
        have := hall p (by simp)
        rw [hc] at this
        exact absurd this (by simp)

/-- First refusal wins: a non-allow result is the verdict of some policy all of whose
predecessors (nil skipped) allowed, and nothing after it touched the headers. -/
theorem compose_refusal (ps : List (Option Policy)) (req : Bytes) (h : Headers) (via : Via)
    (d : Decision) (hd : d ≠ .allow) (hr : (compose ps req h via).1 = d) :
    ∃ pre p post, ps = pre ++ some p :: post ∧ (∀ q, some q ∈ pre → q.check req via = .allow) ∧
      p.check req via = d := by
  induction ps generalizing h with
  | nil => simp [compose] at hr; exact absurd hr.symm hd
  | cons q qs ih =>
    cases q with
    | none =>
      simp only [compose] at hr
      obtain ⟨pre, p, post, he, hpre, hp⟩ := ih h hr
      refine ⟨none :: pre, p, post, by simp [he], ?_, hp⟩
      intro q hq
      simp only [List.mem_cons, reduceCtorEq, false_or] at hq
      exact hpre q hq
    | some p0 =>
      simp only [compose] at hr
      cases hc : p0.check req via with
      | allow =>
        rw [hc] at hr
        obtain ⟨pre, p, post, he, hpre, hp⟩ := ih _ hr
        refine ⟨some p0 :: pre, p, post, by simp [he], ?_, hp⟩
        intro q hq
        simp only [List.mem_cons, Option.some.injEq] at hq
        rcases hq with rfl | hq
        · exact hc
        · exact hpre q hq
      | deny =>
        rw [hc] at hr
        exact ⟨[], p0, qs, rfl, by simp, by rw [hc]; exact hr⟩
      | useLast =>
        rw [hc] at hr
        exact ⟨[], p0, qs, rfl, by simp, by rw [hc]; exact hr⟩

/-- Every hop of `later` was allowed by every configured policy, given exactly what had been
sent before it (`first`, then `before`, then the earlier elements of `later`). -/
def AllPermitted (ps : List (Option Policy)) (first : Hop) : List Hop → List Hop → Prop
  | _, [] => True
  | before, x :: xs =>
    (∀ p, some p ∈ ps → p.check x.host ⟨first, before⟩ = .allow) ∧
      AllPermitted ps first (before ++ [x]) xs

/-- What `follow` guarantees. -/
structure FollowSpec (ps : List (Option Policy)) (st : ChainState) (ts : List Bytes)
    (res : List Hop × Outcome) (later : List Hop) : Prop where
  sent : res.1 = st.via.toList ++ later
  permitted : AllPermitted ps st.via.first st.via.rest later
  hosts : later.map (·.host) = ts.take later.length
  len : later.length ≤ ts.length
  final : res.2 = .final ↔ later.length = ts.length
  /-- stopping early happens only because a policy refused the next target -/
  stop : later.length < ts.length →
    ∃ t, ts[later.length]? = some t ∧
      ∃ p, some p ∈ ps ∧ p.check t ⟨st.via.first, st.via.rest ++ later⟩ ≠ .allow
  /-- the hop number in the outcome is the number of requests sent -/
  outcomeIdx : ∀ k, (res.2 = .refused k ∨ res.2 = .lastResponse k) → k = st.via.length + later.length

theorem follow_spec (ps : List (Option Policy)) (init : Headers) (ts : List Bytes) (st : ChainState) :
    ∃ later, FollowSpec ps st ts (follow ps init st ts) later := by
  induction ts generalizing st with
  | nil =>
    refine ⟨[], ?_⟩
    constructor <;> simp [follow, AllPermitted]
  | cons t ts ih =>
    unfold follow
    simp only
    generalize hc : compose ps t (goCopyHeaders init (goStrips st.stripped st.via.first.host t)) st.via = r
    obtain ⟨d, hdr⟩ := r
    have hd : (compose ps t (goCopyHeaders init (goStrips st.stripped st.via.first.host t)) st.via).1 = d := by
      rw [hc]
    cases d with
    | allow =>
      simp only
      have hall := (compose_allow_iff ps t _ st.via).mp hd
      obtain ⟨later, hs⟩ := ih { via := st.via.push ⟨t, hdr⟩, stripped := goStrips st.stripped st.via.first.host t }
      refine ⟨⟨t, hdr⟩ :: later, ?_⟩
      constructor
      · rw [hs.sent]; simp [Via.push, Via.toList]
      · exact ⟨hall, by simpa [Via.push] using hs.permitted⟩
      · simp [hs.hosts]
      · simpa using hs.len
      · rw [hs.final]; simp
      · intro hlt
        have hlt' : later.length < ts.length := by simpa using hlt
        obtain ⟨t', ht', p, hp, hne⟩ := hs.stop hlt'
        refine ⟨t', by simpa using ht', p, hp, ?_⟩
        simpa [Via.push] using hne
      · intro k hk
        have := hs.outcomeIdx k hk
        simp [Via.push, Via.length] at this ⊢
        omega
    | deny =>
      simp only
      refine ⟨[], ?_⟩
      constructor
      · simp
      · trivial
      · simp
      · simp
      · simp
      · intro _
        obtain ⟨pre, p, post, he, _, hp⟩ := compose_refusal ps t _ st.via .deny (by simp) hd
        exact ⟨t, by simp, p, by simp [he], by simp [hp]⟩
      · intro k hk; simp at hk ⊢; omega
    | useLast =>
      simp only
      refine ⟨[], ?_⟩
      constructor
      · simp
      · trivial
      · simp
      · simp
      · simp
      · intro _
        obtain ⟨pre, p, post, he, _, hp⟩ := compose_refusal ps t _ st.via .useLast (by simp) hd
        exact ⟨t, by simp, p, by simp [he], by simp [hp]⟩
      · intro k hk; simp at hk ⊢; omega

theorem allPermitted_get (ps : List (Option Policy)) (first : Hop) (before later : List Hop)
    (h : AllPermitted ps first before later) (k : Nat) (hk : k < later.length) :
    ∀ p, some p ∈ ps → p.check later[k].host ⟨first, before ++ later.take k⟩ = .allow := by
  induction later generalizing before k with
  | nil => simp at hk
  | cons x xs ih =>
    cases k with
    | zero => simpa using h.1
    | succ k =>
      have := ih (before ++ [x]) h.2 k (by simpa using hk)
      simpa using this

theorem max_check_iff (n : Int) (req : Bytes) (via : Via) :
    (maxRedirectPolicy n).check req via = .allow ↔ (via.length : Int) < n := by
  simp only [maxRedirectPolicy]
  by_cases h : (via.length : Int) ≥ n
  · simp [h]
  · simp [h]; omega

/-- With `MaxRedirectPolicy n` among the policies, at most `max 1 n` requests are ever sent. -/
theorem allPermitted_bound (ps : List (Option Policy)) (n : Int) (hn : some (maxRedirectPolicy n) ∈ ps)
    (first : Hop) (before later : List Hop) (h : AllPermitted ps first before later) :
    ((before.length + 1 + later.length : Nat) : Int) ≤ max ((before.length + 1 : Nat) : Int) n := by
  induction later generalizing before with
  | nil => simp; omega
  | cons x xs ih =>
    have hx := (max_check_iff n _ _).mp (h.1 _ hn)
    simp only [Via.length] at hx
    have := ih (before ++ [x]) h.2
    simp only [List.length_append, List.length_cons, List.length_nil] at this ⊢
    omega

theorem allPermitted_no (ps : List (Option Policy)) (hn : some noRedirectPolicy ∈ ps)
    (first : Hop) (before later : List Hop) (h : AllPermitted ps first before later) : later = [] := by
  cases later with
  | nil => rfl
  | cons x xs =>
    have := h.1 _ hn
    simp [noRedirectPolicy] at this

theorem goStrips_split (s : Bool) (a b : Bytes) : goStrips s a b = (s || goStrips false a b) := by
  simp [goStrips]

/-- Header flow along a chain whose policies are built from redirect.go's constructors. -/
theorem follow_headers (ds : List PolicyDesc) (init : Headers) (k : Bytes) (ts : List Bytes)
    (st : ChainState) (hinit : st.via.first.hdr = init) :
    ∃ later, (follow (ds.map PolicyDesc.denote) init st ts).1 = st.via.toList ++ later ∧
      ∀ j (hj : j < later.length),
        later[j].hdr.values k =
          if (st.stripped || crossed st.via.first.host (ts.take (j + 1))) = true ∧
              isSensitive k = true ∧ copyListed ds k = false
          then [] else init.values k := by
  induction ts generalizing st with
  | nil => exact ⟨[], by simp [follow], by intro j hj; simp at hj⟩
  | cons t ts ih =>
    unfold follow
    simp only
    generalize hc : compose (ds.map PolicyDesc.denote) t
      (goCopyHeaders init (goStrips st.stripped st.via.first.host t)) st.via = r
    obtain ⟨d, hdr⟩ := r
    cases d with
    | allow =>
      simp only
      have hal : (compose (ds.map PolicyDesc.denote) t
          (goCopyHeaders init (goStrips st.stripped st.via.first.host t)) st.via).1 = .allow := by rw [hc]
      have hv := compose_values ds t _ st.via k hal
      rw [hc] at hv
      simp only at hv
      obtain ⟨later, hs, hh⟩ := ih
        { via := st.via.push ⟨t, hdr⟩, stripped := goStrips st.stripped st.via.first.host t }
        (by simpa [Via.push] using hinit)
      refine ⟨⟨t, hdr⟩ :: later, by rw [hs]; simp [Via.push, Via.toList], ?_⟩
      intro j hj
      cases j with
      | zero =>
        simp only [List.getElem_cons_zero, hv, goCopy_values, hinit]
        rw [goStrips_split]
        simp only [crossed, List.take_succ_cons, List.take_zero, List.any_cons, List.any_nil, Bool.or_false]
        generalize (st.stripped || goStrips false st.via.first.host t) = S
        cases S <;> cases hsens : isSensitive k <;> cases hcl : copyListed ds k <;>
          by_cases hE : init.values k = [] <;> simp [hE]
      | succ j =>
        have := hh j (by simpa using hj)
        simp only [List.getElem_cons_succ, this, Via.push]
        rw [goStrips_split]
        simp only [crossed, List.take_succ_cons, List.any_cons, Bool.or_assoc]
        rfl
    | deny => exact ⟨[], by simp, by intro j hj; simp at hj⟩
    | useLast => exact ⟨[], by simp, by intro j hj; simp at hj⟩

end Req.Lemmas.C11
