import Req.Lemmas.C06Credit
/-!
C06 — helper lemmas: the client's connection-level receive window (`cc.inflow.avail`) is at
every moment exactly what the peer's own books say it may still send — the two ends never drift
apart. With `credit_conservation` (nothing is lost on the client's side) this is the
"never stalled forever" half of the property as the *peer* sees it.

`connCredit` / `peerBytes` read the frames of a step; `histCredit` / `histPeerBytes` read a
history. Neither looks at the model. The only places where the model changes `connIn.avail` are
`inflow.take` (a DATA frame arrives) and `inflow.add` when it emits a WINDOW_UPDATE.
-/
set_option linter.unusedSimpArgs false
namespace Req.Lemmas.C06
open Req.H2 Req.H2.Flow Req.H2.Conn Req.H2.Monitor

/-- connection-level credit granted by a list of client frames -/
def connCredit : List Frame → Int
  | [] => 0
  | .windowUpdate 0 inc :: fs => inc + connCredit fs
  | _ :: fs => connCredit fs

/-- flow-controlled octets the peer sends with an operation -/
def peerBytes : Op → Int
  | .peer (.data _ len pad _) => ((len + pad : Nat) : Int)
  | _ => 0

theorem connCredit_append (a b : List Frame) : connCredit (a ++ b) = connCredit a + connCredit b := by
  induction a with
  | nil => simp [connCredit]
  | cons f fs ih =>
    cases f with
    | windowUpdate id inc =>
      cases id with
      | zero => simp only [List.cons_append, connCredit, ih]; omega
      | succ k => simp only [List.cons_append, connCredit, ih]
    | _ => simp only [List.cons_append, connCredit, ih]

theorem cc_wu0 (inc : Int) (h : 0 ≤ inc) : connCredit (wuFrame 0 inc) = inc := by
  unfold wuFrame
  split
  · simp [connCredit]
  · simp only [connCredit]; omega

theorem cc_wu (id : Nat) (inc : Int) (hid : id ≠ 0) : connCredit (wuFrame id inc) = 0 := by
  unfold wuFrame
  split
  · cases id with
    | zero => exact absurd rfl hid
    | succ k => rfl
  · rfl

theorem cc_headerFrames (id : Nat) (es : Bool) (mf : Nat) (prio fix : Bool) :
    ∀ (fuel len : Nat) (first : Bool), connCredit (headerFrames fuel id len es mf prio fix first) = 0 := by
  intro fuel
  induction fuel with
  | zero => intro len first; rfl
  | succ fuel ih =>
    intro len first
    simp only [headerFrames]
    split
    · rfl
    · cases first <;> simp only [connCredit, ih, Bool.false_eq_true, if_false, if_true]

theorem cc_terminate (st : State) (s : Stream) (b : Bool) : connCredit (terminate st s b).2 = 0 := by
  unfold terminate; simp only; split <;> rfl

theorem terminate_connIn_eq (st : State) (s : Stream) (b : Bool) : (terminate st s b).1.connIn = st.connIn :=
  congrArg RView.connIn (rview_terminate st s b)

theorem settle_connIn_eq (st : State) (s : Stream) : (settle st s).connIn = st.connIn :=
  congrArg RView.connIn (rview_settle st s)

theorem cc_closeStream (st : State) (s s' : Stream) :
    connCredit (closeStream st s s').2 = 0 ∧ (closeStream st s s').1.connIn = st.connIn := by
  unfold closeStream
  split
  · exact ⟨cc_terminate _ _ _, terminate_connIn_eq _ _ _⟩
  · exact ⟨rfl, rfl⟩

/-- `inflow.add`: the window grows by exactly the increment it returns -/
theorem add_avail {f f' : Inflow} {n : Nat} {inc : Int} (hu : 0 ≤ f.unsent)
    (ha : Inflow.add f n = .ok (f', inc)) : f'.avail = f.avail + inc ∧ 0 ≤ inc ∧ 0 ≤ f'.unsent := by
  unfold Inflow.add at ha
  split at ha
  · cases ha
  · simp only at ha
    split at ha
    · cases ha
    · split at ha
      · cases ha; exact ⟨by simp, Int.le_refl _, by simp only; omega⟩
      · cases ha; exact ⟨rfl, by omega, Int.le_refl 0⟩

/-- the exactness step: `A st st' fs b` — unless the connection was closed, the window moved by
the credit written minus the octets received, and `unsent` stayed non-negative -/
def XStep (st : State) (r : State × List Frame) (b : Int) : Prop :=
  r.1.closed = true ∨
  (r.1.connIn.avail = st.connIn.avail + connCredit r.2 - b ∧ 0 ≤ r.1.connIn.unsent)

theorem xstep_same {st : State} {r : State × List Frame} (h1 : r.1.connIn = st.connIn)
    (h2 : connCredit r.2 = 0) (hu : 0 ≤ st.connIn.unsent) : XStep st r 0 := by
  right; rw [h1, h2]; exact ⟨by omega, hu⟩

theorem x_creditConn {st : State} (r : State × List Frame) (n : Nat) (h1 : r.1.connIn = st.connIn)
    (h2 : connCredit r.2 = 0) (hu : 0 ≤ st.connIn.unsent) : XStep st (creditConn r n) 0 := by
  unfold creditConn
  split
  · split
    · left; rfl
    · rename_i ci connAdd hc
      rw [h1] at hc
      obtain ⟨a1, a2, a3⟩ := add_avail hu hc
      right
      simp only [connCredit_append, h2, cc_wu0 _ a2]
      exact ⟨by omega, a3⟩
  · exact xstep_same h1 h2 hu

theorem x_readCore {st : State} (s : Stream) (k : Nat) (hid : s.id ≠ 0) (hu : 0 ≤ st.connIn.unsent) :
    XStep st (readCore st s k) 0 := by
  unfold readCore
  split
  · left; rfl
  · rename_i ci connAdd hc
    split
    · left; rfl
    · obtain ⟨a1, a2, a3⟩ := add_avail hu hc
      right
      simp only [connCredit_append, cc_wu0 _ a2, cc_wu _ _ hid]
      exact ⟨by omega, a3⟩

theorem x_readK {st : State} (s : Stream) (k : Nat) (hid : s.id ≠ 0) (hu : 0 ≤ st.connIn.unsent) :
    XStep st (readK st s k) 0 := by
  unfold readK
  split
  · exact x_readCore s k hid hu
  · split
    · unfold readOverlong
      simp only
      have := cc_closeStream st s { s with buffered := s.buffered - k, readErr := true }
      split
      · exact x_creditConn _ _ this.2 this.1 hu
      · exact xstep_same this.2 this.1 hu
    · exact x_readCore _ k hid hu

theorem x_doOpen {st : State} (r : Req) (hu : 0 ≤ st.connIn.unsent) : XStep st (doOpen st r) 0 := by
  simp only [doOpen]
  exact xstep_same rfl (cc_headerFrames _ _ _ _ _ _ _ _) hu

theorem x_openStream {st : State} (r : Req) (hu : 0 ≤ st.connIn.unsent) : XStep st (openStream st r) 0 := by
  unfold openStream
  split
  · exact xstep_same rfl rfl hu
  · split
    · exact xstep_same rfl rfl hu
    · split
      · exact x_doOpen r hu
      · exact xstep_same rfl rfl hu

theorem x_resumePending {st : State} (hu : 0 ≤ st.connIn.unsent) : XStep st (resumePending st) 0 := by
  unfold resumePending
  split
  · exact xstep_same rfl rfl hu
  · simp only
    split
    · exact xstep_same rfl rfl hu
    · split
      · exact xstep_same rfl rfl hu
      · split
        · exact x_doOpen (st := { st with pendingOpen := none }) _ hu
        · exact xstep_same rfl rfl hu

theorem x_write {st : State} (id : Nat) (hu : 0 ≤ st.connIn.unsent) : XStep st (write st id) 0 := by
  unfold write
  split
  · exact xstep_same rfl rfl hu
  · split
    · rename_i s' fs ht
      unfold trailerStep at ht
      split at ht
      · cases ht
      · split at ht
        · cases ht
          exact xstep_same (settle_connIn_eq _ _) (cc_headerFrames _ _ _ _ _ _ _ _) hu
        · cases ht
    · split
      · exact xstep_same rfl rfl hu
      · rename_i c s' f hw
        refine xstep_same (settle_connIn_eq _ _) ?_ hu
        unfold writeStep at hw
        split at hw
        · cases hw
        · split at hw
          · split at hw
            · cases hw; rfl
            · cases hw
          · split at hw
            · cases hw
            · cases hw; rfl

theorem x_discardData {st : State} (s : Stream) (n : Nat) (hfix : st.cfg.fixes.dataCredit = true)
    (hu : 0 ≤ st.connIn.unsent) : XStep st (discardData st s (n : Int)) (n : Int) := by
  unfold discardData
  simp only [hfix, true_and]
  split
  · rename_i hpos
    rcases hT : Inflow.take st.connIn (n : Int) with ⟨ci, ok⟩
    simp only
    split
    · left; rfl
    · rename_i ci' connAdd hadd
      split
      · left; rfl
      · rename_i hok
        have hok' : ok = true := by
          cases ok with
          | true => rfl
          | false => exact absurd rfl hok
        subst hok'
        obtain ⟨t1, t2⟩ := take_eq hT
        obtain ⟨a1, a2, a3⟩ := add_avail (by rw [t2]; exact hu) hadd
        right
        simp only [connCredit_append, cc_terminate, cc_wu0 _ a2]
        exact ⟨by omega, a3⟩
  · rename_i hz
    have : (n : Int) = 0 := by omega
    rw [this]
    exact xstep_same (terminate_connIn_eq _ _ _) (cc_terminate _ _ _) hu

theorem cc_abortAbove (last : Nat) (ids : List Nat) :
    ∀ st : State, connCredit (abortAbove last ids st).2 = 0 ∧ (abortAbove last ids st).1.connIn = st.connIn := by
  induction ids with
  | nil => intro st; exact ⟨rfl, rfl⟩
  | cons id rest ih =>
    intro st
    unfold abortAbove
    split
    · exact ih st
    · split
      · rename_i s _ _
        have := ih (terminate st s false).1
        simp only [connCredit_append, cc_terminate, this.1]
        exact ⟨by omega, by rw [this.2]; exact terminate_connIn_eq _ _ _⟩
      · exact ih st

theorem applySetting_connIn {st st' : State} {sm sm' : Bool} {p : Nat × Nat}
    (h : applySetting st sm p = some (st', sm')) : st'.connIn = st.connIn := by
  unfold applySetting at h
  split at h
  · split at h
    · cases h
    · cases h; rfl
  · split at h
    · cases h; rfl
    · split at h
      · split at h
        · cases h
        · cases h; rfl
      · cases h; rfl

theorem applySettings_connIn {vals : List (Nat × Nat)} :
    ∀ {st st' : State} {sm sm' : Bool}, applySettings st sm vals = some (st', sm') → st'.connIn = st.connIn := by
  induction vals with
  | nil => intro st st' sm sm' h; simp only [applySettings, Option.some.injEq, Prod.mk.injEq] at h; rw [← h.1]
  | cons p ps ih =>
    intro st st' sm sm' h
    unfold applySettings at h
    split at h
    · cases h
    · rename_i st1 sm1 h1
      rw [ih h, applySetting_connIn h1]

theorem x_peerData {st : State} (id len pad : Nat) (es : Bool) (hfix : st.cfg.fixes.dataCredit = true)
    (hids : ∀ s ∈ st.streams, s.id ≠ 0) (hu : 0 ≤ st.connIn.unsent) :
    XStep st (peerData st id len pad es) ((len + pad : Nat) : Int) := by
  unfold peerData
  simp only
  split
  · split
    · left; rfl
    · split
      · rcases hT : Inflow.take st.connIn ((len + pad : Nat) : Int) with ⟨ci, ok⟩
        simp only
        split
        · left; rfl
        · rename_i ci' connAdd hadd
          split
          · left; rfl
          · rename_i hok
            have hok' : ok = true := by
              cases ok with
              | true => rfl
              | false => exact absurd rfl hok
            subst hok'
            obtain ⟨t1, t2⟩ := take_eq hT
            obtain ⟨a1, a2, a3⟩ := add_avail (by rw [t2]; exact hu) hadd
            right
            simp only [cc_wu0 _ a2]
            exact ⟨by omega, a3⟩
      · rename_i hz
        have : ((len + pad : Nat) : Int) = 0 := by omega
        rw [this]
        exact xstep_same rfl rfl hu
  · rename_i s hfs
    have hfl : findStream st.streams id = some s := by
      cases hf : findStream st.streams id with
      | none => rw [hf] at hfs; simp at hfs
      | some s0 =>
        rw [hf] at hfs
        simp only [Option.filter] at hfs
        split at hfs
        · cases hfs; rfl
        · cases hfs
    have hmem := findStream_mem hfl
    have hid0 : id ≠ 0 := by rw [← hmem.2]; exact hids s hmem.1
    split
    · exact x_discardData s (len + pad) hfix hu
    · split
      · rcases hT : takeInflows st.connIn s.inflow ((len + pad : Nat) : Int) with ⟨ci, si, ok⟩
        simp only
        split
        · left; rfl
        · rename_i hok
          have hok' : ok = true := by
            cases ok with
            | true => rfl
            | false => exact absurd rfl hok
          subst hok'
          obtain ⟨t1, t2, _, _⟩ := takeInflows_eq' hT
          split
          · left; rfl
          · rename_i ci' sendConn hc
            split
            · left; rfl
            · obtain ⟨a1, a2, a3⟩ := add_avail (by rw [t2]; exact hu) hc
              right
              simp only [connCredit_append, cc_wu0 _ a2, cc_wu _ _ hid0, settle_connIn_eq]
              exact ⟨by omega, a3⟩
      · rename_i hz
        have : ((len + pad : Nat) : Int) = 0 := by omega
        rw [this]
        exact xstep_same (settle_connIn_eq _ _) rfl hu

theorem x_peerResp {st : State} (id : Nat) (es : Bool) (status : Nat) (cl : Option Nat)
    (hu : 0 ≤ st.connIn.unsent) : XStep st (peerResp st id es status cl) 0 := by
  unfold peerResp
  split
  · exact xstep_same rfl rfl hu
  · split
    · exact xstep_same rfl rfl hu
    · split
      · exact xstep_same (terminate_connIn_eq _ _ _) (cc_terminate _ _ _) hu
      · split
        · split
          · exact xstep_same (terminate_connIn_eq _ _ _) (cc_terminate _ _ _) hu
          · split
            · split
              · exact xstep_same (terminate_connIn_eq _ _ _) (cc_terminate _ _ _) hu
              · exact xstep_same rfl rfl hu
            · exact xstep_same (settle_connIn_eq _ _) rfl hu
        · split
          · left; rfl
          · exact xstep_same (settle_connIn_eq _ _) rfl hu

theorem x_peerWindowUpdate {st : State} (id inc : Nat) (hu : 0 ≤ st.connIn.unsent) :
    XStep st (peerWindowUpdate st id inc) 0 := by
  unfold peerWindowUpdate
  split
  · split
    · left; rfl
    · split
      · exact xstep_same rfl rfl hu
      · left; rfl
  · split
    · exact xstep_same rfl rfl hu
    · split
      · exact xstep_same rfl rfl hu
      · split
        · exact xstep_same (terminate_connIn_eq _ _ _) (cc_terminate _ _ _) hu
        · split
          · exact xstep_same rfl rfl hu
          · exact xstep_same (terminate_connIn_eq _ _ _) (cc_terminate _ _ _) hu

theorem x_apply {st : State} (op : Op) (hfix : st.cfg.fixes.dataCredit = true)
    (hids : ∀ s ∈ st.streams, s.id ≠ 0) (hu : 0 ≤ st.connIn.unsent) :
    XStep st (apply st op) (peerBytes op) := by
  cases op with
  | openReq r => exact x_openStream r hu
  | feed id n =>
    simp only [apply, feed, peerBytes]
    split
    · exact xstep_same rfl rfl hu
    · split <;> exact xstep_same rfl rfl hu
  | write id => exact x_write id hu
  | cancel id =>
    simp only [apply, cancel, peerBytes]
    split
    · exact xstep_same rfl rfl hu
    · split
      · exact xstep_same (terminate_connIn_eq _ _ _) (cc_terminate _ _ _) hu
      · exact xstep_same rfl rfl hu
  | read id n =>
    simp only [apply, Conn.read, peerBytes]
    split
    · exact xstep_same rfl rfl hu
    · rename_i s hf
      have hmem := findStream_mem hf
      split
      · exact x_readK s _ (hids s hmem.1) hu
      · exact xstep_same rfl rfl hu
  | close id =>
    simp only [apply, close, peerBytes]
    split
    · exact xstep_same rfl rfl hu
    · rename_i s hf
      split
      · have := cc_closeStream st s { s with broken := true, buffered := 0 }
        exact x_creditConn _ _ this.2 this.1 hu
      · exact xstep_same rfl rfl hu
  | wake => exact xstep_same rfl rfl hu
  | peer f =>
    cases f with
    | settings vals =>
      simp only [apply, Conn.peer, peerSettings, peerBytes]
      split
      · left; rfl
      · rename_i st1 seenMax hsome
        have := applySettings_connIn hsome
        split
        · exact xstep_same this rfl hu
        · exact xstep_same this rfl hu
    | settingsAck =>
      simp only [apply, Conn.peer, peerSettingsAck, peerBytes]
      split
      · exact xstep_same rfl rfl hu
      · left; rfl
    | windowUpdate id inc => exact x_peerWindowUpdate id inc hu
    | rst id code =>
      simp only [apply, Conn.peer, peerRst, peerBytes]
      split
      · exact xstep_same rfl rfl hu
      · split
        · exact xstep_same rfl rfl hu
        · exact xstep_same (terminate_connIn_eq _ _ _) (cc_terminate _ _ _) hu
    | goaway last =>
      simp only [apply, Conn.peer, peerGoAway, peerBytes]
      have := cc_abortAbove last (st.streams.map (·.id)) { st with goAway := true }
      exact xstep_same this.2 this.1 hu
    | resp id es status cl => exact x_peerResp id es status cl hu
    | data id len pad es => exact x_peerData id len pad es hfix hids hu
    | ping ack d =>
      simp only [apply, Conn.peer, peerPing, peerBytes]
      split <;> exact xstep_same rfl rfl hu
    | pushPromise id p => left; rfl

/-! ### histories -/

def histCredit : List Event → Int
  | [] => 0
  | .c (.windowUpdate 0 inc) :: es => inc + histCredit es
  | _ :: es => histCredit es

def histPeerBytes : List Event → Int
  | [] => 0
  | .p (.data _ len pad _) :: es => ((len + pad : Nat) : Int) + histPeerBytes es
  | _ :: es => histPeerBytes es

theorem histCredit_append (a b : List Event) : histCredit (a ++ b) = histCredit a + histCredit b := by
  induction a with
  | nil => simp [histCredit]
  | cons e es ih =>
    cases e with
    | c f =>
      cases f with
      | windowUpdate id inc =>
        cases id with
        | zero => simp only [List.cons_append, histCredit, ih]; omega
        | succ k => simp only [List.cons_append, histCredit, ih]
      | _ => simp only [List.cons_append, histCredit, ih]
    | p f => simp only [List.cons_append, histCredit, ih]

theorem histPeerBytes_append (a b : List Event) :
    histPeerBytes (a ++ b) = histPeerBytes a + histPeerBytes b := by
  induction a with
  | nil => simp [histPeerBytes]
  | cons e es ih =>
    cases e with
    | c f => simp only [List.cons_append, histPeerBytes, ih]
    | p f =>
      cases f with
      | data id len pad es' => simp only [List.cons_append, histPeerBytes, ih]; omega
      | _ => simp only [List.cons_append, histPeerBytes, ih]

theorem histCredit_clients (fs : List Frame) : histCredit (fs.map Event.c) = connCredit fs := by
  induction fs with
  | nil => rfl
  | cons f fs ih =>
    cases f with
    | windowUpdate id inc =>
      cases id with
      | zero => simp only [List.map_cons, histCredit, connCredit, ih]
      | succ k => simp only [List.map_cons, histCredit, connCredit, ih]
    | _ => simp only [List.map_cons, histCredit, connCredit, ih]

theorem histPeerBytes_clients (fs : List Frame) : histPeerBytes (fs.map Event.c) = 0 := by
  induction fs with
  | nil => rfl
  | cons f fs ih => simp only [List.map_cons, histPeerBytes, ih]

theorem hist_opEvents (op : Op) (fs : List Frame) :
    histCredit (opEvents op fs) = connCredit fs ∧ histPeerBytes (opEvents op fs) = peerBytes op := by
  unfold opEvents
  rw [histCredit_append, histPeerBytes_append, histCredit_clients, histPeerBytes_clients]
  cases op with
  | peer f =>
    cases f with
    | data id len pad es => simp [histCredit, histPeerBytes, peerBytes]
    | _ => simp [histCredit, histPeerBytes, peerBytes]
  | _ => simp [histCredit, histPeerBytes, peerBytes]

/-- the peer's own books (the receive side of the strict monitor): its connection-level send
window is the initial 65535 plus the credit it was granted minus what it has sent -/
theorem recv_connWin : ∀ (h : List Event) {r0 r : Recv}, Recv.run r0 h = .ok r →
    r.connWin = r0.connWin + histCredit h - histPeerBytes h := by
  intro h
  induction h with
  | nil => intro r0 r hr; cases hr; simp [histCredit, histPeerBytes]
  | cons e es ih =>
    intro r0 r hr
    simp only [Recv.run] at hr
    cases hs : r0.step e with
    | error x => rw [hs] at hr; cases hr
    | ok r1 =>
      rw [hs] at hr
      have h1 := ih hr
      have h2 : r1.connWin = r0.connWin + histCredit [e] - histPeerBytes [e] := by
        cases e with
        | p f =>
          simp only [Recv.step] at hs
          cases hs
          cases f <;> simp [Recv.peer, histCredit, histPeerBytes] <;> omega
        | c f =>
          simp only [Recv.step] at hs
          cases f with
          | windowUpdate id inc =>
            simp only [Recv.client] at hs
            split at hs
            · cases hs
            · split at hs
              · rename_i hid
                subst hid
                split at hs
                · cases hs
                · cases hs; simp [histCredit, histPeerBytes]
              · rename_i hid
                have : histCredit [Event.c (Frame.windowUpdate id inc)] = 0 := by
                  cases id with
                  | zero => exact absurd rfl hid
                  | succ k => rfl
                split at hs
                · cases hs
                · split at hs
                  · cases hs; simp [this, histPeerBytes]
                  · split at hs
                    · cases hs
                    · cases hs; simp [this, histPeerBytes]
          | settings vals =>
            simp only [Recv.client] at hs
            split at hs
            · cases hs; simp [histCredit, histPeerBytes]
            · split at hs
              · cases hs
              · cases hs; simp [histCredit, histPeerBytes]
          | headers id len es' eh =>
            simp only [Recv.client] at hs
            split at hs <;> (cases hs; simp [histCredit, histPeerBytes])
          | _ => simp only [Recv.client] at hs; cases hs; simp [histCredit, histPeerBytes]
      have e1 : histCredit (e :: es) = histCredit [e] + histCredit es := by
        rw [← histCredit_append]; rfl
      have e2 : histPeerBytes (e :: es) = histPeerBytes [e] + histPeerBytes es := by
        rw [← histPeerBytes_append]; rfl
      omega

/-! ### the run -/

/-- the exactness invariant -/
def XInv (st : State) (hist : List Event) : Prop :=
  st.closed = true ∨
  (st.connIn.avail = 65535 + histCredit hist - histPeerBytes hist ∧ 0 ≤ st.connIn.unsent)

theorem x_step {st : State} {m : Send} {hist : List Event} (hs : SInv (view st) m) (h : XInv st hist) (op : Op) :
    XInv (step st op).1 (hist ++ (if st.closed then [] else opEvents op (step st op).2)) := by
  unfold step
  cases hc : st.closed with
  | true => simp only [if_true, List.append_nil]; left; exact hc
  | false =>
    simp only [Bool.false_eq_true, if_false]
    rcases h with h | ⟨h1, hu⟩
    · rw [hc] at h; cases h
    have hfix : st.cfg.fixes.dataCredit = true := by
      have := hs.fixes; simp only [view] at this; rw [this]; rfl
    have hids : ∀ s ∈ st.streams, s.id ≠ 0 := by
      intro s hmem
      have := hs.oddIds s hmem
      omega
    have ha := x_apply op hfix hids hu
    split
    · -- a waiting RoundTrip goes ahead: its HEADERS do not touch the window
      rcases ha with ha | ⟨a1, a2⟩
      · left
        unfold resumePending
        split
        · exact ha
        · simp only [ha, if_true]
      · have hr := x_resumePending (st := (apply st op).1) a2
        rcases hr with hr | ⟨b1, b2⟩
        · left; exact hr
        · right
          obtain ⟨e1, e2⟩ := hist_opEvents op ((apply st op).2 ++ (resumePending (apply st op).1).2)
          rw [histCredit_append, histPeerBytes_append, e1, e2, connCredit_append]
          refine ⟨?_, b2⟩
          show (resumePending (apply st op).1).1.connIn.avail = _
          omega
    · rcases ha with ha | ⟨a1, a2⟩
      · left; exact ha
      · right
        obtain ⟨e1, e2⟩ := hist_opEvents op (apply st op).2
        rw [histCredit_append, histPeerBytes_append, e1, e2]
        refine ⟨?_, a2⟩
        show (apply st op).1.connIn.avail = _
        omega

theorem x_runFrom (ops : List Op) (hok : ∀ op ∈ ops, op.ok) :
    ∀ {st : State} {m m0 : Send} {hist : List Event},
    Send.run m0 hist = .ok m → SInv (view st) m → XInv st hist →
    XInv (runFrom st hist ops).1 (runFrom st hist ops).2 := by
  induction ops with
  | nil => intro st m m0 hist _ _ h; exact h
  | cons op rest ih =>
    intro st m m0 hist hr hs h
    unfold runFrom
    obtain ⟨m1, h1, h2⟩ := sim_step hs op (hok op List.mem_cons_self)
    exact ih (fun o ho => hok o (List.mem_cons_of_mem _ ho)) (send_run_ok_append hr h1) h2 (x_step hs h op)

theorem xinv_init (cfg : Cfg) (hok : cfg.ok) : XInv (newConn cfg).1 ((newConn cfg).2.map Event.c) := by
  right
  have hcf := hok.2
  have hcf1 : 1 ≤ connFlowAdvertised cfg.connFlow := by
    unfold connFlowAdvertised transportDefaultConnFlow; split <;> omega
  have hci : connInflowInit cfg.connFlow = connFlowAdvertised cfg.connFlow + 65535 := by
    unfold connInflowInit
    have w1 : wrap32 (connFlowAdvertised cfg.connFlow) = connFlowAdvertised cfg.connFlow :=
      wrap32_of_in32 (by unfold In32; omega)
    rw [w1]
    exact wrap32_of_in32 (by unfold In32; omega)
  rw [histCredit_clients, histPeerBytes_clients]
  simp only [newConn, List.cons_append, List.nil_append, connCredit, hci]
  refine ⟨?_, by simp⟩
  have : connCredit ((cfg.prio.filter fun id => id ≠ 0 ∧ id < 2147483648).map Frame.priority) = 0 := by
    generalize (cfg.prio.filter fun id => id ≠ 0 ∧ id < 2147483648) = l
    induction l with
    | nil => rfl
    | cons a l ih => simp only [List.map_cons, connCredit, ih]
  rw [this]
  omega

end Req.Lemmas.C06
