import Req.H2.WriteSeq
import Req.Props.C05Inj
/-! Lemmas for `Req.Props.C05Seq`: the write half of the Framer as a state machine, sequences of
written frames read back, the complete description of one `checkFrameOrder` step. -/
set_option linter.unusedSimpArgs false
set_option linter.unusedVariables false
namespace Req.Lemmas.C05.Seq
open Req.H2.Frame Req.Proto

/-- what a plan amounts to when the Framer state is forgotten. -/
def Plan.stateless (p : Plan) : Except WErr Bytes :=
  match p.pre with
  | some e => .error e
  | none =>
    match p.mid with
    | some e => .error e
    | none => frameBytes p.t p.fl p.sid (p.first ++ p.last)

theorem hdr_len (t fl sid : Nat) : ([0, 0, 0, u8 t, u8 fl] ++ be32 sid : Bytes).length = 9 := by
  simp [be32]

theorem endWrite_eq (s : Sink) (out : Bytes) (t fl sid : Nat) (payload : Bytes) :
    endWrite s { wbuf := [0, 0, 0, u8 t, u8 fl] ++ be32 sid ++ payload, out := out } =
      if payload.length ≥ two24 then
        (.refused .frameTooLarge, { wbuf := [0, 0, 0, u8 t, u8 fl] ++ be32 sid ++ payload, out := out })
      else (s.result (headerBytes payload.length t fl sid ++ payload),
            { wbuf := headerBytes payload.length t fl sid ++ payload,
              out := out ++ s.taken (headerBytes payload.length t fl sid ++ payload) }) := by
  have hl : ([0, 0, 0, u8 t, u8 fl] ++ be32 sid ++ payload : Bytes).length - 9 = payload.length := by
    simp [be32]
  simp only [endWrite, hl]
  split
  · rfl
  · simp [headerBytes, be32]

/-- one plan on ANY Framer state: the result and the bytes handed to the underlying writer are
those of the stateless writer; the previous content of `wbuf` is gone. -/
theorem plan_run (p : Plan) (s : Sink) (w : Writer) :
    (p.run s w).1 = (match Plan.stateless p with
                      | .ok b => s.result b
                      | .error e => .refused e) ∧
    (p.run s w).2.out = w.out ++ (match Plan.stateless p with
                                  | .ok b => s.taken b
                                  | .error _ => []) := by
  unfold Plan.run Plan.stateless
  cases hpre : p.pre with
  | some e => simp
  | none =>
    cases hmid : p.mid with
    | some e => simp [put, startWrite]
    | none =>
      simp only [put, startWrite, List.take_zero, List.nil_append, List.append_assoc]
      have := endWrite_eq s w.out p.t p.fl p.sid (p.first ++ p.last)
      simp only [List.append_assoc] at this
      rw [this]
      unfold frameBytes
      split <;> simp

theorem firstErr_nil : firstErr [] = none := rfl

/-- every `Framer.Write*` entry point, statement by statement, is the stateless writer. -/
theorem plan_stateless (a : Bool) (op : WOp) : Plan.stateless (op.plan a) = op.writeA a := by
  cases op with
  | data sid es d pad =>
    simp only [WOp.plan, WOp.writeA, Plan.stateless, writeData, firstErr]
    by_cases h1 : (!validStreamID sid && !a) = true
    · simp [h1]
    · by_cases h2 : (pad.getD []).length > 255
      · simp [h1, h2]
      · by_cases h3 : (!a && (pad.getD []).any (· != 0)) = true
        · simp [h1, h2, h3]
        · simp [h1, h2, h3]
  | headers p =>
    simp only [WOp.plan, WOp.writeA, Plan.stateless, writeHeaders, firstErr]
    by_cases h1 : (!validStreamID p.streamID && !a) = true
    · simp [h1]
    · by_cases h2 : (!p.priority.isZero && !validStreamIDOrZero p.priority.streamDep && !a) = true
      · simp [h1, h2]
      · simp [h1, h2]
  | priority sid p =>
    simp only [WOp.plan, WOp.writeA, Plan.stateless, writePriority, firstErr]
    by_cases h1 : (!validStreamID sid && !a) = true
    · simp [h1]
    · by_cases h2 : (!validStreamIDOrZero p.streamDep) = true
      · simp [h1, h2]
      · simp [h1, h2]
  | rstStream sid c =>
    simp only [WOp.plan, WOp.writeA, Plan.stateless, writeRSTStream, firstErr]
    by_cases h1 : (!validStreamID sid && !a) = true
    · simp [h1]
    · simp [h1]
  | settings ss => simp [WOp.plan, WOp.writeA, Plan.stateless, writeSettings]
  | settingsAck => simp [WOp.plan, WOp.writeA, Plan.stateless, writeSettingsAck]
  | pushPromise p =>
    simp only [WOp.plan, WOp.writeA, Plan.stateless, writePushPromise, firstErr]
    by_cases h1 : (!validStreamID p.streamID && !a) = true
    · simp [h1]
    · by_cases h2 : (!validStreamID p.promiseID && !a) = true
      · simp [h1, h2]
      · simp [h1, h2]
  | ping ack d => simp [WOp.plan, WOp.writeA, Plan.stateless, writePing]
  | goAway m c d => simp [WOp.plan, WOp.writeA, Plan.stateless, writeGoAway]
  | windowUpdate sid i =>
    simp only [WOp.plan, WOp.writeA, Plan.stateless, writeWindowUpdate, firstErr]
    split <;> simp_all
  | continuation sid eh f =>
    simp only [WOp.plan, WOp.writeA, Plan.stateless, writeContinuation, firstErr]
    by_cases h1 : (!validStreamID sid && !a) = true
    · simp [h1]
    · simp [h1]
  | raw t fl sid p => simp [WOp.plan, WOp.writeA, Plan.stateless, writeRawFrame]

theorem writeA_false (op : WOp) : op.writeA false = op.write := by
  cases op <;> rfl

/-- one call on ANY Framer state. -/
theorem call_run (c : Call) (w : Writer) :
    (c.op.run c.allow c.sink w).1 = c.result ∧
    (c.op.run c.allow c.sink w).2.out = w.out ++ c.bytes := by
  have h := plan_run (c.op.plan c.allow) c.sink w
  rw [plan_stateless] at h
  refine ⟨h.1, ?_⟩
  unfold WOp.run Call.bytes Call.frame
  rw [h.2]
  cases c.op.writeA c.allow with
  | ok b => rfl
  | error e => cases c.sink <;> simp [Sink.taken]

theorem runCalls_spec (w : Writer) (calls : List Call) :
    (runCalls w calls).1 = calls.map Call.result ∧
    (runCalls w calls).2.out = w.out ++ (calls.map Call.bytes).flatten := by
  induction calls generalizing w with
  | nil => simp [runCalls]
  | cons c cs ih =>
    have hc := call_run c w
    have ih' := ih (c.op.run c.allow c.sink w).2
    simp only [runCalls, List.map_cons, List.flatten_cons]
    refine ⟨?_, ?_⟩
    · rw [ih'.1, hc.1]
    · rw [ih'.2, hc.2, List.append_assoc]

theorem refused_bytes (c : Call) (h : c.accepted = false) : c.bytes = [] := by
  unfold Call.accepted at h
  unfold Call.bytes Call.frame
  cases hw : c.op.writeA c.allow with
  | ok b => rw [hw] at h; cases h
  | error e => cases c.sink <;> simp [Sink.taken]

theorem filter_bytes (calls : List Call) :
    ((calls.filter Call.accepted).map Call.bytes).flatten = (calls.map Call.bytes).flatten := by
  induction calls with
  | nil => rfl
  | cons c cs ih =>
    by_cases h : c.accepted = true
    · simp [List.filter_cons, h, ih]
    · have h' : c.accepted = false := by simpa using h
      simp [List.filter_cons, h', ih, refused_bytes c h']

/-! ### one step of `checkFrameOrder`, completely -/

attribute [local simp] tData tHeaders tPriority tRSTStream tSettings tPushPromise tPing tGoAway
  tWindowUpdate tContinuation flagEndHeaders

theorem orderStep_open (l : Nat) (fh : FrameHeader) (hl : l ≠ 0) :
    orderStep l fh =
      if fh.type = tContinuation ∧ fh.streamID = l then
        some (if hasFlag fh.flags flagEndHeaders then 0 else l)
      else none := by
  unfold orderStep
  by_cases hc : fh.type = tContinuation
  · by_cases hs : fh.streamID = l
    · simp [hc, hs, hl]
    · simp [hc, hs, hl]
  · simp [hc, hl]

theorem orderStep_closed (fh : FrameHeader) :
    orderStep 0 fh =
      if fh.type = tContinuation then none
      else if fh.type = tHeaders ∧ hasFlag fh.flags flagEndHeaders = false then some fh.streamID
      else some 0 := by
  unfold orderStep
  by_cases hc : fh.type = tContinuation
  · simp [hc]
  · by_cases hh : fh.type = tHeaders
    · cases hf : hasFlag fh.flags flagEndHeaders <;> simp [hc, hh, hf]
    · simp [hc, hh]

/-! ### reading a written sequence back -/

/-- the typed parser accepts what a writer wrote on accepted arguments, with the frame of the
operation (independent of the reader state). -/
theorem parsePayload_wf (a : WOp) (h : a.Wf) : parsePayload a.hdr a.payload = .ok a.frame := by
  obtain ⟨out, hw, hrd⟩ := Req.Props.C05.every_write_read_back a h
  obtain ⟨hw', hl, ht, hf, hs⟩ := Req.Lemmas.C05.Inj.write_parts a h
  have e : out = _ := Except.ok.inj (hw.symm.trans hw')
  subst e
  let r0 : Reader := { maxReadSize := a.payload.length, lastHeaderStream := a.inBlock }
  have hr0 : Ready r0 a.payload.length a.inBlock := ⟨rfl, rfl, Nat.le_refl _⟩
  have h1 := hrd r0 [] hr0
  rw [List.append_assoc, Req.Lemmas.C05.H2.readFrame_frame r0 _ _ _ _ _ ht hf hs hl (Nat.le_refl _)] at h1
  unfold afterPayload at h1
  unfold WOp.hdr
  cases hp : parsePayload ⟨a.payload.length, a.typ, a.flags, a.sid⟩ a.payload with
  | error e => rw [hp] at h1; simp at h1
  | ok f =>
    rw [hp] at h1
    simp only at h1
    cases hc : checkFrameOrder r0 ⟨a.payload.length, a.typ, a.flags, a.sid⟩ with
    | error e => rw [hc] at h1; simp at h1
    | ok r' =>
      rw [hc] at h1
      simp only [Prod.mk.injEq, Except.ok.injEq] at h1
      rw [h1.1]

/-- `ReadFrame` on a written frame, in ANY header-block state. -/
theorem read_one (a : WOp) (h : a.Wf) (r : Reader) (rest : Bytes)
    (hlegal : r.allowIllegalReads = false) (hfit : a.payload.length ≤ r.maxReadSize) :
    readFrame r (headerBytes a.payload.length a.typ a.flags a.sid ++ a.payload ++ rest) =
      match orderStep r.lastHeaderStream a.hdr with
      | none => (.error (.conn errProtocol), r, rest)
      | some l => (.ok a.frame, { r with lastHeaderStream := l }, rest) := by
  obtain ⟨_, hl, ht, hf, hs⟩ := Req.Lemmas.C05.Inj.write_parts a h
  rw [List.append_assoc, Req.Lemmas.C05.H2.readFrame_frame r _ _ _ _ _ ht hf hs hl hfit]
  have hp := parsePayload_wf a h
  unfold WOp.hdr at hp ⊢
  unfold afterPayload
  rw [hp]
  simp only [checkFrameOrder, hlegal]
  cases orderStep r.lastHeaderStream ⟨a.payload.length, a.typ, a.flags, a.sid⟩ <;> simp

theorem read_seq (ops : List WOp) (hwf : ∀ a ∈ ops, a.Wf) (r : Reader) (rest : Bytes) (k : Nat)
    (hlegal : r.allowIllegalReads = false) (hfit : ∀ a ∈ ops, a.payload.length ≤ r.maxReadSize) :
    readAll (ops.length + k) r (wire ops ++ rest) =
      match runOrder r.lastHeaderStream (ops.map WOp.hdr) with
      | some l => readSpec r.lastHeaderStream ops ++ readAll k { r with lastHeaderStream := l } rest
      | none => readSpec r.lastHeaderStream ops := by
  induction ops generalizing r with
  | nil =>
    simp only [List.length_nil, Nat.zero_add, wire, List.nil_append, List.map_nil, runOrder, readSpec]
  | cons a as ih =>
    have ha := hwf a (by simp)
    have h1 := read_one a ha r (wire as ++ rest) hlegal (hfit a (by simp))
    have hlen : (a :: as).length + k = (as.length + k) + 1 := by simp; omega
    rw [hlen]
    simp only [wire, readAll, List.map_cons, runOrder, readSpec]
    rw [show headerBytes a.payload.length a.typ a.flags a.sid ++ a.payload ++ wire as ++ rest
        = headerBytes a.payload.length a.typ a.flags a.sid ++ a.payload ++ (wire as ++ rest) by simp]
    rw [h1]
    cases ho : orderStep r.lastHeaderStream a.hdr with
    | none => simp [RErr.terminal]
    | some l =>
      simp only
      have ih' := ih (fun b hb => hwf b (by simp [hb])) { r with lastHeaderStream := l } hlegal
        (fun b hb => hfit b (by simp [hb]))
      rw [ih']
      cases runOrder l (as.map WOp.hdr) <;> simp

/-- among the writers' accepted operations only `WriteContinuation` produces type 9. -/
theorem typ_continuation_iff (a : WOp) (h : a.Wf) :
    a.typ = tContinuation ↔ ∃ sid eh f, a = .continuation sid eh f := by
  cases a <;> simp [WOp.typ, tData, tHeaders, tPriority, tRSTStream, tSettings, tPushPromise, tPing,
    tGoAway, tWindowUpdate, tContinuation]
  case raw t fl sid p =>
    have := h.1
    omega

end Req.Lemmas.C05.Seq
