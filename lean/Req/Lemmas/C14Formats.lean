import Req.Client.CompressFormats
import Req.Lemmas.C14Auto
/-!
Run lemmas for the container automata of `Req.Client.CompressFormats`: what each piece of an
encoder's output does to the decoder.
-/
namespace Req.Compress.Fmt
open Req.Proto Req.Compress Req.Compress.Auto

theorem xor_compl (x : UInt8) : x ^^^ (x ^^^ 255) = 255 := by
  rw [← UInt8.xor_assoc, UInt8.xor_self, UInt8.zero_xor]

theorem le16_val (n : Nat) (h : n < 65536) :
    (UInt8.ofNat (n % 256)).toNat + 256 * (UInt8.ofNat (n / 256)).toNat = n := by
  simp [UInt8.toNat_ofNat']; omega

/-! ### DEFLATE -/

theorem deflate_lawful : deflate.Lawful := ⟨fun _ _ => rfl, fun _ h => by simp [deflate] at h⟩

theorem drun_silent (b : UInt8) (inp : Bytes) (s s' : DSt) (hp : dphase s = .working)
    (hs : dstep s b = (s', none)) : deflate.run (b :: inp) s = deflate.run inp s' := by
  rw [run_step deflate b inp s s' none hp hs]; simp [optList]

theorem run_data (f : Bool) (c : Bytes) (k : Nat) (h : c.length = k + 1) :
    deflate.run c (.data f k) = (afterBlock f, c, []) := by
  induction c generalizing k with
  | nil => simp at h
  | cons b c ih =>
    cases k with
    | zero =>
      have hc : c = [] := by simpa using h
      subst hc
      rw [run_step deflate b [] (.data f 0) (afterBlock f) (some b) rfl rfl]
      rfl
    | succ k =>
      have hc : c.length = k + 1 := by simpa using h
      rw [run_step deflate b c (.data f (k + 1)) (.data f k) (some b) rfl rfl, ih k hc]
      rfl

theorem step_hdr (f : Bool) : dstep .hdr (if f then 1 else 0) = (.len1 f, none) := by
  cases f <;> decide

theorem step_len4_zero (f : Bool) (a b : UInt8) (h : a.toNat + 256 * b.toNat = 0) :
    dstep (.len4 f a b (a ^^^ 255)) (b ^^^ 255) = (afterBlock f, none) := by
  simp [dstep, xor_compl, h]

theorem step_len4_succ (f : Bool) (a b : UInt8) (k : Nat) (h : a.toNat + 256 * b.toNat = k + 1) :
    dstep (.len4 f a b (a ^^^ 255)) (b ^^^ 255) = (.data f k, none) := by
  simp [dstep, xor_compl, h]

/-- a stored block read from a block boundary: its bytes come out, the decoder is at the next
block boundary (or done after the final block) -/
theorem run_block (f : Bool) (c : Bytes) (hc : c.length < 65536) :
    deflate.run (block f c) .hdr = (afterBlock f, c, []) := by
  simp only [block, le16, List.map_cons, List.map_nil, List.cons_append, List.nil_append]
  rw [drun_silent _ _ .hdr (.len1 f) rfl (step_hdr f),
    drun_silent _ _ (.len1 f) (.len2 f _) rfl rfl,
    drun_silent _ _ (.len2 f _) (.len3 f _ _) rfl rfl,
    drun_silent _ _ (.len3 f _ _) (.len4 f _ _ _) rfl rfl]
  have hv := le16_val c.length hc
  cases hl : c.length with
  | zero =>
    have : c = [] := List.eq_nil_of_length_eq_zero hl
    subst this
    rw [drun_silent _ _ (.len4 f _ _ _) (afterBlock f) rfl (step_len4_zero f _ _ (by simp))]
    rfl
  | succ k =>
    rw [hl] at hv
    rw [drun_silent _ _ (.len4 f _ _ _) (.data f k) rfl (step_len4_succ f _ _ k hv)]
    exact run_data f c k hl

/-- what the encoder may be asked to store: every block at most 65535 bytes long -/
def okChunks (cs : List Bytes) (last : Bytes) : Prop :=
  (∀ c ∈ cs, c.length < 65536) ∧ last.length < 65536

theorem run_stored (cs : List Bytes) (last : Bytes) (h : okChunks cs last) :
    deflate.run (stored cs last) .hdr = (.done, cs.flatten ++ last, []) := by
  induction cs with
  | nil =>
    simp only [stored, List.map_nil, List.flatten_nil, List.nil_append]
    exact run_block true last h.2
  | cons c cs ih =>
    have hc : c.length < 65536 := h.1 c (by simp)
    have ih' := ih ⟨fun x hx => h.1 x (by simp [hx]), h.2⟩
    have e : stored (c :: cs) last = block false c ++ stored cs last := by
      simp [stored, List.append_assoc]
    rw [e, run_seq deflate _ _ .hdr (afterBlock false) c (run_block false c hc)]
    show ((deflate.run (stored cs last) .hdr).1, c ++ (deflate.run (stored cs last) .hdr).2.1,
      (deflate.run (stored cs last) .hdr).2.2) = _
    rw [ih']; simp

/-- **stored_unit** — the stored-block encoding of a payload, cut into blocks anywhere, is a
complete DEFLATE stream with exactly that payload as output. -/
theorem stored_unit (cs : List Bytes) (last : Bytes) (h : okChunks cs last) :
    deflate.IsUnit (stored cs last) (cs.flatten ++ last) :=
  ⟨.done, run_stored cs last h, rfl⟩

/-! ### gzip -/

variable (S : Sums)

theorem afterComment_nf (flg : UInt8) (hc : UInt32) : gfresh (afterComment flg hc) = false := by
  unfold afterComment enterBody; split <;> rfl

theorem afterName_nf (flg : UInt8) (hc : UInt32) : gfresh (afterName flg hc) = false := by
  unfold afterName; split
  · rfl
  · exact afterComment_nf flg hc

theorem afterExtra_nf (flg : UInt8) (hc : UInt32) : gfresh (afterExtra flg hc) = false := by
  unfold afterExtra; split
  · rfl
  · exact afterName_nf flg hc

theorem afterFixed_nf (flg : UInt8) (hc : UInt32) : gfresh (afterFixed flg hc) = false := by
  unfold afterFixed; split
  · rfl
  · exact afterExtra_nf flg hc

theorem gstep_not_fresh (s : GSt) (b : UInt8) : gfresh (gstep S s b).1 = false := by
  cases s with
  | fixed i ok flg hc =>
    simp only [gstep]
    generalize okNext i ok b = ok'
    by_cases h9 : i < 9
    · simp [h9, gfresh]
    · cases ok'
      · simp [h9, gfresh]
      · simp only [h9, if_false, if_true]
        exact afterFixed_nf _ _
  | xlen1 flg hc => rfl
  | xlen2 flg hc lo =>
    simp only [gstep]; split
    · exact afterExtra_nf _ _
    · rfl
  | extra flg hc k =>
    cases k with
    | zero => exact afterExtra_nf _ _
    | succ k => rfl
  | name flg hc i =>
    simp only [gstep]; split
    · exact afterName_nf _ _
    · split <;> rfl
  | comment flg hc i =>
    simp only [gstep]; split
    · exact afterComment_nf _ _
    · split <;> rfl
  | hcrc1 hc => rfl
  | hcrc2 hc lo => simp only [gstep]; split <;> rfl
  | body d crc size => simp only [gstep]; split <;> rfl
  | trailer crc size got =>
    simp only [gstep]; split
    · rfl
    · split <;> rfl
  | done => rfl
  | failed e => rfl

theorem gzip1_lawful : (gzip1 S).Lawful := by
  constructor
  · exact gstep_not_fresh S
  · intro s h
    cases s with
    | fixed i ok flg hc => rfl
    | _ => simp [gzip1, gfresh] at h

theorem gzip1_init_working : (gzip1 S).phase (gzip1 S).init = .working := rfl
theorem gzip1_init_fresh : (gzip1 S).fresh (gzip1 S).init = true := rfl

theorem grun_silent (b : UInt8) (inp : Bytes) (s s' : GSt) (hp : gphase s = .working)
    (hs : gstep S s b = (s', none)) : (gzip1 S).run (b :: inp) s = (gzip1 S).run inp s' := by
  rw [run_step (gzip1 S) b inp s s' none hp hs]; simp [optList]

theorem crc_append (c : UInt32) (a b : Bytes) : S.crc c (a ++ b) = S.crc (S.crc c a) b := by
  simp [Sums.crc, List.foldl_append]

/-- the ten fixed bytes of a well-formed header -/
theorem run_fixed (h : GzHeader) (r : Bytes) :
    (gzip1 S).run (h.fixedPart ++ r) gInit =
      (gzip1 S).run r (afterFixed h.flg (S.crc 0 h.fixedPart)) := by
  simp only [GzHeader.fixedPart, List.cons_append, List.nil_append, gInit]
  rw [grun_silent S _ _ _ _ rfl rfl, grun_silent S _ _ _ _ rfl rfl, grun_silent S _ _ _ _ rfl rfl,
    grun_silent S _ _ _ _ rfl rfl, grun_silent S _ _ _ _ rfl rfl, grun_silent S _ _ _ _ rfl rfl,
    grun_silent S _ _ _ _ rfl rfl, grun_silent S _ _ _ _ rfl rfl, grun_silent S _ _ _ _ rfl rfl,
    grun_silent S _ _ _ _ rfl rfl]
  rfl

/-! flag bits -/

theorem flg_hcrc (t c e n k : Bool) : (flgOf t c e n k &&& 2 ≠ 0) ↔ c = true := by
  cases t <;> cases c <;> cases e <;> cases n <;> cases k <;> decide
theorem flg_extra (t c e n k : Bool) : (flgOf t c e n k &&& 4 ≠ 0) ↔ e = true := by
  cases t <;> cases c <;> cases e <;> cases n <;> cases k <;> decide
theorem flg_name (t c e n k : Bool) : (flgOf t c e n k &&& 8 ≠ 0) ↔ n = true := by
  cases t <;> cases c <;> cases e <;> cases n <;> cases k <;> decide
theorem flg_comment (t c e n k : Bool) : (flgOf t c e n k &&& 16 ≠ 0) ↔ k = true := by
  cases t <;> cases c <;> cases e <;> cases n <;> cases k <;> decide

/-- skipping the FEXTRA bytes -/
theorem run_skip (flg : UInt8) (hc : UInt32) (k : Nat) (e r : Bytes) (h : e.length = k + 1) :
    (gzip1 S).run (e ++ r) (.extra flg hc k) = (gzip1 S).run r (afterExtra flg (S.crc hc e)) := by
  induction e generalizing hc k with
  | nil => simp at h
  | cons b e ih =>
    cases k with
    | zero =>
      have he : e = [] := by simpa using h
      subst he
      rw [List.cons_append, grun_silent S _ _ _ _ rfl rfl]
      rfl
    | succ k =>
      have he : e.length = k + 1 := by simpa using h
      rw [List.cons_append, grun_silent S _ _ (.extra flg hc (k + 1)) (.extra flg (S.crcUpd hc b) k) rfl rfl,
        ih _ k he]
      rfl

theorem step_xlen2_zero (flg : UInt8) (hc : UInt32) (lo b : UInt8) (h : lo.toNat + 256 * b.toNat = 0) :
    gstep S (.xlen2 flg hc lo) b = (afterExtra flg (S.crcUpd hc b), none) := by
  simp [gstep, h]

theorem step_xlen2_succ (flg : UInt8) (hc : UInt32) (lo b : UInt8) (k : Nat)
    (h : lo.toNat + 256 * b.toNat = k + 1) :
    gstep S (.xlen2 flg hc lo) b = (.extra flg (S.crcUpd hc b) k, none) := by
  simp [gstep, h]

theorem run_extra (flg : UInt8) (hc : UInt32) (e r : Bytes) (he : e.length < 65536) :
    (gzip1 S).run (le16 e.length ++ e ++ r) (.xlen1 flg hc) =
      (gzip1 S).run r (afterExtra flg (S.crc hc (le16 e.length ++ e))) := by
  simp only [le16, List.cons_append, List.nil_append]
  rw [grun_silent S _ _ _ _ rfl rfl]
  have hv := le16_val e.length he
  cases hl : e.length with
  | zero =>
    have : e = [] := List.eq_nil_of_length_eq_zero hl
    subst this
    rw [grun_silent S _ _ (.xlen2 flg _ _) _ rfl (step_xlen2_zero S flg _ _ _ (by simp))]
    rfl
  | succ k =>
    rw [hl] at hv
    rw [grun_silent S _ _ (.xlen2 flg _ _) _ rfl (step_xlen2_succ S flg _ _ _ k hv),
      run_skip S flg _ k e r hl]
    rfl

theorem run_name (flg : UInt8) (hc : UInt32) (i : Nat) (n r : Bytes) (hz : noZero n)
    (hl : i + n.length < stringLimit) :
    (gzip1 S).run (n ++ 0 :: r) (.name flg hc i) =
      (gzip1 S).run r (afterName flg (S.crc hc (n ++ [0]))) := by
  induction n generalizing hc i with
  | nil =>
    rw [List.nil_append, grun_silent S _ _ _ (afterName flg (S.crcUpd hc 0)) rfl (by simp [gstep])]
    rfl
  | cons b n ih =>
    have hb : b ≠ 0 := hz b (by simp)
    have hl' : i + 1 + n.length < stringLimit := by simp at hl; omega
    have hi : i + 1 < stringLimit := by omega
    rw [List.cons_append, grun_silent S _ _ _ (.name flg (S.crcUpd hc b) (i + 1)) rfl
      (by simp [gstep, hb, hi]), ih _ (i + 1) (fun x hx => hz x (by simp [hx])) hl']
    rfl

theorem run_comment (flg : UInt8) (hc : UInt32) (i : Nat) (n r : Bytes) (hz : noZero n)
    (hl : i + n.length < stringLimit) :
    (gzip1 S).run (n ++ 0 :: r) (.comment flg hc i) =
      (gzip1 S).run r (afterComment flg (S.crc hc (n ++ [0]))) := by
  induction n generalizing hc i with
  | nil =>
    rw [List.nil_append, grun_silent S _ _ _ (afterComment flg (S.crcUpd hc 0)) rfl (by simp [gstep])]
    rfl
  | cons b n ih =>
    have hb : b ≠ 0 := hz b (by simp)
    have hl' : i + 1 + n.length < stringLimit := by simp at hl; omega
    have hi : i + 1 < stringLimit := by omega
    rw [List.cons_append, grun_silent S _ _ _ (.comment flg (S.crcUpd hc b) (i + 1)) rfl
      (by simp [gstep, hb, hi]), ih _ (i + 1) (fun x hx => hz x (by simp [hx])) hl']
    rfl

theorem run_hcrc (hc : UInt32) (r : Bytes) :
    (gzip1 S).run ((le32 hc).take 2 ++ r) (.hcrc1 hc) = (gzip1 S).run r enterBody := by
  simp only [le32, List.take, List.cons_append, List.nil_append]
  rw [grun_silent S _ _ _ _ rfl rfl,
    grun_silent S _ _ (.hcrc2 hc _) enterBody rfl (by simp [gstep, le32])]

/-- the optional parts of a well-formed header, each from the state the previous one leaves -/
theorem run_optExtra (h : GzHeader) (wf : h.WF) (hc : UInt32) (r : Bytes) :
    (gzip1 S).run (optExtra h.extra ++ r) (afterFixed h.flg hc) =
      (gzip1 S).run r (afterExtra h.flg (S.crc hc (optExtra h.extra))) := by
  cases he : h.extra with
  | none =>
    have : ¬ (h.flg &&& 4 ≠ 0) := by
      rw [GzHeader.flg, flg_extra, he]; simp
    rw [afterFixed, if_neg this]
    rfl
  | some e =>
    have : h.flg &&& 4 ≠ 0 := by
      rw [GzHeader.flg, flg_extra, he]; simp
    rw [afterFixed, if_pos this]
    simp only [optExtra]
    exact run_extra S h.flg hc e r (wf.extra e he)

theorem run_optName (h : GzHeader) (wf : h.WF) (hc : UInt32) (r : Bytes) :
    (gzip1 S).run (optString h.name ++ r) (afterExtra h.flg hc) =
      (gzip1 S).run r (afterName h.flg (S.crc hc (optString h.name))) := by
  have hw := wf.name
  cases he : h.name with
  | none =>
    have : ¬ (h.flg &&& 8 ≠ 0) := by
      rw [GzHeader.flg, flg_name, he]; simp
    rw [afterExtra, if_neg this]
    rfl
  | some n =>
    have : h.flg &&& 8 ≠ 0 := by
      rw [GzHeader.flg, flg_name, he]; simp
    rw [he] at hw
    rw [afterExtra, if_pos this]
    simp only [optString, List.append_assoc, List.cons_append, List.nil_append]
    exact run_name S h.flg hc 0 n r hw.1 (by simpa using hw.2)

theorem run_optComment (h : GzHeader) (wf : h.WF) (hc : UInt32) (r : Bytes) :
    (gzip1 S).run (optString h.comment ++ r) (afterName h.flg hc) =
      (gzip1 S).run r (afterComment h.flg (S.crc hc (optString h.comment))) := by
  have hw := wf.comment
  cases he : h.comment with
  | none =>
    have : ¬ (h.flg &&& 16 ≠ 0) := by
      rw [GzHeader.flg, flg_comment, he]; simp
    rw [afterName, if_neg this]
    rfl
  | some n =>
    have : h.flg &&& 16 ≠ 0 := by
      rw [GzHeader.flg, flg_comment, he]; simp
    rw [he] at hw
    rw [afterName, if_pos this]
    simp only [optString, List.append_assoc, List.cons_append, List.nil_append]
    exact run_comment S h.flg hc 0 n r hw.1 (by simpa using hw.2)

theorem run_optHcrc (h : GzHeader) (hc : UInt32) (r : Bytes) :
    (gzip1 S).run ((if h.hcrc then (le32 hc).take 2 else []) ++ r) (afterComment h.flg hc) =
      (gzip1 S).run r enterBody := by
  cases he : h.hcrc with
  | false =>
    have : ¬ (h.flg &&& 2 ≠ 0) := by
      rw [GzHeader.flg, flg_hcrc, he]; simp
    rw [afterComment, if_neg this]
    rfl
  | true =>
    have : h.flg &&& 2 ≠ 0 := by
      rw [GzHeader.flg, flg_hcrc, he]
    rw [afterComment, if_pos this]
    exact run_hcrc S hc r

/-- a well-formed header, whatever its flags and fields, takes the reader to the body -/
theorem run_header (h : GzHeader) (wf : h.WF) (r : Bytes) :
    (gzip1 S).run (h.bytes S ++ r) gInit = (gzip1 S).run r enterBody := by
  simp only [GzHeader.bytes, GzHeader.covered, List.append_assoc]
  rw [run_fixed, run_optExtra S h wf, run_optName S h wf, run_optComment S h wf]
  simp only [← crc_append]
  simp only [← List.append_assoc]
  simp only [List.append_assoc]
  exact run_optHcrc S h _ r

/-! body and trailer -/

theorem crc_optList (c : UInt32) (o : Option UInt8) :
    (match o with | some x => S.crcUpd c x | none => c) = S.crc c (optList o) := by
  cases o <;> rfl

theorem size_optList (n : Nat) (o : Option UInt8) :
    (match o with | some _ => n + 1 | none => n) = n + (optList o).length := by
  cases o <;> rfl

/-- the DEFLATE stream inside a member: what `compress/flate` releases goes out unchanged and
into the running CRC-32 and size; when it is done the trailer is next -/
theorem run_body (w : Bytes) (d : DSt) (crc : UInt32) (size : Nat) (o : Bytes)
    (hd : dphase d = .working) (h : deflate.run w d = (.done, o, [])) :
    (gzip1 S).run w (.body d crc size) = (.trailer (S.crc crc o) (size + o.length) [], o, []) := by
  induction w generalizing d crc size o with
  | nil =>
    have h1 : d = .done := congrArg Prod.fst h
    subst h1
    simp [dphase] at hd
  | cons b w ih =>
    have hp : (gzip1 S).phase (.body d crc size) = .working := rfl
    have hdw : deflate.phase d = .working := hd
    rw [run_cons_working deflate b w d hdw] at h
    generalize hdb : deflate.step d b = r at h
    have hdb' : dstep d b = r := hdb
    obtain ⟨d1, o1⟩ := r
    have h1 : (deflate.run w d1).1 = .done := congrArg Prod.fst h
    have h2 : optList o1 ++ (deflate.run w d1).2.1 = o := congrArg (fun x => x.2.1) h
    have h3 : (deflate.run w d1).2.2 = [] := congrArg (fun x => x.2.2) h
    cases hph : dphase d1 with
    | done =>
      have hnw : deflate.phase d1 ≠ .working := by
        intro hc
        rw [show deflate.phase d1 = dphase d1 from rfl, hph] at hc
        cases hc
      rw [run_stopped deflate w d1 hnw] at h2 h3
      have hw : w = [] := h3
      subst hw
      have hs : gstep S (.body d crc size) b =
          (.trailer (S.crc crc (optList o1)) (size + (optList o1).length) [], o1) := by
        simp only [gstep, hdb', hph]
        cases o1 <;> rfl
      rw [run_step (gzip1 S) b [] _ _ _ hp hs]
      have ho : o = optList o1 := by
        have : optList o1 ++ [] = o := h2
        simpa using this.symm
      subst ho
      show ((GSt.trailer (S.crc crc (optList o1)) (size + (optList o1).length) [] : GSt),
        optList o1 ++ [], ([] : Bytes)) = _
      rw [List.append_nil]
      rfl
    | failed e =>
      have hnw : deflate.phase d1 ≠ .working := by
        intro hc
        rw [show deflate.phase d1 = dphase d1 from rfl, hph] at hc
        cases hc
      rw [run_stopped deflate w d1 hnw] at h1
      have h1' : d1 = .done := h1
      subst h1'
      cases hph
    | working =>
      have hs : gstep S (.body d crc size) b =
          (.body d1 (S.crc crc (optList o1)) (size + (optList o1).length), o1) := by
        simp only [gstep, hdb', hph]
        cases o1 <;> rfl
      have hrun : deflate.run w d1 = (.done, (deflate.run w d1).2.1, []) := by
        apply Prod.ext
        · exact h1
        · apply Prod.ext
          · rfl
          · exact h3
      have := ih d1 (S.crc crc (optList o1)) (size + (optList o1).length) _ hph hrun
      rw [run_step (gzip1 S) b w _ _ _ hp hs, this, ← h2]
      show (GSt.trailer _ _ [], _, ([] : Bytes)) = (GSt.trailer _ _ [], _, ([] : Bytes))
      simp [crc_append, Nat.add_assoc]

theorem run_trailer (crc : UInt32) (size : Nat) (r : Bytes) :
    (gzip1 S).run (le32 crc ++ le32 (UInt32.ofNat size) ++ r) (.trailer crc size []) =
      (.done, [], r) := by
  simp only [le32, List.cons_append, List.nil_append]
  rw [grun_silent S _ _ _ _ rfl rfl, grun_silent S _ _ _ _ rfl rfl, grun_silent S _ _ _ _ rfl rfl,
    grun_silent S _ _ _ _ rfl rfl, grun_silent S _ _ _ _ rfl rfl, grun_silent S _ _ _ _ rfl rfl,
    grun_silent S _ _ _ _ rfl rfl,
    grun_silent S _ _ (.trailer crc size _) .done rfl (by simp [gstep, le32])]
  exact run_stopped (gzip1 S) r .done (by intro hc; cases hc)

/-- **run_member** — a gzip member produced by the encoder, with any header fields and any
block structure: the decoder consumes exactly the member, releases the payload and is done. -/
theorem run_member (h : GzHeader) (wf : h.WF) (cs : List Bytes) (last : Bytes)
    (hc : okChunks cs last) (r : Bytes) :
    (gzip1 S).run (gzMember S h cs last ++ r) gInit = (.done, cs.flatten ++ last, r) := by
  simp only [gzMember, List.append_assoc]
  rw [run_header S h wf]
  have hb := run_body S (stored cs last) .hdr 0 0 (cs.flatten ++ last) rfl (run_stored cs last hc)
  rw [enterBody, run_seq (gzip1 S) _ _ _ _ _ hb]
  simp only [Nat.zero_add]
  have ht := run_trailer S (S.crc 0 (cs.flatten ++ last)) (cs.flatten ++ last).length r
  simp only [List.append_assoc] at ht
  rw [ht]
  simp

theorem member_unit (h : GzHeader) (wf : h.WF) (cs : List Bytes) (last : Bytes)
    (hc : okChunks cs last) :
    (gzip1 S).IsUnit (gzMember S h cs last) (cs.flatten ++ last) := by
  refine ⟨.done, ?_, rfl⟩
  have := run_member S h wf cs last hc []
  rw [List.append_nil] at this
  exact this

/-! ### damaged streams -/

theorem gfailed_stop (e : Term) (r : Bytes) :
    (gzip1 S).run r (.failed e) = (.failed e, [], r) :=
  run_stopped (gzip1 S) r (.failed e) (by intro hc; cases hc)

theorem okNext_ge3 (i : Nat) (ok : Bool) (b : UInt8) (h : 3 ≤ i) : okNext i ok b = ok := by
  obtain ⟨j, rfl⟩ : ∃ j, i = j + 3 := ⟨i - 3, by omega⟩
  rfl

/-- once the magic/method bytes were wrong, the rest of the ten bytes is read and then the
header is rejected -/
theorem run_fixed_bad (i : Nat) (flg : UInt8) (hc : UInt32) (g r : Bytes) (h3 : 3 ≤ i) (h9 : i ≤ 9)
    (hg : i + g.length = 10) :
    (gzip1 S).run (g ++ r) (.fixed i false flg hc) = (.failed errCorrupt, [], r) := by
  induction g generalizing i flg hc with
  | nil => simp at hg; omega
  | cons b g ih =>
    by_cases hi : i < 9
    · rw [List.cons_append, grun_silent S b _ (.fixed i false flg hc)
        (.fixed (i + 1) false (if i = 3 then b else flg) (S.crcUpd hc b)) rfl
        (by simp [gstep, hi, okNext_ge3 i false b h3])]
      exact ih (i + 1) _ _ (by omega) (by omega) (by simp at hg; omega)
    · have h9' : i = 9 := by omega
      subst h9'
      have hgn : g = [] := by
        have : g.length = 0 := by simp at hg; omega
        exact List.eq_nil_of_length_eq_zero this
      subst hgn
      rw [List.cons_append, List.nil_append, grun_silent S b r (.fixed 9 false flg hc)
        (.failed errCorrupt) rfl (by simp [gstep, okNext])]
      exact gfailed_stop S _ r

/-- ten bytes that are not `1f 8b 08 …`: `gzip.ErrHeader`, nothing delivered -/
theorem run_bad_magic (b0 b1 b2 b3 b4 b5 b6 b7 b8 b9 : UInt8) (r : Bytes)
    (h : ¬(b0 = 0x1f ∧ b1 = 0x8b ∧ b2 = 8)) :
    (gzip1 S).run (b0 :: b1 :: b2 :: b3 :: b4 :: b5 :: b6 :: b7 :: b8 :: b9 :: r) gInit =
      (.failed errCorrupt, [], r) := by
  have hok : okNext 2 (okNext 1 (okNext 0 true b0) b1) b2 = false := by
    simp only [okNext]
    by_cases h0 : b0 = 0x1f
    · by_cases h1 : b1 = 0x8b
      · by_cases h2 : b2 = 8
        · exact absurd ⟨h0, h1, h2⟩ h
        · simp [h2]
      · simp [h1]
    · simp [h0]
  simp only [gInit]
  rw [grun_silent S b0 _ (.fixed 0 true 0 0) (.fixed 1 (okNext 0 true b0) 0 (S.crcUpd 0 b0)) rfl rfl,
    grun_silent S b1 _ (.fixed 1 _ 0 _) (.fixed 2 (okNext 1 (okNext 0 true b0) b1) 0 _) rfl rfl,
    grun_silent S b2 _ (.fixed 2 _ 0 _)
      (.fixed 3 (okNext 2 (okNext 1 (okNext 0 true b0) b1) b2) 0 _) rfl rfl, hok]
  exact run_fixed_bad S 3 0 _ [b3, b4, b5, b6, b7, b8, b9] r (by omega) (by omega) rfl

/-- up to nine bytes: the reader is still collecting the fixed header -/
theorem run_fixed_partial (i : Nat) (ok : Bool) (flg : UInt8) (hc : UInt32) (g : Bytes)
    (hg : i + g.length ≤ 9) :
    ∃ ok' flg' hc', (gzip1 S).run g (.fixed i ok flg hc) = (.fixed (i + g.length) ok' flg' hc', [], []) := by
  induction g generalizing i ok flg hc with
  | nil => exact ⟨ok, flg, hc, rfl⟩
  | cons b g ih =>
    have hi : i < 9 := by simp at hg; omega
    obtain ⟨ok', flg', hc', h⟩ := ih (i + 1) (okNext i ok b) (if i = 3 then b else flg) (S.crcUpd hc b)
      (by simp at hg; omega)
    refine ⟨ok', flg', hc', ?_⟩
    rw [grun_silent S b g (.fixed i ok flg hc)
      (.fixed (i + 1) (okNext i ok b) (if i = 3 then b else flg) (S.crcUpd hc b)) rfl
      (by simp [gstep, hi]), h]
    simp [Nat.add_assoc, Nat.add_comm 1]

/-- the eight trailer bytes do not say what was computed: `gzip.ErrChecksum` -/
theorem run_trailer_bad (crc : UInt32) (size : Nat) (t0 t1 t2 t3 t4 t5 t6 t7 : UInt8) (r : Bytes)
    (h : [t0, t1, t2, t3, t4, t5, t6, t7] ≠ le32 crc ++ le32 (UInt32.ofNat size)) :
    (gzip1 S).run (t0 :: t1 :: t2 :: t3 :: t4 :: t5 :: t6 :: t7 :: r) (.trailer crc size []) =
      (.failed errCorrupt, [], r) := by
  rw [grun_silent S _ _ _ _ rfl rfl, grun_silent S _ _ _ _ rfl rfl, grun_silent S _ _ _ _ rfl rfl,
    grun_silent S _ _ _ _ rfl rfl, grun_silent S _ _ _ _ rfl rfl, grun_silent S _ _ _ _ rfl rfl,
    grun_silent S _ _ _ _ rfl rfl,
    grun_silent S _ _ (.trailer crc size _) (.failed errCorrupt) rfl (by
      simp only [gstep, List.nil_append, List.cons_append, List.length_cons, List.length_nil]
      simp [h])]
  exact gfailed_stop S _ r

/-- FHCRC present and wrong: `gzip.ErrHeader` -/
theorem run_hcrc_bad (hc : UInt32) (x y : UInt8) (r : Bytes) (h : [x, y] ≠ (le32 hc).take 2) :
    (gzip1 S).run (x :: y :: r) (.hcrc1 hc) = (.failed errCorrupt, [], r) := by
  rw [grun_silent S _ _ _ _ rfl rfl,
    grun_silent S _ _ (.hcrc2 hc x) (.failed errCorrupt) rfl (by simp [gstep, h])]
  exact gfailed_stop S _ r

/-- a header whose FHCRC field is wrong -/
theorem run_header_bad_hcrc (h : GzHeader) (wf : h.WF) (hh : h.hcrc = true) (x y : UInt8) (r : Bytes)
    (hne : [x, y] ≠ (le32 (S.crc 0 h.covered)).take 2) :
    (gzip1 S).run (h.covered ++ x :: y :: r) gInit = (.failed errCorrupt, [], r) := by
  simp only [GzHeader.covered, List.append_assoc]
  rw [run_fixed, run_optExtra S h wf, run_optName S h wf, run_optComment S h wf]
  simp only [← crc_append]
  have : h.flg &&& 2 ≠ 0 := by rw [GzHeader.flg, flg_hcrc, hh]
  rw [afterComment, if_pos this]
  simp only [GzHeader.covered] at hne
  exact run_hcrc_bad S _ x y r hne

/-! DEFLATE level -/

theorem dfailed_stop (e : Term) (r : Bytes) : deflate.run r (.failed e) = (.failed e, [], r) :=
  run_stopped deflate r (.failed e) (by intro hc; cases hc)

/-- block type 11 -/
theorem run_reserved_type (b : UInt8) (r : Bytes) (h : (b >>> 1) &&& 3 = 3) :
    deflate.run (b :: r) .hdr = (.failed errCorrupt, [], r) := by
  rw [drun_silent b r .hdr (.failed errCorrupt) rfl (by simp [dstep, h])]
  exact dfailed_stop _ r

/-- NLEN is not the complement of LEN -/
theorem run_bad_nlen (b l0 l1 n0 n1 : UInt8) (r : Bytes) (hb : (b >>> 1) &&& 3 = 0)
    (h : ¬(l0 ^^^ n0 = 255 ∧ l1 ^^^ n1 = 255)) :
    deflate.run (b :: l0 :: l1 :: n0 :: n1 :: r) .hdr = (.failed errCorrupt, [], r) := by
  rw [drun_silent b _ .hdr (.len1 (b &&& 1 == 1)) rfl (by simp [dstep, hb]),
    drun_silent _ _ (.len1 _) (.len2 _ _) rfl rfl, drun_silent _ _ (.len2 _ _) (.len3 _ _ _) rfl rfl,
    drun_silent _ _ (.len3 _ _ _) (.len4 _ _ _ _) rfl rfl,
    drun_silent n1 r (.len4 _ l0 l1 n0) (.failed errCorrupt) rfl (by simp [dstep, h])]
  exact dfailed_stop _ r

/-- a DEFLATE error inside a member is the member's error; what was released before it went
out -/
theorem run_body_failed (w : Bytes) (d : DSt) (crc : UInt32) (size : Nat) (o rest : Bytes) (e : Term)
    (hd : dphase d = .working) (h : deflate.run w d = (.failed e, o, rest)) :
    (gzip1 S).run w (.body d crc size) = (.failed e, o, rest) := by
  induction w generalizing d crc size o with
  | nil =>
    have h1 : d = .failed e := congrArg Prod.fst h
    subst h1
    simp [dphase] at hd
  | cons b w ih =>
    have hp : (gzip1 S).phase (.body d crc size) = .working := rfl
    have hdw : deflate.phase d = .working := hd
    rw [run_cons_working deflate b w d hdw] at h
    generalize hdb : deflate.step d b = r at h
    have hdb' : dstep d b = r := hdb
    obtain ⟨d1, o1⟩ := r
    have h1 : (deflate.run w d1).1 = .failed e := congrArg Prod.fst h
    have h2 : optList o1 ++ (deflate.run w d1).2.1 = o := congrArg (fun x => x.2.1) h
    have h3 : (deflate.run w d1).2.2 = rest := congrArg (fun x => x.2.2) h
    cases hph : dphase d1 with
    | done =>
      have hnw : deflate.phase d1 ≠ .working := by
        intro hc
        rw [show deflate.phase d1 = dphase d1 from rfl, hph] at hc
        cases hc
      rw [run_stopped deflate w d1 hnw] at h1
      have h1' : d1 = .failed e := h1
      subst h1'
      cases hph
    | failed e' =>
      have hnw : deflate.phase d1 ≠ .working := by
        intro hc
        rw [show deflate.phase d1 = dphase d1 from rfl, hph] at hc
        cases hc
      rw [run_stopped deflate w d1 hnw] at h1 h2 h3
      have h1' : d1 = .failed e := h1
      subst h1'
      have he : e' = e := by
        have : Phase.failed e = Phase.failed e' := hph
        cases this; rfl
      subst he
      have hs : gstep S (.body d crc size) b = (.failed e', o1) := by
        simp only [gstep, hdb', hph]
      have hw : w = rest := h3
      have ho : optList o1 ++ [] = o := h2
      rw [run_step (gzip1 S) b w _ _ _ hp hs, gfailed_stop S e' w, ← ho, hw]
    | working =>
      have hs : gstep S (.body d crc size) b =
          (.body d1 (S.crc crc (optList o1)) (size + (optList o1).length), o1) := by
        simp only [gstep, hdb', hph]
        cases o1 <;> rfl
      have hrun : deflate.run w d1 = (.failed e, (deflate.run w d1).2.1, rest) := by
        apply Prod.ext
        · exact h1
        · apply Prod.ext
          · rfl
          · exact h3
      have := ih d1 (S.crc crc (optList o1)) (size + (optList o1).length) _ hph hrun
      rw [run_step (gzip1 S) b w _ _ _ hp hs, this, ← h2]

end Req.Compress.Fmt
