import Req.Pool.Cancel
/-!
Helper lemmas for C08: a measure that every internal action strictly decreases
(so internal runs are short, whatever the state), and frame facts of the actions.
-/
set_option linter.unusedSimpArgs false
set_option linter.unusedVariables false
namespace Req.Cancel

def phaseRank : Phase → Nat
  | .done => 0
  | .retrySleep => 1
  | .waitConn | .dialing | .handshaking => 10
  | _ => 2

def b2n (b : Bool) : Nat := if b then 1 else 0

/-- goroutines alive + things still held -/
def rest (r : Res) : Nat :=
  b2n (r.conn == .owned) + b2n r.writer + b2n r.reader + b2n r.watch + b2n r.closing + b2n r.bodyOpen

/-- pending work: caller's phase + `rest` + (h2) the caller still has to notice the cancellation -/
def mu (cfg : Cfg) (s : St) : Nat :=
  phaseRank s.phase + rest s.res +
  (if cfg.stack == .h2 && s.phase.inflight && !s.res.rtAbort then 2 else 0)

/-- the bound K of `cancel_prompt` -/
def K : Nat := 18

theorem b2n_le (b : Bool) : b2n b ≤ 1 := by cases b <;> simp [b2n]

theorem rest_le (r : Res) : rest r ≤ 6 := by
  unfold rest
  have h1 := b2n_le (r.conn == .owned)
  have h2 := b2n_le r.writer
  have h3 := b2n_le r.reader
  have h4 := b2n_le r.watch
  have h5 := b2n_le r.closing
  have h6 := b2n_le r.bodyOpen
  omega

theorem mu_le_K (cfg : Cfg) (s : St) : mu cfg s ≤ K := by
  unfold mu K
  have h1 := rest_le s.res
  have h7 : phaseRank s.phase ≤ 10 := by cases s.phase <;> simp [phaseRank]
  split <;> omega

theorem finish_phase (cfg : Cfg) (s : St) (r : Result) :
    (finish cfg s r).phase = .done ∨ (finish cfg s r).phase = .retrySleep := by
  unfold finish; split <;> simp

theorem finish_res (cfg : Cfg) (s : St) (r : Result) : (finish cfg s r).res = s.res := by
  unfold finish; split <;> rfl

theorem finish_ctx (cfg : Cfg) (s : St) (r : Result) : (finish cfg s r).ctx = s.ctx := by
  unfold finish; split <;> rfl

theorem finish_sleepsDone (cfg : Cfg) (s : St) (r : Result) :
    (finish cfg s r).sleepsDone = s.sleepsDone := by
  unfold finish; split <;> rfl

theorem finish_rank_le (cfg : Cfg) (s : St) (r : Result) :
    phaseRank (finish cfg s r).phase ≤ 1 := by
  rcases finish_phase cfg s r with h | h <;> simp [h, phaseRank]

theorem finish_not_inflight (cfg : Cfg) (s : St) (r : Result) :
    (finish cfg s r).phase.inflight = false := by
  rcases finish_phase cfg s r with h | h <;> simp [h, Phase.inflight]

theorem finishBody_phase (cfg : Cfg) (s : St) (r : Result) :
    (finishBody cfg s r).phase = .done ∨ (finishBody cfg s r).phase = .retrySleep := by
  unfold finishBody; split
  · exact finish_phase cfg s r
  · simp

theorem finishBody_res (cfg : Cfg) (s : St) (r : Result) : (finishBody cfg s r).res = s.res := by
  unfold finishBody; split
  · exact finish_res cfg s r
  · rfl

theorem finishBody_ctx (cfg : Cfg) (s : St) (r : Result) : (finishBody cfg s r).ctx = s.ctx := by
  unfold finishBody; split
  · exact finish_ctx cfg s r
  · rfl

theorem finishBody_sleepsDone (cfg : Cfg) (s : St) (r : Result) :
    (finishBody cfg s r).sleepsDone = s.sleepsDone := by
  unfold finishBody; split
  · exact finish_sleepsDone cfg s r
  · rfl

theorem finishBody_rank_le (cfg : Cfg) (s : St) (r : Result) :
    phaseRank (finishBody cfg s r).phase ≤ 1 := by
  rcases finishBody_phase cfg s r with h | h <;> simp [h, phaseRank]

theorem finishBody_not_inflight (cfg : Cfg) (s : St) (r : Result) :
    (finishBody cfg s r).phase.inflight = false := by
  rcases finishBody_phase cfg s r with h | h <;> simp [h, Phase.inflight]

theorem closeBody_bodyOpen (r : Res) : r.closeBody.bodyOpen = false := by
  unfold Res.closeBody; split <;> simp_all

end Req.Cancel

namespace Req.Cancel

@[simp] theorem b2n_true : b2n true = 1 := rfl
@[simp] theorem b2n_false : b2n false = 0 := rfl

theorem closeBody_fields (r : Res) :
    r.closeBody.closing = r.closing ∧ r.closeBody.writer = r.writer ∧ r.closeBody.reader = r.reader ∧
    r.closeBody.watch = r.watch ∧ r.closeBody.stream = r.stream ∧ r.closeBody.conn = r.conn ∧
    r.closeBody.connErr = r.connErr ∧ r.closeBody.rtAbort = r.rtAbort ∧ r.closeBody.pipeErr = r.pipeErr := by
  unfold Res.closeBody; split <;> simp
@[simp] theorem cb_closing (r : Res) : r.closeBody.closing = r.closing := (closeBody_fields r).1
@[simp] theorem cb_writer (r : Res) : r.closeBody.writer = r.writer := (closeBody_fields r).2.1
@[simp] theorem cb_reader (r : Res) : r.closeBody.reader = r.reader := (closeBody_fields r).2.2.1
@[simp] theorem cb_watch (r : Res) : r.closeBody.watch = r.watch := (closeBody_fields r).2.2.2.1
@[simp] theorem cb_stream (r : Res) : r.closeBody.stream = r.stream := (closeBody_fields r).2.2.2.2.1
@[simp] theorem cb_conn (r : Res) : r.closeBody.conn = r.conn := (closeBody_fields r).2.2.2.2.2.1
@[simp] theorem cb_connErr (r : Res) : r.closeBody.connErr = r.connErr := (closeBody_fields r).2.2.2.2.2.2.1
@[simp] theorem cb_rtAbort (r : Res) : r.closeBody.rtAbort = r.rtAbort := (closeBody_fields r).2.2.2.2.2.2.2.1
@[simp] theorem cb_pipeErr (r : Res) : r.closeBody.pipeErr = r.pipeErr := (closeBody_fields r).2.2.2.2.2.2.2.2
@[simp] theorem cb_bodyOpen (r : Res) : r.closeBody.bodyOpen = false := closeBody_bodyOpen r

attribute [simp] finish_res finish_ctx finish_sleepsDone finish_not_inflight
attribute [simp] finishBody_res finishBody_ctx finishBody_sleepsDone finishBody_not_inflight

theorem rank_inflight {p : Phase} (h : p.inflight = true) : phaseRank p = 2 := by
  revert h; cases p <;> simp [Phase.inflight, phaseRank]
theorem rank_body {p : Phase} (h : p.body = true) : phaseRank p = 2 := by
  revert h; cases p <;> simp [Phase.body, phaseRank]
theorem rank_preConn {p : Phase} (h : p.preConn = true) : phaseRank p = 10 := by
  revert h; cases p <;> simp [Phase.preConn, phaseRank]
theorem preConn_not_inflight {p : Phase} (h : p.preConn = true) : p.inflight = false := by
  revert h; cases p <;> simp [Phase.preConn, Phase.inflight]
theorem body_not_inflight {p : Phase} (h : p.body = true) : p.inflight = false := by
  revert h; cases p <;> simp [Phase.body, Phase.inflight]

theorem stack_cases (st : Stack) : st = .h1 ∨ st = .h2 ∨ st = .h3 := by cases st <;> simp
@[simp] theorem rank_wh : phaseRank .writingHeaders = 2 := rfl
@[simp] theorem rank_wb (i) : phaseRank (.writingBody i) = 2 := rfl
@[simp] theorem rank_ah : phaseRank .awaitingHeaders = 2 := rfl
@[simp] theorem rank_rb (i) : phaseRank (.readingBody i) = 2 := rfl
@[simp] theorem rank_done : phaseRank .done = 0 := rfl
@[simp] theorem rank_rs : phaseRank .retrySleep = 1 := rfl
@[simp] theorem infl_wh : Phase.inflight .writingHeaders = true := rfl
@[simp] theorem infl_wb (i) : Phase.inflight (.writingBody i) = true := rfl
@[simp] theorem infl_ah : Phase.inflight .awaitingHeaders = true := rfl
@[simp] theorem infl_done : Phase.inflight .done = false := rfl
@[simp] theorem infl_rs : Phase.inflight .retrySleep = false := rfl

@[simp] theorem conn_co : (Conn.closed == Conn.owned) = false := by decide
@[simp] theorem conn_po : (Conn.pooled == Conn.owned) = false := by decide
@[simp] theorem conn_ro : (Conn.ready == Conn.owned) = false := by decide
@[simp] theorem conn_oo : (Conn.owned == Conn.owned) = true := by decide

theorem mu_finish_le (cfg : Cfg) (s : St) (r : Result) : mu cfg (finish cfg s r) ≤ 1 + rest s.res := by
  have := finish_rank_le cfg s r
  simp [mu]; omega

theorem mu_finishBody_le (cfg : Cfg) (s : St) (r : Result) :
    mu cfg (finishBody cfg s r) ≤ 1 + rest s.res := by
  have := finishBody_rank_le cfg s r
  simp [mu]; omega

@[simp] theorem release_owned (c : Conn) : (c.release = .owned) = False := by cases c <;> simp [Conn.release]
@[simp] theorem release_ready (c : Conn) : (c.release = .ready) = (c = .ready) := by cases c <;> simp [Conn.release]
@[simp] theorem release_bgDial (c : Conn) : (c.release = .bgDial) = (c = .bgDial) := by cases c <;> simp [Conn.release]
@[simp] theorem release_closed (c : Conn) : (c.release = .closed) = (c = .closed) := by cases c <;> simp [Conn.release]
@[simp] theorem release_none (c : Conn) : (c.release = .none) = (c = .none) := by cases c <;> simp [Conn.release]
@[simp] theorem release_beq_owned (c : Conn) : (c.release == .owned) = false := by cases c <;> decide
@[simp] theorem release_beq_ready (c : Conn) : (c.release == .ready) = (c == .ready) := by cases c <;> decide
@[simp] theorem unready_ready (c : Conn) : (c.unready = .ready) = False := by cases c <;> simp [Conn.unready]
@[simp] theorem unready_owned (c : Conn) : (c.unready = .owned) = (c = .owned) := by cases c <;> simp [Conn.unready]
@[simp] theorem unready_bgDial (c : Conn) : (c.unready = .bgDial) = (c = .bgDial) := by cases c <;> simp [Conn.unready]
@[simp] theorem unready_closed (c : Conn) : (c.unready = .closed) = (c = .closed) := by cases c <;> simp [Conn.unready]
@[simp] theorem unready_none (c : Conn) : (c.unready = .none) = (c = .none) := by cases c <;> simp [Conn.unready]
@[simp] theorem unready_beq_owned (c : Conn) : (c.unready == .owned) = (c == .owned) := by cases c <;> decide
@[simp] theorem unready_beq_ready (c : Conn) : (c.unready == .ready) = false := by cases c <;> decide
@[simp] theorem giveUp_ready (h) (c : Conn) : (c.afterGiveUp h = .ready) = False := by cases c <;> cases h <;> simp [Conn.afterGiveUp]
@[simp] theorem giveUp_owned (h) (c : Conn) : (c.afterGiveUp h = .owned) = (c = .owned) := by cases c <;> cases h <;> simp [Conn.afterGiveUp]
@[simp] theorem giveUp_closed (h) (c : Conn) : (c.afterGiveUp h = .closed) = (c = .closed) := by cases c <;> cases h <;> simp [Conn.afterGiveUp]
@[simp] theorem giveUp_bgDial (h) (c : Conn) : (c.afterGiveUp h = .bgDial) = (c = .bgDial ∧ h = false) := by cases c <;> cases h <;> simp [Conn.afterGiveUp]
@[simp] theorem giveUp_beq_owned (h) (c : Conn) : (c.afterGiveUp h == .owned) = (c == .owned) := by cases c <;> cases h <;> decide
@[simp] theorem h3Fail_owned (d) (c : Conn) : (c.afterH3Fail d = .owned) = False := by cases c <;> cases d <;> simp [Conn.afterH3Fail]
@[simp] theorem h3Fail_ready (d) (c : Conn) : (c.afterH3Fail d = .ready) = (c = .ready) := by cases c <;> cases d <;> simp [Conn.afterH3Fail]
@[simp] theorem h3Fail_bgDial (d) (c : Conn) : (c.afterH3Fail d = .bgDial) = (c = .bgDial) := by cases c <;> cases d <;> simp [Conn.afterH3Fail]
@[simp] theorem h3Fail_beq_owned (d) (c : Conn) : (c.afterH3Fail d == .owned) = false := by cases c <;> cases d <;> decide
@[simp] theorem kill_open (t : Stream) : (t.kill = .open) = False := by cases t <;> simp [Stream.kill]
@[simp] theorem kill_reset (t : Stream) : (t.kill = .reset) = (t = .open ∨ t = .reset) := by cases t <;> simp [Stream.kill]
@[simp] theorem kill_none (t : Stream) : (t.kill = .none) = (t = .none) := by cases t <;> simp [Stream.kill]
@[simp] theorem kill_closed (t : Stream) : (t.kill = .closed) = (t = .closed) := by cases t <;> simp [Stream.kill]
@[simp] theorem kill_bne_open (t : Stream) : (t.kill != .open) = true := by cases t <;> decide

@[simp] theorem cb_closes (r : Res) : r.closeBody.closes = if r.bodyOpen then r.closes + 1 else r.closes := by
  unfold Res.closeBody; split <;> simp_all

/-- every internal action strictly decreases the measure — in any state whatsoever -/
theorem mu_dec (cfg : Cfg) (s : St) (a : Act) (h : guard cfg s a = true) :
    mu cfg (apply cfg s a) < mu cfg s := by
  have hb := fun b => b2n_le b
  cases a <;> simp only [guard, Bool.and_eq_true, beq_iff_eq, Bool.not_eq_true', Bool.or_eq_true] at h
  case deliver =>
    obtain ⟨h1, h2⟩ := h
    have h3 := rank_preConn h1
    have h4 := preConn_not_inflight h1
    have w := b2n_le s.res.writer; have r := b2n_le s.res.reader; have wa := b2n_le s.res.watch
    have c := b2n_le s.res.closing; have b := b2n_le s.res.bodyOpen
    rcases stack_cases cfg.stack with hs | hs | hs
    · simp (config := {decide := true}) [mu, rest, apply, startInflight, hs, h2, h3, h4]
      omega
    · simp (config := {decide := true}) [mu, rest, apply, startInflight, hs, h2, h3, h4]
      split <;> omega
    · simp (config := {decide := true}) [mu, rest, apply, startInflight, hs, h2, h3, h4]
      split <;> rename_i hc <;> simp [hc] <;> omega
  case preConnCancel =>
    obtain ⟨h1, h2⟩ := h
    have h3 := rank_preConn h1
    have h4 := preConn_not_inflight h1
    simp only [apply]
    refine Nat.lt_of_le_of_lt (mu_finish_le _ _ _) ?_
    have := hb s.res.bodyOpen
    simp [mu, rest, h3, h4]
    omega
  case h1RtCancel =>
    obtain ⟨⟨⟨h1, h2⟩, h3⟩, h4⟩ := h
    simp [mu, rest, apply, h1, h2, h4]
  case h1WriterExit =>
    simp [mu, rest, apply, h]
  case h1WriterFail =>
    simp [mu, rest, apply, h]; omega
  case h1ReaderStop =>
    simp [mu, rest, apply, h]
  case h1RtReturn =>
    obtain ⟨⟨⟨h1, h2⟩, h3⟩, h4⟩ := h
    have h5 := rank_inflight h2
    simp only [apply]
    refine Nat.lt_of_le_of_lt (mu_finish_le _ _ _) ?_
    have := hb s.res.bodyOpen
    simp [mu, rest, h5]
    omega
  case h1ReaderCancel =>
    obtain ⟨⟨⟨⟨h1, h2⟩, h3⟩, h4⟩, h5⟩ := h
    simp [mu, rest, apply, h1, h2, h3, h5]; omega
  case h1BodyReadFail =>
    obtain ⟨⟨h1, h2⟩, h3⟩ := h
    have h5 := rank_body h2
    simp only [apply]
    refine Nat.lt_of_le_of_lt (mu_finishBody_le _ _ _) ?_
    simp [mu, h5]
    omega
  case h2RtCancel =>
    obtain ⟨⟨⟨h1, h2⟩, h3⟩, h4⟩ := h
    simp [mu, rest, apply, h1, h2, h4]
    have := hb (s.res.closing || s.res.bodyOpen); have := hb s.res.closing
    omega
  case h2Closer =>
    simp [mu, rest, apply, h]; omega
  case h2RtReturn =>
    obtain ⟨⟨⟨h1, h2⟩, h3⟩, h4⟩ := h
    have h5 := rank_inflight h2
    simp only [apply]
    refine Nat.lt_of_le_of_lt (mu_finish_le _ _ _) ?_
    simp [mu, h5]
    omega
  case h2RtAbortReturn =>
    obtain ⟨⟨⟨⟨h1, h2⟩, h3⟩, h4⟩, h6⟩ := h
    have h5 := rank_inflight h2
    simp only [apply]
    refine Nat.lt_of_le_of_lt (mu_finish_le _ _ _) ?_
    simp [mu, h5]
    omega
  case h2WriterAbort =>
    obtain ⟨⟨⟨h1, h2⟩, h3⟩, h4⟩ := h
    simp [mu, rest, apply, h1, h2, h4]
    have := hb s.res.bodyOpen
    omega
  case h2BodyReadFail =>
    obtain ⟨⟨h1, h2⟩, h3⟩ := h
    have h5 := rank_body h2
    simp only [apply]
    refine Nat.lt_of_le_of_lt (mu_finishBody_le _ _ _) ?_
    simp [mu, h5]
    omega
  case h3WatchFire =>
    obtain ⟨⟨h1, h2⟩, h3⟩ := h
    simp [mu, rest, apply, h1, h2]
  case h3WriterStop =>
    obtain ⟨⟨h1, h2⟩, h3⟩ := h
    simp [mu, rest, apply, h1, h2]
    have := hb s.res.bodyOpen
    omega
  case h3RtReturn =>
    obtain ⟨⟨⟨h1, h2⟩, h3⟩, h4⟩ := h
    have h5 := rank_inflight h2
    simp only [apply]
    refine Nat.lt_of_le_of_lt (mu_finish_le _ _ _) ?_
    simp [mu, rest, h5]
    omega
  case h3BodyReadFail =>
    obtain ⟨⟨h1, h2⟩, h3⟩ := h
    have h5 := rank_body h2
    simp only [apply]
    refine Nat.lt_of_le_of_lt (mu_finishBody_le _ _ _) ?_
    simp [mu, rest, h5]
    omega
  case sleepWake =>
    obtain ⟨⟨h1, h2⟩, h3⟩ := h
    simp [mu, apply, h1]

end Req.Cancel
