import Req.Lemmas.H1Parse
import Req.Props.C16
/-! Assembly lemmas for Props/C01 `h1_fidelity`: every line the HTTP/1.1 writer emits is
well-formed, and the framing an origin derives from the header block is the writer's. -/
namespace Req.H1.Origin
open Req.Proto Req.Ascii Req.BStr Req.H1 Req.Validate Req.HeaderSort Req.Props.C16

/-! ### bytes of names and values -/

set_option maxRecDepth 100000 in
theorem tokenByte_fact (b : UInt8) : (!isTokenByte b || (b != 58 && b != 13 && b != 32)) = true :=
  Req.U8.all (fun b => !isTokenByte b || (b != 58 && b != 13 && b != 32)) (by decide) b

theorem validName_ok (k : Bytes) (h : validHeaderFieldName k = true) :
    k ≠ [] ∧ ∀ b ∈ k, b ≠ 58 ∧ b ≠ 13 := by
  unfold validHeaderFieldName at h
  simp only [Bool.and_eq_true, Bool.not_eq_true', List.all_eq_true] at h
  refine ⟨by intro hk; simp [hk] at h, ?_⟩
  intro b hb
  have h1 := h.2 b hb
  have h2 := tokenByte_fact b
  rw [h1] at h2
  simp only [Bool.not_true, Bool.false_or, Bool.and_eq_true, bne_iff_ne, ne_eq] at h2
  exact ⟨h2.1.1, h2.1.2⟩

set_option maxRecDepth 100000 in
theorem hostByte_fact (b : UInt8) : (!validHostByte b || b != 13) = true :=
  Req.U8.all (fun b => !validHostByte b || b != 13) (by decide) b

theorem trimLeft_subset (s : Bytes) : ∀ b ∈ trimLeft s, b ∈ s := by
  induction s with
  | nil => simp [trimLeft]
  | cons c t ih =>
    intro b hb
    unfold trimLeft at hb
    split at hb
    · exact List.mem_cons_of_mem _ (ih b hb)
    · exact hb

theorem trimString_subset (s : Bytes) : ∀ b ∈ trimString s, b ∈ s := by
  intro b hb
  unfold trimString at hb
  have h1 := trimLeft_subset _ b (List.mem_reverse.mp hb)
  exact trimLeft_subset _ b (List.mem_reverse.mp h1)

/-- a sanitised value never holds CR or LF: no caller value can start a new line. -/
theorem sanitizeValue_no_crlf (v : Bytes) : ∀ b ∈ sanitizeValue v, b ≠ 13 ∧ b ≠ 10 := by
  intro b hb
  unfold sanitizeValue at hb
  have := trimString_subset _ b hb
  unfold newlineToSpace at this
  obtain ⟨c, _, rfl⟩ := List.mem_map.mp this
  split
  · decide
  next h => simp only [Bool.or_eq_true, beq_iff_eq, not_or] at h; exact ⟨h.2, h.1⟩

theorem cutLast_append (sep : UInt8) (s a b : Bytes) (h : cutLast sep s = some (a, b)) : a ++ b = s := by
  induction s generalizing a b with
  | nil => simp [cutLast] at h
  | cons c t ih =>
    unfold cutLast at h
    cases hc : cutLast sep t with
    | some p =>
      obtain ⟨a', b'⟩ := p
      simp only [hc, Option.some.injEq, Prod.mk.injEq] at h
      obtain ⟨rfl, rfl⟩ := h
      simp [ih a' b' hc]
    | none =>
      simp only [hc] at h
      split at h
      · simp only [Option.some.injEq, Prod.mk.injEq] at h
        obtain ⟨rfl, rfl⟩ := h
        rfl
      · exact absurd h (by simp)

theorem removeZone_subset (h : Bytes) : ∀ b ∈ removeZone h, b ∈ h := by
  intro b hb
  unfold removeZone at hb
  split at hb
  · exact hb
  · cases h1 : cutLast 93 h with
    | none => simpa [h1] using hb
    | some p =>
      obtain ⟨inside, fromB⟩ := p
      simp only [h1] at hb
      have e1 := cutLast_append 93 h inside fromB h1
      cases h2 : cutLast 37 inside with
      | none => simpa [h2] using hb
      | some q =>
        obtain ⟨before, pz⟩ := q
        simp only [h2] at hb
        have e2 := cutLast_append 37 inside before pz h2
        rw [← e1, ← e2]
        simp only [List.mem_append] at hb ⊢
        rcases hb with hb | hb
        · exact Or.inl (Or.inl hb)
        · exact Or.inr hb

theorem wireHost_no_cr (r : WReq) (host : Bytes) (h : wireHost r = .ok host) : ∀ b ∈ host, b ≠ 13 := by
  unfold wireHost at h
  simp only at h
  generalize (if r.host.isEmpty = true then r.url.host else r.host) = h0 at h
  by_cases ha : isASCII h0 = true
  · simp only [ha, Bool.not_true, Bool.false_eq_true, if_false] at h
    by_cases hv : validHostHeader h0 = true
    · simp only [hv, Bool.not_true, Bool.false_eq_true, if_false, Except.ok.injEq] at h
      subst h
      intro b hb
      have hb' := removeZone_subset _ b hb
      unfold validHostHeader at hv
      have h1 := List.all_eq_true.mp hv b hb'
      have h2 := hostByte_fact b
      rw [h1] at h2
      simpa using h2
    · have hv' : validHostHeader h0 = false := by simpa using hv
      simp only [hv', Bool.not_false, if_true] at h
      split at h
      · exact absurd h (by simp)
      · simp only [Except.ok.injEq] at h; subst h; simp
  · have ha' : isASCII h0 = false := by simpa using ha
    simp [ha'] at h

/-! ### the lines of the header block -/

theorem renderFields_eq (h : Hdr) : renderFields h = renderLines (linesOf h) := by
  unfold renderFields renderLines linesOf
  induction h with
  | nil => rfl
  | cons kv t ih =>
    simp only [List.flatMap_cons, List.flatMap_append, ih]
    congr 1
    unfold renderField renderLine
    simp [List.flatMap_map]

/-- what `h1_fidelity` asks of the parts the writer does NOT validate or sanitise itself. -/
structure Valid (r : WReq) (host : Bytes) (f : Framing) : Prop where
  /-- the method has no SP / CR (`validMethod` — token bytes — in `Transport.roundTrip`) -/
  method_ok : ∀ b ∈ methodOrGet r.method, b ≠ 32 ∧ b ≠ 13
  /-- the request target is non-empty and has no SP / CR (CR is checked by the writer; a raw SP in
  the caller's own URL query is not — see notes) -/
  target_ok : requestTarget r host ≠ [] ∧ ∀ b ∈ requestTarget r host, b ≠ 32 ∧ b ≠ 13
  /-- the User-Agent value has no CR (`validateHeaders` in `Transport.roundTrip`; the writer does
  not sanitise this one value) -/
  ua_ok : ∀ b ∈ hdrFirst r.header sUserAgent, b ≠ 13
  /-- no framing header smuggled in under a spelling the exclusion table does not know -/
  framing_hdr : ∀ kv ∈ r.header, (lower kv.key == sTE || lower kv.key == sCL) = true →
      reqWriteExcludeHeader.contains kv.key = true
  framing_extra : ∀ kv ∈ r.extra, (lower kv.key == sTE || lower kv.key == sCL) = false
  /-- the body, if sent, is framed (everything except CONNECT's raw tunnel) -/
  framed : f.sendBody = true → f.chunked = true ∨ 0 ≤ f.cl

set_option maxRecDepth 10000 in
theorem ownKeys_lineok : ∀ k ∈ ownKeysH1, k ≠ [] ∧ ∀ b ∈ k, b ≠ 58 ∧ b ≠ 13 := by decide

set_option maxRecDepth 10000 in
theorem const_values_no_cr :
    (∀ b ∈ defaultUserAgent, b ≠ 13) ∧ (∀ b ∈ sClose, b ≠ 13) ∧ (∀ b ∈ sChunked, b ≠ 13) := by
  decide

theorem own_values_no_cr (r : WReq) (host : Bytes) (f : Framing)
    (hh : ∀ b ∈ host, b ≠ 13) (hua : ∀ b ∈ hdrFirst r.header sUserAgent, b ≠ 13) :
    ∀ kv ∈ ownFieldsH1 r host f, ∀ v ∈ kv.values, ∀ b ∈ v, b ≠ 13 := by
  intro kv hkv v hv b hb
  unfold ownFieldsH1 framingFields at hkv
  simp only [List.mem_append, List.mem_singleton] at hkv
  rcases hkv with ((hkv | hkv) | hkv | hkv)
  · subst hkv
    simp only [List.mem_singleton] at hv; subst hv
    exact hh b hb
  · have := mem_ite_r hkv
    subst this
    simp only [List.mem_singleton] at hv; subst hv
    split at hb
    · exact hua b hb
    · exact const_values_no_cr.1 b hb
  · have := mem_ite_l hkv
    subst this
    simp only [List.mem_singleton] at hv; subst hv
    exact const_values_no_cr.2.1 b hb
  · rcases mem_ite_lr hkv with h | h
    · subst h
      simp only [List.mem_singleton] at hv; subst hv
      exact natToDec_no_cr _ b hb
    · subst h
      simp only [List.mem_singleton] at hv; subst hv
      exact const_values_no_cr.2.2 b hb

theorem callerFields_lineok (h : Hdr) (ex : List Bytes) :
    ∀ l ∈ linesOf (callerFields h ex), LineOK l := by
  intro ⟨k, v⟩ hl
  obtain ⟨kv, hkv, rfl, hv⟩ := mem_linesOf hl
  have hname := (callerFields_mem_key hkv).2
  obtain ⟨hne, hb⟩ := validName_ok _ hname
  refine ⟨hne, hb, ?_⟩
  unfold callerFields at hkv
  obtain ⟨kv0, _, rfl⟩ := List.mem_map.mp hkv
  simp only [List.mem_map] at hv
  obtain ⟨v0, _, rfl⟩ := hv
  intro b hb'
  exact (sanitizeValue_no_crlf v0 b hb').1

/-- every header line the writer emits is one the origin can read back. -/
theorem h1Fields_lineok (r : WReq) (host : Bytes) (f : Framing)
    (hh : ∀ b ∈ host, b ≠ 13) (hua : ∀ b ∈ hdrFirst r.header sUserAgent, b ≠ 13) :
    ∀ l ∈ linesOf (h1Fields r host f), LineOK l := by
  intro l hl
  have hl' := (wire_set_h1 r host f).mem_iff.mp hl
  simp only [List.mem_append] at hl'
  rcases hl' with (hl' | hl') | hl'
  · obtain ⟨k, v⟩ := l
    obtain ⟨kv, hkv, rfl, hv⟩ := mem_linesOf hl'
    obtain ⟨h1, h2⟩ := ownKeys_lineok _ (ownFieldsH1_keys r host f kv hkv)
    exact ⟨h1, h2, own_values_no_cr r host f hh hua kv hkv v hv⟩
  · exact callerFields_lineok _ _ l hl'
  · exact callerFields_lineok _ _ l hl'

/-! ### the framing an origin derives -/

/-- values of the fields named `nm` (lower-case comparison), in order. -/
def selN (nm : Bytes) (ls : List (Bytes × Bytes)) : List Bytes :=
  ls.filterMap fun f => if lower f.1 == nm then some f.2 else none

theorem teValues_eq (ls : List (Bytes × Bytes)) : teValues ls = selN sTE ls := rfl
theorem clValues_eq (ls : List (Bytes × Bytes)) : clValues ls = selN sCL ls := rfl

theorem selN_append (nm : Bytes) (a b : List (Bytes × Bytes)) :
    selN nm (a ++ b) = selN nm a ++ selN nm b := by simp [selN]

theorem selN_perm (nm : Bytes) {a b : List (Bytes × Bytes)} (h : a.Perm b) :
    (selN nm a).Perm (selN nm b) := List.Perm.filterMap _ h

theorem selN_trimmed (nm : Bytes) (ls : List (Bytes × Bytes)) :
    selN nm (ls.map trimmed) = (selN nm ls).map trimOWS := by
  unfold selN
  induction ls with
  | nil => rfl
  | cons l t ih =>
    simp only [List.map_cons, List.filterMap_cons, trimmed]
    split <;> simp_all

theorem selN_nil_of_keys (nm : Bytes) (ls : List (Bytes × Bytes))
    (h : ∀ l ∈ ls, (lower l.1 == nm) = false) : selN nm ls = [] := by
  unfold selN
  rw [List.filterMap_eq_nil_iff]
  intro l hl
  simp [h l hl]

theorem selN_caller_hdr (r : WReq) (nm : Bytes) (hnm : nm = sTE ∨ nm = sCL)
    (hv : ∀ kv ∈ r.header, (lower kv.key == sTE || lower kv.key == sCL) = true →
      reqWriteExcludeHeader.contains kv.key = true) :
    selN nm (linesOf (callerFields r.header reqWriteExcludeHeader)) = [] := by
  apply selN_nil_of_keys
  intro ⟨k, v⟩ hl
  obtain ⟨kv, hkv, rfl, _⟩ := mem_linesOf hl
  have hex := (callerFields_mem_key hkv).1
  unfold callerFields at hkv
  obtain ⟨kv0, h0, rfl⟩ := List.mem_map.mp hkv
  have hin := (List.mem_filter.mp h0).1
  have := hv kv0 hin
  cases hb : (lower kv0.key == sTE || lower kv0.key == sCL) with
  | true => rw [this hb] at hex; exact absurd hex (by simp)
  | false =>
    simp only [Bool.or_eq_false_iff] at hb
    rcases hnm with rfl | rfl
    · exact hb.1
    · exact hb.2

theorem selN_caller_extra (r : WReq) (nm : Bytes) (hnm : nm = sTE ∨ nm = sCL)
    (hv : ∀ kv ∈ r.extra, (lower kv.key == sTE || lower kv.key == sCL) = false) :
    selN nm (linesOf (callerFields r.extra [])) = [] := by
  apply selN_nil_of_keys
  intro ⟨k, v⟩ hl
  obtain ⟨kv, hkv, rfl, _⟩ := mem_linesOf hl
  unfold callerFields at hkv
  obtain ⟨kv0, h0, rfl⟩ := List.mem_map.mp hkv
  have hb := hv kv0 (List.mem_filter.mp h0).1
  simp only [Bool.or_eq_false_iff] at hb
  rcases hnm with rfl | rfl
  · exact hb.1
  · exact hb.2

theorem linesOf_cons (kv : KV) (t : Hdr) : linesOf (kv :: t) = kv.values.map (fun v => (kv.key, v)) ++ linesOf t := by
  simp [linesOf]

theorem linesOf_nil : linesOf [] = [] := rfl

theorem selN_single (nm k v : Bytes) :
    selN nm (linesOf [⟨k, [v]⟩]) = if lower k == nm then [v] else [] := by
  simp only [linesOf, List.flatMap_cons, List.flatMap_nil, List.map_cons, List.map_nil, List.append_nil,
    selN, List.filterMap_cons, List.filterMap_nil]
  split <;> simp_all

set_option maxRecDepth 10000 in
theorem own_name_facts :
    (lower sHost == sTE) = false ∧ (lower sHost == sCL) = false ∧
    (lower sUserAgent == sTE) = false ∧ (lower sUserAgent == sCL) = false ∧
    (lower sConnection == sTE) = false ∧ (lower sConnection == sCL) = false ∧
    (lower sContentLength == sTE) = false ∧ (lower sContentLength == sCL) = true ∧
    (lower sTransferEncoding == sTE) = true ∧ (lower sTransferEncoding == sCL) = false := by decide

theorem selN_ite_l (nm k v : Bytes) (c : Prop) [Decidable c] (hk : (lower k == nm) = false) :
    selN nm (linesOf (if c then [⟨k, [v]⟩] else [])) = [] := by
  split
  · rw [selN_single]; simp [hk]
  · rfl

theorem selN_ite_r (nm k v : Bytes) (c : Prop) [Decidable c] (hk : (lower k == nm) = false) :
    selN nm (linesOf (if c then [] else [⟨k, [v]⟩])) = [] := by
  split
  · rfl
  · rw [selN_single]; simp [hk]

theorem selN_own_prefix (nm : Bytes) (r : WReq) (host : Bytes) (f : Framing)
    (h1 : (lower sHost == nm) = false) (h2 : (lower sUserAgent == nm) = false)
    (h3 : (lower sConnection == nm) = false) :
    selN nm (linesOf (ownFieldsH1 r host f)) =
      selN nm (linesOf
        (if shouldSendContentLength (methodOrGet r.method) f then
          [⟨sContentLength, [natToDec f.cl.toNat]⟩]
         else if f.chunked then [⟨sTransferEncoding, [sChunked]⟩] else [])) := by
  unfold ownFieldsH1 framingFields
  simp only [linesOf_append, selN_append]
  rw [selN_single, selN_ite_r nm _ _ _ h2, selN_ite_l nm _ _ _ h3]
  simp [h1]

/-- the Content-Length values among the writer's own fields -/
theorem selN_own_cl (r : WReq) (host : Bytes) (f : Framing) :
    selN sCL (linesOf (ownFieldsH1 r host f)) =
      if shouldSendContentLength (methodOrGet r.method) f then [natToDec f.cl.toNat] else [] := by
  obtain ⟨_, h2, _, h4, _, h6, _, h8, _, h10⟩ := own_name_facts
  rw [selN_own_prefix sCL r host f h2 h4 h6]
  split
  · rw [selN_single]; simp [h8]
  · split
    · rw [selN_single]; simp [h10]
    · rfl

/-- the Transfer-Encoding values among the writer's own fields -/
theorem selN_own_te (r : WReq) (host : Bytes) (f : Framing) :
    selN sTE (linesOf (ownFieldsH1 r host f)) =
      if shouldSendContentLength (methodOrGet r.method) f then []
      else if f.chunked then [sChunked] else [] := by
  obtain ⟨h1, _, h3, _, h5, _, h7, _, h9, _⟩ := own_name_facts
  rw [selN_own_prefix sTE r host f h1 h3 h5]
  split
  · rw [selN_single]; simp [h7]
  · split
    · rw [selN_single]; simp [h9]
    · rfl

theorem trimOWSLeft_id (v : Bytes) (h : ∀ b ∈ v, isOWS b = false) : trimOWSLeft v = v := by
  cases v with
  | nil => rfl
  | cons c t => simp [trimOWSLeft, h c (by simp)]

theorem trimOWS_id (v : Bytes) (h : ∀ b ∈ v, isOWS b = false) : trimOWS v = v := by
  unfold trimOWS
  rw [trimOWSLeft_id v h, trimOWSLeft_id v.reverse (fun b hb => h b (List.mem_reverse.mp hb))]
  simp

set_option maxRecDepth 10000 in
theorem digitChar_not_ows : ∀ d, d < 16 → isOWS (digitChar d) = false := by decide

theorem trimOWS_natToDec (n : Nat) : trimOWS (natToDec n) = natToDec n := by
  apply trimOWS_id
  intro b hb
  unfold natToDec at hb
  simp only [List.mem_reverse, List.mem_map] at hb
  obtain ⟨d, hd, rfl⟩ := hb
  exact digitChar_not_ows d (Nat.lt_trans ((digitsRev_spec 10 (by omega) (n + 1) n (by omega)).2.1 d hd) (by omega))

theorem trimOWS_chunked : trimOWS sChunked = sChunked := by decide

/-- **the origin derives the writer's framing** from the header block it reads. -/
theorem framingOf_h1Fields (r : WReq) (host : Bytes) (f : Framing) (hv : Valid r host f) :
    framingOf ((linesOf (h1Fields r host f)).map trimmed) =
      if shouldSendContentLength (methodOrGet r.method) f then .length f.cl.toNat
      else if f.chunked then .chunked else .none := by
  have hperm := wire_set_h1 r host f
  have hsel : ∀ nm, nm = sTE ∨ nm = sCL →
      (selN nm (linesOf (h1Fields r host f))).Perm (selN nm (linesOf (ownFieldsH1 r host f))) := by
    intro nm hnm
    have := selN_perm nm hperm
    rw [selN_append, selN_append, selN_caller_hdr r nm hnm hv.framing_hdr,
      selN_caller_extra r nm hnm hv.framing_extra] at this
    simpa using this
  have hte := hsel sTE (Or.inl rfl)
  have hcl := hsel sCL (Or.inr rfl)
  rw [selN_own_te] at hte
  rw [selN_own_cl] at hcl
  unfold framingOf
  rw [teValues_eq, clValues_eq, selN_trimmed, selN_trimmed]
  by_cases hs : shouldSendContentLength (methodOrGet r.method) f = true
  · simp only [hs, if_true] at hte hcl ⊢
    have e1 := List.perm_nil.mp hte
    have e2 := List.perm_singleton.mp hcl
    rw [e1, e2]
    simp [trimOWS_natToDec, parseDec_natToDec]
  · have hs' : shouldSendContentLength (methodOrGet r.method) f = false := by simpa using hs
    simp only [hs', Bool.false_eq_true, if_false] at hte hcl ⊢
    have e2 := List.perm_nil.mp hcl
    rw [e2]
    by_cases hc : f.chunked = true
    · simp only [hc, if_true] at hte ⊢
      have e1 := List.perm_singleton.mp hte
      rw [e1]
      simp [trimOWS_chunked]
    · have hc' : f.chunked = false := by simpa using hc
      simp only [hc', Bool.false_eq_true, if_false] at hte ⊢
      have e1 := List.perm_nil.mp hte
      rw [e1]
      rfl

end Req.H1.Origin
