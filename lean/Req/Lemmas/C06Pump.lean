import Req.H2.Conn
/-!
C06 — the pumped execution observed by the deterministic script lane (`scriptStep`: one
scripted operation, then every body writer runs until it blocks) is a run of the connection
machine on an operation list with `write` operations inserted. Hence every theorem quantified
over all operation lists covers what the lane compares.
-/
namespace Req.Lemmas.C06
open Req.H2 Req.H2.Conn

theorem runFrom_append (a b : List Op) :
    ∀ (st : State) (hist : List Event),
    runFrom st hist (a ++ b) = runFrom (runFrom st hist a).1 (runFrom st hist a).2 b := by
  induction a with
  | nil => intro st hist; rfl
  | cons op rest ih => intro st hist; simp only [List.cons_append, runFrom]; exact ih _ _

theorem step_closed {st : State} (h : st.closed = true) (op : Op) : step st op = (st, []) := by
  unfold step; simp [h]

/-- the events `runFrom` records for one step -/
def stepEvents (st : State) (op : Op) : List Event :=
  if st.closed then [] else opEvents op (step st op).2

theorem stepEvents_write (st : State) (id : Nat) :
    stepEvents st (.write id) = (step st (.write id)).2.map Event.c := by
  unfold stepEvents
  cases h : st.closed with
  | true => simp [step_closed h]
  | false => simp [opEvents]

theorem pumpStream_is_run (id : Nat) :
    ∀ (fuel : Nat) (st : State) (hist : List Event),
    ∃ k : Nat, runFrom st hist (List.replicate k (Op.write id)) =
      ((pumpStream fuel st id).1, hist ++ (pumpStream fuel st id).2.map Event.c) := by
  intro fuel
  induction fuel with
  | zero => intro st hist; exact ⟨0, by simp [pumpStream, runFrom]⟩
  | succ fuel ih =>
    intro st hist
    simp only [pumpStream]
    cases he : (step st (.write id)).2.isEmpty with
    | true =>
      refine ⟨1, ?_⟩
      have hnil : (step st (.write id)).2 = [] := by simpa using he
      simp only [List.replicate, runFrom, if_true]
      have := stepEvents_write st id
      unfold stepEvents at this
      rw [this, hnil]
    | false =>
      obtain ⟨k, hk⟩ := ih (step st (.write id)).1 (hist ++ (step st (.write id)).2.map Event.c)
      refine ⟨k + 1, ?_⟩
      simp only [Bool.false_eq_true, if_false, List.replicate, runFrom]
      have := stepEvents_write st id
      unfold stepEvents at this
      rw [this, hk]
      simp [List.append_assoc]

theorem pumpAll_is_run (ids : List Nat) :
    ∀ (st : State) (hist : List Event),
    ∃ ws : List Op, (∀ o ∈ ws, ∃ id, o = Op.write id) ∧
      runFrom st hist ws = ((pumpAll st ids).1, hist ++ (pumpAll st ids).2.map Event.c) := by
  induction ids with
  | nil => intro st hist; exact ⟨[], by simp, by simp [pumpAll, runFrom]⟩
  | cons id rest ih =>
    intro st hist
    simp only [pumpAll]
    obtain ⟨k, hk⟩ := pumpStream_is_run id (pumpFuel st id) st hist
    obtain ⟨ws, hw1, hw2⟩ := ih (pumpStream (pumpFuel st id) st id).1
      (hist ++ (pumpStream (pumpFuel st id) st id).2.map Event.c)
    refine ⟨List.replicate k (Op.write id) ++ ws, ?_, ?_⟩
    · intro o ho
      rcases List.mem_append.mp ho with h1 | h1
      · exact ⟨id, (List.eq_of_mem_replicate h1)⟩
      · exact hw1 o h1
    · rw [runFrom_append, hk]
      simp only
      rw [hw2]
      simp [List.append_assoc]

/-- **pump_is_run**: a scripted step is a run of the machine on `op`, a wake-up and `write`
operations. -/
theorem pump_is_run (st : State) (hist : List Event) (op : Op) :
    ∃ ws : List Op, (∀ o ∈ ws, ∃ id, o = Op.write id) ∧
      (runFrom st hist (op :: Op.wake :: ws)).1 = (scriptStep st op).1 := by
  generalize hst1 : (step (step st op).1 Op.wake).1 = st1
  generalize hh1 : hist ++ stepEvents st op ++ stepEvents (step st op).1 Op.wake = hist1
  obtain ⟨ws, hw1, hw2⟩ := pumpAll_is_run (st1.streams.map (·.id)) st1 hist1
  obtain ⟨ws', hw1', hw2'⟩ := pumpAll_is_run
    (((pumpAll st1 (st1.streams.map (·.id))).1.streams.drop st1.streams.length).map (·.id))
    (pumpAll st1 (st1.streams.map (·.id))).1
    (hist1 ++ (pumpAll st1 (st1.streams.map (·.id))).2.map Event.c)
  refine ⟨ws ++ ws', ?_, ?_⟩
  · intro o ho
    rcases List.mem_append.mp ho with h | h
    · exact hw1 o h
    · exact hw1' o h
  · simp only [runFrom, scriptStep]
    unfold stepEvents at hh1
    rw [hst1, hh1, runFrom_append, hw2]
    simp only
    rw [hw2']

end Req.Lemmas.C06
