import Req.Lemmas.C20Meaning
/-!
Helper lemmas for C20: the error side of `parse_faithful`. A list whose elements are well
written but whose MEANING is undefined — a parameter before any scheme, a parameter name for
the second time in one challenge, a token68 on a Digest challenge, a charset other than UTF-8 on
a Digest challenge — makes the loop of `parseChallenge` fail.
-/
namespace Req.DigestAuth
open Req.Proto Req.Ascii Req.Digest

theorem setParam_charset_bad (c : Challenge) (v : Bytes) (h : isUtf8Name v = false) :
    setParam c b!"charset" v = .error .charset := by
  unfold setParam
  simp [h]

theorem putParam_none (st : PState) (acc : List SChal) (p : ParamW) (h : Inv st acc)
    (hm : meanParam acc p = none) : ∃ e, putParam st (lower p.name) p.val.value = .error e := by
  unfold meanParam at hm
  cases acc with
  | nil =>
    have hs : st.seen = none := h.2.1
    exact ⟨.badChallenge, by simp [putParam, hs]⟩
  | cons ch rest =>
    obtain ⟨hrev, hseen, hcur⟩ := h
    simp only at hm
    split at hm
    · rename_i hdup
      have hdup' : (names ch).reverse.contains (lower p.name) = true := by
        rw [List.contains_eq_mem] at hdup ⊢
        simpa using hdup
      refine ⟨.badChallenge, ?_⟩
      unfold putParam
      simp only [hseen]
      rw [if_pos hdup']
    · rename_i hdup
      split at hm
      · rename_i hcs
        simp only [Bool.and_eq_true, Bool.not_eq_true'] at hcs
        obtain ⟨⟨hd, hname⟩, hu⟩ := hcs
        have hdup' : (names ch).reverse.contains (lower p.name) = false := by
          have : (names ch).contains (lower p.name) = false := by simpa using hdup
          rw [List.contains_eq_mem] at this ⊢
          simpa using this
        have hne : st.rev = challengeOfParams ch.params :: rest.filterMap digestOf := by
          rw [hrev]
          simp only [List.filterMap_cons, digestOf, hd, if_true]
        have hnd : ¬ ((names ch).reverse.contains (lower p.name) = true) := by
          rw [hdup']; exact Bool.false_ne_true
        refine ⟨.charset, ?_⟩
        unfold putParam
        simp only [hseen]
        rw [if_neg hnd]
        simp only [hcur, hd, Bool.not_true, Bool.false_eq_true, if_false, hne, eq_of_beq hname,
          setParam_charset_bad _ _ hu]
      · cases hm

theorem inv_step_none (st : PState) (acc : List SChal) (w : ElemW) (h : Inv st acc)
    (hm : meanStep acc w = none) : ∃ e, absStep st w = .error e := by
  cases w with
  | empty => simp [meanStep] at hm
  | param p => exact putParam_none st acc p h hm
  | scheme s => simp [meanStep] at hm
  | schemeParam s sp p =>
    simp only [meanStep] at hm
    exact putParam_none (newChal st s) _ p (inv_newChal st acc s none h) hm
  | scheme68 s sp t =>
    simp only [meanStep] at hm
    split at hm
    · rename_i hd
      have hd' : equalFold s b!"Digest" = true := by simpa [isDigest] using hd
      exact ⟨.badChallenge, by simp [absStep, hd']⟩
    · cases hm

theorem inv_elems_none : ∀ (ws : List ElemW) (st : PState) (acc : List SChal), Inv st acc →
    meanElems ws acc = none → ∃ e, absElems ws st = .error e := by
  intro ws
  induction ws with
  | nil => intro st acc _ hm; simp [meanElems] at hm
  | cons w ws ih =>
    intro st acc h hm
    simp only [meanElems] at hm
    cases hs : meanStep acc w with
    | none =>
      obtain ⟨e, he⟩ := inv_step_none st acc w h hs
      exact ⟨e, by simp only [absElems, he]⟩
    | some acc1 =>
      rw [hs] at hm
      obtain ⟨st1, hs1, hi1⟩ := inv_step st acc acc1 w h hs
      obtain ⟨e, he⟩ := ih st1 acc1 hi1 hm
      exact ⟨e, by simp only [absElems, hs1, he]⟩

/-- a list without meaning is refused -/
theorem absElems_meaning_none (ws : List ElemW) (h : meaning ws = none) :
    ∃ e, absElems ws {} = .error e := by
  unfold meaning at h
  cases hm : meanElems ws [] with
  | some acc => rw [hm] at h; cases h
  | none => exact inv_elems_none ws {} [] ⟨rfl, rfl, rfl⟩ hm

end Req.DigestAuth
