import Req.C02.TrailerMap
/-! Lookup lemmas for the trailer maps. -/
namespace Req.C02
open Req.Proto Req.H1

theorem get_set (m : HeaderMap) (k k' : Bytes) (vs : List Bytes) :
    (m.set k vs).get k' = if k' = k then some vs else m.get k' := by
  induction m with
  | nil =>
    by_cases h : k' = k
    · subst h; simp [HeaderMap.set, HeaderMap.get, List.lookup]
    · have : (k' == k) = false := by simpa using h
      simp [HeaderMap.set, HeaderMap.get, List.lookup, this, h]
  | cons p ps ih =>
    rcases p with ⟨pk, pvs⟩
    simp only [HeaderMap.set, HeaderMap.get] at ih ⊢
    by_cases hpk : pk = k
    · subst hpk
      simp only [beq_self_eq_true, if_true, List.lookup]
      by_cases h : k' = pk
      · subst h; simp
      · have : (k' == pk) = false := by simpa using h
        simp [this, h]
    · have hb : (pk == k) = false := by simpa using hpk
      simp only [hb, Bool.false_eq_true, if_false, List.lookup]
      by_cases h : k' = pk
      · subst h
        have : ¬ k' = k := hpk
        simp [this]
      · have : (k' == pk) = false := by simpa using h
        simp only [this]
        exact ih

theorem get_declMap_aux (keys : List Bytes) (m : HeaderMap) (k : Bytes) :
    (keys.foldl (fun m k => m.set k []) m).get k = if k ∈ keys then some [] else m.get k := by
  induction keys generalizing m with
  | nil => simp
  | cons x xs ih =>
    simp only [List.foldl_cons, ih, List.mem_cons]
    by_cases hx : k ∈ xs
    · simp [hx]
    · simp only [hx, if_false, or_false, get_set]

theorem get_declMap (keys : List Bytes) (k : Bytes) :
    (declMap keys).get k = if k ∈ keys then some [] else none := by
  unfold declMap
  rw [get_declMap_aux]
  simp [HeaderMap.get]

def keysOf (m : HeaderMap) : List Bytes := m.map (·.1)

theorem keysOf_add (m : HeaderMap) (k v : Bytes) :
    keysOf (m.add k v) = if k ∈ keysOf m then keysOf m else keysOf m ++ [k] := by
  induction m with
  | nil => simp [HeaderMap.add, keysOf]
  | cons p ps ih =>
    rcases p with ⟨pk, pvs⟩
    simp only [HeaderMap.add]
    by_cases hpk : pk = k
    · subst hpk; simp [keysOf]
    · have hb : (pk == k) = false := by simpa using hpk
      simp only [hb, Bool.false_eq_true, if_false]
      simp only [keysOf, List.map_cons, List.mem_cons] at ih ⊢
      rw [ih]
      have hne : ¬ k = pk := fun h => hpk h.symm
      by_cases hin : k ∈ List.map (fun x => x.1) ps
      · simp [hin]
      · simp [hin, hne]

theorem nodup_add (m : HeaderMap) (k v : Bytes) (h : (keysOf m).Nodup) : (keysOf (m.add k v)).Nodup := by
  rw [keysOf_add]
  split
  · exact h
  · rename_i hk
    exact List.nodup_append.mpr ⟨h, by simp, by
      intro a ha b hb
      simp only [List.mem_singleton] at hb
      subst hb
      intro hab; subst hab; exact hk ha⟩

theorem nodup_hmapAdd (kvs : List (Bytes × Bytes)) (m : HeaderMap) (h : (keysOf m).Nodup) :
    (keysOf (hmapAdd m kvs)).Nodup := by
  induction kvs generalizing m with
  | nil => exact h
  | cons kv rest ih =>
    simp only [hmapAdd, List.foldl_cons]
    exact ih _ (nodup_add m kv.1 kv.2 h)

theorem nodup_hmapOf (kvs : List (Bytes × Bytes)) : (keysOf (hmapOf kvs)).Nodup :=
  nodup_hmapAdd kvs [] (by simp [keysOf])

theorem lookup_none_of_not_mem (m : HeaderMap) (k : Bytes) (h : k ∉ keysOf m) : m.lookup k = none := by
  induction m with
  | nil => rfl
  | cons p ps ih =>
    rcases p with ⟨pk, pvs⟩
    simp only [keysOf, List.map_cons, List.mem_cons, not_or] at h
    have hb : (k == pk) = false := by simpa using h.1
    simp only [List.lookup, hb]
    exact ih (by simpa [keysOf] using h.2)

/-- `mergeSetHeader` with a source whose keys are distinct (a Go map): a received key wins,
any other key keeps what the destination had. -/
theorem get_mergeSet (src dst : HeaderMap) (k : Bytes) (h : (keysOf src).Nodup) :
    (mergeSet dst src).get k = match src.get k with | some vv => some vv | none => dst.get k := by
  unfold mergeSet
  induction src generalizing dst with
  | nil => simp [HeaderMap.get]
  | cons e rest ih =>
    rcases e with ⟨ek, evs⟩
    simp only [keysOf, List.map_cons, List.nodup_cons] at h
    simp only [List.foldl_cons]
    rw [ih _ (by simpa [keysOf] using h.2)]
    simp only [HeaderMap.get, List.lookup]
    by_cases hk : k = ek
    · subst hk
      have hn : rest.lookup k = none := lookup_none_of_not_mem rest k (by simpa [keysOf] using h.1)
      have hset := get_set dst k k evs
      simp only [HeaderMap.get] at hset
      simp [hn, hset]
    · have hb : (k == ek) = false := by simpa using hk
      have hset := get_set dst ek k evs
      simp only [HeaderMap.get, hk, if_false] at hset
      simp only [hb]
      cases hr : rest.lookup k with
      | some vv => rfl
      | none => simp only [hset]

end Req.C02
