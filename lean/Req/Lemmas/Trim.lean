import Req.H1.Origin
import Req.Client.Validate
import Req.Lemmas.U8
/-! White-space trimming: `textproto.TrimString` (writer) vs OWS trimming (origin). -/
namespace Req.H1.Origin
open Req.Proto Req.Validate

/-- the result of a left trim is empty or starts with a kept byte -/
theorem trimOWSLeft_head (s : Bytes) : ∀ c t, trimOWSLeft s = c :: t → isOWS c = false := by
  induction s with
  | nil => intro c t h; simp [trimOWSLeft] at h
  | cons x xs ih =>
    intro c t h
    unfold trimOWSLeft at h
    split at h
    · exact ih c t h
    next hx =>
      simp only [List.cons.injEq] at h
      rw [← h.1]; simpa using hx

theorem trimOWSLeft_suffix (s : Bytes) : ∃ p, s = p ++ trimOWSLeft s := by
  induction s with
  | nil => exact ⟨[], rfl⟩
  | cons x xs ih =>
    unfold trimOWSLeft
    split
    · obtain ⟨p, hp⟩ := ih
      exact ⟨x :: p, by simp [← hp]⟩
    · exact ⟨[], rfl⟩

theorem trimOWSLeft_of_head (s : Bytes) (h : ∀ c t, s = c :: t → isOWS c = false) :
    trimOWSLeft s = s := by
  cases s with
  | nil => rfl
  | cons c t => simp [trimOWSLeft, h c t rfl]

/-- **OWS trimming is idempotent**: a trimmed value has nothing left to trim. -/
theorem trimOWS_idem (v : Bytes) : trimOWS (trimOWS v) = trimOWS v := by
  unfold trimOWS
  generalize ha : trimOWSLeft v = a
  generalize hb : trimOWSLeft a.reverse = b
  -- b.reverse is a prefix of a; its head (if any) is a's head, which is not OWS
  have h1 : trimOWSLeft b.reverse = b.reverse := by
    apply trimOWSLeft_of_head
    intro c t hct
    obtain ⟨p, hp⟩ := trimOWSLeft_suffix a.reverse
    rw [hb] at hp
    have ha' : a = b.reverse ++ p.reverse := by
      have := congrArg List.reverse hp
      simpa using this
    rw [hct] at ha'
    simp only [List.cons_append] at ha'
    exact trimOWSLeft_head v c _ (ha ▸ ha')
  rw [h1, List.reverse_reverse]
  have h2 : trimOWSLeft b = b := by
    apply trimOWSLeft_of_head
    intro c t hct
    exact trimOWSLeft_head a.reverse c t (hb ▸ hct)
  rw [h2]

/-- without CR / LF, Go's `TrimString` trims exactly the optional white space. -/
theorem trimLeft_eq_ows (s : Bytes) (h : ∀ b ∈ s, b ≠ 13 ∧ b ≠ 10) : trimLeft s = trimOWSLeft s := by
  induction s with
  | nil => rfl
  | cons c t ih =>
    have hc := h c (by simp)
    have e : isASCIISpace c = isOWS c := by
      unfold isASCIISpace isOWS
      have h1 : (c == 10) = false := by simpa using hc.2
      have h2 : (c == 13) = false := by simpa using hc.1
      simp [h1, h2]
    unfold trimLeft trimOWSLeft
    rw [e, ih (fun b hb => h b (by simp [hb]))]

theorem trimOWSLeft_subset (s : Bytes) : ∀ b ∈ trimOWSLeft s, b ∈ s := by
  obtain ⟨p, hp⟩ := trimOWSLeft_suffix s
  intro b hb
  rw [hp]; simp [hb]

theorem trimString_eq_trimOWS (v : Bytes) (h : ∀ b ∈ v, b ≠ 13 ∧ b ≠ 10) :
    trimString v = trimOWS v := by
  unfold trimString trimOWS
  rw [trimLeft_eq_ows v h, trimLeft_eq_ows]
  intro b hb
  exact h b (trimOWSLeft_subset v b (List.mem_reverse.mp hb))

theorem newlineToSpace_id (v : Bytes) (h : ∀ b ∈ v, b ≠ 13 ∧ b ≠ 10) : newlineToSpace v = v := by
  unfold newlineToSpace
  induction v with
  | nil => rfl
  | cons c t ih =>
    have hc := h c (by simp)
    have h1 : (c == 10) = false := by simpa using hc.2
    have h2 : (c == 13) = false := by simpa using hc.1
    simp only [List.map_cons, h1, h2, Bool.or_self, Bool.false_eq_true, if_false]
    rw [ih (fun b hb => h b (by simp [hb]))]

set_option maxRecDepth 100000 in
theorem valueByte_fact (b : UInt8) : (!(!(isCTL b && !isLWS b)) || (b != 13 && b != 10)) = true :=
  Req.U8.all (fun b => !(!(isCTL b && !isLWS b)) || (b != 13 && b != 10)) (by decide) b

theorem validValue_no_crlf (v : Bytes) (h : validHeaderFieldValue v = true) :
    ∀ b ∈ v, b ≠ 13 ∧ b ≠ 10 := by
  intro b hb
  unfold validHeaderFieldValue at h
  have h1 := List.all_eq_true.mp h b hb
  have h2 := valueByte_fact b
  rw [h1] at h2
  simpa using h2

/-- a value that passes `validateHeaders` is written exactly as given, minus surrounding optional
white space: nothing inside it is altered. -/
theorem sanitizeValue_of_valid (v : Bytes) (h : validHeaderFieldValue v = true) :
    sanitizeValue v = trimOWS v := by
  unfold sanitizeValue
  have hn := validValue_no_crlf v h
  rw [newlineToSpace_id v hn, trimString_eq_trimOWS v hn]

end Req.H1.Origin
