import Req.Client.Heap
/-!
Helper lemmas for C19: the reference-aware model refines the value model as long as no
`derive` shares a reference (`AliasSafe`). Structure:

* `Inv` — heap invariant: references are below `next`, no two slots hold the same object id
  (separation), slot contents fit the field kind, a slice's backing array has `cap` elements.
* `write` — the generic single-slot update (one slot, at most one object which is either new
  or exclusively owned by that slot); `write_abs` / `write_inv`.
* `addOwner_abs` / `addOwner_inv` — appending a record whose fields are all fresh or zero.
* `stepH_refines` — every primitive.
-/
namespace Req.Heap
open Req.Scope

/-! ### AMap facts -/

theorem toList_ofList (xs : List Nat) : (AMap.ofList xs).toList = xs := by
  unfold AMap.ofList AMap.toList AMap.get
  cases xs with
  | nil => simp
  | cons x xs => simp

theorem ofList_toList_ofList (xs : List Nat) : AMap.ofList (AMap.ofList xs).toList = AMap.ofList xs := by
  rw [toList_ofList]

theorem norm_slice_ofList (xs : List Nat) : norm .slice (AMap.ofList xs) = AMap.ofList xs := by
  simp [norm, toList_ofList]

theorem norm_nil (k : Kind) : norm k [] = [] := by
  cases k <;> simp [norm, AMap.toList, AMap.get, AMap.ofList]

/-! ### References and the invariant -/

def refId : FieldVal → Option Nat
  | .nil => none
  | .box id => some id
  | .slice id _ _ => some id

/-- the value fits the field kind; a slice's array has exactly `cap` elements, `0 < len ≤ cap` -/
def ValOk (obj : Nat → AMap) (f : Field) : FieldVal → Prop
  | .nil => True
  | .box _ => kind f = .box
  | .slice id l c => kind f = .slice ∧ ∃ xs, obj id = AMap.ofList xs ∧ xs.length = c ∧ l ≤ c ∧ 0 < l

structure Inv (h : Heap) : Prop where
  lt : ∀ i f id, refId ((h.owner i).fld f) = some id → id < h.next
  sep : ∀ i f j g id, refId ((h.owner i).fld f) = some id → refId ((h.owner j).fld g) = some id → i = j ∧ f = g
  ok : ∀ i f, ValOk h.obj f ((h.owner i).fld f)

theorem inv_empty : Inv Heap.empty := by
  refine ⟨?_, ?_, ?_⟩
  · intro i f id h; simp [Heap.empty, emptyHOwner, refId] at h
  · intro i f j g id h; simp [Heap.empty, emptyHOwner, refId] at h
  · intro i f; simp [Heap.empty, emptyHOwner, ValOk]

/-- `absVal` looks at the store only at the value's own id -/
theorem absVal_congr (h h' : Heap) (v : FieldVal) (hobj : ∀ id, refId v = some id → h'.obj id = h.obj id) :
    h'.absVal v = h.absVal v := by
  cases v with
  | nil => rfl
  | box id => simp [Heap.absVal, hobj id (by simp [refId])]
  | slice id l c => simp [Heap.absVal, hobj id (by simp [refId])]

/-- reading a slot of the right kind gives a value in normal form -/
theorem norm_absVal (h : Heap) (f : Field) (v : FieldVal) (hv : ValOk h.obj f v) :
    norm (kind f) (h.absVal v) = h.absVal v := by
  cases v with
  | nil => simp [Heap.absVal, norm_nil]
  | box id => simp [ValOk] at hv; simp [hv, norm]
  | slice id l c =>
    simp [ValOk] at hv
    simp [hv.1, Heap.absVal, norm_slice_ofList]

/-! ### The generic single-slot update -/

/-- slot `(o, f)` becomes `v`; optionally object `id` becomes `m`; `next` grows by `bump` -/
def Heap.write (h : Heap) (o : Nat) (f : Field) (v : FieldVal) (ow : Option (Nat × AMap)) (bump : Nat) : Heap :=
  { count := h.count
    owner := fun i => if i = o then (h.owner o).setFld f v else h.owner i
    obj := match ow with
      | none => h.obj
      | some (id, m) => fun j => if j = id then m else h.obj j
    next := h.next + bump }

/-- the ids a write to slot `(o, f)` may use: the next fresh one (when it bumps) or the one the
slot already owns -/
def Allowed (h : Heap) (o : Nat) (f : Field) (bump : Nat) (id : Nat) : Prop :=
  (id = h.next ∧ 0 < bump) ∨ refId ((h.owner o).fld f) = some id

structure WriteOk (h : Heap) (o : Nat) (f : Field) (v : FieldVal) (ow : Option (Nat × AMap)) (bump : Nat) : Prop where
  vref : ∀ id, refId v = some id → Allowed h o f bump id
  oref : ∀ id m, ow = some (id, m) → Allowed h o f bump id
  vok : ValOk (h.write o f v ow bump).obj f v

theorem write_obj_other (h : Heap) (hi : Inv h) {o f v ow bump} (hw : WriteOk h o f v ow bump)
    (i : Nat) (g : Field) (hne : ¬ (i = o ∧ g = f)) (id : Nat)
    (hr : refId ((h.owner i).fld g) = some id) : (h.write o f v ow bump).obj id = h.obj id := by
  unfold Heap.write
  cases ow with
  | none => rfl
  | some p =>
    obtain ⟨id', m⟩ := p
    simp only
    by_cases hid : id = id'
    · exfalso
      subst hid
      rcases hw.oref id m rfl with ⟨hn, _⟩ | hown
      · have := hi.lt i g id hr; omega
      · have := hi.sep i g o f id hr hown; exact hne this
    · simp [hid]

theorem write_absVal_other (h : Heap) (hi : Inv h) {o f v ow bump} (hw : WriteOk h o f v ow bump)
    (i : Nat) (g : Field) (hne : ¬ (i = o ∧ g = f)) :
    (h.write o f v ow bump).absVal ((h.owner i).fld g) = h.absVal ((h.owner i).fld g) :=
  absVal_congr _ _ _ fun id hr => write_obj_other h hi hw i g hne id hr

theorem write_owner_fld (h : Heap) (o : Nat) (f : Field) (v : FieldVal) (ow bump) (i : Nat) (g : Field) :
    ((h.write o f v ow bump).owner i).fld g = if i = o ∧ g = f then v else (h.owner i).fld g := by
  unfold Heap.write HOwner.setFld
  by_cases hio : i = o
  · subst hio
    by_cases hg : g = f <;> simp [hg]
  · simp [hio]

theorem write_inv (h : Heap) (hi : Inv h) {o f v ow bump} (hw : WriteOk h o f v ow bump) :
    Inv (h.write o f v ow bump) := by
  have hnext : (h.write o f v ow bump).next = h.next + bump := rfl
  refine ⟨?_, ?_, ?_⟩
  · intro i g id hr
    rw [write_owner_fld] at hr
    rw [hnext]
    by_cases hs : i = o ∧ g = f
    · simp [hs] at hr
      rcases hw.vref id hr with ⟨hn, hb⟩ | hown
      · omega
      · have := hi.lt o f id hown; omega
    · simp [hs] at hr
      have := hi.lt i g id hr; omega
  · intro i g j k id hr1 hr2
    rw [write_owner_fld] at hr1 hr2
    by_cases hs1 : i = o ∧ g = f <;> by_cases hs2 : j = o ∧ k = f
    · exact ⟨hs1.1.trans hs2.1.symm, hs1.2.trans hs2.2.symm⟩
    · exfalso
      simp [hs1] at hr1; simp [hs2] at hr2
      rcases hw.vref id hr1 with ⟨hn, _⟩ | hown
      · have := hi.lt j k id hr2; omega
      · exact hs2 (hi.sep j k o f id hr2 hown)
    · exfalso
      simp [hs1] at hr1; simp [hs2] at hr2
      rcases hw.vref id hr2 with ⟨hn, _⟩ | hown
      · have := hi.lt i g id hr1; omega
      · exact hs1 (hi.sep i g o f id hr1 hown)
    · simp [hs1] at hr1; simp [hs2] at hr2
      exact hi.sep i g j k id hr1 hr2
  · intro i g
    rw [write_owner_fld]
    by_cases hs : i = o ∧ g = f
    · simp [hs]; exact hw.vok
    · simp [hs]
      have hok := hi.ok i g
      generalize hv : (h.owner i).fld g = val at hok
      cases val with
      | nil => trivial
      | box id => exact hok
      | slice id l c =>
        simp only [ValOk] at hok ⊢
        refine ⟨hok.1, ?_⟩
        rw [write_obj_other h hi hw i g hs id (by rw [hv]; rfl)]
        exact hok.2

/-- the abstraction after a write: slot `(o, f)` reads as the new value, everything else is unchanged -/
theorem write_abs (h : Heap) (hi : Inv h) {o f v ow bump} (hw : WriteOk h o f v ow bump) :
    abs (h.write o f v ow bump) =
      { count := h.count
        owner := fun i => if i = o then ((abs h).owner o).setVal f ((h.write o f v ow bump).absVal v)
                          else (abs h).owner i } := by
  unfold abs
  congr 1
  funext i
  by_cases hio : i = o
  · subst hio
    simp only [if_true]
    unfold Heap.absOwner VOwner.setVal
    congr 1
    · simp [Heap.write, HOwner.setFld]
    · funext g
      rw [write_owner_fld]
      by_cases hg : g = f
      · simp [hg]
      · simp [hg]
        exact write_absVal_other h hi hw i g (by simp [hg])
  · simp only [if_neg hio]
    unfold Heap.absOwner
    have hown : (h.write o f v ow bump).owner i = h.owner i := by simp [Heap.write, hio]
    rw [hown]
    congr 1
    funext g
    exact write_absVal_other h hi hw i g (by simp [hio])

theorem updOwner_eq (s : VState) (o : Nat) (g : VOwner → VOwner) (ho : o < s.count) :
    s.updOwner o g = { count := s.count, owner := fun i => if i = o then g (s.owner o) else s.owner i } := by
  simp [VState.updOwner, ho]

end Req.Heap

namespace Req.Heap
open Req.Scope

/-! ### Single-slot steps -/

/-- value-level effect of a single-slot step -/
def slotSet (s : VState) (o : Nat) (f : Field) (m : AMap) : VState :=
  { count := s.count, owner := fun i => if i = o then (s.owner o).setVal f m else s.owner i }

theorem updOwner_setVal (s : VState) (o : Nat) (f : Field) (g : VOwner → AMap) (ho : o < s.count) :
    s.updOwner o (fun w => w.setVal f (g w)) = slotSet s o f (g (s.owner o)) := by
  simp [VState.updOwner, ho, slotSet]

/-- setting a slot to the value it has changes nothing -/
theorem slotSet_same (s : VState) (o : Nat) (f : Field) : slotSet s o f ((s.owner o).val f) = s := by
  unfold slotSet
  cases s with
  | mk count owner =>
    simp only
    congr 1
    funext i
    by_cases hio : i = o
    · subst hio
      simp only [if_true, VOwner.setVal]
      cases hw : owner i with
      | mk parent val =>
        congr 1
        funext g
        by_cases hg : g = f <;> simp [hg]
    · simp [hio]

/-- `h'` is `h` with slot `(o, f)` now reading `m` -/
structure Step (h h' : Heap) (o : Nat) (f : Field) (m : AMap) : Prop where
  inv : Inv h'
  abs : abs h' = slotSet (abs h) o f m
  count : h'.count = h.count

theorem write_step (h : Heap) (hi : Inv h) {o f v ow bump m} (hw : WriteOk h o f v ow bump)
    (hm : (h.write o f v ow bump).absVal v = m) : Step h (h.write o f v ow bump) o f m :=
  ⟨write_inv h hi hw, by rw [write_abs h hi hw, hm]; rfl, rfl⟩

theorem setFld_same (w : HOwner) (f : Field) : w.setFld f (w.fld f) = w := by
  cases w with
  | mk parent fld =>
    unfold HOwner.setFld
    congr 1
    funext g
    by_cases hg : g = f <;> simp [hg]

/-- overwriting only an object is a `write` that keeps the slot's value -/
theorem setObj_eq_write (h : Heap) (o : Nat) (f : Field) (id : Nat) (m : AMap) :
    h.setObj id m = h.write o f ((h.owner o).fld f) (some (id, m)) 0 := by
  unfold Heap.setObj Heap.write
  cases h with
  | mk count owner obj next =>
    simp only [Nat.add_zero]
    congr 1
    funext i
    by_cases hio : i = o
    · subst hio; simp [setFld_same]
    · simp [hio]

theorem step_clear (h : Heap) (hi : Inv h) (o : Nat) (f : Field) :
    Step h (h.updOwner o (·.setFld f .nil)) o f [] := by
  have heq : h.updOwner o (·.setFld f .nil) = h.write o f .nil none 0 := by
    unfold Heap.updOwner Heap.write; simp
  rw [heq]
  refine write_step h hi ⟨?_, ?_, ?_⟩ rfl
  · intro id hr; simp [refId] at hr
  · intro id m hr; simp at hr
  · simp [ValOk]

theorem step_putFresh (h : Heap) (hi : Inv h) (o : Nat) (f : Field) (m : AMap) :
    Step h (h.putFresh o f m) o f (norm (kind f) m) := by
  unfold Heap.putFresh
  cases hk : kind f with
  | box =>
    simp only
    have heq : ({ (h.setObj h.next m).updOwner o (·.setFld f (.box h.next)) with next := h.next + 1 } : Heap)
        = h.write o f (.box h.next) (some (h.next, m)) 1 := by
      unfold Heap.updOwner Heap.setObj Heap.write; rfl
    rw [heq]
    refine write_step h hi ⟨?_, ?_, ?_⟩ ?_
    · intro id hr; simp [refId] at hr; exact Or.inl ⟨hr.symm, by omega⟩
    · intro id m' hr; simp at hr; exact Or.inl ⟨hr.1.symm, by omega⟩
    · simp [ValOk, hk]
    · simp [Heap.absVal, Heap.write, norm]
  | slice =>
    simp only
    by_cases he : m.toList.isEmpty
    · simp only [he, if_true]
      have hn : norm Kind.slice m = [] := by
        simp only [norm, AMap.ofList, he, if_true]
      rw [hn]
      exact step_clear h hi o f
    · simp only [he]
      have heq : ({ (h.setObj h.next (AMap.ofList m.toList)).updOwner o
            (·.setFld f (.slice h.next m.toList.length m.toList.length)) with next := h.next + 1 } : Heap)
          = h.write o f (.slice h.next m.toList.length m.toList.length) (some (h.next, AMap.ofList m.toList)) 1 := by
        unfold Heap.updOwner Heap.setObj Heap.write; rfl
      simp only [Bool.false_eq_true, if_false]
      rw [heq]
      have hpos : 0 < m.toList.length := by
        cases hl : m.toList with
        | nil => simp [hl] at he
        | cons x xs => simp
      refine write_step h hi ⟨?_, ?_, ?_⟩ ?_
      · intro id hr; simp [refId] at hr; exact Or.inl ⟨hr.symm, by omega⟩
      · intro id m' hr; simp at hr; exact Or.inl ⟨hr.1.symm, by omega⟩
      · simp only [ValOk, hk, true_and]
        exact ⟨m.toList, by simp [Heap.write], rfl, Nat.le_refl _, hpos⟩
      · simp [Heap.absVal, Heap.write, toList_ofList, norm]

end Req.Heap

namespace Req.Heap
open Req.Scope

theorem step_updBox (h : Heap) (hi : Inv h) (o : Nat) (f : Field) (g : AMap → AMap) (hk : kind f = .box) :
    Step h (h.updBox o f g) o f (g (h.absVal ((h.owner o).fld f))) := by
  unfold Heap.updBox
  have hok := hi.ok o f
  cases hv : (h.owner o).fld f with
  | box id =>
    simp only
    rw [setObj_eq_write h o f id (g (h.obj id)), hv]
    refine write_step h hi ⟨?_, ?_, ?_⟩ ?_
    · intro id' hr; exact Or.inr (by rw [hv]; exact hr)
    · intro id' m' hr; simp at hr; exact Or.inr (by rw [hv, ← hr.1]; rfl)
    · simp [ValOk, hk]
    · simp [Heap.absVal, Heap.write]
  | nil =>
    simp only
    have := step_putFresh h hi o f (g [])
    simpa [hk, norm, Heap.absVal] using this
  | slice id l c =>
    rw [hv] at hok
    simp [ValOk, hk] at hok

theorem overwrite_length (old : List Nat) (l : Nat) (xs : List Nat) (hl : l + xs.length ≤ old.length) :
    (overwrite old l xs).length = old.length := by
  simp [overwrite]; omega

theorem overwrite_take (old : List Nat) (l : Nat) (xs : List Nat) (hl : l ≤ old.length) :
    (overwrite old l xs).take (l + xs.length) = old.take l ++ xs := by
  unfold overwrite
  have h1 : (old.take l ++ xs).length = l + xs.length := by simp; omega
  rw [List.take_append_of_le_length (by omega)]
  rw [← h1, List.take_length]

theorem appendV_ofList (ys xs : List Nat) (hx : xs.isEmpty = false) :
    appendV (AMap.ofList ys) xs = AMap.ofList (ys ++ xs) := by
  simp [appendV, hx, toList_ofList]

theorem step_appendSlice (grow : Nat → Nat → Nat) (h : Heap) (hi : Inv h) (o : Nat) (f : Field) (xs : List Nat)
    (hk : kind f = .slice) :
    Step h (h.appendSlice grow o f xs) o f (appendV (h.absVal ((h.owner o).fld f)) xs) := by
  unfold Heap.appendSlice
  by_cases hx : xs.isEmpty
  · simp only [hx, if_true, appendV]
    refine ⟨hi, ?_, rfl⟩
    have : h.absVal ((h.owner o).fld f) = ((abs h).owner o).val f := rfl
    rw [this, slotSet_same]
  · have hx' : xs.isEmpty = false := by simpa using hx
    have hxl : 0 < xs.length := by
      cases xs with
      | nil => simp at hx
      | cons a as => simp
    simp only [hx', Bool.false_eq_true, if_false]
    have hok := hi.ok o f
    -- the "allocate a new array" branch, shared by the nil case
    have fresh : ∀ (l : Nat) (old : List Nat), l ≤ old.length → ∀ c0 : Nat,
        Step h ({ (h.setObj h.next (AMap.ofList (old.take l ++ xs ++
              List.replicate (max (grow c0 (l + xs.length)) (l + xs.length) - (l + xs.length)) 0))).updOwner o
            (·.setFld f (.slice h.next (l + xs.length) (max (grow c0 (l + xs.length)) (l + xs.length))))
            with next := h.next + 1 } : Heap) o f (AMap.ofList (old.take l ++ xs)) := by
      intro l old hl c0
      have heq : ({ (h.setObj h.next (AMap.ofList (old.take l ++ xs ++
              List.replicate (max (grow c0 (l + xs.length)) (l + xs.length) - (l + xs.length)) 0))).updOwner o
            (·.setFld f (.slice h.next (l + xs.length) (max (grow c0 (l + xs.length)) (l + xs.length))))
            with next := h.next + 1 } : Heap)
          = h.write o f (.slice h.next (l + xs.length) (max (grow c0 (l + xs.length)) (l + xs.length)))
              (some (h.next, AMap.ofList (old.take l ++ xs ++
                List.replicate (max (grow c0 (l + xs.length)) (l + xs.length) - (l + xs.length)) 0))) 1 := by
        unfold Heap.updOwner Heap.setObj Heap.write; rfl
      rw [heq]
      have hlen : (old.take l ++ xs).length = l + xs.length := by simp; omega
      refine write_step h hi ⟨?_, ?_, ?_⟩ ?_
      · intro id hr; simp [refId] at hr; exact Or.inl ⟨hr.symm, by omega⟩
      · intro id m' hr; simp at hr; exact Or.inl ⟨hr.1.symm, by omega⟩
      · simp only [ValOk, hk, true_and]
        refine ⟨old.take l ++ xs ++ List.replicate (max (grow c0 (l + xs.length)) (l + xs.length) - (l + xs.length)) 0,
          by simp [Heap.write], ?_, by omega, by omega⟩
        simp; omega
      · simp only [Heap.absVal, Heap.write, if_true, toList_ofList]
        rw [← hlen, List.take_append_of_le_length (by omega), List.take_length]
    cases hv : (h.owner o).fld f with
    | slice id l c =>
      rw [hv] at hok
      simp only [ValOk] at hok
      obtain ⟨_, arr, harr, hlen, hlc, hl0⟩ := hok
      have htl : (h.obj id).toList = arr := by rw [harr, toList_ofList]
      simp only [Heap.absVal, htl]
      rw [appendV_ofList _ _ hx']
      by_cases hfit : l + xs.length ≤ c
      · simp only [hfit, if_true]
        have heq : (h.setObj id (AMap.ofList (overwrite arr l xs))).updOwner o (·.setFld f (.slice id (l + xs.length) c))
            = h.write o f (.slice id (l + xs.length) c) (some (id, AMap.ofList (overwrite arr l xs))) 0 := by
          unfold Heap.updOwner Heap.setObj Heap.write; rfl
        rw [heq]
        refine write_step h hi ⟨?_, ?_, ?_⟩ ?_
        · intro id' hr; exact Or.inr (by rw [hv]; exact hr)
        · intro id' m' hr; simp at hr; exact Or.inr (by rw [hv, ← hr.1]; rfl)
        · simp only [ValOk, hk, true_and]
          refine ⟨overwrite arr l xs, by simp [Heap.write], ?_, hfit, by omega⟩
          rw [overwrite_length _ _ _ (by omega)]; exact hlen
        · simp only [Heap.absVal, Heap.write, if_true, toList_ofList]
          rw [overwrite_take _ _ _ (by omega)]
      · simp only [hfit, if_false]
        exact fresh l arr (by omega) c
    | nil =>
      simp only [Heap.absVal]
      have := fresh 0 [] (Nat.le_refl _) 0
      simp only [List.take_nil, List.nil_append, Nat.zero_add] at this
      have hv2 : appendV [] xs = AMap.ofList xs := by
        have := appendV_ofList [] xs hx'
        simpa [AMap.ofList] using this
      rw [hv2]
      exact this
    | box id =>
      rw [hv] at hok
      simp [ValOk, hk] at hok

theorem step_putSliceCap (h : Heap) (hi : Inv h) (o : Nat) (f : Field) (xs : List Nat) (c : Nat)
    (hk : kind f = .slice) : Step h (h.putSliceCap o f xs c) o f (AMap.ofList xs) := by
  unfold Heap.putSliceCap
  by_cases hx : xs.isEmpty
  · simp only [hx, if_true]
    have : AMap.ofList xs = [] := by simp [AMap.ofList, hx]
    rw [this]
    exact step_clear h hi o f
  · have hx' : xs.isEmpty = false := by simpa using hx
    have hxl : 0 < xs.length := by
      cases xs with
      | nil => simp at hx
      | cons a as => simp
    simp only [hx', Bool.false_eq_true, if_false]
    have heq : ({ (h.setObj h.next (AMap.ofList (xs ++ List.replicate (c - xs.length) 0))).updOwner o
          (·.setFld f (.slice h.next xs.length (max c xs.length))) with next := h.next + 1 } : Heap)
        = h.write o f (.slice h.next xs.length (max c xs.length))
            (some (h.next, AMap.ofList (xs ++ List.replicate (c - xs.length) 0))) 1 := by
      unfold Heap.updOwner Heap.setObj Heap.write; rfl
    rw [heq]
    refine write_step h hi ⟨?_, ?_, ?_⟩ ?_
    · intro id hr; simp [refId] at hr; exact Or.inl ⟨hr.symm, by omega⟩
    · intro id m' hr; simp at hr; exact Or.inl ⟨hr.1.symm, by omega⟩
    · simp only [ValOk, hk, true_and]
      refine ⟨xs ++ List.replicate (c - xs.length) 0, by simp [Heap.write], ?_, by omega, hxl⟩
      simp; omega
    · simp only [Heap.absVal, Heap.write, if_true, toList_ofList]
      rw [List.take_append_of_le_length (Nat.le_refl _), List.take_length]

end Req.Heap

namespace Req.Heap
open Req.Scope

/-! ### Appending a record -/

theorem fieldOf_val (f : Field) : fieldOf f.val = some f := by
  unfold fieldOf
  simp [f.isLt]

theorem addOwner_obj_old (h : Heap) (parent : Option Nat) (src : Field → Src) (id : Nat) (hid : id < h.next) :
    (h.addOwner parent src).obj id = h.obj id := by
  unfold Heap.addOwner
  simp only
  rw [if_neg (by omega)]

theorem addOwner_obj_new (h : Heap) (parent : Option Nat) (src : Field → Src) (f : Field) :
    (h.addOwner parent src).obj (h.next + f.val) =
      match src f with
      | .fresh m => norm (kind f) m
      | _ => h.obj (h.next + f.val) := by
  unfold Heap.addOwner
  simp only
  rw [if_pos (by omega), Nat.add_sub_cancel_left, fieldOf_val]
  rfl

/-- value a new record's field reads as -/
def srcAbs (f : Field) : Src → AMap
  | .fresh m => norm (kind f) m
  | _ => []

theorem srcVal_ref (base : Nat) (f : Field) (s : Src) (hns : ∀ v, s ≠ .share v) (id : Nat)
    (hr : refId (srcVal base f s) = some id) : id = base + f.val ∧ ∃ m, s = .fresh m := by
  cases s with
  | share v => exact absurd rfl (hns v)
  | zero => simp [srcVal, refId] at hr
  | fresh m =>
    unfold srcVal at hr
    cases hk : kind f with
    | box => simp [hk, refId] at hr; exact ⟨hr.symm, m, rfl⟩
    | slice =>
      simp only [hk] at hr
      by_cases he : m.toList.isEmpty
      · simp [he, refId] at hr
      · simp [he, refId] at hr; exact ⟨hr.symm, m, rfl⟩

theorem addOwner_spec (h : Heap) (hi : Inv h) (parent : Option Nat) (src : Field → Src)
    (hns : ∀ f v, src f ≠ .share v) :
    Inv (h.addOwner parent src) ∧
    abs (h.addOwner parent src) =
      { count := h.count + 1
        owner := fun i => if i = h.count then ⟨parent, fun f => srcAbs f (src f)⟩ else (abs h).owner i } := by
  have hown_new : (h.addOwner parent src).owner h.count = ⟨parent, fun f => srcVal h.next f (src f)⟩ := by
    simp [Heap.addOwner]
  have hown_old : ∀ i, i ≠ h.count → (h.addOwner parent src).owner i = h.owner i := by
    intro i hne; simp [Heap.addOwner, hne]
  have hnext : (h.addOwner parent src).next = h.next + nFields := rfl
  -- a reference held by the new state: either an old one (below `next`) or a fresh one
  have href : ∀ i f id, refId (((h.addOwner parent src).owner i).fld f) = some id →
      (i ≠ h.count ∧ refId ((h.owner i).fld f) = some id ∧ id < h.next) ∨
      (i = h.count ∧ id = h.next + f.val ∧ ∃ m, src f = .fresh m) := by
    intro i f id hr
    by_cases hic : i = h.count
    · subst hic
      rw [hown_new] at hr
      have := srcVal_ref h.next f (src f) (hns f) id hr
      exact Or.inr ⟨rfl, this.1, this.2⟩
    · rw [hown_old i hic] at hr
      exact Or.inl ⟨hic, hr, hi.lt i f id hr⟩
  -- reading the new record
  have hread : ∀ f, (h.addOwner parent src).absVal (srcVal h.next f (src f)) = srcAbs f (src f) := by
    intro f
    cases hs : src f with
    | share v => exact absurd hs (hns f v)
    | zero => simp [srcVal, srcAbs, Heap.absVal]
    | fresh m =>
      simp only [srcVal, srcAbs]
      cases hk : kind f with
      | box =>
        simp only [Heap.absVal]
        rw [addOwner_obj_new, hs]; simp [hk]
      | slice =>
        simp only
        by_cases he : m.toList.isEmpty
        · simp only [he, if_true, Heap.absVal, norm, AMap.ofList]
        · simp only [he, Bool.false_eq_true, if_false, Heap.absVal]
          rw [addOwner_obj_new, hs]
          simp only [hk, norm, toList_ofList, List.take_length]
  refine ⟨⟨?_, ?_, ?_⟩, ?_⟩
  · intro i f id hr
    rw [hnext]
    rcases href i f id hr with ⟨_, _, hlt⟩ | ⟨_, hid, _⟩
    · omega
    · have := f.isLt; omega
  · intro i f j g id hr1 hr2
    rcases href i f id hr1 with ⟨hi1, ho1, hlt1⟩ | ⟨hi1, hid1, _⟩ <;>
      rcases href j g id hr2 with ⟨hi2, ho2, hlt2⟩ | ⟨hi2, hid2, _⟩
    · exact hi.sep i f j g id ho1 ho2
    · omega
    · omega
    · refine ⟨hi1.trans hi2.symm, ?_⟩
      apply Fin.ext; omega
  · intro i f
    by_cases hic : i = h.count
    · subst hic
      rw [hown_new]
      simp only
      cases hs : src f with
      | share v => exact absurd hs (hns f v)
      | zero => simp [srcVal, ValOk]
      | fresh m =>
        simp only [srcVal]
        cases hk : kind f with
        | box => simp [ValOk, hk]
        | slice =>
          simp only
          by_cases he : m.toList.isEmpty
          · simp [he, ValOk]
          · simp only [he, Bool.false_eq_true, if_false, ValOk, hk, true_and]
            refine ⟨m.toList, ?_, rfl, Nat.le_refl _, ?_⟩
            · rw [addOwner_obj_new, hs]; simp [hk, norm]
            · cases hl : m.toList with
              | nil => simp [hl] at he
              | cons x xs => simp
    · rw [hown_old i hic]
      have hok := hi.ok i f
      generalize hv : (h.owner i).fld f = val at hok
      cases val with
      | nil => trivial
      | box id => exact hok
      | slice id l c =>
        simp only [ValOk] at hok ⊢
        refine ⟨hok.1, ?_⟩
        rw [addOwner_obj_old h parent src id (hi.lt i f id (by rw [hv]; rfl))]
        exact hok.2
  · unfold abs
    congr 1
    funext i
    by_cases hic : i = h.count
    · subst hic
      simp only [if_true]
      rw [hown_new]
      unfold Heap.absOwner
      congr 1
      funext f
      exact hread f
    · simp only [if_neg hic]
      rw [hown_old i hic]
      unfold Heap.absOwner
      congr 1
      funext f
      exact absVal_congr _ _ _ fun id hr => addOwner_obj_old h parent src id (hi.lt i f id hr)

end Req.Heap

namespace Req.Heap
open Req.Scope

/-! ### Every primitive -/

theorem norm_idem (k : Kind) (m : AMap) : norm k (norm k m) = norm k m := by
  cases k with
  | box => rfl
  | slice => simp [norm, toList_ofList]

theorem norm_initVal : ∀ f : Field, norm (kind f) (initVal f) = initVal f := by decide

/-- a primitive shares no reference -/
def PrimSafe : Prim → Prop
  | .derive _ t _ => AliasSafe t
  | _ => True

theorem updOwner_ge (s : VState) (o : Nat) (g : VOwner → VOwner) (ho : ¬ o < s.count) : s.updOwner o g = s := by
  simp [VState.updOwner, ho]

/-- a single-slot step of the heap matches `updOwner … setVal` on values -/
theorem step_matches {h h' : Heap} {o : Nat} {f : Field} {m : AMap} (st : Step h h' o f m) (ho : o < h.count)
    (g : VOwner → AMap) (hg : g ((abs h).owner o) = m) :
    Inv h' ∧ abs h' = (abs h).updOwner o (fun w => w.setVal f (g w)) := by
  refine ⟨st.inv, ?_⟩
  rw [st.abs, updOwner_setVal (abs h) o f g ho, hg]

theorem stepH_refines (grow : Nat → Nat → Nat) (h : Heap) (hi : Inv h) (p : Prim) (hp : PrimSafe p) :
    Inv (stepH grow h p) ∧ abs (stepH grow h p) = stepV (abs h) p := by
  have hcount : (abs h).count = h.count := rfl
  cases p with
  | newClient =>
    have := addOwner_spec h hi none (fun f => .fresh (initVal f)) (by intro f v hc; cases hc)
    refine ⟨this.1, ?_⟩
    simp only [stepH, stepV]
    rw [this.2]
    congr 1
    funext i
    by_cases hic : i = h.count
    · simp only [hic, if_true, hcount]
      congr 1
      funext f
      exact norm_initVal f
    · simp [hic, hcount]
  | derive src t req =>
    simp only [stepH, stepV, hcount]
    by_cases hs : src < h.count
    · simp only [hs, if_true]
      have hsafe : AliasSafe t := hp
      have := addOwner_spec h hi (if req then some src else none) (srcOf h t (h.owner src))
        (by
          intro f v hc
          have := hsafe f
          unfold srcOf at hc
          cases ht : t f <;> simp [ht] at hc this)
      refine ⟨this.1, ?_⟩
      rw [this.2]
      congr 1
      funext i
      by_cases hic : i = h.count
      · simp only [hic, if_true]
        congr 1
        funext f
        have := hsafe f
        unfold srcOf deriveVal
        cases ht : t f with
        | assigned => exact absurd ht this
        | fresh =>
          simp only [srcAbs]
          exact norm_absVal h f _ (hi.ok src f)
        | absent => simp [srcAbs]
      · simp [hic]
    · simp [hs, hi]
  | set o f k vs =>
    simp only [stepH, stepV]
    by_cases hk : kind f = .box
    · by_cases ho : o < h.count
      · simp only [hk, ho, and_self, if_true]
        exact step_matches (step_updBox h hi o f (·.set k vs) hk) ho (fun w => (w.val f).set k vs) rfl
      · simp only [hk, ho, and_false, if_false, if_true]
        exact ⟨hi, (updOwner_ge _ _ _ (by simpa [hcount] using ho)).symm⟩
    · simp [hk, hi]
  | add o f k vs =>
    simp only [stepH, stepV]
    by_cases hk : kind f = .box
    · by_cases ho : o < h.count
      · simp only [hk, ho, and_self, if_true]
        exact step_matches (step_updBox h hi o f (·.addMany k vs) hk) ho (fun w => (w.val f).addMany k vs) rfl
      · simp only [hk, ho, and_false, if_false, if_true]
        exact ⟨hi, (updOwner_ge _ _ _ (by simpa [hcount] using ho)).symm⟩
    · simp [hk, hi]
  | replace o f m =>
    simp only [stepH, stepV]
    by_cases ho : o < h.count
    · simp only [ho, if_true]
      have st := step_putFresh h hi o f (norm (kind f) m)
      rw [norm_idem] at st
      exact step_matches st ho (fun _ => norm (kind f) m) rfl
    · simp only [ho, if_false]
      exact ⟨hi, (updOwner_ge _ _ _ (by simpa [hcount] using ho)).symm⟩
  | clear o f =>
    simp only [stepH, stepV]
    by_cases ho : o < h.count
    · simp only [ho, if_true]
      exact step_matches (step_clear h hi o f) ho (fun _ => []) rfl
    · simp only [ho, if_false]
      exact ⟨hi, (updOwner_ge _ _ _ (by simpa [hcount] using ho)).symm⟩
  | append o f xs =>
    simp only [stepH, stepV]
    by_cases hk : kind f = .slice
    · by_cases ho : o < h.count
      · simp only [hk, ho, and_self, if_true]
        exact step_matches (step_appendSlice grow h hi o f xs hk) ho (fun w => appendV (w.val f) xs) rfl
      · simp only [hk, ho, and_false, if_false, if_true]
        exact ⟨hi, (updOwner_ge _ _ _ (by simpa [hcount] using ho)).symm⟩
    · simp [hk, hi]
  | copyFrom o dst src =>
    simp only [stepH, stepV]
    by_cases ho : o < h.count
    · simp only [ho, if_true]
      have st := step_putFresh h hi o dst (norm (kind dst) (h.absVal ((h.owner o).fld src)))
      rw [norm_idem] at st
      exact step_matches st ho (fun w => norm (kind dst) (w.val src)) rfl
    · simp only [ho, if_false]
      exact ⟨hi, (updOwner_ge _ _ _ (by simpa [hcount] using ho)).symm⟩
  | jarStore r v =>
    simp only [stepH, stepV, hcount]
    by_cases hr : r < h.count
    · simp only [hr, if_true]
      have hpar : ((abs h).owner r).parent = (h.owner r).parent := rfl
      rw [hpar]
      cases hpc : (h.owner r).parent with
      | none => exact ⟨hi, rfl⟩
      | some c =>
        simp only
        have hkj : kind F.jar = .box := by decide
        by_cases hc : c < h.count
        · simp only [hc, if_true]
          exact step_matches (step_updBox h hi c F.jar (·.addMany 0 [v]) hkj) hc
            (fun w => (w.val F.jar).add 0 v) rfl
        · simp only [hc, if_false]
          exact ⟨hi, (updOwner_ge _ _ _ (by simpa [hcount] using hc)).symm⟩
    · simp [hr, hi]
  | wrap o sl ch xs built =>
    simp only [stepH, stepV]
    by_cases hc : kind sl = .slice ∧ kind ch = .box ∧ ¬ xs.isEmpty
    · obtain ⟨hksl, hkch, hxs⟩ := hc
      by_cases ho : o < h.count
      · have hcond : kind sl = .slice ∧ kind ch = .box ∧ ¬ xs.isEmpty := ⟨hksl, hkch, hxs⟩
        simp only [if_pos hcond, if_pos ho]
        have hne : ch ≠ sl := by
          intro he; rw [he, hksl] at hkch; cases hkch
        -- first the slice slot
        have st1 : Step h
            (if (h.absVal ((h.owner o).fld ch)).toList.isEmpty then
               h.putSliceCap o sl xs (if built then builtCap grow xs.length else xs.length)
             else h.appendSlice grow o sl xs) o sl
            (if (h.absVal ((h.owner o).fld ch)).toList.isEmpty then AMap.ofList xs
             else appendV (h.absVal ((h.owner o).fld sl)) xs) := by
          by_cases hce : (h.absVal ((h.owner o).fld ch)).toList.isEmpty
          · simp only [hce, if_true]; exact step_putSliceCap h hi o sl xs _ hksl
          · simp only [hce, Bool.false_eq_true, if_false]; exact step_appendSlice grow h hi o sl xs hksl
        generalize hh1 : (if (h.absVal ((h.owner o).fld ch)).toList.isEmpty then
               h.putSliceCap o sl xs (if built then builtCap grow xs.length else xs.length)
             else h.appendSlice grow o sl xs) = h1 at st1
        -- then the chain slot; it still reads what it read before
        have hchain : h1.absVal ((h1.owner o).fld ch) = h.absVal ((h.owner o).fld ch) := by
          have h1v : h1.absVal ((h1.owner o).fld ch) = ((abs h1).owner o).val ch := rfl
          rw [h1v, st1.abs]
          simp [slotSet, VOwner.setVal, hne]
          rfl
        have st2 := step_updBox h1 st1.inv o ch (fun m => m.set 0 (m.toList ++ xs)) hkch
        refine ⟨st2.inv, ?_⟩
        rw [st2.abs, st1.abs, hchain]
        rw [updOwner_eq (abs h) o _ ho]
        unfold slotSet
        simp only
        congr 1
        funext i
        by_cases hio : i = o
        · subst hio
          simp only [if_true]
          have e1 : h.absVal ((h.owner i).fld ch) = ((abs h).owner i).val ch := rfl
          have e2 : h.absVal ((h.owner i).fld sl) = ((abs h).owner i).val sl := rfl
          rw [e1, e2]
          by_cases hce : (((abs h).owner i).val ch).toList.isEmpty
          · simp [hce, VOwner.setVal, hne]
          · simp [hce, VOwner.setVal, hne]
        · simp [hio]
      · have hcond : kind sl = .slice ∧ kind ch = .box ∧ ¬ xs.isEmpty := ⟨hksl, hkch, hxs⟩
        simp only [if_pos hcond, if_neg ho]
        exact ⟨hi, (updOwner_ge _ _ _ (by simpa [hcount] using ho)).symm⟩
    · simp only [if_neg hc]
      exact ⟨hi, trivial⟩

end Req.Heap

namespace Req.Heap
open Req.Scope

/-! ### Lists of primitives, API programs -/

theorem runH_refines (grow : Nat → Nat → Nat) : ∀ (ps : List Prim) (h : Heap), Inv h → (∀ p ∈ ps, PrimSafe p) →
    Inv (runH grow h ps) ∧ abs (runH grow h ps) = runV (abs h) ps := by
  intro ps
  induction ps with
  | nil => intro h hi _; exact ⟨hi, rfl⟩
  | cons p ps ih =>
    intro h hi hs
    have h1 := stepH_refines grow h hi p (hs p (by simp))
    have h2 := ih (stepH grow h p) h1.1 (fun q hq => hs q (by simp [hq]))
    simp only [runH, runV, List.foldl_cons] at h2 ⊢
    rw [← h1.2]
    exact h2

def isDerive : Prim → Bool
  | .derive _ _ _ => true
  | _ => false

theorem primSafe_of_not_derive (p : Prim) (h : isDerive p = false) : PrimSafe p := by
  cases p <;> first | trivial | (simp [isDerive] at h)

theorem setter_no_derive (o : Nat) (s : Setter) : (s.prims o).all (fun p => !isDerive p) = true := by
  cases s <;> simp [Setter.prims, isDerive]
  all_goals (repeat' split) <;> simp [isDerive]

end Req.Heap

namespace Req.Heap
open Req.Scope

theorem compile_safe (tc tr : Table) (hc : AliasSafe tc) (hr : AliasSafe tr) (n : Nat) (op : Op) :
    ∀ p ∈ compile tc tr n op, PrimSafe p := by
  intro p hp
  cases op with
  | newClient =>
    simp [compile] at hp
    rcases hp with rfl | rfl <;> trivial
  | clone i =>
    simp only [compile] at hp
    split at hp
    · simp at hp
      rcases hp with rfl | rfl | rfl | rfl
      · exact hc
      all_goals trivial
    · simp at hp
  | newReq i =>
    simp only [compile] at hp
    split at hp
    · simp at hp
      rcases hp with rfl | rfl | rfl | rfl | rfl
      · exact hr
      all_goals trivial
    · simp at hp
  | set o s =>
    simp only [compile] at hp
    have := setter_no_derive o s
    rw [List.all_eq_true] at this
    exact primSafe_of_not_derive p (by simpa using this p hp)
  | exec r m md path sc =>
    simp only [compile] at hp
    split at hp
    · simp at hp
    · simp at hp; subst hp; trivial
  | getCookies c => simp [compile] at hp
  | probe o => simp [compile] at hp

theorem runHeapFrom_refines (grow : Nat → Nat → Nat) (tc tr : Table) (hc : AliasSafe tc) (hr : AliasSafe tr) :
    ∀ (ops : List Op) (h : Heap), Inv h →
      Inv (runHeapFrom grow tc tr h ops).1 ∧
      abs (runHeapFrom grow tc tr h ops).1 = (runWith tc tr (abs h) ops).1 ∧
      (runHeapFrom grow tc tr h ops).2 = (runWith tc tr (abs h) ops).2 := by
  intro ops
  induction ops with
  | nil => intro h hi; exact ⟨hi, rfl, rfl⟩
  | cons op ops ih =>
    intro h hi
    simp only [runHeapFrom, runWith, stepOp]
    have hcount : (abs h).count = h.count := rfl
    by_cases he : observe (abs h) op = .err
    · simp only [he, if_true]
      have := ih h hi
      exact ⟨this.1, this.2.1, by rw [this.2.2]⟩
    · simp only [he, if_false]
      have h1 := runH_refines grow (compile tc tr h.count op) h hi (compile_safe tc tr hc hr h.count op)
      have := ih (runH grow h (compile tc tr h.count op)) h1.1
      rw [h1.2] at this
      rw [hcount]
      exact ⟨this.1, this.2.1, by rw [this.2.2]⟩

/-! ### Only what a table carries matters on values -/

theorem deriveVal_congr (t t' : Table) (hcl : ∀ f, t f = .absent ↔ t' f = .absent) (w : VOwner) :
    deriveVal t w = deriveVal t' w := by
  funext f
  unfold deriveVal
  have := hcl f
  cases ht : t f <;> cases ht' : t' f <;> simp [ht, ht'] at this ⊢

theorem stepV_derive_congr (t t' : Table) (hcl : ∀ f, t f = .absent ↔ t' f = .absent) (s : VState) (src : Nat) (req : Bool) :
    stepV s (.derive src t req) = stepV s (.derive src t' req) := by
  simp only [stepV]
  split
  · congr 1
    funext i
    split
    · rw [deriveVal_congr t t' hcl]
    · rfl
  · rfl

theorem compile_congr (tc tr tc' tr' : Table) (hc : ∀ f, tc f = .absent ↔ tc' f = .absent)
    (hr : ∀ f, tr f = .absent ↔ tr' f = .absent) (s : VState) (n : Nat) (op : Op) :
    runV s (compile tc tr n op) = runV s (compile tc' tr' n op) := by
  cases op with
  | clone i =>
    simp only [compile]
    split
    · simp only [runV, List.foldl_cons]
      rw [stepV_derive_congr tc tc' hc]
    · rfl
  | newReq i =>
    simp only [compile]
    split
    · simp only [runV, List.foldl_cons]
      rw [stepV_derive_congr tr tr' hr]
    · rfl
  | _ => rfl

theorem runWith_congr (tc tr tc' tr' : Table) (hc : ∀ f, tc f = .absent ↔ tc' f = .absent)
    (hr : ∀ f, tr f = .absent ↔ tr' f = .absent) : ∀ (ops : List Op) (s : VState),
    runWith tc tr s ops = runWith tc' tr' s ops := by
  intro ops
  induction ops with
  | nil => intro s; rfl
  | cons op ops ih =>
    intro s
    simp only [runWith, stepOp]
    rw [compile_congr tc tr tc' tr' hc hr s s.count op, ih]

end Req.Heap
