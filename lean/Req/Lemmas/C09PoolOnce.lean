import Req.Lemmas.C09PoolExcl
/-! A want is delivered at most once (C09): `wantConn.done` is monotone and the delivered
connection never changes. -/
namespace Req.Lemmas.C09PoolOnce
open Req.Pool.H1Pool Req.Lemmas.C09Pool Req.Lemmas.C09PoolExcl

/-- `s'` is a legal successor of `s` as far as want states go. -/
def WstOK (s s' : St) : Prop :=
  ∀ w, (s.wst w ≠ .waiting → s'.wst w ≠ .waiting) ∧
       ∀ c, (s'.wst w).holds c = true → (s.wst w).holds c = true ∨ s.wst w = .waiting

theorem WstOK_of_eq {s s' : St} (h : s'.wst = s.wst) : WstOK s s' := by
  intro w; rw [h]; exact ⟨id, fun c hc => Or.inl hc⟩

theorem WstOK_trans {a b c : St} (h1 : WstOK a b) (h2 : WstOK b c) : WstOK a c := by
  intro w
  refine ⟨fun h => (h2 w).1 ((h1 w).1 h), ?_⟩
  intro x hx
  rcases (h2 w).2 x hx with h | h
  · exact (h1 w).2 x h
  · by_cases ha : a.wst w = .waiting
    · exact Or.inr ha
    · exact absurd h ((h1 w).1 ha)

/-- Setting a waiting want to a non-waiting state. -/
theorem WstOK_upd_waiting (s : St) (w0 : Want) (v : WSt) (hw : s.wst w0 = .waiting) (hv : v ≠ .waiting)
    {s' : St} (h : s'.wst = upd s.wst w0 v) : WstOK s s' := by
  intro w
  rw [h]
  simp only [upd]
  split
  · next he => subst he; exact ⟨fun _ => hv, fun c _ => Or.inr hw⟩
  · exact ⟨id, fun c hc => Or.inl hc⟩

/-- Moving a want to a state that holds no more than before and is not `waiting`. -/
theorem WstOK_upd_shrink (s : St) (w0 : Want) (v : WSt) (hv : v ≠ .waiting)
    (hsub : ∀ c, v.holds c = true → (s.wst w0).holds c = true)
    {s' : St} (h : s'.wst = upd s.wst w0 v) : WstOK s s' := by
  intro w
  rw [h]
  simp only [upd]
  split
  · next he => subst he; exact ⟨fun _ => hv, fun c hc => Or.inl (hsub c hc)⟩
  · exact ⟨id, fun c hc => Or.inl hc⟩

@[simp] theorem evictOldest_wst' (cfg : Cfg) (s : St) : (evictOldest cfg s).wst = s.wst := by simp
@[simp] theorem addIdle_wst (cfg : Cfg) (s : St) (c : Conn) (k : Key) : (addIdle cfg s c k).wst = s.wst := by
  unfold addIdle; simp only; split <;> simp

theorem WstOK_tryPut (cfg : Cfg) (s : St) (c : Conn) (k : Key) : WstOK s (tryPut cfg s c k).1 := by
  unfold tryPut
  split
  · exact WstOK_of_eq rfl
  · split
    · exact WstOK_of_eq rfl
    · split
      · next w q heq =>
        have hwait : s.wst w = .waiting := popUntilWaiting_some_waiting s.wst _ w (by rw [heq])
        exact WstOK_upd_waiting s w (.gotConn c) hwait (by simp) rfl
      · simp only
        (repeat' split) <;> first | exact WstOK_of_eq rfl | exact WstOK_of_eq (by simp)

theorem WstOK_queueIdle (cfg : Cfg) (s : St) (w : Want) (k : Key) : WstOK s (queueIdle cfg s w k).1 := by
  unfold queueIdle
  split
  · exact WstOK_of_eq rfl
  · simp only
    split
    · next c rest _ =>
      split
      · next hwait => exact WstOK_upd_waiting s w (.gotConn c) hwait (by simp) rfl
      · exact WstOK_of_eq rfl
    · exact WstOK_of_eq rfl

theorem queueDial_wst (cfg : Cfg) (s : St) (w : Want) (k : Key) : (queueDial cfg s w k).wst = s.wst :=
  (queueDial_frame cfg s w k).2.2.1

theorem WstOK_step (cfg : Cfg) (s : St) (op : Op) : WstOK s (step cfg s op).1 := by
  cases op with
  | newWant w k => simp only [step]; split <;> exact WstOK_of_eq rfl
  | queueIdle w => simp only [step]; split; exact WstOK_of_eq rfl; exact WstOK_queueIdle cfg s w _
  | queueDial w =>
    simp only [step]; split; exact WstOK_of_eq rfl
    split; exact WstOK_of_eq rfl
    exact WstOK_of_eq (queueDial_wst _ _ _ _)
  | dialBegin w =>
    simp only [step]; split; exact WstOK_of_eq rfl
    split; exact WstOK_of_eq rfl
    split; exact WstOK_of_eq rfl
    exact WstOK_of_eq (by simp)
  | dialOk w c =>
    simp only [step]; split
    · split; exact WstOK_of_eq rfl
      split
      · next hwait => exact WstOK_upd_waiting s w (.gotConn c) hwait (by simp) rfl
      · exact WstOK_of_eq rfl
    · exact WstOK_of_eq rfl
  | dialFail w =>
    simp only [step]; split; exact WstOK_of_eq rfl
    split; exact WstOK_of_eq rfl
    simp only
    split
    · next hwait => exact WstOK_upd_waiting s w .gotErr hwait (by simp) (by simp)
    · exact WstOK_of_eq (by simp)
  | dialEnd w => simp only [step]; split <;> exact WstOK_of_eq rfl
  | recv w =>
    simp only [step]; split
    · next c hst =>
      exact WstOK_upd_shrink s w (.inUse c) (by simp) (by intro d hd; rw [hst]; exact hd) rfl
    · next hst =>
      exact WstOK_upd_shrink s w .finished (by simp) (by intro d hd; cases hd) rfl
    · exact WstOK_of_eq rfl
  | cancel w =>
    simp only [step]; split; exact WstOK_of_eq rfl
    split
    · exact WstOK_upd_shrink s w .canceled (by simp) (by intro d hd; cases hd) rfl
    · exact WstOK_upd_shrink s w .canceled (by simp) (by intro d hd; cases hd) rfl
    · exact WstOK_upd_shrink s w .canceled (by simp) (by intro d hd; cases hd) rfl
    · exact WstOK_of_eq rfl
  | putT c =>
    simp only [step]; split; exact WstOK_of_eq rfl
    split; exact WstOK_of_eq rfl
    next k _ _ =>
    have h1 : WstOK s (tryPut cfg { s with transit := s.transit.erase c } c k).1 :=
      WstOK_trans (WstOK_of_eq (s' := { s with transit := s.transit.erase c }) rfl) (WstOK_tryPut _ _ _ _)
    split
    · exact h1
    · exact WstOK_trans h1 (WstOK_of_eq rfl)
  | closeT c =>
    simp only [step]; split; exact WstOK_of_eq rfl
    exact WstOK_of_eq (by simp)
  | finishPut w =>
    simp only [step]; split
    · next c hst =>
      split; exact WstOK_of_eq rfl
      next k _ =>
      have h0 : WstOK s { s with wst := upd s.wst w .finished } :=
        WstOK_upd_shrink s w .finished (by simp) (by intro d hd; cases hd) rfl
      have h1 := WstOK_trans h0 (WstOK_tryPut cfg { s with wst := upd s.wst w .finished } c k)
      split
      · exact h1
      · exact WstOK_trans h1 (WstOK_of_eq rfl)
    · exact WstOK_of_eq rfl
  | finishClose w =>
    simp only [step]; split
    · have h0 : WstOK s { s with wst := upd s.wst w .finished } :=
        WstOK_upd_shrink s w .finished (by simp) (by intro d hd; cases hd) rfl
      exact WstOK_trans h0 (WstOK_of_eq (by simp))
    · exact WstOK_of_eq rfl
  | serverCloseIdle c =>
    simp only [step]; split; exact WstOK_of_eq rfl
    split
    · exact WstOK_of_eq (by simp)
    · exact WstOK_of_eq rfl
  | removeIdle c =>
    simp only [step]; split; exact WstOK_of_eq rfl
    split
    · exact WstOK_of_eq (by simp)
    · exact WstOK_of_eq rfl
  | idleTimeout c =>
    simp only [step]; split; exact WstOK_of_eq rfl
    exact WstOK_of_eq (by simp)
  | closeIdleConnections => simp only [step]; exact WstOK_of_eq rfl

theorem WstOK_run (cfg : Cfg) (s : St) (ops : List Op) : WstOK s (run cfg s ops) := by
  induction ops generalizing s with
  | nil => exact WstOK_of_eq rfl
  | cons op ops ih => exact WstOK_trans (WstOK_step cfg s op) (ih _)

end Req.Lemmas.C09PoolOnce
