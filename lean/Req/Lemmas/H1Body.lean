import Req.Lemmas.H1Mime
/-!
Extension stability and prefix monotonicity of the body readers (chunked loop, trailer, declared
length) and of the head parser.
-/
namespace Req.H1
open Req.Proto

theorem readChunkLine_append {B : Nat} {s line r : Bytes}
    (h : readChunkLine B s = some (line, r)) (t : Bytes) :
    readChunkLine B (s ++ t) = some (line, r ++ t) := by
  unfold readChunkLine at h ⊢
  cases hs : splitLF s with
  | none => simp [hs] at h
  | some p =>
    obtain ⟨a, r'⟩ := p
    simp only [hs] at h
    rw [splitLF_append hs t]
    simp only
    split at h
    · next hc =>
      simp only [Option.some.injEq, Prod.mk.injEq] at h
      obtain ⟨rfl, rfl⟩ := h
      simp [hc]
    · simp at h

theorem readChunkLine_length {B : Nat} {s line r : Bytes}
    (h : readChunkLine B s = some (line, r)) : r.length < s.length := by
  unfold readChunkLine at h
  cases hs : splitLF s with
  | none => simp [hs] at h
  | some p =>
    obtain ⟨a, r'⟩ := p
    simp only [hs] at h
    split at h
    · simp only [Option.some.injEq, Prod.mk.injEq] at h
      obtain ⟨_, rfl⟩ := h
      have := splitLF_length hs
      omega
    · simp at h

/-- If the chunked reader reached the last-chunk line on `s`, it reads the same data from
`s ++ t` and stops at the same place. -/
theorem chunkLoop_append {fuel B : Nat} {ex : Int} {s d r : Bytes}
    (h : chunkLoop fuel B ex s = (d, some r)) (t : Bytes) (fuel' : Nat) (hf : fuel ≤ fuel') :
    chunkLoop fuel' B ex (s ++ t) = (d, some (r ++ t)) := by
  induction fuel generalizing ex s d fuel' with
  | zero => simp [chunkLoop] at h
  | succ fuel ih =>
    obtain ⟨f', rfl⟩ : ∃ f', fuel' = f' + 1 := ⟨fuel' - 1, by omega⟩
    simp only [chunkLoop] at h
    cases hl : readChunkLine B s with
    | none => simp [hl] at h
    | some p =>
      obtain ⟨line, r1⟩ := p
      simp only [hl] at h
      cases hn : parseHexUint (chunkSizeField line) with
      | none => simp [hn] at h
      | some n =>
        simp only [hn] at h
        simp only [chunkLoop, readChunkLine_append hl t, hn]
        split at h
        · next h0 =>
          simp only [Prod.mk.injEq, Option.some.injEq] at h
          obtain ⟨rfl, rfl⟩ := h
          simp [h0]
        · next h0 =>
          split at h
          · simp at h
          · next hex =>
            split at h
            · simp at h
            · next hlen =>
              have hle : n ≤ r1.length := Nat.le_of_not_lt hlen
              have hdrop : (r1 ++ t).drop n = r1.drop n ++ t := List.drop_append_of_le_length hle
              have htake : (r1 ++ t).take n = r1.take n := List.take_append_of_le_length hle
              have hlen' : ¬ (r1 ++ t).length < n := by simp; omega
              simp only [h0, hex, hlen', if_false, hdrop, htake]
              split at h
              · next r3 heq =>
                cases hrec : chunkLoop fuel B
                    (max (wrap64 (ex + (line.length : Int) + 2 - (16 + 2 * (n : Int)))) 0) r3 with
                | mk d' e' =>
                  simp only [hrec, Prod.mk.injEq] at h
                  obtain ⟨rfl, rfl⟩ := h
                  have := ih hrec f' (by omega)
                  simp [heq, this]
              · simp at h

/-- The bytes the chunked reader hands out on a stream are a prefix of what it hands out on any
extension of the stream (whatever the ending). -/
theorem chunkLoop_data_prefix (fuel B : Nat) (ex : Int) (s t : Bytes) (fuel' : Nat)
    (hf : fuel ≤ fuel') :
    (chunkLoop fuel B ex s).1 <+: (chunkLoop fuel' B ex (s ++ t)).1 := by
  induction fuel generalizing ex s fuel' with
  | zero => simp [chunkLoop]
  | succ fuel ih =>
    obtain ⟨f', rfl⟩ : ∃ f', fuel' = f' + 1 := ⟨fuel' - 1, by omega⟩
    simp only [chunkLoop]
    cases hl : readChunkLine B s with
    | none => simp
    | some p =>
      obtain ⟨line, r1⟩ := p
      simp only [readChunkLine_append hl t]
      cases hn : parseHexUint (chunkSizeField line) with
      | none => simp
      | some n =>
        simp only
        split
        · simp
        · split
          · simp
          · split
            · next hlen =>
              -- the stream ended inside the chunk: everything left was handed out
              split
              · exact List.prefix_append r1 t
              · next hlen' =>
                have hle : r1.length ≤ n := Nat.le_of_lt hlen
                have : r1 <+: (r1 ++ t).take n := by
                  rw [List.take_append]
                  rw [List.take_of_length_le hle]
                  exact List.prefix_append _ _
                split
                · exact this.trans (List.prefix_append _ _)
                · exact this
            · next hlen =>
              have hle : n ≤ r1.length := Nat.le_of_not_lt hlen
              have hdrop : (r1 ++ t).drop n = r1.drop n ++ t := List.drop_append_of_le_length hle
              have htake : (r1 ++ t).take n = r1.take n := List.take_append_of_le_length hle
              have hlen' : ¬ (r1 ++ t).length < n := by simp; omega
              simp only [hlen', if_false, hdrop, htake]
              split
              · next r3 heq =>
                simp only [heq, List.cons_append]
                exact (List.prefix_append_right_inj _).mpr (ih _ r3 f' (by omega))
              · next hne =>
                split
                · exact List.prefix_append _ _
                · exact List.prefix_refl _

theorem hasDCRLF_append {a : Bytes} (h : hasDCRLF a = true) (b : Bytes) :
    hasDCRLF (a ++ b) = true := by
  induction a with
  | nil => simp [hasDCRLF] at h
  | cons c cs ih =>
    simp only [hasDCRLF, List.cons_append, Bool.or_eq_true] at h ⊢
    rcases h with h | h
    · left
      have h4 : ((c :: cs).take 4) = [CR, LF, CR, LF] := by simpa using h
      have hlen : 4 ≤ (c :: cs).length := by
        have := congrArg List.length h4
        simp at this
        simp; omega
      have : ((c :: cs) ++ b).take 4 = (c :: cs).take 4 := List.take_append_of_le_length hlen
      simp only [List.cons_append] at this
      rw [this, h4]
      simp
    · right; exact ih h

theorem readTrailer_append {B : Nat} {decl tr : HeaderMap} {s r : Bytes}
    (h : readTrailer B decl s = some (tr, r)) (t : Bytes) :
    readTrailer B decl (s ++ t) = some (tr, r ++ t) := by
  unfold readTrailer at h
  split at h
  · next r0 =>
    simp only [Option.some.injEq, Prod.mk.injEq] at h
    obtain ⟨rfl, rfl⟩ := h
    simp [readTrailer]
  · next hne =>
    split at h
    · simp at h
    · next hlen =>
      split at h
      · simp at h
      · next hd =>
        cases hm : readMIMEHeader s with
        | none => simp [hm] at h
        | some p =>
          obtain ⟨hdr, r'⟩ := p
          simp only [hm, Option.some.injEq, Prod.mk.injEq] at h
          obtain ⟨rfl, rfl⟩ := h
          have hd' : hasDCRLF (s.take B) = true := by simpa using hd
          have hlen2 : 2 ≤ s.length := by omega
          -- s has at least two bytes and does not start with CR LF; neither does s ++ t
          match s, hne, hlen2, hd', hm with
          | a :: b :: cs, hne, _, hd', hm =>
            have hab : ¬ (a = 13 ∧ b = 10) := by
              intro ⟨ha, hb⟩
              subst ha; subst hb
              exact hne cs rfl
            have htk : ((a :: b :: cs) ++ t).take B = (a :: b :: cs).take B ++ t.take (B - (a :: b :: cs).length) :=
              List.take_append
            have hd2 : hasDCRLF (((a :: b :: cs) ++ t).take B) = true := by
              rw [htk]; exact hasDCRLF_append hd' _
            have hm2 := readMIMEHeader_append hm t
            unfold readTrailer
            split
            · next r0 heq =>
              simp only [List.cons_append, List.cons.injEq] at heq
              exact absurd ⟨heq.1, heq.2.1⟩ hab
            · simp only [List.cons_append] at hd2 hm2 ⊢
              simp [hd2, hm2]

end Req.H1
