import Req.Lemmas.C20Digest
import Req.Lemmas.C20Base64
import Req.Lemmas.C20Accept
/-!
Helper lemmas for C20 `parse_faithful`: `parseChallenge` reads a challenge written in any
parameter order, with any optional white space around the commas and around the whole value,
in token or quoted form, exactly as it was meant — provided no value contains a comma or a
quote (the corner digest.go does not handle).
-/
namespace Req.Digest
open Req.Proto Req.Ascii


/-! ### trimming -/

theorem dropWhile_append_stop {p : UInt8 → Bool} : ∀ (l X : Bytes),
    l.all p = true → (∀ a ∈ X.head?, p a = false) → (l ++ X).dropWhile p = X := by
  intro l
  induction l with
  | nil =>
    intro X _ hX
    cases X with
    | nil => rfl
    | cons a r => simp [hX a (by simp)]
  | cons c cs ih =>
    intro X hl hX
    simp only [List.all_cons, Bool.and_eq_true] at hl
    simp [hl.1, ih X hl.2 hX]

/-- `strings.Trim(lead ++ X ++ trail, cutset) = X` when `X` starts and ends outside the cut set. -/
theorem trim_pad {p : UInt8 → Bool} (lead trail X : Bytes) (hne : X ≠ [])
    (hl : lead.all p = true) (ht : trail.all p = true)
    (ha : ∀ a ∈ X.head?, p a = false) (hz : ∀ z ∈ X.getLast?, p z = false) :
    trim p (lead ++ X ++ trail) = X := by
  unfold trim trimLeft trimRight
  have h1 : (lead ++ X ++ trail).dropWhile p = X ++ trail := by
    rw [List.append_assoc]
    apply dropWhile_append_stop lead _ hl
    intro a h
    apply ha
    cases X with
    | nil => exact absurd rfl hne
    | cons x xs => simpa using h
  rw [h1]
  have h2 : (X ++ trail).reverse.dropWhile p = X.reverse := by
    rw [List.reverse_append]
    apply dropWhile_append_stop _ _ (by simpa using ht)
    intro z h
    apply hz
    simpa [List.head?_reverse] using h
  rw [h2, List.reverse_reverse]



/-- pieces joined by a single comma (the `#rule` list separator) -/
def commaCat : List Bytes → Bytes
  | [] => []
  | [x] => x
  | x :: y :: r => x ++ 44 :: commaCat (y :: r)

theorem splitByte_noSep (sep : UInt8) : ∀ s : Bytes, sep ∉ s → splitByte sep s = (s, []) := by
  intro s
  induction s with
  | nil => intro _; rfl
  | cons c cs ih =>
    intro h
    have hc : (c == sep) = false := by
      cases hc : c == sep with
      | false => rfl
      | true => exact absurd (by rw [eq_of_beq hc]; exact List.mem_cons_self) h
    have := ih (fun m => h (List.mem_cons_of_mem _ m))
    simp [splitByte, hc, this]

theorem splitByte_append (sep : UInt8) : ∀ (x rest : Bytes), sep ∉ x →
    splitByte sep (x ++ sep :: rest) = (x, (splitByte sep rest).1 :: (splitByte sep rest).2) := by
  intro x
  induction x with
  | nil => intro rest _; simp [splitByte]
  | cons c cs ih =>
    intro rest h
    have hc : (c == sep) = false := by
      cases hc : c == sep with
      | false => rfl
      | true => exact absurd (by rw [eq_of_beq hc]; exact List.mem_cons_self) h
    have := ih rest (fun m => h (List.mem_cons_of_mem _ m))
    simp [splitByte, hc, this]

theorem split_commaCat : ∀ pieces : List Bytes, pieces ≠ [] → (∀ p ∈ pieces, 44 ∉ p) →
    split 44 (commaCat pieces) = pieces
  | [], h, _ => absurd rfl h
  | [x], _, hp => by
    simp [split, commaCat, splitByte_noSep 44 x (hp x (by simp))]
  | x :: y :: r, _, hp => by
    have ih := split_commaCat (y :: r) (by simp) (fun p hp' => hp p (List.mem_cons_of_mem _ hp'))
    unfold split at ih ⊢
    simp only [commaCat]
    rw [splitByte_append 44 x _ (hp x (by simp))]
    simp only at ih ⊢
    rw [ih]



/-- an ASCII byte that is not white space -/
def plain (c : UInt8) : Bool := c < 128 && !isAsciiSpace c

theorem plain_ne {a : UInt8} (k : UInt8) (hk : 128 ≤ k) (h : plain a = true) : (a == k) = false := by
  cases hc : a == k with
  | false => rfl
  | true =>
    have e := eq_of_beq hc
    subst e
    simp only [plain, Bool.and_eq_true, decide_eq_true_eq] at h
    exact absurd h.1 (by
      rw [UInt8.lt_iff_toNat_lt]
      rw [UInt8.le_iff_toNat_le] at hk
      simp at hk ⊢
      omega)

theorem plain_notSpace {a : UInt8} (h : plain a = true) : isAsciiSpace a = false := by
  simp only [plain, Bool.and_eq_true, Bool.not_eq_true'] at h
  exact h.2

theorem trimLeftSpace_plain (a : UInt8) (rest : Bytes) (h : plain a = true) :
    trimLeftSpace (a :: rest) = a :: rest := by
  have h1 := plain_ne 0xC2 (by decide) h
  have h2 := plain_ne 0xE1 (by decide) h
  have h3 := plain_ne 0xE2 (by decide) h
  have h4 := plain_ne 0xE3 (by decide) h
  unfold trimLeftSpace
  simp only [plain_notSpace h, Bool.false_eq_true, if_false]
  cases rest with
  | nil => rfl
  | cons b rest2 =>
    simp only [isWs2, h1, Bool.false_and, Bool.false_eq_true, if_false]
    cases rest2 with
    | nil => rfl
    | cons c rest3 => simp [isWs3, h2, h3, h4]

theorem trimLeftSpaceRev_plain (z : UInt8) (rest : Bytes) (h : plain z = true) :
    trimLeftSpaceRev (z :: rest) = z :: rest := by
  have h85 := plain_ne 0x85 (by decide) h
  have hA0 := plain_ne 0xA0 (by decide) h
  unfold trimLeftSpaceRev
  simp only [plain_notSpace h, Bool.false_eq_true, if_false]
  cases rest with
  | nil => rfl
  | cons b rest2 =>
    simp only [isWs2, h85, hA0, Bool.or_self, Bool.and_false, Bool.false_eq_true, if_false]
    cases rest2 with
    | nil => rfl
    | cons a rest3 =>
      have : isWs3 a b z = false := by
        have h80 := plain_ne 0x80 (by decide) h
        have h9F := plain_ne 0x9F (by decide) h
        have hA8 := plain_ne 0xA8 (by decide) h
        have hA9 := plain_ne 0xA9 (by decide) h
        have hAF := plain_ne 0xAF (by decide) h
        have hge : ¬ ((0x80 : UInt8) ≤ z) := by
          simp only [plain, Bool.and_eq_true, decide_eq_true_eq] at h
          have h1 := h.1
          rw [UInt8.lt_iff_toNat_lt] at h1
          rw [UInt8.le_iff_toNat_le]
          simp at h1 ⊢
          omega
        simp [isWs3, h80, h9F, hA8, hA9, hAF, hge]
      simp [this]

theorem trimLeftSpace_ows : ∀ (pre X : Bytes), pre.all isAsciiSpace = true → X ≠ [] →
    (∀ a ∈ X.head?, plain a = true) → trimLeftSpace (pre ++ X) = X := by
  intro pre
  induction pre with
  | nil =>
    intro X _ hne hX
    cases X with
    | nil => exact absurd rfl hne
    | cons a r => exact trimLeftSpace_plain a r (hX a (by simp))
  | cons c cs ih =>
    intro X hp hne hX
    simp only [List.all_cons, Bool.and_eq_true] at hp
    have := ih X hp.2 hne hX
    simp only [List.cons_append]
    unfold trimLeftSpace
    simp only [hp.1, if_true, this]

theorem trimLeftSpaceRev_ows : ∀ (pre X : Bytes), pre.all isAsciiSpace = true → X ≠ [] →
    (∀ a ∈ X.head?, plain a = true) → trimLeftSpaceRev (pre ++ X) = X := by
  intro pre
  induction pre with
  | nil =>
    intro X _ hne hX
    cases X with
    | nil => exact absurd rfl hne
    | cons a r => exact trimLeftSpaceRev_plain a r (hX a (by simp))
  | cons c cs ih =>
    intro X hp hne hX
    simp only [List.all_cons, Bool.and_eq_true] at hp
    have := ih X hp.2 hne hX
    simp only [List.cons_append]
    unfold trimLeftSpaceRev
    simp only [hp.1, if_true, this]

/-- `strings.TrimSpace(pre ++ X ++ post) = X` for ASCII white space around a core that starts and
ends with a non-space ASCII byte. -/
theorem trimSpace_pad (pre post X : Bytes) (hne : X ≠ [])
    (hpre : pre.all isAsciiSpace = true) (hpost : post.all isAsciiSpace = true)
    (ha : ∀ a ∈ X.head?, plain a = true) (hz : ∀ z ∈ X.getLast?, plain z = true) :
    trimSpace (pre ++ X ++ post) = X := by
  unfold trimSpace
  have h1 : trimLeftSpace (pre ++ X ++ post) = X ++ post := by
    rw [List.append_assoc]
    apply trimLeftSpace_ows pre _ hpre (by simp [hne])
    intro a h
    apply ha
    cases X with
    | nil => exact absurd rfl hne
    | cons x xs => simpa using h
  rw [h1, List.reverse_append]
  rw [trimLeftSpaceRev_ows post.reverse X.reverse (by simpa using hpost) (by simpa using hne)
    (by intro z h; apply hz; simpa [List.head?_reverse] using h)]
  exact List.reverse_reverse X




theorem forall_uint8 (P : UInt8 → Prop) (h : ∀ n, n < 256 → P (UInt8.ofNat n)) : ∀ c, P c := by
  intro c
  have := h c.toNat (UInt8.toNat_lt c)
  rwa [Req.Base64.ofNat_toNat] at this

set_option maxRecDepth 100000 in
theorem tok_plain : ∀ c, isTokenByte c = true → plain c = true :=
  forall_uint8 _ (by decide)

set_option maxRecDepth 100000 in
theorem lower_plain : ∀ c, isLower c = true → plain c = true :=
  forall_uint8 _ (by decide)

set_option maxRecDepth 100000 in
theorem ows_space : ∀ c, Req.Rfc7616.isOws c = true → isAsciiSpace c = true :=
  forall_uint8 _ (by decide)

set_option maxRecDepth 100000 in
theorem ows_ws : ∀ c, Req.Rfc7616.isOws c = true → isWs c = true :=
  forall_uint8 _ (by decide)

set_option maxRecDepth 100000 in
theorem plain_notWs : ∀ c, plain c = true → isWs c = false :=
  forall_uint8 _ (by decide)

set_option maxRecDepth 100000 in
theorem plain_ne' : ∀ c, plain c = true → (decide (128 ≤ c)) = false :=
  forall_uint8 _ (by decide)


/-! ### one parameter -/


/-- the nine parameter names `parseChallenge` knows -/
def knownKeys : List Bytes :=
  [b!"realm", b!"domain", b!"nonce", b!"opaque", b!"stale", b!"algorithm", b!"qop", b!"charset", b!"userhash"]

theorem knownKeys_lower : ∀ k ∈ knownKeys, k ≠ [] ∧ k.all isLower = true := by decide

/-- what a parameter does to the challenge under construction (total form of `setField`) -/
def store (c : Challenge) (k v : Bytes) : Challenge :=
  if k == b!"realm" then { c with realm := v }
  else if k == b!"domain" then { c with domain := v }
  else if k == b!"nonce" then { c with nonce := v }
  else if k == b!"opaque" then { c with opaq := v }
  else if k == b!"stale" then { c with stale := v }
  else if k == b!"algorithm" then { c with algorithm := v }
  else if k == b!"qop" then { c with qop := v }
  else if k == b!"userhash" then { c with userhash := v }
  else c

theorem setField_store (c : Challenge) (k v : Bytes) (hk : k ∈ knownKeys)
    (hcs : k = b!"charset" → isUtf8Name (trim isQuote v) = true) :
    setField c k v = .ok (store c k (trim isQuote v)) := by
  simp only [knownKeys, List.mem_cons, List.not_mem_nil, or_false] at hk
  rcases hk with rfl | rfl | rfl | rfl | rfl | rfl | rfl | rfl | rfl
  all_goals first
    | rfl
    | (have := hcs rfl; simp [setField, store, this])

/-- the value as it stands after the `=` -/
def rawValue (p : Param) : Bytes := if p.quotedForm then 34 :: p.value ++ [34] else p.value

theorem render_eq (p : Param) : p.render = p.name ++ 61 :: rawValue p := by
  unfold Param.render rawValue quoted bare
  split <;> simp

/-- a parameter as a server may write it and digest.go can read it -/
def ParamOK (p : Param) : Prop :=
  p.name ∈ knownKeys ∧
  (if p.quotedForm then (34 ∉ p.value ∧ 44 ∉ p.value)
   else (p.value ≠ [] ∧ p.value.all isTokenByte = true)) ∧
  (p.name = b!"charset" → isUtf8Name p.value = true)

theorem not_mem_of_all {q : UInt8 → Bool} {k : UInt8} (hk : q k = false) {s : Bytes}
    (h : s.all q = true) : k ∉ s := by
  intro m
  rw [List.all_eq_true] at h
  have := h k m
  rw [hk] at this
  cases this

theorem cutEq_append : ∀ (n raw : Bytes), 61 ∉ n → cutEq (n ++ 61 :: raw) = some (n, raw) := by
  intro n
  induction n with
  | nil => intro raw _; simp [cutEq]
  | cons c cs ih =>
    intro raw h
    have hc : (c == 61) = false := by
      cases hc : c == 61 with
      | false => rfl
      | true => exact absurd (by rw [eq_of_beq hc]; exact List.mem_cons_self) h
    simp [cutEq, hc, ih raw (fun m => h (List.mem_cons_of_mem _ m))]

theorem trim_none {q : UInt8 → Bool} (s : Bytes) (h : ∀ x ∈ s, q x = false) : trim q s = s := by
  cases hs : s with
  | nil => rfl
  | cons a r =>
    have := trim_pad (p := q) [] [] s (by simp [hs]) rfl rfl
      (by intro a ha; exact h a (by cases s with
        | nil => simp at ha
        | cons x xs => simp at ha; simp [ha]))
      (by intro z hz; exact h z (List.mem_of_getLast? hz))
    simpa [hs] using this

theorem trim_quoted (v : Bytes) (h : 34 ∉ v) : trim isQuote (34 :: v ++ [34]) = v := by
  have hq : ∀ x ∈ v, isQuote x = false := by
    intro x hx
    cases hc : isQuote x with
    | false => rfl
    | true =>
      have : x = 34 := by simpa [isQuote] using hc
      exact absurd (this ▸ hx) h
  cases hv : v with
  | nil => decide
  | cons a r =>
    have := trim_pad (p := isQuote) [34] [34] v (by simp [hv]) (by decide) (by decide)
      (by intro a ha; exact hq a (by cases v with
        | nil => simp at ha
        | cons x xs => simp at ha; simp [ha]))
      (by intro z hz; exact hq z (List.mem_of_getLast? hz))
    simpa [hv] using this

theorem trim_rawValue (p : Param) (hp : ParamOK p) : trim isQuote (rawValue p) = p.value := by
  obtain ⟨_, hv, _⟩ := hp
  unfold rawValue
  split at hv
  · rename_i hq; simp only [hq, if_true]; exact trim_quoted _ hv.1
  · rename_i hq
    simp only [hq, Bool.false_eq_true, if_false]
    apply trim_none
    intro x hx
    have := (List.all_eq_true.mp hv.2) x hx
    cases hc : isQuote x with
    | false => rfl
    | true =>
      have e : x = 34 := by simpa [isQuote] using hc
      subst e
      exact absurd this (by decide)


/-! ### one list element -/


theorem render_ne_nil (p : Param) : p.render ≠ [] := by
  rw [render_eq]; simp

theorem render_head_plain (p : Param) (hp : ParamOK p) : ∀ a ∈ p.render.head?, plain a = true := by
  obtain ⟨hk, _, _⟩ := hp
  obtain ⟨hne, hl⟩ := knownKeys_lower _ hk
  intro a ha
  rw [render_eq] at ha
  cases hn : p.name with
  | nil => exact absurd hn hne
  | cons x xs =>
    rw [hn] at ha hl
    simp only [List.cons_append, List.head?_cons, Option.mem_def, Option.some.injEq] at ha
    subst ha
    simp only [List.all_cons, Bool.and_eq_true] at hl
    exact lower_plain _ hl.1

theorem render_last_plain (p : Param) (hp : ParamOK p) : ∀ z ∈ p.render.getLast?, plain z = true := by
  obtain ⟨_, hv, _⟩ := hp
  intro z hz
  rw [render_eq] at hz
  unfold rawValue at hz
  split at hv
  · rename_i hq
    simp only [hq, if_true] at hz
    have e : p.name ++ 61 :: (34 :: p.value ++ [34]) = (p.name ++ 61 :: 34 :: p.value) ++ [34] := by simp
    rw [e, List.getLast?_concat] at hz
    simp only [Option.mem_def, Option.some.injEq] at hz
    subst hz
    decide
  · rename_i hq
    simp only [hq, Bool.false_eq_true, if_false] at hz
    have hm : z ∈ p.value := by
      have hne := hv.1
      rw [List.getLast?_append, List.getLast?_cons] at hz
      cases hpv : p.value with
      | nil => exact absurd hpv hne
      | cons x xs =>
        rw [hpv] at hz
        simp only [List.getLast?_cons, Option.getD_some, Option.some_or, Option.mem_def,
          Option.some.injEq] at hz
        have : (x :: xs).getLast? = some z := by
          rw [List.getLast?_cons]; simp [hz]
        exact List.mem_of_getLast? this
    exact tok_plain _ ((List.all_eq_true.mp hv.2) z hm)

theorem knownKey_no (k : UInt8) (hk : isLower k = false) {n : Bytes} (hn : n ∈ knownKeys) : k ∉ n :=
  not_mem_of_all hk (knownKeys_lower n hn).2

theorem render_no_comma (p : Param) (hp : ParamOK p) : 44 ∉ p.render := by
  obtain ⟨hk, hv, _⟩ := hp
  rw [render_eq]
  unfold rawValue
  intro hm
  simp only [List.mem_append, List.mem_cons] at hm
  rcases hm with hm | hm | hm
  · exact knownKey_no 44 (by decide) hk hm
  · exact absurd hm (by decide)
  · split at hv
    · rename_i hq
      simp [hq] at hm
      exact hv.2 hm
    · rename_i hq
      simp only [hq, Bool.false_eq_true, if_false] at hm
      exact not_mem_of_all (q := isTokenByte) (by decide) hv.2 hm

/-- one element of the challenge list: a parameter with optional white space around it -/
structure Item where
  pre : Bytes
  p : Param
  post : Bytes

def Item.render (i : Item) : Bytes := i.pre ++ i.p.render ++ i.post

def ItemOK (i : Item) : Prop :=
  i.pre.all Req.Rfc7616.isOws = true ∧ i.post.all Req.Rfc7616.isOws = true ∧ ParamOK i.p

theorem all_imp {q r : UInt8 → Bool} (h : ∀ c, q c = true → r c = true) {s : Bytes}
    (hs : s.all q = true) : s.all r = true := by
  rw [List.all_eq_true] at hs ⊢
  intro x hx
  exact h x (hs x hx)

theorem item_no_comma (i : Item) (hi : ItemOK i) : 44 ∉ i.render := by
  obtain ⟨h1, h2, h3⟩ := hi
  unfold Item.render
  intro hm
  simp only [List.mem_append] at hm
  rcases hm with (hm | hm) | hm
  · exact not_mem_of_all (q := Req.Rfc7616.isOws) (by decide) h1 hm
  · exact render_no_comma _ h3 hm
  · exact not_mem_of_all (q := Req.Rfc7616.isOws) (by decide) h2 hm

/-- what `parseFields` does with one element -/
theorem piece_parsed (i : Item) (hi : ItemOK i) (c : Challenge) :
    (match cutEq (trimSpace i.render) with
     | none => (Except.error Err.badChallenge : Except Err Challenge)
     | some (k, v) => setField c k v) = .ok (store c i.p.name i.p.value) := by
  obtain ⟨h1, h2, h3⟩ := hi
  have ht : trimSpace i.render = i.p.render :=
    trimSpace_pad i.pre i.post i.p.render (render_ne_nil _) (all_imp ows_space h1) (all_imp ows_space h2)
      (render_head_plain _ h3) (render_last_plain _ h3)
  have hc : cutEq i.p.render = some (i.p.name, rawValue i.p) := by
    rw [render_eq]
    exact cutEq_append _ _ (knownKey_no 61 (by decide) h3.1)
  rw [ht, hc]
  simp only
  have htv := trim_rawValue i.p h3
  rw [setField_store c _ _ h3.1 (by intro e; rw [htv]; exact h3.2.2 e), htv]

theorem parseFields_items : ∀ (items : List Item) (c : Challenge), (∀ i ∈ items, ItemOK i) →
    parseFields (items.map Item.render) c =
      .ok (items.foldl (fun c i => store c i.p.name i.p.value) c) := by
  intro items
  induction items with
  | nil => intro c _; rfl
  | cons i is ih =>
    intro c h
    have hp := piece_parsed i (h i (by simp)) c
    simp only [List.map_cons, parseFields, List.foldl_cons]
    split at hp
    · cases hp
    · rename_i k v hkv
      rw [hkv]
      simp only [hp]
      exact ih _ (fun j hj => h j (List.mem_cons_of_mem _ hj))


/-! ### the whole challenge -/


theorem commaCat_ne_nil : ∀ (l : List Bytes), (∀ x ∈ l.head?, x ≠ []) → l ≠ [] → commaCat l ≠ []
  | [], _, h => absurd rfl h
  | [x], hx, _ => by simpa [commaCat] using hx x (by simp)
  | x :: y :: r, _, _ => by simp [commaCat]

theorem commaCat_head : ∀ (l : List Bytes) (x : Bytes) (r : List Bytes), l = x :: r → x ≠ [] →
    (commaCat l).head? = x.head? := by
  intro l x r hl hx
  subst hl
  cases r with
  | nil => rfl
  | cons y r =>
    simp only [commaCat, List.head?_append]
    cases x with
    | nil => exact absurd rfl hx
    | cons a as => rfl

theorem commaCat_last (q : UInt8 → Bool) : ∀ (l : List Bytes), l ≠ [] → (∀ x ∈ l, x ≠ []) →
    (∀ x ∈ l.getLast?, ∀ z ∈ x.getLast?, q z = true) → ∀ z ∈ (commaCat l).getLast?, q z = true
  | [], h, _, _ => absurd rfl h
  | [x], _, _, hl => by
    intro z hz
    exact hl x (by simp) z (by simpa [commaCat] using hz)
  | x :: y :: r, _, hne, hl => by
    intro z hz
    have ih := commaCat_last q (y :: r) (by simp) (fun w hw => hne w (List.mem_cons_of_mem _ hw))
      (by intro w hw; exact hl w (by simpa [List.getLast?_cons_cons] using hw))
    have hC : commaCat (y :: r) ≠ [] :=
      commaCat_ne_nil (y :: r) (by intro w hw; simp at hw; subst hw; exact hne _ (by simp)) (by simp)
    simp only [commaCat, List.getLast?_append, List.getLast?_cons] at hz
    cases hc : (commaCat (y :: r)).getLast? with
    | none =>
      have : commaCat (y :: r) = [] := by
        cases h : commaCat (y :: r) with
        | nil => rfl
        | cons a as => rw [h] at hc; simp [List.getLast?_cons] at hc
      exact absurd this hC
    | some w =>
      rw [hc] at hz
      simp only [Option.getD_some, Option.some_or, Option.mem_def, Option.some.injEq] at hz
      subst hz
      exact ih w (by simp [hc])

/-- A challenge as a server writes it: white space, `Digest `, more white space, the elements
separated by commas, white space. -/
def renderChallenge (lead sp : Bytes) (items : List Item) (trail : Bytes) : Bytes :=
  lead ++ (digestPrefix ++ sp ++ commaCat (items.map Item.render)) ++ trail

structure WellWritten (lead sp : Bytes) (items : List Item) (trail : Bytes) : Prop where
  wsLead : lead.all isWs = true
  wsSp : sp.all isWs = true
  wsTrail : trail.all isWs = true
  ok : ∀ i ∈ items, ItemOK i
  nonempty : items ≠ []
  /-- white space before the first / after the last element is part of `sp` / `trail` -/
  first : ∀ i ∈ items.head?, i.pre = []
  last : ∀ i ∈ items.getLast?, i.post = []

theorem parse_rendered (lead sp : Bytes) (items : List Item) (trail : Bytes)
    (h : WellWritten lead sp items trail) :
    parseChallenge (renderChallenge lead sp items trail) =
      .ok (items.foldl (fun c i => store c i.p.name i.p.value) {}) := by
  let J := commaCat (items.map Item.render)
  have hpieces_ne : ∀ x ∈ items.map Item.render, x ≠ [] := by
    intro x hx
    simp only [List.mem_map] at hx
    obtain ⟨i, _, rfl⟩ := hx
    unfold Item.render
    have := render_ne_nil i.p
    simp [this]
  have hmap_ne : items.map Item.render ≠ [] := by simpa using h.nonempty
  have hJne : J ≠ [] :=
    commaCat_ne_nil _ (by intro x hx; exact hpieces_ne x (List.mem_of_mem_head? hx)) hmap_ne
  -- first byte of J
  have hJhead : ∀ a ∈ J.head?, plain a = true := by
    cases hi : items with
    | nil => exact absurd hi h.nonempty
    | cons i is =>
      have hpre : i.pre = [] := h.first i (by simp [hi])
      have hok := h.ok i (by simp [hi])
      have e : J.head? = i.p.render.head? := by
        have := commaCat_head (items.map Item.render) i.render (is.map Item.render) (by simp [hi])
          (hpieces_ne _ (by simp [hi]))
        show (commaCat (items.map Item.render)).head? = _
        rw [this]
        unfold Item.render
        rw [hpre]
        simp only [List.nil_append, List.head?_append]
        cases hr : i.p.render with
        | nil => exact absurd hr (render_ne_nil _)
        | cons a as => rfl
      rw [e]
      exact render_head_plain _ hok.2.2
  -- last byte of J
  have hJlast : ∀ z ∈ J.getLast?, plain z = true := by
    apply commaCat_last plain _ hmap_ne hpieces_ne
    intro x hx z hz
    simp only [List.getLast?_map, Option.mem_def, Option.map_eq_some_iff] at hx
    obtain ⟨i, hi, rfl⟩ := hx
    have hpost : i.post = [] := h.last i hi
    have hok := h.ok i (List.mem_of_getLast? hi)
    unfold Item.render at hz
    rw [hpost, List.append_nil, List.getLast?_append] at hz
    cases hr : i.p.render.getLast? with
    | none =>
      have : i.p.render = [] := by
        cases h' : i.p.render with
        | nil => rfl
        | cons a as => rw [h'] at hr; simp [List.getLast?_cons] at hr
      exact absurd this (render_ne_nil _)
    | some w =>
      rw [hr] at hz
      simp only [Option.some_or, Option.mem_def, Option.some.injEq] at hz
      subst hz
      exact render_last_plain _ hok.2.2 w (by simp [hr])
  -- the outer trim
  have hX : trim isWs (renderChallenge lead sp items trail) = digestPrefix ++ sp ++ J := by
    unfold renderChallenge
    apply trim_pad lead trail _ (by simp [digestPrefix]) h.wsLead h.wsTrail
    · intro a ha
      have : a = 68 := by simpa [digestPrefix] using ha.symm
      subst this; decide
    · intro z hz
      rw [List.getLast?_append] at hz
      cases hc : J.getLast? with
      | none =>
        have : J = [] := by
          cases h' : J with
          | nil => rfl
          | cons a as => rw [h'] at hc; simp [List.getLast?_cons] at hc
        exact absurd this hJne
      | some w =>
        have hz' : z = w := by
          have : (commaCat (items.map Item.render)).getLast? = some w := hc
          rw [this] at hz
          simpa using hz.symm
        subst hz'
        exact plain_notWs _ (hJlast z (by simp [hc]))
  have hpre : digestPrefix.isPrefixOf (digestPrefix ++ sp ++ J) = true := by
    rw [List.append_assoc]
    exact List.isPrefixOf_iff_prefix.mpr (List.prefix_append _ _)
  have hdrop : (digestPrefix ++ sp ++ J).drop 7 = sp ++ J := by
    rw [List.append_assoc]; rfl
  have hJtrim : trim isWs (sp ++ J) = J := by
    have := trim_pad (p := isWs) sp [] J hJne h.wsSp rfl
      (fun a ha => plain_notWs _ (hJhead a ha)) (fun z hz => plain_notWs _ (hJlast z hz))
    simpa using this
  have hsplit : split 44 J = items.map Item.render := by
    apply split_commaCat _ hmap_ne
    intro x hx
    simp only [List.mem_map] at hx
    obtain ⟨i, hi, rfl⟩ := hx
    exact item_no_comma i (h.ok i hi)
  unfold parseChallenge
  simp only [hX, hpre, if_true, hdrop, hJtrim, hsplit]
  exact parseFields_items items {} h.ok


/-! ### reading the fields back -/


/-- the challenge a list of elements denotes for digest.go: later parameters overwrite earlier -/
def challengeOf (items : List Item) : Challenge :=
  items.foldl (fun c i => store c i.p.name i.p.value) {}

/-- the value of the LAST parameter called `k` -/
def lastValue : List Item → Bytes → Option Bytes
  | [], _ => none
  | i :: is, k =>
    match lastValue is k with
    | some v => some v
    | none => if i.p.name == k then some i.p.value else none

/-- the eight fields by name -/
def field (k : Bytes) (c : Challenge) : Bytes :=
  if k == b!"realm" then c.realm
  else if k == b!"domain" then c.domain
  else if k == b!"nonce" then c.nonce
  else if k == b!"opaque" then c.opaq
  else if k == b!"stale" then c.stale
  else if k == b!"algorithm" then c.algorithm
  else if k == b!"qop" then c.qop
  else if k == b!"userhash" then c.userhash
  else []

def storedKeys : List Bytes :=
  [b!"realm", b!"domain", b!"nonce", b!"opaque", b!"stale", b!"algorithm", b!"qop", b!"userhash"]

theorem field_store (k k' v : Bytes) (c : Challenge) (hk : k ∈ storedKeys) :
    field k (store c k' v) = if k' == k then v else field k c := by
  simp only [storedKeys, List.mem_cons, List.not_mem_nil, or_false] at hk
  rcases hk with rfl | rfl | rfl | rfl | rfl | rfl | rfl | rfl <;>
  · unfold store
    repeat' split
    all_goals first
      | rfl
      | (rename_i h; have e := eq_of_beq h; subst e; first | rfl | simp_all)
      | (rename_i h _; have e := eq_of_beq h; subst e; first | rfl | simp_all)

theorem field_foldl (k : Bytes) (hk : k ∈ storedKeys) : ∀ (items : List Item) (c0 : Challenge),
    field k (items.foldl (fun c i => store c i.p.name i.p.value) c0) =
      match lastValue items k with
      | some v => v
      | none => field k c0 := by
  intro items
  induction items with
  | nil => intro c0; rfl
  | cons i is ih =>
    intro c0
    simp only [List.foldl_cons, lastValue]
    rw [ih]
    cases hl : lastValue is k with
    | some v => rfl
    | none =>
      simp only [field_store k _ _ _ hk]
      split <;> rfl


end Req.Digest
