import Req.H3.Varint
/-! Helper lemmas and proofs for the QUIC varint theorems of C05. -/
set_option linter.unusedSimpArgs false
set_option linter.unusedVariables false
namespace Req.Lemmas.C05.Varint
open Req.H3.Varint Req.Proto

theorem u8_toNat (x : Nat) : (u8 x).toNat = x % 256 := by simp [u8]

theorem parse_len1 (b0 : UInt8) (tl : Bytes) (h : b0.toNat / 64 = 0) :
    parse (b0 :: tl) = .ok (b0.toNat % 64, tl) := by
  simp [parse, h]

theorem parse_len2 (b0 b1 : UInt8) (tl : Bytes) (h : b0.toNat / 64 = 1) :
    parse (b0 :: b1 :: tl) = .ok (b1.toNat + b0.toNat % 64 * 256, tl) := by
  simp [parse, h]

theorem parse_len4 (b0 b1 b2 b3 : UInt8) (tl : Bytes) (h : b0.toNat / 64 = 2) :
    parse (b0 :: b1 :: b2 :: b3 :: tl) =
      .ok (b3.toNat + b2.toNat * 256 + b1.toNat * 65536 + b0.toNat % 64 * 16777216, tl) := by
  simp [parse, h]

theorem parse_len8 (b0 b1 b2 b3 b4 b5 b6 b7 : UInt8) (tl : Bytes) (h : b0.toNat / 64 = 3) :
    parse (b0 :: b1 :: b2 :: b3 :: b4 :: b5 :: b6 :: b7 :: tl) =
      .ok (b7.toNat + b6.toNat * 256 + b5.toNat * 65536 + b4.toNat * 16777216
              + b3.toNat * 4294967296 + b2.toNat * 1099511627776 + b1.toNat * 281474976710656
              + b0.toNat % 64 * 72057594037927936, tl) := by
  simp [parse, h]

theorem varint_roundtrip (n : Nat) (h : n < 2^62) (rest : Bytes) :
    ∃ bs, append n = some bs ∧ parse (bs ++ rest) = .ok (n, rest) := by
  unfold append
  by_cases h1 : n ≤ 63
  · refine ⟨_, if_pos h1, ?_⟩
    rw [List.singleton_append, parse_len1 _ _ (by rw [u8_toNat]; omega), u8_toNat]
    congr 2; omega
  rw [if_neg h1]
  by_cases h2 : n ≤ 16383
  · refine ⟨_, if_pos h2, ?_⟩
    simp only [List.cons_append, List.nil_append]
    rw [parse_len2 _ _ _ (by rw [u8_toNat]; omega)]
    simp only [u8_toNat]
    congr 2; omega
  rw [if_neg h2]
  by_cases h3 : n ≤ 1073741823
  · refine ⟨_, if_pos h3, ?_⟩
    simp only [List.cons_append, List.nil_append]
    rw [parse_len4 _ _ _ _ _ (by rw [u8_toNat]; omega)]
    simp only [u8_toNat]
    congr 2; omega
  rw [if_neg h3]
  have h4 : n ≤ 4611686018427387903 := by omega
  refine ⟨_, if_pos h4, ?_⟩
  simp only [List.cons_append, List.nil_append]
  rw [parse_len8 _ _ _ _ _ _ _ _ _ (by rw [u8_toNat]; omega)]
  simp only [u8_toNat]
  congr 2; omega

theorem append_length (n : Nat) (bs : Bytes) (h : append n = some bs) :
    len n = some bs.length ∧ 1 ≤ bs.length := by
  simp only [append, maxVarInt1, maxVarInt2, maxVarInt4, maxVarInt8] at h
  simp only [len, maxVarInt1, maxVarInt2, maxVarInt4, maxVarInt8]
  split at h
  · next h1 => cases h; simp [h1]
  split at h
  · next h1 h2 => cases h; simp [h1, h2]
  split at h
  · next h1 h2 h3 => cases h; simp [h1, h2, h3]
  split at h
  · next h1 h2 h3 h4 => cases h; simp [h1, h2, h3, h4]
  · cases h

/-- **varint_len**: the exact boundaries of the four length classes (and of the panic). -/
theorem varint_len (n : Nat) :
    (len n = some 1 ↔ n ≤ 63) ∧
    (len n = some 2 ↔ 64 ≤ n ∧ n ≤ 16383) ∧
    (len n = some 4 ↔ 16384 ≤ n ∧ n ≤ 1073741823) ∧
    (len n = some 8 ↔ 1073741824 ≤ n ∧ n ≤ 4611686018427387903) ∧
    (len n = none ↔ 4611686018427387904 ≤ n) := by
  simp only [len, maxVarInt1, maxVarInt2, maxVarInt4, maxVarInt8]
  by_cases h1 : n ≤ 63
  · simp [h1]; omega
  by_cases h2 : n ≤ 16383
  · simp [h1, h2]; omega
  by_cases h3 : n ≤ 1073741823
  · simp [h1, h2, h3]; omega
  by_cases h4 : n ≤ 4611686018427387903
  · simp [h1, h2, h3, h4]; omega
  · simp [h1, h2, h3, h4]; omega

theorem len_cases (n : Nat) (h : n < 2^62) :
    (n ≤ 63 ∧ len n = some 1) ∨ (63 < n ∧ n ≤ 16383 ∧ len n = some 2) ∨
    (16383 < n ∧ n ≤ 1073741823 ∧ len n = some 4) ∨ (1073741823 < n ∧ len n = some 8) := by
  simp only [len, maxVarInt1, maxVarInt2, maxVarInt4, maxVarInt8]
  by_cases h1 : n ≤ 63
  · simp [h1]
  by_cases h2 : n ≤ 16383
  · simp [h1, h2]; omega
  by_cases h3 : n ≤ 1073741823
  · simp [h1, h2, h3]; omega
  · have : n ≤ 4611686018427387903 := by omega
    simp [h1, h2, h3, this]; omega


/-- `append n = some bs` is the same as `n < 2^62` -/
theorem append_isSome (n : Nat) (bs : Bytes) (h : append n = some bs) : n < 2^62 := by
  simp only [append, maxVarInt1, maxVarInt2, maxVarInt4, maxVarInt8] at h
  split at h; · omega
  split at h; · omega
  split at h; · omega
  split at h; · omega
  cases h

theorem read_append (n : Nat) (bs rest : Bytes) (h : append n = some bs) :
    Req.H3.Varint.read (bs ++ rest) = .ok (n, rest) := by
  obtain ⟨bs', h1, h2⟩ := varint_roundtrip n (append_isSome n bs h) rest
  rw [h] at h1; cases h1
  unfold Req.H3.Varint.read
  rw [h2]


theorem first_192 : (192 : UInt8).toNat / 64 = 3 := by decide
theorem first_128 : (128 : UInt8).toNat / 64 = 2 := by decide
theorem first_64 : (64 : UInt8).toNat / 64 = 1 := by decide


theorem z8 : (0 : UInt8).toNat = 0 := by decide
theorem m192 : (192 : UInt8).toNat % 64 = 0 := by decide
theorem m128 : (128 : UInt8).toNat % 64 = 0 := by decide
theorem m64 : (64 : UInt8).toNat % 64 = 0 := by decide


theorem nm1 (n : Nat) (rest : Bytes) (hn : n < 64) :
    ∃ bs, appendWithLen n 1 = some bs ∧ bs.length = 1 ∧ parse (bs ++ rest) = .ok (n, rest) := by
  have hn62 : n < 2^62 := by omega
  obtain ⟨mb, hmb, hmp⟩ := varint_roundtrip n hn62 rest
  have hml := (append_length n mb hmb).1
  have hlen : len n = some 1 := ((varint_len n).1).mpr (by omega)
  refine ⟨mb, by simp [appendWithLen, hlen, hmb], ?_, hmp⟩
  rw [hlen] at hml; simpa using hml.symm

theorem nm2 (n : Nat) (rest : Bytes) (hn : n < 16384) :
    ∃ bs, appendWithLen n 2 = some bs ∧ bs.length = 2 ∧ parse (bs ++ rest) = .ok (n, rest) := by
  have hn62 : n < 2^62 := by omega
  obtain ⟨mb, hmb, hmp⟩ := varint_roundtrip n hn62 rest
  have hml := (append_length n mb hmb).1
  rcases len_cases n hn62 with ⟨h1, hlen⟩ | ⟨h1, h2, hlen⟩ | ⟨h1, h2, hlen⟩ | ⟨h1, hlen⟩
  · refine ⟨[64, u8 n], by simp [appendWithLen, hlen, beBytes, List.replicate], rfl, ?_⟩
    simp only [List.cons_append, List.nil_append]
    rw [parse_len2 _ _ _ first_64]
    simp only [u8_toNat, z8, m64]; congr 2; omega
  · refine ⟨mb, by simp [appendWithLen, hlen, hmb], ?_, hmp⟩
    rw [hlen] at hml; simpa using hml.symm
  · omega
  · omega

theorem nm4 (n : Nat) (rest : Bytes) (hn : n < 1073741824) :
    ∃ bs, appendWithLen n 4 = some bs ∧ bs.length = 4 ∧ parse (bs ++ rest) = .ok (n, rest) := by
  have hn62 : n < 2^62 := by omega
  obtain ⟨mb, hmb, hmp⟩ := varint_roundtrip n hn62 rest
  have hml := (append_length n mb hmb).1
  rcases len_cases n hn62 with ⟨h1, hlen⟩ | ⟨h1, h2, hlen⟩ | ⟨h1, h2, hlen⟩ | ⟨h1, hlen⟩
  · refine ⟨[128, 0, 0, u8 n], by simp [appendWithLen, hlen, beBytes, List.replicate], rfl, ?_⟩
    simp only [List.cons_append, List.nil_append]
    rw [parse_len4 _ _ _ _ _ first_128]
    simp only [u8_toNat, z8, m128]; congr 2; omega
  · refine ⟨[128, 0, u8 (n / 256), u8 n], by simp [appendWithLen, hlen, beBytes, List.replicate], rfl, ?_⟩
    simp only [List.cons_append, List.nil_append]
    rw [parse_len4 _ _ _ _ _ first_128]
    simp only [u8_toNat, z8, m128]; congr 2; omega
  · refine ⟨mb, by simp [appendWithLen, hlen, hmb], ?_, hmp⟩
    rw [hlen] at hml; simpa using hml.symm
  · omega

theorem nm8 (n : Nat) (rest : Bytes) (hn : n < 4611686018427387904) :
    ∃ bs, appendWithLen n 8 = some bs ∧ bs.length = 8 ∧ parse (bs ++ rest) = .ok (n, rest) := by
  have hn62 : n < 2^62 := by omega
  obtain ⟨mb, hmb, hmp⟩ := varint_roundtrip n hn62 rest
  have hml := (append_length n mb hmb).1
  rcases len_cases n hn62 with ⟨h1, hlen⟩ | ⟨h1, h2, hlen⟩ | ⟨h1, h2, hlen⟩ | ⟨h1, hlen⟩
  · refine ⟨[192, 0, 0, 0, 0, 0, 0, u8 n], by simp [appendWithLen, hlen, beBytes, List.replicate], rfl, ?_⟩
    simp only [List.cons_append, List.nil_append]
    rw [parse_len8 _ _ _ _ _ _ _ _ _ first_192]
    simp only [u8_toNat, z8, m192]; congr 2; omega
  · refine ⟨[192, 0, 0, 0, 0, 0, u8 (n / 256), u8 n], by simp [appendWithLen, hlen, beBytes, List.replicate], rfl, ?_⟩
    simp only [List.cons_append, List.nil_append]
    rw [parse_len8 _ _ _ _ _ _ _ _ _ first_192]
    simp only [u8_toNat, z8, m192]; congr 2; omega
  · refine ⟨[192, 0, 0, 0, u8 (n / 16777216), u8 (n / 65536), u8 (n / 256), u8 n], by simp [appendWithLen, hlen, beBytes, List.replicate], rfl, ?_⟩
    simp only [List.cons_append, List.nil_append]
    rw [parse_len8 _ _ _ _ _ _ _ _ _ first_192]
    simp only [u8_toNat, z8, m192]; congr 2; omega
  · refine ⟨mb, by simp [appendWithLen, hlen, hmb], ?_, hmp⟩
    rw [hlen] at hml; simpa using hml.symm

/-- **parse_nonminimal_ok**: every encoding `AppendWithLen` can produce, minimal or not, is
accepted by `Parse` with the same value. -/
theorem parse_nonminimal_ok (n l : Nat) (rest : Bytes)
    (hl : l = 1 ∨ l = 2 ∨ l = 4 ∨ l = 8) (hn : n < capacity l) :
    ∃ bs, appendWithLen n l = some bs ∧ bs.length = l ∧ parse (bs ++ rest) = .ok (n, rest) := by
  rcases hl with rfl | rfl | rfl | rfl
  · exact nm1 n rest (by simpa [capacity] using hn)
  · exact nm2 n rest (by simpa [capacity] using hn)
  · exact nm4 n rest (by simpa [capacity] using hn)
  · exact nm8 n rest (by simpa [capacity] using hn)

/-- what `Parse` accepts: 1, 2, 4 or 8 bytes consumed and a value below the capacity of the
consumed length (so always below 2^62). -/
theorem parse_sound (b rest : Bytes) (v : Nat) (h : parse b = .ok (v, rest)) :
    ∃ pre, b = pre ++ rest ∧ (pre.length = 1 ∨ pre.length = 2 ∨ pre.length = 4 ∨ pre.length = 8) ∧
      v < capacity pre.length := by
  unfold parse at h
  split at h
  · cases h
  next b0 tl =>
  have hb := b0.toNat_lt
  simp only at h
  split at h
  · cases h; exact ⟨[b0], rfl, Or.inl rfl, by simp [capacity]; omega⟩
  split at h
  · split at h
    · next b1 r => cases h; refine ⟨[b0, b1], rfl, Or.inr (Or.inl rfl), ?_⟩
                   have := b1.toNat_lt; simp [capacity]; omega
    · cases h
  split at h
  · split at h
    · next b1 b2 b3 r =>
      cases h; refine ⟨[b0, b1, b2, b3], rfl, Or.inr (Or.inr (Or.inl rfl)), ?_⟩
      have := b1.toNat_lt; have := b2.toNat_lt; have := b3.toNat_lt; simp [capacity]; omega
    · cases h
  · split at h
    · next b1 b2 b3 b4 b5 b6 b7 r =>
      cases h; refine ⟨[b0, b1, b2, b3, b4, b5, b6, b7], rfl, Or.inr (Or.inr (Or.inr rfl)), ?_⟩
      have := b1.toNat_lt; have := b2.toNat_lt; have := b3.toNat_lt; have := b4.toNat_lt
      have := b5.toNat_lt; have := b6.toNat_lt; have := b7.toNat_lt; simp [capacity]; omega
    · cases h

end Req.Lemmas.C05.Varint
