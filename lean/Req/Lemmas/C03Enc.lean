import Req.C03.EncCut
import Req.Lemmas.C14Formats
/-!
C03 — the gzip automaton of C14 never turns an error of its source into a clean end.

`Auto.verdict` of the multistream reader `gzip S = (gzip1 S).many` is `.eof` only for a state whose
phase is `failed .eof` (never reached: every failure of `gstep` / `dstep` is `errCorrupt` or
`errUnmodelled`) or a working state when the source itself ended with `.eof`.  The invariant `okG`
("no `failed .eof` inside") holds initially and is preserved by every step, for ANY check-sum
function.
-/
namespace Req.Lemmas.C03Enc
open Req.Proto Req.Compress Req.Compress.Fmt Req.Compress.Auto

def okD : DSt → Prop
  | .failed e => e ≠ .eof
  | _ => True

def okG : GSt → Prop
  | .failed e => e ≠ .eof
  | .body d _ _ => okD d
  | _ => True

theorem afterBlock_ok (f : Bool) : okD (afterBlock f) := by
  unfold afterBlock; split <;> simp [okD]

theorem dstep_ok (d : DSt) (b : UInt8) (h : okD d) : okD (dstep d b).1 := by
  cases d with
  | hdr =>
    simp only [dstep]
    split
    · simp [okD]
    · split <;> simp [okD, errCorrupt, errUnmodelled]
  | len1 f => simp [dstep, okD]
  | len2 f l0 => simp [dstep, okD]
  | len3 f l0 l1 => simp [dstep, okD]
  | len4 f l0 l1 n0 =>
    simp only [dstep]
    split
    · split
      · exact afterBlock_ok f
      · simp [okD]
    · simp [okD, errCorrupt]
  | data f k =>
    cases k with
    | zero => simp only [dstep]; exact afterBlock_ok f
    | succ k => simp [dstep, okD]
  | done => simp [dstep, okD]
  | failed e => simpa [dstep, okD] using h

theorem enterBody_ok : okG enterBody := by simp [enterBody, okG, okD]
theorem afterComment_ok (flg : UInt8) (hc : UInt32) : okG (afterComment flg hc) := by
  unfold afterComment; split
  · simp [okG]
  · exact enterBody_ok
theorem afterName_ok (flg : UInt8) (hc : UInt32) : okG (afterName flg hc) := by
  unfold afterName; split
  · simp [okG]
  · exact afterComment_ok flg hc
theorem afterExtra_ok (flg : UInt8) (hc : UInt32) : okG (afterExtra flg hc) := by
  unfold afterExtra; split
  · simp [okG]
  · exact afterName_ok flg hc
theorem afterFixed_ok (flg : UInt8) (hc : UInt32) : okG (afterFixed flg hc) := by
  unfold afterFixed; split
  · simp [okG]
  · exact afterExtra_ok flg hc

theorem gstep_ok (S : Sums) (s : GSt) (b : UInt8) (h : okG s) : okG (gstep S s b).1 := by
  cases s with
  | fixed i ok flg hc =>
    simp only [gstep]
    split
    · simp [okG]
    · split
      · exact afterFixed_ok _ _
      · simp [okG, errCorrupt]
  | xlen1 flg hc => simp [gstep, okG]
  | xlen2 flg hc lo =>
    simp only [gstep]
    split
    · exact afterExtra_ok _ _
    · simp [okG]
  | extra flg hc k =>
    cases k with
    | zero => simp only [gstep]; exact afterExtra_ok _ _
    | succ k => simp [gstep, okG]
  | name flg hc i =>
    simp only [gstep]
    split
    · exact afterName_ok _ _
    · split <;> simp [okG, errCorrupt]
  | comment flg hc i =>
    simp only [gstep]
    split
    · exact afterComment_ok _ _
    · split <;> simp [okG, errCorrupt]
  | hcrc1 hc => simp [gstep, okG]
  | hcrc2 hc lo =>
    simp only [gstep]
    split
    · exact enterBody_ok
    · simp [okG, errCorrupt]
  | body d crc size =>
    have hd := dstep_ok d b h
    simp only [gstep]
    split
    · simp [okG]
    · next e he =>
      -- dphase r.1 = failed e: r.1 = .failed e, and okD says e ≠ eof
      revert hd he
      generalize (dstep d b).1 = d'
      intro hd he
      cases d' <;> simp [dphase] at he
      subst he
      simpa [okG, okD] using hd
    · simpa [okG] using hd
  | trailer crc size got =>
    simp only [gstep]
    split
    · simp [okG]
    · split <;> simp [okG, errCorrupt]
  | done => simp [gstep, okG]
  | failed e => simpa [gstep, okG] using h

theorem gInit_ok : okG gInit := by simp [gInit, okG]

/-- the invariant along a run of the multistream reader -/
theorem run_ok (S : Sums) (inp : Bytes) (s : GSt) (h : okG s) : okG ((gzip S).run inp s).1 := by
  induction inp generalizing s with
  | nil => exact h
  | cons b inp ih =>
    simp only [Auto.run]
    split
    · apply ih
      show okG (gstep S (if isDone (gphase s) then gInit else s) b).1
      apply gstep_ok
      split
      · exact gInit_ok
      · exact h
    · exact h

/-- a state without `failed .eof` inside never answers a source error with a clean end -/
theorem verdict_err (S : Sums) (s : GSt) (h : okG s) (e : Nat) : (gzip S).verdict (.err e) s ≠ .eof := by
  unfold Auto.verdict
  show (match (match gphase s with | .done => Phase.working | p => p) with
    | .done => Term.eof
    | .failed e' => e'
    | .working => if (gzip S).fresh s then Term.err e else noEOF (.err e)) ≠ .eof
  cases s <;> simp [gphase, noEOF] <;> first | (split <;> simp) | skip
  all_goals first | simpa [okG] using h | skip

end Req.Lemmas.C03Enc
