import Req.Lemmas.C03H2Open
/-!
C03 — HTTP/2: fewer DATA bytes than declared (`run_short`, `drain_short`) and the draining caller
of `H2X.outcome` (`drainAll_eof`).
-/
namespace Req.C03
open Req.Proto Req.C02

theorem Mono.run {x : H2X} {O D : Bytes} (hi : Inv x.st O D) (ops : List H2XOp) :
    Mono x.st (x.run ops).2.st := by
  induction ops generalizing x O D with
  | nil => exact Mono.rfl' _
  | cons o ops ih =>
    cases o with
    | ev e => simp only [H2X.run]; exact (Mono.step hi e).trans (ih (hi.step e))
    | closeBody =>
      simp only [H2X.run]
      exact (Mono.closeBody _).trans (ih (x := x.closeBody) hi.closeBody)
    | read k =>
      cases hr : x.st.read k with
      | none => rw [run_read_none _ _ _ hr]; exact ih hi
      | some v =>
        obtain ⟨⟨d, e⟩, st'⟩ := v
        rw [run_read_some _ _ _ _ _ hr]
        obtain ⟨hinv, hsame⟩ := hi.read k d e st' hr
        exact (Mono.ofRd hsame).trans (ih (x := { x with st := st' }) hinv)

/-- Fewer DATA bytes than declared, in total: no read ever ends cleanly. -/
theorem run_short {x : H2X} {O D : Bytes} (hi : Inv x.st O D) (ops : List H2XOp) (r : H2Res) (n : Nat)
    (hres : (x.run ops).2.st.res = some r) (hp : r.body = .piped) (hcl : r.contentLength = some n)
    (hlt : (D ++ dataOf (evsOf ops)).length < n) : NoCleanEOF (x.run ops).1 := by
  induction ops generalizing x O D with
  | nil => exact NoCleanEOF.nil
  | cons o ops ih =>
    cases o with
    | ev e =>
      simp only [H2X.run] at hres ⊢
      refine ih (hi.step e) hres ?_
      rw [evsOf, dataOf_cons, ← List.append_assoc] at hlt; exact hlt
    | closeBody =>
      simp only [H2X.run] at hres ⊢
      exact ih (x := x.closeBody) hi.closeBody hres (by simpa [evsOf] using hlt)
    | read k =>
      have hlt' : (D ++ dataOf (evsOf ops)).length < n := by simpa [evsOf] using hlt
      cases hr : x.st.read k with
      | none =>
        rw [run_read_none _ _ _ hr] at hres ⊢
        exact noEOF_cons (by simp) (ih hi hres hlt')
      | some v =>
        obtain ⟨⟨d, e⟩, st'⟩ := v
        rw [run_read_some _ _ _ _ _ hr] at hres ⊢
        obtain ⟨hinv, hsame⟩ := hi.read k d e st' hr
        refine noEOF_cons ?_ (ih (x := { x with st := st' }) hinv hres hlt')
        intro d' hx; simp at hx
        obtain ⟨rfl, rfl⟩ := hx
        obtain ⟨herr, _, _, hlen⟩ := read_eof_spec hi k d st' hr
        have hsome := hi.closedRes (hi.eofClosed herr)
        cases hr0 : x.st.res with
        | none => simp [hr0] at hsome
        | some r0 =>
          have hfin := (Mono.run (x := { x with st := st' }) hinv ops).res r0 (by rw [hsame.res]; exact hr0)
          simp only at hres
          rw [hres] at hfin; simp at hfin; subst hfin
          have := hlen r n hr0 hp hcl
          have hpf := hi.outPfx.length_le
          simp only [List.length_append] at hlt'
          omega

/-- Draining after a clean END_STREAM that came before the declared length: the data that
arrived, then `io.ErrUnexpectedEOF`. -/
theorem drain_short {s : H2Stream} {O D : Bytes} (hi : Inv s O D) (r : H2Res) (n : Nat)
    (hres : s.res = some r) (hp : r.body = .piped) (hcl : r.contentLength = some n)
    (herr : s.pipe.err = some .eof) (hbe : s.pipe.breakErr = none) (hre : s.readErr = none)
    (hlt : D.length < n) (ks : List Nat) (hpos : ∀ k ∈ ks, 0 < k) (hlen : s.pipe.buf.length < ks.length) :
    ∃ d, (s.runReads ks).1.getLast? = some (d, some .unexpectedEOF) ∧
      outBytes (s.runReads ks).1 = s.pipe.buf := by
  induction ks generalizing s O with
  | nil => simp at hlen
  | cons k ks ih =>
    have hnf := read_nf s k
    have hk := hpos k (by simp)
    have hall := (hi.allPfx hre).length_le
    have hbd := hi.bound r n hres hp hcl
    have hrem := hi.remain r hres hp hre
    rw [hcl] at hrem; simp at hrem
    simp only [List.length_append] at hall
    unfold H2Stream.runReads
    cases hr : s.read k with
    | none =>
      rw [hr] at hnf
      cases hnf with
      | blocked _ _ he _ => simp [herr] at he
    | some v =>
      obtain ⟨⟨d, e⟩, s'⟩ := v
      obtain ⟨hinv, hsame⟩ := hi.read k d e s' hr
      rw [hr] at hnf
      simp only []
      cases hnf with
      | sticky e he => simp [hre] at he
      | broken b s' _ hb _ _ _ _ => simp [hbe] at hb
      | brokenShort s' _ hb _ _ _ => simp [hbe] at hb
      | over rem s' _ _ _ _ hbr hgt _ _ _ =>
        rw [hbr] at hrem; simp at hrem
        simp only [List.length_take] at hgt; omega
      | ended y s' _ _ hnb hy hye _ _ _ _ =>
        rw [herr] at hy; simp at hy; subst hy
        rcases hye rfl with h0 | h0
        · rw [h0] at hrem; simp at hrem
        · rw [h0] at hrem; simp at hrem; omega
      | short rem s' _ _ hnb _ _ _ _ _ _ =>
        simp only [List.getLast?_singleton, outBytes, List.map_cons, List.map_nil, List.flatten_cons,
          List.flatten_nil, List.append_nil]
        refine ⟨[], rfl, ?_⟩
        cases hhb : s.pipe.hasBuf with
        | false => exact (hi.bufNil hhb).symm
        | true =>
          cases hbuf : s.pipe.buf with
          | nil => rfl
          | cons a t => exact absurd ⟨hhb, by simp [hbuf]⟩ hnb
      | data s' _ _ hhb hne _ hp' hre' hbr' =>
        have hlt' : s'.pipe.buf.length < ks.length := by
          rw [hp']; simp only [List.length_drop]
          have : 0 < s.pipe.buf.length := List.length_pos_iff.mpr hne
          simp at hlen; omega
        obtain ⟨d', hl, hout⟩ := ih hinv (by rw [hsame.res]; exact hres) (by rw [hp']; exact herr)
          (by rw [hsame.breakErr]; exact hbe) hre' (fun k hk => hpos k (by simp [hk])) hlt'
        cases hrr : s'.runReads ks with
        | mk rs s'' =>
          rw [hrr] at hl hout
          simp only []
          refine ⟨d', ?_, ?_⟩
          · cases rs with
            | nil => simp at hl
            | cons a t => simpa using hl
          · simp only [outBytes, List.map_cons, List.flatten_cons] at hout ⊢
            rw [hout, hp']; simp

/-- The draining caller of `H2X.outcome`. -/
theorem drainAll_eof {s : H2Stream} {O D : Bytes} (hi : Inv s O D) (k fuel : Nat) (acc b : Bytes) (s' : H2Stream)
    (h : drainAll k fuel s acc = ((b, some (some .eof)), s')) :
    ∃ O', b = acc ++ O' ∧ O ++ O' <+: D ∧ s.readClosed = true ∧
      ∀ r n, s.res = some r → r.body = .piped → r.contentLength = some n → (O ++ O').length = n := by
  induction fuel generalizing s O acc with
  | zero => simp [drainAll] at h
  | succ fuel ih =>
    unfold drainAll at h
    cases hr : s.read k with
    | none => rw [hr] at h; simp at h
    | some v =>
      obtain ⟨⟨d, e⟩, s1⟩ := v
      rw [hr] at h
      obtain ⟨hinv, hsame⟩ := hi.read k d e s1 hr
      cases e with
      | none =>
        simp only [] at h
        obtain ⟨O', hb, hpf, hrc, hlen⟩ := ih hinv (acc ++ d) h
        refine ⟨d ++ O', by rw [hb, List.append_assoc], by rw [← List.append_assoc]; exact hpf,
          by rw [← hsame.readClosed]; exact hrc, ?_⟩
        intro r n h1 h2 h3
        rw [← List.append_assoc]; exact hlen r n (by rw [hsame.res]; exact h1) h2 h3
      | some e =>
        simp only [] at h
        simp at h
        obtain ⟨⟨hb, he⟩, _⟩ := h
        subst he
        obtain ⟨herr, hd, _, hlen⟩ := read_eof_spec hi k d s1 hr
        subst hd
        refine ⟨[], by simpa using hb.symm, by simpa using hi.outPfx, hi.eofClosed herr, ?_⟩
        intro r n h1 h2 h3
        simpa using hlen r n h1 h2 h3

end Req.C03
