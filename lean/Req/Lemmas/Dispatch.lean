import Req.Pool.Dispatch
/-! Helper lemmas about `Req.Pool.Dispatch` (used by `Req.Props.C12`). -/
namespace Req.Lemmas.Dispatch
open Req.Pool.Dispatch

theorem speak_ok {v p w : Ver} (h : speak v p = .ok w) : w = v ∧ p = v := by
  unfold speak at h
  split at h
  · rename_i hv; cases h; exact ⟨rfl, hv.symm⟩
  · cases h

theorem speak_not_crash {v p : Ver} : speak v p ≠ .crash := by
  unfold speak; split <;> simp

theorem carry_ok {cfg : Cfg} {st : Option TlsState} {v : Ver} (h : carry cfg st = .ok v) :
    (v = .h2 ∧ cfg.force ≠ some .h1 ∧ ∃ s, st = some s ∧ s.proto = some .h2)
    ∨ (v = .h1 ∧ peerOf st = .h1) := by
  cases st with
  | none =>
    simp [carry] at h
    have := speak_ok h
    right; exact ⟨this.1, this.2⟩
  | some s =>
    simp only [carry] at h
    by_cases hh : (decide (cfg.force ≠ some Ver.h1) && (s.isMutual && decide (s.proto = some Alpn.h2))) = true
    · rw [if_pos hh] at h
      have := speak_ok h
      simp at hh
      left; exact ⟨this.1, hh.1, s, rfl, hh.2.2⟩
    · rw [if_neg hh] at h
      have := speak_ok h
      right; exact ⟨this.1, this.2⟩

theorem carry_not_crash {cfg : Cfg} {st : Option TlsState} : carry cfg st ≠ .crash := by
  cases st with
  | none => simp [carry]; exact speak_not_crash
  | some s =>
    simp only [carry]
    split <;> exact speak_not_crash

theorem carry_forced_h1 {cfg : Cfg} {st : Option TlsState} {v : Ver} (hf : cfg.force = some .h1)
    (h : carry cfg st = .ok v) : v = .h1 := by
  rcases carry_ok h with ⟨_, hn, _⟩ | ⟨hv, _⟩
  · exact absurd hf hn
  · exact hv

theorem dialTlsState_ok {cfg : Cfg} {o : Bool} {net : Net} {st : Option TlsState}
    (h : dialTlsState cfg o net = .ok st) :
    (st = none ∧ net.custom = .plain)
    ∨ (∃ s, st = some s ∧ net.custom = .tls s)
    ∨ (∃ cl p, st = some ⟨p, true⟩ ∧ negotiate net.alpn cl = some p ∧ net.tcpAccept = true) := by
  unfold dialTlsState at h
  split at h
  · split at h
    · cases h
    · cases h; left; exact ⟨rfl, by assumption⟩
    · split at h
      · cases h
      · cases h; right; left; exact ⟨_, rfl, by assumption⟩
  · split at h
    · split at h
      · cases h
      · cases h; left; exact ⟨rfl, by assumption⟩
      · cases h; right; left; exact ⟨_, rfl, by assumption⟩
    · split at h
      · cases h
      · rename_i p hn
        split at h
        · cases h
        · split at h
          · cases h
          · cases h; right; right; exact ⟨_, p, rfl, hn, by simp_all⟩

theorem t3_ok {cfg : Cfg} {req : Req} {net : Net} {w : Ver}
    (h : t3RoundTrip cfg req net = .ok w) :
    w = .h3 ∧ (net.cachedH3 = true ∨ (net.h3Up = true ∧ net.quicAccept = true)) := by
  unfold t3RoundTrip at h
  split at h; · cases h
  split at h; · cases h
  split at h
  · cases h; exact ⟨rfl, Or.inl (by assumption)⟩
  split at h; · cases h
  split at h; · cases h
  cases h
  refine ⟨rfl, Or.inr ⟨?_, ?_⟩⟩ <;> simp_all

theorem t2Dial_ok {cfg : Cfg} {req : Req} {net : Net} {w : Ver}
    (h : t2Dial cfg req net = .ok w) : w = .h2 := by
  unfold t2Dial at h
  repeat' split at h
  all_goals first | exact (speak_ok h).1 | (cases h; rfl) | cases h

theorem t2_ok {cfg : Cfg} {req : Req} {net : Net} {w : Ver}
    (h : t2RoundTrip cfg req net = .ok w) :
    w = .h2 ∧ (req.scheme = .https ∨ (req.scheme = .http ∧ cfg.allowHTTP = true)) := by
  unfold t2RoundTrip at h
  split at h; · cases h
  rename_i hs
  have hs' : req.scheme = .https ∨ (req.scheme = .http ∧ cfg.allowHTTP = true) := by
    simp at hs
    by_cases h1 : req.scheme = .https
    · exact Or.inl h1
    · exact Or.inr (hs h1)
  split at h
  · cases h; exact ⟨rfl, hs'⟩
  · exact ⟨t2Dial_ok h, hs'⟩

theorem h1Path_ok {cfg : Cfg} {req : Req} {net : Net} {v : Ver} (h : h1Path cfg req net = .ok v) :
    (req.scheme = .http ∧ v = .h1)
    ∨ (req.scheme = .https ∧ ∃ st, dialTlsState cfg (cfg.force = some .h1 || req.requiresH1) net = .ok st
        ∧ carry cfg st = .ok v) := by
  unfold h1Path at h
  split at h
  · cases h
  · left; exact ⟨by assumption, (speak_ok h).1⟩
  · right
    refine ⟨by assumption, ?_⟩
    split at h
    · cases h
    · exact ⟨_, by assumption, h⟩

theorem t3_not_crash {cfg : Cfg} {req : Req} {net : Net} (h : cfg.h3 = true) :
    t3RoundTrip cfg req net ≠ .crash := by
  unfold t3RoundTrip
  simp [h]
  repeat' split
  all_goals simp

theorem t2Dial_not_crash {cfg : Cfg} {req : Req} {net : Net}
    (hc : cfg.handshake = true → net.custom ≠ .plain) : t2Dial cfg req net ≠ .crash := by
  unfold t2Dial
  split
  · split
    · simp
    · exact speak_not_crash
    · exact speak_not_crash
  · split
    · simp
    · split
      · split
        · simp
        · rename_i hh _ hp; exact absurd hp (hc hh)
        · repeat' split
          all_goals simp
      · repeat' split
        all_goals simp

theorem h1Path_not_crash {cfg : Cfg} {req : Req} {net : Net} : h1Path cfg req net ≠ .crash := by
  unfold h1Path
  split
  · simp
  · exact speak_not_crash
  · split
    · simp
    · exact carry_not_crash

theorem t2Dial_ok_accept {cfg : Cfg} {req : Req} {net : Net} {w : Ver}
    (hd : cfg.dialTLS = false) (hh : cfg.handshake = false)
    (h : t2Dial cfg req net = .ok w) : net.tcpAccept = true := by
  unfold t2Dial at h
  simp [hd, hh] at h
  split at h
  · split at h
    · cases h
    · split at h
      · cases h
      · simp_all
  · cases h

end Req.Lemmas.Dispatch
