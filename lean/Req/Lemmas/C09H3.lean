import Req.Pool.H3Map
/-! Invariants of the HTTP/3 client-cache model (C09). -/
namespace Req.Lemmas.C09H3
open Req.Pool.H3Map

/-- number of requests of `l` that hold client `c` -/
def holders (rst : Nat → RSt) (c : Nat) (l : List Nat) : Nat :=
  (l.filter (fun r => rst r = .holding c)).length

structure Inv (s : St) : Prop where
  keysNodup : (s.clients.map Prod.fst).Nodup
  regHost : ∀ h c, (h, c) ∈ s.clients → (s.cl c).host = some h
  created : ∀ c, (s.cl c).host ≠ none → c < s.next
  fresh : ∀ c, s.next ≤ c → s.cl c = {}
  reqsNodup : s.reqs.Nodup
  started : ∀ r, s.rst r ≠ .fresh ↔ r ∈ s.reqs
  pairing : ∀ r c, s.rst r = .holding c → (s.cl c).host = s.rhost r ∧ s.rhost r ≠ none
  count : ∀ c, (holders s.rst c s.reqs : Int) ≤ (s.cl c).useCount

theorem Inv_init : Inv {} := by
  refine ⟨by simp, by intro h c hc; simp at hc, by intro c hc; simp at hc, by intro c _; rfl, by simp,
    by intro r; simp, by intro r c hr; simp at hr, by intro c; simp [holders]⟩

theorem upd_apply {β} (f : Nat → β) (k j : Nat) (v : β) : upd f k v j = if j = k then v else f j := rfl

theorem mem_erase {m : List (Nat × Nat)} {h : Nat} {p : Nat × Nat} (hp : p ∈ erase m h) : p ∈ m :=
  (List.mem_filter.mp hp).1

theorem erase_nodup {m : List (Nat × Nat)} (h : Nat) (hn : (m.map Prod.fst).Nodup) :
    ((erase m h).map Prod.fst).Nodup :=
  List.Nodup.sublist (List.Sublist.map _ List.filter_sublist) hn

theorem lookup_mem {m : List (Nat × Nat)} {h : Nat} {c : Nat} (hl : m.lookup h = some c) : (h, c) ∈ m := by
  obtain ⟨l1, l2, e, _⟩ := List.lookup_eq_some_iff.mp hl
  rw [e]; simp

theorem lookup_none_not_mem {m : List (Nat × Nat)} {h : Nat} (hl : m.lookup h = none) (c : Nat) :
    (h, c) ∉ m := by
  intro hm
  rw [List.lookup_eq_none_iff] at hl
  have := hl _ hm
  simp at this

/-- holders after one request's state changes -/
theorem holders_upd_notmem (rst : Nat → RSt) (c : Nat) (l : List Nat) (r : Nat) (v : RSt) (hr : r ∉ l) :
    holders (upd rst r v) c l = holders rst c l := by
  unfold holders
  congr 1
  apply List.filter_congr
  intro x hx
  have : x ≠ r := fun e => hr (e ▸ hx)
  simp [upd, this]

theorem holders_cons (rst : Nat → RSt) (c : Nat) (l : List Nat) (r : Nat) :
    holders rst c (r :: l) = (if rst r = .holding c then 1 else 0) + holders rst c l := by
  unfold holders
  simp only [List.filter_cons]
  split <;> simp_all <;> omega

theorem holders_upd_mem (rst : Nat → RSt) (c : Nat) (l : List Nat) (r : Nat) (v : RSt)
    (hn : l.Nodup) (hr : r ∈ l) :
    holders (upd rst r v) c l + (if rst r = .holding c then 1 else 0) =
      holders rst c l + (if v = .holding c then 1 else 0) := by
  induction l with
  | nil => cases hr
  | cons a l ih =>
    rw [holders_cons, holders_cons]
    have hn' := List.nodup_cons.mp hn
    rcases List.mem_cons.mp hr with e | hm
    · subst e
      rw [holders_upd_notmem _ _ _ _ _ hn'.1]
      simp only [upd, if_true]
      omega
    · have hne : a ≠ r := fun e => hn'.1 (e ▸ hm)
      have := ih hn'.2 hm
      simp only [upd, hne, if_false]
      omega


/-- A client that some request holds exists (its number is below `next`). -/
theorem Inv.holder_lt {s : St} (h : Inv s) {r : Nat} {c : Nat} (hr : s.rst r = .holding c) : c < s.next := by
  obtain ⟨a, b⟩ := h.pairing r c hr
  exact h.created c (by rw [a]; exact b)

/-- `dropStale` only removes an entry. -/
theorem Inv_dropStale (s : St) (hst : Nat) (h : Inv s) : Inv (dropStale s hst) := by
  unfold dropStale
  split
  · dsimp only
    split
    · exact { h with keysNodup := erase_nodup hst h.keysNodup,
                     regHost := fun a c hm => h.regHost a c (mem_erase hm) }
    · exact h
  · exact h

theorem dropStale_frame (s : St) (hst : Nat) :
    (dropStale s hst).cl = s.cl ∧ (dropStale s hst).next = s.next ∧ (dropStale s hst).rst = s.rst ∧
    (dropStale s hst).rhost = s.rhost ∧ (dropStale s hst).reqs = s.reqs := by
  unfold dropStale
  split
  · dsimp only
    split <;> exact ⟨rfl, rfl, rfl, rfl, rfl⟩
  · exact ⟨rfl, rfl, rfl, rfl, rfl⟩

/-- The request `r` (in `reqs`, holding `c`) stops holding: `useCount c` may drop by one. -/
theorem count_release' (s : St) (h : Inv s) (r : Nat) (c : Nat) (hr : s.rst r = .holding c) (v : RSt)
    (hv : ∀ d, v ≠ .holding d) (c' : Nat) :
    (holders (upd s.rst r v) c' s.reqs : Int) + (if c' = c then 1 else 0) ≤ (s.cl c').useCount := by
  have hm : r ∈ s.reqs := (h.started r).mp (by rw [hr]; simp)
  have e := holders_upd_mem s.rst c' s.reqs r v h.reqsNodup hm
  have hv' : ¬ (v = RSt.holding c') := hv c'
  simp only [hv', if_false] at e
  have hc := h.count c'
  rw [hr] at e
  by_cases hcc : c' = c
  · subst hcc
    simp only [if_true] at e ⊢
    omega
  · have : ¬ (RSt.holding c = RSt.holding c') := fun x => hcc (by cases x; rfl)
    simp only [this, if_false, hcc] at e ⊢
    omega

theorem holders_erase_le (rst : Nat → RSt) (c : Nat) (l : List Nat) (r : Nat) :
    holders rst c (l.erase r) ≤ holders rst c l := by
  unfold holders
  exact List.Sublist.length_le (List.Sublist.filter _ List.erase_sublist)

theorem count_release (s : St) (h : Inv s) (r : Nat) (c : Nat) (hr : s.rst r = .holding c) (c' : Nat) :
    (holders (upd s.rst r .over) c' s.reqs : Int) + (if c' = c then 1 else 0) ≤ (s.cl c').useCount := by
  have hm : r ∈ s.reqs := (h.started r).mp (by rw [hr]; simp)
  have e := holders_upd_mem s.rst c' s.reqs r .over h.reqsNodup hm
  have hc := h.count c'
  rw [hr] at e
  by_cases hcc : c' = c
  · subst hcc
    simp only [if_true] at e ⊢
    simp at e
    omega
  · have : ¬ (RSt.holding c = RSt.holding c') := fun x => hcc (by cases x; rfl)
    simp only [this, if_false, hcc] at e ⊢
    simp at e
    omega

theorem Inv_step (s : St) (op : Op) (h : Inv s) : Inv (step s op).1 := by
  cases op with
  | get r hst onlyCached =>
    simp only [step]
    split
    · exact h
    · next hfresh =>
      have hfresh' : s.rst r = .fresh := Classical.not_not.mp hfresh
      have h1 := Inv_dropStale s hst h
      obtain ⟨f1, f2, f3, f4, f5⟩ := dropStale_frame s hst
      have hrn : r ∉ (dropStale s hst).reqs := by
        rw [f5]; intro hm; exact ((h.started r).mpr hm) hfresh'
      generalize dropStale s hst = s1 at h1 f1 f2 f3 f4 f5 hrn ⊢
      have hfr1 : s1.rst r = .fresh := by rw [f3]; exact hfresh'
      split
      · next c hl =>
        have hm := lookup_mem hl
        have hhost := h1.regHost hst c hm
        have hclt : c < s1.next := h1.created c (by rw [hhost]; simp)
        refine ⟨h1.keysNodup, ?_, ?_, ?_, ?_, ?_, ?_, ?_⟩
        · intro a c' hm'
          simp only [addUse, upd_apply]
          split
          · next e => subst e; exact h1.regHost a _ hm'
          · exact h1.regHost a c' hm'
        · intro c' hc'
          simp only [addUse, upd_apply] at hc'
          split at hc'
          · next e => subst e; exact hclt
          · exact h1.created c' hc'
        · intro c' hc'
          have hc'' : s1.next ≤ c' := hc'
          simp only [addUse, upd_apply]
          split
          · next e => subst e; omega
          · exact h1.fresh c' hc''
        · exact List.nodup_cons.mpr ⟨hrn, h1.reqsNodup⟩
        · intro r'
          simp only [upd_apply, addUse]
          split
          · next e => subst e; simp
          · next e =>
            rw [h1.started r']
            simp [e]
        · intro r' c' hr'
          simp only [upd_apply, addUse] at hr' ⊢
          split at hr'
          · next e =>
            subst e
            cases hr'
            simp [hhost]
          · next e =>
            rw [if_neg e]
            obtain ⟨a, b⟩ := h1.pairing r' c' hr'
            refine ⟨?_, b⟩
            split
            · next e' => subst e'; exact a
            · exact a
        · intro c'
          simp only [addUse, upd_apply]
          rw [holders_cons, holders_upd_notmem _ _ _ _ _ hrn]
          have hc := h1.count c'
          simp only [upd, if_true]
          by_cases hcc : c' = c
          · subst hcc
            simp
            omega
          · have : ¬ (RSt.holding c = RSt.holding c') := fun x => hcc (by cases x; rfl)
            simp [this, hcc]
            exact hc
      · next hl =>
        split
        · exact h1
        · have hnot := lookup_none_not_mem hl
          have hnew : s1.cl s1.next = {} := h1.fresh _ (Nat.le_refl _)
          have hold0 : holders s1.rst s1.next s1.reqs = 0 := by
            have := h1.count s1.next
            rw [hnew] at this
            simp at this
            omega
          refine ⟨?_, ?_, ?_, ?_, ?_, ?_, ?_, ?_⟩
          · simp only [List.map_cons, List.nodup_cons]
            refine ⟨?_, h1.keysNodup⟩
            intro hm
            obtain ⟨⟨a, c'⟩, hp, e⟩ := List.mem_map.mp hm
            simp only at e; subst e
            exact hnot c' hp
          · intro a c' hm'
            simp only [upd_apply]
            rcases List.mem_cons.mp hm' with e | hm''
            · cases e; simp
            · have := h1.created c' (by rw [h1.regHost a c' hm'']; simp)
              rw [if_neg (by omega)]
              exact h1.regHost a c' hm''
          · intro c' hc'
            simp only [upd_apply] at hc'
            split at hc'
            · next e => subst e; show s1.next < s1.next + 1; omega
            · have := h1.created c' hc'
              show c' < s1.next + 1; omega
          · intro c' hc'
            have hc'' : s1.next + 1 ≤ c' := hc'
            simp only [upd_apply]
            rw [if_neg (by omega)]
            exact h1.fresh c' (by omega)
          · exact List.nodup_cons.mpr ⟨hrn, h1.reqsNodup⟩
          · intro r'
            simp only [upd_apply]
            split
            · next e => subst e; simp
            · next e =>
              rw [h1.started r']
              simp [e]
          · intro r' c' hr'
            simp only [upd_apply] at hr' ⊢
            split at hr'
            · next e =>
              subst e
              cases hr'
              simp
            · next e =>
              rw [if_neg e]
              have hlt := h1.holder_lt hr'
              rw [if_neg (by omega)]
              exact h1.pairing r' c' hr'
          · intro c'
            simp only [upd_apply]
            rw [holders_cons, holders_upd_notmem _ _ _ _ _ hrn]
            simp only [upd, if_true]
            by_cases hcc : c' = s1.next
            · subst hcc
              simp [hold0]
            · have : ¬ (RSt.holding s1.next = RSt.holding c') := fun x => hcc (by cases x; rfl)
              simp [this, hcc]
              exact h1.count c'
  | retryDial r =>
    simp only [step]
    split
    · next c hr =>
      split
      · exact h
      · have hm : r ∈ s.reqs := (h.started r).mp (by rw [hr]; simp)
        refine { h with reqsNodup := h.reqsNodup.erase r, started := ?_, pairing := ?_, count := ?_ }
        · intro r'
          simp only [upd_apply]
          split
          · next e =>
            subst e
            simp only [ne_eq, not_true_eq_false, false_iff]
            intro hmem
            exact ((List.Nodup.mem_erase_iff h.reqsNodup).mp hmem).1 rfl
          · next e =>
            rw [h.started r']
            constructor
            · intro hx; exact (List.Nodup.mem_erase_iff h.reqsNodup).mpr ⟨e, hx⟩
            · intro hx; exact List.mem_of_mem_erase hx
        · intro r' c' hr'; simp only [upd_apply] at hr'; split at hr'
          · cases hr'
          · exact h.pairing r' c' hr'
        · intro c'
          have h1 := count_release' s h r c hr .fresh (by intro d; simp) c'
          have h2 := holders_erase_le (upd s.rst r .fresh) c' s.reqs r
          show (holders (upd s.rst r .fresh) c' (s.reqs.erase r) : Int) ≤ (s.cl c').useCount
          split at h1 <;> omega
    · exact h
  | dialDone c res =>
    simp only [step]
    split
    · exact h
    · next hc =>
      have hhost : (s.cl c).host ≠ none := by
        intro e; exact hc (Or.inl (by simp [e]))
      have hclt := h.created c hhost
      refine { h with regHost := ?_, created := ?_, fresh := ?_, pairing := ?_, count := ?_ }
      · intro a c' hm; simp only [upd_apply]; split
        · next e => subst e; exact h.regHost a _ hm
        · exact h.regHost a c' hm
      · intro c' hc'; simp only [upd_apply] at hc'; split at hc'
        · next e => subst e; exact hclt
        · exact h.created c' hc'
      · intro c' hc'
        have hc'' : s.next ≤ c' := hc'
        simp only [upd_apply]; rw [if_neg (by omega)]; exact h.fresh c' hc''
      · intro r' c' hr'; simp only [upd_apply]; split
        · next e => subst e; exact h.pairing r' _ hr'
        · exact h.pairing r' c' hr'
      · intro c'; simp only [upd_apply]; split
        · next e => subst e; exact h.count _
        · exact h.count c'
  | connDies c =>
    simp only [step]
    split
    · exact h
    · next hc =>
      have hok : (s.cl c).dial = .ok := Classical.not_not.mp hc
      have hclt : c < s.next := by
        rcases Nat.lt_or_ge c s.next with x | x
        · exact x
        · rw [h.fresh c x] at hok; cases hok
      refine { h with regHost := ?_, created := ?_, fresh := ?_, pairing := ?_, count := ?_ }
      · intro a c' hm; simp only [upd_apply]; split
        · next e => subst e; exact h.regHost a _ hm
        · exact h.regHost a c' hm
      · intro c' hc'; simp only [upd_apply] at hc'; split at hc'
        · next e => subst e; exact hclt
        · exact h.created c' hc'
      · intro c' hc'
        have hc'' : s.next ≤ c' := hc'
        simp only [upd_apply]; rw [if_neg (by omega)]; exact h.fresh c' hc''
      · intro r' c' hr'; simp only [upd_apply]; split
        · next e => subst e; exact h.pairing r' _ hr'
        · exact h.pairing r' c' hr'
      · intro c'; simp only [upd_apply]; split
        · next e => subst e; exact h.count _
        · exact h.count c'
  | giveUp r =>
    simp only [step]
    split
    · next c hr =>
      split
      · exact h
      · exact release h r c hr s.clients (fun _ hp => hp) h.keysNodup
    · exact h
  | dialFailed r =>
    simp only [step]
    split
    · next c hst hr hh =>
      split
      · exact h
      · refine { h with keysNodup := erase_nodup hst h.keysNodup,
                        regHost := fun a c' hm => h.regHost a c' (mem_erase hm),
                        started := ?_, pairing := ?_, count := ?_ }
        · intro r'; simp only [upd_apply]; split
          · next e => subst e; simp [(h.started r').mp (by rw [hr]; simp)]
          · exact h.started r'
        · intro r' c' hr'; simp only [upd_apply] at hr'; split at hr'
          · cases hr'
          · exact h.pairing r' c' hr'
        · intro c'
          have := count_release s h r c hr c'
          show (holders (upd s.rst r .over) c' s.reqs : Int) ≤ (s.cl c').useCount
          split at this <;> omega
    · exact h
  | finish r connErr =>
    simp only [step]
    split
    · next c hst hr hh =>
      split
      · exact h
      · split
        · exact release h r c hr (erase s.clients hst) (fun _ hp => mem_erase hp) (erase_nodup hst h.keysNodup)
        · exact release h r c hr s.clients (fun _ hp => hp) h.keysNodup
    · exact h
  | closeIdle =>
    simp only [step]
    have hcl : ∀ c, ((if (s.clients.filter (fun p => (s.cl p.2).useCount = 0)).any (fun p => p.2 = c)
        then { s.cl c with closedByUs := true } else s.cl c) : Cl).host = (s.cl c).host ∧
        ((if (s.clients.filter (fun p => (s.cl p.2).useCount = 0)).any (fun p => p.2 = c)
        then { s.cl c with closedByUs := true } else s.cl c) : Cl).useCount = (s.cl c).useCount := by
      intro c; split <;> exact ⟨rfl, rfl⟩
    refine ⟨List.Nodup.sublist (List.Sublist.map _ List.filter_sublist) h.keysNodup, ?_, ?_, ?_,
      h.reqsNodup, h.started, ?_, ?_⟩
    · intro a c hm; rw [(hcl c).1]; exact h.regHost a c (List.mem_filter.mp hm).1
    · intro c hc; rw [(hcl c).1] at hc; exact h.created c hc
    · intro c hc
      have hc : s.next ≤ c := hc
      have : (s.clients.filter (fun p => (s.cl p.2).useCount = 0)).any (fun p => p.2 = c) = false := by
        rw [List.any_eq_false]
        intro p hp
        have hm := (List.mem_filter.mp hp).1
        have := h.created p.2 (by rw [h.regHost p.1 p.2 hm]; simp)
        simp; omega
      simp only [this]
      exact h.fresh c hc
    · intro r c hr; rw [(hcl c).1]; exact h.pairing r c hr
    · intro c; rw [(hcl c).2]; exact h.count c
  | close =>
    simp only [step]
    have hcl : ∀ c, ((if s.clients.any (fun p => p.2 = c) then { s.cl c with closedByUs := true } else s.cl c) : Cl).host
        = (s.cl c).host ∧
        ((if s.clients.any (fun p => p.2 = c) then { s.cl c with closedByUs := true } else s.cl c) : Cl).useCount
        = (s.cl c).useCount := by
      intro c; split <;> exact ⟨rfl, rfl⟩
    refine ⟨by simp, by intro a c hm; simp at hm, ?_, ?_, h.reqsNodup, h.started, ?_, ?_⟩
    · intro c hc; rw [(hcl c).1] at hc; exact h.created c hc
    · intro c hc
      have hc : s.next ≤ c := hc
      have : s.clients.any (fun p => p.2 = c) = false := by
        rw [List.any_eq_false]
        intro p hp
        have := h.created p.2 (by rw [h.regHost p.1 p.2 hp]; simp)
        simp; omega
      simp only [this]
      exact h.fresh c hc
    · intro r c hr; rw [(hcl c).1]; exact h.pairing r c hr
    · intro c; rw [(hcl c).2]; exact h.count c
where
  /-- request `r` lets go of `c` (`useCount--`), the map possibly shrinks -/
  release {s : St} (h : Inv s) (r : Nat) (c : Nat) (hr : s.rst r = .holding c)
      (m : List (Nat × Nat)) (hsub : ∀ p, p ∈ m → p ∈ s.clients) (hnd : (m.map Prod.fst).Nodup) :
      Inv { addUse { s with clients := m } c (-1) with rst := upd s.rst r .over } := by
    have hclt := h.holder_lt hr
    refine ⟨hnd, ?_, ?_, ?_, h.reqsNodup, ?_, ?_, ?_⟩
    · intro a c' hm; simp only [addUse, upd_apply]; split
      · next e => subst e; exact h.regHost a _ (hsub _ hm)
      · exact h.regHost a c' (hsub _ hm)
    · intro c' hc'; simp only [addUse, upd_apply] at hc'; split at hc'
      · next e => subst e; exact hclt
      · exact h.created c' hc'
    · intro c' hc'
      have hc'' : s.next ≤ c' := hc'
      simp only [addUse, upd_apply]; rw [if_neg (by omega)]; exact h.fresh c' hc''
    · intro r'; simp only [upd_apply]; split
      · next e =>
        subst e
        have : r' ∈ s.reqs := (h.started r').mp (by rw [hr]; simp)
        simp only [addUse]
        simp [this]
      · exact h.started r'
    · intro r' c' hr'; simp only [upd_apply, addUse] at hr' ⊢; split at hr'
      · cases hr'
      · obtain ⟨a, b⟩ := h.pairing r' c' hr'
        refine ⟨?_, b⟩
        split
        · next e => subst e; exact a
        · exact a
    · intro c'
      have := count_release s h r c hr c'
      simp only [addUse, upd_apply]
      split
      · next e => subst e; simp at this ⊢; omega
      · next e => simp [e] at this; exact this

theorem Inv_run (s : St) (ops : List Op) (h : Inv s) : Inv (run s ops) := by
  induction ops generalizing s with
  | nil => exact h
  | cons op ops ih => exact ih _ (Inv_step s op h)

end Req.Lemmas.C09H3
