import Req.Client.DigestAuth
/-!
Helper lemmas for C20 (repaired code): what `selectQop` and `pick` return.
-/
namespace Req.DigestAuth
open Req.Proto Req.Ascii Req.Digest

/-- the qop options a challenge offers, as a list of tokens -/
def qopOptions (options : Bytes) : List Bytes :=
  if options.isEmpty then [] else (split 44 options).map (trim isOws)

theorem any_trim_eq (l : List Bytes) :
    (l.any fun o => trim isOws o == b!"auth") = (l.map (trim isOws)).contains b!"auth" := by
  induction l with
  | nil => rfl
  | cons x xs ih =>
    simp only [List.any_cons, List.map_cons, List.contains_cons, ih]
    congr 1
    exact Bool.eq_iff_iff.mpr ⟨fun h => by rw [eq_of_beq h]; exact beq_self_eq_true _,
      fun h => by rw [eq_of_beq h]; exact beq_self_eq_true _⟩

/-- `selectQop` in closed form -/
theorem selectQop_eq (algOf' : Bytes → Option Alg) (algorithm options : Bytes) :
    selectQop algOf' algorithm options =
      match algOf' algorithm with
      | none => .error .algNotSupported
      | some _ =>
        if (qopOptions options).contains b!"auth" = true then .ok b!"auth"
        else if options = [] then (if isSess algorithm = true then .error .qopNotSupported else .ok [])
        else .error .qopNotSupported := by
  unfold selectQop
  cases halg : algOf' algorithm with
  | none => rfl
  | some alg =>
    simp only
    by_cases ha : ((split 44 options).any fun o => trim isOws o == b!"auth") = true
    · have hne : options ≠ [] := by
        intro e
        subst e
        revert ha
        decide
      have hne' : options.isEmpty = false := by
        cases options with
        | nil => exact absurd rfl hne
        | cons _ _ => rfl
      have hc : (qopOptions options).contains b!"auth" = true := by
        unfold qopOptions
        simp only [hne', Bool.false_eq_true, if_false]
        rw [← any_trim_eq]; exact ha
      simp only [ha, if_true, List.isEmpty_cons, Bool.and_false, Bool.false_and, Bool.false_eq_true, if_false, hc]
    · have hc : (qopOptions options).contains b!"auth" = false := by
        unfold qopOptions
        split
        · rfl
        · rw [← any_trim_eq]; simpa using ha
      simp only [ha, Bool.false_eq_true, if_false, List.isEmpty_nil, Bool.and_true, Bool.true_and, hc]
      cases options with
      | nil => simp
      | cons x xs => simp

theorem selectQop_ok {algOf' : Bytes → Option Alg} {algorithm options qop : Bytes}
    (h : selectQop algOf' algorithm options = .ok qop) :
    (∃ alg, algOf' algorithm = some alg) ∧
    ((qop = [] ∧ options = [] ∧ isSess algorithm = false) ∨
     (qop = b!"auth" ∧ options ≠ [] ∧ (qopOptions options).contains b!"auth" = true)) := by
  unfold selectQop at h
  split at h
  · cases h
  · rename_i alg halg
    refine ⟨⟨alg, halg⟩, ?_⟩
    simp only at h
    by_cases ha : ((split 44 options).any fun o => trim isOws o == b!"auth") = true
    · simp only [ha, if_true] at h
      have hne : options ≠ [] := by
        intro e
        subst e
        revert ha
        decide
      have hne' : options.isEmpty = false := by
        cases options with
        | nil => exact absurd rfl hne
        | cons _ _ => rfl
      have e1 : (b!"auth" : Bytes).isEmpty = false := rfl
      simp only [hne', e1, Bool.not_false, Bool.and_false, Bool.false_eq_true, if_false, Bool.false_and] at h
      cases h
      right
      refine ⟨rfl, hne, ?_⟩
      unfold qopOptions
      simp only [hne', Bool.false_eq_true, if_false]
      rw [← any_trim_eq]; exact ha
    · simp only [ha, Bool.false_eq_true, if_false, List.isEmpty_nil, Bool.and_true, Bool.true_and] at h
      split at h
      · cases h
      · rename_i hopt
        split at h
        · cases h
        · rename_i hs
          cases h
          left
          refine ⟨rfl, ?_, by simpa using hs⟩
          cases options with
          | nil => rfl
          | cons _ _ => simp at hopt

theorem selectQop_error_kinds (algOf' : Bytes → Option Alg) (algorithm options : Bytes) :
    (algOf' algorithm = none → selectQop algOf' algorithm options = .error .algNotSupported) ∧
    (∀ e, selectQop algOf' algorithm options = .error e → e = .algNotSupported ∨ e = .qopNotSupported) := by
  refine ⟨fun h => by simp [selectQop, h], ?_⟩
  intro e h
  unfold selectQop at h
  split at h
  · cases h; exact Or.inl rfl
  · simp only at h
    by_cases h1 : (!options.isEmpty &&
        (if ((split 44 options).any fun o => trim isOws o == b!"auth") = true then b!"auth" else []).isEmpty) = true
    · rw [if_pos h1] at h; cases h; exact Or.inr rfl
    · rw [if_neg h1] at h
      by_cases h2 : ((if ((split 44 options).any fun o => trim isOws o == b!"auth") = true then b!"auth" else []).isEmpty &&
          isSess algorithm) = true
      · rw [if_pos h2] at h; cases h; exact Or.inr rfl
      · rw [if_neg h2] at h; cases h

/-! ### pick -/

theorem answerable_iff (algOf' : Bytes → Option Alg) (c : Challenge) :
    answerable algOf' c = true ↔ ∃ q, selectQop algOf' c.algorithm c.qop = .ok q := by
  unfold answerable
  split
  · rename_i q h; exact ⟨fun _ => ⟨q, h⟩, fun _ => rfl⟩
  · rename_i e h
    constructor
    · intro hh; cases hh
    · rintro ⟨q, hq⟩; rw [hq] at h; cases h

theorem pick_cons (algOf' : Bytes → Option Alg) (c0 : Challenge) (rest : List Challenge) :
    pick algOf' (c0 :: rest) =
      match selectQop algOf' c0.algorithm c0.qop with
      | .ok _ => .ok c0
      | .error e =>
        match rest.find? (answerable algOf') with
        | some c => .ok c
        | none => .error e := rfl

theorem answerable_false {algOf' : Bytes → Option Alg} {c : Challenge} {e : Err}
    (h : selectQop algOf' c.algorithm c.qop = .error e) : answerable algOf' c = false := by
  unfold answerable; rw [h]

theorem answerable_true {algOf' : Bytes → Option Alg} {c : Challenge} {q : Bytes}
    (h : selectQop algOf' c.algorithm c.qop = .ok q) : answerable algOf' c = true := by
  unfold answerable; rw [h]

/-- `pick` returns the FIRST answerable challenge of the list. -/
theorem pick_ok {algOf' : Bytes → Option Alg} {l : List Challenge} {c : Challenge}
    (h : pick algOf' l = .ok c) : l.find? (answerable algOf') = some c := by
  cases l with
  | nil => simp [pick] at h
  | cons c0 rest =>
    rw [pick_cons] at h
    cases hs : selectQop algOf' c0.algorithm c0.qop with
    | ok q =>
      rw [hs] at h
      simp only [Except.ok.injEq] at h
      subst h
      simp [answerable_true hs]
    | error e =>
      rw [hs] at h
      simp only at h
      cases hf : rest.find? (answerable algOf') with
      | some c' =>
        rw [hf] at h
        simp only [Except.ok.injEq] at h
        subst h
        simp [answerable_false hs, hf]
      | none => rw [hf] at h; cases h

theorem pick_of_find {algOf' : Bytes → Option Alg} {l : List Challenge} {c : Challenge}
    (h : l.find? (answerable algOf') = some c) : pick algOf' l = .ok c := by
  cases l with
  | nil => simp at h
  | cons c0 rest =>
    rw [pick_cons]
    cases hs : selectQop algOf' c0.algorithm c0.qop with
    | ok q =>
      simp only [List.find?_cons, answerable_true hs] at h
      cases h
      rfl
    | error e =>
      simp only [List.find?_cons, answerable_false hs] at h
      simp only [h]

/-- no answerable challenge: an error -/
theorem pick_none {algOf' : Bytes → Option Alg} {l : List Challenge}
    (h : l.find? (answerable algOf') = none) : ∃ e, pick algOf' l = .error e := by
  cases l with
  | nil => exact ⟨_, rfl⟩
  | cons c0 rest =>
    rw [pick_cons]
    cases hs : selectQop algOf' c0.algorithm c0.qop with
    | ok q => simp [answerable_true hs] at h
    | error e =>
      simp only [List.find?_cons, answerable_false hs] at h
      exact ⟨e, by simp only [h]⟩

end Req.DigestAuth
