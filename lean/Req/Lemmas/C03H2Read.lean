import Req.Lemmas.C03H2Inv
/-!
C03 — HTTP/2: normal form of `transportResponseBody.Read` (`Req.C02.H2Stream.read`) and the
proof that a caller read of any size preserves the stream invariant `Inv`.
-/
namespace Req.C03
open Req.Proto Req.C02

theorem h2err_beq_eof (b : H2Err) : (b == .eof) = true ↔ b = .eof := by cases b <;> decide

theorem pipe_read_cases (p : Pipe) (k : Nat) :
    (∃ b, p.breakErr = some b ∧ p.read k = some (([], some b, false), p)) ∨
    (p.breakErr = none ∧ p.hasBuf = true ∧ p.buf ≠ [] ∧
      p.read k = some ((p.buf.take k, none, false), { p with buf := p.buf.drop k })) ∨
    (p.breakErr = none ∧ ¬(p.hasBuf = true ∧ p.buf ≠ []) ∧ ∃ x, p.err = some x ∧
      p.read k = some (([], some x, p.readFn), { p with readFn := false, hasBuf := false })) ∨
    (p.breakErr = none ∧ ¬(p.hasBuf = true ∧ p.buf ≠ []) ∧ p.err = none ∧ p.read k = none) := by
  unfold Pipe.read
  cases hb : p.breakErr with
  | some b => left; exact ⟨b, rfl, rfl⟩
  | none =>
    right
    simp only []
    by_cases hc : p.hasBuf = true ∧ p.buf.length > 0
    · left
      have : p.buf ≠ [] := by intro h; simp [h] at hc
      simp [hc, this]
    · right
      have hc' : ¬(p.hasBuf = true ∧ p.buf ≠ []) := by
        intro ⟨a, b⟩; apply hc; exact ⟨a, List.length_pos_iff.mpr b⟩
      simp only [hc, if_false]
      cases he : p.err with
      | some x => left; exact ⟨trivial, hc', x, rfl, rfl⟩
      | none => right; exact ⟨trivial, hc', rfl, rfl⟩

/-- The fields a body read never changes. -/
structure RdSame (s s' : H2Stream) : Prop where
  readClosed : s'.readClosed = s.readClosed
  readAborted : s'.readAborted = s.readAborted
  connDead : s'.connDead = s.connDead
  res : s'.res = s.res
  pastHeaders : s'.pastHeaders = s.pastHeaders
  isHead : s'.isHead = s.isHead
  breakErr : s'.pipe.breakErr = s.pipe.breakErr
  errKeep : ∀ x, s.pipe.err = some x → s'.pipe.err = some x
  readErrKeep : ∀ x, s.readErr = some x → s'.readErr = some x

inductive ReadNF (s : H2Stream) (k : Nat) : Option ((Bytes × Option H2Err) × H2Stream) → Prop
  | blocked : s.readErr = none → s.pipe.breakErr = none → s.pipe.err = none →
      ¬(s.pipe.hasBuf = true ∧ s.pipe.buf ≠ []) → ReadNF s k none
  | sticky (e : H2Err) : s.readErr = some e → ReadNF s k (some (([], some e), s))
  | broken (b : H2Err) (s' : H2Stream) : s.readErr = none → s.pipe.breakErr = some b → RdSame s s' →
      s'.pipe = s.pipe → s'.readErr = none → s'.bytesRemain = s.bytesRemain →
      ReadNF s k (some (([], some b), s'))
  | brokenShort (s' : H2Stream) : s.readErr = none → s.pipe.breakErr = some .eof → RdSame s s' →
      s'.pipe = s.pipe → s'.readErr = some .unexpectedEOF →
      ReadNF s k (some (([], some .unexpectedEOF), s'))
  | data (s' : H2Stream) : s.readErr = none → s.pipe.breakErr = none → s.pipe.hasBuf = true → s.pipe.buf ≠ [] →
      RdSame s s' → s'.pipe = { s.pipe with buf := s.pipe.buf.drop k } → s'.readErr = none →
      (s.bytesRemain = none ∧ s'.bytesRemain = none ∨
        ∃ rem, s.bytesRemain = some rem ∧ (s.pipe.buf.take k).length ≤ rem ∧
          s'.bytesRemain = some (rem - (s.pipe.buf.take k).length)) →
      ReadNF s k (some ((s.pipe.buf.take k, none), s'))
  | over (rem : Nat) (s' : H2Stream) : s.readErr = none → s.pipe.breakErr = none → s.pipe.hasBuf = true →
      s.pipe.buf ≠ [] → s.bytesRemain = some rem → (s.pipe.buf.take k).length > rem →
      RdSame s s' → s'.pipe = ({ s.pipe with buf := s.pipe.buf.drop k } : Pipe).closeWithError .overDeclared false →
      s'.readErr = some .overDeclared →
      ReadNF s k (some (((s.pipe.buf.take k).take rem, some .overDeclared), s'))
  | ended (x : H2Err) (s' : H2Stream) : s.readErr = none → s.pipe.breakErr = none →
      ¬(s.pipe.hasBuf = true ∧ s.pipe.buf ≠ []) → s.pipe.err = some x →
      (x = .eof → s.bytesRemain = none ∨ s.bytesRemain = some 0) →
      RdSame s s' → s'.pipe = { s.pipe with readFn := false, hasBuf := false } → s'.readErr = none →
      s'.bytesRemain = s.bytesRemain →
      ReadNF s k (some (([], some x), s'))
  | short (rem : Nat) (s' : H2Stream) : s.readErr = none → s.pipe.breakErr = none →
      ¬(s.pipe.hasBuf = true ∧ s.pipe.buf ≠ []) → s.pipe.err = some .eof → s.bytesRemain = some rem → rem > 0 →
      RdSame s s' → s'.pipe = { s.pipe with readFn := false, hasBuf := false } →
      s'.readErr = some .unexpectedEOF →
      ReadNF s k (some (([], some .unexpectedEOF), s'))


/-- The state after the pipe read, before the length accounting. -/
def readMid (s : H2Stream) (p' : Pipe) (ranFn : Bool) : H2Stream :=
  let s := { s with pipe := p' }
  if ranFn then { s with resTrailer := s.trailer } else s

/-- The length accounting of `transportResponseBody.Read`. -/
def readTail (s : H2Stream) (d : Bytes) (e : Option H2Err) : Option ((Bytes × Option H2Err) × H2Stream) :=
  match s.bytesRemain with
  | some rem =>
    if d.length > rem then
      let e' := match e with | none => some H2Err.overDeclared | some e => some e
      let s' := if e.isNone then s.abort .overDeclared else s
      some ((d.take rem, e'), { s' with readErr := e' })
    else
      let s := { s with bytesRemain := some (rem - d.length) }
      if e == some .eof ∧ rem - d.length > 0 then
        some ((d, some .unexpectedEOF), { s with readErr := some .unexpectedEOF })
      else some ((d, e), s)
  | none => some ((d, e), s)

theorem read_eq (s : H2Stream) (k : Nat) :
    s.read k = match s.readErr with
      | some e => some (([], some e), s)
      | none =>
        match s.pipe.read k with
        | none => none
        | some ((d, e, ranFn), p') => readTail (readMid s p' ranFn) d e := by
  unfold H2Stream.read readTail readMid
  rfl

theorem readMid_same (s : H2Stream) (p' : Pipe) (fn : Bool) :
    (readMid s p' fn).pipe = p' ∧ (readMid s p' fn).readErr = s.readErr ∧
    (readMid s p' fn).bytesRemain = s.bytesRemain ∧ (readMid s p' fn).readClosed = s.readClosed ∧
    (readMid s p' fn).readAborted = s.readAborted ∧ (readMid s p' fn).connDead = s.connDead ∧
    (readMid s p' fn).res = s.res ∧ (readMid s p' fn).pastHeaders = s.pastHeaders ∧
    (readMid s p' fn).isHead = s.isHead := by
  unfold readMid; cases fn <;> simp

theorem read_nf (s : H2Stream) (k : Nat) : ReadNF s k (s.read k) := by
  rw [read_eq]
  cases hre : s.readErr with
  | some e => exact .sticky e hre
  | none =>
    simp only []
    rcases pipe_read_cases s.pipe k with ⟨b, hb, hr⟩ | ⟨hb, hhb, hne, hr⟩ | ⟨hb, hnb, x, hx, hr⟩ | ⟨hb, hnb, hx, hr⟩
    · rw [hr]; simp only []
      obtain ⟨m1, m2, m3, m4, m5, m6, m7, m8, m9⟩ := readMid_same s s.pipe false
      generalize readMid s s.pipe false = s0 at *
      have hsame : ∀ s', s'.readClosed = s0.readClosed → s'.readAborted = s0.readAborted →
          s'.connDead = s0.connDead → s'.res = s0.res → s'.pastHeaders = s0.pastHeaders →
          s'.isHead = s0.isHead → s'.pipe = s0.pipe → (∀ x, s.readErr = some x → s'.readErr = some x) → RdSame s s' := by
        intro s' a1 a2 a3 a4 a5 a6 a7 a8
        exact ⟨a1.trans m4, a2.trans m5, a3.trans m6, a4.trans m7, a5.trans m8, a6.trans m9,
          by rw [a7, m1], by intro x hx; rw [a7, m1]; exact hx, a8⟩
      unfold readTail
      cases hbr : s0.bytesRemain with
      | none =>
        simp only []
        exact .broken b s0 hre hb (hsame s0 rfl rfl rfl rfl rfl rfl rfl (by simp [hre])) m1 (m2.trans hre)
          (hbr.trans (by rw [← m3, hbr]))
      | some rem =>
        simp only [List.length_nil, Nat.not_lt_zero, if_false, Nat.sub_zero]
        split
        · rename_i hc
          have hbe : b = .eof := by simpa [h2err_beq_eof] using hc.1
          subst hbe
          exact .brokenShort _ hre hb (hsame _ rfl rfl rfl rfl rfl rfl rfl (by simp [hre])) m1 rfl
        · exact .broken b _ hre hb (hsame _ rfl rfl rfl rfl rfl rfl rfl (by simp [hre])) m1 (m2.trans hre)
            (by simp [← m3, hbr])
    · rw [hr]; simp only []
      obtain ⟨m1, m2, m3, m4, m5, m6, m7, m8, m9⟩ := readMid_same s { s.pipe with buf := s.pipe.buf.drop k } false
      generalize readMid s { s.pipe with buf := s.pipe.buf.drop k } false = s0 at *
      have hsame : ∀ s', s'.readClosed = s0.readClosed → s'.readAborted = s0.readAborted →
          s'.connDead = s0.connDead → s'.res = s0.res → s'.pastHeaders = s0.pastHeaders →
          s'.isHead = s0.isHead → s'.pipe.breakErr = s.pipe.breakErr →
          (∀ x, s.pipe.err = some x → s'.pipe.err = some x) →
          (∀ x, s.readErr = some x → s'.readErr = some x) → RdSame s s' := by
        intro s' a1 a2 a3 a4 a5 a6 a7 a8 a9
        exact ⟨a1.trans m4, a2.trans m5, a3.trans m6, a4.trans m7, a5.trans m8, a6.trans m9, a7, a8, a9⟩
      unfold readTail
      cases hbr : s0.bytesRemain with
      | none =>
        simp only []
        exact .data s0 hre hb hhb hne (hsame s0 rfl rfl rfl rfl rfl rfl (by rw [m1]) (by intro x hx; rw [m1]; exact hx)
          (by simp [hre])) m1 (m2.trans hre) (Or.inl ⟨by rw [← m3, hbr], hbr⟩)
      | some rem =>
        simp only []
        split
        · rename_i hgt
          simp only [Option.isNone_none, if_true]
          refine .over rem _ hre hb hhb hne (by rw [← m3, hbr]) hgt ?_ ?_ rfl
          · exact hsame _ (by simp) (by simp) (by simp) (by simp) (by simp) (by simp) (by simp [m1])
              (by intro x hx; simp only [abort_pipe, m1]; exact cwe_err_of_some _ _ _ x hx) (by simp [hre])
          · simp [m1]
        · rename_i hle
          have : ((none : Option H2Err) == some H2Err.eof) = false := rfl
          simp only [this, Bool.false_eq_true, false_and, if_false]
          exact .data _ hre hb hhb hne (hsame _ rfl rfl rfl rfl rfl rfl (by simp [m1]) (by intro x hx; simp [m1, hx])
            (by simp [hre])) m1 (m2.trans hre) (Or.inr ⟨rem, by rw [← m3, hbr], by omega, rfl⟩)
    · rw [hr]; simp only []
      obtain ⟨m1, m2, m3, m4, m5, m6, m7, m8, m9⟩ := readMid_same s { s.pipe with readFn := false, hasBuf := false } s.pipe.readFn
      generalize readMid s { s.pipe with readFn := false, hasBuf := false } s.pipe.readFn = s0 at *
      have hsame : ∀ s', s'.readClosed = s0.readClosed → s'.readAborted = s0.readAborted →
          s'.connDead = s0.connDead → s'.res = s0.res → s'.pastHeaders = s0.pastHeaders →
          s'.isHead = s0.isHead → s'.pipe.breakErr = s.pipe.breakErr →
          (∀ x, s.pipe.err = some x → s'.pipe.err = some x) →
          (∀ x, s.readErr = some x → s'.readErr = some x) → RdSame s s' := by
        intro s' a1 a2 a3 a4 a5 a6 a7 a8 a9
        exact ⟨a1.trans m4, a2.trans m5, a3.trans m6, a4.trans m7, a5.trans m8, a6.trans m9, a7, a8, a9⟩
      unfold readTail
      cases hbr : s0.bytesRemain with
      | none =>
        simp only []
        exact .ended x s0 hre hb hnb hx (fun _ => Or.inl (by rw [← m3, hbr]))
          (hsame s0 rfl rfl rfl rfl rfl rfl (by rw [m1]) (by intro y hy; rw [m1]; exact hy) (by simp [hre]))
          m1 (m2.trans hre) (by rw [hbr, ← m3, hbr])
      | some rem =>
        simp only [List.length_nil, Nat.not_lt_zero, if_false, Nat.sub_zero]
        split
        · rename_i hc
          have hbe : x = .eof := by simpa [h2err_beq_eof] using hc.1
          subst hbe
          exact .short rem _ hre hb hnb hx (by rw [← m3, hbr]) hc.2
            (hsame _ rfl rfl rfl rfl rfl rfl (by simp [m1]) (by intro y hy; simp [m1, hy]) (by simp [hre])) m1 rfl
        · rename_i hc
          refine .ended x _ hre hb hnb hx ?_
            (hsame _ rfl rfl rfl rfl rfl rfl (by simp [m1]) (by intro y hy; simp [m1, hy]) (by simp [hre])) m1
            (m2.trans hre) (by simp [← m3, hbr])
          intro hxe
          subst hxe
          right
          rw [← m3, hbr]
          have : ¬(rem > 0) := by intro h; exact hc ⟨by decide, h⟩
          congr; omega
    · rw [hr]; exact .blocked hre hb hx hnb

theorem RdSame.rfl' (s : H2Stream) : RdSame s s :=
  ⟨rfl, rfl, rfl, rfl, rfl, rfl, rfl, fun _ h => h, fun _ h => h⟩

theorem live_of_rdsame {s s' : H2Stream} (hs : RdSame s s') (hl : Live s') (he : s'.pipe.err = none → s.pipe.err = none) :
    Live s := by
  obtain ⟨a, b, c, d, e⟩ := hl
  exact ⟨he a, by rw [← hs.breakErr]; exact b, by rw [← hs.readAborted]; exact c,
    by rw [← hs.connDead]; exact d, by rw [← hs.readClosed]; exact e⟩

/-- A caller read preserves the invariant; `O` grows by what was handed out. -/
theorem Inv.read {s : H2Stream} {O D : Bytes} (h : Inv s O D) (k : Nat) (d : Bytes) (e : Option H2Err)
    (s' : H2Stream) (hr : s.read k = some ((d, e), s')) : Inv s' (O ++ d) D ∧ RdSame s s' := by
  have hnf := read_nf s k
  rw [hr] at hnf
  cases hnf with
  | sticky e he => simp only [List.append_nil]; exact ⟨h, RdSame.rfl' s⟩
  | broken b s' hre hb hs hp hre' hbr' =>
    simp only [List.append_nil]
    refine ⟨?_, hs⟩
    have hl : Live s' → Live s := fun hl => live_of_rdsame hs hl (by rw [hp]; exact id)
    constructor
    · rw [hp]; exact h.bufNil
    · exact h.outPfx
    · rw [hp]; intro _; exact h.allPfx hre
    · intro hlv; rw [hp]; exact h.liveEq (hl hlv)
    · simp [hre']
    · rw [hp]; exact h.noEofB
    · rw [hp, hs.readClosed]; exact h.eofClosed
    · rw [hp, hs.res]; exact h.resNone
    · rw [hs.pastHeaders, hs.res, hs.readAborted]; exact h.headSeen
    · rw [hs.pastHeaders, hs.res]; exact h.resPast
    · rw [hp, hs.res]; exact h.hasBufPiped
    · rw [hs.res, hbr']; intro r a b _; exact h.remain r a b hre
    · rw [hs.res]; exact h.bound
    · simp [hre']
    · rw [hs.readClosed, hs.res]; exact h.closedRes
    · intro hlv; rw [hs.res, hp]; exact h.liveBuf (hl hlv)
  | brokenShort s' hre hb _ _ _ => exact absurd hb h.noEofB
  | data s' hre hb hhb hne hs hp hre' hbr' =>
    refine ⟨?_, hs⟩
    have hl : Live s' → Live s := fun hl => live_of_rdsame hs hl (by rw [hp]; exact id)
    have htd : O ++ s.pipe.buf.take k ++ s'.pipe.buf = O ++ s.pipe.buf := by
      rw [hp]; simp [List.append_assoc]
    obtain ⟨r, hres, hpiped⟩ := h.hasBufPiped hhb
    have hrem := h.remain r hres hpiped hre
    constructor
    · intro hx; rw [hp] at hx; simp [hhb] at hx
    · have h1 : O ++ s.pipe.buf.take k <+: O ++ s.pipe.buf := by
        rw [← htd]; exact List.prefix_append _ _
      exact h1.trans (h.allPfx hre)
    · intro _; rw [htd]; exact h.allPfx hre
    · intro hlv; rw [htd]; exact h.liveEq (hl hlv)
    · simp [hre']
    · rw [hp]; exact h.noEofB
    · rw [hs.readClosed]; intro hx; apply h.eofClosed; rw [hp] at hx; exact hx
    · intro hx; rw [hs.res, hres] at hx; simp at hx
    · rw [hs.pastHeaders, hs.res, hs.readAborted]; exact h.headSeen
    · rw [hs.pastHeaders, hs.res]; exact h.resPast
    · intro _; rw [hs.res]; exact ⟨r, hres, hpiped⟩
    · intro r' hr' _ _
      rw [hs.res, hres] at hr'; simp at hr'; subst hr'
      rcases hbr' with ⟨h1, h2⟩ | ⟨rem, h1, h2, h3⟩
      · rw [h2]; rw [h1] at hrem
        cases hcl : r.contentLength with
        | none => rfl
        | some n => rw [hcl] at hrem; simp at hrem
      · rw [h3]; rw [h1] at hrem
        cases hcl : r.contentLength with
        | none => rw [hcl] at hrem; simp at hrem
        | some n =>
          rw [hcl] at hrem; simp at hrem
          simp only [Option.map_some, List.length_append]
          congr 1; omega
    · intro r' n hr' _ hcl
      rw [hs.res, hres] at hr'; simp at hr'; subst hr'
      have hb0 := h.bound r n hres hpiped hcl
      rw [hcl] at hrem; simp at hrem
      rcases hbr' with ⟨h1, _⟩ | ⟨rem, h1, h2, _⟩
      · rw [h1] at hrem; simp at hrem
      · rw [h1] at hrem; simp at hrem
        simp only [List.length_append]; omega
    · simp [hre']
    · rw [hs.readClosed, hs.res]; exact h.closedRes
    · intro _ _ _ _; rw [hp]; exact hhb
  | over rem s' hre hb hhb hne hbr hgt hs hp hre' =>
    refine ⟨?_, hs⟩
    obtain ⟨r, hres, hpiped⟩ := h.hasBufPiped hhb
    have hrem := h.remain r hres hpiped hre
    rw [hbr] at hrem
    have hnl : ¬Live s' := by
      intro hl; have := cwe_err_some .overDeclared ({ s.pipe with buf := s.pipe.buf.drop k } : Pipe) false
      rw [← hp, hl.1] at this; simp at this
    have hpfx : O ++ (s.pipe.buf.take k).take rem <+: D := by
      have h1 : (s.pipe.buf.take k).take rem <+: s.pipe.buf :=
        (List.take_prefix _ _).trans (List.take_prefix _ _)
      obtain ⟨t, ht⟩ := h1
      have : O ++ (s.pipe.buf.take k).take rem <+: O ++ s.pipe.buf := ⟨t, by rw [List.append_assoc, ht]⟩
      exact this.trans (h.allPfx hre)
    constructor
    · intro hx; rw [hp] at hx; simp [hhb] at hx
    · exact hpfx
    · intro hx; simp [hre'] at hx
    · intro hl; exact absurd hl hnl
    · simp [hre']
    · rw [hp]; simpa using h.noEofB
    · rw [hs.readClosed]; intro hx; apply h.eofClosed
      rw [hp, cwe_err] at hx
      split at hx
      · exact hx
      · simp at hx
    · intro hx; rw [hs.res, hres] at hx; simp at hx
    · rw [hs.pastHeaders, hs.res, hs.readAborted]; exact h.headSeen
    · rw [hs.pastHeaders, hs.res]; exact h.resPast
    · intro _; rw [hs.res]; exact ⟨r, hres, hpiped⟩
    · intro _ _ _ hx; simp [hre'] at hx
    · intro r' n hr' _ hcl
      rw [hs.res, hres] at hr'; simp at hr'; subst hr'
      have hb0 := h.bound r n hres hpiped hcl
      rw [hcl] at hrem; simp at hrem
      simp only [List.length_append, List.length_take] at hgt ⊢
      omega
    · intro _; left; rw [hp]; exact cwe_err_some _ _ _
    · rw [hs.readClosed, hs.res]; exact h.closedRes
    · intro hl; exact absurd hl hnl
  | ended x s' hre hb hnb hx hxe hs hp hre' hbr' =>
    simp only [List.append_nil]
    refine ⟨?_, hs⟩
    have hnl : ¬Live s' := by intro hl; have := hl.1; rw [hp] at this; simp [hx] at this
    have hbn : s.pipe.buf = [] := by
      cases hhb : s.pipe.hasBuf with
      | false => exact h.bufNil hhb
      | true =>
        cases hbuf : s.pipe.buf with
        | nil => rfl
        | cons a t => exact absurd ⟨hhb, by simp [hbuf]⟩ hnb
    constructor
    · intro _; rw [hp]; exact hbn
    · exact h.outPfx
    · intro _; rw [hp]; exact h.allPfx hre
    · intro hl; exact absurd hl hnl
    · simp [hre']
    · rw [hp]; exact h.noEofB
    · rw [hs.readClosed]; intro he; apply h.eofClosed; rw [hp] at he; exact he
    · intro hr'; rw [hs.res] at hr'; rw [hp]; exact ⟨rfl, (h.resNone hr').2⟩
    · rw [hs.pastHeaders, hs.res, hs.readAborted]; exact h.headSeen
    · rw [hs.pastHeaders, hs.res]; exact h.resPast
    · intro hb'; rw [hp] at hb'; simp at hb'
    · rw [hs.res, hbr']; intro r a b _; exact h.remain r a b hre
    · rw [hs.res]; exact h.bound
    · simp [hre']
    · rw [hs.readClosed, hs.res]; exact h.closedRes
    · intro hl; exact absurd hl hnl
  | short rem s' hre hb hnb hx hbr hpos hs hp hre' =>
    simp only [List.append_nil]
    refine ⟨?_, hs⟩
    have hnl : ¬Live s' := by intro hl; have := hl.1; rw [hp] at this; simp [hx] at this
    have hbn : s.pipe.buf = [] := by
      cases hhb : s.pipe.hasBuf with
      | false => exact h.bufNil hhb
      | true =>
        cases hbuf : s.pipe.buf with
        | nil => rfl
        | cons a t => exact absurd ⟨hhb, by simp [hbuf]⟩ hnb
    constructor
    · intro _; rw [hp]; exact hbn
    · exact h.outPfx
    · intro hx'; simp [hre'] at hx'
    · intro hl; exact absurd hl hnl
    · simp [hre']
    · rw [hp]; exact h.noEofB
    · rw [hs.readClosed]; intro he; apply h.eofClosed; rw [hp] at he; exact he
    · intro hr'; rw [hs.res] at hr'; rw [hp]; exact ⟨rfl, (h.resNone hr').2⟩
    · rw [hs.pastHeaders, hs.res, hs.readAborted]; exact h.headSeen
    · rw [hs.pastHeaders, hs.res]; exact h.resPast
    · intro hb'; rw [hp] at hb'; simp at hb'
    · intro _ _ _ hx'; simp [hre'] at hx'
    · rw [hs.res]; exact h.bound
    · intro _; left; rw [hp]; simp [hx]
    · rw [hs.readClosed, hs.res]; exact h.closedRes
    · intro hl; exact absurd hl hnl

end Req.C03
