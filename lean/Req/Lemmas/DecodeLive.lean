import Req.Lemmas.Decode
/-! Progress of the readers (C15 liveness): every `Read` with a non-empty buffer either reports the
end of the stream or strictly decreases a lexicographic measure. -/
set_option linter.unusedSimpArgs false
namespace Req.Decode
open Req.Proto

/-- what is left in the scripted source: bytes + segments (an empty segment is a read of 0 bytes) -/
def srcMu (s : Src) : Nat := s.body.length + s.segs.length

theorem Src.read_progress (s : Src) (L : Nat) (hL : 0 < L) :
    (s.read L).st.term = s.term ∧
    ((s.read L).term = none → srcMu (s.read L).st < srcMu s) ∧
    srcMu (s.read L).st + (s.read L).out.length ≤ srcMu s ∧
    (∀ t, (s.read L).term = some t → t = s.term) := by
  refine ⟨?_, ?_, ?_, fun t h => Src.read_term s L t h⟩
  · unfold Src.read
    cases s.segs with
    | nil => rfl
    | cons seg rest =>
      simp only []
      split
      · rfl
      · split <;> rfl
  · intro hnone
    unfold Src.read at hnone ⊢
    cases hs : s.segs with
    | nil => rw [hs] at hnone; simp at hnone
    | cons seg rest =>
      rw [hs] at hnone
      simp only [] at hnone ⊢
      have hL0 : ¬ L = 0 := by omega
      simp only [hL0, if_false] at hnone ⊢
      by_cases hd : seg.drop L = []
      · simp only [hd, if_true]
        simp [srcMu, Src.body, hs]
        omega
      · simp only [hd, if_false]
        have hlen : L < seg.length := by
          by_cases h : L < seg.length
          · exact h
          · exact absurd (List.drop_eq_nil_of_le (by omega)) hd
        simp [srcMu, Src.body, hs, List.length_drop]
        omega
  · unfold Src.read
    cases hs : s.segs with
    | nil => simp [srcMu, Src.body, hs]
    | cons seg rest =>
      simp only []
      have hL0 : ¬ L = 0 := by omega
      simp only [hL0, if_false]
      by_cases hd : seg.drop L = []
      · simp only [hd, if_true]
        simp [srcMu, Src.body, hs, List.length_take]
        omega
      · simp only [hd, if_false]
        simp [srcMu, Src.body, hs, List.length_drop, List.length_take]
        omega

variable {σ : Type}

/-- first component of the measure of a decoding reader -/
def decA (r : DecR σ) (src : Src) : Nat := r.pre.length + (if r.fin = none then 1 else 0) + srcMu src

theorem DecR.pull_progress (r : DecR σ) (src : Src) (T : Term) (hT : src.term = T) (hfin : r.fin = none) :
    (r.pull src).2.term = T ∧
    ((r.pull src).1.fin = none ∨ (r.pull src).1.fin = some T) ∧
    decA (r.pull src).1 (r.pull src).2 < decA r src := by
  have h4096 : 0 < transformBufSize := by decide
  by_cases hpre : r.pre ≠ []
  · rw [DecR.pull_pre r src hpre]
    refine ⟨hT, Or.inl hfin, ?_⟩
    have : 0 < r.pre.length := List.length_pos_iff.mpr hpre
    simp only [decA, hfin, List.length_drop, transformBufSize]
    omega
  · have hpre' : r.pre = [] := by simpa using hpre
    obtain ⟨h1, h2, h3, h4⟩ := Src.read_progress src transformBufSize h4096
    cases hterm : (src.read transformBufSize).term with
    | none =>
      rw [DecR.pull_none r src hpre' hterm]
      refine ⟨by rw [h1, hT], Or.inl hfin, ?_⟩
      have := h2 hterm
      simp only [decA, hfin, hpre']
      omega
    | some t =>
      have htT : t = T := by rw [← hT]; exact h4 t hterm
      by_cases ht : t = .eof
      · subst ht
        rw [DecR.pull_eof r src hpre' hterm]
        refine ⟨by rw [h1, hT], Or.inr (by rw [htT]), ?_⟩
        simp only [decA, hfin, hpre']
        simp
        omega
      · rw [DecR.pull_other r src hpre' t ht hterm]
        refine ⟨by rw [h1, hT], Or.inr (by rw [htT]), ?_⟩
        simp only [decA, hfin, hpre']
        simp
        omega

theorem DecR.read_progress (r : DecR σ) (src : Src) (L : Nat) (hL : 0 < L) (T : Term)
    (hT : src.term = T) (hfin : r.fin = none ∨ r.fin = some T) :
    (r.read src L).st.2.term = T ∧
    ((r.read src L).st.1.fin = none ∨ (r.read src L).st.1.fin = some T) ∧
    (∀ t, (r.read src L).term = some t → t = T) ∧
    ((r.read src L).term = none →
      decA (r.read src L).st.1 (r.read src L).st.2 < decA r src ∨
      (decA (r.read src L).st.1 (r.read src L).st.2 = decA r src ∧ (r.read src L).st.1.out.length < r.out.length)) ∧
    decA (r.read src L).st.1 (r.read src L).st.2 ≤ decA r src := by
  unfold DecR.read
  split
  · -- deliver from what is there
    rename_i hc
    unfold DecR.deliver
    simp only []
    refine ⟨hT, hfin, ?_, ?_, Nat.le_refl _⟩
    · intro t ht
      split at ht
      · rcases hfin with h | h
        · rw [h] at ht; simp at ht
        · rw [h] at ht; simpa using ht.symm
      · simp at ht
    · intro hnone
      right
      refine ⟨rfl, ?_⟩
      by_cases ho : r.out = []
      · -- nothing buffered: then `fin` is set and is reported
        have hf : r.fin ≠ none := by
          rcases hc with h | h
          · exact absurd ho h
          · exact h
        simp [ho] at hnone
        exact absurd hnone hf
      · have : 0 < r.out.length := List.length_pos_iff.mpr ho
        simp only [List.length_drop]
        omega
  · rename_i hc
    have ho : r.out = [] := by
      by_cases h : r.out = []
      · exact h
      · exact absurd (Or.inl h) hc
    have hf : r.fin = none := by
      by_cases h : r.fin = none
      · exact h
      · exact absurd (Or.inr h) hc
    obtain ⟨p1, p2, p3⟩ := DecR.pull_progress r src T hT hf
    unfold DecR.deliver
    simp only []
    refine ⟨p1, p2, ?_, ?_, Nat.le_of_lt p3⟩
    · intro t ht
      split at ht
      · rcases p2 with h | h
        · rw [h] at ht; simp at ht
        · rw [h] at ht; simpa using ht.symm
      · simp at ht
    · intro _
      left
      exact p3

/-! ### a caller that keeps reading with `L`-byte buffers reaches the end -/

theorem reads_terminate {α : Type} (rd : α → Nat → RR α) (Good : α → Prop) (A B : α → Nat) (L : Nat)
    (step : ∀ a, Good a → Good (rd a L).st ∧
      ((rd a L).term = none → A (rd a L).st < A a ∨ (A (rd a L).st = A a ∧ B (rd a L).st < B a))) :
    ∀ a, Good a → ∃ n, (reads rd a (List.replicate n L)).term ≠ none := by
  have main : ∀ k j a, Good a → A a = k → B a = j → ∃ n, (reads rd a (List.replicate n L)).term ≠ none := by
    intro k
    induction k using Nat.strongRecOn with
    | ind k ihk =>
      intro j
      induction j using Nat.strongRecOn with
      | ind j ihj =>
        intro a hg hk hj
        cases hterm : (rd a L).term with
        | some t =>
          refine ⟨1, ?_⟩
          rw [show List.replicate 1 L = [L] from rfl, reads_cons_some rd a L [] t hterm]
          simp
        | none =>
          obtain ⟨hg', hdec⟩ := step a hg
          have hex : ∃ n, (reads rd (rd a L).st (List.replicate n L)).term ≠ none := by
            rcases hdec hterm with h | ⟨h1, h2⟩
            · exact ihk _ (by omega) _ _ hg' rfl rfl
            · exact ihj _ (by omega) _ hg' (by omega) rfl
          obtain ⟨n, hn⟩ := hex
          refine ⟨n + 1, ?_⟩
          rw [List.replicate_succ, reads_cons_none rd a L _ hterm]
          exact hn
  intro a hg
  exact main _ _ a hg rfl rfl

/-- Every terminal condition a chain of `L`-byte reads reports satisfies what each single read guarantees. -/
theorem reads_term_of {α : Type} (rd : α → Nat → RR α) (Good : α → Prop) (P : Term → Prop) (L : Nat)
    (step : ∀ a, Good a → Good (rd a L).st ∧ ∀ t, (rd a L).term = some t → P t) :
    ∀ (n : Nat) (a : α), Good a → ∀ t, (reads rd a (List.replicate n L)).term = some t → P t := by
  intro n
  induction n with
  | zero => intro a _ t h; simp [reads] at h
  | succ n ih =>
    intro a hg t h
    obtain ⟨hg', hp⟩ := step a hg
    rw [List.replicate_succ] at h
    cases hterm : (rd a L).term with
    | some t' =>
      rw [reads_cons_some rd a L _ t' hterm] at h
      simp only [Option.some.injEq] at h
      subst h
      exact hp t' hterm
    | none =>
      rw [reads_cons_none rd a L _ hterm] at h
      exact ih _ hg' t h

/-! ### the response body -/

/-- the invariant: the source ends with `T`; a decoder stage has recorded nothing else; the sniffing
reader carries no left-over bytes and owns a decoder only after detection -/
def BodyGood (T : Term) : Body σ → Prop
  | .raw src => src.term = T
  | .hdr r src => src.term = T ∧ (r.fin = none ∨ r.fin = some T)
  | .auto a => a.src.term = T ∧ a.peek = none ∧
      match a.decodeReader with
      | some r => a.detected = true ∧ (r.fin = none ∨ r.fin = some T)
      | none => True

def bodyA : Body σ → Nat
  | .raw src => srcMu src
  | .hdr r src => decA r src
  | .auto a =>
    match a.decodeReader with
    | some r => decA r a.src
    | none => srcMu a.src + (if a.detected then 0 else 1)

def bodyB : Body σ → Nat
  | .raw _ => 0
  | .hdr r _ => r.out.length
  | .auto a =>
    match a.decodeReader with
    | some r => r.out.length
    | none => 0

theorem Body.read_progress (find : Bytes → Option (Decoder σ)) (T : Term) (L : Nat) (hL : 0 < L)
    (b : Body σ) (hg : BodyGood T b) :
    BodyGood T (b.read find L).st ∧
    (∀ t, (b.read find L).term = some t → t = T) ∧
    ((b.read find L).term = none →
      bodyA (b.read find L).st < bodyA b ∨ (bodyA (b.read find L).st = bodyA b ∧ bodyB (b.read find L).st < bodyB b)) := by
  cases b with
  | raw src =>
    obtain ⟨h1, h2, _, h4⟩ := Src.read_progress src L hL
    simp only [BodyGood] at hg
    refine ⟨by simp only [Body.read, BodyGood]; rw [h1, hg], ?_, ?_⟩
    · intro t ht; simp only [Body.read] at ht; rw [← hg]; exact h4 t ht
    · intro ht; simp only [Body.read] at ht; left; simp only [Body.read, bodyA]; exact h2 ht
  | hdr r src =>
    simp only [BodyGood] at hg
    obtain ⟨p1, p2, p3, p4, _⟩ := DecR.read_progress r src L hL T hg.1 hg.2
    refine ⟨by simp only [Body.read, BodyGood]; exact ⟨p1, p2⟩, ?_, ?_⟩
    · intro t ht; simp only [Body.read] at ht; exact p3 t ht
    · intro ht; simp only [Body.read] at ht ⊢; simp only [bodyA, bodyB]; exact p4 ht
  | auto a =>
    simp only [BodyGood] at hg
    obtain ⟨hsT, hpk, hdr⟩ := hg
    have hread : (Body.auto a).read find L =
        ⟨.auto (autoRead find a L).st, (autoRead find a L).out, (autoRead find a L).term⟩ := rfl
    rw [hread]
    simp only []
    cases hd : a.detected with
    | true =>
      cases hr : a.decodeReader with
      | none =>
        rw [autoRead_raw find a L hd hpk hr]
        obtain ⟨h1, h2, _, h4⟩ := Src.read_progress a.src L hL
        refine ⟨?_, ?_, ?_⟩
        · simp only [BodyGood, hr]; exact ⟨by rw [h1, hsT], hpk, trivial⟩
        · intro t ht; rw [← hsT]; exact h4 t ht
        · intro ht; left; simp only [bodyA, hr, hd]; simpa using h2 ht
      | some r =>
        rw [hr] at hdr
        rw [autoRead_dec find a L r hd hpk hr]
        obtain ⟨p1, p2, p3, p4, _⟩ := DecR.read_progress r a.src L hL T hsT hdr.2
        refine ⟨?_, ?_, ?_⟩
        · simp only [BodyGood]; exact ⟨p1, hpk, hd, p2⟩
        · intro t ht; exact p3 t ht
        · intro ht; simp only [bodyA, bodyB, hr]; exact p4 ht
    | false =>
      have hr : a.decodeReader = none := by
        cases h : a.decodeReader with
        | none => rfl
        | some r => rw [h] at hdr; rw [hd] at hdr; exact absurd hdr.1 (by simp)
      rw [autoRead_fresh find a L hd]
      obtain ⟨h1, h2, h3, h4⟩ := Src.read_progress a.src L hL
      cases hns : noSniff (a.src.read L) with
      | true =>
        rw [peekRead_noSniff find a L hns]
        refine ⟨?_, ?_, ?_⟩
        · simp only [BodyGood, hr]; exact ⟨by rw [h1, hsT], hpk, trivial⟩
        · intro t ht; rw [← hsT]; exact h4 t ht
        · intro ht; left; simp only [bodyA, hr, hd]; have := h2 ht; omega
      | false =>
        have hout : (a.src.read L).out ≠ [] := (noSniff_false hns).1
        have hpos : 0 < (a.src.read L).out.length := List.length_pos_iff.mpr hout
        cases hf : find (a.src.read L).out with
        | none =>
          rw [peekRead_none find a L hns hf]
          refine ⟨?_, ?_, ?_⟩
          · simp only [BodyGood, hr]; exact ⟨by rw [h1, hsT], hpk, trivial⟩
          · intro t ht; rw [← hsT]; exact h4 t ht
          · intro _; left; simp only [bodyA, hr, hd]; simp; omega
        | some d =>
          rw [peekRead_some find a L d hns hf]
          have hT1 : (a.src.read L).st.term = T := by rw [h1, hsT]
          obtain ⟨p1, p2, p3, _, p5⟩ :=
            DecR.read_progress (DecR.mk d d.init (a.src.read L).out [] none) (a.src.read L).st L hL T hT1 (Or.inl rfl)
          refine ⟨?_, ?_, ?_⟩
          · simp only [BodyGood]; exact ⟨p1, hpk, by first | rfl | trivial, p2⟩
          · intro t ht; exact p3 t ht
          · intro ht
            left
            simp only [bodyA, hr, hd]
            -- the new reader's measure is below (sniffed bytes + 1 + rest of the source) ≤ old measure;
            -- strictly below because the first pull consumed at least one sniffed byte
            have hpull := DecR.pull_progress (DecR.mk d d.init (a.src.read L).out [] none) (a.src.read L).st T hT1 rfl
            have hrd : ((DecR.mk d d.init (a.src.read L).out [] none).read (a.src.read L).st L).st =
                (((DecR.mk d d.init (a.src.read L).out [] none).pull (a.src.read L).st).1.deliver
                  ((DecR.mk d d.init (a.src.read L).out [] none).pull (a.src.read L).st).2 L).st := by
              unfold DecR.read
              simp
            have hdel : ∀ (r : DecR σ) (s : Src), decA (r.deliver s L).st.1 (r.deliver s L).st.2 = decA r s := by
              intro r s; rfl
            rw [hrd, hdel]
            have h0 : decA (DecR.mk d d.init (a.src.read L).out [] none) (a.src.read L).st =
                (a.src.read L).out.length + 1 + srcMu (a.src.read L).st := by simp [decA]
            have := hpull.2.2
            simp
            omega

end Req.Decode
