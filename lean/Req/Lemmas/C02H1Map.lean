import Req.H1.Response
/-! C02 — facts about Go's `http.Header` as modelled by `Req.H1.HeaderMap` (association list,
keys unique): what `add`, `del`, `set` do to lookups. Used by the whole-message round trip. -/
namespace Req.C02
open Req.Proto Req.H1

/-- The values of key `k` in a field list, in wire order. -/
def valuesOf (k : Bytes) (kvs : List (Bytes × Bytes)) : List Bytes :=
  (kvs.filter fun kv => kv.1 == k).map (·.2)

/-- `ReadMIMEHeader`'s map for a field list: `m[k] = append(m[k], v)` in wire order. -/
def hmapAdd (m : HeaderMap) (kvs : List (Bytes × Bytes)) : HeaderMap :=
  kvs.foldl (fun m kv => m.add kv.1 kv.2) m

def hmapOf (kvs : List (Bytes × Bytes)) : HeaderMap := hmapAdd [] kvs

/-- A lookup result as a value list (`nil` for an absent key). -/
def getL (m : HeaderMap) (k : Bytes) : List Bytes :=
  match m.get k with
  | some vs => vs
  | none => []

theorem beq_comm_bytes (a b : Bytes) : (a == b) = (b == a) := by
  by_cases h : a = b
  · subst h; rfl
  · have h1 : (a == b) = false := by simpa using h
    have h2 : (b == a) = false := by simpa using fun h' : b = a => h h'.symm
    rw [h1, h2]

theorem get_add (m : HeaderMap) (k v k' : Bytes) :
    (m.add k v).get k' = if k' = k then some (getL m k ++ [v]) else m.get k' := by
  induction m with
  | nil =>
    simp only [HeaderMap.add, HeaderMap.get, List.lookup, getL]
    by_cases h : k' = k
    · subst h; simp
    · have : (k' == k) = false := by simpa using h
      simp [this, h]
  | cons p ps ih =>
    rcases p with ⟨pk, pvs⟩
    simp only [HeaderMap.add]
    by_cases hpk : pk = k
    · subst hpk
      simp only [beq_self_eq_true, if_true, HeaderMap.get, List.lookup, getL]
      by_cases h : k' = pk
      · subst h; simp
      · have : (k' == pk) = false := by simpa using h
        simp [this, h]
    · have hpk' : (pk == k) = false := by simpa using hpk
      simp only [hpk', Bool.false_eq_true, if_false]
      simp only [HeaderMap.get, List.lookup] at ih ⊢
      by_cases h : k' = pk
      · subst h
        have hne : ¬ k' = k := hpk
        simp [hne]
      · have h' : (k' == pk) = false := by simpa using h
        simp only [h']
        rw [ih]
        by_cases hk : k' = k
        · subst hk
          simp only [if_true, getL, HeaderMap.get, List.lookup]
          have : (k' == pk) = false := h'
          simp [this]
        · simp [hk]

/-- An empty value list never occurs in a map built by `add`. -/
theorem getL_add (m : HeaderMap) (k v k' : Bytes) :
    getL (m.add k v) k' = if k' = k then getL m k ++ [v] else getL m k' := by
  by_cases h : k' = k
  · subst h; simp [getL, get_add]
  · simp [getL, get_add, h]

theorem valuesOf_cons_self (kv : Bytes × Bytes) (kvs : List (Bytes × Bytes)) :
    valuesOf kv.1 (kv :: kvs) = kv.2 :: valuesOf kv.1 kvs := by
  simp [valuesOf]

theorem valuesOf_cons_ne (k : Bytes) (kv : Bytes × Bytes) (kvs : List (Bytes × Bytes)) (h : ¬ kv.1 = k) :
    valuesOf k (kv :: kvs) = valuesOf k kvs := by
  have : (kv.1 == k) = false := by simpa using h
  simp [valuesOf, this]

theorem valuesOf_append (k : Bytes) (a b : List (Bytes × Bytes)) :
    valuesOf k (a ++ b) = valuesOf k a ++ valuesOf k b := by
  simp [valuesOf]

theorem getL_hmapAdd (m : HeaderMap) (kvs : List (Bytes × Bytes)) (k : Bytes) :
    getL (hmapAdd m kvs) k = getL m k ++ valuesOf k kvs := by
  induction kvs generalizing m with
  | nil => simp [hmapAdd, valuesOf]
  | cons kv kvs ih =>
    simp only [hmapAdd, List.foldl] at ih ⊢
    rw [ih, getL_add]
    by_cases h : k = kv.1
    · subst h
      simp [valuesOf]
    · have : (kv.1 == k) = false := by simpa using fun h' : kv.1 = k => h h'.symm
      simp [h, valuesOf, this]

/-- A key is present exactly when it has a value. -/
theorem get_hmapAdd_none (m : HeaderMap) (kvs : List (Bytes × Bytes)) (k : Bytes)
    (hm : m.get k = none) (hv : valuesOf k kvs = []) : (hmapAdd m kvs).get k = none := by
  induction kvs generalizing m with
  | nil => simpa [hmapAdd] using hm
  | cons kv kvs ih =>
    simp only [hmapAdd, List.foldl] at ih ⊢
    have hk : ¬ kv.1 = k := by
      intro h
      simp [valuesOf, h] at hv
    have hk' : (kv.1 == k) = false := by simpa using hk
    apply ih
    · rw [get_add]
      have : ¬ k = kv.1 := fun h => hk h.symm
      simp [this, hm]
    · simpa [valuesOf, hk'] using hv

theorem get_hmapAdd_some (m : HeaderMap) (kvs : List (Bytes × Bytes)) (k : Bytes)
    (hv : valuesOf k kvs ≠ []) : (hmapAdd m kvs).get k = some (getL m k ++ valuesOf k kvs) := by
  induction kvs generalizing m with
  | nil => simp [valuesOf] at hv
  | cons kv kvs ih =>
    simp only [hmapAdd, List.foldl] at ih ⊢
    by_cases hk : kv.1 = k
    · subst hk
      by_cases hrest : valuesOf kv.1 kvs = []
      · -- the last occurrence
        have h1 : ((HeaderMap.add m kv.1 kv.2)).get kv.1 = some (getL m kv.1 ++ [kv.2]) := by
          rw [get_add]; simp
        have hkeep : ∀ (m' : HeaderMap) vs, m'.get kv.1 = some vs →
            (hmapAdd m' kvs).get kv.1 = some vs := by
          intro m' vs hm'
          clear ih hv h1
          induction kvs generalizing m' with
          | nil => simpa [hmapAdd] using hm'
          | cons kv' kvs ih' =>
            have hk' : ¬ kv'.1 = kv.1 := by
              intro h
              simp [valuesOf, h] at hrest
            simp only [hmapAdd, List.foldl] at ih' ⊢
            apply ih'
            · have hk2 : (kv'.1 == kv.1) = false := by simpa using hk'
              simpa [valuesOf, hk2] using hrest
            · rw [get_add]
              have : ¬ kv.1 = kv'.1 := fun h => hk' h.symm
              simp [this, hm']
        have := hkeep _ _ h1
        simp only [hmapAdd] at this
        rw [this, valuesOf_cons_self, hrest]
      · rw [ih _ hrest, getL_add, valuesOf_cons_self]
        simp
    · have hk' : (kv.1 == k) = false := by simpa using hk
      have hv' : valuesOf k kvs ≠ [] := by simpa [valuesOf, hk'] using hv
      rw [ih _ hv', getL_add]
      have : ¬ k = kv.1 := fun h => hk h.symm
      simp [this, valuesOf, hk']

theorem get_hmapOf (kvs : List (Bytes × Bytes)) (k : Bytes) :
    (hmapOf kvs).get k = if valuesOf k kvs = [] then none else some (valuesOf k kvs) := by
  unfold hmapOf
  by_cases h : valuesOf k kvs = []
  · rw [if_pos h]
    exact get_hmapAdd_none [] kvs k rfl h
  · rw [if_neg h, get_hmapAdd_some [] kvs k h]
    simp [getL, HeaderMap.get]

/-! ### `del` -/

theorem get_del (m : HeaderMap) (k k' : Bytes) :
    (m.del k).get k' = if k' = k then none else m.get k' := by
  induction m with
  | nil => simp [HeaderMap.del, HeaderMap.get]
  | cons p ps ih =>
    rcases p with ⟨pk, pvs⟩
    simp only [HeaderMap.del, HeaderMap.get] at ih ⊢
    simp only [List.filter]
    by_cases hpk : pk = k
    · subst hpk
      have : (pk != pk) = false := by simp
      simp only [this]
      rw [ih]
      by_cases h : k' = pk
      · simp [h]
      · have : (k' == pk) = false := by simpa using h
        simp [h, List.lookup, this]
    · have : (pk != k) = true := by simpa using hpk
      simp only [this, List.lookup]
      by_cases h : k' = pk
      · subst h
        simp [hpk]
      · have h' : (k' == pk) = false := by simpa using h
        simp only [h']
        exact ih

theorem del_absent (m : HeaderMap) (k : Bytes) (h : m.get k = none) : m.del k = m := by
  induction m with
  | nil => rfl
  | cons p ps ih =>
    rcases p with ⟨pk, pvs⟩
    simp only [HeaderMap.get, List.lookup] at h
    by_cases hk : k = pk
    · subst hk; simp at h
    · have h' : (k == pk) = false := by simpa using hk
      simp only [h'] at h
      have : (pk != k) = true := by simpa using fun h'' : pk = k => hk h''.symm
      simp only [HeaderMap.del, List.filter, this]
      congr 1
      exact ih h

end Req.C02
