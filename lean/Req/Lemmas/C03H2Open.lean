import Req.Lemmas.C03H2Dead
/-!
C03 — HTTP/2: runs without END_STREAM (`Open`, `run_open`), runs on a dead stream (`run_dead`) and
runs after the surplus beyond the declared length has arrived (`Surplus`, `run_surplus`).
-/
namespace Req.C03
open Req.Proto Req.C02

/-- No END_STREAM so far: the read side is open and a non-HEAD response has a piped body. -/
structure Open (s : H2Stream) : Prop where
  readClosed : s.readClosed = false
  piped : s.isHead = false → ∀ r, s.res = some r → r.body = .piped

theorem Open.init : Open (H2Stream.init false) := ⟨rfl, by simp [H2Stream.init]⟩

theorem Open.ctl {s s1 : H2Stream} (h : Open s) (hc : CtlEq s s1) : Open s1 :=
  ⟨by rw [hc.readClosed]; exact h.readClosed, by rw [hc.isHead, hc.res]; exact h.piped⟩

theorem Open.abort {s : H2Stream} (h : Open s) (e : H2Err) : Open (s.abort e) :=
  ⟨by simpa using h.readClosed, by simpa using h.piped⟩

theorem Open.endStreamError {s : H2Stream} (h : Open s) (e : H2Err) : Open (s.endStreamError e) := by
  unfold H2Stream.endStreamError
  exact Open.abort (s := { s with readAborted := true }) ⟨h.readClosed, h.piped⟩ e

theorem Open.connError {s : H2Stream} (h : Open s) : Open s.connError := by
  unfold H2Stream.connError
  simp only []
  split
  · exact ⟨h.readClosed, h.piped⟩
  · exact Open.abort (s := { s with connDead := true }) ⟨h.readClosed, h.piped⟩ _

theorem Open.step {x : H2X} {O D : Bytes} (_hi : Inv x.st O D) (h : Open x.st) (e : H2XEv) (hes : e.noES = true) :
    Open (x.step e).st := by
  rw [step_st]
  cases e with
  | headers fs es =>
    simp only [H2XEv.noES, Bool.not_eq_true'] at hes
    subst hes
    simp only []
    have hnf := processHeaders_nf x.st fs false
    generalize x.st.processHeaders fs false = s' at hnf
    cases hnf with
    | ignored _ => exact h
    | rejected s1 e hc _ _ _ => exact (h.ctl hc).endStreamError e
    | connErr s1 hc _ _ _ _ => exact (h.ctl hc).connError
    | trailers s1 hc _ _ _ _ hes => simp at hes
    | interim s1 hc _ _ _ _ _ => exact h.ctl hc
    | bodiless s1 r hc _ _ _ _ _ hh _ =>
      simp only [Bool.false_eq_true, if_false]
      refine ⟨by simpa [hc.readClosed] using h.readClosed, ?_⟩
      intro hhd
      rw [show ({ s1 with res := some r } : H2Stream).isHead = x.st.isHead from hc.isHead] at hhd
      have := hh hhd; simp at this
    | piped s1 r hc _ _ _ _ hb _ _ =>
      refine ⟨by simpa [hc.readClosed] using h.readClosed, ?_⟩
      intro _ r' hr'; simp at hr'; subst hr'; exact hb
  | data p pad es =>
    simp only [H2XEv.noES, Bool.not_eq_true'] at hes
    subst hes
    simp only []
    have hnf := processData_nf x.st p pad false
    generalize x.st.processData p pad false = s' at hnf
    cases hnf with
    | ignored _ => exact h
    | rejected e _ _ => exact h.endStreamError e
    | empty _ _ _ _ => simpa using h
    | accepted _ _ _ _ _ => simp only [Bool.false_eq_true, if_false]; exact ⟨h.readClosed, h.piped⟩
  | rst c =>
    simp only []
    unfold H2Stream.processRst
    split
    · exact h
    · exact h.abort _
  | connLost => exact h.connError
  | goAway last code =>
    simp only []
    split
    · exact h
    · split
      · exact h
      · exact h.abort _

theorem Open.read {s s' : H2Stream} (h : Open s) (hs : RdSame s s') : Open s' :=
  ⟨by rw [hs.readClosed]; exact h.readClosed, by rw [hs.isHead, hs.res]; exact h.piped⟩

theorem Open.closeBody {s : H2Stream} (h : Open s) :
    Open (({ s with pipe := s.pipe.breakWithError .closedBody } : H2Stream).abort .closedBody) :=
  Open.abort (s := { s with pipe := s.pipe.breakWithError .closedBody }) ⟨h.readClosed, h.piped⟩ _

/-- No observation of a run is a clean end of the body. -/
def NoCleanEOF (obs : List (Option (Bytes × Option H2Err))) : Prop :=
  ∀ d, some (d, some H2Err.eof) ∉ obs

theorem NoCleanEOF.nil : NoCleanEOF [] := by intro d h; simp at h

theorem noEOF_cons {o : Option (Bytes × Option H2Err)} {obs : List (Option (Bytes × Option H2Err))}
    (h1 : ∀ d, o ≠ some (d, some H2Err.eof)) (h2 : NoCleanEOF obs) : NoCleanEOF (o :: obs) := by
  intro d hm
  rcases List.mem_cons.mp hm with h | h
  · exact h1 d h.symm
  · exact h2 d h

/-- While no frame carries END_STREAM, whatever else happens, no read ends cleanly. -/
theorem run_open {x : H2X} {O D : Bytes} (hi : Inv x.st O D) (ho : Open x.st) (ops : List H2XOp)
    (hes : ∀ e ∈ evsOf ops, e.noES = true) :
    NoCleanEOF (x.run ops).1 ∧ Open (x.run ops).2.st := by
  induction ops generalizing x O D with
  | nil => exact ⟨NoCleanEOF.nil, ho⟩
  | cons o ops ih =>
    cases o with
    | ev e =>
      simp only [H2X.run]
      simp only [evsOf, List.mem_cons, forall_eq_or_imp] at hes
      exact ih (hi.step e) (ho.step hi e hes.1) hes.2
    | closeBody =>
      simp only [H2X.run]
      exact ih (x := x.closeBody) hi.closeBody ho.closeBody (by simpa [evsOf] using hes)
    | read k =>
      have hes' : ∀ e ∈ evsOf ops, e.noES = true := by simpa [evsOf] using hes
      cases hr : x.st.read k with
      | none =>
        rw [run_read_none _ _ _ hr]
        obtain ⟨h1, h2⟩ := ih hi ho hes'
        exact ⟨noEOF_cons (by simp) h1, h2⟩
      | some v =>
        obtain ⟨⟨d, e⟩, st'⟩ := v
        rw [run_read_some _ _ _ _ _ hr]
        obtain ⟨hinv, hsame⟩ := hi.read k d e st' hr
        obtain ⟨h1, h2⟩ := ih (x := { x with st := st' }) hinv (ho.read hsame) hes'
        refine ⟨noEOF_cons ?_ h1, h2⟩
        intro d' hx
        simp at hx
        obtain ⟨rfl, rfl⟩ := hx
        have := (read_eof_spec hi k d st' hr).1
        have := hi.eofClosed this
        rw [ho.readClosed] at this; simp at this

/-- On a dead stream nothing that follows makes a read end cleanly. -/
theorem run_dead {x : H2X} {O D : Bytes} (hi : Inv x.st O D) (hd : Dead x.st) (ops : List H2XOp) :
    NoCleanEOF (x.run ops).1 ∧ Dead (x.run ops).2.st := by
  induction ops generalizing x O D with
  | nil => exact ⟨NoCleanEOF.nil, hd⟩
  | cons o ops ih =>
    cases o with
    | ev e => simp only [H2X.run]; exact ih (hi.step e) (hd.mono (Mono.step hi e))
    | closeBody =>
      simp only [H2X.run]
      exact ih (x := x.closeBody) hi.closeBody (hd.mono (Mono.closeBody _))
    | read k =>
      obtain ⟨d, e, s', hr, hne, _⟩ := read_dead hi hd k
      rw [run_read_some _ _ _ _ _ hr]
      obtain ⟨hinv, hsame⟩ := hi.read k d e s' hr
      obtain ⟨h1, h2⟩ := ih (x := { x with st := s' }) hinv (hd.mono (Mono.ofRd hsame))
      refine ⟨noEOF_cons ?_ h1, h2⟩
      intro d' hx; simp at hx; exact hne hx.2

/-! ### more DATA than declared -/

/-- Frames and connection events never shrink the pipe. -/
structure BufGrow (s s' : H2Stream) : Prop where
  hasBuf : s.pipe.hasBuf = true → s'.pipe.hasBuf = true
  buf : ∃ t, s'.pipe.buf = s.pipe.buf ++ t

theorem BufGrow.rfl' (s : H2Stream) : BufGrow s s := ⟨id, [], by simp⟩
theorem BufGrow.trans {a b c : H2Stream} (h1 : BufGrow a b) (h2 : BufGrow b c) : BufGrow a c := by
  obtain ⟨t1, e1⟩ := h1.buf; obtain ⟨t2, e2⟩ := h2.buf
  exact ⟨fun h => h2.hasBuf (h1.hasBuf h), t1 ++ t2, by rw [e2, e1, List.append_assoc]⟩
theorem BufGrow.ofPipe {s s' : H2Stream} (hb : s'.pipe.buf = s.pipe.buf) (hh : s'.pipe.hasBuf = s.pipe.hasBuf) :
    BufGrow s s' := ⟨by rw [hh]; exact id, [], by simp [hb]⟩
theorem BufGrow.abort (s : H2Stream) (e : H2Err) : BufGrow s (s.abort e) := BufGrow.ofPipe (by simp) (by simp)
theorem BufGrow.endStreamError (s : H2Stream) (e : H2Err) : BufGrow s (s.endStreamError e) := by
  unfold H2Stream.endStreamError; exact BufGrow.ofPipe (by simp) (by simp)
theorem BufGrow.connError (s : H2Stream) : BufGrow s s.connError := by
  unfold H2Stream.connError; simp only []; split
  · exact BufGrow.ofPipe rfl rfl
  · exact BufGrow.ofPipe (by simp) (by simp)
theorem BufGrow.endStream (s : H2Stream) : BufGrow s s.endStream := by
  unfold H2Stream.endStream; split
  · exact BufGrow.rfl' s
  · exact BufGrow.ofPipe (by simp) (by simp)

theorem BufGrow.step (x : H2X) (e : H2XEv) : BufGrow x.st (x.step e).st := by
  rw [step_st]
  cases e with
  | headers fs es =>
    simp only []
    have hnf := processHeaders_nf x.st fs es
    generalize x.st.processHeaders fs es = s' at hnf
    have hctl : ∀ s1, CtlEq x.st s1 → BufGrow x.st s1 := fun s1 hc =>
      BufGrow.ofPipe (by rw [hc.pipe]) (by rw [hc.pipe])
    cases hnf with
    | ignored _ => exact BufGrow.rfl' _
    | rejected s1 e hc _ _ _ => exact (hctl s1 hc).trans (BufGrow.endStreamError _ _)
    | connErr s1 hc _ _ _ _ => exact (hctl s1 hc).trans (BufGrow.connError _)
    | trailers s1 hc _ _ _ _ _ => exact (hctl s1 hc).trans (BufGrow.endStream _)
    | interim s1 hc _ _ _ _ _ => exact hctl _ hc
    | bodiless s1 r hc _ _ _ _ _ _ _ =>
      have h1 : BufGrow x.st ({ s1 with res := some r } : H2Stream) :=
        BufGrow.ofPipe (by simp [hc.pipe]) (by simp [hc.pipe])
      split
      · exact h1.trans (BufGrow.endStream _)
      · exact h1
    | piped s1 r hc _ _ _ _ _ _ _ =>
      refine ⟨?_, [], by simp [hc.pipe]⟩
      intro hh
      simp only [sb_hasBuf, hc.pipe]
      split <;> simp [hh]
  | data p pad es =>
    simp only []
    have hnf := processData_nf x.st p pad es
    generalize x.st.processData p pad es = s' at hnf
    have hpush : BufGrow x.st (pushData x.st p) := ⟨id, p, rfl⟩
    cases hnf with
    | ignored _ => exact BufGrow.rfl' _
    | rejected e _ _ => exact BufGrow.endStreamError _ _
    | empty _ _ _ _ => split; exact BufGrow.endStream _; exact BufGrow.rfl' _
    | accepted _ _ _ _ _ => split; exact hpush.trans (BufGrow.endStream _); exact hpush
  | rst c =>
    simp only []; unfold H2Stream.processRst; split
    · exact BufGrow.rfl' _
    · exact BufGrow.abort _ _
  | connLost => exact BufGrow.connError _
  | goAway last code =>
    simp only []
    split
    · exact BufGrow.rfl' _
    · split
      · exact BufGrow.rfl' _
      · exact BufGrow.abort _ _

/-- The pipe holds (or held) more than the declared length still allows: the surplus has arrived. -/
def Surplus (s : H2Stream) (O : Bytes) : Prop :=
  Dead s ∨ ∃ r n, s.res = some r ∧ r.body = .piped ∧ r.contentLength = some n ∧
    s.pipe.hasBuf = true ∧ O.length + s.pipe.buf.length > n

/-- Once the surplus has arrived no read ever ends cleanly, whatever follows. -/
theorem run_surplus {x : H2X} {O D : Bytes} (hi : Inv x.st O D) (hs : Surplus x.st O) (ops : List H2XOp) :
    NoCleanEOF (x.run ops).1 := by
  induction ops generalizing x O D with
  | nil => exact NoCleanEOF.nil
  | cons o ops ih =>
    rcases hs with hd | ⟨r, n, hres, hp, hcl, hhb, hgt⟩
    · exact (run_dead hi hd _).1
    have hbd := hi.bound r n hres hp hcl
    have hne : x.st.pipe.buf ≠ [] := by intro h0; rw [h0] at hgt; simp at hgt; omega
    cases o with
    | ev e =>
      simp only [H2X.run]
      refine ih (hi.step e) (Or.inr ⟨r, n, (Mono.step hi e).res r hres, hp, hcl, (BufGrow.step x e).hasBuf hhb, ?_⟩)
      obtain ⟨t, ht⟩ := (BufGrow.step x e).buf
      rw [ht, List.length_append]; omega
    | closeBody =>
      simp only [H2X.run]
      refine ih (x := x.closeBody) hi.closeBody (Or.inl ?_)
      right; left
      simp only [H2X.closeBody, abort_pipe, cwe_breakErr]
      unfold Pipe.breakWithError
      split
      · rename_i h; cases hb : x.st.pipe.breakErr with
        | none => simp [hb] at h
        | some b => exact ⟨b, rfl⟩
      · exact ⟨_, rfl⟩
    | read k =>
      have hnf := read_nf x.st k
      cases hr : x.st.read k with
      | none =>
        rw [hr] at hnf
        cases hnf with
        | blocked _ _ _ hnb => exact absurd ⟨hhb, hne⟩ hnb
      | some v =>
        obtain ⟨⟨d, e⟩, st'⟩ := v
        rw [run_read_some _ _ _ _ _ hr]
        obtain ⟨hinv, hsame⟩ := hi.read k d e st' hr
        have hnoeof : ∀ d', (some ((d, e)) : Option (Bytes × Option H2Err)) ≠ some (d', some H2Err.eof) := by
          intro d' hx; simp at hx
          obtain ⟨rfl, rfl⟩ := hx
          exact (read_eof_spec hi k d st' hr).2.2.1 ⟨hhb, hne⟩
        refine noEOF_cons hnoeof (ih (x := { x with st := st' }) hinv ?_)
        rw [hr] at hnf
        cases hnf with
        | sticky e he => exact Or.inl (Or.inl ⟨e, he⟩)
        | broken b s' _ hb hs' _ _ _ => exact Or.inl (Or.inr (Or.inl ⟨b, by rw [hs'.breakErr]; exact hb⟩))
        | brokenShort s' _ hb hs' _ _ => exact Or.inl (Or.inr (Or.inl ⟨_, by rw [hs'.breakErr]; exact hb⟩))
        | data s' _ _ _ _ hs' hp' _ _ =>
          refine Or.inr ⟨r, n, by rw [hs'.res]; exact hres, hp, hcl, by rw [hp']; exact hhb, ?_⟩
          rw [hp']; simp only [List.length_append, List.length_take, List.length_drop]; omega
        | over rem s' _ _ _ _ _ _ _ _ hre' => exact Or.inl (Or.inl ⟨_, hre'⟩)
        | ended y s' _ _ hnb _ _ _ _ _ _ => exact absurd ⟨hhb, hne⟩ hnb
        | short rem s' _ _ hnb _ _ _ _ _ _ => exact absurd ⟨hhb, hne⟩ hnb

end Req.C03
