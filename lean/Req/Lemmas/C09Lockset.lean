import Req.Pool.Lockset
/-! Helper lemmas for the lock-set theorem (C09). -/
namespace Req.Lemmas.C09Lockset
open Req.Pool.Lockset

theorem holders_take_succ (tr : List Ev) (i : Nat) (e : Ev) (h : tr[i]? = some e) :
    holders (tr.take (i + 1)) = stepH (holders (tr.take i)) e := by
  unfold holders
  rw [List.take_add_one, List.foldl_append, h]
  rfl

theorem holders_take_none (tr : List Ev) (i : Nat) (h : tr[i]? = none) :
    holders (tr.take (i + 1)) = holders (tr.take i) := by
  unfold holders
  rw [List.take_add_one, h]
  simp

/-- If `t` holds `l` at `i` and no longer holds it at `i+d`, `t` released it in between. -/
theorem release_between (tr : List Ev) (hwf : WF tr) (l : Lock) (t : Tid) (i : Nat) :
    ∀ d, holders (tr.take i) l = some t → holders (tr.take (i + d)) l ≠ some t →
      ∃ r, i ≤ r ∧ r < i + d ∧ tr[r]? = some (.rel t l) := by
  intro d
  induction d with
  | zero => intro h1 h2; exact absurd h1 h2
  | succ d ih =>
    intro h1 h2
    by_cases hk : holders (tr.take (i + d)) l = some t
    · -- the change happens at event i+d
      cases he : tr[i + d]? with
      | none =>
        have := holders_take_none tr (i + d) he
        rw [show i + (d + 1) = i + d + 1 from rfl, this] at h2
        exact absurd hk h2
      | some e =>
        have hs := holders_take_succ tr (i + d) e he
        rw [show i + (d + 1) = i + d + 1 from rfl, hs] at h2
        have hen := hwf (i + d) e he
        cases e with
        | acq t' l' =>
          simp only [stepH] at h2
          by_cases hl : l = l'
          · subst hl; simp only [Enabled] at hen; rw [hen] at hk; cases hk
          · simp [hl] at h2; exact absurd hk h2
        | rel t' l' =>
          simp only [stepH] at h2
          by_cases hl : l = l'
          · subst hl
            simp only [Enabled] at hen
            rw [hen] at hk
            cases hk
            exact ⟨i + d, Nat.le_add_right _ _, by omega, he⟩
          · simp [hl] at h2; exact absurd hk h2
        | acc _ _ _ =>
          simp only [stepH] at h2; exact absurd hk h2
    · obtain ⟨r, h3, h4, h5⟩ := ih h1 hk
      exact ⟨r, h3, by omega, h5⟩

/-- If `t₁` holds `l` at `i` and a different thread `t₂` holds it at `i+d`, then in between
`t₁` released `l` and later `t₂` acquired it. -/
theorem handoff_between (tr : List Ev) (hwf : WF tr) (l : Lock) (t₁ t₂ : Tid) (hne : t₁ ≠ t₂)
    (i : Nat) :
    ∀ d, holders (tr.take i) l = some t₁ → holders (tr.take (i + d)) l = some t₂ →
      ∃ r a, i ≤ r ∧ r < a ∧ a < i + d ∧ tr[r]? = some (.rel t₁ l) ∧ tr[a]? = some (.acq t₂ l) := by
  intro d
  induction d with
  | zero =>
    intro h1 h2
    rw [Nat.add_zero, h1] at h2
    cases h2; exact absurd rfl hne
  | succ d ih =>
    intro h1 h2
    by_cases hk : holders (tr.take (i + d)) l = some t₂
    · obtain ⟨r, a, h3, h4, h5, h6, h7⟩ := ih h1 hk
      exact ⟨r, a, h3, h4, by omega, h6, h7⟩
    · cases he : tr[i + d]? with
      | none =>
        have := holders_take_none tr (i + d) he
        rw [show i + (d + 1) = i + d + 1 from rfl, this] at h2
        exact absurd h2 hk
      | some e =>
        have hs := holders_take_succ tr (i + d) e he
        rw [show i + (d + 1) = i + d + 1 from rfl, hs] at h2
        have hen := hwf (i + d) e he
        cases e with
        | acq t' l' =>
          simp only [stepH] at h2
          by_cases hl : l = l'
          · subst hl
            simp at h2
            subst h2
            simp only [Enabled] at hen
            have hnot : holders (tr.take (i + d)) l ≠ some t₁ := by rw [hen]; simp
            obtain ⟨r, h3, h4, h5⟩ := release_between tr hwf l t₁ i d h1 hnot
            exact ⟨r, i + d, h3, h4, by omega, h5, he⟩
          · simp [hl] at h2; exact absurd h2 hk
        | rel t' l' =>
          simp only [stepH] at h2
          by_cases hl : l = l'
          · subst hl; simp at h2
          · simp [hl] at h2; exact absurd h2 hk
        | acc _ _ _ =>
          simp only [stepH] at h2; exact absurd h2 hk

end Req.Lemmas.C09Lockset
