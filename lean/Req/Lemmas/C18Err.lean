import Req.Lemmas.C18Order
/-! Helper lemmas for C18: the error contract of the pipeline. -/
namespace Req.Pipeline
open Req.Result

/-! ### no nil dereference in the repaired code -/

def StepOut.isCrash : StepOut → Bool
  | .crash => true
  | _ => false

def StepOut.resp? : StepOut → Option Resp
  | .cont r _ => r
  | .stop r _ _ => r
  | .crash => none

theorem rebind_some (s : Stack) (a : Nat) (r : Resp) : (rebind s a r).isCrash = false ∧ (rebind s a r).resp?.isSome = true := by
  unfold rebind; simp only []
  split
  · simp [StepOut.isCrash, StepOut.resp?]
  · split
    · split <;> simp [StepOut.isCrash, StepOut.resp?]
    · simp [StepOut.isCrash, StepOut.resp?]

theorem digestResend_some (fx : Fixes) (s : Stack) (a : Nat) (r : Resp) (re : TOut) :
    (digestResend fx s a r re).isCrash = false ∧ (digestResend fx s a r re).resp?.isSome = true := by
  cases re with
  | fail e => simp [digestResend, StepOut.isCrash, StepOut.resp?]
  | resp h =>
    simp only [digestResend]
    split
    · exact rebind_some _ _ _
    · simp [StepOut.isCrash, StepOut.resp?]

/-- On a non-nil response the repaired digest middleware never dereferences nil. -/
theorem digestStep_some (fx : Fixes) (hfx : fx.digestRebind = true) (s : Stack) (a : Nat) (ok : Bool) (re : TOut) (r : Resp) :
    (digestStep fx s a ok re r).isCrash = false ∧ (digestStep fx s a ok re r).resp?.isSome = true := by
  unfold digestStep
  split
  · simp [StepOut.isCrash, StepOut.resp?]
  · split
    · simp [StepOut.isCrash, StepOut.resp?]
    · split
      · simp [StepOut.isCrash, StepOut.resp?]
      · split
        · simp [StepOut.isCrash, StepOut.resp?]
        · exact digestResend_some _ _ _ _ _

theorem stageStep_some (fx : Fixes) (hfx : fx.digestRebind = true) (s : Stack) (a : Nat) (r : Resp) (act : RAct) :
    (stageStep fx s a (some r) act).isCrash = false ∧ (stageStep fx s a (some r) act).resp?.isSome = true := by
  cases act with
  | mw m => cases m <;> simp [stageStep, reqSet, StepOut.isCrash, StepOut.resp?]
  | digest ok re => simpa [stageStep] using digestStep_some fx hfx s a ok re r

theorem reqRespLoop_some (fx : Fixes) (hfx : fx.digestRebind = true) (s : Stack) (a : Nat) (acts : List RAct) :
    ∀ i r err, (reqRespLoop fx s a i acts (some r) err).crash = false ∧
               (reqRespLoop fx s a i acts (some r) err).resp.isSome = true := by
  induction acts with
  | nil => intro i r err; simp [reqRespLoop]
  | cons act rest ih =>
    intro i r err
    simp only [reqRespLoop]
    have h := stageStep_some fx hfx s a r act
    rcases hs : stageStep fx s a (some r) act with ⟨r1, evs⟩ | ⟨r1, e, evs⟩ | _
    · rw [hs] at h
      simp only [StepOut.resp?] at h
      obtain ⟨r1', rfl⟩ := Option.isSome_iff_exists.mp h.2
      exact ih _ _ _
    · rw [hs] at h
      simpa [StepOut.resp?] using h.2
    · rw [hs] at h; simp [StepOut.isCrash] at h

theorem nilGuard_some (resp : Option Resp) (err : Option Err) : ∃ r, nilGuard resp err = some r := by
  unfold nilGuard; exact ⟨_, rfl⟩

/-- An attempt of the repaired code never crashes, and unless it `return`ed from the request
phase it leaves a non-nil `resp`. -/
theorem attempt_some (fx : Fixes) (h1 : fx.nilGuard = true) (h2 : fx.digestRebind = true) (s : Stack) (a : Nat) (prev : Option Resp) :
    (attempt fx s a prev).crash = false ∧
    ((attempt fx s a prev).resp.isSome = true ∨
      ((attempt fx s a prev).returned = true ∧ (attempt fx s a prev).resp = prev)) := by
  rcases attempt_request_phase fx s a prev with ⟨k, e, _, _, _, _, h5, _, h7, h8⟩ | ⟨hok, ⟨e, _, _, h5, _, h7, h8⟩ | ⟨hb, _⟩⟩
  · exact ⟨h8, Or.inr ⟨h5, h7⟩⟩
  · exact ⟨h8, Or.inr ⟨h5, h7⟩⟩
  · rw [attempt_eq_of_ok fx s a prev hok hb]
    simp only [h1, if_true]
    obtain ⟨r, hr⟩ := nilGuard_some (runWrappers a (clientRoundTrip s a) (wrapChain (s.wrapAt a))).resp
      (runWrappers a (clientRoundTrip s a) (wrapChain (s.wrapAt a))).err
    rw [hr]
    have := reqRespLoop_some fx h2 s a (s.reqRespAt a) 0 r (runWrappers a (clientRoundTrip s a) (wrapChain (s.wrapAt a))).err
    exact ⟨this.1, Or.inl this.2⟩

theorem deferred_some (resp : Option Resp) (err : Option Err) : ∃ r, deferred resp err = some r := by
  unfold deferred; exact ⟨_, rfl⟩

/-- `do` of the repaired code never crashes and — unless the script ran out under an unbounded
retry — returns a non-nil response. -/
theorem doLoop_some (fx : Fixes) (h1 : fx.nilGuard = true) (h2 : fx.digestRebind = true) (s : Stack) :
    ∀ fuel a prev, (doLoop fx s fuel a prev).crash = false ∧
      ((doLoop fx s fuel a prev).exhausted = false → (doLoop fx s fuel a prev).resp.isSome = true) := by
  intro fuel
  induction fuel with
  | zero => intro a prev; simp [doLoop, exhaustedOut]
  | succ fuel ih =>
    intro a prev
    obtain ⟨hc, hr⟩ := attempt_some fx h1 h2 s a prev
    simp only [doLoop, hc]
    have hstop : (stopOut (attempt fx s a prev)).crash = false ∧
        ((stopOut (attempt fx s a prev)).exhausted = false → (stopOut (attempt fx s a prev)).resp.isSome = true) := by
      obtain ⟨r, hr⟩ := deferred_some (attempt fx s a prev).resp (attempt fx s a prev).err
      simp [stopOut, hr]
    simp only [Bool.false_eq_true, if_false]
    split
    · exact hstop
    · split
      · exact hstop
      · split
        · rename_i hret _ _
          rcases hr with hr | ⟨hr, _⟩
          · obtain ⟨r, hr'⟩ := Option.isSome_iff_exists.mp hr
            simp only [hr']
            split
            · simp [waitOut]
            · exact ih _ _
          · exact absurd hr hret
        · exact hstop

theorem callDo_some (fx : Fixes) (h1 : fx.nilGuard = true) (h2 : fx.digestRebind = true) (s : Stack) :
    (callDo fx s).crash = false ∧ ((callDo fx s).exhausted = false → (callDo fx s).resp.isSome = true) := by
  unfold callDo
  split
  · simp
  · split
    · simp
    · exact doLoop_some fx h1 h2 s _ _ _

/-- `Do` answers a builder error or an unreplayable body before any attempt; otherwise it runs
the attempt loop. -/
theorem callDo_cases (fx : Fixes) (s : Stack) :
    (∃ e, (e = Err.builder ∨ e = Err.unreplayable) ∧
      callDo fx s = { atts := [], resp := some { origin := .synth, err := some e }, err := some e, crash := false }) ∨
    callDo fx s = doLoop fx s s.fuelFor 0 none := by
  unfold callDo
  split
  · left; exact ⟨_, Or.inl rfl, rfl⟩
  · split
    · left; exact ⟨_, Or.inr rfl, rfl⟩
    · right; rfl

/-! ### which error is carried -/

/-- The error values that entered the pipeline according to the log. -/
def raisedOf (evs : List Ev) : List Err :=
  evs.filterMap fun | .raised e => some e | _ => none

@[simp] theorem raisedOf_nil : raisedOf [] = [] := rfl
@[simp] theorem raisedOf_append (a b : List Ev) : raisedOf (a ++ b) = raisedOf a ++ raisedOf b := by
  simp [raisedOf]
@[simp] theorem raisedOf_cons_raised (e : Err) (l : List Ev) : raisedOf (.raised e :: l) = e :: raisedOf l := by
  simp [raisedOf]
theorem raisedOf_cons_other (x : Ev) (l : List Ev) (h : x.isRaised = false) : raisedOf (x :: l) = raisedOf l := by
  cases x <;> simp_all [raisedOf, Ev.isRaised]
@[simp] theorem raisedOf_cons_udReq (i : Nat) (l : List Ev) : raisedOf (.udReq i :: l) = raisedOf l := raisedOf_cons_other _ _ rfl
@[simp] theorem raisedOf_cons_builtin (l : List Ev) : raisedOf (.builtin :: l) = raisedOf l := raisedOf_cons_other _ _ rfl
@[simp] theorem raisedOf_cons_wrap (i : Nat) (l : List Ev) : raisedOf (.wrap i :: l) = raisedOf l := raisedOf_cons_other _ _ rfl
@[simp] theorem raisedOf_cons_send (l : List Ev) : raisedOf (.send :: l) = raisedOf l := raisedOf_cons_other _ _ rfl
@[simp] theorem raisedOf_cons_resend (l : List Ev) : raisedOf (.resend :: l) = raisedOf l := raisedOf_cons_other _ _ rfl
@[simp] theorem raisedOf_cons_unm (c : Codec) (l : List Ev) : raisedOf (.unm c :: l) = raisedOf l := raisedOf_cons_other _ _ rfl
@[simp] theorem raisedOf_cons_cResp (i : Nat) (l : List Ev) : raisedOf (.cResp i :: l) = raisedOf l := raisedOf_cons_other _ _ rfl
@[simp] theorem raisedOf_cons_rResp (i : Nat) (l : List Ev) : raisedOf (.rResp i :: l) = raisedOf l := raisedOf_cons_other _ _ rfl

theorem raisedOf_udReq_map (l : List Nat) : raisedOf (l.map Ev.udReq) = [] := by
  induction l <;> simp_all

/-- `a` if it is an error, else `b`. -/
def orE (a b : Option Err) : Option Err :=
  match a with
  | some e => some e
  | none => b

@[simp] theorem orE_some (e : Err) (b : Option Err) : orE (some e) b = some e := rfl
@[simp] theorem orE_none (b : Option Err) : orE none b = b := rfl
@[simp] theorem orE_none_right (a : Option Err) : orE a none = a := by cases a <;> rfl

/-- `cur` is the error currently carried and `R` the errors raised so far: something was raised
→ an error is carried; the carried error is one of those raised. -/
def Carry (cur : Option Err) (R : List Err) : Prop :=
  (R ≠ [] → cur ≠ none) ∧ (∀ e, cur = some e → e ∈ R)

/-- One stage: it leaves the carried error alone (raising nothing, or losing against an error
already carried), or the error it raises becomes the carried one. -/
def Step (cur cur' : Option Err) (R' : List Err) : Prop :=
  (cur' = cur ∧ (R' = [] ∨ cur ≠ none)) ∨ (∃ e, cur' = some e ∧ e ∈ R')

theorem Carry.nil : Carry none [] := ⟨by simp, by simp⟩

theorem Carry.step {cur cur' : Option Err} {R R' : List Err} (h : Carry cur R) (st : Step cur cur' R') :
    Carry cur' (R ++ R') := by
  rcases st with ⟨rfl, h2⟩ | ⟨e, rfl, he⟩
  · refine ⟨?_, ?_⟩
    · intro hne
      rcases h2 with rfl | h2
      · exact h.1 (by simpa using hne)
      · exact h2
    · intro e he; exact List.mem_append_left _ (h.2 e he)
  · exact ⟨by simp, by intro e' he'; cases he'; exact List.mem_append_right _ he⟩

theorem Step.refl (cur : Option Err) : Step cur cur [] := Or.inl ⟨rfl, Or.inl rfl⟩

theorem Step.raise (cur : Option Err) (e : Err) : Step cur (some e) [e] := Or.inr ⟨e, rfl, by simp⟩

theorem Step.some_of_some {cur cur' : Option Err} {R' : List Err} (st : Step cur cur' R') (h : cur ≠ none) : cur' ≠ none := by
  rcases st with ⟨rfl, _⟩ | ⟨e, rfl, _⟩
  · exact h
  · simp

theorem Step.trans {a b c : Option Err} {R1 R2 : List Err} (s1 : Step a b R1) (s2 : Step b c R2) : Step a c (R1 ++ R2) := by
  rcases s2 with ⟨rfl, h2⟩ | ⟨e, rfl, he⟩
  · rcases s1 with ⟨rfl, h1⟩ | ⟨e, rfl, he⟩
    · left; refine ⟨rfl, ?_⟩
      rcases h1 with rfl | h1
      · rcases h2 with rfl | h2
        · left; rfl
        · right; exact h2
      · right; exact h1
    · right; exact ⟨e, rfl, List.mem_append_left _ he⟩
  · right; exact ⟨e, rfl, List.mem_append_right _ he⟩

/-! loud = the stage does not deliberately suppress an error -/

def WAct.loud : WAct → Bool
  | .swallow | .nilNil => false
  | _ => true

def RespAct.loud : RespAct → Bool
  | .clear => false
  | _ => true

def RAct.loud : RAct → Bool
  | .mw m => m.loud
  | .digest _ _ => true

/-- No stage of the stack clears `resp.Err`, swallows the inner error or answers `(nil, nil)`. -/
def Stack.Loud (s : Stack) : Prop :=
  (∀ l ∈ s.wrappers, ∀ w ∈ l, w.loud = true) ∧
  (∀ l ∈ s.clientResp, ∀ m ∈ l, m.loud = true) ∧
  (∀ l ∈ s.reqResp, ∀ m ∈ l, m.loud = true)

theorem getD_mem_or {α} (l : List α) (a : Nat) (d : α) : l.getD a d ∈ l ∨ l.getD a d = d := by
  by_cases h : a < l.length
  · left; simp [List.getD, h]
  · right; simp [List.getD, List.getElem?_eq_none (by omega : l.length ≤ a)]

theorem Stack.Loud.wrapAt {s : Stack} (h : s.Loud) (a : Nat) : ∀ w ∈ s.wrapAt a, w.loud = true := by
  intro w hw
  simp only [Stack.wrapAt, List.mem_map] at hw
  obtain ⟨l, hl, rfl⟩ := hw
  rcases getD_mem_or l a .pass with hm | hd
  · exact h.1 l hl _ hm
  · rw [hd]; rfl

theorem Stack.Loud.clientAt {s : Stack} (h : s.Loud) (a : Nat) : ∀ m ∈ s.clientAt a, m.loud = true := by
  intro w hw
  simp only [Stack.clientAt, List.mem_map] at hw
  obtain ⟨l, hl, rfl⟩ := hw
  rcases getD_mem_or l a .nop with hm | hd
  · exact h.2.1 l hl _ hm
  · rw [hd]; rfl

theorem Stack.Loud.reqRespAt {s : Stack} (h : s.Loud) (a : Nat) : ∀ m ∈ s.reqRespAt a, m.loud = true := by
  intro w hw
  simp only [Stack.reqRespAt, List.mem_map] at hw
  obtain ⟨l, hl, rfl⟩ := hw
  rcases getD_mem_or l a (.mw .nop) with hm | hd
  · exact h.2.2 l hl _ hm
  · rw [hd]; rfl

theorem exchange_carry (s : Stack) (a : Nat) : Carry (exchange s a).1.err (raisedOf (exchange s a).2) := by
  unfold exchange
  split
  · exact ⟨by simp, by simp⟩
  · exact ⟨by simp, by simp⟩

theorem autoRead_step (s : Stack) (r : Resp) : Step r.err (autoRead s r).1.err (raisedOf (autoRead s r).2) := by
  unfold autoRead
  split
  · split
    · split
      · exact Step.refl _
      · exact Step.raise _ _
    · exact Step.refl _
  · exact Step.refl _

/-- What `parseResponseBody` does to the recorded error. -/
theorem download_step (s : Stack) (a : Nat) (r : Resp) :
    Step r.err (download s a r).1.err (raisedOf (download s a r).2) := by
  unfold download
  split
  · exact Step.refl _
  · split
    · exact Step.refl _
    · split
      · exact Step.raise _ _
      · exact Step.refl _

/-- An error returned on top of what is recorded: the recorded one wins, else the new one is seen. -/
theorem Step.orE_raise (cur : Option Err) (e : Err) : Step cur (orE cur (some e)) [e] := by
  cases cur with
  | none => exact Step.raise _ _
  | some x => exact Or.inl ⟨rfl, Or.inr (by simp)⟩

theorem parseBody_err (i : BindIn) :
    (∀ e, i.respErr = some e → ((parseBody i).err = none ∨ (parseBody i).err = some e) ∧ (parseBody i).respErr = some e) ∧
    (i.respErr = none →
      ((parseBody i).err = none ∧ (parseBody i).respErr = none) ∨
      (∃ e, (parseBody i).err = some e ∧ (parseBody i).respErr = some e) ∨
      ((parseBody i).err = some .unmarshal ∧ (parseBody i).respErr = none)) := by
  obtain ⟨http, sT, eT, cE, respErr, cached, slots⟩ := i
  rcases http with _ | h
  · simp [parseBody]
  · rcases hsel : selectTarget ⟨some h, sT, eT, cE, respErr, cached, slots⟩ with _ | t
    · simp [parseBody, hsel]
    · have hb : h.bodyOK = false → ∃ e, h.acqErr = some e := by
        intro hb; unfold Http.bodyOK at hb
        cases ha : h.acqErr with
        | none => simp [ha] at hb
        | some e => exact ⟨e, rfl⟩
      rcases respErr with _ | e <;> cases cached <;> cases hr : h.bodyOK <;> cases hc : codecOK h <;>
        simp [parseBody, hsel, hr, hc] <;> (obtain ⟨e, he⟩ := hb hr; simp [he])

/-- The error recorded after the first (built-in) element of the client loop. -/
def parsedErr (p : Parsed) : Option Err :=
  match p.ret with
  | some e => some e
  | none => p.resp.err

theorem raisedOf_unmEv (c : Option Codec) : raisedOf (unmEv c) = [] := by
  cases c <;> simp [unmEv]

theorem parseResp_step (s : Stack) (r : Resp) :
    Step r.err (parsedErr (parseResp s r)) (raisedOf (parseResp s r).evs) := by
  have h := parseBody_err (bindIn s r)
  unfold parseResp parsedErr
  simp only [raisedOf_append, raisedOf_unmEv, List.nil_append]
  have hb : (bindIn s r).respErr = r.err := rfl
  rw [hb] at h
  rcases hre : r.err with _ | e0
  · rcases h.2 hre with ⟨h1, h2⟩ | ⟨e, h1, h2⟩ | ⟨h1, h2⟩
    · simp only [h1, h2, newErrEv]; exact Step.refl _
    · simp only [h1, newErrEv]; exact Step.raise _ _
    · simp only [h1, newErrEv]; exact Step.raise _ _
  · obtain ⟨h1, h2⟩ := h.1 e0 hre
    rcases h1 with h1 | h1
    · simp only [h1, h2, newErrEv]; exact Step.refl _
    · simp only [h1, newErrEv]; exact Step.refl _

theorem clientAct_step (r : Resp) (act : RespAct) (hl : act.loud = true) :
    Step r.err (clientAct r act).1.err (raisedOf (clientAct r act).2) := by
  cases act with
  | nop => exact Step.refl _
  | ret e => exact Step.raise _ _
  | set e => exact Step.raise _ _
  | clear => cases hl

theorem clientLoop_step (acts : List RespAct) (hl : ∀ m ∈ acts, m.loud = true) :
    ∀ i r, Step r.err (clientLoop i acts r).1.err (raisedOf (clientLoop i acts r).2) := by
  induction acts with
  | nil => intro i r; exact Step.refl _
  | cons act rest ih =>
    intro i r
    simp only [clientLoop, raisedOf_cons_cResp, raisedOf_append]
    exact (clientAct_step r act (hl act (by simp))).trans (ih (fun m hm => hl m (by simp [hm])) _ _)

/-- `Client.roundTrip` always returns a non-nil response whose `Err` equals the returned
error, and (no clearing middleware) that error is one that was raised; if anything was raised
an error is returned. -/
theorem clientRoundTrip_carry (s : Stack) (a : Nat) (hl : ∀ m ∈ s.clientAt a, m.loud = true) :
    ∃ r, (clientRoundTrip s a).resp = some r ∧ (clientRoundTrip s a).err = r.err ∧
      Carry r.err (raisedOf (clientRoundTrip s a).evs) := by
  unfold clientRoundTrip
  split
  · exact ⟨_, rfl, rfl, by simp, by simp⟩
  · refine ⟨_, rfl, rfl, ?_⟩
    simp only [raisedOf_cons_send, raisedOf_append]
    have c0 := exchange_carry s a
    have s1 := autoRead_step s (exchange s a).1
    have s2 := parseResp_step s (autoRead s (exchange s a).1).1
    have c2 := (c0.step s1).step s2
    have heq : parsedErr (parseResp s (autoRead s (exchange s a).1).1) =
        (match (parseResp s (autoRead s (exchange s a).1).1).ret with
          | some e => ({ (parseResp s (autoRead s (exchange s a).1).1).resp with err := some e } : Resp)
          | none => (parseResp s (autoRead s (exchange s a).1).1).resp).err := by
      unfold parsedErr; split <;> simp_all
    rw [heq] at c2
    exact (c2.step (download_step s a _)).step (clientLoop_step _ hl 0 _)

/-- The error a `(resp, err)` pair carries: the one recorded in the response if any, else `err`. -/
def RT.carried (rt : RT) : Option Err := orE (rt.resp.bind (·.err)) rt.err

theorem runWrappers_carry (a : Nat) (core : RT) (hc : Carry core.carried (raisedOf core.evs))
    (ws : List (Nat × WAct)) (hl : ∀ w ∈ ws, w.2.loud = true) :
    Carry (runWrappers a core ws).carried (raisedOf (runWrappers a core ws).evs) := by
  induction ws with
  | nil => exact hc
  | cons w rest ih =>
    obtain ⟨i, act⟩ := w
    have ih := ih (fun w hw => hl w (by simp [hw]))
    have hact : act.loud = true := hl (i, act) (by simp)
    cases act with
    | pass => simpa [runWrappers, RT.carried] using ih
    | shortNil e => simp only [runWrappers, RT.carried]; exact ⟨by simp, by simp⟩
    | shortFresh e => simp only [runWrappers, RT.carried]; exact ⟨by simp, by simp⟩
    | nilNil => cases hact
    | swallow => cases hact
    | postErr e =>
      simp only [runWrappers, RT.carried, raisedOf_cons_wrap, raisedOf_append]
      apply ih.step
      unfold RT.carried
      rcases h : (runWrappers a core rest).resp.bind (·.err) with _ | e0
      · simp only [orE_none]
        exact Or.inr ⟨e, rfl, by simp⟩
      · simp only [orE_some]
        exact Or.inl ⟨rfl, Or.inr (by simp)⟩
    | postNil e =>
      simp only [runWrappers, RT.carried, raisedOf_cons_wrap, raisedOf_append]
      apply ih.step
      exact Or.inr ⟨e, by simp, by simp⟩
    | postSet e =>
      simp only [runWrappers, RT.carried, raisedOf_cons_wrap, raisedOf_append]
      apply ih.step
      refine Or.inr ⟨e, ?_, by simp⟩
      cases (runWrappers a core rest).resp <;> simp

theorem wrapChain_loud (acts : List WAct) (hl : ∀ w ∈ acts, w.loud = true) :
    ∀ w ∈ wrapChain acts, w.2.loud = true := by
  intro w hw
  unfold wrapChain at hw
  rw [List.mem_reverse] at hw
  exact hl _ (List.of_mem_zip hw).2

/-- The repaired nil guard: a non-nil response that records the carried error. -/
theorem nilGuard_carried (rt : RT) : ∃ r, nilGuard rt.resp rt.err = some r ∧ r.err = rt.carried := by
  unfold nilGuard RT.carried
  refine ⟨_, rfl, ?_⟩
  rcases rt.resp with _ | r
  · cases rt.err <;> simp
  · cases hre : r.err <;> cases hrt : rt.err <;> simp [hre]

/-- The error the caller would see if `do` returned right after this middleware. -/
def StepOut.seen : StepOut → Option Err
  | .cont r _ => r.bind (·.err)
  | .stop r e _ => orE (r.bind (·.err)) (some e)
  | .crash => none

theorem parseBody_ret_respErr (i : BindIn) (e : Err) (h : (parseBody i).err = some e) :
    orE (parseBody i).respErr (some e) = some e := by
  have hh := parseBody_err i
  rcases hre : i.respErr with _ | e0
  · rcases hh.2 hre with ⟨h1, _⟩ | ⟨e1, h1, h2⟩ | ⟨h1, h2⟩
    · rw [h1] at h; cases h
    · rw [h1] at h; cases h; simp [h2]
    · rw [h1] at h; cases h; simp [h2]
  · obtain ⟨h1, h2⟩ := hh.1 e0 hre
    rcases h1 with h1 | h1
    · rw [h1] at h; cases h
    · rw [h1] at h; cases h; simp [h2]

theorem rebind_step (s : Stack) (a : Nat) (r : Resp) : Step r.err (rebind s a r).seen (raisedOf (rebind s a r).evs) := by
  have s1 := autoRead_step s r
  have s2 := parseResp_step s (autoRead s r).1
  have st := s1.trans s2
  unfold rebind
  simp only []
  split
  · rename_i e he
    simp only [StepOut.seen, StepOut.evs, raisedOf_cons_resend, raisedOf_append, Option.bind_some]
    have : orE (parseResp s (autoRead s r).1).resp.err (some e) = parsedErr (parseResp s (autoRead s r).1) := by
      unfold parsedErr; rw [he]
      exact parseBody_ret_respErr _ e he
    rw [this]; exact st
  · rename_i he
    have hpe : (parseResp s (autoRead s r).1).resp.err = parsedErr (parseResp s (autoRead s r).1) := by
      unfold parsedErr; rw [he]
    split
    · split
      · rename_i e hse
        simp only [StepOut.seen, StepOut.evs, raisedOf_cons_resend, raisedOf_append, Option.bind_some,
          raisedOf_cons_raised, raisedOf_nil]
        rw [hpe]
        have := st.trans (Step.orE_raise (parsedErr (parseResp s (autoRead s r).1)) e)
        simpa [List.append_assoc] using this
      · simp only [StepOut.seen, StepOut.evs, raisedOf_cons_resend, raisedOf_append, Option.bind_some]
        rw [hpe]; exact st
    · simp only [StepOut.seen, StepOut.evs, raisedOf_cons_resend, raisedOf_append, Option.bind_some]
      rw [hpe]; exact st

theorem digestResend_step (fx : Fixes) (hfx : fx.digestRebind = true) (s : Stack) (a : Nat) (r : Resp) (re : TOut)
    (hr : r.err = none) :
    Step r.err (digestResend fx s a r re).seen (raisedOf (digestResend fx s a r re).evs) := by
  cases re with
  | fail e =>
    simp only [digestResend, StepOut.seen, StepOut.evs, Option.bind_some, hr, orE_none, raisedOf_cons_resend, raisedOf_cons_raised, raisedOf_nil]
    exact Step.raise _ _
  | resp h =>
    simp only [digestResend, hfx, if_true]
    have := rebind_step s a { r with http := some h, tag := 2 * a + 1 }
    exact this

theorem forget_err (fx : Fixes) (r : Resp) : (forget fx r).err = r.err := by
  unfold forget; split <;> rfl

theorem digestStep_step (fx : Fixes) (hfx : fx.digestRebind = true) (s : Stack) (a : Nat) (ok : Bool) (re : TOut) (r : Resp) :
    Step r.err (digestStep fx s a ok re r).seen (raisedOf (digestStep fx s a ok re r).evs) := by
  unfold digestStep
  split
  · exact Step.refl _
  · rename_i hne
    have hr : r.err = none := by simpa using hne
    split
    · first | exact Step.refl _ | (simp only [hfx, if_true]; exact Step.refl _)
    · split
      · exact Step.refl _
      · split
        · simp only [StepOut.seen, StepOut.evs, Option.bind_some, hr, orE_none, raisedOf_cons_raised, raisedOf_nil]
          exact Step.raise _ _
        · have := digestResend_step fx hfx s a (forget fx r) re (by rw [forget_err]; exact hr)
          rw [forget_err] at this
          exact this

theorem stageStep_step (fx : Fixes) (hfx : fx.digestRebind = true) (s : Stack) (a : Nat) (r : Resp) (act : RAct)
    (hl : act.loud = true) :
    Step r.err (stageStep fx s a (some r) act).seen (raisedOf (stageStep fx s a (some r) act).evs) := by
  cases act with
  | mw m =>
    cases m with
    | nop => exact Step.refl _
    | ret e =>
      simp only [stageStep, StepOut.seen, StepOut.evs, Option.bind_some, raisedOf_cons_raised, raisedOf_nil]
      rcases hre : r.err with _ | e0
      · exact Step.raise _ _
      · exact Or.inl ⟨rfl, Or.inr (by simp)⟩
    | set e => exact Step.raise _ _
    | clear => cases hl
  | digest ok re => simpa [stageStep] using digestStep_step fx hfx s a ok re r

/-- What the caller would see if `do` returned with this attempt state: `do`'s deferred function. -/
def Att.seen (t : Att) : Option Err := orE (t.resp.bind (·.err)) t.err

theorem reqRespLoop_step (fx : Fixes) (h1 : fx.keepErr = true) (h2 : fx.digestRebind = true) (s : Stack) (a : Nat)
    (acts : List RAct) (hl : ∀ m ∈ acts, m.loud = true) :
    ∀ i r err, (err ≠ none → r.err ≠ none) →
      Step r.err (reqRespLoop fx s a i acts (some r) err).seen (raisedOf (reqRespLoop fx s a i acts (some r) err).evs) := by
  induction acts with
  | nil =>
    intro i r err hinv
    simp only [reqRespLoop, Att.seen, Option.bind_some, raisedOf_nil]
    rcases hre : r.err with _ | e0
    · have : err = none := by
        cases err with
        | none => rfl
        | some e => exact absurd hre (hinv (by simp))
      simp only [this, orE_none]; exact Step.refl _
    · simp only [orE_some]; exact Step.refl _
  | cons act rest ih =>
    intro i r err hinv
    have hst := stageStep_step fx h2 s a r act (hl act (by simp))
    have hsome := stageStep_some fx h2 s a r act
    simp only [reqRespLoop]
    rcases hs : stageStep fx s a (some r) act with ⟨r1, evs⟩ | ⟨r1, e, evs⟩ | _
    · rw [hs] at hst hsome
      simp only [StepOut.resp?] at hsome
      obtain ⟨r1', rfl⟩ := Option.isSome_iff_exists.mp hsome.2
      simp only [StepOut.seen, StepOut.evs, Option.bind_some] at hst
      simp only [h1, if_true, raisedOf_cons_rResp, raisedOf_append]
      have := ih (fun m hm => hl m (by simp [hm])) (i + 1) r1' err (fun hne => hst.some_of_some (hinv hne))
      exact hst.trans this
    · rw [hs] at hst
      simp only [StepOut.seen, StepOut.evs] at hst
      simpa [Att.seen] using hst
    · rw [hs] at hsome; simp [StepOut.isCrash] at hsome

/-- One attempt of the repaired code, no suppressing stage: if any stage raised an error the
attempt carries one; the carried error was raised in this attempt — or, when a request
middleware failed, may be the error already recorded in the response `do` held. -/
theorem attempt_seen (s : Stack) (hl : s.Loud) (a : Nat) (prev : Option Resp) :
    (raisedOf (attempt Fixes.all s a prev).evs ≠ [] → (attempt Fixes.all s a prev).seen ≠ none) ∧
    (∀ e, (attempt Fixes.all s a prev).seen = some e →
      e ∈ raisedOf (attempt Fixes.all s a prev).evs ∨ prev.bind (·.err) = some e) := by
  have reqfail : ∀ (t : Att) (k : Nat) (e : Err), t.evs = (List.range k).map .udReq ++ [.raised e] → t.err = some e → t.resp = prev →
      (raisedOf t.evs ≠ [] → t.seen ≠ none) ∧ (∀ e', t.seen = some e' → e' ∈ raisedOf t.evs ∨ prev.bind (·.err) = some e') := by
    intro t k e h1 h2 h3
    simp only [Att.seen, h1, h2, h3, raisedOf_append, raisedOf_udReq_map, raisedOf_cons_raised, raisedOf_nil, List.nil_append]
    rcases prev.bind (·.err) with _ | e0
    · simp
    · simp
  rcases attempt_request_phase Fixes.all s a prev with ⟨k, e, _, _, _, h4, _, h6, h7, _⟩ | ⟨hok, ⟨e, _, h4, _, h6, h7, _⟩ | ⟨hb, _⟩⟩
  · exact reqfail _ _ e h4 h6 h7
  · exact reqfail _ _ e h4 h6 h7
  · rw [attempt_eq_of_ok Fixes.all s a prev hok hb]
    simp only [Fixes.all, if_true]
    obtain ⟨r0, hr0, herr0, hc0⟩ := clientRoundTrip_carry s a (hl.clientAt a)
    have hcore : Carry (clientRoundTrip s a).carried (raisedOf (clientRoundTrip s a).evs) := by
      have : (clientRoundTrip s a).carried = r0.err := by
        unfold RT.carried; rw [hr0, herr0]; cases hre : r0.err <;> simp [hre]
      rw [this]; exact hc0
    have hw := runWrappers_carry a _ hcore (wrapChain (s.wrapAt a)) (wrapChain_loud _ (hl.wrapAt a))
    obtain ⟨r, hr, hrerr⟩ := nilGuard_carried (runWrappers a (clientRoundTrip s a) (wrapChain (s.wrapAt a)))
    rw [hr]
    have hinv : (runWrappers a (clientRoundTrip s a) (wrapChain (s.wrapAt a))).err ≠ none → r.err ≠ none := by
      rw [hrerr]; unfold RT.carried
      intro hne
      cases h : (runWrappers a (clientRoundTrip s a) (wrapChain (s.wrapAt a))).resp.bind (·.err) with
      | none => simpa using hne
      | some e => simp
    have hloop := reqRespLoop_step ⟨true, true, true⟩ rfl rfl s a (s.reqRespAt a) (hl.reqRespAt a) 0 r _ hinv
    rw [← hrerr] at hw
    have hfin := hw.step hloop
    simp only [Att.seen] at hfin ⊢
    simp only [raisedOf_append, raisedOf_udReq_map, raisedOf_cons_builtin, List.nil_append]
    exact ⟨hfin.1, fun e he => Or.inl (hfin.2 e he)⟩

theorem deferred_err (resp : Option Resp) (err : Option Err) :
    ∃ r, deferred resp err = some r ∧ r.err = orE (resp.bind (·.err)) err := by
  unfold deferred
  refine ⟨_, rfl, ?_⟩
  rcases resp with _ | r
  · cases err <;> simp
  · cases hre : r.err <;> cases err <;> simp [hre]

/-- All errors raised during the listed attempts. -/
def allRaised (atts : List Att) : List Err := atts.flatMap fun t => raisedOf t.evs

theorem stopOut_seen (t : Att) : ∃ r, (stopOut t).resp = some r ∧ r.err = t.seen ∧ (stopOut t).atts = [t] := by
  obtain ⟨r, h1, h2⟩ := deferred_err t.resp t.err
  exact ⟨r, by simp [stopOut, h1], h2, rfl⟩

/-- `do` of the repaired code, no suppressing stage: the response it returns records an error
whenever a stage of the LAST attempt raised one, and the recorded error is one that a stage
raised during the call (or was already recorded in the response handed in, or is the context's
error assigned by the wait before a retry). -/
theorem doLoop_seen (s : Stack) (hl : s.Loud) (hrh : ∀ a, s.retryHookAt a = .nop) :
    ∀ fuel a prev, (doLoop Fixes.all s fuel a prev).exhausted = false →
      ∃ r tl, (doLoop Fixes.all s fuel a prev).resp = some r ∧
      (doLoop Fixes.all s fuel a prev).atts.getLast? = some tl ∧
      (raisedOf tl.evs ≠ [] → r.err ≠ none) ∧
      (∀ e, r.err = some e → e ∈ allRaised (doLoop Fixes.all s fuel a prev).atts ∨ prev.bind (·.err) = some e ∨ e = .ctxDone) := by
  intro fuel
  have stop : ∀ a prev, ∃ r tl, (stopOut (attempt Fixes.all s a prev)).resp = some r ∧
      (stopOut (attempt Fixes.all s a prev)).atts.getLast? = some tl ∧
      (raisedOf tl.evs ≠ [] → r.err ≠ none) ∧
      (∀ e, r.err = some e → e ∈ allRaised (stopOut (attempt Fixes.all s a prev)).atts ∨ prev.bind (·.err) = some e ∨ e = .ctxDone) := by
    intro a prev
    obtain ⟨r, h1, h2, h3⟩ := stopOut_seen (attempt Fixes.all s a prev)
    obtain ⟨c1, c2⟩ := attempt_seen s hl a prev
    refine ⟨r, _, h1, by rw [h3]; rfl, by rw [h2]; exact c1, ?_⟩
    intro e he
    rw [h2] at he
    rw [h3]
    rcases c2 e he with h | h
    · left; simpa [allRaised] using h
    · right; left; exact h
  induction fuel with
  | zero => intro a prev h; simp [doLoop, exhaustedOut] at h
  | succ fuel ih =>
    intro a prev hex
    obtain ⟨hc, hr⟩ := attempt_some Fixes.all rfl rfl s a prev
    simp only [doLoop, hc, Bool.false_eq_true, if_false] at hex ⊢
    split
    · exact stop a prev
    · split
      · exact stop a prev
      · split
        · rename_i hret hcr hnr
          rcases hr with hr | ⟨hr, _⟩
          · obtain ⟨r0, hr0⟩ := Option.isSome_iff_exists.mp hr
            simp only [hr0, hrh a, applyHook] at hex ⊢
            split
            · exact ⟨_, _, rfl, rfl, by simp, by intro e he; simp at he; right; right; exact he.symm⟩
            · rename_i hctx
              simp only [hret, hcr, hnr, hctx, Bool.false_eq_true, if_false, if_true] at hex
              obtain ⟨r, tl, i1, i2, i3, i4⟩ := ih (a + 1) (some (cleanup r0)) hex
              obtain ⟨_, c2⟩ := attempt_seen s hl a prev
              refine ⟨r, tl, i1, ?_, i3, ?_⟩
              · have hne := doLoop_atts_pos Fixes.all s fuel (a + 1) (some (cleanup r0)) hex
                cases hl' : (doLoop Fixes.all s fuel (a + 1) (some (cleanup r0))).atts with
                | nil => rw [hl'] at hne; simp at hne
                | cons x xs => rw [hl'] at i2; simpa [List.getLast?_cons_cons] using i2
              · intro e he
                rcases i4 e he with h | h | h
                · left; simp only [allRaised, List.flatMap_cons, List.mem_append]; right; exact h
                · have hs : (attempt Fixes.all s a prev).seen = some e := by
                    simp only [Option.bind_some, cleanup] at h
                    simp [Att.seen, hr0, h]
                  rcases c2 e hs with h' | h'
                  · left; simp only [allRaised, List.flatMap_cons, List.mem_append]; left; exact h'
                  · right; left; exact h'
                · right; right; exact h
          · exact absurd hr hret
        · exact stop a prev

end Req.Pipeline
