import Req.H1.BodyWrite
import Req.Lemmas.C01Body
/-! Lemmas about `Req.H1.BodyWrite` (C01, HTTP/1.1 request-body writer over reader scripts). -/
namespace Req.Lemmas.C01BodyH1
open Req.Proto Req.H1 Req.H1.BodyWrite Req.Lemmas.C01Body
open Req.H2.BodyWrite (Reader RErr Ending)

/-- the budget of a `LimitedReader` is respected -/
def Within (limit : Option Nat) (len : Nat) : Prop := ∀ n, limit = some n → len ≤ n

/-- what `io.CopyBuffer` (over the body or over `io.LimitReader(body, n)`) does for ANY reader:
the writes and what is left in the reader make up the reader's bytes, the budget is respected, no
write is empty, `io.EOF` means the reader is exhausted or the budget used up. -/
theorem ioCopy_spec (buf : Nat) :
    ∀ (fuel : Nat) (limit : Option Nat) (r : Reader),
      (ioCopy buf fuel limit r).1.flatten ++ (ioCopy buf fuel limit r).2.2.data = r.data ∧
      Within limit (ioCopy buf fuel limit r).1.flatten.length ∧
      (∀ w ∈ (ioCopy buf fuel limit r).1, w ≠ []) ∧
      (ioCopy buf fuel limit r).2.2.ending = r.ending ∧
      ((ioCopy buf fuel limit r).2.1 = .eof →
        (ioCopy buf fuel limit r).2.2.data = [] ∨ limit = some (ioCopy buf fuel limit r).1.flatten.length) := by
  intro fuel
  induction fuel with
  | zero =>
    intro limit r
    refine ⟨by simp [ioCopy], ?_, by simp [ioCopy], by simp [ioCopy], by simp [ioCopy]⟩
    intro n _; simp [ioCopy]
  | succ fuel ih =>
    intro limit r
    simp only [ioCopy]
    by_cases h0 : limit = some 0
    · simp only [h0, if_true]
      refine ⟨by simp, ?_, by simp, trivial, by simp⟩
      intro n _; simp
    · simp only [h0, if_false]
      generalize hcap : capOf buf limit = cap
      have hcapLim : ∀ n, limit = some n → cap ≤ n := by
        intro n hn; subst hn; simp only [capOf] at hcap; omega
      have hd := read_data r cap
      have heof := read_eof r cap
      have hlen := read_len r cap
      have hend := read_ending r cap
      generalize hr : r.read cap = x at *
      obtain ⟨chunk, e, r1⟩ := x
      simp only at hd heof hlen hend ⊢
      have hws : (if chunk.isEmpty = true then ([] : List Bytes) else [chunk]).flatten = chunk := by
        split
        next h => simp [List.isEmpty_iff.mp h]
        next h => simp
      have hmem : ∀ w ∈ (if chunk.isEmpty = true then ([] : List Bytes) else [chunk]), w ≠ [] := by
        intro w hw
        split at hw
        · cases hw
        next h =>
          simp only [List.mem_singleton] at hw
          subst hw
          exact fun hc => h (by simp [hc])
      have hwithin : Within limit chunk.length := fun n hn => Nat.le_trans hlen (hcapLim n hn)
      cases e with
      | none =>
        simp only
        obtain ⟨i1, i2, i3, i4, i5⟩ := ih (limit.map (· - chunk.length)) r1
        generalize ioCopy buf fuel (limit.map (· - chunk.length)) r1 = res at *
        obtain ⟨ws', o, r'⟩ := res
        simp only at i1 i2 i3 i4 i5 ⊢
        refine ⟨?_, ?_, ?_, by rw [i4, hend], ?_⟩
        · rw [List.flatten_append, hws, List.append_assoc, i1, hd]
        · intro n hn
          have h1 := hwithin n hn
          have h2 := i2 (n - chunk.length) (by simp [hn])
          simp only [List.flatten_append, hws, List.length_append]
          omega
        · intro w hw
          rcases List.mem_append.mp hw with h | h
          · exact hmem w h
          · exact i3 w h
        · intro ho
          rcases i5 ho with h | h
          · exact Or.inl h
          · right
            cases limit with
            | none => simp at h
            | some n =>
              have h1 := hwithin n rfl
              simp only [Option.map_some, Option.some.injEq] at h
              simp only [List.flatten_append, hws, List.length_append, Option.some.injEq]
              omega
      | eof =>
        simp only
        refine ⟨by rw [hws]; exact hd, by rw [hws]; exact hwithin, hmem, hend, fun _ => Or.inl (heof rfl)⟩
      | fail =>
        simp only
        refine ⟨by rw [hws]; exact hd, by rw [hws]; exact hwithin, hmem, hend, by simp⟩

/-- an honest reader (one that ends with `io.EOF`) is copied to its end, or to the budget -/
theorem ioCopy_progress (buf : Nat) (hb : 1 ≤ buf) :
    ∀ (fuel : Nat) (limit : Option Nat) (r : Reader), r.sizes.length + r.data.length + 2 ≤ fuel →
      (r.ending = .eof ∨ r.ending = .eofWithLast) → (ioCopy buf fuel limit r).2.1 = .eof := by
  intro fuel
  induction fuel with
  | zero => intro _ r h; omega
  | succ fuel ih =>
    intro limit r hfuel hend
    simp only [ioCopy]
    by_cases h0 : limit = some 0
    · simp [h0]
    · simp only [h0, if_false]
      generalize hcap : capOf buf limit = cap
      have hcap1 : 1 ≤ cap := by
        cases limit with
        | none => simp only [capOf] at hcap; omega
        | some n =>
          simp only [capOf] at hcap
          have : n ≠ 0 := fun h => h0 (by rw [h])
          omega
      have he := read_ending r cap
      have hnf := read_no_fail r cap hend
      have hat := read_at_end r cap
      have hm := read_measure r cap hcap1
      generalize hr : r.read cap = x at *
      obtain ⟨chunk, e, r1⟩ := x
      simp only at he hnf hat hm ⊢
      cases e with
      | none =>
        simp only
        have hne : r.data ≠ [] := by
          intro h
          have := hat h hend
          simp at this
        have := ih (limit.map (· - chunk.length)) r1 (by have := hm hne; omega) (by rw [he]; exact hend)
        generalize ioCopy buf fuel (limit.map (· - chunk.length)) r1 = res at *
        obtain ⟨ws', o, r'⟩ := res
        exact this
      | eof => rfl
      | fail => exact absurd rfl hnf

/-- pieces that are all non-empty are recovered by splitting their concatenation at their lengths:
the chunk boundaries of the reader-level model are a `reads` list of the byte-level serialiser. -/
theorem splitReads_pieces : ∀ (ws : List Bytes), (∀ w ∈ ws, w ≠ []) →
    splitReads ws.flatten (ws.map List.length) = ws := by
  intro ws
  induction ws with
  | nil => intro _; simp [splitReads]
  | cons w ws ih =>
    intro h
    have hw : w ≠ [] := h w (by simp)
    have hlen : 0 < w.length := List.length_pos_iff.mpr hw
    have hne : (w ++ ws.flatten).isEmpty = false := by
      cases w with
      | nil => exact absurd rfl hw
      | cons _ _ => rfl
    have hn0 : (w.length == 0) = false := by
      simp only [beq_eq_false_iff_ne, ne_eq]; omega
    simp only [List.flatten_cons, List.map_cons, splitReads, hne, Bool.false_eq_true, if_false, hn0,
      List.take_left, List.drop_left]
    rw [ih (fun v hv => h v (by simp [hv]))]

end Req.Lemmas.C01BodyH1
