import Req.Client.Decode
/-! Helper lemmas for C15 (charset auto-decoding). -/
namespace Req.Decode
open Req.Proto

/-! ### scripted source -/

theorem Src.read_body (s : Src) (L : Nat) : (s.read L).out ++ (s.read L).st.body = s.body := by
  unfold Src.read
  cases hs : s.segs with
  | nil => simp [Src.body, hs]
  | cons seg rest =>
    simp only []
    split
    · simp [Src.body, hs]
    · split
      next hd =>
        have : seg.take L = seg := by
          have := List.take_append_drop L seg
          rw [hd, List.append_nil] at this
          exact this
        simp [Src.body, hs, this]
      next hd =>
        simp only [Src.body, hs, List.flatten_cons, ← List.append_assoc, List.take_append_drop]

theorem Src.read_term_body (s : Src) (L : Nat) (h : (s.read L).term ≠ none) : (s.read L).st.body = [] := by
  unfold Src.read at h ⊢
  cases hs : s.segs with
  | nil => simp [Src.body, hs]
  | cons seg rest =>
    rw [hs] at h
    simp only [] at h ⊢
    split
    · rename_i h0; simp [h0] at h
    · rename_i h0
      split
      · rename_i hd
        simp only [h0, hd, if_false, if_true] at h
        by_cases hr : rest = [] ∧ s.lastWithTerm = true
        · simp [Src.body, hr.1]
        · simp [hr] at h
      · rename_i hd
        simp [h0, hd] at h

theorem Src.read_len (s : Src) (L : Nat) : (s.read L).out.length ≤ L := by
  unfold Src.read
  cases s.segs with
  | nil => simp
  | cons seg rest =>
    simp only []
    split
    · simp
    · split <;> simp [List.length_take, Nat.min_le_left]

/-- The scripted source never reports a crash. -/
theorem Src.read_term (s : Src) (L : Nat) (t : Term) (h : (s.read L).term = some t) : t = s.term := by
  unfold Src.read at h
  cases hs : s.segs with
  | nil => rw [hs] at h; simp at h; exact h.symm
  | cons seg rest =>
    rw [hs] at h
    simp only [] at h
    split at h
    · simp at h
    · split at h
      · split at h
        · simp at h; exact h.symm
        · simp at h
      · simp at h

/-! ### decoders -/

namespace Decoder
variable {σ : Type}

theorem feedAll_snoc (d : Decoder σ) (s : σ) (cs : List Bytes) (c : Bytes) :
    d.feedAll s (cs ++ [c]) =
      ((d.feed (d.feedAll s cs).1 c).1, (d.feedAll s cs).2 ++ (d.feed (d.feedAll s cs).1 c).2) := by
  induction cs generalizing s with
  | nil => simp [feedAll]
  | cons x xs ih => simp [feedAll, ih, List.append_assoc]

end Decoder

theorem runB_append {σ : Type} (stepB : σ → UInt8 → σ × Bytes) (s : σ) (a b : Bytes) :
    runB stepB s (a ++ b) =
      ((runB stepB (runB stepB s a).1 b).1, (runB stepB s a).2 ++ (runB stepB (runB stepB s a).1 b).2) := by
  induction a generalizing s with
  | nil => simp [runB]
  | cons x xs ih => simp [runB, ih, List.append_assoc]

theorem feedAll_runB {σ : Type} (init : σ) (stepB : σ → UInt8 → σ × Bytes) (flush : σ → Bytes)
    (spec : Bytes → Bytes) (s : σ) (chunks : List Bytes) :
    (ofBytewise init stepB flush spec).feedAll s chunks = runB stepB s chunks.flatten := by
  induction chunks generalizing s with
  | nil => simp [Decoder.feedAll, runB]
  | cons c cs ih =>
    simp only [Decoder.feedAll, List.flatten_cons, runB_append, ih]
    rfl

/-- A byte-at-a-time automaton whose run + flush meets the whole-input spec is lawful. -/
theorem ofBytewise_lawful {σ : Type} (init : σ) (stepB : σ → UInt8 → σ × Bytes) (flush : σ → Bytes)
    (spec : Bytes → Bytes)
    (h : ∀ input, (runB stepB init input).2 ++ flush (runB stepB init input).1 = spec input) :
    (ofBytewise init stepB flush spec).Lawful := by
  intro chunks
  rw [feedAll_runB]
  exact h chunks.flatten

theorem charmap_run (cp : UInt8 → Nat) (s : Bytes) (input : Bytes) :
    runB (fun s b => (s, utf8 (cp b))) s input = (s, input.flatMap fun b => utf8 (cp b)) := by
  induction input generalizing s with
  | nil => simp [runB]
  | cons x xs ih => simp [runB, ih]

theorem tableDecoder_feedAll (tbl : List (Bytes × Bytes)) (s : Bytes) (chunks : List Bytes) :
    (tableDecoder tbl).feedAll s chunks = (s ++ chunks.flatten, []) := by
  induction chunks generalizing s with
  | nil => simp [Decoder.feedAll]
  | cons c cs ih =>
    have hf : (tableDecoder tbl).feed s c = (s ++ c, []) := rfl
    simp only [Decoder.feedAll, hf, ih, List.flatten_cons, List.append_assoc, List.nil_append]

/-! ### UTF-16: the streaming automaton against the whole-input loop -/

/-- What may be pending between two bytes. -/
def U16Valid (be : Bool) : Bytes → Prop
  | [] => True
  | [_] => True
  | [a, b] => isSurr (unit16 be a b) = true
  | [a, b, _] => isSurr (unit16 be a b) = true
  | _ => False

/-- The whole-input loop resumed with `pend` in front of `input`. -/
def u16Spec (be : Bool) (pend input : Bytes) : Bytes :=
  match pend with
  | [] => utf16Go be none input
  | [a] => utf16Go be none (a :: input)
  | [a, b] => utf16Go be (some (unit16 be a b)) input
  | [a, b, c] => utf16Go be (some (unit16 be a b)) (c :: input)
  | _ => []

theorem utf16_run (be : Bool) (input pend : Bytes) (hv : U16Valid be pend) :
    (runB (utf16Step be) pend input).2 ++ utf16Flush (runB (utf16Step be) pend input).1 =
      u16Spec be pend input := by
  induction input generalizing pend with
  | nil =>
    match pend, hv with
    | [], _ => simp [runB, utf16Flush, u16Spec, utf16Go]
    | [a], _ => simp [runB, utf16Flush, u16Spec, utf16Go]
    | [a, b], _ => simp [runB, utf16Flush, u16Spec, utf16Go]
    | [a, b, c], _ => simp [runB, utf16Flush, u16Spec, utf16Go]
    | _ :: _ :: _ :: _ :: _, hv => exact absurd hv (by simp [U16Valid])
  | cons x xs ih =>
    simp only [runB, List.append_assoc]
    match pend, hv with
    | [], _ =>
      have := ih [x] (by simp [U16Valid])
      simp only [utf16Step, List.nil_append]
      rw [this]
      simp [u16Spec]
    | [a], _ =>
      by_cases hs : isSurr (unit16 be a x) = true
      · have := ih [a, x] (by simp [U16Valid, hs])
        simp only [utf16Step, hs, if_true, List.nil_append]
        rw [this]
        simp [u16Spec, utf16Go, hs]
      · have := ih [] (by simp [U16Valid])
        simp only [utf16Step, hs, Bool.false_eq_true, ↓reduceIte]
        rw [this]
        simp [u16Spec, utf16Go, hs]
    | [a, b], hv =>
      have := ih [a, b, x] (by simpa [U16Valid] using hv)
      simp only [utf16Step, List.nil_append]
      rw [this]
      simp [u16Spec]
    | [a, b, c], hv =>
      by_cases hl : isLow (unit16 be c x) = true
      · have := ih [] (by simp [U16Valid])
        simp only [utf16Step, hl, if_true]
        rw [this]
        simp [u16Spec, utf16Go, hl]
      · by_cases hs : isSurr (unit16 be c x) = true
        · have := ih [c, x] (by simp [U16Valid, hs])
          simp only [utf16Step, hl, hs, Bool.false_eq_true, ↓reduceIte]
          rw [this]
          simp [u16Spec, utf16Go, hl, hs]
        · have := ih [] (by simp [U16Valid])
          simp only [utf16Step, hl, hs, Bool.false_eq_true, ↓reduceIte]
          rw [this]
          simp [u16Spec, utf16Go, hl, hs]
    | _ :: _ :: _ :: _ :: _, hv => exact absurd hv (by simp [U16Valid])

/-! ### generic facts about `reads` -/

/-- Two readers that stay related and return the same bytes/errors read the same stream. -/
theorem reads_sim {α α' β : Type} (rd : α → β → RR α) (rd' : α' → β → RR α') (R : α → α' → Prop)
    (h : ∀ a a' b, R a a' →
      (rd a b).out = (rd' a' b).out ∧ (rd a b).term = (rd' a' b).term ∧ R (rd a b).st (rd' a' b).st) :
    ∀ (bufs : List β) (a : α) (a' : α'), R a a' →
      (reads rd a bufs).out = (reads rd' a' bufs).out ∧ (reads rd a bufs).term = (reads rd' a' bufs).term := by
  intro bufs
  induction bufs with
  | nil => intro a a' _; simp [reads]
  | cons b bs ih =>
    intro a a' hR
    obtain ⟨ho, ht, hR'⟩ := h a a' b hR
    unfold reads
    rw [← ht]
    cases hterm : (rd a b).term with
    | some t => simp [ho]
    | none =>
      obtain ⟨ho2, ht2⟩ := ih _ _ hR'
      simp [ho, ho2, ht2]

/-! ### the decoding stage: `transform.Reader` over a lawful decoder -/

variable {σ : Type}

/-- Invariant of a `DecR` over `src`: `chunks` have been fed, `del` has been handed out,
`total` is everything the decoder was/will be given. -/
structure DecInv (d : Decoder σ) (total del : Bytes) (r : DecR σ) (src : Src) (chunks : List Bytes) : Prop where
  hd : r.d = d
  hst : r.st = (d.feedAll d.init chunks).1
  hout : del ++ r.out = (d.feedAll d.init chunks).2 ++ (if r.fin = some .eof then d.flush r.st else [])
  hbody : chunks.flatten ++ (r.pre ++ src.body) = total
  hfin : r.fin ≠ none → r.pre = [] ∧ src.body = []

theorem DecR.pull_pre (r : DecR σ) (src : Src) (h : r.pre ≠ []) :
    r.pull src =
      ({ r with st := (r.d.feed r.st (r.pre.take transformBufSize)).1,
                pre := r.pre.drop transformBufSize,
                out := (r.d.feed r.st (r.pre.take transformBufSize)).2 }, src) := by
  unfold DecR.pull; rw [if_pos h]

theorem DecR.pull_none (r : DecR σ) (src : Src) (h : r.pre = [])
    (ht : (src.read transformBufSize).term = none) :
    r.pull src =
      ({ r with st := (r.d.feed r.st (src.read transformBufSize).out).1,
                out := (r.d.feed r.st (src.read transformBufSize).out).2 },
       (src.read transformBufSize).st) := by
  unfold DecR.pull; rw [if_neg (by simp [h])]; simp only [ht]

theorem DecR.pull_eof (r : DecR σ) (src : Src) (h : r.pre = [])
    (ht : (src.read transformBufSize).term = some .eof) :
    r.pull src =
      ({ r with st := (r.d.feed r.st (src.read transformBufSize).out).1,
                out := (r.d.feed r.st (src.read transformBufSize).out).2 ++
                  r.d.flush (r.d.feed r.st (src.read transformBufSize).out).1,
                fin := some .eof },
       (src.read transformBufSize).st) := by
  unfold DecR.pull; rw [if_neg (by simp [h])]; simp only [ht]

theorem DecR.pull_other (r : DecR σ) (src : Src) (h : r.pre = []) (t : Term) (hne : t ≠ .eof)
    (ht : (src.read transformBufSize).term = some t) :
    r.pull src =
      ({ r with st := (r.d.feed r.st (src.read transformBufSize).out).1,
                out := (r.d.feed r.st (src.read transformBufSize).out).2,
                fin := some t },
       (src.read transformBufSize).st) := by
  unfold DecR.pull; rw [if_neg (by simp [h])]
  cases t with
  | eof => exact absurd rfl hne
  | err => simp only [ht]
  | panic => simp only [ht]

theorem DecInv.pull {d : Decoder σ} {total del : Bytes} {r : DecR σ} {src : Src} {chunks : List Bytes}
    (inv : DecInv d total del r src chunks) (hout : r.out = []) (hfin : r.fin = none) :
    ∃ chunks', DecInv d total del (r.pull src).1 (r.pull src).2 chunks' := by
  have hd := inv.hd
  have hdel : del = (d.feedAll d.init chunks).2 := by
    have := inv.hout
    simpa [hout, hfin] using this
  by_cases hpre : r.pre ≠ []
  · refine ⟨chunks ++ [r.pre.take transformBufSize], ?_⟩
    rw [DecR.pull_pre r src hpre]
    constructor
    · exact hd
    · simp [Decoder.feedAll_snoc, hd, inv.hst]
    · simp [Decoder.feedAll_snoc, hd, inv.hst, hfin, hdel]
    · have := inv.hbody
      simp only [List.flatten_append, List.flatten_cons, List.flatten_nil, List.append_nil,
        List.append_assoc]
      rw [← List.append_assoc (List.take _ _), List.take_append_drop]
      exact this
    · intro h; simp [hfin] at h
  · have hpre' : r.pre = [] := by simpa using hpre
    refine ⟨chunks ++ [(src.read transformBufSize).out], ?_⟩
    have hbody : (chunks ++ [(src.read transformBufSize).out]).flatten ++ (src.read transformBufSize).st.body = total := by
      have := inv.hbody
      rw [hpre', List.nil_append, ← Src.read_body src transformBufSize] at this
      simpa [List.append_assoc] using this
    cases hterm : (src.read transformBufSize).term with
    | none =>
      rw [DecR.pull_none r src hpre' hterm]
      constructor
      · exact hd
      · simp [Decoder.feedAll_snoc, hd, inv.hst]
      · simp [Decoder.feedAll_snoc, hd, inv.hst, hfin, hdel]
      · simpa [hpre'] using hbody
      · intro h; simp [hfin] at h
    | some t =>
      have hb : (src.read transformBufSize).st.body = [] := Src.read_term_body _ _ (by simp [hterm])
      by_cases ht : t = .eof
      · subst ht
        rw [DecR.pull_eof r src hpre' hterm]
        constructor
        · exact hd
        · simp [Decoder.feedAll_snoc, hd, inv.hst]
        · simp [Decoder.feedAll_snoc, hd, inv.hst, hdel, List.append_assoc]
        · simpa [hpre'] using hbody
        · intro _; exact ⟨hpre', hb⟩
      · rw [DecR.pull_other r src hpre' t ht hterm]
        constructor
        · exact hd
        · simp [Decoder.feedAll_snoc, hd, inv.hst]
        · have : (some t = some Term.eof) = False := by simp [ht]
          simp [Decoder.feedAll_snoc, hd, inv.hst, hdel, this]
        · simpa [hpre'] using hbody
        · intro _; exact ⟨hpre', hb⟩

theorem DecInv.deliver {d : Decoder σ} {total del : Bytes} {r : DecR σ} {src : Src} {chunks : List Bytes}
    (inv : DecInv d total del r src chunks) (hl : d.Lawful) (L : Nat) :
    ((r.deliver src L).term = some .eof → del ++ (r.deliver src L).out = d.decodeAll total) ∧
    ((r.deliver src L).term = none →
      DecInv d total (del ++ (r.deliver src L).out) (r.deliver src L).st.1 (r.deliver src L).st.2 chunks) := by
  unfold DecR.deliver
  simp only []
  constructor
  · intro ht
    by_cases hdrop : r.out.drop L = []
    · simp only [hdrop, if_true] at ht
      have htake : r.out.take L = r.out := by
        have := List.take_append_drop L r.out
        rw [hdrop, List.append_nil] at this
        exact this
      have h1 := inv.hout
      obtain ⟨hp, hb⟩ := inv.hfin (by simp [ht])
      have h2 := inv.hbody
      rw [hp, hb] at h2
      simp only [List.append_nil] at h2
      rw [htake, h1, ht, if_pos rfl, inv.hst, hl chunks, h2]
    · simp [hdrop] at ht
  · intro _
    constructor
    · exact inv.hd
    · exact inv.hst
    · simp only [List.append_assoc, List.take_append_drop]; exact inv.hout
    · exact inv.hbody
    · exact inv.hfin

theorem DecInv.read {d : Decoder σ} {total del : Bytes} {r : DecR σ} {src : Src} {chunks : List Bytes}
    (inv : DecInv d total del r src chunks) (hl : d.Lawful) (L : Nat) :
    ((r.read src L).term = some .eof → del ++ (r.read src L).out = d.decodeAll total) ∧
    ((r.read src L).term = none →
      ∃ chunks', DecInv d total (del ++ (r.read src L).out) (r.read src L).st.1 (r.read src L).st.2 chunks') := by
  unfold DecR.read
  split
  · have := inv.deliver hl L
    exact ⟨this.1, fun h => ⟨chunks, this.2 h⟩⟩
  · rename_i hcond
    have ho : r.out = [] := by
      by_cases h : r.out = []
      · exact h
      · exact absurd (Or.inl h) hcond
    have hf : r.fin = none := by
      by_cases h : r.fin = none
      · exact h
      · exact absurd (Or.inr h) hcond
    obtain ⟨chunks', inv'⟩ := inv.pull ho hf
    have := inv'.deliver hl L
    exact ⟨this.1, fun h => ⟨chunks', this.2 h⟩⟩

theorem DecR.read_len (r : DecR σ) (src : Src) (L : Nat) : (r.read src L).out.length ≤ L := by
  unfold DecR.read DecR.deliver
  split <;> simp [List.length_take, Nat.min_le_left]

/-- Reading a `DecR` to EOF yields the whole-input decode of everything it was given. -/
theorem decReads_eof {d : Decoder σ} (hl : d.Lawful) {total : Bytes} :
    ∀ (bufs : List Nat) (del : Bytes) (p : DecR σ × Src) (chunks : List Bytes),
      DecInv d total del p.1 p.2 chunks →
      (reads (fun (p : DecR σ × Src) L => p.1.read p.2 L) p bufs).term = some .eof →
      del ++ (reads (fun (p : DecR σ × Src) L => p.1.read p.2 L) p bufs).out = d.decodeAll total := by
  intro bufs
  induction bufs with
  | nil => intro del p chunks _ h; simp [reads] at h
  | cons L Ls ih =>
    intro del p chunks inv h
    have step := inv.read hl L
    unfold reads at h ⊢
    cases hterm : (p.1.read p.2 L).term with
    | some t =>
      simp only [hterm] at h ⊢
      have : t = .eof := by simpa using h
      subst this
      exact step.1 hterm
    | none =>
      simp only [hterm] at h ⊢
      obtain ⟨chunks', inv'⟩ := step.2 hterm
      have := ih _ _ chunks' inv' h
      simpa [List.append_assoc] using this

/-- Reading the raw source to EOF yields its body. -/
theorem rawReads_eof : ∀ (bufs : List Nat) (src : Src),
    (reads Src.read src bufs).term = some .eof → (reads Src.read src bufs).out = src.body := by
  intro bufs
  induction bufs with
  | nil => intro src h; simp [reads] at h
  | cons L Ls ih =>
    intro src h
    unfold reads at h ⊢
    cases hterm : (src.read L).term with
    | some t =>
      simp only [hterm] at h ⊢
      have hb := Src.read_term_body src L (by simp [hterm])
      have := Src.read_body src L
      rw [hb, List.append_nil] at this
      exact this
    | none =>
      simp only [hterm] at h ⊢
      rw [ih _ h]
      exact Src.read_body src L

/-! ### the automaton, stage by stage -/

theorem autoRead_raw (find : Bytes → Option (Decoder σ)) (a : State σ) (L : Nat)
    (hd : a.detected = true) (hp : a.peek = none) (hr : a.decodeReader = none) :
    autoRead find a L = ⟨{ a with src := (a.src.read L).st }, (a.src.read L).out, (a.src.read L).term⟩ := by
  simp [autoRead, readWith, hd, hp, hr]

theorem autoRead_dec (find : Bytes → Option (Decoder σ)) (a : State σ) (L : Nat) (r : DecR σ)
    (hd : a.detected = true) (hp : a.peek = none) (hr : a.decodeReader = some r) :
    autoRead find a L =
      ⟨{ a with src := (r.read a.src L).st.2, decodeReader := some (r.read a.src L).st.1 },
        (r.read a.src L).out, (r.read a.src L).term⟩ := by
  simp [autoRead, readWith, hd, hp, hr]

/-- After detection without a charset the automaton is the raw source. -/
theorem autoReads_raw (find : Bytes → Option (Decoder σ)) (bufs : List Nat) (a : State σ)
    (hd : a.detected = true) (hp : a.peek = none) (hr : a.decodeReader = none) :
    (reads (autoRead find) a bufs).out = (reads Src.read a.src bufs).out ∧
    (reads (autoRead find) a bufs).term = (reads Src.read a.src bufs).term := by
  refine reads_sim (autoRead find) Src.read
    (fun a s => a.detected = true ∧ a.peek = none ∧ a.decodeReader = none ∧ a.src = s) ?_ bufs a a.src
    ⟨hd, hp, hr, rfl⟩
  intro a s L ⟨h1, h2, h3, h4⟩
  subst h4
  rw [autoRead_raw find a L h1 h2 h3]
  exact ⟨rfl, rfl, h1, h2, h3, rfl⟩

/-- With a decoder installed the automaton is that `transform.Reader`. -/
theorem autoReads_dec (find : Bytes → Option (Decoder σ)) (bufs : List Nat) (a : State σ) (r : DecR σ)
    (hd : a.detected = true) (hp : a.peek = none) (hr : a.decodeReader = some r) :
    (reads (autoRead find) a bufs).out =
      (reads (fun (p : DecR σ × Src) L => p.1.read p.2 L) (r, a.src) bufs).out ∧
    (reads (autoRead find) a bufs).term =
      (reads (fun (p : DecR σ × Src) L => p.1.read p.2 L) (r, a.src) bufs).term := by
  refine reads_sim (autoRead find) (fun (p : DecR σ × Src) L => p.1.read p.2 L)
    (fun a p => a.detected = true ∧ a.peek = none ∧ a.decodeReader = some p.1 ∧ a.src = p.2) ?_ bufs a (r, a.src)
    ⟨hd, hp, hr, rfl⟩
  intro a p L ⟨h1, h2, h3, h4⟩
  rw [autoRead_dec find a L p.1 h1 h2 h3, h4]
  exact ⟨rfl, rfl, h1, h2, rfl, rfl⟩

theorem noSniff_false {r : RR Src} (h : noSniff r = false) :
    r.out ≠ [] ∧ (r.term = none ∨ r.term = some .eof) := by
  unfold noSniff at h
  simp only [Bool.or_eq_false_iff, Bool.and_eq_false_iff, decide_eq_false_iff_not, ne_eq,
    Decidable.not_not] at h
  exact ⟨h.1, h.2⟩

theorem noSniff_true {r : RR Src} (h : noSniff r = true) (ht : r.term = none) : r.out = [] := by
  unfold noSniff at h
  simp [ht] at h
  exact h

theorem reads_cons_some {α β : Type} (rd : α → β → RR α) (a : α) (b : β) (bs : List β) (t : Term)
    (h : (rd a b).term = some t) : reads rd a (b :: bs) = ⟨(rd a b).st, (rd a b).out, some t⟩ := by
  simp [reads, h]

theorem reads_cons_none {α β : Type} (rd : α → β → RR α) (a : α) (b : β) (bs : List β)
    (h : (rd a b).term = none) :
    reads rd a (b :: bs) =
      ⟨(reads rd (rd a b).st bs).st, (rd a b).out ++ (reads rd (rd a b).st bs).out,
       (reads rd (rd a b).st bs).term⟩ := by
  simp [reads, h]

theorem peekRead_noSniff (find : Bytes → Option (Decoder σ)) (a : State σ) (L : Nat)
    (h : noSniff (a.src.read L) = true) :
    peekRead find a L = ⟨{ a with src := (a.src.read L).st }, (a.src.read L).out, (a.src.read L).term⟩ := by
  simp [peekRead, h]

theorem peekRead_none (find : Bytes → Option (Decoder σ)) (a : State σ) (L : Nat)
    (h : noSniff (a.src.read L) = false) (hf : find (a.src.read L).out = none) :
    peekRead find a L =
      ⟨{ a with src := (a.src.read L).st, detected := true }, (a.src.read L).out, (a.src.read L).term⟩ := by
  simp [peekRead, h, hf]

theorem peekRead_some (find : Bytes → Option (Decoder σ)) (a : State σ) (L : Nat) (d : Decoder σ)
    (h : noSniff (a.src.read L) = false) (hf : find (a.src.read L).out = some d) :
    peekRead find a L =
      ⟨{ a with src := ((DecR.mk d d.init (a.src.read L).out [] none).read (a.src.read L).st L).st.2,
                detected := true,
                decodeReader := some ((DecR.mk d d.init (a.src.read L).out [] none).read (a.src.read L).st L).st.1 },
        ((DecR.mk d d.init (a.src.read L).out [] none).read (a.src.read L).st L).out,
        ((DecR.mk d d.init (a.src.read L).out [] none).read (a.src.read L).st L).term⟩ := by
  simp [peekRead, h, hf]

theorem autoRead_fresh (find : Bytes → Option (Decoder σ)) (a : State σ) (L : Nat)
    (h : a.detected = false) : autoRead find a L = peekRead find a L := by
  simp [autoRead, readWith, h]

/-- The main invariant argument: a fresh automaton read to EOF delivers the body, or the
whole-body decode by the decoder the sniffer picked for the first data chunk. -/
theorem autoReads_fresh (find : Bytes → Option (Decoder σ))
    (hlaw : ∀ c d, find c = some d → d.Lawful) :
    ∀ (bufs : List Nat) (src : Src),
      (reads (autoRead find) (State.init src) bufs).term = some .eof →
      (reads (autoRead find) (State.init src) bufs).out =
        match (sniffed src bufs).bind find with
        | none => src.body
        | some d => d.decodeAll src.body := by
  intro bufs
  induction bufs with
  | nil => intro src h; simp [reads] at h
  | cons L Ls ih =>
    intro src h
    have hread : autoRead find (State.init src) L = peekRead find (State.init src) L :=
      autoRead_fresh find _ L rfl
    have hsrc : (State.init src : State σ).src = src := rfl
    cases hns : noSniff (src.read L) with
    | true =>
      have hpk := peekRead_noSniff find (State.init src) L (by rw [hsrc]; exact hns)
      rw [hsrc] at hpk
      cases hterm : (src.read L).term with
      | some t =>
        have ht : (autoRead find (State.init src) L).term = some t := by rw [hread, hpk]; exact hterm
        rw [reads_cons_some _ _ _ _ t ht] at h ⊢
        simp only [hread, hpk]
        have hb := Src.read_term_body src L (by simp [hterm])
        have hbody := Src.read_body src L
        rw [hb, List.append_nil] at hbody
        simp [sniffed, hns, hterm, hbody]
      | none =>
        have ht : (autoRead find (State.init src) L).term = none := by rw [hread, hpk]; exact hterm
        rw [reads_cons_none _ _ _ _ ht] at h ⊢
        simp only [hread, hpk] at h ⊢
        have ho := noSniff_true hns hterm
        have hbody := Src.read_body src L
        rw [ho, List.nil_append] at hbody
        have hst : ({ (State.init src : State σ) with src := (src.read L).st } : State σ) = State.init (src.read L).st := rfl
        rw [hst] at h ⊢
        rw [ih (src.read L).st h, ho, List.nil_append, hbody]
        simp [sniffed, hns, hterm]
    | false =>
      obtain ⟨hne, hT⟩ := noSniff_false hns
      have hsn : sniffed src (L :: Ls) = some (src.read L).out := by simp [sniffed, hns]
      rw [hsn]
      simp only [Option.bind_some]
      cases hf : find (src.read L).out with
      | none =>
        have hpk := peekRead_none find (State.init src) L (by rw [hsrc]; exact hns) (by rw [hsrc]; exact hf)
        rw [hsrc] at hpk
        simp only []
        cases hterm : (src.read L).term with
        | some t =>
          have ht : (autoRead find (State.init src) L).term = some t := by rw [hread, hpk]; exact hterm
          rw [reads_cons_some _ _ _ _ t ht] at h ⊢
          simp only [hread, hpk]
          have hb := Src.read_term_body src L (by simp [hterm])
          have hbody := Src.read_body src L
          rw [hb, List.append_nil] at hbody
          exact hbody
        | none =>
          have ht : (autoRead find (State.init src) L).term = none := by rw [hread, hpk]; exact hterm
          rw [reads_cons_none _ _ _ _ ht] at h ⊢
          simp only [hread, hpk] at h ⊢
          have hraw := autoReads_raw find Ls
            { (State.init src : State σ) with src := (src.read L).st, detected := true } rfl rfl rfl
          rw [hraw.2] at h
          rw [hraw.1]
          have := rawReads_eof Ls _ h
          simp only [] at this
          rw [this]
          exact Src.read_body src L
      | some d =>
        have hpk := peekRead_some find (State.init src) L d (by rw [hsrc]; exact hns) (by rw [hsrc]; exact hf)
        rw [hsrc] at hpk
        simp only []
        have hl := hlaw _ _ hf
        have inv0 : DecInv d src.body [] (DecR.mk d d.init (src.read L).out [] none) (src.read L).st [] := by
          constructor
          · rfl
          · simp [Decoder.feedAll]
          · simp [Decoder.feedAll]
          · simpa using Src.read_body src L
          · intro hc; simp at hc
        have step := inv0.read hl L
        cases hterm : ((DecR.mk d d.init (src.read L).out [] none).read (src.read L).st L).term with
        | some t =>
          have ht : (autoRead find (State.init src) L).term = some t := by rw [hread, hpk]; exact hterm
          rw [reads_cons_some _ _ _ _ t ht] at h ⊢
          simp only [hread, hpk]
          have : t = .eof := by simpa using h
          subst this
          simpa using step.1 hterm
        | none =>
          have ht : (autoRead find (State.init src) L).term = none := by rw [hread, hpk]; exact hterm
          rw [reads_cons_none _ _ _ _ ht] at h ⊢
          simp only [hread, hpk] at h ⊢
          obtain ⟨chunks', inv'⟩ := step.2 hterm
          have hdec := autoReads_dec find Ls
            { (State.init src : State σ) with
              src := ((DecR.mk d d.init (src.read L).out [] none).read (src.read L).st L).st.2,
              detected := true,
              decodeReader := some ((DecR.mk d d.init (src.read L).out [] none).read (src.read L).st L).st.1 }
            _ rfl rfl rfl
          rw [hdec.2] at h
          rw [hdec.1]
          have := decReads_eof hl Ls _ (_, _) chunks' inv' h
          rw [List.nil_append] at this
          exact this

/-! ### `res.Body` wrappers -/

theorem bodyReads_raw (find : Bytes → Option (Decoder σ)) (bufs : List Nat) (src : Src) :
    (reads (Body.read find) (.raw src) bufs).out = (reads Src.read src bufs).out ∧
    (reads (Body.read find) (.raw src) bufs).term = (reads Src.read src bufs).term := by
  refine reads_sim (Body.read find) Src.read (fun b s => b = .raw s) ?_ bufs _ _ rfl
  intro b s L hb
  subst hb
  exact ⟨rfl, rfl, rfl⟩

theorem bodyReads_hdr (find : Bytes → Option (Decoder σ)) (bufs : List Nat) (r : DecR σ) (src : Src) :
    (reads (Body.read find) (.hdr r src) bufs).out =
      (reads (fun (p : DecR σ × Src) L => p.1.read p.2 L) (r, src) bufs).out ∧
    (reads (Body.read find) (.hdr r src) bufs).term =
      (reads (fun (p : DecR σ × Src) L => p.1.read p.2 L) (r, src) bufs).term := by
  refine reads_sim (Body.read find) (fun (p : DecR σ × Src) L => p.1.read p.2 L)
    (fun b p => b = .hdr p.1 p.2) ?_ bufs _ (r, src) rfl
  intro b p L hb
  subst hb
  exact ⟨rfl, rfl, rfl⟩

theorem bodyReads_auto (find : Bytes → Option (Decoder σ)) (bufs : List Nat) (a : State σ) :
    (reads (Body.read find) (.auto a) bufs).out = (reads (autoRead find) a bufs).out ∧
    (reads (Body.read find) (.auto a) bufs).term = (reads (autoRead find) a bufs).term := by
  refine reads_sim (Body.read find) (autoRead find) (fun b a => b = .auto a) ?_ bufs _ _ rfl
  intro b a L hb
  subst hb
  exact ⟨rfl, rfl, rfl⟩

/-- The patched `peekRead` never fills `peek`. -/
theorem autoRead_peek_none (find : Bytes → Option (Decoder σ)) (a : State σ) (L : Nat)
    (hp : a.peek = none) : (autoRead find a L).st.peek = none := by
  cases hd : a.detected with
  | false =>
    rw [autoRead_fresh find a L hd]
    cases hns : noSniff (a.src.read L) with
    | true => rw [peekRead_noSniff find a L hns]; exact hp
    | false =>
      cases hf : find (a.src.read L).out with
      | none => rw [peekRead_none find a L hns hf]; exact hp
      | some d => rw [peekRead_some find a L d hns hf]; exact hp
  | true =>
    cases hr : a.decodeReader with
    | none => rw [autoRead_raw find a L hd hp hr]; exact hp
    | some r => rw [autoRead_dec find a L r hd hp hr]; exact hp

theorem peekDrain_len (a : State σ) (pk : Bytes) (L : Nat) : (peekDrain a pk L).out.length ≤ L := by
  unfold peekDrain
  split
  · simp [List.length_take, Nat.min_le_left]
  · split
    · rename_i h; simp [h]
    · split
      · simp
      · rename_i r _
        have := DecR.read_len r a.src (L - pk.length)
        simp only [List.length_append]
        omega

theorem autoRead_len (find : Bytes → Option (Decoder σ)) (a : State σ) (L : Nat) :
    (autoRead find a L).out.length ≤ L := by
  unfold autoRead readWith
  split
  · unfold peekRead
    simp only []
    split
    · exact Src.read_len _ _
    · split
      · exact Src.read_len _ _
      · exact DecR.read_len _ _ _
  · split
    · exact peekDrain_len _ _ _
    · split
      · exact DecR.read_len _ _ _
      · exact Src.read_len _ _

end Req.Decode
