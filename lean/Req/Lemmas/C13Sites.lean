import Req.Client.DumpSites
/-! Lemmas about the HTTP/2 / HTTP/3 dump call sites. -/
namespace Req.Client.DumpSites
open Req.Proto

theorem renderLines_append (a b : List Field) : renderLines (a ++ b) = renderLines a ++ renderLines b := by
  simp [renderLines]

theorem encodeLoop_inv (skip dumpOn : Bool) (en : List Field) :
    ∀ o : HeadOut, o.dump = (if dumpOn then renderLines o.wire else []) →
      (encodeLoop skip dumpOn en o).dump =
        (if dumpOn then renderLines (encodeLoop skip dumpOn en o).wire else []) := by
  induction en with
  | nil => intro o h; exact h
  | cons f rest ih =>
    intro o h
    obtain ⟨n, v⟩ := f
    unfold encodeLoop
    split
    · exact ih o h
    · apply ih
      cases dumpOn with
      | false => simpa using h
      | true =>
        simp only [↓reduceIte] at h ⊢
        rw [h, renderLines_append]
        simp [renderLines]

theorem encodeLoop_wire (skip : Bool) (en : List Field) :
    ∀ o o' : HeadOut, o.wire = o'.wire →
      (encodeLoop skip true en o).wire = (encodeLoop skip false en o').wire := by
  induction en with
  | nil => intro o o' h; exact h
  | cons f rest ih =>
    intro o o' h
    obtain ⟨n, v⟩ := f
    unfold encodeLoop
    split
    · exact ih o o' h
    · apply ih; simp [h]

/-! DATA frames -/

theorem allowed_pos (m g r : Nat) : 1 ≤ allowed m g r := by unfold allowed; omega

theorem allowed_le (m g r : Nat) (hm : 1 ≤ m) (hr : 1 ≤ r) : allowed m g r ≤ r ∧ allowed m g r ≤ m := by
  unfold allowed; omega

theorem cutRead_spec (maxFrame : Nat) (hm : 1 ≤ maxFrame) :
    ∀ (fuel : Nat) (remain : Bytes) (gs : List Nat), remain.length ≤ fuel →
      (cutRead maxFrame fuel remain gs).1.flatten = remain ∧
      ∀ f ∈ (cutRead maxFrame fuel remain gs).1, f ≠ [] ∧ f.length ≤ maxFrame := by
  intro fuel
  induction fuel with
  | zero =>
    intro remain gs h
    have : remain = [] := List.length_eq_zero_iff.mp (by omega)
    subst this
    simp [cutRead]
  | succ fuel ih =>
    intro remain gs h
    unfold cutRead
    by_cases he : remain.isEmpty
    · have : remain = [] := by simpa using he
      subst this; simp
    · simp only [he, Bool.false_eq_true, ↓reduceIte]
      have hr : 1 ≤ remain.length := by
        cases remain with
        | nil => simp at he
        | cons _ _ => simp
      generalize gs.headD remain.length = g
      have ha := allowed_pos maxFrame g remain.length
      have hb := allowed_le maxFrame g remain.length hm hr
      have hlen : (remain.drop (allowed maxFrame g remain.length)).length ≤ fuel := by
        simp only [List.length_drop]; omega
      obtain ⟨h1, h2⟩ := ih (remain.drop (allowed maxFrame g remain.length)) gs.tail hlen
      constructor
      · simp only [List.flatten_cons, h1, List.take_append_drop]
      · intro f hf
        simp only [List.mem_cons] at hf
        rcases hf with hf | hf
        · subst hf
          constructor
          · intro hnil
            have : (remain.take (allowed maxFrame g remain.length)).length = 0 := by rw [hnil]; rfl
            simp only [List.length_take] at this
            omega
          · simp only [List.length_take]; omega
        · exact h2 f hf

theorem dataFrames_spec (maxFrame : Nat) (hm : 1 ≤ maxFrame) (pieces : List Bytes) :
    ∀ gs : List Nat, (dataFrames maxFrame pieces gs).flatten = pieces.flatten ∧
      ∀ f ∈ dataFrames maxFrame pieces gs, f ≠ [] ∧ f.length ≤ maxFrame := by
  induction pieces with
  | nil => intro gs; simp [dataFrames]
  | cons p ps ih =>
    intro gs
    unfold dataFrames
    obtain ⟨h1, h2⟩ := cutRead_spec maxFrame hm p.length p gs (Nat.le_refl _)
    generalize cutRead maxFrame p.length p gs = c at h1 h2
    obtain ⟨fs, gs'⟩ := c
    obtain ⟨i1, i2⟩ := ih gs'
    simp only at h1 h2 ⊢
    constructor
    · simp [List.flatten_append, h1, i1]
    · intro f hf
      simp only [List.mem_append] at hf
      rcases hf with hf | hf
      · exact h2 f hf
      · exact i2 f hf

/-! HTTP/2 response head -/

open Req.H2.Meta

/-- the dumping callback leaves the parser's state machine alone. -/
theorem writeFragDump_fst (evs : List Event) :
    ∀ (s : St) (d : Bytes), (writeFragDump s evs d).1 = writeFrag s evs := by
  induction evs with
  | nil => intro s d; rfl
  | cons e rest ih =>
    intro s d
    cases e with
    | decodeError => rfl
    | field n v =>
      unfold writeFragDump writeFrag
      by_cases h : s.emitEnabled = true
      · rw [if_pos h, if_pos h]; exact ih _ _
      · rw [if_neg h, if_neg h]; exact ih _ _

theorem fragLoopDump_fst (frags : List Frag) :
    ∀ (s : St) (d : Bytes), (fragLoopDump s frags d).1 = (fragLoop s frags).toOption := by
  induction frags with
  | nil => intro s d; rfl
  | cons f rest ih =>
    intro s d
    unfold fragLoopDump fragLoop
    split
    · rfl
    · split
      · rfl
      · have h := writeFragDump_fst f.events s d
        generalize writeFragDump s f.events d = w at h
        obtain ⟨so, d'⟩ := w
        simp only at h
        rw [← h]
        cases so with
        | none => rfl
        | some s' => exact ih s' d'

theorem fragLoop_error_conn (frags : List Frag) :
    ∀ (s : St) (o : Outcome), fragLoop s frags = .error o → ∃ c, o = .conn c := by
  induction frags with
  | nil => intro s o h; simp [fragLoop] at h
  | cons f rest ih =>
    intro s o h
    unfold fragLoop at h
    split at h
    · injection h with h; exact ⟨_, h.symm⟩
    · split at h
      · injection h with h; exact ⟨_, h.symm⟩
      · split at h
        · injection h with h; exact ⟨_, h.symm⟩
        · exact ih _ o h

/-- what has been dumped is the rendering of the accepted fields, as long as the decoder is still
emitting; once it stopped, a field was refused (`invalid`) or cut off (`truncated`). -/
def DInv (s : St) (d : Bytes) : Prop :=
  (s.emitEnabled = true → d = renderLines s.fields) ∧
  (s.emitEnabled = false → s.invalid = true ∨ s.truncated = true)

theorem emit_inv (s : St) (n v : Bytes) (d : Bytes) (he : s.emitEnabled = true) (h : DInv s d) :
    DInv (emit s n v) (d ++ renderLine (n, v)) := by
  unfold emit
  split
  · exact ⟨fun h' => by simp at h', fun _ => Or.inl rfl⟩
  · split
    · exact ⟨fun h' => by simp at h', fun _ => Or.inr rfl⟩
    · refine ⟨fun _ => ?_, fun h' => by simp [he] at h'⟩
      simp only
      rw [renderLines_append, h.1 he]
      simp [renderLines]

theorem writeFragDump_inv (evs : List Event) :
    ∀ (s : St) (d : Bytes), DInv s d → ∀ s', (writeFragDump s evs d).1 = some s' →
      DInv s' (writeFragDump s evs d).2 := by
  induction evs with
  | nil => intro s d h s' hs; simp only [writeFragDump] at hs ⊢; injection hs with hs; subst hs; exact h
  | cons e rest ih =>
    intro s d h s' hs
    cases e with
    | decodeError => simp [writeFragDump] at hs
    | field n v =>
      unfold writeFragDump at hs ⊢
      by_cases he : s.emitEnabled = true
      · simp only [he, ↓reduceIte] at hs ⊢
        exact ih _ _ (emit_inv s n v d he h) s' hs
      · simp only [he, Bool.false_eq_true, ↓reduceIte] at hs ⊢
        exact ih _ _ h s' hs

theorem fragLoopDump_inv (frags : List Frag) :
    ∀ (s : St) (d : Bytes), DInv s d → ∀ s', (fragLoopDump s frags d).1 = some s' →
      DInv s' (fragLoopDump s frags d).2 := by
  induction frags with
  | nil => intro s d h s' hs; simp only [fragLoopDump] at hs ⊢; injection hs with hs; subst hs; exact h
  | cons f rest ih =>
    intro s d h s' hs
    unfold fragLoopDump at hs ⊢
    split at hs
    · simp at hs
    · rename_i h1
      simp only [h1, ↓reduceIte]
      split at hs
      · simp at hs
      · rename_i h2
        simp only [h2]
        have hw := writeFragDump_inv f.events s d h
        generalize writeFragDump s f.events d = w at hw hs ⊢
        obtain ⟨so, d'⟩ := w
        cases so with
        | none => simp at hs
        | some s1 => exact ih s1 d' (hw s1 rfl) s' hs

/-! HTTP/3 request body -/

theorem take_spec (o : H3Out) (p : Bytes) :
    (o.take p).1.dump = o.dump ∧ (o.take p).2 ≤ p.length ∧
    (o.take p).1.wire = o.wire ++ p.take (o.take p).2 ∧
    (o.failed = false → ((o.take p).2 < p.length → (o.take p).1.failed = true) ∧
                        ((o.take p).2 = p.length → (o.take p).1.failed = false)) := by
  rcases o with ⟨w, d, l, f⟩
  cases l with
  | none => simp [H3Out.take]
  | some l =>
    by_cases h : p.length ≤ l
    · simp [H3Out.take, h]
    · simp [H3Out.take, h]; omega

theorem h3Write_failed (o : H3Out) (p : Bytes) (h : o.failed = true) : h3Write o p = o := by
  simp [h3Write, h]

/-- one `Write`: the dump grows by the accepted prefix of the payload; a short count means the
stream has failed. -/
theorem h3Write_spec (o : H3Out) (p : Bytes) (hf : o.failed = false) :
    ∃ n, n ≤ p.length ∧ (h3Write o p).dump = o.dump ++ p.take n ∧
      (n < p.length → (h3Write o p).failed = true) := by
  unfold h3Write
  simp only [hf, Bool.false_eq_true, ↓reduceIte]
  cases hh : dataHeader p.length with
  | none => exact ⟨0, by omega, by simp, fun _ => rfl⟩
  | some h =>
    simp only
    have t1 := take_spec o h
    by_cases ha : (o.take h).2 < h.length
    · simp only [ha, ↓reduceIte]
      exact ⟨0, by omega, by simp [t1.1], fun _ => (t1.2.2.2 hf).1 ha⟩
    · simp only [ha, ↓reduceIte]
      have hfull : (o.take h).2 = h.length := by have := t1.2.1; omega
      have hf1 : (o.take h).1.failed = false := (t1.2.2.2 hf).2 hfull
      have t2 := take_spec (o.take h).1 p
      refine ⟨((o.take h).1.take p).2, t2.2.1, ?_, ?_⟩
      · simp only [t2.1, t1.1]
      · intro hlt
        exact (t2.2.2.2 hf1).1 hlt

theorem h3_fold_failed (pieces : List Bytes) : ∀ o : H3Out, o.failed = true →
    pieces.foldl (fun o p => if p.isEmpty then o else h3Write o p) o = o := by
  induction pieces with
  | nil => intro o _; rfl
  | cons p ps ih =>
    intro o h
    simp only [List.foldl_cons]
    by_cases hp : p.isEmpty
    · simp only [hp, ↓reduceIte]; exact ih o h
    · simp only [hp, Bool.false_eq_true, ↓reduceIte, h3Write_failed o p h]; exact ih o h

theorem h3_fold_prefix (pieces : List Bytes) : ∀ o : H3Out,
    ∃ x, (pieces.foldl (fun o p => if p.isEmpty then o else h3Write o p) o).dump = o.dump ++ x ∧
      x <+: pieces.flatten ∧ (o.failed = true → x = []) ∧
      ((pieces.foldl (fun o p => if p.isEmpty then o else h3Write o p) o).failed = false →
        x = pieces.flatten) := by
  induction pieces with
  | nil => intro o; exact ⟨[], by simp, by simp, fun _ => rfl, fun _ => rfl⟩
  | cons p ps ih =>
    intro o
    simp only [List.foldl_cons, List.flatten_cons]
    by_cases hp : p.isEmpty
    · have hpe : p = [] := by simpa using hp
      simp only [hp, ↓reduceIte]
      obtain ⟨x, h1, h2, h3, h4⟩ := ih o
      exact ⟨x, h1, by simpa [hpe] using h2, h3, fun h => by simpa [hpe] using h4 h⟩
    · simp only [hp, Bool.false_eq_true, ↓reduceIte]
      by_cases hf : o.failed = true
      · rw [h3Write_failed o p hf, h3_fold_failed ps o hf]
        exact ⟨[], by simp, List.nil_prefix, fun _ => rfl, fun h => by rw [hf] at h; cases h⟩
      · have hf' : o.failed = false := by simpa using hf
        obtain ⟨n, hn, hd, hshort⟩ := h3Write_spec o p hf'
        obtain ⟨x, h1, h2, h3, h4⟩ := ih (h3Write o p)
        refine ⟨p.take n ++ x, ?_, ?_, fun h => absurd h hf, ?_⟩
        · rw [h1, hd, List.append_assoc]
        · by_cases hfull : n = p.length
          · rw [hfull, List.take_length]
            exact (List.prefix_append_right_inj p).mpr h2
          · have hx : x = [] := h3 (hshort (by omega))
            rw [hx, List.append_nil]
            exact List.IsPrefix.trans (List.take_prefix _ _) (List.prefix_append _ _)
        · intro hfin
          have hfull : n = p.length := by
            by_cases hlt : n < p.length
            · have := h3_fold_failed ps (h3Write o p) (hshort hlt)
              rw [this, hshort hlt] at hfin; cases hfin
            · omega
          rw [hfull, List.take_length, h4 hfin]

end Req.Client.DumpSites
