import Req.Client.Attempt
/-! Helper lemmas about the association-list maps of `Req.Attempt` and the header merge. -/
namespace Req.Lemmas.C10Attempt
open Req.Attempt

theorem vals_put (m : Multi) (k k' : Str) (vs : List Str) :
    vals (put m k vs) k' = if k' = k then vs else vals m k' := by
  induction m with
  | nil =>
    by_cases h : k' = k
    · subst h; simp [put, vals, List.lookup]
    · have : (k' == k) = false := by simpa using h
      simp [put, vals, List.lookup, h, this]
  | cons e t ih =>
    obtain ⟨k0, v0⟩ := e
    unfold put
    by_cases h0 : k0 = k
    · subst h0
      by_cases h : k' = k0
      · subst h; simp [vals, List.lookup]
      · have : (k' == k0) = false := by simpa using h
        simp [vals, List.lookup, h, this]
    · simp only [h0, ↓reduceIte]
      by_cases h1 : k' = k0
      · subst h1
        have : ¬ k' = k := h0
        simp [vals, List.lookup, this]
      · have hb : (k' == k0) = false := by simpa using h1
        have := ih
        simp only [vals, List.lookup, hb] at this ⊢
        exact this

theorem put_put (m : Multi) (k : Str) (a b : List Str) : put (put m k a) k b = put m k b := by
  induction m with
  | nil => simp [put]
  | cons e t ih =>
    obtain ⟨k0, v0⟩ := e
    by_cases h0 : k0 = k
    · subst h0; simp [put]
    · simp [put, h0, ih]

/-- Writes to two different keys commute as soon as one of them is already satisfied. -/
theorem put_comm_of_fixed (m : Multi) (k k' : Str) (a b : List Str) (hk : k ≠ k')
    (h : put m k' b = m) : put (put m k a) k' b = put m k a := by
  induction m with
  | nil => simp [put] at h
  | cons e t ih =>
    obtain ⟨k0, v0⟩ := e
    by_cases h0 : k0 = k'
    · subst h0
      have hb : b = v0 := by simpa [put] using h
      subst hb
      have : ¬ k0 = k := fun e => hk e.symm
      simp [put, this]
    · have ht : put t k' b = t := by simpa [put, h0] using h
      by_cases h1 : k0 = k
      · subst h1
        simp [put, hk, ht]
      · simp [put, h0, h1, ih ht]

theorem vals_of_put_eq (m : Multi) (k : Str) (a : List Str) (h : put m k a = m) : vals m k = a := by
  have := vals_put m k k a
  rw [h] at this
  simpa using this

/-- `e` is already satisfied in `m`: the merge step for it changes nothing. -/
def Fixed (m : Multi) (e : Str × List Str) : Prop := mergeStep m e = m

theorem fixed_after_step (m : Multi) (e : Str × List Str) : Fixed (mergeStep m e) e := by
  unfold Fixed mergeStep
  by_cases h : vals m e.1 = []
  · simp only [h, ↓reduceIte, vals_put]
    by_cases h2 : e.2 = []
    · simp [h2, put_put]
    · simp [h2]
  · simp [h]

/-- A later merge step does not disturb an earlier one. -/
theorem fixed_step (m : Multi) (e e' : Str × List Str) (h : Fixed m e') : Fixed (mergeStep m e) e' := by
  unfold Fixed at *
  unfold mergeStep at *
  by_cases hm : vals m e.1 = []
  · simp only [hm, ↓reduceIte, vals_put]
    by_cases hk : e'.1 = e.1
    · simp only [hk, ↓reduceIte]
      by_cases he : e.2 = []
      · -- m = put m e.1 e'.2 (or untouched) and vals m e.1 = []
        simp only [he, ↓reduceIte, put_put]
        rw [hk, hm] at h
        simp only [↓reduceIte] at h
        have := vals_of_put_eq m e.1 e'.2 h
        rw [hm] at this
        rw [← this]
      · simp [he]
    · simp only [hk, ↓reduceIte]
      by_cases h' : vals m e'.1 = []
      · simp only [h', ↓reduceIte] at h ⊢
        rw [put_comm_of_fixed m e.1 e'.1 e.2 e'.2 (Ne.symm hk) h]
      · simp [h']
  · simpa [hm] using h

/-- Setting a key to a non-empty value list does not disturb a satisfied merge step. -/
theorem fixed_put (m : Multi) (k : Str) (x : Str) (e' : Str × List Str) (h : Fixed m e') :
    Fixed (put m k [x]) e' := by
  unfold Fixed mergeStep at *
  simp only [vals_put]
  by_cases hk : e'.1 = k
  · simp [hk]
  · simp only [hk, ↓reduceIte]
    by_cases h' : vals m e'.1 = []
    · simp only [h', ↓reduceIte] at h ⊢
      rw [put_comm_of_fixed m k e'.1 [x] e'.2 (Ne.symm hk) h]
    · simp [h']

theorem foldl_fixed (m : Multi) (c : Multi) (h : ∀ e ∈ c, Fixed m e) : c.foldl mergeStep m = m := by
  induction c with
  | nil => rfl
  | cons e t ih =>
    have he : mergeStep m e = m := h e (List.mem_cons_self ..)
    simp only [List.foldl_cons, he]
    exact ih fun x hx => h x (List.mem_cons_of_mem _ hx)

theorem all_fixed_after_merge (c r : Multi) : ∀ e ∈ c, Fixed (mergeHeaders c r) e := by
  unfold mergeHeaders
  induction c generalizing r with
  | nil => simp
  | cons e0 t ih =>
    intro e he
    simp only [List.foldl_cons]
    rcases List.mem_cons.mp he with rfl | ht
    · -- the step for `e` was taken first; the later steps keep it satisfied
      have h0 := fixed_after_step r e
      generalize mergeStep r e = m at h0
      clear ih he
      induction t generalizing m with
      | nil => exact h0
      | cons e1 t ih2 => exact ih2 _ (fixed_step m e1 e h0)
    · exact ih _ e ht

/-- parseRequestHeader is idempotent. -/
theorem merge_idem (c r : Multi) : mergeHeaders c (mergeHeaders c r) = mergeHeaders c r := by
  conv => lhs; unfold mergeHeaders
  exact foldl_fixed _ _ (all_fixed_after_merge c r)

/-- … also after parseRequestBody stored a Content-Type. -/
theorem merge_put_idem (c r : Multi) (k x : Str) :
    mergeHeaders c (put (mergeHeaders c r) k [x]) = put (mergeHeaders c r) k [x] := by
  conv => lhs; unfold mergeHeaders
  exact foldl_fixed _ _ fun e he => fixed_put _ k x e (all_fixed_after_merge c r e he)

theorem first_put_self (m : Multi) (k : Str) (x : Str) : first (put m k [x]) k = x := by
  simp [first, vals_put]

/-! ### the per-attempt middleware reaches a fixpoint after one application (repaired code) -/

open Req.Retry


theorem consume_idem (s : FileSrc) : s.consume.consume = s.consume := by
  cases s <;> rfl

def NoStream (f : FileUp) : Prop :=
  (∀ c b, f.src ≠ .stream c b) ∧ (∀ c b, f.src ≠ .closer c b) ∧ (∀ c b, f.src ≠ .shared c false b)

theorem filePart_consume (c : ClientCfg) (f : FileUp) (h : NoStream f) :
    filePart R c { f with src := f.src.consume } = filePart R c f := by
  obtain ⟨p, n, ct, src⟩ := f
  cases src with
  | stream cc b => exact absurd rfl (h.1 cc b)
  | closer cc b => exact absurd rfl (h.2.1 cc b)
  | bytes cc => rfl
  | path cc => rfl
  | seeker cc b => simp [filePart, fileContent, FileSrc.consume, R, Variant.repaired]
  | shared cc sk b =>
    cases sk with
    | false => exact absurd rfl (h.2.2 cc b)
    | true => simp [filePart, fileContent, FileSrc.consume]

theorem not_closed_of_noStream (f : FileUp) (h : NoStream f) : f.closed = false := by
  obtain ⟨p, n, ct, src⟩ := f
  cases src with
  | closer cc b => exact absurd rfl (h.2.1 cc b)
  | _ => rfl

theorem fileParts_eq_map (v : Variant) (c : ClientCfg) (files : List FileUp) (h : ∀ f ∈ files, NoStream f) :
    fileParts v c files = files.map (filePart v c) := by
  unfold fileParts
  congr 1
  apply List.filter_eq_self.mpr
  intro f hf
  simp [not_closed_of_noStream f (h f hf)]

theorem noStream_consume (f : FileUp) (h : NoStream f) : NoStream { f with src := f.src.consume } := by
  obtain ⟨p, n, ct, src⟩ := f
  cases src with
  | stream cc b => exact absurd rfl (h.1 cc b)
  | closer cc b => exact absurd rfl (h.2.1 cc b)
  | bytes cc => refine ⟨?_, ?_, ?_⟩ <;> intro x y hh <;> simp [FileSrc.consume] at hh
  | path cc => refine ⟨?_, ?_, ?_⟩ <;> intro x y hh <;> simp [FileSrc.consume] at hh
  | seeker cc b => refine ⟨?_, ?_, ?_⟩ <;> intro x y hh <;> simp [FileSrc.consume] at hh
  | shared cc sk b =>
    cases sk with
    | false => exact absurd rfl (h.2.2 cc b)
    | true => refine ⟨?_, ?_, ?_⟩ <;> intro x y hh <;> simp [FileSrc.consume] at hh

theorem noStream_of_replayable (st : ReqState) (h : unreplayable R st = false) (hc : st.contract = true) :
    ∀ f ∈ st.files, NoStream f := by
  intro f hf
  simp only [unreplayable, R, Variant.repaired, Bool.true_and, Bool.or_eq_false_iff] at h
  have h2 := h.2
  rw [List.any_eq_false] at h2
  have h3 := h2 f hf
  have h4 : f.contract = true := by
    simp only [ReqState.contract, List.all_eq_true] at hc
    exact hc f hf
  refine ⟨?_, ?_, ?_⟩
  · intro c b hsrc; simp [hsrc] at h3
  · intro c b hsrc; simp [hsrc] at h3
  · intro c b hsrc; simp [FileUp.contract, hsrc] at h4

theorem notReader_of_replayable (st : ReqState) (h : unreplayable R st = false) :
    ∀ b c, st.body ≠ .reader b c := by
  intro b c hb
  simp [unreplayable, hb] at h

theorem parseBody_fix (c : ClientCfg) (hx : c.isXML c.jsonCT = false) (j k : Nat) (st : ReqState) (h0 : Multi)
    (hh : st.headers = mergeHeaders c.headers h0) (hr : unreplayable R st = false) (hc : st.contract = true) :
    mergeHeaders c.headers (parseBody R c j st).1.headers = (parseBody R c j st).1.headers ∧
    parseBody R c (k + 1) (parseBody R c j st).1 = parseBody R c j st ∧
    (parseBody R c j st).1.method = st.method ∧
    ((parseBody R c j st).1.urlHead = st.urlHead ∧ (parseBody R c j st).1.path = st.path ∧
      (parseBody R c j st).1.rawQuery = st.rawQuery ∧ (parseBody R c j st).1.pathParams = st.pathParams) ∧
    (parseBody R c j st).1.query = st.query ∧ (parseBody R c j st).1.cookies = st.cookies := by
  have hfiles := noStream_of_replayable st hr hc
  have hbody := notReader_of_replayable st hr
  have hk : (k + 1 == 0) = false := by simp
  have hmi : mergeHeaders c.headers st.headers = st.headers := by rw [hh, merge_idem]
  have hmp : ∀ key x, mergeHeaders c.headers (put st.headers key [x]) = put st.headers key [x] := by
    intro key x; rw [hh, merge_put_idem]
  clear hh
  unfold parseBody
  by_cases hp : payloadForbid c st.method = true
  · have hfb : st.body.forbidden.forbidden = st.body.forbidden := by cases st.body <;> rfl
    simp [hp, hmi, hfb]
  · simp only [hp, Bool.false_eq_true, ↓reduceIte, R, Variant.repaired, Bool.not_true, Bool.false_or, hk,
      Bool.and_false]
    generalize hform : (if (nonEmpty c.form && j == 0) = true then addAll st.form c.form else st.form) = form
    by_cases hm : st.multipart = true
    · simp only [hm, ↓reduceIte, hp, Bool.false_eq_true, put_put, hmp, true_and, and_true]
      congr 1
      · congr 1
        simp only [List.map_map]
        apply List.map_congr_left
        intro f _
        simp [consume_idem]
      · congr 1
        have e1 := fileParts_eq_map R c st.files hfiles
        have e2 := fileParts_eq_map R c (st.files.map fun f => { f with src := f.src.consume }) (by
          intro f hf
          obtain ⟨g, hg, rfl⟩ := List.mem_map.mp hf
          exact noStream_consume g (hfiles g hg))
        simp only [R, Variant.repaired] at e1 e2
        rw [e1, e2]
        simp only [List.map_map]
        apply List.map_congr_left
        intro f hf
        exact filePart_consume c f (hfiles f hf)
    · simp only [hm, Bool.false_eq_true, ↓reduceIte]
      by_cases ho : st.ordered.isEmpty = true
      · simp only [ho, Bool.not_true, Bool.false_eq_true, ↓reduceIte]
        by_cases hf : nonEmpty form = true
        · simp [hf, hp, hm, ho, put_put, hmp]
        · simp only [hf, Bool.false_eq_true, ↓reduceIte]
          cases hb : st.body with
          | none => simp [hp, hm, hf, ho, hb, hmi]
          | user b => simp [hp, hm, hf, ho, hb, hmi]
          | reader b cns => exact absurd hb (hbody b cns)
          | marshal js xs =>
            by_cases hct : first st.headers c.ctKey = []
            · by_cases hj : c.jsonCT = []
              · simp [hp, hm, hf, ho, hb, hct, hmp, first_put_self, hj, put_put]
              · simp [hp, hm, hf, ho, hb, hct, hmp, first_put_self, hj, hx]
            · simp [hp, hm, hf, ho, hb, hct, hmi]
          | bytes b =>
            by_cases hct : first st.headers c.ctKey = []
            · by_cases hj : c.detect b = []
              · simp [hp, hm, hf, ho, hb, hct, hmp, first_put_self, hj, put_put]
              · simp [hp, hm, hf, ho, hb, hct, hmp, first_put_self, hj]
            · simp [hp, hm, hf, ho, hb, hct, hmi]
      · by_cases hf : nonEmpty form = true
        · simp [ho, hp, hm, hf, put_put, hmp]
        · simp [ho, hp, hm, hf, put_put, hmp]

/-- The request after parseRequestHeader and parseRequestCookie. -/
def pre (c : ClientCfg) (j : Nat) (st : ReqState) : ReqState :=
  { st with headers := mergeHeaders c.headers st.headers, cookies := parseCookie R c j st.cookies }

theorem mw_eq (c : ClientCfg) (j : Nat) (st : ReqState) :
    mw R c j st = ((parseBody R c j (pre c j st)).1,
      ⟨st.method, urlOf c st, st.rawQuery.map (fun p => (p.1, [p.2])) ++ mergeQuery c.query st.query,
        (parseBody R c j (pre c j st)).1.headers,
        (parseBody R c j (pre c j st)).1.cookies, (parseBody R c j (pre c j st)).2⟩) := rfl

theorem pre_fix (c : ClientCfg) (k : Nat) (s : ReqState)
    (h : mergeHeaders c.headers s.headers = s.headers) : pre c (k + 1) s = s := by
  have hck : parseCookie R c (k + 1) s.cookies = s.cookies := by
    simp [parseCookie, R, Variant.repaired]
  unfold pre
  rw [h, hck]

/-- One application of the request middleware chain, then any later one: same state, same wire
request.  (`hx`: the JSON content type the middleware itself stores is not an XML type — the
law `util.IsXMLType` is instantiated with.) -/
theorem mw_fix (c : ClientCfg) (hx : c.isXML c.jsonCT = false) (j k : Nat) (st : ReqState)
    (hr : unreplayable R st = false) (hc : st.contract = true) :
    mw R c (k + 1) (mw R c j st).1 = mw R c j st := by
  have hun : unreplayable R (pre c j st) = false := by
    simpa [unreplayable, pre] using hr
  have hcn : (pre c j st).contract = true := by
    simpa [ReqState.contract, pre] using hc
  obtain ⟨h1, h2, h3, ⟨h4a, h4b, h4c, h4d⟩, h5, h6⟩ := parseBody_fix c hx j k (pre c j st) st.headers rfl hun hcn
  have hpre : pre c (k + 1) (parseBody R c j (pre c j st)).1 = (parseBody R c j (pre c j st)).1 :=
    pre_fix c k _ h1
  have hurl : urlOf c (parseBody R c j (pre c j st)).1 = urlOf c st := by
    unfold urlOf
    rw [h4a, h4b, h4d]
    rfl
  rw [mw_eq c j st]
  simp only
  rw [mw_eq c (k + 1), hpre, h2, h3, hurl, h4c, h5]
  rfl

end Req.Lemmas.C10Attempt
