import Req.C02.H1Body
import Req.Lemmas.C02BufioLine
import Req.Lemmas.C02Reader
/-!
`chunkedReader` refines "the concatenation of the chunk data" for every segmentation of the
wire and every caller read size.

The wire is described by the chunks the origin wrote.  A chunk-size line may be ANY line the
reader's own line parser maps to the chunk's length (upper/lower-case hex, leading zeros,
chunk extensions, trailing blanks): `WChunk.OK`.
-/
namespace Req.C02
open Req.Proto

/-- One chunk as written: the size line up to (not including) its terminating LF — normally
`<hex>[;ext]\r` — and the data. -/
structure WChunk where
  line : Bytes
  data : Bytes
deriving Repr

/-- What `readChunkLine` + `parseHexUint` make of a size line. -/
def sizeOfLine (line : Bytes) : Except IOErr Nat :=
  parseHexUint (removeChunkExtension (trimTrailingWhitespace (line ++ [10])))

def WChunk.OK (cap : Nat) (c : WChunk) : Prop :=
  (10 : UInt8) ∉ c.line ∧ c.data ≠ [] ∧ sizeOfLine c.line = .ok c.data.length ∧
  c.line.length + 1 < maxLineLength ∧ c.line.length + 1 ≤ cap

def WChunk.wire (c : WChunk) : Bytes := c.line ++ 10 :: (c.data ++ [13, 10])

/-- The last-chunk line (`0\r`, possibly `0;ext\r`, `000\r` …). -/
def LastOK (cap : Nat) (last : Bytes) : Prop :=
  (10 : UInt8) ∉ last ∧ sizeOfLine last = .ok 0 ∧ last.length + 1 < maxLineLength ∧ last.length + 1 ≤ cap

/-- The unread wire when the reader stands before the chunks `cs`: they, the last-chunk
line, and whatever follows (`tail`: trailer section, next response). -/
def wireFrom (cs : List WChunk) (last tail : Bytes) : Bytes :=
  (cs.map WChunk.wire).flatten ++ (last ++ 10 :: tail)

def dataOf (cs : List WChunk) : Bytes := (cs.map (·.data)).flatten

/-- Where the reader stands (state, unread wire) and the data it still has to hand out. -/
inductive CPos (cap : Nat) (last tail : Bytes) : Chunked → Bytes → Bytes → Prop
  | header (cs : List WChunk) (hcs : ∀ c ∈ cs, c.OK cap) :
      CPos cap last tail { n := 0, err := none, checkEnd := false } (wireFrom cs last tail) (dataOf cs)
  | data (d : Bytes) (cs : List WChunk) (hd : d ≠ []) (hcs : ∀ c ∈ cs, c.OK cap) :
      CPos cap last tail { n := d.length, err := none, checkEnd := false }
        (d ++ 13 :: 10 :: wireFrom cs last tail) (d ++ dataOf cs)
  | footer (cs : List WChunk) (hcs : ∀ c ∈ cs, c.OK cap) :
      CPos cap last tail { n := 0, err := none, checkEnd := true } (13 :: 10 :: wireFrom cs last tail) (dataOf cs)
  | done :
      CPos cap last tail { n := 0, err := some .eof, checkEnd := false } tail []

/-- Fuel one loop needs from a position. -/
def posWeight (cr : Chunked) : Nat :=
  if cr.err.isSome then 1 else if cr.checkEnd then 4 else if cr.n = 0 then 3 else 2

theorem beginChunk_chunk (cr : Chunked) (b : Bufio) (c : WChunk) (R : Bytes) (hw : b.WF) (hf : b.Fits)
    (hc : c.OK b.cap) (hrem : b.rem = c.line ++ 10 :: R) (hcr : cr = { n := 0, err := none, checkEnd := false }) :
    ∃ b', cr.beginChunk b = ({ n := c.data.length, err := none, checkEnd := false }, b') ∧
      b'.rem = R ∧ b'.WF ∧ b'.Fits ∧ b'.cap = b.cap ∧ b'.net.fin = b.net.fin := by
  obtain ⟨hno, hd, hsz, hmax, hcap⟩ := hc
  obtain ⟨b', hrs, hrem', hw', hf', hcap', hfin'⟩ :=
    Bufio.readSlice_line (b.cap + 2) b c.line R hw hf hrem hno hcap (by omega) (by omega)
  refine ⟨b', ?_, hrem', hw', hf', hcap', hfin'⟩
  unfold Chunked.beginChunk
  rw [hrs]
  have hlen : ¬ (c.line ++ [10]).length ≥ maxLineLength := by simp; omega
  simp only [hlen, if_false]
  unfold sizeOfLine at hsz
  rw [hsz]
  have hn0 : ¬ c.data.length = 0 := by
    intro h0; exact hd (List.length_eq_zero_iff.mp h0)
  simp [hcr, hn0]

theorem beginChunk_last (cr : Chunked) (b : Bufio) (last R : Bytes) (hw : b.WF) (hf : b.Fits)
    (hl : LastOK b.cap last) (hrem : b.rem = last ++ 10 :: R) (hcr : cr = { n := 0, err := none, checkEnd := false }) :
    ∃ b', cr.beginChunk b = ({ n := 0, err := some .eof, checkEnd := false }, b') ∧
      b'.rem = R ∧ b'.WF ∧ b'.Fits ∧ b'.cap = b.cap ∧ b'.net.fin = b.net.fin := by
  obtain ⟨hno, hsz, hmax, hcap⟩ := hl
  obtain ⟨b', hrs, hrem', hw', hf', hcap', hfin'⟩ :=
    Bufio.readSlice_line (b.cap + 2) b last R hw hf hrem hno hcap (by omega) (by omega)
  refine ⟨b', ?_, hrem', hw', hf', hcap', hfin'⟩
  unfold Chunked.beginChunk
  rw [hrs]
  have hlen : ¬ (last ++ [10]).length ≥ maxLineLength := by simp; omega
  simp only [hlen, if_false]
  unfold sizeOfLine at hsz
  rw [hsz]
  simp [hcr]

theorem piecesBytes_cons (d : Bytes) (accR : List Bytes) : piecesBytes (d :: accR) = piecesBytes accR ++ d := by
  simp [piecesBytes]

/-- The loop of one `chunkedReader.Read`: from any position it hands out a prefix `x` of the
data still expected (at most `k` bytes), ends at a position again, never reports anything
but EOF, and — when it starts with nothing copied and room in the caller's buffer — does not
return empty-handed unless the last chunk was reached. -/
theorem readLoop_spec (cap : Nat) (last tail : Bytes) (hl : LastOK cap last) (fuel : Nat) :
    ∀ (cr : Chunked) (b : Bufio) (k got : Nat) (accR : List Bytes) (exp : Bytes),
      CPos cap last tail cr b.rem exp → b.WF → b.Fits → b.cap = cap → 3 * k + posWeight cr ≤ fuel →
      ∃ accR' cr' b' x exp', Chunked.readLoop fuel cr b k got accR = ((accR', cr'), b') ∧
        piecesBytes accR' = piecesBytes accR ++ x ∧ exp = x ++ exp' ∧
        CPos cap last tail cr' b'.rem exp' ∧ b'.WF ∧ b'.Fits ∧ b'.cap = cap ∧ b'.net.fin = b.net.fin ∧
        x.length ≤ k ∧ (got = 0 → 0 < k → x = [] → cr'.err = some .eof) := by
  induction fuel with
  | zero =>
    intro cr b k got accR exp hpos _ _ _ hfuel
    have : 0 < posWeight cr := by unfold posWeight; split <;> (try split) <;> (try split) <;> omega
    omega
  | succ fuel ih =>
    intro cr b k got accR exp hpos hw hf hcap hfuel
    generalize hrem : b.rem = rem at hpos
    cases hpos with
    | done =>
      refine ⟨accR, { n := 0, err := some .eof, checkEnd := false }, b, [], [], ?_, by simp, by simp, ?_,
        hw, hf, hcap, rfl, by simp, fun _ _ _ => rfl⟩
      · simp [Chunked.readLoop]
      · rw [hrem]; exact CPos.done
    | footer cs hcs =>
      unfold Chunked.readLoop
      simp only [Option.isSome_none, Bool.false_eq_true, if_false, if_true]
      split
      next hbreak =>
        refine ⟨accR, _, b, [], dataOf cs, rfl, by simp, by simp, ?_, hw, hf, hcap, rfl, by simp, ?_⟩
        · rw [hrem]; exact CPos.footer cs hcs
        · intro hg; omega
      next hcont =>
        obtain ⟨b1, hrf, hrem1, hw1, hf1, hcap1, hfin1⟩ := Bufio.readFull_two b 13 10 _ hw hf hrem
        rw [hrf]
        have heq : (([13, 10] : Bytes) == [13, 10]) = true := by decide
        simp only [heq, if_true]
        have hfuel1 : 3 * k + posWeight { n := 0, err := none, checkEnd := false } ≤ fuel := by
          simp only [posWeight] at hfuel ⊢
          simp at hfuel ⊢
          omega
        obtain ⟨accR', cr', b', x, exp', hrun, hp, he, hpos', hw', hf', hcap', hfin', hxk, hprog⟩ :=
          ih { n := 0, err := none, checkEnd := false } b1 k got accR (dataOf cs)
            (by rw [hrem1]; exact CPos.header cs hcs) hw1 hf1 (by rw [hcap1, hcap]) hfuel1
        exact ⟨accR', cr', b', x, exp', hrun, hp, he, hpos', hw', hf', hcap', by rw [hfin', hfin1], hxk, hprog⟩
    | header cs hcs =>
      unfold Chunked.readLoop
      simp only [Option.isSome_none, Bool.false_eq_true, if_false, if_true]
      split
      next hbreak =>
        refine ⟨accR, _, b, [], dataOf cs, rfl, by simp, by simp, ?_, hw, hf, hcap, rfl, by simp, ?_⟩
        · rw [hrem]; exact CPos.header cs hcs
        · intro hg; omega
      next hcont =>
        cases cs with
        | nil =>
          have hl' : LastOK b.cap last := by rw [hcap]; exact hl
          obtain ⟨b1, hbc, hrem1, hw1, hf1, hcap1, hfin1⟩ :=
            beginChunk_last { n := 0, err := none, checkEnd := false } b last tail hw hf hl'
              (by rw [hrem]; simp [wireFrom]) rfl
          rw [hbc]
          have hfuel1 : 3 * k + posWeight { n := 0, err := some .eof, checkEnd := false } ≤ fuel := by
            simp only [posWeight] at hfuel ⊢
            simp at hfuel ⊢
            omega
          obtain ⟨accR', cr', b', x, exp', hrun, hp, he, hpos', hw', hf', hcap', hfin', hxk, hprog⟩ :=
            ih { n := 0, err := some .eof, checkEnd := false } b1 k got accR []
              (by rw [hrem1]; exact CPos.done) hw1 hf1 (by rw [hcap1, hcap]) hfuel1
          refine ⟨accR', cr', b', x, exp', hrun, hp, ?_, hpos', hw', hf', hcap', by rw [hfin', hfin1], hxk, hprog⟩
          simpa [dataOf] using he
        | cons c cs' =>
          have hc : c.OK b.cap := by rw [hcap]; exact hcs c (by simp)
          have hcs' : ∀ c' ∈ cs', c'.OK cap := fun c' h' => hcs c' (by simp [h'])
          obtain ⟨b1, hbc, hrem1, hw1, hf1, hcap1, hfin1⟩ :=
            beginChunk_chunk { n := 0, err := none, checkEnd := false } b c
              (c.data ++ 13 :: 10 :: wireFrom cs' last tail) hw hf hc
              (by rw [hrem]; simp [wireFrom, WChunk.wire, List.append_assoc]) rfl
          rw [hbc]
          have hd : c.data ≠ [] := hc.2.1
          have hn0 : ¬ c.data.length = 0 := fun h0 => hd (List.length_eq_zero_iff.mp h0)
          have hfuel1 : 3 * k + posWeight { n := c.data.length, err := none, checkEnd := false } ≤ fuel := by
            simp only [posWeight] at hfuel ⊢
            simp [hn0] at hfuel ⊢
            omega
          obtain ⟨accR', cr', b', x, exp', hrun, hp, he, hpos', hw', hf', hcap', hfin', hxk, hprog⟩ :=
            ih { n := c.data.length, err := none, checkEnd := false } b1 k got accR (c.data ++ dataOf cs')
              (by rw [hrem1]; exact CPos.data c.data cs' hd hcs') hw1 hf1 (by rw [hcap1, hcap]) hfuel1
          refine ⟨accR', cr', b', x, exp', hrun, hp, ?_, hpos', hw', hf', hcap', by rw [hfin', hfin1], hxk, hprog⟩
          simpa [dataOf] using he
    | data d cs hd hcs =>
      have hn0 : ¬ d.length = 0 := fun h0 => hd (List.length_eq_zero_iff.mp h0)
      unfold Chunked.readLoop
      simp only [Option.isSome_none, Bool.false_eq_true, if_false, hn0]
      by_cases hk : k = 0
      · subst hk
        simp only [if_true]
        refine ⟨accR, _, b, [], d ++ dataOf cs, rfl, by simp, by simp, ?_, hw, hf, hcap, rfl, by simp, ?_⟩
        · rw [hrem]; exact CPos.data d cs hd hcs
        · intro _ h0; omega
      · simp only [hk, if_false]
        have hdl : 0 < d.length := by omega
        have hkm : 0 < min k d.length := by omega
        rcases hr : b.read (min k d.length) with ⟨⟨d0, e0⟩, b1⟩
        obtain ⟨hw1, hcap1, hfin1, hsplit, hlen, hcase, _⟩ := Bufio.read_spec b _ hkm hw d0 e0 b1 hr
        have hf1 := Bufio.read_fits b _ hf d0 e0 b1 hr
        have hne : b.rem ≠ [] := by rw [hrem]; simp [hd]
        obtain ⟨rfl, hd0⟩ := hcase hne
        have hd0l : 0 < d0.length := List.length_pos_iff.mpr hd0
        -- d0 is a prefix of d
        rw [hrem] at hsplit
        have hd0d : d0.length ≤ d.length := by omega
        obtain ⟨d', hdd, hrem1⟩ : ∃ d', d = d0 ++ d' ∧ b1.rem = d' ++ 13 :: 10 :: wireFrom cs last tail := by
          rcases List.append_eq_append_iff.mp hsplit with ⟨a', h1, h2⟩ | ⟨c', h1, h2⟩
          · -- d0 = d ++ a' : then a' = []
            have : a'.length = 0 := by
              have := congrArg List.length h1
              simp only [List.length_append] at this
              omega
            have ha : a' = [] := List.length_eq_zero_iff.mp this
            subst ha
            simp only [List.append_nil] at h1
            simp only [List.nil_append] at h2
            exact ⟨[], by simp [h1], by simp [h2]⟩
          · exact ⟨c', h1, h2.symm ▸ rfl⟩
        simp only
        by_cases hd' : d' = []
        · -- the chunk is exhausted: check its footer next
          subst hd'
          have hdd' : d0 = d := by simpa using hdd.symm
          subst hdd'
          have hzero : d0.length - d0.length = 0 := by omega
          simp only [hzero, decide_true]
          have hfuel1 : 3 * (k - d0.length) + posWeight { n := 0, err := none, checkEnd := true } ≤ fuel := by
            simp only [posWeight] at hfuel ⊢
            simp [hn0] at hfuel ⊢
            omega
          obtain ⟨accR', cr', b', x, exp', hrun, hp, he, hpos', hw', hf', hcap', hfin', hxk, hprog⟩ :=
            ih { n := 0, err := none, checkEnd := true } b1 (k - d0.length) (got + d0.length) (d0 :: accR) (dataOf cs)
              (by rw [hrem1]; simpa using CPos.footer cs hcs) hw1 hf1 (by rw [hcap1, hcap]) hfuel1
          refine ⟨accR', cr', b', d0 ++ x, exp', hrun, ?_, ?_, hpos', hw', hf', hcap', by rw [hfin', hfin1], ?_, ?_⟩
          · rw [hp, piecesBytes_cons, List.append_assoc]
          · rw [he, List.append_assoc]
          · simp only [List.length_append]; omega
          · intro _ _ hx
            simp at hx
            exact absurd hx.1 hd0
        · have hn' : ¬ (d0 ++ d').length - d0.length = 0 := by
            simp only [List.length_append]
            have := List.length_pos_iff.mpr hd'
            omega
          subst hdd
          have hnlen : (d0 ++ d').length - d0.length = d'.length := by simp
          have hn0' : ¬ d'.length = 0 := fun h0 => hd' (List.length_eq_zero_iff.mp h0)
          simp only [hnlen]
          simp only [hn0', decide_false]
          have hfuel1 : 3 * (k - d0.length) + posWeight { n := d'.length, err := none, checkEnd := false } ≤ fuel := by
            simp only [posWeight] at hfuel ⊢
            simp [hn0, hn0'] at hfuel ⊢
            omega
          obtain ⟨accR', cr', b', x, exp', hrun, hp, he, hpos', hw', hf', hcap', hfin', hxk, hprog⟩ :=
            ih { n := d'.length, err := none, checkEnd := false } b1 (k - d0.length) (got + d0.length) (d0 :: accR)
              (d' ++ dataOf cs) (by rw [hrem1]; exact CPos.data d' cs hd' hcs) hw1 hf1 (by rw [hcap1, hcap]) hfuel1
          refine ⟨accR', cr', b', d0 ++ x, exp', hrun, ?_, ?_, hpos', hw', hf', hcap', by rw [hfin', hfin1], ?_, ?_⟩
          · rw [hp, piecesBytes_cons, List.append_assoc]
          · rw [List.append_assoc, he, List.append_assoc]
          · simp only [List.length_append]; omega
          · intro _ _ hx
            simp at hx
            exact absurd hx.1 hd0

/-! ### `body` over the chunked reader, with the trailer section -/

/-- `readTrailer` consumes the trailer section `tail = <section> ++ rest` and yields `t`. -/
def TrailerOK (cap : Nat) (tail rest : Bytes) (t : Option Trailer) : Prop :=
  ∀ b : Bufio, b.rem = tail → b.WF → b.Fits → b.cap = cap →
    ∃ b', readTrailer b = (.ok t, b') ∧ b'.rem = rest

/-- No trailer fields: the section is just CRLF. -/
theorem trailerOK_empty (cap : Nat) (hcap : 2 ≤ cap) (rest : Bytes) :
    TrailerOK cap (13 :: 10 :: rest) rest none := by
  intro b hrem hw hf hc
  obtain ⟨b1, hp, hrem1, _, _, _, _, hbuf⟩ := Bufio.peek_spec b 2 hw hf (by rw [hrem]; simp) (by omega)
  refine ⟨b1.discardBuffered 2, ?_, ?_⟩
  · unfold readTrailer
    rw [hp, hrem]
    have : (([13, 10] : Bytes) == [13, 10]) = true := by decide
    simp [this]
  · simp only [Bufio.discardBuffered, Bufio.rem] at hrem1 ⊢
    have : b1.buf.drop 2 ++ b1.net.segs.flatten = (b1.buf ++ b1.net.segs.flatten).drop 2 := by
      rw [List.drop_append_of_le_length hbuf]
    have hrem0 : b.buf ++ b.net.segs.flatten = 13 :: 10 :: rest := hrem
    rw [this, hrem1, hrem0]
    simp

/-- Between two reads of a chunked body: the reader stands at a position of the wire, no
error yet, trailers still to be read. -/
def ChunkRel (cap : Nat) (last tail : Bytes) (bd : H1Body) (E : Bytes) : Prop :=
  ∃ cr, bd.src = .chunked cr ∧ cr.err = none ∧ CPos cap last tail cr bd.br.rem E ∧
    bd.hdr = true ∧ bd.sawEOF = false ∧ bd.closed = false ∧ bd.br.WF ∧ bd.br.Fits ∧ bd.br.cap = cap

theorem posWeight_le (cr : Chunked) : posWeight cr ≤ 4 := by
  unfold posWeight; split <;> (try split) <;> (try split) <;> omega

/-- One `Read` of a chunked body. -/
theorem chunked_read (cap : Nat) (last tail rest : Bytes) (t : Option Trailer)
    (hl : LastOK cap last) (ht : TrailerOK cap tail rest t)
    (bd : H1Body) (E : Bytes) (k : Nat) (hrel : ChunkRel cap last tail bd E)
    (d : Bytes) (e : Option IOErr) (bd' : H1Body) (h : bd.read k = ((d, e), bd')) :
    (e = none → ∃ E', E = d ++ E' ∧ ChunkRel cap last tail bd' E' ∧ (0 < k → d ≠ [])) ∧
    (∀ x, e = some x → x = .eof ∧ E = d ∧ bd'.trailer = t ∧ bd'.br.rem = rest) := by
  obtain ⟨cr, hsrc, hcre, hpos, hhdr, hsaw, hcl, hw, hf, hcap⟩ := hrel
  obtain ⟨accR', cr', b', x, E', hrun, hp, hE, hpos', hw', hf', hcap', _, hxk, hprog⟩ :=
    readLoop_spec cap last tail hl (Chunked.fuel k) cr bd.br k 0 [] E hpos hw hf hcap
      (by have := posWeight_le cr; unfold Chunked.fuel; omega)
  unfold H1Body.read at h
  simp only [hcl, Bool.false_eq_true, if_false] at h
  unfold H1Body.readLocked at h
  simp only [hsaw, Bool.false_eq_true, if_false, hsrc] at h
  unfold Chunked.read at h
  simp only [hrun] at h
  have hx : piecesBytes accR' = x := by simpa [piecesBytes] using hp
  rw [hx] at h
  generalize hrem' : b'.rem = rem' at hpos'
  cases hpos' with
  | done =>
    -- the last chunk was reached in this call: read the trailer section, report EOF
    obtain ⟨b2, hrt, hrem2⟩ := ht b' hrem' hw' hf' hcap'
    simp only [hhdr, if_true, hrt] at h
    simp only [Prod.mk.injEq] at h
    obtain ⟨⟨rfl, rfl⟩, rfl⟩ := h
    refine ⟨fun h0 => by simp at h0, ?_⟩
    intro x' hx'
    simp only [Option.some.injEq] at hx'
    exact ⟨hx'.symm, by simpa using hE, rfl, hrem2⟩
  | header cs hcs =>
    simp only [Prod.mk.injEq] at h
    obtain ⟨⟨rfl, rfl⟩, rfl⟩ := h
    refine ⟨fun _ => ⟨_, hE, ⟨_, rfl, rfl, by rw [hrem']; exact CPos.header cs hcs, hhdr, rfl, hcl, hw', hf', hcap'⟩, ?_⟩, fun x' hx' => by simp at hx'⟩
    intro hk hd0
    have := hprog rfl hk hd0
    simp at this
  | footer cs hcs =>
    simp only [Prod.mk.injEq] at h
    obtain ⟨⟨rfl, rfl⟩, rfl⟩ := h
    refine ⟨fun _ => ⟨_, hE, ⟨_, rfl, rfl, by rw [hrem']; exact CPos.footer cs hcs, hhdr, rfl, hcl, hw', hf', hcap'⟩, ?_⟩, fun x' hx' => by simp at hx'⟩
    intro hk hd0
    have := hprog rfl hk hd0
    simp at this
  | data d1 cs hd1 hcs =>
    simp only [Prod.mk.injEq] at h
    obtain ⟨⟨rfl, rfl⟩, rfl⟩ := h
    refine ⟨fun _ => ⟨_, hE, ⟨_, rfl, rfl, by rw [hrem']; exact CPos.data d1 cs hd1 hcs, hhdr, rfl, hcl, hw', hf', hcap'⟩, ?_⟩, fun x' hx' => by simp at hx'⟩
    intro hk hd0
    have := hprog rfl hk hd0
    simp at this

theorem chunked_refines (cap : Nat) (last tail rest : Bytes) (t : Option Trailer)
    (hl : LastOK cap last) (ht : TrailerOK cap tail rest t) :
    RefinesR H1Body.read (ChunkRel cap last tail) (· = IOErr.eof) where
  step_ok := by
    intro bd E k d bd' hrel h
    obtain ⟨E', hE, hrel', _⟩ := (chunked_read cap last tail rest t hl ht bd E k hrel d none bd' h).1 rfl
    exact ⟨E', hE, hrel'⟩
  step_end := by
    intro bd E k d e bd' hrel h
    obtain ⟨_, hE, _, _⟩ := (chunked_read cap last tail rest t hl ht bd E k hrel d (some e) bd' h).2 e rfl
    exact ⟨⟨[], by simp [hE]⟩, fun _ => hE⟩

end Req.C02
