import Req.Driver.Proto
/-! Deciding a Boolean fact about every byte by evaluating it on the 256 values. -/
namespace Req.U8

theorem all (f : UInt8 → Bool)
    (h : (List.range 256).all (fun n => f (UInt8.ofNat n)) = true) : ∀ c, f c = true := by
  intro c
  have h2 := List.all_eq_true.mp h c.toNat (by simp [List.mem_range]; exact UInt8.toNat_lt c)
  simpa using h2

end Req.U8
