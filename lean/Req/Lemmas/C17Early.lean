import Req.Client.EarlyResponse
/-! Step lemmas for `Req.EarlyResponse` (helpers of `Req.Props.C17Early`). -/
namespace Req.Lemmas.C17Early
open Req.EarlyResponse

theorem step_total (p : Proto) (s : St) (e : Ev) : (step p s e).total = s.total := by
  cases e <;> simp only [step] <;> (repeat' split) <;> rfl

theorem step_seen (p : Proto) (s : St) (e : Ev) : (step p s e).seen = see s.seen e := by
  cases e <;> simp only [step] <;> (repeat' split) <;> rfl

theorem step_stopped (p : Proto) (s : St) (e : Ev) :
    (step p s e).stopped = (s.stopped || releases p s.seen e) := by
  cases e <;> simp only [step, releases] <;> (repeat' split) <;> simp_all <;> grind

theorem step_sent (p : Proto) (s : St) (e : Ev) (h : s.sent ≤ s.total) :
    s.sent ≤ (step p s e).sent ∧ (step p s e).sent ≤ s.total := by
  cases e <;> simp only [step] <;> (repeat' split) <;> simp <;> omega

theorem step_end (p : Proto) (s : St) (e : Ev) (h : s.endSent = true → s.sent = s.total) :
    (step p s e).endSent = true → (step p s e).sent = (step p s e).total := by
  cases e <;> simp only [step] <;> (repeat' split) <;> simp_all

theorem run_append (p : Proto) (s : St) (a b : List Ev) :
    run p s (a ++ b) = run p (run p s a) b := by
  induction a generalizing s with
  | nil => rfl
  | cons e es ih => simp [run, ih]

theorem run_total (p : Proto) (s : St) (evs : List Ev) : (run p s evs).total = s.total := by
  induction evs generalizing s with
  | nil => rfl
  | cons e es ih => simp [run, ih, step_total]

theorem run_seen (p : Proto) (s : St) (evs : List Ev) :
    (run p s evs).seen = evs.foldl see s.seen := by
  induction evs generalizing s with
  | nil => rfl
  | cons e es ih => simp [run, ih, step_seen]

theorem run_stopped (p : Proto) (s : St) (evs : List Ev) :
    (run p s evs).stopped = (s.stopped || released p s.seen evs) := by
  induction evs generalizing s with
  | nil => simp [run, released]
  | cons e es ih => simp [run, released, ih, step_stopped, step_seen, Bool.or_assoc]

/-- writer invariant: never more than the body, never less than before, END only at the end -/
structure Inv (s : St) : Prop where
  le : s.sent ≤ s.total
  fin : s.endSent = true → s.sent = s.total

theorem inv_init (t : Nat) : Inv (init t) :=
  ⟨Nat.zero_le _, by simp [init]; omega⟩

theorem inv_step (p : Proto) (s : St) (e : Ev) (h : Inv s) : Inv (step p s e) := by
  constructor
  · have := step_sent p s e h.le; rw [step_total]; exact this.2
  · exact step_end p s e h.fin

theorem inv_run (p : Proto) (s : St) (evs : List Ev) (h : Inv s) : Inv (run p s evs) := by
  induction evs generalizing s with
  | nil => exact h
  | cons e es ih => exact ih _ (inv_step p s e h)

theorem run_sent_mono (p : Proto) (s : St) (evs : List Ev) (h : Inv s) :
    s.sent ≤ (run p s evs).sent := by
  induction evs generalizing s with
  | nil => exact Nat.le_refl _
  | cons e es ih =>
    exact Nat.le_trans (step_sent p s e h.le).1 (ih _ (inv_step p s e h))

/-- one round "credit `c`, write turn `c`" of a writer that was not told to stop -/
theorem round (p : Proto) (c : Nat) (s : St) (h : Inv s) (hs : s.stopped = false) :
    let s' := step p (step p s (.credit c)) (.write c)
    s'.stopped = false ∧ s'.total = s.total ∧ s'.seen = s.seen ∧
    s'.sent = min s.total (s.sent + c) ∧
    (0 < c → s'.endSent = decide (s'.sent = s'.total)) := by
  have hle := h.le
  have hfin := h.fin
  cases he : s.endSent
  · simp [step, see, hs, he]
    omega
  · have := hfin he
    simp [step, see, hs, he, this]

theorem pump_spec (p : Proto) (c k : Nat) (s : St) (h : Inv s) (hs : s.stopped = false) :
    (pump p c k s).stopped = false ∧ (pump p c k s).total = s.total ∧
    (pump p c k s).seen = s.seen ∧
    (pump p c k s).sent = min s.total (s.sent + k * c) := by
  induction k generalizing s with
  | zero => simp [pump, hs]; exact (Nat.min_eq_right h.le).symm
  | succ k ih =>
    have r := round p c s h hs
    simp only at r
    obtain ⟨r1, r2, r3, r4, _⟩ := r
    have hi : Inv (step p (step p s (.credit c)) (.write c)) := inv_step _ _ _ (inv_step _ _ _ h)
    obtain ⟨i1, i2, i3, i4⟩ := ih _ hi r1
    simp only [pump]
    refine ⟨i1, by rw [i2, r2], by rw [i3, r3], ?_⟩
    rw [i4, r2, r4, Nat.succ_mul]; omega

theorem pump_end (p : Proto) (c k : Nat) (s : St) (h : Inv s) (hs : s.stopped = false)
    (hc : 0 < c) (hk : 0 < k) :
    (pump p c k s).endSent = decide ((pump p c k s).sent = s.total) := by
  induction k generalizing s with
  | zero => omega
  | succ k ih =>
    have r := round p c s h hs
    simp only at r
    obtain ⟨r1, r2, _, _, r5⟩ := r
    have hi : Inv (step p (step p s (.credit c)) (.write c)) := inv_step _ _ _ (inv_step _ _ _ h)
    cases k with
    | zero =>
      show (step p (step p s (.credit c)) (.write c)).endSent = _
      rw [r5 hc, r2]; rfl
    | succ k =>
      have := ih _ hi r1 (Nat.succ_pos _)
      rw [r2] at this
      exact this

end Req.Lemmas.C17Early
