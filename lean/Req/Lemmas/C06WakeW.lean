import Req.Lemmas.C06Send
import Req.Lemmas.C06Wake
/-!
C06 — helper lemmas for the wake-up discipline of the *body writers*: a writer blocked in
`awaitFlowControl` sleeps on `cc.cond` until `cs.flow.available()` is positive. The only
operations that can raise what a live stream's writer sees are a WINDOW_UPDATE that is applied
and a SETTINGS frame with SETTINGS_INITIAL_WINDOW_SIZE — and both broadcast (`Conn.wakes`).

`NoRaise st st1`: the connection window did not grow and no stream's window grew. Proved for
every handler that does not broadcast by a walk over the handlers.
-/
set_option linter.unusedSimpArgs false
namespace Req.Lemmas.C06
open Req.H2 Req.H2.Flow Req.H2.Conn

/-- the send window a live stream's body writer sees (`cs.flow.available()`) -/
def availOf (st : State) (id : Nat) : Option Int :=
  match findStream st.streams id with
  | some s => if s.live then some (available st.connOut s.out) else none
  | none => none

structure NoRaise (st st1 : State) : Prop where
  conn : st1.connOut ≤ st.connOut
  strm : ∀ id s s1, findStream st.streams id = some s → findStream st1.streams id = some s1 → s1.out ≤ s.out

theorem noraise_refl (st : State) : NoRaise st st :=
  ⟨Int.le_refl _, fun id s s1 h h1 => by rw [h] at h1; cases h1; exact Int.le_refl _⟩

/-- only fields other than the windows and the stream table changed -/
theorem noraise_of_eq {st st1 : State} (h1 : st1.connOut = st.connOut) (h2 : st1.streams = st.streams) :
    NoRaise st st1 :=
  ⟨by rw [h1]; exact Int.le_refl _, fun id s s1 h h' => by rw [h2, h] at h'; cases h'; exact Int.le_refl _⟩

theorem find_setStream_any (l : List Stream) (s' : Stream) (id : Nat) :
    findStream (setStream l s') id =
      (findStream l id).map fun t => if t.id = s'.id then s' else t := by
  induction l with
  | nil => rfl
  | cons a l ih =>
    unfold findStream at *
    unfold setStream at *
    simp only [List.map_cons, List.find?]
    by_cases ha : a.id = s'.id
    · simp only [ha, if_true]
      by_cases hid : s'.id = id
      · simp [hid, ha]
      · have : ¬ a.id = id := by rw [ha]; exact hid
        simp only [hid, this, decide_false]
        exact ih
    · simp only [ha, if_false]
      by_cases hid : a.id = id
      · have hne : ¬ id = s'.id := by intro h; exact ha (hid.trans h)
        simp [hid, hne]
      · simp only [hid, decide_false]
        exact ih

/-- replacing a stream by one whose window is not larger -/
theorem noraise_setStream {st : State} {s' : Stream} (c : Int) (hc : c ≤ st.connOut)
    (h : ∀ s, findStream st.streams s'.id = some s → s'.out ≤ s.out) (st1 : State)
    (h1 : st1.connOut = c) (h2 : st1.streams = setStream st.streams s') : NoRaise st st1 := by
  refine ⟨by rw [h1]; exact hc, ?_⟩
  intro id s s1 hf hf1
  rw [h2, find_setStream_any, hf] at hf1
  simp only [Option.map_some, Option.some.injEq] at hf1
  by_cases hid : s.id = s'.id
  · rw [if_pos hid] at hf1
    rw [← hf1]
    have hsid : s.id = id := (findStream_mem hf).2
    exact h s (by rw [← hid, hsid]; exact hf)
  · rw [if_neg hid] at hf1
    rw [← hf1]; exact Int.le_refl _

theorem noraise_trans {a b c : State} (h1 : NoRaise a b) (h2 : NoRaise b c)
    (hdom : ∀ id s, findStream a.streams id = some s → ∃ s1, findStream b.streams id = some s1) :
    NoRaise a c := by
  refine ⟨Int.le_trans h2.conn h1.conn, ?_⟩
  intro id s s2 hf hf2
  obtain ⟨s1, hf1⟩ := hdom id s hf
  exact Int.le_trans (h2.strm id s1 s2 hf1 hf2) (h1.strm id s s1 hf hf1)

/-- `setStream` keeps every id in the table -/
theorem dom_setStream (l : List Stream) (s' : Stream) (id : Nat) (s : Stream)
    (h : findStream l id = some s) : ∃ s1, findStream (setStream l s') id = some s1 := by
  rw [find_setStream_any, h]; exact ⟨_, rfl⟩

theorem noraise_forget (st : State) {id0 : Nat} {s s' : Stream} (hf : findStream st.streams id0 = some s)
    (hid : s'.id = s.id) (ho : s'.out ≤ s.out) : NoRaise st (forget st s') := by
  have hsid : s.id = id0 := (findStream_mem hf).2
  have hkey : ∀ t, findStream st.streams ({ s' with live := false } : Stream).id = some t →
      ({ s' with live := false } : Stream).out ≤ t.out := by
    intro t ht
    have : findStream st.streams id0 = some t := by
      have e : ({ s' with live := false } : Stream).id = id0 := by show s'.id = id0; rw [hid, hsid]
      rw [e] at ht; exact ht
    rw [hf] at this; cases this; exact ho
  unfold forget
  simp only
  split
  · exact noraise_setStream (s' := { s' with live := false }) st.connOut (Int.le_refl _) hkey _ rfl rfl
  · exact noraise_setStream (s' := { s' with live := false }) st.connOut (Int.le_refl _) hkey _ rfl rfl

theorem noraise_terminate (st : State) {id0 : Nat} {s s' : Stream} (b : Bool)
    (hf : findStream st.streams id0 = some s) (hid : s'.id = s.id) (ho : s'.out ≤ s.out) :
    NoRaise st (terminate st s' b).1 := by
  unfold terminate; exact noraise_forget st hf hid ho

theorem noraise_settle (st : State) {id0 : Nat} {s s' : Stream}
    (hf : findStream st.streams id0 = some s) (hid : s'.id = s.id) (ho : s'.out ≤ s.out) :
    NoRaise st (settle st s') := by
  have hsid : s.id = id0 := (findStream_mem hf).2
  unfold settle
  split
  · exact noraise_forget st hf hid ho
  · refine noraise_setStream (s' := s') st.connOut (Int.le_refl _) ?_ _ rfl rfl
    intro t ht
    rw [hid, hsid, hf] at ht; cases ht; exact ho

/-- updating one stream's books without touching its window -/
theorem noraise_upd (st st1 : State) {s' : Stream} (h2 : st1.streams = setStream st.streams s')
    (h1 : st1.connOut = st.connOut) {id0 : Nat} {s : Stream} (hf : findStream st.streams id0 = some s)
    (hid : s'.id = s.id) (ho : s'.out ≤ s.out) : NoRaise st st1 := by
  have hsid : s.id = id0 := (findStream_mem hf).2
  refine noraise_setStream (s' := s') st.connOut (Int.le_refl _) ?_ st1 h1 h2
  intro t ht
  rw [hid, hsid, hf] at ht; cases ht; exact ho

theorem noraise_closeStream (st : State) {id0 : Nat} {s s' : Stream}
    (hf : findStream st.streams id0 = some s) (hid : s'.id = s.id) (ho : s'.out ≤ s.out) :
    NoRaise st (closeStream st s s').1 := by
  unfold closeStream
  split
  · exact noraise_terminate st false hf hid ho
  · exact noraise_upd st _ rfl rfl hf hid ho

theorem creditConn_windows (r : State × List Frame) (n : Nat) :
    (creditConn r n).1.connOut = r.1.connOut ∧ (creditConn r n).1.streams = r.1.streams := by
  unfold creditConn
  split
  · split <;> exact ⟨rfl, rfl⟩
  · exact ⟨rfl, rfl⟩

theorem noraise_creditConn {st : State} (r : State × List Frame) (n : Nat) (h : NoRaise st r.1) :
    NoRaise st (creditConn r n).1 := by
  obtain ⟨h1, h2⟩ := creditConn_windows r n
  exact ⟨by rw [h1]; exact h.conn, by rw [h2]; exact h.strm⟩

theorem noraise_readCore (st : State) {id0 : Nat} {s s' : Stream} (hf : findStream st.streams id0 = some s)
    (hid : s'.id = s.id) (ho : s'.out ≤ s.out) (k : Nat) : NoRaise st (readCore st s' k).1 := by
  unfold readCore
  split
  · exact noraise_of_eq rfl rfl
  · split
    · exact noraise_of_eq rfl rfl
    · exact noraise_upd st _ rfl rfl hf hid ho

theorem noraise_readK (st : State) {id0 : Nat} {s : Stream} (hf : findStream st.streams id0 = some s) (k : Nat) :
    NoRaise st (readK st s k).1 := by
  unfold readK
  split
  · exact noraise_readCore st hf rfl (Int.le_refl _) k
  · rename_i rem _
    split
    · unfold readOverlong
      split
      · exact noraise_creditConn _ _ (noraise_closeStream st hf rfl (Int.le_refl _))
      · exact noraise_closeStream st hf rfl (Int.le_refl _)
    · exact noraise_readCore st hf (s' := { s with bytesRemain := some (rem - k) }) rfl (Int.le_refl _) k

theorem awaitTake_nonneg {a b mf : Int} (ha : 0 < a) (hb : 0 ≤ b) (hm : 0 ≤ mf) : 0 ≤ awaitTake a b mf := by
  unfold awaitTake; simp only; split <;> split <;> omega

theorem writeStep_noraise {c0 : Int} {mf : Nat} {s s' : Stream} {c : Int} {f : Frame}
    (hw : writeStep c0 mf s = some (c, s', f)) : c ≤ c0 ∧ s'.id = s.id ∧ s'.out ≤ s.out := by
  unfold writeStep at hw
  split at hw
  · cases hw
  · split at hw
    · split at hw
      · cases hw; exact ⟨Int.le_refl _, rfl, Int.le_refl _⟩
      · cases hw
    · split at hw
      · cases hw
      · rename_i hav
        cases hw
        have := awaitTake_nonneg (a := available c0 s.out) (b := (s.chunk : Int)) (mf := (mf : Int))
          (by omega) (by omega) (by omega)
        refine ⟨?_, rfl, ?_⟩
        · show c0 - _ ≤ c0; omega
        · show s.out - _ ≤ s.out; omega

theorem noraise_write (st : State) (id : Nat) : NoRaise st (write st id).1 := by
  unfold write
  split
  · exact noraise_refl st
  · rename_i s hf
    split
    · rename_i s' fs ht
      unfold trailerStep at ht
      split at ht
      · cases ht
      · split at ht
        · cases ht
          exact noraise_settle st hf rfl (Int.le_refl _)
        · cases ht
    · split
      · exact noraise_refl st
      · rename_i c s' f hw
        obtain ⟨h1, h2, h3⟩ := writeStep_noraise hw
        have hb : NoRaise { st with connOut := c } (settle { st with connOut := c } s') :=
          noraise_settle { st with connOut := c } (s := s) hf h2 h3
        exact ⟨Int.le_trans hb.conn h1, hb.strm⟩

theorem discardData_windows (st : State) (s : Stream) (flen : Int) :
    (discardData st s flen).1.connOut = st.connOut ∧
    ((discardData st s flen).1.streams = st.streams ∨
     (discardData st s flen).1.streams = (terminate st s false).1.streams) := by
  have ht : (terminate st s false).1.connOut = st.connOut := by
    unfold terminate forget; simp only; split <;> rfl
  unfold discardData
  simp only
  split
  · split
    · exact ⟨rfl, Or.inl rfl⟩
    · split
      · exact ⟨rfl, Or.inl rfl⟩
      · exact ⟨ht, Or.inr rfl⟩
  · exact ⟨ht, Or.inr rfl⟩

theorem noraise_discardData (st : State) {id0 : Nat} {s : Stream} (hf : findStream st.streams id0 = some s)
    (flen : Int) : NoRaise st (discardData st s flen).1 := by
  obtain ⟨h1, h2⟩ := discardData_windows st s flen
  have ht := noraise_terminate st false hf (s' := s) rfl (Int.le_refl _)
  rcases h2 with h2 | h2
  · exact noraise_of_eq h1 h2
  · exact ⟨by rw [h1]; exact Int.le_refl _, by rw [h2]; exact ht.strm⟩

theorem filter_live_find {l : List Stream} {id : Nat} {s : Stream}
    (h : (findStream l id).filter (·.live) = some s) : findStream l id = some s := by
  cases hf : findStream l id with
  | none => rw [hf] at h; simp at h
  | some s0 =>
    rw [hf] at h
    simp only [Option.filter] at h
    split at h
    · cases h; rfl
    · cases h

theorem noraise_peerData (st : State) (id len pad : Nat) (es : Bool) :
    NoRaise st (peerData st id len pad es).1 := by
  unfold peerData
  simp only
  split
  · split
    · exact noraise_of_eq rfl rfl
    · split
      · split
        · exact noraise_of_eq rfl rfl
        · split <;> exact noraise_of_eq rfl rfl
      · exact noraise_refl st
  · rename_i s hfs
    have hf := filter_live_find hfs
    split
    · exact noraise_discardData st hf _
    · split
      · split
        · exact noraise_of_eq rfl rfl
        · split
          · exact noraise_of_eq rfl rfl
          · split
            · exact noraise_of_eq rfl rfl
            · rename_i ci' _ _ _ si' _ _
              have hb : NoRaise { st with connIn := ci' }
                  (settle { st with connIn := ci' } { s with inflow := si', buffered := s.buffered + len, peerEnd := es }) :=
                noraise_settle { st with connIn := ci' } (s := s) hf rfl (Int.le_refl _)
              exact ⟨hb.conn, hb.strm⟩
      · exact noraise_settle st hf rfl (Int.le_refl _)

theorem noraise_peerResp (st : State) (id : Nat) (es : Bool) (status : Nat) (cl : Option Nat) :
    NoRaise st (peerResp st id es status cl).1 := by
  unfold peerResp
  split
  · exact noraise_refl st
  · rename_i s hf
    split
    · exact noraise_refl st
    · split
      · exact noraise_terminate st false hf rfl (Int.le_refl _)
      · split
        · split
          · exact noraise_terminate st false hf rfl (Int.le_refl _)
          · split
            · split
              · exact noraise_terminate st false hf rfl (Int.le_refl _)
              · exact noraise_upd st _ rfl rfl hf rfl (Int.le_refl _)
            · exact noraise_settle st hf rfl (Int.le_refl _)
        · split
          · exact noraise_of_eq rfl rfl
          · exact noraise_settle st hf rfl (Int.le_refl _)

theorem dom_forget (st : State) (s' : Stream) (id : Nat) (s : Stream)
    (h : findStream st.streams id = some s) : ∃ s1, findStream (forget st s').streams id = some s1 := by
  unfold forget
  simp only
  split <;> exact dom_setStream _ _ _ _ h

theorem noraise_abortAbove (last : Nat) (ids : List Nat) :
    ∀ st : State, NoRaise st (abortAbove last ids st).1 := by
  induction ids with
  | nil => intro st; exact noraise_refl st
  | cons id rest ih =>
    intro st
    unfold abortAbove
    split
    · exact ih st
    · rename_i s hf
      split
      · have h1 := noraise_terminate st false hf (s' := s) rfl (Int.le_refl _)
        have h2 := ih (terminate st s false).1
        simp only
        exact noraise_trans h1 h2 (fun i x hx => by unfold terminate; exact dom_forget st s i x hx)
      · exact ih st

theorem find_append_old (l : List Stream) (x : Stream) (id : Nat) (s : Stream)
    (h : findStream l id = some s) : findStream (l ++ [x]) id = some s := by
  unfold findStream at *
  rw [List.find?_append, h]; rfl

theorem noraise_doOpen (st : State) (r : Req) : NoRaise st (doOpen st r).1 := by
  simp only [doOpen]
  refine ⟨Int.le_refl _, ?_⟩
  intro id s s1 hf hf1
  simp only at hf1
  rw [find_append_old _ _ _ _ hf] at hf1
  cases hf1; exact Int.le_refl _

/-- every operation except an applied WINDOW_UPDATE and a SETTINGS frame leaves every send
window where it was or lower -/
theorem noraise_apply (st : State) (op : Op)
    (h1 : ∀ id inc, op ≠ .peer (.windowUpdate id inc)) (h2 : ∀ vals, op ≠ .peer (.settings vals)) :
    NoRaise st (apply st op).1 := by
  cases op with
  | openReq r =>
    simp only [apply, openStream]
    split
    · exact noraise_refl st
    · split
      · exact noraise_refl st
      · split
        · exact noraise_doOpen st r
        · exact noraise_of_eq rfl rfl
  | feed id n =>
    simp only [apply, feed]
    split
    · exact noraise_refl st
    · rename_i s hf
      split
      · exact noraise_upd st _ rfl rfl hf rfl (Int.le_refl _)
      · exact noraise_refl st
  | write id => exact noraise_write st id
  | cancel id =>
    simp only [apply, cancel]
    split
    · exact noraise_refl st
    · rename_i s hf
      split
      · exact noraise_terminate st false hf rfl (Int.le_refl _)
      · exact noraise_refl st
  | read id n =>
    simp only [apply, Conn.read]
    split
    · exact noraise_refl st
    · rename_i s hf
      split
      · exact noraise_readK st hf _
      · exact noraise_refl st
  | close id =>
    simp only [apply, close]
    split
    · exact noraise_refl st
    · rename_i s hf
      split
      · exact noraise_creditConn _ _ (noraise_closeStream st hf (s' := { s with broken := true, buffered := 0 }) rfl (Int.le_refl _))
      · exact noraise_refl st
  | wake => exact noraise_refl st
  | peer f =>
    cases f with
    | settings vals => exact absurd rfl (h2 vals)
    | settingsAck =>
      simp only [apply, Conn.peer, peerSettingsAck]
      split <;> exact noraise_of_eq rfl rfl
    | windowUpdate id inc => exact absurd rfl (h1 id inc)
    | rst id code =>
      simp only [apply, Conn.peer, peerRst]
      split
      · exact noraise_refl st
      · rename_i s hf
        split
        · exact noraise_refl st
        · have := noraise_terminate { st with doNotReuse := st.doNotReuse || decide (code = 1) } true (s := s) hf
            (s' := s) rfl (Int.le_refl _)
          exact ⟨this.conn, this.strm⟩
    | goaway last =>
      simp only [apply, Conn.peer, peerGoAway]
      have := noraise_abortAbove last (st.streams.map (·.id)) { st with goAway := true }
      exact ⟨this.conn, this.strm⟩
    | resp id es status cl => exact noraise_peerResp st id es status cl
    | data id len pad es => exact noraise_peerData st id len pad es
    | ping ack d =>
      simp only [apply, Conn.peer, peerPing]
      split <;> exact noraise_refl st
    | pushPromise id p => exact noraise_of_eq rfl rfl

theorem available_mono {c c1 o o1 : Int} (hc : c1 ≤ c) (ho : o1 ≤ o) : available c1 o1 ≤ available c o := by
  unfold available; split <;> split <;> omega

/-- a SETTINGS frame without SETTINGS_INITIAL_WINDOW_SIZE leaves the windows alone -/
theorem applySetting_windows {st st' : State} {sm sm' : Bool} {p : Nat × Nat}
    (hp : (p.1 == sInitialWindowSize) = false) (h : applySetting st sm p = some (st', sm')) :
    st'.connOut = st.connOut ∧ st'.streams = st.streams := by
  have hne : ¬ p.1 = sInitialWindowSize := by simpa using hp
  by_cases h5 : p.1 = sMaxFrameSize
  · simp only [applySetting, h5, if_true] at h
    split at h
    · cases h
    · cases h; exact ⟨rfl, rfl⟩
  · by_cases h3 : p.1 = sMaxConcurrentStreams
    · simp only [applySetting, h5, h3, if_true, if_false] at h
      cases h; exact ⟨rfl, rfl⟩
    · simp only [applySetting, h5, h3, hne, if_false] at h
      cases h; exact ⟨rfl, rfl⟩

theorem applySettings_windows {vals : List (Nat × Nat)} (hv : vals.any (·.1 == sInitialWindowSize) = false) :
    ∀ {st st' : State} {sm sm' : Bool}, applySettings st sm vals = some (st', sm') →
      st'.connOut = st.connOut ∧ st'.streams = st.streams := by
  induction vals with
  | nil =>
    intro st st' sm sm' h
    simp only [applySettings, Option.some.injEq, Prod.mk.injEq] at h
    rw [← h.1]; exact ⟨rfl, rfl⟩
  | cons p ps ih =>
    intro st st' sm sm' h
    simp only [List.any_cons, Bool.or_eq_false_iff] at hv
    unfold applySettings at h
    split at h
    · cases h
    · rename_i st1 sm1 h1
      obtain ⟨a1, a2⟩ := applySetting_windows hv.1 h1
      obtain ⟨b1, b2⟩ := ih hv.2 h
      exact ⟨b1.trans a1, b2.trans a2⟩

/-- **writer wake-up**: whenever an operation raises the send window that a live stream's body
writer sees, the operation ends in a broadcast (`Conn.wakes`). -/
theorem writer_woken_apply (st : State) (op : Op) (id : Nat) (a a1 : Int)
    (h0 : availOf st id = some a) (h1 : availOf (apply st op).1 id = some a1) (hup : a < a1) :
    wakes st (apply st op).1 op = true := by
  -- contrapositive: without a broadcast the window did not grow
  cases hw : wakes st (apply st op).1 op with
  | true => rfl
  | false =>
    exfalso
    have hle : a1 ≤ a := by
      unfold availOf at h0 h1
      cases hf : findStream st.streams id with
      | none => rw [hf] at h0; cases h0
      | some s =>
        rw [hf] at h0
        cases hf1 : findStream (apply st op).1.streams id with
        | none => rw [hf1] at h1; cases h1
        | some s1 =>
          rw [hf1] at h1
          simp only at h0 h1
          split at h0
          · split at h1
            · cases h0; cases h1
              by_cases hwu : ∃ i inc, op = .peer (.windowUpdate i inc)
              · obtain ⟨i, inc, rfl⟩ := hwu
                -- not applied: unknown or dead stream (a connection-level one always broadcasts)
                simp only [wakes, Bool.or_eq_false_iff, beq_eq_false_iff_ne, ne_eq] at hw
                have hst : (apply st (.peer (.windowUpdate i inc))).1 = st := by
                  simp only [apply, Conn.peer, peerWindowUpdate, hw.1, if_false]
                  cases hfi : findStream st.streams i with
                  | none => rfl
                  | some si =>
                    have hl : si.live = false := by have := hw.2; rw [hfi] at this; exact this
                    simp [hl]
                rw [hst] at hf1
                rw [hf] at hf1; cases hf1
                rw [hst]; exact Int.le_refl _
              · by_cases hset : ∃ vals, op = .peer (.settings vals)
                · obtain ⟨vals, rfl⟩ := hset
                  simp only [wakes, Bool.or_eq_false_iff] at hw
                  have hwin : (apply st (.peer (.settings vals))).1.connOut = st.connOut ∧
                      (apply st (.peer (.settings vals))).1.streams = st.streams := by
                    simp only [apply, Conn.peer, peerSettings]
                    split
                    · exact ⟨rfl, rfl⟩
                    · rename_i st1 sm hsome
                      have := applySettings_windows hw.1 hsome
                      split
                      · exact this
                      · exact this
                  rw [hwin.2, hf] at hf1; cases hf1
                  rw [hwin.1]; exact Int.le_refl _
                · have hn := noraise_apply st op (fun i inc hx => hwu ⟨i, inc, hx⟩) (fun v hx => hset ⟨v, hx⟩)
                  exact available_mono hn.conn (hn.strm id s s1 hf hf1)
            · cases h1
          · cases h0
    omega

end Req.Lemmas.C06
