import Req.Pool.CancelPool
import Req.Lemmas.C09Pool
import Req.Lemmas.C09PoolExcl
import Req.Lemmas.C09PoolCount
import Req.Lemmas.C09PoolLru
/-! Helper lemmas for the C08 pool theorems: `firstLive` is what `popUntilWaiting` computes, and
the invariant `NSW` (queued for a slot ⇒ no slot is free) is preserved by every critical section. -/
namespace Req.Lemmas.CancelPool
open Req.Pool.H1Pool Req.Pool.CancelPool Req.Lemmas.C09Pool

/-! ### `firstLive` -/

theorem popUntilWaiting_firstLive (wst : Want → WSt) (q : List Want) :
    popUntilWaiting wst q =
      match firstLive wst q with
      | some (w, r) => (some w, r)
      | none => (none, []) := by
  induction q with
  | nil => rfl
  | cons a t ih =>
    unfold popUntilWaiting firstLive
    split
    · rfl
    · exact ih

theorem firstLive_some (wst : Want → WSt) (q : List Want) (w : Want) (r : List Want)
    (h : firstLive wst q = some (w, r)) :
    ∃ dead, q = dead ++ w :: r ∧ (∀ d ∈ dead, wst d ≠ .waiting) ∧ wst w = .waiting := by
  induction q with
  | nil => simp [firstLive] at h
  | cons a t ih =>
    unfold firstLive at h
    split at h
    · next ha =>
      simp only [Option.some.injEq, Prod.mk.injEq] at h
      obtain ⟨rfl, rfl⟩ := h
      exact ⟨[], rfl, by simp, ha⟩
    · next ha =>
      obtain ⟨dead, hq, hd, hw⟩ := ih h
      refine ⟨a :: dead, by rw [hq]; rfl, ?_, hw⟩
      intro d hdm
      rcases List.mem_cons.mp hdm with rfl | hdm
      · exact ha
      · exact hd d hdm

theorem firstLive_of_split (wst : Want → WSt) (dead : List Want) (w : Want) (r : List Want)
    (hd : ∀ d ∈ dead, wst d ≠ .waiting) (hw : wst w = .waiting) :
    firstLive wst (dead ++ w :: r) = some (w, r) := by
  induction dead with
  | nil => simp [firstLive, hw]
  | cons a t ih =>
    have ha : wst a ≠ .waiting := hd a List.mem_cons_self
    simp only [List.cons_append, firstLive, ha, if_false]
    exact ih (fun d hdm => hd d (List.mem_cons_of_mem _ hdm))

theorem firstLive_none (wst : Want → WSt) (q : List Want) :
    firstLive wst q = none ↔ ∀ w ∈ q, wst w ≠ .waiting := by
  induction q with
  | nil => simp [firstLive]
  | cons a t ih =>
    unfold firstLive
    split
    · next ha =>
      constructor
      · intro h; cases h
      · intro h; exact absurd ha (h a List.mem_cons_self)
    · next ha =>
      rw [ih]
      constructor
      · intro h w hw
        rcases List.mem_cons.mp hw with rfl | hw
        · exact ha
        · exact h w hw
      · intro h w hw; exact h w (List.mem_cons_of_mem _ hw)

theorem hasLive_iff (wst : Want → WSt) (q : List Want) :
    hasLive wst q = true ↔ ∃ w ∈ q, wst w = .waiting := by
  simp [hasLive]

theorem firstLive_isSome_of_hasLive (wst : Want → WSt) (q : List Want) (h : hasLive wst q = true) :
    ∃ w r, firstLive wst q = some (w, r) := by
  cases hf : firstLive wst q with
  | some p => exact ⟨p.1, p.2, rfl⟩
  | none =>
    obtain ⟨w, hw, hwait⟩ := (hasLive_iff wst q).mp h
    exact absurd hwait ((firstLive_none wst q).mp hf w hw)

/-! ### `decConns` dials for the first live waiter -/

theorem decConns_firstLive_some (cfg : Cfg) (s : St) (k : Key) (w : Want) (r : List Want)
    (hpos : cfg.maxConnsPerHost > 0) (hc : s.cph k ≠ 0)
    (h : firstLive s.wst (s.dialWait k) = some (w, r)) :
    decConns cfg s k = startDial { s with dialWait := upd s.dialWait k r } w := by
  unfold decConns
  rw [if_neg (by omega), if_neg hc, popUntilWaiting_firstLive, h]

theorem decConns_firstLive_none (cfg : Cfg) (s : St) (k : Key)
    (hpos : cfg.maxConnsPerHost > 0) (hc : s.cph k ≠ 0)
    (h : firstLive s.wst (s.dialWait k) = none) :
    decConns cfg s k = { s with dialWait := upd s.dialWait k [], cph := upd s.cph k (s.cph k - 1) } := by
  unfold decConns
  rw [if_neg (by omega), if_neg hc, popUntilWaiting_firstLive, h]

/-! ### NSW: somebody queued for a slot ⇒ the limit is set and no slot is free -/

def NSW (cfg : Cfg) (s : St) : Prop :=
  ∀ k, s.dialWait k ≠ [] → cfg.maxConnsPerHost > 0 ∧ cfg.maxConnsPerHost ≤ (s.cph k : Int)

theorem NSW_of_frame {cfg : Cfg} {s s' : St} (h1 : s'.dialWait = s.dialWait) (h2 : s'.cph = s.cph)
    (h : NSW cfg s) : NSW cfg s' := by
  intro k; rw [h1, h2]; exact h k

theorem NSW_decConns (cfg : Cfg) (s : St) (k : Key) (h : NSW cfg s) : NSW cfg (decConns cfg s k) := by
  unfold decConns
  split
  · exact h
  · split
    · exact NSW_of_frame rfl rfl h
    · split
      · next w q heq =>
        have hne : s.dialWait k ≠ [] := popUntilWaiting_some_ne s.wst _ w (by rw [heq])
        intro k' hk'
        simp only [startDial, upd] at hk' ⊢
        by_cases hkk : k' = k
        · subst hkk; exact h k' hne
        · simp only [hkk, if_false] at hk'; exact h k' hk'
      · next q heq =>
        have hq : q = [] := by
          have := popUntilWaiting_none s.wst (s.dialWait k) (by rw [heq])
          rw [heq] at this; exact this
        intro k' hk'
        simp only [upd] at hk' ⊢
        by_cases hkk : k' = k
        · subst hkk; simp [hq] at hk'
        · simp only [hkk, if_false] at hk' ⊢; exact h k' hk'

theorem NSW_closeConn (cfg : Cfg) (s : St) (c : Conn) (h : NSW cfg s) : NSW cfg (closeConn cfg s c) := by
  unfold closeConn
  split
  · exact h
  · split
    · exact h
    · exact NSW_decConns cfg _ _ (NSW_of_frame rfl rfl h)

@[simp] theorem removeIdleLocked_dialWait (s : St) (c : Conn) : (removeIdleLocked s c).1.dialWait = s.dialWait := by
  unfold removeIdleLocked; (repeat' split) <;> rfl

theorem NSW_removeIdleLocked (cfg : Cfg) (s : St) (c : Conn) (h : NSW cfg s) : NSW cfg (removeIdleLocked s c).1 :=
  NSW_of_frame (by simp) (by simp) h

theorem NSW_evictOldest (cfg : Cfg) (s : St) (h : NSW cfg s) : NSW cfg (evictOldest cfg s) := by
  unfold evictOldest
  split
  · exact h
  · exact NSW_removeIdleLocked cfg _ _ (NSW_closeConn cfg _ _ (NSW_of_frame rfl rfl h))

theorem NSW_addIdle (cfg : Cfg) (s : St) (c : Conn) (k : Key) (h : NSW cfg s) : NSW cfg (addIdle cfg s c k) := by
  unfold addIdle
  simp only
  split
  · exact NSW_evictOldest cfg _ (NSW_of_frame rfl rfl h)
  · exact NSW_of_frame rfl rfl h

theorem NSW_tryPut (cfg : Cfg) (s : St) (c : Conn) (k : Key) (h : NSW cfg s) : NSW cfg (tryPut cfg s c k).1 := by
  unfold tryPut
  split
  · exact h
  · split
    · exact h
    · split
      · exact NSW_of_frame rfl rfl h
      · simp only
        (repeat' split) <;>
          first
          | exact NSW_of_frame rfl rfl h
          | exact NSW_addIdle cfg _ _ _ (NSW_of_frame rfl rfl h)

theorem queueIdle_dialWait (cfg : Cfg) (s : St) (w : Want) (k : Key) : (queueIdle cfg s w k).1.dialWait = s.dialWait := by
  unfold queueIdle
  split
  · rfl
  · simp only
    (repeat' split) <;> rfl

theorem NSW_queueIdle (cfg : Cfg) (s : St) (w : Want) (k : Key) (h : NSW cfg s) : NSW cfg (queueIdle cfg s w k).1 :=
  NSW_of_frame (queueIdle_dialWait _ _ _ _) (queueIdle_cph _ _ _ _) h

theorem NSW_queueDial (cfg : Cfg) (s : St) (w : Want) (k : Key) (h : NSW cfg s) : NSW cfg (queueDial cfg s w k) := by
  unfold queueDial startDial
  split
  · exact h
  · next hpos =>
    split
    · next hlt =>
      intro k' hk'
      simp only [upd] at hk' ⊢
      have := h k' hk'
      by_cases hkk : k' = k
      · subst hkk; simp only [if_true]; omega
      · simp only [hkk, if_false]; exact this
    · next hge =>
      intro k' hk'
      simp only [upd] at hk' ⊢
      by_cases hkk : k' = k
      · subst hkk; exact ⟨by omega, by omega⟩
      · simp only [hkk, if_false] at hk'; exact h k' hk'

theorem NSW_step (cfg : Cfg) (s : St) (op : Op) (h : NSW cfg s) : NSW cfg (step cfg s op).1 := by
  cases op with
  | newWant w k => simp only [step]; split <;> first | exact h | exact NSW_of_frame rfl rfl h
  | queueIdle w => simp only [step]; split; exact h; exact NSW_queueIdle _ _ _ _ h
  | queueDial w =>
    simp only [step]; split; exact h
    split; exact h
    exact NSW_queueDial cfg s w _ h
  | dialBegin w =>
    simp only [step]; split; exact h
    split; exact h
    split; exact h
    exact NSW_decConns _ _ _ (NSW_of_frame rfl rfl h)
  | dialOk w c =>
    simp only [step]; split
    · split; exact h
      split <;> exact NSW_of_frame rfl rfl h
    · exact h
  | dialFail w =>
    simp only [step]; split; exact h
    split; exact h
    simp only
    split <;> exact NSW_decConns _ _ _ (NSW_of_frame rfl rfl h)
  | dialEnd w => simp only [step]; split <;> first | exact h | exact NSW_of_frame rfl rfl h
  | recv w => simp only [step]; split <;> first | exact h | exact NSW_of_frame rfl rfl h
  | cancel w =>
    simp only [step]; split; exact h
    split <;> first | exact h | exact NSW_of_frame rfl rfl h
  | putT c =>
    simp only [step]; split; exact h
    split; exact h
    next k _ _ =>
    have := NSW_tryPut cfg { s with transit := s.transit.erase c } c k (NSW_of_frame rfl rfl h)
    split
    · exact this
    · exact NSW_of_frame rfl rfl this
  | closeT c =>
    simp only [step]; split; exact h
    exact NSW_closeConn _ _ _ (NSW_of_frame rfl rfl h)
  | finishPut w =>
    simp only [step]; split
    · next c _ =>
      split; exact h
      next k _ =>
      have := NSW_tryPut cfg { s with wst := upd s.wst w .finished } c k (NSW_of_frame rfl rfl h)
      split
      · exact this
      · exact NSW_of_frame rfl rfl this
    · exact h
  | finishClose w =>
    simp only [step]; split
    · exact NSW_closeConn _ _ _ (NSW_of_frame rfl rfl h)
    · exact h
  | serverCloseIdle c =>
    simp only [step]; split; exact h
    split
    · exact NSW_closeConn _ _ _ h
    · exact h
  | removeIdle c =>
    simp only [step]; split; exact h
    split
    · exact NSW_removeIdleLocked _ _ _ h
    · exact h
  | idleTimeout c =>
    simp only [step]; split; exact h
    exact NSW_closeConn _ _ _ (NSW_removeIdleLocked _ _ _ h)
  | closeIdleConnections =>
    simp only [step]
    exact NSW_of_frame rfl rfl h

theorem NSW_init (cfg : Cfg) : NSW cfg {} := by
  intro k hk; simp at hk

theorem NSW_run (cfg : Cfg) (s : St) (ops : List Op) (h : NSW cfg s) : NSW cfg (run cfg s ops) := by
  induction ops generalizing s with
  | nil => exact h
  | cons op ops ih => exact ih _ (NSW_step cfg s op h)

/-! ### a live connection (or a running dial) of key `k` means `connsPerHost[k] ≠ 0` -/

open Req.Lemmas.C09PoolCount Req.Lemmas.C09PoolExcl

theorem cnt_pos_of_mem (p : Nat → Bool) (l : List Nat) (x : Nat) (hx : x ∈ l) (hp : p x = true) : 0 < cnt p l := by
  induction l with
  | nil => cases hx
  | cons a t ih =>
    simp only [cnt]
    rcases List.mem_cons.mp hx with rfl | hx
    · simp only [hp, if_true]; omega
    · have := ih hx; omega

/-! ### a connection handed to `tryPutIdleConn` ends up somewhere -/

open Req.Lemmas.C09PoolLru

theorem removeIdleLocked_mem_of_ne (s : St) (x c : Conn) (k : Key) (hne : c ≠ x) (h : c ∈ s.idle k) :
    c ∈ (removeIdleLocked s x).1.idle k := by
  unfold removeIdleLocked
  split
  · exact h
  · next kx _ =>
    split
    · simp only [upd]
      split
      · next heq => subst heq; exact (List.mem_erase_of_ne hne).mpr h
      · exact h
    · exact h

/-- After `evictOldest` an idle-listed connection (with a key) is still listed, or closed. -/
theorem evictOldest_keeps_or_closes (cfg : Cfg) (s : St) (c : Conn) (k : Key) (hk : s.ckey c = some k)
    (h : c ∈ s.idle k) :
    c ∈ (evictOldest cfg s).idle k ∨ (evictOldest cfg s).closed c = true := by
  unfold evictOldest
  split
  · exact Or.inl h
  · next oldest _ =>
    by_cases hco : c = oldest
    · right
      subst hco
      simp only [removeIdleLocked_closed]
      exact (closeConn_closed cfg _ c c).mpr (Or.inr ⟨rfl, by simp [hk]⟩)
    · left
      apply removeIdleLocked_mem_of_ne _ _ _ _ hco
      simpa using h

theorem addIdle_lists_or_closes (cfg : Cfg) (s : St) (c : Conn) (k : Key) (hk : s.ckey c = some k) :
    c ∈ (addIdle cfg s c k).idle k ∨ (addIdle cfg s c k).closed c = true := by
  unfold addIdle
  simp only
  split
  · exact evictOldest_keeps_or_closes cfg _ c k hk (by simp [upd])
  · left; simp [upd]

@[simp] theorem addIdle_transit (cfg : Cfg) (s : St) (c : Conn) (k : Key) : (addIdle cfg s c k).transit = s.transit := by
  unfold addIdle; simp only; split <;> simp

@[simp] theorem tryPut_transit (cfg : Cfg) (s : St) (c : Conn) (k : Key) : (tryPut cfg s c k).1.transit = s.transit := by
  unfold tryPut
  split
  · rfl
  · split
    · rfl
    · split
      · rfl
      · simp only
        (repeat' split) <;> simp

/-- What `tryPutIdleConn` did with a connection it accepted: handed to a waiting request, listed
idle, (listed and then) closed by the `MaxIdleConns` eviction — or the connection was already
listed (the "dup" internal error, unreachable: the caller holds it). -/
theorem tryPut_ok_places (cfg : Cfg) (s : St) (c : Conn) (k : Key) (hk : s.ckey c = some k)
    (hok : (tryPut cfg s c k).2 = .ok) :
    (∃ w, (tryPut cfg s c k).1.wst w = .gotConn c) ∨ c ∈ (tryPut cfg s c k).1.idle k ∨
    (tryPut cfg s c k).1.closed c = true ∨ c ∈ s.lru := by
  unfold tryPut at hok ⊢
  split
  · next h => rw [if_pos h] at hok; cases hok
  · next h =>
    rw [if_neg h] at hok
    split
    · next h2 => rw [if_pos h2] at hok; cases hok
    · next h2 =>
      rw [if_neg h2] at hok
      split
      · next w q heq => left; exact ⟨w, by simp⟩
      · next q heq =>
        rw [heq] at hok
        simp only at hok ⊢
        split
        · next h3 => rw [if_pos h3] at hok; cases hok
        · next h3 =>
          rw [if_neg h3] at hok
          split
          · next h4 => rw [if_pos h4] at hok; cases hok
          · next h4 =>
            split
            · next h5 =>
              simp only [Bool.or_eq_true, List.contains_iff_mem] at h5
              rcases h5 with h5 | h5
              · right; left; exact h5
              · right; right; right; exact h5
            · rcases addIdle_lists_or_closes cfg { s with idleWait := upd s.idleWait k q } c k hk with h6 | h6
              · right; left; exact h6
              · right; right; left; exact h6

end Req.Lemmas.CancelPool
