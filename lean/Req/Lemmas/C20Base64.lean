import Req.Base.Base64
/-! Helper lemmas for the base64 round trip (C20). -/
namespace Req.Base64
open Req.Proto

theorem value_alpha : ∀ n, n < 64 → value (alpha n) = some n := by decide

theorem alpha_ne_pad : ∀ n, n < 64 → (alpha n == pad) = false := by decide

theorem ofNat_toNat (a : UInt8) : UInt8.ofNat a.toNat = a := by
  cases a with | ofBitVec v =>
  apply UInt8.eq_of_toBitVec_eq
  simp

theorem ofNat_eq (a : UInt8) (n : Nat) (h : n = a.toNat) : UInt8.ofNat n = a := by
  rw [h, ofNat_toNat]

theorem byte1 (a b : UInt8) :
    UInt8.ofNat (a.toNat / 4 * 4 + (a.toNat % 4 * 16 + b.toNat / 16) / 16) = a := by
  have hb : b.toNat < 256 := UInt8.toNat_lt b
  have : a.toNat / 4 * 4 + (a.toNat % 4 * 16 + b.toNat / 16) / 16 = a.toNat := by omega
  rw [this, ofNat_toNat]

theorem byte1' (a : UInt8) :
    UInt8.ofNat (a.toNat / 4 * 4 + (a.toNat % 4 * 16) / 16) = a := by
  have : a.toNat / 4 * 4 + (a.toNat % 4 * 16) / 16 = a.toNat := by omega
  rw [this, ofNat_toNat]

theorem byte2 (a b c : UInt8) :
    UInt8.ofNat ((a.toNat % 4 * 16 + b.toNat / 16) % 16 * 16 + (b.toNat % 16 * 4 + c.toNat / 64) / 4) = b := by
  have hc : c.toNat < 256 := UInt8.toNat_lt c
  have : (a.toNat % 4 * 16 + b.toNat / 16) % 16 * 16 + (b.toNat % 16 * 4 + c.toNat / 64) / 4 = b.toNat := by
    have hb : b.toNat < 256 := UInt8.toNat_lt b
    omega
  rw [this, ofNat_toNat]

theorem byte2' (a b : UInt8) :
    UInt8.ofNat ((a.toNat % 4 * 16 + b.toNat / 16) % 16 * 16 + (b.toNat % 16 * 4) / 4) = b := by
  have : (a.toNat % 4 * 16 + b.toNat / 16) % 16 * 16 + (b.toNat % 16 * 4) / 4 = b.toNat := by
    have hb : b.toNat < 256 := UInt8.toNat_lt b
    omega
  rw [this, ofNat_toNat]

theorem byte3 (b c : UInt8) :
    UInt8.ofNat ((b.toNat % 16 * 4 + c.toNat / 64) % 4 * 64 + c.toNat % 64) = c := by
  have : (b.toNat % 16 * 4 + c.toNat / 64) % 4 * 64 + c.toNat % 64 = c.toNat := by
    have hc : c.toNat < 256 := UInt8.toNat_lt c
    omega
  rw [this, ofNat_toNat]

end Req.Base64
