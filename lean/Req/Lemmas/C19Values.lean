import Req.Client.ValuesHeap
import Req.Lemmas.C19Scope
/-! Lemmas for `Req/Props/C19Values.lean`: reads after writes and allocations, the abstraction of
`put` / `filter`, preservation of the separation invariant. -/
namespace Req.ValuesHeap
open Req.Scope

theorem range_getD (xs : List Nat) : (List.range xs.length).map (fun j => xs.getD j 0) = xs := by
  apply List.ext_getElem
  · simp
  · intro i h1 h2
    simp [List.getD_eq_getElem?_getD, List.getElem?_eq_getElem h2]

theorem readSl_congr (st st' : Store) (s : Sl)
    (h : ∀ j, j < s.len → st'.cell s.arr (s.off + j) = st.cell s.arr (s.off + j)) : readSl st' s = readSl st s := by
  unfold readSl
  apply List.map_congr_left
  intro j hj
  exact h j (List.mem_range.mp hj)

theorem readSl_alloc (st : Store) (xs : List Nat) (s : Sl) (h : s.arr < st.next) :
    readSl (alloc st xs) s = readSl st s := by
  apply readSl_congr
  intro j _
  have : ¬ s.arr = st.next := by omega
  simp [alloc, this]

theorem readSl_alloc_new (st : Store) (xs : List Nat) (c : Nat) :
    readSl (alloc st xs) ⟨st.next, 0, xs.length, c⟩ = xs := by
  unfold readSl alloc
  simp only [if_true, Nat.zero_add]
  exact range_getD xs

theorem readSl_writeAt_apart (st : Store) (s t : Sl) (vs : List Nat) (hfit : s.len + vs.length ≤ s.cap)
    (hlen : t.len ≤ t.cap) (h : Apart s t) :
    readSl (writeAt st s.arr (s.off + s.len) vs) t = readSl st t := by
  apply readSl_congr
  intro j hj
  have : ¬ (t.arr = s.arr ∧ s.off + s.len ≤ t.off + j ∧ t.off + j < s.off + s.len + vs.length) := by
    intro ⟨h1, h2, h3⟩
    rcases h with h | h | h
    · exact h h1.symm
    · omega
    · omega
  simp [writeAt, this]

theorem readSl_writeAt_self (st : Store) (s : Sl) (vs : List Nat) :
    readSl (writeAt st s.arr (s.off + s.len) vs) { s with len := s.len + vs.length } = readSl st s ++ vs := by
  unfold readSl
  simp only []
  rw [List.range_add, List.map_append, List.map_map]
  congr 1
  · apply List.map_congr_left
    intro j hj
    have hj' := List.mem_range.mp hj
    have : ¬ (True ∧ s.off + s.len ≤ s.off + j ∧ s.off + j < s.off + s.len + vs.length) := by omega
    simp only [writeAt]
    rw [if_neg this]
  · have h : (List.range vs.length).map
        ((fun j => (writeAt st s.arr (s.off + s.len) vs).cell s.arr (s.off + j)) ∘ fun x => s.len + x) =
        (List.range vs.length).map (fun j => vs.getD j 0) := by
      apply List.map_congr_left
      intro j hj
      have hj' := List.mem_range.mp hj
      have h1 : s.off + s.len ≤ s.off + (s.len + j) ∧ s.off + (s.len + j) < s.off + s.len + vs.length := by omega
      have h2 : s.off + (s.len + j) - (s.off + s.len) = j := by omega
      simp only [Function.comp, writeAt]
      rw [if_pos ⟨trivial, h1⟩, h2]
    rw [h, range_getD]

/-! ### the abstraction of `put`, `filter`, `lookup` -/

theorem has_absMap (st : Store) (m : MapS) (k : Nat) : AMap.has (absMap st m) k = m.any (fun e => e.1 == k) := by
  induction m with
  | nil => rfl
  | cons e m ih =>
    show AMap.has ((e.1, readSl st e.2) :: absMap st m) k = _
    rw [has_cons, ih]; simp

theorem get_absMap (st : Store) (m : MapS) (k : Nat) :
    AMap.get (absMap st m) k = match lookup m k with
      | some s => readSl st s
      | none => [] := by
  induction m with
  | nil => rfl
  | cons e m ih =>
    show AMap.get ((e.1, readSl st e.2) :: absMap st m) k = _
    rw [get_cons, ih]
    unfold lookup
    by_cases h : e.1 = k
    · simp [List.find?, h]
    · have : (e.1 == k) = false := by simpa using h
      simp [List.find?, this, h]

theorem lookup_mem (m : MapS) (k : Nat) (s : Sl) (h : lookup m k = some s) : (k, s) ∈ m := by
  unfold lookup at h
  cases hf : m.find? (fun e => e.1 == k) with
  | none => rw [hf] at h; simp at h
  | some e =>
    rw [hf] at h
    have hm := List.mem_of_find?_eq_some hf
    have hk := List.find?_some hf
    simp at h hk
    have : e = (k, s) := by cases e; simp_all
    rw [← this]; exact hm

theorem lookup_none (m : MapS) (k : Nat) (h : lookup m k = none) : m.any (fun e => e.1 == k) = false := by
  unfold lookup at h
  cases hf : m.find? (fun e => e.1 == k) with
  | some e => rw [hf] at h; simp at h
  | none =>
    rw [List.find?_eq_none] at hf
    rw [List.any_eq_false]
    intro x hx
    exact hf x hx

theorem mem_put (m : MapS) (k : Nat) (s : Sl) (e : Nat × Sl) (h : e ∈ put m k s) :
    (e ∈ m ∧ e.1 ≠ k) ∨ e = (k, s) := by
  unfold put at h
  split at h
  · rw [List.mem_map] at h
    obtain ⟨x, hx, he⟩ := h
    by_cases hk : x.1 = k
    · have : (x.1 == k) = true := by simpa using hk
      simp [this] at he; exact Or.inr he.symm
    · have : (x.1 == k) = false := by simpa using hk
      simp [this] at he; subst he; exact Or.inl ⟨hx, hk⟩
  · rename_i hany
    rw [List.mem_append] at h
    rcases h with h | h
    · left
      refine ⟨h, ?_⟩
      intro hk
      apply hany
      rw [List.any_eq_true]
      exact ⟨e, h, by simpa using hk⟩
    · right; simpa using h

theorem absMap_put (st st' : Store) (m : MapS) (k : Nat) (s : Sl)
    (h : ∀ e ∈ m, e.1 ≠ k → readSl st' e.2 = readSl st e.2) :
    absMap st' (put m k s) = (absMap st m).set k (readSl st' s) := by
  unfold put AMap.set
  rw [has_absMap]
  have hmap : ∀ (l : MapS), (∀ e ∈ l, e.1 ≠ k → readSl st' e.2 = readSl st e.2) →
      absMap st' (l.map (fun e => if e.1 == k then (k, s) else e)) =
      (absMap st l).map (fun e => if e.1 == k then (k, readSl st' s) else e) := by
    intro l
    induction l with
    | nil => intro _; rfl
    | cons x l ih =>
      intro hl
      have ih' := ih (fun e he => hl e (List.mem_cons_of_mem _ he))
      unfold absMap at ih' ⊢
      simp only [List.map_cons]
      rw [ih']
      congr 1
      by_cases hk : x.1 = k
      · have : (x.1 == k) = true := by simpa using hk
        simp [this]
      · have : (x.1 == k) = false := by simpa using hk
        simp [this, hl x (List.mem_cons_self) hk]
  by_cases hany : m.any (fun e => e.1 == k) = true
  · simp only [hany, if_true]
    exact hmap m h
  · simp only [hany, Bool.false_eq_true, if_false]
    unfold absMap
    rw [List.map_append]
    congr 1
    apply List.map_congr_left
    intro e he
    have hk : e.1 ≠ k := by
      intro hk
      apply hany
      rw [List.any_eq_true]
      exact ⟨e, he, by simpa using hk⟩
    rw [h e he hk]

theorem absMap_filter (st : Store) (m : MapS) (k : Nat) :
    absMap st (m.filter fun e => e.1 != k) = (absMap st m).del k := by
  unfold absMap AMap.del
  rw [List.filter_map]
  rfl

theorem apart_symm (a b : Sl) (h : Apart a b) : Apart b a := by
  rcases h with h | h | h
  · exact Or.inl (fun e => h e.symm)
  · exact Or.inr (Or.inr h)
  · exact Or.inr (Or.inl h)

theorem sep_put (st st' : Store) (m : MapS) (k : Nat) (s : Sl) (hs : Sep st m) (hnext : st.next ≤ st'.next)
    (hfresh : s.arr < st'.next) (hfit : s.len ≤ s.cap) (hap : ∀ e ∈ m, e.1 ≠ k → Apart e.2 s) :
    Sep st' (put m k s) := by
  constructor
  · intro e he
    rcases mem_put m k s e he with ⟨h1, _⟩ | rfl
    · exact Nat.lt_of_lt_of_le (hs.fresh e h1) hnext
    · exact hfresh
  · intro e he
    rcases mem_put m k s e he with ⟨h1, _⟩ | rfl
    · exact hs.fits e h1
    · exact hfit
  · intro e1 h1 e2 h2 hne
    rcases mem_put m k s e1 h1 with ⟨m1, k1⟩ | rfl
    · rcases mem_put m k s e2 h2 with ⟨m2, _⟩ | rfl
      · exact hs.apart e1 m1 e2 m2 hne
      · exact hap e1 m1 k1
    · rcases mem_put m k s e2 h2 with ⟨m2, k2⟩ | rfl
      · exact apart_symm _ _ (hap e2 m2 k2)
      · exact absurd rfl hne

end Req.ValuesHeap
