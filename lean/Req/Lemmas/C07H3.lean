import Req.H3.Frame
/-! Progress and fuel lemmas for the HTTP/3 frame parser model (used by C07). -/
namespace Req.Lemmas.C07.H3
open Req.Proto Req.H3.Varint Req.H3.Frame

theorem parse_lt (b : Bytes) (v : Nat) (r : Bytes) (h : parse b = .ok (v, r)) :
    r.length < b.length := by
  unfold parse at h
  split at h
  · cases h
  · next b0 tl =>
    simp only at h
    split at h
    · cases h; simp
    · split at h
      · split at h
        · cases h; simp; omega
        · cases h
      · split at h
        · split at h
          · cases h; simp; omega
          · cases h
        · split at h
          · cases h; simp; omega
          · cases h

/-- a varint read consumes at least one byte -/
theorem read_lt (b : Bytes) (v : Nat) (r : Bytes) (h : Req.H3.Varint.read b = .ok (v, r)) :
    r.length < b.length := by
  unfold Req.H3.Varint.read at h
  split at h
  · next x hx => cases h; exact parse_lt b v r hx
  · cases h

theorem parseSettingsFrame_rest_le (l : Nat) (input : Bytes) :
    (parseSettingsFrame l input).2.length ≤ input.length := by
  unfold parseSettingsFrame
  split
  · simp
  · split
    · simp
    · split <;> simp

theorem truncated_snd (x : Except Err Frame × Bytes) : (truncated x).2 = x.2 := by
  unfold truncated
  split <;> rfl

/-- whatever `ParseNext` returns, it never "un-reads": the rest is a suffix no longer than the input -/
theorem parseNext_rest_le (fuel : Nat) (input : Bytes) :
    (parseNext fuel input).2.length ≤ input.length := by
  induction fuel generalizing input with
  | zero => simp [parseNext]
  | succ n ih =>
    unfold parseNext
    split
    · simp
    · next t r1 h1 =>
      have l1 := read_lt input t r1 h1
      split
      · simp
      · next l r2 h2 =>
        have l2 := read_lt r1 l r2 h2
        split
        · simp; omega
        · split
          · simp; omega
          · split
            · have := parseSettingsFrame_rest_le l r2
              rw [truncated_snd]; omega
            · split
              · simp; omega
              · split
                · simp
                · have := ih (r2.drop l)
                  simp only [List.length_drop] at this
                  omega

/-- **fuel suffices**: the frame-skipping loop of `ParseNext` terminates — every skipped frame
consumes at least two bytes, so any fuel above the input length gives the same result. -/
theorem parseNext_fuel_stable (f1 f2 : Nat) (input : Bytes)
    (h1 : input.length < f1) (h2 : input.length < f2) : parseNext f1 input = parseNext f2 input := by
  induction f1 generalizing f2 input with
  | zero => omega
  | succ n ih =>
    cases f2 with
    | zero => omega
    | succ m =>
      unfold parseNext
      split
      · rfl
      · next t r1 hr1 =>
        have l1 := read_lt input t r1 hr1
        split
        · rfl
        · next l r2 hr2 =>
          have l2 := read_lt r1 l r2 hr2
          split
          · rfl
          · split
            · rfl
            · split
              · rfl
              · split
                · rfl
                · split
                  · rfl
                  · apply ih
                    · simp only [List.length_drop]; omega
                    · simp only [List.length_drop]; omega

end Req.Lemmas.C07.H3
