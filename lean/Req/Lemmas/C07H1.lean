import Req.H1.Response
import Req.Lemmas.H1Line
import Req.Lemmas.H1Mime
/-! Progress, fuel and size lemmas for the HTTP/1.1 reader models (used by C07). -/
namespace Req.Lemmas.C07.H1
open Req.Proto Req.H1

theorem readChunkLine_lt {B : Nat} {s line r : Bytes} (h : readChunkLine B s = some (line, r)) :
    r.length < s.length ∧ line.length + r.length = s.length := by
  unfold readChunkLine at h
  split at h
  · cases h
  · next a rest hs =>
    have hl := splitLF_length hs
    split at h
    · simp only [Option.some.injEq, Prod.mk.injEq] at h
      obtain ⟨rfl, rfl⟩ := h
      simp; omega
    · cases h

/-- the chunk loop terminates: every iteration consumes the size line (≥ 1 byte) -/
theorem chunkLoop_fuel_stable (f1 f2 B : Nat) (ex : Int) (s : Bytes)
    (h1 : s.length < f1) (h2 : s.length < f2) : chunkLoop f1 B ex s = chunkLoop f2 B ex s := by
  induction f1 generalizing f2 ex s with
  | zero => omega
  | succ n ih =>
    cases f2 with
    | zero => omega
    | succ m =>
      unfold chunkLoop
      split
      · rfl
      · next line r hl =>
        obtain ⟨hlt, _⟩ := readChunkLine_lt hl
        split
        · rfl
        · next k hk =>
          simp only
          split
          · rfl
          · split
            · rfl
            · split
              · rfl
              · split
                · next r3 hd =>
                  have : r3.length < s.length := by
                    have := congrArg List.length hd
                    simp only [List.length_drop, List.length_cons] at this
                    omega
                  rw [ih m _ r3 (by omega) (by omega)]
                · rfl

/-- the chunked reader never delivers more bytes than it received (no amplification) -/
theorem chunkLoop_data_le (fuel B : Nat) (ex : Int) (s : Bytes) :
    (chunkLoop fuel B ex s).1.length ≤ s.length := by
  induction fuel generalizing ex s with
  | zero => simp [chunkLoop]
  | succ n ih =>
    unfold chunkLoop
    split
    · simp
    · next line r hl =>
      obtain ⟨hlt, _⟩ := readChunkLine_lt hl
      split
      · simp
      · next k hk =>
        simp only
        split
        · simp
        · split
          · simp
          · split
            · simp; omega
            · next hge =>
              split
              · next r3 hd =>
                have hlen : r3.length + 2 + k = r.length := by
                  have := congrArg List.length hd
                  simp only [List.length_drop, List.length_cons] at this
                  omega
                have := ih (max (wrap64 (ex + (line.length : Int) + 2 - (16 + 2 * (k : Int)))) 0) r3
                simp only [List.length_append, List.length_take]
                omega
              · simp only [List.length_take]; omega

/-- when the chunked reader reports the end of the body, what is left is a proper suffix -/
theorem chunkLoop_rest_lt (fuel B : Nat) (ex : Int) (s d r : Bytes)
    (h : chunkLoop fuel B ex s = (d, some r)) : r.length < s.length := by
  induction fuel generalizing ex s d with
  | zero => simp [chunkLoop] at h
  | succ n ih =>
    unfold chunkLoop at h
    split at h
    · cases h
    · next line r0 hl =>
      obtain ⟨hlt, _⟩ := readChunkLine_lt hl
      split at h
      · cases h
      · next k hk =>
        simp only at h
        split at h
        · cases h; exact hlt
        · split at h
          · cases h
          · split at h
            · cases h
            · split at h
              · next r3 hd =>
                have hlen : r3.length < r0.length := by
                  have := congrArg List.length hd
                  simp only [List.length_drop, List.length_cons] at this
                  omega
                cases hc : chunkLoop n B (max (wrap64 (ex + (line.length : Int) + 2 - (16 + 2 * (k : Int)))) 0) r3 with
                | mk d' e' =>
                  rw [hc] at h
                  simp only [Prod.mk.injEq] at h
                  obtain ⟨_, rfl⟩ := h
                  have := ih _ r3 d' hc
                  omega
              · cases h

/-- the continuation-line loop leaves no more than it was given -/
theorem readCont_rest_le (fuel : Nat) (acc s : Bytes) : (readCont fuel acc s).2.length ≤ s.length := by
  induction fuel generalizing acc s with
  | zero => simp [readCont]
  | succ n ih =>
    unfold readCont
    simp only
    split
    · simp
    · split
      · simp
      · next l rest hl =>
        have h1 := readLine_length hl
        have := ih (acc ++ [SP] ++ trimOWS l) rest
        simp only [List.length_drop] at h1
        omega

/-- the continuation-line loop terminates: each iteration consumes a line -/
theorem readCont_fuel_stable (f1 f2 : Nat) (acc s : Bytes) (h1 : s.length < f1) (h2 : s.length < f2) :
    readCont f1 acc s = readCont f2 acc s := by
  induction f1 generalizing f2 acc s with
  | zero => omega
  | succ n ih =>
    cases f2 with
    | zero => omega
    | succ m =>
      unfold readCont
      simp only
      split
      · rfl
      · split
        · rfl
        · next l rest hl =>
          have hlt := readLine_length hl
          simp only [List.length_drop] at hlt
          exact ih m _ rest (by omega) (by omega)

/-- the header-block loop terminates: each iteration consumes at least one line -/
theorem mimeLoop_fuel_stable (f1 f2 : Nat) (m : HeaderMap) (s : Bytes)
    (h1 : s.length < f1) (h2 : s.length < f2) : mimeLoop f1 m s = mimeLoop f2 m s := by
  induction f1 generalizing f2 m s with
  | zero => omega
  | succ n ih =>
    cases f2 with
    | zero => omega
    | succ k =>
      unfold mimeLoop
      split
      · rfl
      · next l rest hl =>
        have hlt := readLine_length hl
        split
        · rfl
        · split
          · rfl
          · simp only
            have hle := readCont_rest_le (rest.length + 1) (trimOWS l) rest
            split
            · rfl
            · next m' hm => exact ih k m' _ (by omega) (by omega)

/-- a header block that is read consumed at least its blank line -/
theorem mimeLoop_rest_lt (fuel : Nat) (m res : HeaderMap) (s r : Bytes)
    (h : mimeLoop fuel m s = some (res, r)) : r.length < s.length := by
  induction fuel generalizing m s with
  | zero => simp [mimeLoop] at h
  | succ n ih =>
    unfold mimeLoop at h
    split at h
    · cases h
    · next l rest hl =>
      have hlt := readLine_length hl
      split at h
      · simp only [Option.some.injEq, Prod.mk.injEq] at h
        obtain ⟨_, rfl⟩ := h
        exact hlt
      · split at h
        · cases h
        · simp only at h
          have hle := readCont_rest_le (rest.length + 1) (trimOWS l) rest
          split at h
          · cases h
          · next m' hm =>
            have := ih m' _ h
            omega

theorem readMIMEHeader_rest_lt (s r : Bytes) (res : HeaderMap)
    (h : readMIMEHeader s = some (res, r)) : r.length < s.length := by
  unfold readMIMEHeader at h
  split at h
  · split at h
    · cases h
    · exact mimeLoop_rest_lt _ _ _ _ _ h
  · cases h

/-- a response head that is parsed consumed at least two bytes (progress of the interim loop) -/
theorem parseHead_rest_lt (isHead : Bool) (s r : Bytes) (m : Msg)
    (h : parseHead isHead s = some (m, r)) : r.length < s.length := by
  unfold parseHead at h
  split at h
  · cases h
  · next line r1 hl =>
    have h1 := readLine_length hl
    split at h
    · cases h
    · split at h
      · cases h
      · next hd r2 hm =>
        have h2 := readMIMEHeader_rest_lt _ _ _ hm
        split at h
        · cases h
        · simp only [Option.some.injEq, Prod.mk.injEq] at h
          obtain ⟨_, rfl⟩ := h
          omega

end Req.Lemmas.C07.H1
