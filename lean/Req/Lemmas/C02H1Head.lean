import Req.Lemmas.C02H1Map
import Req.Lemmas.C02Head
import Req.Lemmas.C02Trailer
import Req.Lemmas.H1Chunk
/-!
C02 — what the byte-exact HTTP/1.1 head reader of `Req.H1` (C04's model of
`persistConn._readResponse`: `readLine`, `ReadMIMEHeader`, `readTransfer`) makes of a head the
ORIGIN wrote: status line `HTTP/1.1 SP d d d SP reason CRLF`, field lines
`name ":" OWS value OWS CRLF` (`WField`, any optional white space, token names of any case),
empty line.
-/
namespace Req.C02
open Req.Proto Req.Ascii Req.H1

theorem h1_isOWS_eq (c : UInt8) : Req.H1.isOWS c = Req.C02.isOWS c := by
  unfold Req.H1.isOWS Req.C02.isOWS
  by_cases h1 : c = 32 <;> by_cases h2 : c = 9 <;> simp [h1, h2, SP, HT]

theorem h1_isOWS_fun : Req.H1.isOWS = Req.C02.isOWS := funext h1_isOWS_eq

theorem h1_trimOWS_eq (s : Bytes) : Req.H1.trimOWS s = Req.C02.trimOWS s := by
  unfold Req.H1.trimOWS Req.C02.trimOWS
  have : (fun c : UInt8 => c == 32 || c == 9) = Req.H1.isOWS := by
    funext c
    exact (h1_isOWS_eq c).symm
  rw [this]

theorem ows_ne_lf (x : UInt8) (h : Req.C02.isOWS x = true) : x ≠ 10 := by
  intro hx; subst hx; simp [Req.C02.isOWS] at h

theorem line_no_lf (f : WField) (h : f.OK) : (10 : UInt8) ∉ f.line := by
  obtain ⟨_, htok, hv, hp1, hp2⟩ := h
  unfold WField.line
  intro hmem
  simp only [List.mem_append, List.mem_cons] at hmem
  rcases hmem with h1 | h1 | (h1 | h1) | h1
  · have := List.all_eq_true.mp htok 10 h1
    simp [isTokenByte, isAlpha, isLower, isUpper, isDigit] at this
  · simp at h1
  · exact ows_ne_lf 10 (hp1 10 h1) rfl
  · have := List.all_eq_true.mp hv.1 10 h1
    simp at this
  · exact ows_ne_lf 10 (hp2 10 h1) rfl

theorem stripCR_append_cr (l : Bytes) : stripCR (l ++ [13]) = l := by
  induction l with
  | nil => simp [stripCR]
  | cons c cs ih =>
    cases cs with
    | nil => simp [stripCR]
    | cons d ds =>
      simp only [List.cons_append] at ih ⊢
      rw [stripCR]
      · rw [ih]

/-- A CRLF-terminated line without LF inside is read as that line. -/
theorem h1_readLine_crlf (l R : Bytes) (h : (10 : UInt8) ∉ l) :
    Req.H1.readLine (l ++ 13 :: 10 :: R) = some (l, R) := by
  have hs : splitLF ((l ++ [13]) ++ LF :: R) = some (l ++ [13], R) := by
    apply splitLF_of_noLF
    intro c hc
    simp only [List.mem_append, List.mem_singleton] at hc
    rcases hc with hc | hc
    · intro h10; subst h10; exact h hc
    · subst hc; decide
  have heq : l ++ 13 :: 10 :: R = (l ++ [13]) ++ LF :: R := by simp
  rw [heq]
  unfold Req.H1.readLine
  cases hl : (l ++ [13]) ++ LF :: R with
  | nil => simp at hl
  | cons a as =>
    simp only
    rw [← hl, hs]
    simp [stripCR_append_cr]

/-! ### one field line -/

theorem tokenByte_not_ows (c : UInt8) (h : isTokenByte c = true) : Req.C02.isOWS c = false := by
  by_cases h1 : c = 32
  · subst h1; simp [isTokenByte, isAlpha, isLower, isUpper, isDigit] at h
  · by_cases h2 : c = 9
    · subst h2; simp [isTokenByte, isAlpha, isLower, isUpper, isDigit] at h
    · simp [Req.C02.isOWS, h1, h2]

theorem valueOK_valid (v : Bytes) (h : ValueOK v) : v.all validHeaderValueByte = true := by
  rw [List.all_eq_true]
  intro c hc
  have := List.all_eq_true.mp h.1 c hc
  simp only [ge_iff_le, bne_iff_ne, ne_eq, beq_iff_eq, Bool.decide_and, Bool.decide_eq_true,
    Bool.or_eq_true, Bool.and_eq_true, decide_eq_true_eq] at this
  simp only [validHeaderValueByte, HT, Bool.or_eq_true, decide_eq_true_eq, Bool.and_eq_true]
  rcases this with ⟨h1, h2⟩ | h1
  · by_cases h3 : c ≤ 126
    · exact Or.inl (Or.inr ⟨h1, h3⟩)
    · right
      have : c ≠ 127 := by simpa using h2
      have h4 : ¬ c.toNat ≤ 126 := fun h => h3 (UInt8.le_iff_toNat_le.mpr h)
      have h5 : c.toNat ≠ 127 := fun h => this (UInt8.toNat_inj.mp h)
      exact UInt8.le_iff_toNat_le.mpr (by simp; omega)
  · exact Or.inl (Or.inl h1)

theorem ows_valid (p : Bytes) (h : ∀ x ∈ p, Req.C02.isOWS x = true) : p.all validHeaderValueByte = true := by
  rw [List.all_eq_true]
  intro c hc
  have := h c hc
  simp only [Req.C02.isOWS, Bool.or_eq_true, beq_iff_eq] at this
  rcases this with rfl | rfl <;> decide

/-- What `trim` leaves of a field line: the name, the colon, and the value still preceded by
its leading optional white space. -/
theorem trimOWS_line (f : WField) (h : f.OK) :
    ∃ v', Req.H1.trimOWS f.line = f.name ++ 58 :: v' ∧ v'.all validHeaderValueByte = true ∧
      v'.dropWhile Req.H1.isOWS = f.value := by
  obtain ⟨hne, htok, hv, hp1, hp2⟩ := h
  rw [h1_isOWS_fun]
  -- the line starts with a token byte: nothing is trimmed on the left
  obtain ⟨a, r, hn⟩ : ∃ a r, f.name = a :: r := by
    cases hname : f.name with
    | nil => exact absurd hname hne
    | cons a r => exact ⟨a, r, rfl⟩
  have ha : Req.C02.isOWS a = false :=
    tokenByte_not_ows a (List.all_eq_true.mp htok a (by rw [hn]; simp))
  have hleft : f.line.dropWhile Req.H1.isOWS = f.line := by
    rw [h1_isOWS_fun]
    unfold WField.line
    rw [hn]
    simp [List.dropWhile_cons, ha]
  unfold Req.H1.trimOWS
  rw [hleft, h1_isOWS_fun]
  -- on the right: pad2 goes; if the value is empty pad1 goes too
  have hrev2 : ∀ x ∈ f.pad2.reverse, Req.C02.isOWS x = true := fun x hx => hp2 x (by simpa using hx)
  cases hval : f.value with
  | nil =>
    refine ⟨[], ?_, by simp, by simp⟩
    unfold WField.line
    rw [hval]
    have hrev1 : ∀ x ∈ (f.pad1 ++ [] ++ f.pad2).reverse, Req.C02.isOWS x = true := by
      intro x hx
      simp only [List.append_nil, List.reverse_append, List.mem_append, List.mem_reverse] at hx
      rcases hx with hx | hx
      · exact hp2 x hx
      · exact hp1 x hx
    have : (f.name ++ 58 :: (f.pad1 ++ [] ++ f.pad2)).reverse =
        (f.pad1 ++ [] ++ f.pad2).reverse ++ (58 :: f.name.reverse) := by simp
    rw [this, dropWhile_append_all _ _ _ hrev1]
    simp [List.dropWhile_cons, Req.C02.isOWS]
  | cons b bs =>
    refine ⟨f.pad1 ++ f.value, ?_, ?_, ?_⟩
    · unfold WField.line
      have : (f.name ++ 58 :: (f.pad1 ++ f.value ++ f.pad2)).reverse =
          f.pad2.reverse ++ (f.name ++ 58 :: (f.pad1 ++ f.value)).reverse := by simp
      rw [this, dropWhile_append_all _ _ _ hrev2]
      -- the last byte of the value is not white space
      have hlast : ∃ z zs, (f.name ++ 58 :: (f.pad1 ++ f.value)).reverse = z :: zs ∧ Req.C02.isOWS z = false := by
        cases hr : f.value.reverse with
        | nil => rw [hval] at hr; simp at hr
        | cons z zs =>
          have hz : f.value = zs.reverse ++ [z] := by
            have := congrArg List.reverse hr
            simpa using this
          refine ⟨z, zs ++ f.pad1.reverse ++ 58 :: f.name.reverse, ?_, hv.2.2 z zs.reverse hz⟩
          simp [hr]
      obtain ⟨z, zs, hz, hzo⟩ := hlast
      rw [hz]
      simp only [List.dropWhile_cons, hzo, Bool.false_eq_true, if_false]
      rw [← hz, List.reverse_reverse]
    · rw [List.all_append, ows_valid _ hp1, valueOK_valid _ hv]; rfl
    · rw [dropWhile_append_all _ _ _ hp1, hval]
      have hb : Req.C02.isOWS b = false := hv.2.1 b bs hval
      simp [List.dropWhile_cons, hb]

theorem cutByte_colon (name v : Bytes) (h : name.all isTokenByte = true) :
    cutByte 58 (name ++ 58 :: v) = some (name, v) := by
  induction name with
  | nil => simp [cutByte]
  | cons c cs ih =>
    simp only [List.all_cons, Bool.and_eq_true] at h
    have hc : c ≠ 58 := by
      have := tokenByte_ne_colon c h.1
      simpa using this
    simp [cutByte, hc, ih h.2]

theorem canonKeyRead_token (name : Bytes) (hne : name ≠ []) (h : name.all isTokenByte = true) :
    canonKeyRead name = some (canonicalMIMEHeaderKey name) := by
  unfold canonKeyRead canonicalMIMEHeaderKey
  have h1 : name.isEmpty = false := by cases name <;> simp_all
  have h2 : (name.any fun c => !isTokenByte c && c != SP) = false := by
    rw [List.any_eq_false]
    intro c hc
    simp [List.all_eq_true.mp h c hc]
  have h3 : (name.any fun c => c == SP) = false := by
    rw [List.any_eq_false]
    intro c hc
    have := tokenByte_not_ows c (List.all_eq_true.mp h c hc)
    simp only [Req.C02.isOWS, Bool.or_eq_false_iff, beq_eq_false_iff_ne] at this
    simpa [SP] using this.1
  simp [h1, h2, h3, h]

/-- One origin-written field line goes into the map under its canonical name, with its value. -/
theorem addHeaderLine_line (m : HeaderMap) (f : WField) (h : f.OK) :
    addHeaderLine m (Req.H1.trimOWS f.line) = some (m.add (canonicalMIMEHeaderKey f.name) f.value) := by
  obtain ⟨v', htrim, hvalid, hdrop⟩ := trimOWS_line f h
  obtain ⟨hne, htok, _⟩ := h
  unfold addHeaderLine
  rw [htrim, cutByte_colon f.name v' htok]
  simp only [canonKeyRead_token f.name hne htok, hvalid, if_true, hdrop]

/-! ### the field block -/

theorem block_head (fs : List WField) (hfs : ∀ f ∈ fs, f.OK) (R : Bytes) :
    ∃ a r, blockWire fs ++ R = a :: r ∧ Req.C02.isOWS a = false := by
  cases fs with
  | nil => exact ⟨13, 10 :: R, by simp [blockWire], by decide⟩
  | cons f fs =>
    obtain ⟨hne, htok, _⟩ := hfs f (by simp)
    cases hn : f.name with
    | nil => exact absurd hn hne
    | cons a r =>
      refine ⟨a, r ++ 58 :: (f.pad1 ++ f.value ++ f.pad2) ++ 13 :: 10 :: blockWire fs ++ R, ?_,
        tokenByte_not_ows a (List.all_eq_true.mp htok a (by rw [hn]; simp))⟩
      rw [blockWire_cons]
      simp [WField.line, hn]

theorem countOWS_block (fs : List WField) (hfs : ∀ f ∈ fs, f.OK) (R : Bytes) :
    countOWS (blockWire fs ++ R) = 0 := by
  obtain ⟨a, r, hw, ha⟩ := block_head fs hfs R
  rw [hw]
  have : Req.H1.isOWS a = false := by rw [h1_isOWS_eq]; exact ha
  simp [countOWS, this]

theorem line_contains_colon (f : WField) : f.line.contains 58 = true := by
  simp [WField.line]

/-- **The MIME header reader on an origin-written field block**: every field is added under
its canonical name with its value (optional white space removed), in wire order; exactly the
block is consumed. -/
theorem mimeLoop_block (fs : List WField) (hfs : ∀ f ∈ fs, f.OK) (R : Bytes) (m : HeaderMap) (fuel : Nat)
    (hfuel : fs.length < fuel) :
    mimeLoop fuel m (blockWire fs ++ R) = some (hmapAdd m (fieldsOf fs), R) := by
  induction fs generalizing fuel m with
  | nil =>
    cases fuel with
    | zero => simp at hfuel
    | succ fuel =>
      have := h1_readLine_crlf [] R (by simp)
      simp only [List.nil_append] at this
      simp [mimeLoop, blockWire, this, hmapAdd, fieldsOf]
  | cons f fs ih =>
    cases fuel with
    | zero => simp at hfuel
    | succ fuel =>
      have hf := hfs f (by simp)
      have hrest : ∀ g ∈ fs, g.OK := fun g hg => hfs g (by simp [hg])
      have hline : Req.H1.readLine (blockWire (f :: fs) ++ R) = some (f.line, blockWire fs ++ R) := by
        have := h1_readLine_crlf f.line (blockWire fs ++ R) (line_no_lf f hf)
        simpa [blockWire_cons, List.append_assoc] using this
      have hne : f.line.isEmpty = false := by
        unfold WField.line
        cases hn : f.name <;> simp
      have hcont : ∀ n, readCont (n + 1) (Req.H1.trimOWS f.line) (blockWire fs ++ R) =
          (Req.H1.trimOWS f.line, blockWire fs ++ R) := by
        intro n
        simp [readCont, countOWS_block fs hrest R]
      unfold mimeLoop
      simp only [hline, hne, Bool.false_eq_true, if_false, line_contains_colon, Bool.not_true, hcont,
        addHeaderLine_line m f hf]
      rw [ih hrest _ fuel (by simp at hfuel; omega)]
      simp [hmapAdd, fieldsOf]

theorem readMIMEHeader_block (fs : List WField) (hfs : ∀ f ∈ fs, f.OK) (R : Bytes) :
    readMIMEHeader (blockWire fs ++ R) = some (hmapOf (fieldsOf fs), R) := by
  obtain ⟨a, r, hw, ha⟩ := block_head fs hfs R
  have hao : Req.H1.isOWS a = false := by rw [h1_isOWS_eq]; exact ha
  unfold readMIMEHeader
  rw [hw]
  simp only [hao, Bool.false_eq_true, if_false]
  rw [← hw]
  apply mimeLoop_block fs hfs R [] _
  have : fs.length ≤ (blockWire fs).length := by
    clear hfs hw
    induction fs with
    | nil => simp
    | cons f fs ih =>
      rw [blockWire_cons]
      simp only [List.length_cons, List.length_append]
      omega
  simp only [List.length_append]
  omega

end Req.C02
