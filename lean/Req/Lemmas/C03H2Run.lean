import Req.Lemmas.C03H2Read
/-!
C03 — HTTP/2: the invariant along whole runs (`H2X.run`: frames, connection events, caller reads
and body close in any order), and the consequences the property theorems are built from.
-/
namespace Req.C03
open Req.Proto Req.C02

@[simp] theorem ese_readClosed (s : H2Stream) (e : H2Err) : (s.endStreamError e).readClosed = s.readClosed := by
  simp [H2Stream.endStreamError]
@[simp] theorem ese_res (s : H2Stream) (e : H2Err) : (s.endStreamError e).res = s.res := by
  simp [H2Stream.endStreamError]
@[simp] theorem ce_readClosed (s : H2Stream) : s.connError.readClosed = s.readClosed := by
  unfold H2Stream.connError; simp only []; split <;> simp
@[simp] theorem ce_res (s : H2Stream) : s.connError.res = s.res := by
  unfold H2Stream.connError; simp only []; split <;> simp
@[simp] theorem es_res (s : H2Stream) : s.endStream.res = s.res := by
  unfold H2Stream.endStream; split <;> rfl

/-- The stream part of a step, event by event. -/
theorem step_st (x : H2X) (e : H2XEv) :
    (x.step e).st = match e with
      | .headers fs es => x.st.processHeaders fs es
      | .data p pad es => x.st.processData p pad es
      | .rst _ => x.st.processRst
      | .goAway last _ => if x.st.connDead then x.st else if x.sid ≤ last then x.st else x.st.abort .connProto
      | .connLost => x.st.connError := by
  cases e with
  | headers fs es => rfl
  | data p pad es => rfl
  | rst c => rfl
  | connLost => rfl
  | goAway last code =>
    simp only [H2X.step]
    split
    · rfl
    · split <;> rfl

theorem Inv.step {x : H2X} {O D : Bytes} (h : Inv x.st O D) (e : H2XEv) :
    Inv (x.step e).st O (D ++ dataOf [e]) := by
  rw [step_st]
  cases e with
  | headers fs es => simpa [dataOf] using h.processHeaders fs es
  | data p pad es => simpa [dataOf] using h.processData p pad es
  | rst c => simpa [dataOf] using h.processRst
  | connLost => simpa [dataOf] using h.connError
  | goAway last code =>
    simp only [dataOf, List.append_nil]
    split
    · exact h
    · split
      · exact h
      · exact h.abort _ (by simp)

theorem dataOf_cons (e : H2XEv) (evs : List H2XEv) : dataOf (e :: evs) = dataOf [e] ++ dataOf evs := by
  cases e <;> simp [dataOf]

theorem dataOf_append (a b : List H2XEv) : dataOf (a ++ b) = dataOf a ++ dataOf b := by
  induction a with
  | nil => simp [dataOf]
  | cons e a ih => rw [List.cons_append, dataOf_cons, ih, dataOf_cons e a, List.append_assoc]

theorem evsOf_append (a b : List H2XOp) : evsOf (a ++ b) = evsOf a ++ evsOf b := by
  induction a with
  | nil => rfl
  | cons o a ih => cases o <;> simp [evsOf, ih]

theorem outOf_append (a b : List (Option (Bytes × Option H2Err))) : outOf (a ++ b) = outOf a ++ outOf b := by
  induction a with
  | nil => rfl
  | cons o a ih =>
    cases o with
    | none => simp [outOf, ih]
    | some v => obtain ⟨d, e⟩ := v; simp [outOf, ih]

theorem run_read_none (x : H2X) (k : Nat) (ops : List H2XOp) (h : x.st.read k = none) :
    x.run (.read k :: ops) = (none :: (x.run ops).1, (x.run ops).2) := by
  simp [H2X.run, h]

theorem run_read_some (x : H2X) (k : Nat) (ops : List H2XOp) (o : Bytes × Option H2Err) (st' : H2Stream)
    (h : x.st.read k = some (o, st')) :
    x.run (.read k :: ops) =
      (some o :: (({ x with st := st' } : H2X).run ops).1, (({ x with st := st' } : H2X).run ops).2) := by
  simp [H2X.run, h]

theorem run_append (x : H2X) (a b : List H2XOp) :
    x.run (a ++ b) = ((x.run a).1 ++ ((x.run a).2.run b).1, ((x.run a).2.run b).2) := by
  induction a generalizing x with
  | nil => simp [H2X.run]
  | cons o a ih =>
    cases o with
    | ev e => simp only [List.cons_append, H2X.run]; exact ih _
    | closeBody => simp only [List.cons_append, H2X.run]; exact ih _
    | read k =>
      simp only [List.cons_append]
      cases hr : x.st.read k with
      | none => rw [run_read_none _ _ _ hr, run_read_none _ _ _ hr, ih]; simp
      | some v =>
        obtain ⟨o, st'⟩ := v
        rw [run_read_some _ _ _ _ _ hr, run_read_some _ _ _ _ _ hr, ih]; simp

/-- **The invariant along every run.** -/
theorem Inv.run {x : H2X} {O D : Bytes} (h : Inv x.st O D) (ops : List H2XOp) :
    Inv (x.run ops).2.st (O ++ outOf (x.run ops).1) (D ++ dataOf (evsOf ops)) := by
  induction ops generalizing x O D with
  | nil => simpa [H2X.run, outOf, evsOf, dataOf] using h
  | cons o ops ih =>
    cases o with
    | ev e =>
      simp only [H2X.run, evsOf]
      have := ih (h.step e)
      rw [dataOf_cons, ← List.append_assoc]; exact this
    | closeBody =>
      simp only [H2X.run, evsOf]
      exact ih (x := x.closeBody) h.closeBody
    | read k =>
      simp only [evsOf]
      cases hr : x.st.read k with
      | none => rw [run_read_none _ _ _ hr]; simp only [outOf]; exact ih h
      | some v =>
        obtain ⟨⟨d, e⟩, st'⟩ := v
        rw [run_read_some _ _ _ _ _ hr]
        simp only [outOf]
        have := ih (x := { x with st := st' }) (h.read k d e st' hr).1
        rw [← List.append_assoc]; exact this

/-- Any state reached from a fresh stream satisfies the invariant. -/
theorem Inv.reach (sid : Nat) (isHead : Bool) (ops : List H2XOp) :
    Inv ((H2X.init sid isHead).run ops).2.st (outOf ((H2X.init sid isHead).run ops).1) (dataOf (evsOf ops)) := by
  have := Inv.run (x := H2X.init sid isHead) (Inv.init isHead) ops
  simpa using this

end Req.C03
