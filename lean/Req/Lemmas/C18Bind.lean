import Req.Lemmas.C18Err
import Req.Props.C18
/-! Helper lemmas for C18: result binding seen through the whole pipeline. -/
namespace Req.Pipeline
open Req.Result Req.Props.C18

/-! ### the result slots agree with the response that is returned -/

/-- "target supplied, success state, carries content, unmarshals" for the http response `h`. -/
def SuccessRHS (s : Stack) (h : Http) : Prop :=
  s.successTarget = true ∧ stateOf h = .success ∧ h.status ≠ noContent ∧ h.bodyOK = true ∧ codecOK h = true

def ErrReqRHS (s : Stack) (h : Http) : Prop :=
  s.errorTarget = true ∧ stateOf h = .error ∧ h.status ≠ noContent ∧ h.bodyOK = true ∧ codecOK h = true

def ErrCommonRHS (s : Stack) (h : Http) : Prop :=
  s.errorTarget = false ∧ s.commonErr = true ∧ stateOf h = .error ∧ h.status ≠ noContent ∧ h.bodyOK = true ∧ codecOK h = true

/-- The slots of `r` are exactly what the http response it carries calls for. -/
def Agrees (s : Stack) (r : Resp) : Prop :=
  match r.http with
  | none => r.slots = {}
  | some h =>
    (r.slots.result = true ↔ SuccessRHS s h) ∧
    (r.slots.error = some .errorReq ↔ ErrReqRHS s h) ∧
    (r.slots.error = some .errorCommon ↔ ErrCommonRHS s h) ∧
    r.slots.error ≠ some .success

theorem Agrees.of_eq {s : Stack} {r r' : Resp} (h : Agrees s r) (h1 : r'.http = r.http) (h2 : r'.slots = r.slots) :
    Agrees s r' := by
  unfold Agrees at h ⊢; rw [h1, h2]; exact h

/-- After the auto-read block, "no error recorded and the body is or can be read" is `bodyOK` (reads and transforms). -/
theorem autoRead_ready (s : Stack) (r : Resp) (h : Http) (hh : r.http = some h) (he : r.err = none) (hb : r.bodyCached = false) :
    (autoRead s r).1.http = some h ∧ (autoRead s r).1.slots = r.slots ∧
    (((autoRead s r).1.err = none ∧ ((autoRead s r).1.bodyCached = true ∨ h.bodyOK = true)) ↔ h.bodyOK = true) := by
  unfold autoRead
  simp only [hh]
  split
  · split
    · rename_i hr; simp [he, hr, Http.bodyOK]
    · rename_i hr; simp [hr, Http.bodyOK]
  · simp [hh, he, hb]

theorem autoRead_nohttp (s : Stack) (r : Resp) (hh : r.http = none) : (autoRead s r).1 = r := by
  unfold autoRead; simp [hh]

/-- Reading and binding a response that has not been read or bound yet makes the slots agree
with it. -/
theorem readParse_agrees (s : Stack) (r : Resp) (hs : r.slots = {}) (hb : r.bodyCached = false)
    (he : r.http ≠ none → r.err = none) :
    Agrees s (parseResp s (autoRead s r).1).resp := by
  rcases hh : r.http with _ | h
  · rw [autoRead_nohttp s r hh]
    unfold Agrees parseResp
    simp only [hh]
    rw [parse_slots]
    simp [bindIn, hh, hs]
  · obtain ⟨h1, h2, h3⟩ := autoRead_ready s r h hh (he (by simp [hh])) hb
    generalize (autoRead s r).1 = r' at h1 h2 h3
    have hready : Ready (bindIn s r') h ↔ (h.bodyOK = true ∧ codecOK h = true) := by
      unfold Ready
      simp only [bindIn]
      constructor
      · intro ⟨a, b, c⟩; exact ⟨h3.mp ⟨a, b⟩, c⟩
      · intro ⟨a, c⟩; obtain ⟨x, y⟩ := h3.mpr a; exact ⟨x, y, c⟩
    have hslots : (bindIn s r').slots = {} := by simp [bindIn, h2, hs]
    have hhttp : (bindIn s r').http = some h := by simp [bindIn, h1]
    unfold Agrees parseResp
    simp only [h1]
    rw [parse_slots]
    simp only [hhttp, hslots]
    rcases hsel : selectTarget (bindIn s r') with _ | t
    · -- nothing selected: every RHS is false
      have n1 := (not_congr (select_success_iff (bindIn s r'))).mp (by rw [hsel]; simp)
      have n2 := (not_congr (select_errorReq_iff (bindIn s r'))).mp (by rw [hsel]; simp)
      have n3 := (not_congr (select_errorCommon_iff (bindIn s r'))).mp (by rw [hsel]; simp)
      simp only [hhttp, Option.some.injEq, exists_eq_left'] at n1 n2 n3
      refine ⟨⟨by simp, fun ⟨a, b, c, _⟩ => absurd ⟨a, b, c⟩ n1⟩, ⟨by simp, fun ⟨a, b, c, _⟩ => absurd ⟨a, b, c⟩ n2⟩,
        ⟨by simp, fun ⟨a, b, c, d, _⟩ => absurd ⟨a, b, c, d⟩ n3⟩, by simp⟩
    · have e1 := select_success_iff (bindIn s r')
      have e2 := select_errorReq_iff (bindIn s r')
      have e3 := select_errorCommon_iff (bindIn s r')
      simp only [hhttp, Option.some.injEq, exists_eq_left', hsel] at e1 e2 e3
      by_cases hr : Ready (bindIn s r') h
      · have hr' := hready.mp hr
        simp only [hr, if_true]
        cases t
        · simp only [store, SuccessRHS, ErrReqRHS, ErrCommonRHS]
          have a := e1.mp rfl
          have b := (not_congr e2).mp (by simp)
          have c := (not_congr e3).mp (by simp)
          simp only [bindIn] at a b c
          refine ⟨⟨fun _ => ⟨a.1, a.2.1, a.2.2, hr'.1, hr'.2⟩, fun _ => by simp⟩, ⟨by simp, fun ⟨x, y, z, _⟩ => absurd ⟨x, y, z⟩ b⟩,
            ⟨by simp, fun ⟨x, y, z, w, _⟩ => absurd ⟨x, y, z, w⟩ c⟩, by simp⟩
        · simp only [store, SuccessRHS, ErrReqRHS, ErrCommonRHS]
          have a := (not_congr e1).mp (by simp)
          have b := e2.mp rfl
          have c := (not_congr e3).mp (by simp)
          simp only [bindIn] at a b c
          refine ⟨⟨by simp, fun ⟨x, y, z, _⟩ => absurd ⟨x, y, z⟩ a⟩, ⟨fun _ => ⟨b.1, b.2.1, b.2.2, hr'.1, hr'.2⟩, fun _ => by simp⟩,
            ⟨by simp, fun ⟨x, y, z, w, _⟩ => absurd ⟨x, y, z, w⟩ c⟩, by simp⟩
        · simp only [store, SuccessRHS, ErrReqRHS, ErrCommonRHS]
          have a := (not_congr e1).mp (by simp)
          have b := (not_congr e2).mp (by simp)
          have c := e3.mp rfl
          simp only [bindIn] at a b c
          refine ⟨⟨by simp, fun ⟨x, y, z, _⟩ => absurd ⟨x, y, z⟩ a⟩, ⟨by simp, fun ⟨x, y, z, _⟩ => absurd ⟨x, y, z⟩ b⟩,
            ⟨fun _ => ⟨c.1, c.2.1, c.2.2.1, c.2.2.2, hr'.1, hr'.2⟩, fun _ => by simp⟩, by simp⟩
      · have hr' : ¬ (h.bodyOK = true ∧ codecOK h = true) := fun x => hr (hready.mpr x)
        simp only [hr, if_false]
        refine ⟨⟨by simp, fun ⟨_, _, _, x, y⟩ => absurd ⟨x, y⟩ hr'⟩, ⟨by simp, fun ⟨_, _, _, x, y⟩ => absurd ⟨x, y⟩ hr'⟩,
          ⟨by simp, fun ⟨_, _, _, _, x, y⟩ => absurd ⟨x, y⟩ hr'⟩, by simp⟩

def AgreesO (s : Stack) (resp : Option Resp) : Prop := ∀ r, resp = some r → Agrees s r

theorem agrees_fresh (s : Stack) (o : Origin) (e : Option Err) : Agrees s { origin := o, err := e } := by
  simp [Agrees]

theorem exchange_facts (s : Stack) (a : Nat) :
    (exchange s a).1.slots = {} ∧ (exchange s a).1.bodyCached = false ∧
    ((exchange s a).1.http ≠ none → (exchange s a).1.err = none) := by
  unfold exchange; split <;> simp

theorem clientAct_same (r : Resp) (act : RespAct) :
    (clientAct r act).1.http = r.http ∧ (clientAct r act).1.slots = r.slots := by
  cases act <;> simp [clientAct]

theorem clientLoop_same (acts : List RespAct) :
    ∀ i r, (clientLoop i acts r).1.http = r.http ∧ (clientLoop i acts r).1.slots = r.slots := by
  induction acts with
  | nil => intro i r; simp [clientLoop]
  | cons act rest ih =>
    intro i r
    simp only [clientLoop]
    obtain ⟨h1, h2⟩ := ih (i + 1) (clientAct r act).1
    obtain ⟨h3, h4⟩ := clientAct_same r act
    exact ⟨h1.trans h3, h2.trans h4⟩

theorem download_same (s : Stack) (a : Nat) (r : Resp) :
    (download s a r).1.http = r.http ∧ (download s a r).1.slots = r.slots := by
  unfold download
  split
  · exact ⟨rfl, rfl⟩
  · split
    · exact ⟨rfl, rfl⟩
    · split <;> exact ⟨rfl, rfl⟩

/-- The response `Client.roundTrip` returns has slots that agree with its http response. -/
theorem clientRoundTrip_agrees (s : Stack) (a : Nat) : AgreesO s (clientRoundTrip s a).resp := by
  unfold clientRoundTrip
  split
  · intro r hr; cases hr; exact agrees_fresh _ _ _
  · intro r hr
    simp only [Option.some.injEq] at hr
    subst hr
    obtain ⟨f1, f2, f3⟩ := exchange_facts s a
    have hp := readParse_agrees s (exchange s a).1 f1 f2 f3
    obtain ⟨c1, c2⟩ := clientLoop_same (s.clientAt a) 0
      (download s a (match (parseResp s (autoRead s (exchange s a).1).1).ret with
        | some e => ({ (parseResp s (autoRead s (exchange s a).1).1).resp with err := some e } : Resp)
        | none => (parseResp s (autoRead s (exchange s a).1).1).resp)).1
    obtain ⟨d1, d2⟩ := download_same s a
      (match (parseResp s (autoRead s (exchange s a).1).1).ret with
        | some e => ({ (parseResp s (autoRead s (exchange s a).1).1).resp with err := some e } : Resp)
        | none => (parseResp s (autoRead s (exchange s a).1).1).resp)
    refine hp.of_eq ((c1.trans d1).trans ?_) ((c2.trans d2).trans ?_) <;> split <;> rfl

theorem runWrappers_agrees (s : Stack) (a : Nat) (core : RT) (hc : AgreesO s core.resp) (ws : List (Nat × WAct)) :
    AgreesO s (runWrappers a core ws).resp := by
  induction ws with
  | nil => exact hc
  | cons w rest ih =>
    obtain ⟨i, act⟩ := w
    cases act <;> simp only [runWrappers] <;> intro r hr
    · exact ih r hr
    · cases hr
    · cases hr; exact agrees_fresh _ _ _
    · cases hr
    · exact ih r hr
    · cases hr
    · exact ih r hr
    · simp only [Option.map_eq_some_iff] at hr
      obtain ⟨r0, h0, rfl⟩ := hr
      exact (ih r0 h0).of_eq rfl rfl

theorem agrees_ite {s : Stack} {r0 : Resp} (h : Agrees s r0) (c : Prop) [Decidable c] (e : Option Err) :
    Agrees s (if c then { r0 with err := e } else r0) := by
  split
  · exact h.of_eq rfl rfl
  · exact h

theorem nilGuard_agrees (s : Stack) (resp : Option Resp) (err : Option Err) (h : AgreesO s resp) :
    AgreesO s (nilGuard resp err) := by
  intro r hr
  unfold nilGuard at hr
  simp only [Option.some.injEq] at hr
  subst hr
  apply agrees_ite
  rcases resp with _ | r0
  · exact agrees_fresh _ _ _
  · exact h r0 rfl

theorem deferred_agrees (s : Stack) (resp : Option Resp) (err : Option Err) (h : AgreesO s resp) :
    AgreesO s (deferred resp err) := by
  intro r hr
  unfold deferred at hr
  simp only [Option.some.injEq] at hr
  subst hr
  apply agrees_ite
  rcases resp with _ | r0
  · exact agrees_fresh _ _ _
  · exact h r0 rfl

theorem rebind_agrees (s : Stack) (a : Nat) (r : Resp) (hs : r.slots = {}) (hb : r.bodyCached = false)
    (he : r.http ≠ none → r.err = none) : AgreesO s (rebind s a r).resp? := by
  have := readParse_agrees s r hs hb he
  unfold rebind
  simp only []
  split
  · intro r' hr'; simp only [StepOut.resp?, Option.some.injEq] at hr'; subst hr'; exact this
  · split
    · split
      · intro r' hr'; simp only [StepOut.resp?, Option.some.injEq] at hr'; subst hr'; exact this
      · intro r' hr'; simp only [StepOut.resp?, Option.some.injEq] at hr'; subst hr'; exact this.of_eq rfl rfl
    · intro r' hr'; simp only [StepOut.resp?, Option.some.injEq] at hr'; subst hr'; exact this

theorem digestResend_agrees (s : Stack) (a : Nat) (r : Resp) (re : TOut) (hs : r.slots = {}) (hb : r.bodyCached = false)
    (he : r.err = none) : AgreesO s (digestResend Fixes.all s a r re).resp? := by
  cases re with
  | fail e =>
    intro r' hr'
    simp only [digestResend, StepOut.resp?, Option.some.injEq] at hr'
    subst hr'
    simp [Agrees, hs]
  | resp h =>
    simp only [digestResend, Fixes.all, if_true]
    exact rebind_agrees s a _ hs hb (fun _ => he)

theorem digestStep_agrees (s : Stack) (a : Nat) (ok : Bool) (re : TOut) (r : Resp) (h : Agrees s r) :
    AgreesO s (digestStep Fixes.all s a ok re r).resp? := by
  have same : AgreesO s (StepOut.cont (some r) []).resp? := by
    intro r' hr'; simp only [StepOut.resp?, Option.some.injEq] at hr'; subst hr'; exact h
  unfold digestStep
  split
  · exact same
  · rename_i hne
    have hr : r.err = none := by simpa using hne
    split
    · simp only [Fixes.all, if_true]; exact same
    · split
      · exact same
      · split
        · intro r' hr'; simp only [StepOut.resp?, Option.some.injEq] at hr'; subst hr'; exact h
        · exact digestResend_agrees s a (forget Fixes.all r) re (by simp [forget, Fixes.all]) (by simp [forget, Fixes.all])
            (by rw [forget_err]; exact hr)

theorem stageStep_agrees (s : Stack) (a : Nat) (r : Resp) (act : RAct) (h : Agrees s r) :
    AgreesO s (stageStep Fixes.all s a (some r) act).resp? := by
  cases act with
  | mw m =>
    cases m <;> simp only [stageStep, reqSet, StepOut.resp?, Option.map_some] <;> intro r' hr' <;>
      simp only [Option.some.injEq] at hr' <;> subst hr'
    · exact h
    · exact h
    · exact h.of_eq rfl rfl
    · exact h.of_eq rfl rfl
  | digest ok re => simpa [stageStep] using digestStep_agrees s a ok re r h

theorem reqRespLoop_agrees (s : Stack) (a : Nat) (acts : List RAct) :
    ∀ i r err, Agrees s r → AgreesO s (reqRespLoop Fixes.all s a i acts (some r) err).resp := by
  induction acts with
  | nil => intro i r err h r' hr'; simp only [reqRespLoop, Option.some.injEq] at hr'; subst hr'; exact h
  | cons act rest ih =>
    intro i r err h
    have hst := stageStep_agrees s a r act h
    have hsome := stageStep_some Fixes.all rfl s a r act
    simp only [reqRespLoop]
    rcases hs : stageStep Fixes.all s a (some r) act with ⟨r1, evs⟩ | ⟨r1, e, evs⟩ | _
    · rw [hs] at hst hsome
      simp only [StepOut.resp?] at hsome hst
      obtain ⟨r1', rfl⟩ := Option.isSome_iff_exists.mp hsome.2
      exact ih _ _ _ (hst r1' rfl)
    · rw [hs] at hst
      simpa [StepOut.resp?] using hst
    · rw [hs] at hsome; simp [StepOut.isCrash] at hsome

/-- An attempt of the repaired code leaves in `resp` a response whose slots agree with the http
response it carries — unless it returned from the request phase, where `resp` is what `do` held. -/
theorem attempt_agrees (s : Stack) (a : Nat) (prev : Option Resp) :
    AgreesO s (attempt Fixes.all s a prev).resp ∨
    ((attempt Fixes.all s a prev).resp = prev ∧ (attempt Fixes.all s a prev).err ≠ none ∧
      (attempt Fixes.all s a prev).returned = true) := by
  rcases attempt_request_phase Fixes.all s a prev with ⟨k, e, _, _, _, _, h5, h6, h7, _⟩ | ⟨hok, ⟨e, _, _, h5, h6, h7, _⟩ | ⟨hb, _⟩⟩
  · right; exact ⟨h7, by simp [h6], h5⟩
  · right; exact ⟨h7, by simp [h6], h5⟩
  · left
    rw [attempt_eq_of_ok Fixes.all s a prev hok hb]
    simp only [Fixes.all, if_true]
    have h1 := runWrappers_agrees s a _ (clientRoundTrip_agrees s a) (wrapChain (s.wrapAt a))
    have h2 := nilGuard_agrees s _ (runWrappers a (clientRoundTrip s a) (wrapChain (s.wrapAt a))).err h1
    obtain ⟨r, hr⟩ := nilGuard_some (runWrappers a (clientRoundTrip s a) (wrapChain (s.wrapAt a))).resp
      (runWrappers a (clientRoundTrip s a) (wrapChain (s.wrapAt a))).err
    rw [hr] at h2 ⊢
    exact reqRespLoop_agrees s a (s.reqRespAt a) 0 r _ (h2 r rfl)

/-- What `do` returns: slots that agree with the carried http response, or — a request
middleware failed on a retry — the previous attempt's response with empty slots and an error. -/
def Final (s : Stack) (r : Resp) : Prop := Agrees s r ∨ (r.slots = {} ∧ r.err ≠ none)

theorem stopOut_final (s : Stack) (a : Nat) (prev : Option Resp) (hp : ∀ r, prev = some r → r.slots = {}) :
    ∀ r, (stopOut (attempt Fixes.all s a prev)).resp = some r → Final s r := by
  intro r hr
  simp only [stopOut] at hr
  rcases attempt_agrees s a prev with h | ⟨h1, h2, _⟩
  · left; exact deferred_agrees s _ _ h r hr
  · rw [h1] at hr
    rcases prev with _ | p
    · left; exact deferred_agrees s none _ (by intro r h; cases h) r hr
    · right
      obtain ⟨r', hr', herr⟩ := deferred_err (some p) (attempt Fixes.all s a (some p)).err
      rw [hr'] at hr; cases hr
      refine ⟨?_, ?_⟩
      · unfold deferred at hr'
        simp only [Option.some.injEq] at hr'
        subst hr'
        split <;> exact hp p rfl
      · rw [herr]
        simp only [Option.bind_some]
        cases hpe : p.err with
        | some e => simp
        | none => simpa using h2

theorem applyHook_same (r : Resp) (h : HookAct) :
    (applyHook r h).http = r.http ∧ (applyHook r h).slots = r.slots ∧ (applyHook r h).tag = r.tag ∧
    (applyHook r h).bodyCached = r.bodyCached ∧ (applyHook r h).bodyOf = r.bodyOf := by
  cases h <;> simp [applyHook]

theorem doLoop_final (s : Stack) :
    ∀ fuel a prev, (∀ r, prev = some r → r.slots = {}) →
      ∀ r, (doLoop Fixes.all s fuel a prev).resp = some r → Final s r := by
  intro fuel
  induction fuel with
  | zero => intro a prev hp r hr; simp [doLoop, exhaustedOut] at hr
  | succ fuel ih =>
    intro a prev hp
    simp only [doLoop, (attempt_some Fixes.all rfl rfl s a prev).1, Bool.false_eq_true, if_false]
    split
    · exact stopOut_final s a prev hp
    · split
      · exact stopOut_final s a prev hp
      · split
        · split
          · intro r hr; simp [crashOut] at hr
          · rename_i hret _ _ _ r0 hr0
            split
            · -- the wait met a done context: the attempt's response, with the context's error
              intro r hr
              simp only [waitOut, Option.some.injEq] at hr
              subst hr
              rcases attempt_agrees s a prev with h | ⟨_, _, h3⟩
              · left
                obtain ⟨k1, k2, _⟩ := applyHook_same r0 (s.retryHookAt a)
                exact (h r0 hr0).of_eq k1 k2
              · exact absurd h3 hret
            · exact ih _ _ (by intro r hr; cases hr; rfl)
        · exact stopOut_final s a prev hp

theorem callDo_final (s : Stack) : ∀ r, (callDo Fixes.all s).resp = some r → Final s r := by
  intro r hr
  rcases callDo_cases Fixes.all s with ⟨e, _, h⟩ | h
  · rw [h] at hr; simp only [Option.some.injEq] at hr; subst hr
    left; simp [Agrees]
  · rw [h] at hr
    exact doLoop_final s _ _ none (by intro r h; cases h) r hr

end Req.Pipeline
