import Req.Client.DigestAuth
import Req.Lemmas.C20Verify
import Req.Lemmas.C20Accept
import Req.Lemmas.C20Parse
/-!
Helper lemmas for C20 (repaired code, `Req.DigestAuth`): the credentials automaton of the RFC 7616
verifier reads back what `authorize` writes with `quote` — every value made of field-value
bytes (HTAB, SP, VCHAR, obs-text), quotes and backslashes included.
-/
namespace Req.Rfc7616
open Req.Proto Req.Ascii Req.Digest Req.DigestAuth

theorem isFieldByte_eq_isText (c : UInt8) : isFieldByte c = isText c := rfl

/-- the automaton inside a quoted-string consumes `quoteBody s` and has read `s` -/
theorem run_quoteBody (ps : Params) (n : Bytes) : ∀ (s v rest : Bytes), s.all isText = true →
    run (.quo ps n v) (quoteBody s ++ rest) = run (.quo ps n (v ++ s)) rest := by
  intro s
  induction s with
  | nil => intro v rest _; simp [quoteBody]
  | cons c cs ih =>
    intro v rest h
    simp only [List.all_cons, Bool.and_eq_true] at h
    unfold quoteBody
    by_cases hq : (c == 34 || c == 92) = true
    · simp only [hq, if_true, List.cons_append, run_cons]
      have h92 : step (.quo ps n v) 92 = .esc ps n v := by
        simp [step]
      rw [h92]
      have hesc : step (.esc ps n v) c = .quo ps n (v ++ [c]) := by
        simp [step, h.1]
      rw [hesc, ih (v ++ [c]) rest h.2]
      simp
    · have hq' : (c == 34 || c == 92) = false := by simpa using hq
      simp only [Bool.or_eq_false_iff] at hq'
      simp only [hq, Bool.false_eq_true, if_false, List.cons_append, run_cons]
      have hst : step (.quo ps n v) c = .quo ps n (v ++ [c]) := by
        simp [step, hq'.1, hq'.2, h.1]
      rw [hst, ih (v ++ [c]) rest h.2]
      simp

theorem run_quote_param (ps : Params) (n v rest : Bytes) (hn : n ≠ []) (ht : n.all isTokenByte = true)
    (hv : v.all isText = true) :
    run (.start ps) ((n ++ 61 :: quote v) ++ rest) = run (.after (ps ++ [(n, v)])) rest := by
  have e : (n ++ 61 :: quote v) ++ rest = n ++ (61 :: 34 :: (quoteBody v ++ (34 :: rest))) := by
    simp [quote, List.append_assoc]
  rw [e, run_start_name ps n _ hn ht]
  have h61 : isTokenByte 61 = false := by decide
  have h34o : isOws 34 = false := by decide
  simp only [run_cons, step, h61, Bool.false_eq_true, if_false, beq_self_eq_true, if_true, h34o]
  rw [run_quoteBody ps n v [] (34 :: rest) hv]
  simp only [run_cons, step, beq_self_eq_true, if_true, List.nil_append]

/-- Well-formedness of one parameter rendered by `renderParam`. -/
def Param.okT (p : Param) : Prop :=
  p.name ≠ [] ∧ p.name.all isTokenByte = true ∧
  (if p.quotedForm then p.value.all isText = true
   else p.value ≠ [] ∧ p.value.all isTokenByte = true)

theorem run_renderParam_sep (ps : Params) (p : Param) (rest : Bytes) (hp : Param.okT p) :
    run (.start ps) (renderParam p ++ 44 :: 32 :: rest) = run (.start (ps ++ [(p.name, p.value)])) rest := by
  obtain ⟨hn, ht, hv⟩ := hp
  have h44 : isTokenByte 44 = false := by decide
  have h44o : isOws 44 = false := by decide
  have h32 : isOws 32 = true := by decide
  unfold renderParam
  cases hq : p.quotedForm with
  | true =>
    simp only [hq, if_true] at hv ⊢
    rw [run_quote_param ps p.name p.value _ hn ht hv]
    simp only [run_cons, step, h44o, Bool.false_eq_true, if_false, beq_self_eq_true, if_true, h32]
  | false =>
    simp only [hq, Bool.false_eq_true, if_false] at hv ⊢
    rw [run_bare_param ps p.name p.value _ hn ht hv.1 hv.2]
    simp only [run_cons, step, h44, Bool.false_eq_true, if_false, beq_self_eq_true, if_true, h32]

theorem finish_renderParam (ps : Params) (p : Param) (hp : Param.okT p) :
    finish (run (.start ps) (renderParam p)) = some (ps ++ [(p.name, p.value)]) := by
  obtain ⟨hn, ht, hv⟩ := hp
  unfold renderParam
  cases hq : p.quotedForm with
  | true =>
    simp only [hq, if_true] at hv ⊢
    have := run_quote_param ps p.name p.value [] hn ht hv
    simp only [List.append_nil] at this
    rw [this]; rfl
  | false =>
    simp only [hq, Bool.false_eq_true, if_false] at hv ⊢
    have := run_bare_param ps p.name p.value [] hn ht hv.1 hv.2
    simp only [List.append_nil] at this
    rw [this]; rfl

/-- **The automaton reads back what the repaired `authorize` writes.** -/
theorem finish_run_renderParams : ∀ (l : List Param) (ps : Params), l ≠ [] → (∀ p ∈ l, Param.okT p) →
    finish (run (.start ps) (commaJoin (l.map renderParam))) =
      some (ps ++ l.map fun p => (p.name, p.value))
  | [], _, h, _ => absurd rfl h
  | [p], ps, _, hok => by
    simpa [commaJoin] using finish_renderParam ps p (hok p (by simp))
  | p :: q :: r, ps, _, hok => by
    have hp := hok p (by simp)
    have ih := finish_run_renderParams (q :: r) (ps ++ [(p.name, p.value)]) (by simp)
      (fun x hx => hok x (List.mem_cons_of_mem _ hx))
    simp only [List.map_cons, commaJoin] at ih ⊢
    rw [run_renderParam_sep ps p _ hp, ih]
    simp

theorem parseCredentials_renderParams (l : List Param) (hl : l ≠ []) (hok : ∀ p ∈ l, Param.okT p) :
    parseCredentials (digestPrefix ++ commaJoin (l.map renderParam)) =
      some (l.map fun p => (p.name, p.value)) := by
  have ht : (digestPrefix ++ commaJoin (l.map renderParam)).take 7 = digestPrefix := rfl
  have hd : (digestPrefix ++ commaJoin (l.map renderParam)).drop 7 = commaJoin (l.map renderParam) := rfl
  have hf : equalFold digestPrefix b!"digest " = true := by decide
  have hne : (l.map fun p => (p.name, p.value)).isEmpty = false := by
    cases l with
    | nil => exact absurd rfl hl
    | cons _ _ => rfl
  simp only [parseCredentials, ht, hd, hf, if_true, finish_run_renderParams l [] hl hok, List.nil_append, hne,
    Bool.false_eq_true, if_false]

/-! ### every parameter `authorize` writes is well formed -/

section ok
variable (h : Bytes → Bytes) (c : Challenge) (cr : Cred) (nc cn : Bytes)

theorem okTQ (n v : Bytes) (hn : n ≠ []) (ht : n.all isTokenByte = true) (hv : v.all isText = true) :
    Param.okT ⟨n, v, true⟩ := ⟨hn, ht, by simp only [if_true]; exact hv⟩

theorem okTB (n v : Bytes) (hn : n ≠ []) (ht : n.all isTokenByte = true) (hv : v ≠ [])
    (hvt : v.all isTokenByte = true) : Param.okT ⟨n, v, false⟩ :=
  ⟨hn, ht, by simp only [Bool.false_eq_true, if_false]; exact ⟨hv, hvt⟩⟩

theorem response_text (h : Bytes → Bytes) (hh : ∀ x, (h x).all isText = true) (c : Challenge) (cr : Cred)
    (nc cn : Bytes) : (response h c cr nc cn).all isText = true := by
  unfold response
  simp only
  split <;> exact hh _

theorem params_okT (hh : ∀ x, (h x).all isText = true)
    (huser : c.userhash = b!"true" ∨ cr.user.all isText = true)
    (hrealm : c.realm.all isText = true) (hnonce : c.nonce.all isText = true)
    (huri : cr.uri.all isText = true) (hop : c.opaq.all isText = true)
    (halg : c.algorithm = [] ∨ (c.algorithm ≠ [] ∧ c.algorithm.all isTokenByte = true))
    (hqop : c.qop = [] ∨ c.qop = b!"auth")
    (hnc : nc ≠ [] ∧ nc.all isTokenByte = true) (hcn : cn.all isText = true) :
    ∀ p ∈ params h c cr nc cn, Param.okT p := by
  intro p hp
  simp only [params, List.mem_append] at hp
  rcases hp with (((hp | hp) | hp) | hp) | hp
  · split at hp
    · rename_i huh
      have e : c.userhash = b!"true" := eq_of_beq huh
      simp only [List.mem_singleton] at hp
      subst hp
      rw [e]
      exact okTB _ _ (by decide) (by decide) (by decide) (by decide)
    · cases hp
  · simp only [List.mem_cons, List.not_mem_nil, or_false] at hp
    rcases hp with rfl | rfl | rfl | rfl | rfl
    · refine okTQ _ _ (by decide) (by decide) ?_
      split
      · exact hh _
      · rename_i hn
        rcases huser with e | e
        · exact absurd (by rw [e]; rfl) hn
        · exact e
    · exact okTQ _ _ (by decide) (by decide) hrealm
    · exact okTQ _ _ (by decide) (by decide) hnonce
    · exact okTQ _ _ (by decide) (by decide) huri
    · exact okTQ _ _ (by decide) (by decide) (response_text h hh c cr nc cn)
  · split at hp
    · cases hp
    · rename_i hne
      simp only [List.mem_singleton] at hp
      subst hp
      rcases halg with e | ⟨e1, e2⟩
      · exact absurd (by rw [e]; rfl) hne
      · exact okTB _ _ (by decide) (by decide) e1 e2
  · split at hp
    · cases hp
    · simp only [List.mem_singleton] at hp
      subst hp
      exact okTQ _ _ (by decide) (by decide) hop
  · split at hp
    · cases hp
    · rename_i hne
      rcases hqop with e | e
      · exact absurd (by rw [e]; rfl) hne
      · simp only [List.mem_cons, List.not_mem_nil, or_false] at hp
        rcases hp with rfl | rfl | rfl
        · rw [e]; exact okTB _ _ (by decide) (by decide) (by decide) (by decide)
        · exact okTB _ _ (by decide) (by decide) hnc.1 hnc.2
        · exact okTQ _ _ (by decide) (by decide) hcn

end ok

/-! ### a header that is a field value has field-value parameters -/

theorem all_of_quoteBody {q : UInt8 → Bool} : ∀ s : Bytes, (quoteBody s).all q = true → s.all q = true := by
  intro s
  induction s with
  | nil => intro _; rfl
  | cons c cs ih =>
    intro h
    unfold quoteBody at h
    split at h
    · simp only [List.all_cons, Bool.and_eq_true] at h
      simp only [List.all_cons, Bool.and_eq_true]
      exact ⟨h.2.1, ih h.2.2⟩
    · simp only [List.all_cons, Bool.and_eq_true] at h
      simp only [List.all_cons, Bool.and_eq_true]
      exact ⟨h.1, ih h.2⟩

theorem all_of_renderParam {q : UInt8 → Bool} (p : Param) (hq : p.quotedForm = true)
    (h : (renderParam p).all q = true) : p.value.all q = true := by
  unfold renderParam at h
  simp only [hq, if_true, quote, List.all_append, List.all_cons, Bool.and_eq_true] at h
  exact all_of_quoteBody _ h.2.2.2.1

theorem all_of_commaJoin {q : UInt8 → Bool} : ∀ (l : List Bytes), (commaJoin l).all q = true →
    ∀ x ∈ l, x.all q = true
  | [], _ => by intro x hx; cases hx
  | [y], h => by
    intro x hx
    simp only [List.mem_singleton] at hx
    subst hx
    simpa [commaJoin] using h
  | y :: z :: r, h => by
    intro x hx
    simp only [commaJoin, List.all_append, List.all_cons, Bool.and_eq_true] at h
    cases hx with
    | head => exact h.1
    | tail _ hx => exact all_of_commaJoin (z :: r) h.2.2.2 x hx

/-- every quoted value of a rendered header consists of bytes the header consists of -/
theorem quoted_values_of_header {q : UInt8 → Bool} (l : List Param)
    (h : (digestPrefix ++ commaJoin (l.map renderParam)).all q = true) :
    ∀ p ∈ l, p.quotedForm = true → p.value.all q = true := by
  intro p hp hq
  simp only [List.all_append, Bool.and_eq_true] at h
  exact all_of_renderParam p hq (all_of_commaJoin _ h.2 (renderParam p) (List.mem_map_of_mem hp))

/-! ### … and conversely: field-value parameters give a header that is a field value -/

set_option maxRecDepth 100000 in
theorem tok_text : ∀ c, isTokenByte c = true → isText c = true := forall_uint8 _ (by decide)

theorem all_tok_text {s : Bytes} (h : s.all isTokenByte = true) : s.all isText = true := by
  rw [List.all_eq_true] at h ⊢
  intro x hx
  exact tok_text x (h x hx)

theorem quoteBody_text : ∀ s : Bytes, s.all isText = true → (quoteBody s).all isText = true := by
  intro s
  induction s with
  | nil => intro _; rfl
  | cons c cs ih =>
    intro h
    simp only [List.all_cons, Bool.and_eq_true] at h
    unfold quoteBody
    split
    · simp only [List.all_cons, Bool.and_eq_true]
      exact ⟨by decide, h.1, ih h.2⟩
    · simp only [List.all_cons, Bool.and_eq_true]
      exact ⟨h.1, ih h.2⟩

theorem renderParam_text (p : Param) (h : Param.okT p) : (renderParam p).all isText = true := by
  obtain ⟨_, hn, hv⟩ := h
  unfold renderParam
  split
  · rename_i hq
    simp only [hq, if_true] at hv
    simp only [quote, List.all_append, List.all_cons, Bool.and_eq_true, List.all_nil, Bool.and_true]
    exact ⟨all_tok_text hn, by decide, by decide, quoteBody_text _ hv, by decide⟩
  · rename_i hq
    simp only [hq, Bool.false_eq_true, if_false] at hv
    simp only [bare, List.all_append, List.all_cons, Bool.and_eq_true]
    exact ⟨all_tok_text hn, by decide, all_tok_text hv.2⟩

theorem commaJoin_text : ∀ (l : List Bytes), (∀ x ∈ l, x.all isText = true) → (commaJoin l).all isText = true
  | [], _ => rfl
  | [y], h => by simpa [commaJoin] using h y (by simp)
  | y :: z :: r, h => by
    simp only [commaJoin, List.all_append, List.all_cons, Bool.and_eq_true]
    exact ⟨h y (by simp), by decide, by decide,
      commaJoin_text (z :: r) (fun x hx => h x (List.mem_cons_of_mem _ hx))⟩

theorem header_text (l : List Param) (h : ∀ p ∈ l, Param.okT p) :
    (digestPrefix ++ commaJoin (l.map renderParam)).all isText = true := by
  simp only [List.all_append, Bool.and_eq_true]
  refine ⟨by decide, commaJoin_text _ ?_⟩
  intro x hx
  simp only [List.mem_map] at hx
  obtain ⟨p, hp, rfl⟩ := hx
  exact renderParam_text p (h p hp)

end Req.Rfc7616

