import Req.Client.Scope
import Req.Lemmas.C19Scope
/-!
# C19 — helper lemmas for the binding-time theorems (`Props/C19Binding.lean`)

A settings primitive acts on ONE record and its effect is a function of that record alone
(`stepOwner`, `stepV_local`, `runV_local`); a setter outside the retry family writes no retry
field (`nonRetry_fields`).
-/
namespace Req.Scope

/-- effect of a settings primitive on the record it is aimed at -/
def stepOwner (w : VOwner) : Prim → VOwner
  | .set _ f k vs => if kind f = .box then w.setVal f ((w.val f).set k vs) else w
  | .add _ f k vs => if kind f = .box then w.setVal f ((w.val f).addMany k vs) else w
  | .replace _ f m => w.setVal f (norm (kind f) m)
  | .clear _ f => w.setVal f []
  | .append _ f xs => if kind f = .slice then w.setVal f (appendV (w.val f) xs) else w
  | .copyFrom _ dst src => w.setVal dst (norm (kind dst) (w.val src))
  | .wrap _ sl ch xs _ =>
    if kind sl = .slice ∧ kind ch = .box ∧ ¬ xs.isEmpty then
      let w1 := if (w.val ch).toList.isEmpty then w.setVal sl (AMap.ofList xs)
                else w.setVal sl (appendV (w.val sl) xs)
      w1.setVal ch ((w1.val ch).set 0 ((w1.val ch).toList ++ xs))
    else w
  | _ => w

/-- the fields a primitive may write -/
def Prim.fields : Prim → List Field
  | .set _ f _ _ => [f]
  | .add _ f _ _ => [f]
  | .replace _ f _ => [f]
  | .clear _ f => [f]
  | .append _ f _ => [f]
  | .copyFrom _ dst _ => [dst]
  | .wrap _ sl ch _ _ => [sl, ch]
  | _ => []

theorem stepV_local (s : VState) (p : Prim) (o : Nat) (ho : o < s.count) (hp : staticTarget p = some o) :
    (stepV s p).owner o = stepOwner (s.owner o) p ∧ (stepV s p).count = s.count := by
  cases p <;> simp only [staticTarget, Option.some.injEq] at hp <;> try (exact absurd hp (by simp))
  all_goals subst hp
  case set f k vs =>
    simp only [stepV, stepOwner]; split
    · exact ⟨updOwner_self _ _ _ ho, updOwner_count _ _ _⟩
    · exact ⟨rfl, rfl⟩
  case add f k vs =>
    simp only [stepV, stepOwner]; split
    · exact ⟨updOwner_self _ _ _ ho, updOwner_count _ _ _⟩
    · exact ⟨rfl, rfl⟩
  case replace f m => exact ⟨updOwner_self _ _ _ ho, updOwner_count _ _ _⟩
  case clear f => exact ⟨updOwner_self _ _ _ ho, updOwner_count _ _ _⟩
  case append f xs =>
    simp only [stepV, stepOwner]; split
    · exact ⟨updOwner_self _ _ _ ho, updOwner_count _ _ _⟩
    · exact ⟨rfl, rfl⟩
  case copyFrom d sr => exact ⟨updOwner_self _ _ _ ho, updOwner_count _ _ _⟩
  case wrap sl ch xs b =>
    simp only [stepV, stepOwner]; split
    · exact ⟨updOwner_self _ _ _ ho, updOwner_count _ _ _⟩
    · exact ⟨rfl, rfl⟩

theorem runV_local (o : Nat) : ∀ (ps : List Prim) (s : VState), o < s.count → (∀ p ∈ ps, staticTarget p = some o) →
    (runV s ps).owner o = ps.foldl stepOwner (s.owner o) ∧ (runV s ps).count = s.count := by
  intro ps
  induction ps with
  | nil => intro s _ _; exact ⟨rfl, rfl⟩
  | cons p ps ih =>
    intro s ho hps
    simp only [runV, List.foldl_cons]
    obtain ⟨h1, h2⟩ := stepV_local s p o ho (hps p (by simp))
    have := ih (stepV s p) (by rw [h2]; exact ho) (fun q hq => hps q (by simp [hq]))
    simp only [runV] at this
    rw [this.1, this.2, h1, h2]
    exact ⟨rfl, rfl⟩

theorem setVal_val_other (w : VOwner) (f g : Field) (m : AMap) (h : g ≠ f) : (w.setVal f m).val g = w.val g := by
  simp [VOwner.setVal, h]

theorem stepOwner_val_other (w : VOwner) (p : Prim) (g : Field) (h : g ∉ p.fields) : (stepOwner w p).val g = w.val g := by
  cases p <;> simp only [Prim.fields, List.mem_cons, List.not_mem_nil, or_false, not_or] at h <;>
    simp only [stepOwner]
  case set f k vs => split <;> simp [VOwner.setVal, h]
  case add f k vs => split <;> simp [VOwner.setVal, h]
  case replace f m => simp [VOwner.setVal, h]
  case clear f => simp [VOwner.setVal, h]
  case append f xs => split <;> simp [VOwner.setVal, h]
  case copyFrom d sr => simp [VOwner.setVal, h]
  case wrap sl ch xs b =>
    split
    · simp only [VOwner.setVal, h.2, if_false]
      split <;> simp [h.1]
    · rfl

theorem foldl_stepOwner_val_other (g : Field) : ∀ (ps : List Prim) (w : VOwner), (∀ p ∈ ps, g ∉ p.fields) →
    (ps.foldl stepOwner w).val g = w.val g := by
  intro ps
  induction ps with
  | nil => intro w _; rfl
  | cons p ps ih =>
    intro w h
    simp only [List.foldl_cons]
    rw [ih (stepOwner w p) (fun q hq => h q (by simp [hq])), stepOwner_val_other w p g (h p (by simp))]

def isRetryField (f : Field) : Bool := f == F.retryConds || f == F.retryHooks || f == F.retryCount || f == F.retryInterval

/-- the retry family of the settings API (and a `scalar` aimed at a retry field) -/
def Setter.retryFamily : Setter → Bool
  | .retryCount _ | .retryInterval _ | .retryCondSet _ | .retryCondAdd _ | .retryHookSet _ | .retryHookAdd _ => true
  | .scalar f _ => isRetryField f
  | _ => false

theorem nonRetry_fieldsB (o : Nat) (st : Setter) (h : st.retryFamily = false) :
    (st.prims o).all (fun p => p.fields.all (fun f => !isRetryField f)) = true := by
  cases st <;> simp only [Setter.retryFamily, reduceCtorEq] at h
  case scalar f v => simp [Setter.prims, Prim.fields, h]
  case dumpWithout mask =>
    simp only [Setter.prims, List.all_append, Bool.and_eq_true]
    refine ⟨⟨⟨⟨?_, ?_⟩, ?_⟩, ?_⟩, ?_⟩
    all_goals (try split)
    all_goals simp only [List.all_cons, List.all_nil, Prim.fields, Bool.and_true]
    all_goals decide
  all_goals simp only [Setter.prims, List.all_cons, List.all_nil, Prim.fields, Bool.and_true]
  all_goals decide

/-- a setter outside the retry family writes no retry field -/
theorem nonRetry_fields (o : Nat) (st : Setter) (h : st.retryFamily = false) :
    ∀ p ∈ st.prims o, ∀ f ∈ p.fields, isRetryField f = false := by
  intro p hp f hf
  have := nonRetry_fieldsB o st h
  rw [List.all_eq_true] at this
  have := this p hp
  rw [List.all_eq_true] at this
  simpa using this f hf

end Req.Scope
