import Req.Client.Rfc7616
/-!
Helper lemmas for C20: the credentials automaton of the RFC 7616 verifier reads back any list
of well-formed auth-params rendered the way `authorize` renders them
(`name="value"` / `name=value`, joined by `", "`).
-/
namespace Req.Rfc7616
open Req.Proto Req.Ascii Req.Digest

/-- qdtext: what may stand unescaped inside a quoted-string. -/
def isQd (c : UInt8) : Bool := isText c && c != 34 && c != 92

theorem run_nil (s : St) : run s [] = s := rfl
theorem run_cons (s : St) (c : UInt8) (cs : Bytes) : run s (c :: cs) = run (step s c) cs := rfl
theorem run_append (s : St) (a b : Bytes) : run s (a ++ b) = run (run s a) b := by
  simp [run, List.foldl_append]

/-- a token byte differs from every non-token byte -/
theorem tok_ne (k : UInt8) (hk : isTokenByte k = false) {c : UInt8} (h : isTokenByte c = true) :
    (c == k) = false := by
  cases hc : c == k with
  | false => rfl
  | true =>
    have := eq_of_beq hc
    subst this
    rw [hk] at h
    cases h

theorem tok_not_ows {c : UInt8} (h : isTokenByte c = true) : isOws c = false := by
  have h1 := tok_ne 32 (by decide) h
  have h2 := tok_ne 9 (by decide) h
  simp [isOws, h1, h2]

theorem qd_text {c : UInt8} (h : isQd c = true) : isText c = true ∧ (c == 34) = false ∧ (c == 92) = false := by
  simp only [isQd, Bool.and_eq_true, bne_iff_ne, ne_eq] at h
  refine ⟨h.1.1, ?_, ?_⟩
  · simpa using h.1.2
  · simpa using h.2

theorem run_name (ps : Params) : ∀ (s n rest : Bytes), s.all isTokenByte = true →
    run (.name ps n) (s ++ rest) = run (.name ps (n ++ s)) rest := by
  intro s
  induction s with
  | nil => intro n rest _; simp
  | cons c cs ih =>
    intro n rest h
    simp only [List.all_cons, Bool.and_eq_true] at h
    simp only [List.cons_append, run_cons, step, h.1, if_true]
    rw [ih (n ++ [c]) rest h.2]
    simp

theorem run_tok (ps : Params) (n : Bytes) : ∀ (s v rest : Bytes), s.all isTokenByte = true →
    run (.tok ps n v) (s ++ rest) = run (.tok ps n (v ++ s)) rest := by
  intro s
  induction s with
  | nil => intro v rest _; simp
  | cons c cs ih =>
    intro v rest h
    simp only [List.all_cons, Bool.and_eq_true] at h
    simp only [List.cons_append, run_cons, step, h.1, if_true]
    rw [ih (v ++ [c]) rest h.2]
    simp

theorem run_quo (ps : Params) (n : Bytes) : ∀ (s v rest : Bytes), s.all isQd = true →
    run (.quo ps n v) (s ++ rest) = run (.quo ps n (v ++ s)) rest := by
  intro s
  induction s with
  | nil => intro v rest _; simp
  | cons c cs ih =>
    intro v rest h
    simp only [List.all_cons, Bool.and_eq_true] at h
    obtain ⟨ht, h34, h92⟩ := qd_text h.1
    simp only [List.cons_append, run_cons, step, h34, h92, ht, if_true, Bool.false_eq_true, if_false]
    rw [ih (v ++ [c]) rest h.2]
    simp

/-- reading a parameter name from the start state -/
theorem run_start_name (ps : Params) (n rest : Bytes) (hn : n ≠ []) (ht : n.all isTokenByte = true) :
    run (.start ps) (n ++ rest) = run (.name ps n) rest := by
  cases n with
  | nil => exact absurd rfl hn
  | cons c cs =>
    simp only [List.all_cons, Bool.and_eq_true] at ht
    simp only [List.cons_append, run_cons, step, tok_not_ows ht.1, ht.1, if_true, Bool.false_eq_true, if_false]
    rw [run_name ps cs [c] rest ht.2]
    simp

theorem run_quoted_param (ps : Params) (n v rest : Bytes) (hn : n ≠ []) (ht : n.all isTokenByte = true)
    (hv : v.all isQd = true) :
    run (.start ps) (quoted n v ++ rest) = run (.after (ps ++ [(n, v)])) rest := by
  have e : quoted n v ++ rest = n ++ (61 :: 34 :: (v ++ (34 :: rest))) := by
    simp [quoted, List.append_assoc]
  rw [e, run_start_name ps n _ hn ht]
  have h61 : isTokenByte 61 = false := by decide
  have h34o : isOws 34 = false := by decide
  simp only [run_cons, step, h61, Bool.false_eq_true, if_false, beq_self_eq_true, if_true, h34o]
  rw [run_quo ps n v [] (34 :: rest) hv]
  simp only [run_cons, step, beq_self_eq_true, if_true, List.nil_append]

theorem run_bare_param (ps : Params) (n v rest : Bytes) (hn : n ≠ []) (ht : n.all isTokenByte = true)
    (hv : v ≠ []) (hvt : v.all isTokenByte = true) :
    run (.start ps) (bare n v ++ rest) = run (.tok ps n v) rest := by
  have e : bare n v ++ rest = n ++ (61 :: (v ++ rest)) := by
    simp [bare, List.append_assoc]
  rw [e, run_start_name ps n _ hn ht]
  have h61 : isTokenByte 61 = false := by decide
  cases v with
  | nil => exact absurd rfl hv
  | cons c cs =>
    simp only [List.all_cons, Bool.and_eq_true] at hvt
    have h34 := tok_ne 34 (by decide) hvt.1
    simp only [List.cons_append, run_cons, step, h61, Bool.false_eq_true, if_false, beq_self_eq_true, if_true,
      tok_not_ows hvt.1, h34, hvt.1]
    rw [run_tok ps n cs [c] rest hvt.2]
    simp

/-- Well-formedness of one rendered parameter. -/
def Param.okP (p : Param) : Prop :=
  p.name ≠ [] ∧ p.name.all isTokenByte = true ∧
  (if p.quotedForm then p.value.all isQd = true
   else p.value ≠ [] ∧ p.value.all isTokenByte = true)

/-- a parameter followed by `", "` leaves the automaton at the start of the next one -/
theorem run_param_sep (ps : Params) (p : Param) (rest : Bytes) (hp : Param.okP p) :
    run (.start ps) (p.render ++ 44 :: 32 :: rest) = run (.start (ps ++ [(p.name, p.value)])) rest := by
  obtain ⟨hn, ht, hv⟩ := hp
  have h44 : isTokenByte 44 = false := by decide
  have h44o : isOws 44 = false := by decide
  have h32 : isOws 32 = true := by decide
  unfold Param.render
  cases hq : p.quotedForm with
  | true =>
    simp only [hq, if_true] at hv ⊢
    rw [run_quoted_param ps p.name p.value _ hn ht hv]
    simp only [run_cons, step, h44o, Bool.false_eq_true, if_false, beq_self_eq_true, if_true, h32]
  | false =>
    simp only [hq, Bool.false_eq_true, if_false] at hv ⊢
    rw [run_bare_param ps p.name p.value _ hn ht hv.1 hv.2]
    simp only [run_cons, step, h44, Bool.false_eq_true, if_false, beq_self_eq_true, if_true, h32]

theorem finish_param (ps : Params) (p : Param) (hp : Param.okP p) :
    finish (run (.start ps) p.render) = some (ps ++ [(p.name, p.value)]) := by
  obtain ⟨hn, ht, hv⟩ := hp
  unfold Param.render
  cases hq : p.quotedForm with
  | true =>
    simp only [hq, if_true] at hv ⊢
    have := run_quoted_param ps p.name p.value [] hn ht hv
    simp only [List.append_nil] at this
    rw [this]; rfl
  | false =>
    simp only [hq, Bool.false_eq_true, if_false] at hv ⊢
    have := run_bare_param ps p.name p.value [] hn ht hv.1 hv.2
    simp only [List.append_nil] at this
    rw [this]; rfl

/-- **The automaton reads back what `authorize` writes.** -/
theorem finish_run_params : ∀ (l : List Param) (ps : Params), l ≠ [] → (∀ p ∈ l, Param.okP p) →
    finish (run (.start ps) (commaJoin (l.map Param.render))) =
      some (ps ++ l.map fun p => (p.name, p.value))
  | [], _, h, _ => absurd rfl h
  | [p], ps, _, hok => by
    simpa [commaJoin] using finish_param ps p (hok p (by simp))
  | p :: q :: r, ps, _, hok => by
    have hp := hok p (by simp)
    have ih := finish_run_params (q :: r) (ps ++ [(p.name, p.value)]) (by simp)
      (fun x hx => hok x (List.mem_cons_of_mem _ hx))
    simp only [List.map_cons, commaJoin] at ih ⊢
    rw [run_param_sep ps p _ hp, ih]
    simp

theorem parseCredentials_render (l : List Param) (hl : l ≠ []) (hok : ∀ p ∈ l, Param.okP p) :
    parseCredentials (digestPrefix ++ commaJoin (l.map Param.render)) =
      some (l.map fun p => (p.name, p.value)) := by
  have ht : (digestPrefix ++ commaJoin (l.map Param.render)).take 7 = digestPrefix := rfl
  have hd : (digestPrefix ++ commaJoin (l.map Param.render)).drop 7 = commaJoin (l.map Param.render) := rfl
  have hf : equalFold digestPrefix b!"digest " = true := by decide
  have hne : (l.map fun p => (p.name, p.value)).isEmpty = false := by
    cases l with
    | nil => exact absurd rfl hl
    | cons _ _ => rfl
  simp only [parseCredentials, ht, hd, hf, if_true, finish_run_params l [] hl hok, List.nil_append, hne,
    Bool.false_eq_true, if_false]

end Req.Rfc7616
