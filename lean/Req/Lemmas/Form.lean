import Req.Client.Form
/-! Helper lemmas for the form round trip (C17). -/
namespace Req.Form
open Req.Proto

/-! ### bytes -/

theorem unhex_upperHex : ∀ d, d < 16 → unhex (upperHex d) = some d := by decide

theorem upperHex_safe : ∀ d, d < 16 →
    upperHex d ≠ 38 ∧ upperHex d ≠ 61 ∧ upperHex d ≠ 59 := by decide

theorem byte_recompose (c : UInt8) : UInt8.ofNat (16 * (c.toNat / 16) + c.toNat % 16) = c := by
  rw [Nat.div_add_mod]; exact UInt8.ofNat_toNat

theorem toNat_div16_lt (c : UInt8) : c.toNat / 16 < 16 := by
  have := c.toNat_lt; omega

theorem toNat_mod16_lt (c : UInt8) : c.toNat % 16 < 16 := Nat.mod_lt _ (by decide)

theorem byte_forall (P : UInt8 → Prop) (h : ∀ n, n < 256 → P (UInt8.ofNat n)) : ∀ c, P c := by
  intro c
  have := h c.toNat c.toNat_lt
  simpa using this

set_option maxRecDepth 100000 in
theorem unreserved_facts : ∀ c : UInt8, shouldEscape c = false →
    (c == 37) = false ∧ (c == 43) = false ∧ c ≠ 38 ∧ c ≠ 61 ∧ c ≠ 59 := by
  apply byte_forall
  decide

theorem byte_recompose' (c : UInt8) :
    16 * UInt8.ofNat (c.toNat / 16) + UInt8.ofNat (c.toNat % 16) = c := by
  have := byte_recompose c
  simpa [UInt8.ofNat_add, UInt8.ofNat_mul] using this

/-! ### escape / unescape -/

theorem unescape_plus (rest : Bytes) :
    queryUnescape (43 :: rest) = (queryUnescape rest).map (fun r => 32 :: r) := by
  conv => lhs; rw [queryUnescape.eq_def]
  simp

theorem unescape_lit (c : UInt8) (rest : Bytes) (h37 : (c == 37) = false) (h43 : (c == 43) = false) :
    queryUnescape (c :: rest) = (queryUnescape rest).map (fun r => c :: r) := by
  conv => lhs; rw [queryUnescape.eq_def]
  simp [h37, h43]

theorem unescape_hex (c : UInt8) (rest : Bytes) :
    queryUnescape (37 :: upperHex (c.toNat / 16) :: upperHex (c.toNat % 16) :: rest)
      = (queryUnescape rest).map (fun r => c :: r) := by
  conv => lhs; rw [queryUnescape.eq_def]
  simp [unhex_upperHex _ (toNat_div16_lt c), unhex_upperHex _ (toNat_mod16_lt c), byte_recompose']

theorem unescape_escByte (c : UInt8) (rest : Bytes) :
    queryUnescape (escByte c ++ rest) = (queryUnescape rest).map (fun r => c :: r) := by
  unfold escByte
  split
  next h32 =>
    have : c = 32 := by simpa using h32
    subst this
    exact unescape_plus rest
  next h32 =>
    split
    next hs => exact unescape_hex c rest
    next hs =>
      have hs' : shouldEscape c = false := by simpa using hs
      obtain ⟨h37, h43, -⟩ := unreserved_facts c hs'
      exact unescape_lit c rest h37 h43

theorem unescape_escape_append (s rest : Bytes) :
    queryUnescape (queryEscape s ++ rest) = (queryUnescape rest).map (fun r => s ++ r) := by
  induction s with
  | nil => simp [queryEscape]
  | cons c cs ih =>
    have : queryEscape (c :: cs) = escByte c ++ queryEscape cs := by simp [queryEscape]
    rw [this, List.append_assoc, unescape_escByte, ih]
    cases queryUnescape rest <;> simp

theorem unescape_escape (s : Bytes) : queryUnescape (queryEscape s) = some s := by
  have := unescape_escape_append s []
  simpa [queryUnescape] using this

/-- Escaped text contains none of the structural bytes `&` `=` `;`. -/
def Safe (s : Bytes) : Prop := ∀ x ∈ s, x ≠ 38 ∧ x ≠ 61 ∧ x ≠ 59

theorem escByte_safe (c : UInt8) : Safe (escByte c) := by
  intro x hx
  unfold escByte at hx
  by_cases h32 : (c == 32) = true
  · simp [h32] at hx; subst hx; decide
  · simp only [h32, Bool.false_eq_true, ↓reduceIte] at hx
    cases hs : shouldEscape c
    · simp [hs] at hx; subst hx
      exact (unreserved_facts x hs).2.2
    · simp [hs] at hx
      rcases hx with rfl | rfl | rfl
      · decide
      · exact upperHex_safe _ (toNat_div16_lt c)
      · exact upperHex_safe _ (toNat_mod16_lt c)

theorem escape_safe (s : Bytes) : Safe (queryEscape s) := by
  intro x hx
  simp only [queryEscape, List.mem_flatMap] at hx
  obtain ⟨c, -, hc⟩ := hx
  exact escByte_safe c x hc

/-! ### splitting -/

theorem splitOn_ne_nil (sep : UInt8) (s : Bytes) : splitOn sep s ≠ [] := by
  induction s with
  | nil => simp [splitOn]
  | cons c cs ih =>
    unfold splitOn
    split
    · simp
    · split <;> simp

theorem splitOn_notin (sep : UInt8) (a : Bytes) (h : sep ∉ a) : splitOn sep a = [a] := by
  induction a with
  | nil => simp [splitOn]
  | cons c cs ih =>
    have hc : (c == sep) = false := by
      simp only [List.mem_cons, not_or] at h
      simpa using fun e => h.1 e.symm
    have hcs : sep ∉ cs := fun m => h (List.mem_cons_of_mem _ m)
    simp [splitOn, hc, ih hcs]

theorem splitOn_append (sep : UInt8) (a r : Bytes) (h : sep ∉ a) :
    splitOn sep (a ++ sep :: r) = a :: splitOn sep r := by
  induction a with
  | nil => simp [splitOn]
  | cons c cs ih =>
    have hc : (c == sep) = false := by
      simp only [List.mem_cons, not_or] at h
      simpa using fun e => h.1 e.symm
    have hcs : sep ∉ cs := fun m => h (List.mem_cons_of_mem _ m)
    simp [splitOn, hc, ih hcs]

theorem cut_append (sep : UInt8) (a r : Bytes) (h : sep ∉ a) :
    cut sep (a ++ sep :: r) = (a, some r) := by
  induction a with
  | nil => simp [cut]
  | cons c cs ih =>
    have hc : (c == sep) = false := by
      simp only [List.mem_cons, not_or] at h
      simpa using fun e => h.1 e.symm
    have hcs : sep ∉ cs := fun m => h (List.mem_cons_of_mem _ m)
    simp [cut, hc, ih hcs]

/-! ### one segment -/

theorem encPair_safe_amp (p : Pair) : (38 : UInt8) ∉ encPair p := by
  intro h
  simp only [encPair, List.mem_append, List.mem_cons] at h
  rcases h with h | h | h
  · exact (escape_safe _ _ h).1 rfl
  · exact absurd h (by decide)
  · exact (escape_safe _ _ h).1 rfl

theorem parseSeg_encPair (p : Pair) : parseSeg (encPair p) = .pair p.1 p.2 := by
  have h59 : (59 : UInt8) ∉ encPair p := by
    intro h
    simp only [encPair, List.mem_append, List.mem_cons] at h
    rcases h with h | h | h
    · exact (escape_safe _ _ h).2.2 rfl
    · exact absurd h (by decide)
    · exact (escape_safe _ _ h).2.2 rfl
  have hne : (encPair p).isEmpty = false := by simp [encPair]
  have h61 : (61 : UInt8) ∉ queryEscape p.1 := fun h => (escape_safe _ _ h).2.1 rfl
  have hcut : cut 61 (encPair p) = (queryEscape p.1, some (queryEscape p.2)) :=
    cut_append 61 _ _ h61
  simp [parseSeg, h59, hne, hcut, unescape_escape]

/-! ### whole body -/

theorem segs_encodePairs (ps : List Pair) :
    ((splitOn 38 (encodePairs ps)).map parseSeg).filterMap segPair = ps ∧
    ((splitOn 38 (encodePairs ps)).map parseSeg).any Seg.isBad = false := by
  induction ps with
  | nil => simp [encodePairs, splitOn, parseSeg, segPair, Seg.isBad]
  | cons p ps ih =>
    cases ps with
    | nil =>
      simp [encodePairs, splitOn_notin 38 _ (encPair_safe_amp p), parseSeg_encPair, segPair, Seg.isBad]
    | cons q qs =>
      simp only [encodePairs]
      rw [splitOn_append 38 _ _ (encPair_safe_amp p)]
      simp only [List.map_cons, parseSeg_encPair, List.filterMap_cons, segPair, List.any_cons, Seg.isBad]
      refine ⟨by rw [ih.1], ?_⟩
      rw [ih.2]; simp

theorem parseForm_encodePairs (ps : List Pair) : parseForm (encodePairs ps) = (ps, false) := by
  have h := segs_encodePairs ps
  simp [parseForm, h.1, h.2]

/-! ### url.Values -/

theorem pairUp_flat (ps : List Pair) :
    pairUp (ps.flatMap (fun p => [p.1, p.2])) = some ps := by
  induction ps with
  | nil => simp [pairUp]
  | cons p ps ih => simp [pairUp, ih]

theorem bytesLt_irrefl (a : Bytes) : bytesLt a a = false := by
  induction a with
  | nil => simp [bytesLt]
  | cons c cs ih => simp [bytesLt, ih]

theorem filter_ins (k : Bytes) (x : Bytes × List Bytes) (ys : Values) :
    (ins x ys).filter (fun kvs => kvs.1 == k) = (x :: ys).filter (fun kvs => kvs.1 == k) := by
  induction ys with
  | nil => simp [ins]
  | cons y ys ih =>
    unfold ins
    split
    next hlt =>
      have hne : y.1 ≠ x.1 := by
        intro e; rw [e, bytesLt_irrefl] at hlt; exact absurd hlt (by decide)
      rw [List.filter_cons, ih]
      by_cases hy : (y.1 == k) = true
      · have hyk : y.1 = k := by simpa using hy
        have hx : (x.1 == k) = false := by
          rw [Bool.eq_false_iff]; intro hx
          have : x.1 = k := by simpa using hx
          exact hne (hyk.trans this.symm)
        simp [List.filter_cons, hy, hx]
      · simp [List.filter_cons, hy]
    next => rfl

theorem filter_sortKeys (k : Bytes) (m : Values) :
    (sortKeys m).filter (fun kvs => kvs.1 == k) = m.filter (fun kvs => kvs.1 == k) := by
  induction m with
  | nil => simp [sortKeys]
  | cons x xs ih =>
    have : sortKeys (x :: xs) = ins x (sortKeys xs) := by simp [sortKeys]
    rw [this, filter_ins, List.filter_cons, List.filter_cons, ih]

theorem valuesOf_sortKeys (m : Values) (k : Bytes) : valuesOf (sortKeys m) k = valuesOf m k := by
  simp [valuesOf, filter_sortKeys]

theorem valuesOfPairs_flatten (m : Values) (k : Bytes) :
    valuesOfPairs (flatten m) k = valuesOf m k := by
  induction m with
  | nil => simp [valuesOfPairs, flatten, valuesOf]
  | cons x xs ih =>
    have hf : flatten (x :: xs) = x.2.map (fun v => (x.1, v)) ++ flatten xs := by
      simp [flatten]
    simp only [valuesOfPairs] at ih
    simp only [valuesOfPairs, hf, List.filter_append, List.map_append, ih]
    by_cases hx : (x.1 == k) = true
    · simp [valuesOf, List.filter_cons, hx, List.filter_map, Function.comp_def]
    · simp [valuesOf, List.filter_cons, hx, List.filter_map, Function.comp_def]

end Req.Form
