import Req.Client.Form
/-! Helper lemmas for the form round trip (C17). -/
namespace Req.Form
open Req.Proto

/-! ### bytes -/

theorem unhex_upperHex : ∀ d, d < 16 → unhex (upperHex d) = some d := by decide

theorem upperHex_safe : ∀ d, d < 16 →
    upperHex d ≠ 38 ∧ upperHex d ≠ 61 ∧ upperHex d ≠ 59 := by decide

theorem byte_recompose (c : UInt8) : UInt8.ofNat (16 * (c.toNat / 16) + c.toNat % 16) = c := by
  rw [Nat.div_add_mod]; exact UInt8.ofNat_toNat

theorem toNat_div16_lt (c : UInt8) : c.toNat / 16 < 16 := by
  have := c.toNat_lt; omega

theorem toNat_mod16_lt (c : UInt8) : c.toNat % 16 < 16 := Nat.mod_lt _ (by decide)

theorem byte_forall (P : UInt8 → Prop) (h : ∀ n, n < 256 → P (UInt8.ofNat n)) : ∀ c, P c := by
  intro c
  have := h c.toNat c.toNat_lt
  simpa using this

set_option maxRecDepth 100000 in
theorem unreserved_facts : ∀ c : UInt8, shouldEscape c = false →
    (c == 37) = false ∧ (c == 43) = false ∧ c ≠ 38 ∧ c ≠ 61 ∧ c ≠ 59 := by
  apply byte_forall
  decide

theorem byte_recompose' (c : UInt8) :
    16 * UInt8.ofNat (c.toNat / 16) + UInt8.ofNat (c.toNat % 16) = c := by
  have := byte_recompose c
  simpa [UInt8.ofNat_add, UInt8.ofNat_mul] using this

/-! ### escape / unescape -/

theorem unescape_plus (rest : Bytes) :
    queryUnescape (43 :: rest) = (queryUnescape rest).map (fun r => 32 :: r) := by
  conv => lhs; rw [queryUnescape.eq_def]
  simp

theorem unescape_lit (c : UInt8) (rest : Bytes) (h37 : (c == 37) = false) (h43 : (c == 43) = false) :
    queryUnescape (c :: rest) = (queryUnescape rest).map (fun r => c :: r) := by
  conv => lhs; rw [queryUnescape.eq_def]
  simp [h37, h43]

theorem unescape_hex (c : UInt8) (rest : Bytes) :
    queryUnescape (37 :: upperHex (c.toNat / 16) :: upperHex (c.toNat % 16) :: rest)
      = (queryUnescape rest).map (fun r => c :: r) := by
  conv => lhs; rw [queryUnescape.eq_def]
  simp [unhex_upperHex _ (toNat_div16_lt c), unhex_upperHex _ (toNat_mod16_lt c), byte_recompose']

theorem unescape_escByte (c : UInt8) (rest : Bytes) :
    queryUnescape (escByte c ++ rest) = (queryUnescape rest).map (fun r => c :: r) := by
  unfold escByte
  split
  next h32 =>
    have : c = 32 := by simpa using h32
    subst this
    exact unescape_plus rest
  next h32 =>
    split
    next hs => exact unescape_hex c rest
    next hs =>
      have hs' : shouldEscape c = false := by simpa using hs
      obtain ⟨h37, h43, -⟩ := unreserved_facts c hs'
      exact unescape_lit c rest h37 h43

theorem unescape_escape_append (s rest : Bytes) :
    queryUnescape (queryEscape s ++ rest) = (queryUnescape rest).map (fun r => s ++ r) := by
  induction s with
  | nil => simp [queryEscape]
  | cons c cs ih =>
    have : queryEscape (c :: cs) = escByte c ++ queryEscape cs := by simp [queryEscape]
    rw [this, List.append_assoc, unescape_escByte, ih]
    cases queryUnescape rest <;> simp

theorem unescape_escape (s : Bytes) : queryUnescape (queryEscape s) = some s := by
  have := unescape_escape_append s []
  simpa [queryUnescape] using this

/-- Escaped text contains none of the structural bytes `&` `=` `;`. -/
def Safe (s : Bytes) : Prop := ∀ x ∈ s, x ≠ 38 ∧ x ≠ 61 ∧ x ≠ 59

theorem escByte_safe (c : UInt8) : Safe (escByte c) := by
  intro x hx
  unfold escByte at hx
  by_cases h32 : (c == 32) = true
  · simp [h32] at hx; subst hx; decide
  · simp only [h32, Bool.false_eq_true, ↓reduceIte] at hx
    cases hs : shouldEscape c
    · simp [hs] at hx; subst hx
      exact (unreserved_facts x hs).2.2
    · simp [hs] at hx
      rcases hx with rfl | rfl | rfl
      · decide
      · exact upperHex_safe _ (toNat_div16_lt c)
      · exact upperHex_safe _ (toNat_mod16_lt c)

theorem escape_safe (s : Bytes) : Safe (queryEscape s) := by
  intro x hx
  simp only [queryEscape, List.mem_flatMap] at hx
  obtain ⟨c, -, hc⟩ := hx
  exact escByte_safe c x hc

/-! ### splitting -/

theorem splitOn_ne_nil (sep : UInt8) (s : Bytes) : splitOn sep s ≠ [] := by
  induction s with
  | nil => simp [splitOn]
  | cons c cs ih =>
    unfold splitOn
    split
    · simp
    · split <;> simp

theorem splitOn_notin (sep : UInt8) (a : Bytes) (h : sep ∉ a) : splitOn sep a = [a] := by
  induction a with
  | nil => simp [splitOn]
  | cons c cs ih =>
    have hc : (c == sep) = false := by
      simp only [List.mem_cons, not_or] at h
      simpa using fun e => h.1 e.symm
    have hcs : sep ∉ cs := fun m => h (List.mem_cons_of_mem _ m)
    simp [splitOn, hc, ih hcs]

theorem splitOn_append (sep : UInt8) (a r : Bytes) (h : sep ∉ a) :
    splitOn sep (a ++ sep :: r) = a :: splitOn sep r := by
  induction a with
  | nil => simp [splitOn]
  | cons c cs ih =>
    have hc : (c == sep) = false := by
      simp only [List.mem_cons, not_or] at h
      simpa using fun e => h.1 e.symm
    have hcs : sep ∉ cs := fun m => h (List.mem_cons_of_mem _ m)
    simp [splitOn, hc, ih hcs]

theorem cut_append (sep : UInt8) (a r : Bytes) (h : sep ∉ a) :
    cut sep (a ++ sep :: r) = (a, some r) := by
  induction a with
  | nil => simp [cut]
  | cons c cs ih =>
    have hc : (c == sep) = false := by
      simp only [List.mem_cons, not_or] at h
      simpa using fun e => h.1 e.symm
    have hcs : sep ∉ cs := fun m => h (List.mem_cons_of_mem _ m)
    simp [cut, hc, ih hcs]

/-! ### one segment -/

theorem encPair_safe_amp (p : Pair) : (38 : UInt8) ∉ encPair p := by
  intro h
  simp only [encPair, List.mem_append, List.mem_cons] at h
  rcases h with h | h | h
  · exact (escape_safe _ _ h).1 rfl
  · exact absurd h (by decide)
  · exact (escape_safe _ _ h).1 rfl

theorem parseSeg_encPair (p : Pair) : parseSeg (encPair p) = .pair p.1 p.2 := by
  have h59 : (59 : UInt8) ∉ encPair p := by
    intro h
    simp only [encPair, List.mem_append, List.mem_cons] at h
    rcases h with h | h | h
    · exact (escape_safe _ _ h).2.2 rfl
    · exact absurd h (by decide)
    · exact (escape_safe _ _ h).2.2 rfl
  have hne : (encPair p).isEmpty = false := by simp [encPair]
  have h61 : (61 : UInt8) ∉ queryEscape p.1 := fun h => (escape_safe _ _ h).2.1 rfl
  have hcut : cut 61 (encPair p) = (queryEscape p.1, some (queryEscape p.2)) :=
    cut_append 61 _ _ h61
  simp [parseSeg, h59, hne, hcut, unescape_escape]

/-! ### whole body -/

theorem segs_encodePairs (ps : List Pair) :
    ((splitOn 38 (encodePairs ps)).map parseSeg).filterMap segPair = ps ∧
    ((splitOn 38 (encodePairs ps)).map parseSeg).any Seg.isBad = false := by
  induction ps with
  | nil => simp [encodePairs, splitOn, parseSeg, segPair, Seg.isBad]
  | cons p ps ih =>
    cases ps with
    | nil =>
      simp [encodePairs, splitOn_notin 38 _ (encPair_safe_amp p), parseSeg_encPair, segPair, Seg.isBad]
    | cons q qs =>
      simp only [encodePairs]
      rw [splitOn_append 38 _ _ (encPair_safe_amp p)]
      simp only [List.map_cons, parseSeg_encPair, List.filterMap_cons, segPair, List.any_cons, Seg.isBad]
      refine ⟨by rw [ih.1], ?_⟩
      rw [ih.2]; simp

theorem parseForm_encodePairs (ps : List Pair) : parseForm (encodePairs ps) = (ps, false) := by
  have h := segs_encodePairs ps
  simp [parseForm, h.1, h.2]

/-! ### url.Values -/

theorem pairUp_flat (ps : List Pair) :
    pairUp (ps.flatMap (fun p => [p.1, p.2])) = some ps := by
  induction ps with
  | nil => simp [pairUp]
  | cons p ps ih => simp [pairUp, ih]

theorem bytesLt_irrefl (a : Bytes) : bytesLt a a = false := by
  induction a with
  | nil => simp [bytesLt]
  | cons c cs ih => simp [bytesLt, ih]

theorem filter_ins (k : Bytes) (x : Bytes × List Bytes) (ys : Values) :
    (ins x ys).filter (fun kvs => kvs.1 == k) = (x :: ys).filter (fun kvs => kvs.1 == k) := by
  induction ys with
  | nil => simp [ins]
  | cons y ys ih =>
    unfold ins
    split
    next hlt =>
      have hne : y.1 ≠ x.1 := by
        intro e; rw [e, bytesLt_irrefl] at hlt; exact absurd hlt (by decide)
      rw [List.filter_cons, ih]
      by_cases hy : (y.1 == k) = true
      · have hyk : y.1 = k := by simpa using hy
        have hx : (x.1 == k) = false := by
          rw [Bool.eq_false_iff]; intro hx
          have : x.1 = k := by simpa using hx
          exact hne (hyk.trans this.symm)
        simp [List.filter_cons, hy, hx]
      · simp [List.filter_cons, hy]
    next => rfl

theorem filter_sortKeys (k : Bytes) (m : Values) :
    (sortKeys m).filter (fun kvs => kvs.1 == k) = m.filter (fun kvs => kvs.1 == k) := by
  induction m with
  | nil => simp [sortKeys]
  | cons x xs ih =>
    have : sortKeys (x :: xs) = ins x (sortKeys xs) := by simp [sortKeys]
    rw [this, filter_ins, List.filter_cons, List.filter_cons, ih]

theorem valuesOf_sortKeys (m : Values) (k : Bytes) : valuesOf (sortKeys m) k = valuesOf m k := by
  simp [valuesOf, filter_sortKeys]

theorem valuesOfPairs_flatten (m : Values) (k : Bytes) :
    valuesOfPairs (flatten m) k = valuesOf m k := by
  induction m with
  | nil => simp [valuesOfPairs, flatten, valuesOf]
  | cons x xs ih =>
    have hf : flatten (x :: xs) = x.2.map (fun v => (x.1, v)) ++ flatten xs := by
      simp [flatten]
    simp only [valuesOfPairs] at ih
    simp only [valuesOfPairs, hf, List.filter_append, List.map_append, ih]
    by_cases hx : (x.1 == k) = true
    · simp [valuesOf, List.filter_cons, hx, List.filter_map, Function.comp_def]
    · simp [valuesOf, List.filter_cons, hx, List.filter_map, Function.comp_def]

/-! ### Values.Add and the client + request merge -/

theorem valuesOf_cons (x : Bytes × List Bytes) (m : Values) (k : Bytes) :
    valuesOf (x :: m) k = (if x.1 == k then x.2 else []) ++ valuesOf m k := by
  unfold valuesOf
  by_cases h : (x.1 == k) = true
  · simp [List.filter_cons, h]
  · simp [List.filter_cons, h]

theorem valuesOf_notin (m : Values) (k : Bytes) (h : k ∉ m.map (·.1)) : valuesOf m k = [] := by
  induction m with
  | nil => simp [valuesOf]
  | cons x xs ih =>
    simp only [List.map_cons, List.mem_cons, not_or] at h
    have hx : (x.1 == k) = false := by
      rw [Bool.eq_false_iff]; intro e
      have e' : x.1 = k := by simpa using e
      exact h.1 e'.symm
    rw [valuesOf_cons, hx, ih h.2]; simp

theorem keys_add (m : Values) (k v : Bytes) :
    (add m k v).map (·.1) = if k ∈ m.map (·.1) then m.map (·.1) else m.map (·.1) ++ [k] := by
  induction m with
  | nil => simp [add]
  | cons x xs ih =>
    unfold add
    by_cases h : (x.1 == k) = true
    · have : x.1 = k := by simpa using h
      simp [h, this]
    · have hne : x.1 ≠ k := by simpa using h
      simp only [h, Bool.false_eq_true, ↓reduceIte, List.map_cons, ih, List.mem_cons]
      by_cases hk : k ∈ xs.map (·.1)
      · simp [hk]
      · have : ¬ (k = x.1 ∨ k ∈ xs.map (·.1)) := by
          intro hor; rcases hor with e | e
          · exact hne e.symm
          · exact hk e
        simp [hk]
        exact fun e => hne e.symm

theorem nodup_add (m : Values) (k v : Bytes) (h : (m.map (·.1)).Nodup) :
    ((add m k v).map (·.1)).Nodup := by
  rw [keys_add]
  split
  · exact h
  next hk =>
    rw [List.nodup_append]
    exact ⟨h, by simp, by intro a ha b hb; simp at hb; subst hb; exact fun e => hk (e ▸ ha)⟩

theorem valuesOf_add (m : Values) (k v k' : Bytes) (h : (m.map (·.1)).Nodup) :
    valuesOf (add m k v) k' = valuesOf m k' ++ (if k == k' then [v] else []) := by
  induction m with
  | nil =>
    by_cases hk : (k == k') = true
    · simp [add, valuesOf, List.filter_cons, hk]
    · simp [add, valuesOf, List.filter_cons, hk]
  | cons x xs ih =>
    simp only [List.map_cons, List.nodup_cons] at h
    unfold add
    by_cases hx : (x.1 == k) = true
    · have hxk : x.1 = k := by simpa using hx
      simp only [hx, ↓reduceIte, valuesOf_cons]
      by_cases hk' : (k == k') = true
      · have : k = k' := by simpa using hk'
        subst this
        have hnot : valuesOf xs k = [] := valuesOf_notin xs k (hxk ▸ h.1)
        simp [hx, hnot]
      · have : (x.1 == k') = false := by
          rw [Bool.eq_false_iff]; intro e
          have : x.1 = k' := by simpa using e
          exact hk' (by simp [← hxk, this])
        simp [hk', this]
    · simp only [hx, Bool.false_eq_true, ↓reduceIte, valuesOf_cons, ih h.2, List.append_assoc]

theorem valuesOf_addMany (m : Values) (k : Bytes) (vs : List Bytes) (k' : Bytes)
    (h : (m.map (·.1)).Nodup) :
    ((vs.foldl (fun a v => add a k v) m).map (·.1)).Nodup ∧
    valuesOf (vs.foldl (fun a v => add a k v) m) k' = valuesOf m k' ++ (if k == k' then vs else []) := by
  induction vs generalizing m with
  | nil => simp [h]
  | cons v vs ih =>
    obtain ⟨h1, h2⟩ := ih (add m k v) (nodup_add m k v h)
    refine ⟨h1, ?_⟩
    rw [List.foldl_cons, h2, valuesOf_add m k v k' h]
    by_cases hk : (k == k') = true <;> simp [hk]

theorem valuesOf_addAll (dst src : Values) (k' : Bytes) (h : (dst.map (·.1)).Nodup) :
    ((addAll dst src).map (·.1)).Nodup ∧
    valuesOf (addAll dst src) k' = valuesOf dst k' ++ valuesOf src k' := by
  induction src generalizing dst with
  | nil => simp [addAll, valuesOf, h]
  | cons x xs ih =>
    obtain ⟨h1, h2⟩ := valuesOf_addMany dst x.1 x.2 k' h
    obtain ⟨h3, h4⟩ := ih _ h1
    refine ⟨by simpa [addAll] using h3, ?_⟩
    have : addAll dst (x :: xs) = addAll (x.2.foldl (fun a v => add a x.1 v) dst) xs := by simp [addAll]
    rw [this, h4, h2, valuesOf_cons, List.append_assoc]


end Req.Form
