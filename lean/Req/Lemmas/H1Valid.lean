import Req.H1.RoundTrip
import Req.Lemmas.H1Fidelity
import Req.Lemmas.Pct
/-! Lemmas that derive the hypotheses of `h1_fidelity` from the checks the code really makes
(`Transport.roundTrip`'s validation, `URL.EscapedPath`, the control-byte check of `writeRequest`). -/
namespace Req.Lemmas.H1Valid
open Req.Proto Req.Ascii Req.BStr Req.Url Req.Pct Req.Validate Req.H1 Req.HeaderSort

/-- a printable ASCII byte other than SP -/
def visible (b : UInt8) : Bool := 33 ≤ b && b ≤ 126

set_option maxRecDepth 100000 in
theorem tokenByte_fact (b : UInt8) : (!isTokenByte b || (b != 32 && b != 13 && b != 10)) = true :=
  Req.U8.all (fun b => !isTokenByte b || (b != 32 && b != 13 && b != 10)) (by decide) b

set_option maxRecDepth 100000 in
theorem valueByte_fact (b : UInt8) : ((isCTL b && !isLWS b) || (b != 13 && b != 10)) = true :=
  Req.U8.all (fun b => (isCTL b && !isLWS b) || (b != 13 && b != 10)) (by decide) b

/-- the per-byte test of `validEncoded` -/
def encOK (m : Mode) (c : UInt8) : Bool :=
  if c == 33 || c == 36 || c == 38 || c == 39 || c == 40 || c == 41 || c == 42 || c == 43 ||
     c == 44 || c == 59 || c == 61 || c == 58 || c == 64 || c == 91 || c == 93 || c == 37
  then true
  else !shouldEscape c m

set_option maxRecDepth 100000 in
theorem pathEnc_fact (b : UInt8) : (!encOK .path b || visible b) = true :=
  Req.U8.all (fun b => !encOK .path b || visible b) (by decide) b

set_option maxRecDepth 100000 in
theorem pathRaw_fact (b : UInt8) : (shouldEscape b .path || visible b) = true :=
  Req.U8.all (fun b => shouldEscape b .path || visible b) (by decide) b

set_option maxRecDepth 100000 in
theorem hex_fact (b : UInt8) : (!isUpperHexDigit b || visible b) = true :=
  Req.U8.all (fun b => !isUpperHexDigit b || visible b) (by decide) b

set_option maxRecDepth 100000 in
theorem hostByte_visible (b : UInt8) : (!validHostByte b || visible b) = true :=
  Req.U8.all (fun b => !validHostByte b || visible b) (by decide) b

theorem visible_ne {b : UInt8} (h : visible b = true) : b ≠ 32 ∧ b ≠ 13 ∧ b ≠ 10 := by
  refine ⟨?_, ?_, ?_⟩ <;> intro hb <;> rw [hb] at h <;> exact absurd h (by decide)

theorem validMethod_bytes (m : Bytes) (h : validMethod m = true) :
    ∀ b ∈ m, b ≠ 32 ∧ b ≠ 13 := by
  intro b hb
  unfold validMethod at h
  simp only [Bool.and_eq_true] at h
  have h1 := List.all_eq_true.mp h.2 b hb
  have h2 := tokenByte_fact b
  rw [h1] at h2
  simp only [Bool.not_true, Bool.false_or, Bool.and_eq_true, bne_iff_ne, ne_eq] at h2
  exact ⟨h2.1.1, h2.1.2⟩

/-- `url.escape(s, encodePath)` emits visible ASCII only. -/
theorem escape_path_visible (s : Bytes) : ∀ b ∈ escape .path s, visible b = true := by
  intro b hb
  rcases mem_escape hb with h | h | h | h
  · rw [h]; decide
  · have := hex_fact b; rw [h] at this; simpa using this
  · rw [h.1]; decide
  · have := pathRaw_fact b; rw [h.2] at this; simpa using this

/-- **`URL.EscapedPath` is free of SP, control bytes and non-ASCII bytes**, whatever `Path` /
`RawPath` hold. -/
theorem escapedPath_visible (u : Url) : ∀ b ∈ escapedPath u, visible b = true := by
  intro b hb
  unfold escapedPath at hb
  split at hb
  next h =>
    simp only [Bool.and_eq_true] at h
    have hv := h.1.2
    unfold validEncoded at hv
    have h1 := List.all_eq_true.mp hv b hb
    have h2 := pathEnc_fact b
    unfold encOK at h2
    rw [h1] at h2
    simpa using h2
  next h =>
    split at hb
    · simp only [List.mem_singleton] at hb; rw [hb]; decide
    · exact escape_path_visible u.path b hb

theorem requestURI_ne_nil (u : Url) (ho : u.opaq.isEmpty = true) : requestURI u ≠ [] := by
  unfold requestURI
  simp only [ho, if_true]
  split
  · split <;> simp
  · split
    · simp
    next h =>
      intro hc
      exact h (by simp [hc])

/-- a byte of `URL.RequestURI()` that is not visible ASCII comes from `RawQuery` (or from
`Opaque` / `Scheme` of an opaque URL): the path part is always escaped. -/
theorem requestURI_invisible (u : Url) (b : UInt8) (hb : b ∈ requestURI u) (hv : visible b = false) :
    b ∈ u.rawQuery ∨ b ∈ u.opaq ∨ b ∈ u.scheme := by
  unfold requestURI at hb
  have hpath : ∀ x, x ∈ (if u.opaq.isEmpty = true then
        (if (escapedPath u).isEmpty = true then [47] else escapedPath u)
      else if hasPrefix u.opaq [47, 47] = true then u.scheme ++ [58] ++ u.opaq else u.opaq) →
      visible x = false → x ∈ u.opaq ∨ x ∈ u.scheme := by
    intro x hx hvx
    split at hx
    · split at hx
      · simp only [List.mem_singleton] at hx; rw [hx] at hvx; exact absurd hvx (by decide)
      · have := escapedPath_visible u x hx; rw [this] at hvx; exact absurd hvx (by simp)
    · split at hx
      · simp only [List.mem_append, List.mem_singleton] at hx
        rcases hx with (h | h) | h
        · exact Or.inr h
        · rw [h] at hvx; exact absurd hvx (by decide)
        · exact Or.inl h
      · exact Or.inl hx
  simp only at hb
  split at hb
  · simp only [List.mem_append, List.mem_singleton] at hb
    rcases hb with (h | h) | h
    · exact Or.inr (hpath b h hv)
    · rw [h] at hv; exact absurd hv (by decide)
    · exact Or.inl h
  · exact Or.inr (hpath b hb hv)

theorem containsCTL_false {s : Bytes} (h : containsCTL s = false) : ∀ b ∈ s, b ≠ 13 ∧ b ≠ 10 := by
  intro b hb
  unfold containsCTL at h
  have := List.any_eq_false.mp h b hb
  constructor <;> intro hc <;> rw [hc] at this <;> exact absurd this (by decide)

theorem hdrFirst_mem (h : Hdr) (k : Bytes) (hne : hdrFirst h k ≠ []) :
    ∃ kv ∈ h, hdrFirst h k ∈ kv.values := by
  unfold hdrFirst hdrGet? at *
  cases hf : h.find? (fun x => x.key == k) with
  | none => simp [hf] at hne
  | some kv =>
    simp only [hf, Option.map_some] at hne ⊢
    have hm : kv ∈ h := List.mem_of_find?_eq_some hf
    cases hv : kv.values with
    | nil => simp [hv] at hne
    | cons v vs => exact ⟨kv, hm, by simp [hv]⟩

theorem headersValid_value (h : Hdr) (hv : headersValid (headerPairs h) = true) :
    ∀ kv ∈ h, validHeaderFieldName kv.key = true ∧ ∀ v ∈ kv.values, validHeaderFieldValue v = true := by
  intro kv hkv
  unfold headersValid headerPairs at hv
  have := List.all_eq_true.mp hv (kv.key, kv.values) (List.mem_map.mpr ⟨kv, hkv, rfl⟩)
  simp only [Bool.and_eq_true] at this
  exact ⟨this.1, fun v hv' => List.all_eq_true.mp this.2 v hv'⟩

theorem validValue_no_cr (v : Bytes) (h : validHeaderFieldValue v = true) : ∀ b ∈ v, b ≠ 13 := by
  intro b hb
  unfold validHeaderFieldValue at h
  have h1 := List.all_eq_true.mp h b hb
  have h2 := valueByte_fact b
  simp only [Bool.not_eq_true', Bool.and_eq_false_iff] at h1
  have : (isCTL b && !isLWS b) = false := by
    simp only [Bool.and_eq_false_iff]
    rcases h1 with h | h
    · exact Or.inl h
    · right; simpa using h
  rw [this] at h2
  simp only [Bool.false_or, Bool.and_eq_true, bne_iff_ne, ne_eq] at h2
  exact h2.1

/-- the host `writeRequest` puts on the wire is visible ASCII (or empty). -/
theorem wireHost_visible (r : WReq) (host : Bytes) (h : wireHost r = .ok host) :
    ∀ b ∈ host, visible b = true := by
  unfold wireHost at h
  simp only at h
  generalize (if r.host.isEmpty = true then r.url.host else r.host) = h0 at h
  by_cases ha : isASCII h0 = true
  · simp only [ha, Bool.not_true, Bool.false_eq_true, if_false] at h
    by_cases hv : validHostHeader h0 = true
    · simp only [hv, Bool.not_true, Bool.false_eq_true, if_false, Except.ok.injEq] at h
      subst h
      intro b hb
      have hb' := Req.H1.Origin.removeZone_subset _ b hb
      unfold validHostHeader at hv
      have h1 := List.all_eq_true.mp hv b hb'
      have h2 := hostByte_visible b
      rw [h1] at h2
      simpa using h2
    · have hv' : validHostHeader h0 = false := by simpa using hv
      simp only [hv', Bool.not_false, if_true] at h
      split at h
      · exact absurd h (by simp)
      · simp only [Except.ok.injEq] at h; subst h; simp
  · have ha' : isASCII h0 = false := by simpa using ha
    simp [ha'] at h

end Req.Lemmas.H1Valid
