import Req.Lemmas.C03H3Spec
/-!
C03 — HTTP/3: the response head (`requestStream.ReadResponse` in the loop of `doRequest`, model of
C02) leaves the body reader at a frame boundary: it touches neither the DATA-frame position nor
the trailer flag nor the end marker of the stream — however many informational responses it skips.
-/
namespace Req.C03
open Req.Proto Req.C02

theorem parseNext_fin (fuel : Nat) (n : Net) : (parseNext fuel n).2.fin = n.fin := by
  induction fuel generalizing n with
  | zero => rfl
  | succ fuel ih =>
    unfold parseNext
    have h1 := readVarint_fin n
    rcases hv1 : n.readVarint with ⟨r1, n1⟩
    rw [hv1] at h1
    cases r1 with
    | error e => exact h1
    | ok t =>
      simp only []
      have h2 := readVarint_fin n1
      rcases hv2 : n1.readVarint with ⟨r2, n2⟩
      rw [hv2] at h2
      cases r2 with
      | error e => exact h2.trans h1
      | ok l =>
        simp only []
        have h3 := readN_fin (l + 1) l [] n2
        split
        · exact h2.trans h1
        · split
          · exact h2.trans h1
          · split
            · exact h2.trans h1
            · split
              · exact h2.trans h1
              · rcases hr : Net.readN (l + 1) l [] n2 with ⟨⟨p, oe⟩, n3⟩
                rw [hr] at h3
                cases oe with
                | none => simp only []; rw [ih]; exact h3.trans (h2.trans h1)
                | some e => cases e <;> exact h3.trans (h2.trans h1)

/-- The fields the head reader never touches. -/
structure HeadSame (s s' : H3Stream) : Prop where
  remInFrame : s'.remInFrame = s.remInFrame
  parsedTrailer : s'.parsedTrailer = s.parsedTrailer
  fin : s'.net.fin = s.net.fin
  maxHeaderBytes : s'.maxHeaderBytes = s.maxHeaderBytes

theorem readResponse_same (s : H3Stream) : HeadSame s s.readResponse.2 := by
  unfold H3Stream.readResponse
  have hp := parseNext_fin (s.net.size + 1) s.net
  rcases hpn : parseNext (s.net.size + 1) s.net with ⟨r, n'⟩
  rw [hpn] at hp
  cases r with
  | error e => exact ⟨rfl, rfl, hp, rfl⟩
  | ok f =>
    cases f with
    | data l => exact ⟨rfl, rfl, hp, rfl⟩
    | settings => exact ⟨rfl, rfl, hp, rfl⟩
    | headers l =>
      simp only []
      split
      · exact ⟨rfl, rfl, hp, rfl⟩
      · have h3 := readN_fin (l + 1) l [] n'
        rcases hr : Net.readN (l + 1) l [] n' with ⟨⟨p, oe⟩, n3⟩
        rw [hr] at h3
        cases oe with
        | some e => exact ⟨rfl, rfl, h3.trans hp, rfl⟩
        | none =>
          simp only []
          split
          · exact ⟨rfl, rfl, h3.trans hp, rfl⟩
          · split <;> exact ⟨rfl, rfl, h3.trans hp, rfl⟩

theorem HeadSame.trans {a b c : H3Stream} (h1 : HeadSame a b) (h2 : HeadSame b c) : HeadSame a c :=
  ⟨h2.remInFrame.trans h1.remInFrame, h2.parsedTrailer.trans h1.parsedTrailer, h2.fin.trans h1.fin,
   h2.maxHeaderBytes.trans h1.maxHeaderBytes⟩

theorem readFinalResponse_same (fuel n1xx : Nat) (s : H3Stream) :
    HeadSame s (H3Stream.readFinalResponse fuel n1xx s).2 := by
  induction fuel generalizing n1xx s with
  | zero => exact ⟨rfl, rfl, rfl, rfl⟩
  | succ fuel ih =>
    unfold H3Stream.readFinalResponse
    have h := readResponse_same s
    rcases hr : s.readResponse with ⟨r, s'⟩
    rw [hr] at h
    cases r with
    | error e => exact h
    | ok hd =>
      simp only []
      split
      · split
        · exact h
        · exact h.trans (ih _ _)
      · exact h

/-- `newResponseBody` does not move the reader. -/
theorem new_str (isHead : Bool) (h : H3Head) (s : H3Stream) : (H3Body.new isHead h s).str = s := by
  unfold H3Body.new
  split
  · rfl
  · split <;> rfl

/-- A response to HEAD and a 1xx / 204 / 304 response has no body that could come up short:
no length accounting is armed, whatever Content-Length the head declares. -/
theorem new_bodiless (isHead : Bool) (h : H3Head) (s : H3Stream)
    (hb : isHead = true ∨ (100 ≤ h.status ∧ h.status ≤ 199) ∨ h.status = 204 ∨ h.status = 304) :
    (H3Body.new isHead h s).hasCL = false := by
  unfold H3Body.new
  rw [if_pos hb]

/-- Otherwise the declared length is what is owed. -/
theorem new_declared (isHead : Bool) (h : H3Head) (s : H3Stream) (n : Nat)
    (hb : ¬(isHead = true ∨ (100 ≤ h.status ∧ h.status ≤ 199) ∨ h.status = 204 ∨ h.status = 304))
    (hcl : h.contentLength = some n) :
    (H3Body.new isHead h s).hasCL = true ∧ (H3Body.new isHead h s).remaining = n := by
  unfold H3Body.new
  rw [if_neg hb, hcl]
  exact ⟨rfl, rfl⟩

end Req.C03
