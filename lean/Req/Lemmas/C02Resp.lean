import Req.C02.RespSM
import Req.Lemmas.C02Reader
/-! Facts about the caller-side `Response` machine. -/
namespace Req.C02
open Req.Proto

/-! ### a body stream hands out its bytes in order, whatever the read sizes -/

def BodyInv (b : Body) : Prop := b.closed = false
def bodyExp (b : Body) : Bytes := b.chunks.flatten

theorem Body.readO_spec (b : Body) (k : Nat) (hc : b.closed = false) (d : Bytes) (e : Option RErr)
    (b' : Body) (h : b.readO k = ((d, e), b')) :
    b.chunks.flatten = d ++ b'.chunks.flatten ∧ b'.closed = false ∧ b'.fin = b.fin ∧ b'.nop = b.nop ∧
    (∀ x, e = some x → b.chunks = [] ∧ d = [] ∧ x = b.fin.toErr) ∧
    (e = none → 0 < k → (∀ c ∈ b.chunks, c ≠ []) → d ≠ [] ∧ ∀ c ∈ b'.chunks, c ≠ []) ∧
    (e = none → k = 0 → (∀ c ∈ b.chunks, c ≠ []) → b'.chunks = b.chunks) := by
  unfold Body.readO Body.read at h
  simp only [hc, Bool.false_eq_true, if_false] at h
  cases hck : b.chunks with
  | nil =>
    simp only [hck] at h
    cases hf : b.fin <;> simp only [hf, Fin.toErr, RErr.toOpt] at h <;>
    · simp only [Prod.mk.injEq] at h
      obtain ⟨⟨rfl, rfl⟩, rfl⟩ := h
      refine ⟨by simp [hck], hc, by first | rfl | exact hf, rfl, ?_, ?_, ?_⟩
      · intro x hx
        simp only [Option.some.injEq] at hx
        exact ⟨rfl, rfl, by simp [hf, Fin.toErr, hx]⟩
      · intro h0; simp at h0
      · intro h0; simp at h0
  | cons c cs =>
    simp only [hck] at h
    split at h
    next hle =>
      simp only [Prod.mk.injEq] at h
      obtain ⟨⟨rfl, rfl⟩, rfl⟩ := h
      refine ⟨by simp, rfl, rfl, rfl, fun x hx => by simp [RErr.toOpt] at hx, ?_, ?_⟩
      · intro _ _ hne
        exact ⟨hne c (by simp), fun c' hc' => hne c' (by simp [hc'])⟩
      · intro _ hk0 hne
        subst hk0
        have : c = [] := List.length_eq_zero_iff.mp (by omega)
        exact absurd this (hne c (by simp))
    next hgt =>
      simp only [Prod.mk.injEq] at h
      obtain ⟨⟨rfl, rfl⟩, rfl⟩ := h
      refine ⟨by simp [← List.append_assoc, List.take_append_drop], rfl, rfl, rfl, fun x hx => by simp [RErr.toOpt] at hx, ?_, ?_⟩
      · intro _ hk hne
        have hcl : k < c.length := by omega
        refine ⟨?_, ?_⟩
        · have : 0 < (c.take k).length := by simp only [List.length_take]; omega
          exact List.length_pos_iff.mp this
        · intro c' hc'
          simp only [List.mem_cons] at hc'
          rcases hc' with rfl | hc'
          · have : 0 < (c.drop k).length := by simp only [List.length_drop]; omega
            exact List.length_pos_iff.mp this
          · exact hne c' (by simp [hc'])
      · intro _ hk0 _
        subst hk0
        simp

theorem body_refines : Refines Body.readO BodyInv bodyExp (· = RErr.eof) where
  step_ok := by
    intro b k d b' hc h
    obtain ⟨hs, hc', _, _, _, _, _⟩ := Body.readO_spec b k hc d none b' h
    exact ⟨hc', hs⟩
  step_end := by
    intro b k d e b' hc h
    obtain ⟨_, _, _, _, he, _, _⟩ := Body.readO_spec b k hc d (some e) b' h
    obtain ⟨hck, hd, _⟩ := he e rfl
    exact ⟨⟨[], by simp [bodyExp, hck, hd]⟩, fun _ => by simp [bodyExp, hck, hd]⟩

def BodyInvNE (b : Body) : Prop := b.closed = false ∧ ∀ c ∈ b.chunks, c ≠ []

theorem body_refines_ne : Refines Body.readO BodyInvNE bodyExp (· = RErr.eof) where
  step_ok := by
    intro b k d b' ⟨hc, hne⟩ h
    obtain ⟨hs, hc', _, _, _, hp, hz⟩ := Body.readO_spec b k hc d none b' h
    refine ⟨⟨hc', ?_⟩, hs⟩
    by_cases hk : 0 < k
    · exact (hp rfl hk hne).2
    · have hk0 : k = 0 := by omega
      rw [hz rfl hk0 hne]
      exact hne
  step_end := by
    intro b k d e b' ⟨hc, _⟩ h
    exact body_refines.step_end b k d e b' hc h

theorem body_progress : Progress Body.readO BodyInvNE := by
  intro b k d b' ⟨hc, hne⟩ hk h
  exact ((Body.readO_spec b k hc d none b' h).2.2.2.2.2.1 rfl hk hne).1

/-- A body that ends with EOF reports nothing but EOF. -/
theorem body_only_eof (b : Body) (k : Nat) (hc : b.closed = false) (hf : b.fin = .eof)
    (d : Bytes) (e : RErr) (b' : Body) (h : b.readO k = ((d, some e), b')) : e = .eof := by
  obtain ⟨_, _, _, _, he, _, _⟩ := Body.readO_spec b k hc d (some e) b' h
  have := (he e rfl).2.2
  rw [this, hf]; rfl

end Req.C02

namespace Req.C02
open Req.Proto

/-! ### auto-read -/

theorem Body.readAll_transport (cks : List Bytes) (fin : Fin) :
    (Body.transport cks fin).readAll =
      ((cks.flatten, fin.toErr), { chunks := [], fin := fin, closed := false, nop := false }) := by
  simp [Body.readAll, Body.transport]

/-- The state `Client.roundTrip` leaves behind when it auto-reads a body that ends with EOF. -/
theorem afterRoundTrip_auto (cfg : Cfg) (st : Nat) (cks : List Bytes)
    (h1 : cfg.clientDisable = false) (h2 : cfg.reqDisable = false) (h3 : cfg.save = false)
    (hst : 199 < st) :
    afterRoundTrip cfg st (Body.transport cks .eof) =
      { status := st, err := none, cache := some cks.flatten,
        body := some (Body.restored cks.flatten), out := none } := by
  by_cases hr : wantsBind cfg st = true
  · simp [afterRoundTrip, autoRead, h1, h2, h3, hst, Resp.toBytes, Body.readAll_transport, Fin.toErr,
      handleDownload, Body.close, parseResponseBody, hr]
  · simp [afterRoundTrip, autoRead, h1, h2, h3, hst, Resp.toBytes, Body.readAll_transport, Fin.toErr,
      handleDownload, Body.close, parseResponseBody, hr]

/-- The bytes the caller pulled out of `Response.Body` during a run, in order. -/
def streamedOf : List (Op × Obs) → Bytes
  | [] => []
  | (.read _, .data d _) :: rest => d ++ streamedOf rest
  | (.readAll, .data d _) :: rest => d ++ streamedOf rest
  | _ :: rest => streamedOf rest

/-- What the cache-reading ops must show after auto-read. -/
def okAuto (B : Bytes) : Op × Obs → Prop
  | (.toBytes, o) => o = .data B .ok
  | (.toString, o) => o = .data B .ok
  | (.bytes, o) => o = .cached (some B)
  | (.string, o) => o = .str B
  | _ => True

/-- Auto-read state: bytes cached, `Body` = the re-readable copy of which `consumed` bytes
were already streamed. -/
def AutoInv (B : Bytes) (r : Resp) (consumed : Bytes) : Prop :=
  r.err = none ∧ r.cache = some B ∧
  ∃ bd, r.body = some bd ∧ bd.nop = true ∧ bd.closed = false ∧ consumed ++ bd.chunks.flatten = B

theorem auto_step (B : Bytes) (r : Resp) (consumed : Bytes) (hinv : AutoInv B r consumed) (op : Op) :
    okAuto B (op, (r.step op).1) ∧
    AutoInv B (r.step op).2 (consumed ++ streamedOf [(op, (r.step op).1)]) := by
  obtain ⟨he, hcache, bd, hb, hnop, hcl, hsplit⟩ := hinv
  cases op with
  | toBytes =>
    simp only [Resp.step, Resp.toBytes, he, hcache, okAuto, streamedOf, List.append_nil, true_and]
    exact ⟨he, hcache, bd, hb, hnop, hcl, hsplit⟩
  | toString =>
    simp only [Resp.step, Resp.toBytes, he, hcache, okAuto, streamedOf, List.append_nil, true_and]
    exact ⟨he, hcache, bd, hb, hnop, hcl, hsplit⟩
  | bytes =>
    simp only [Resp.step, hcache, okAuto, streamedOf, List.append_nil, true_and]
    exact ⟨he, hcache, bd, hb, hnop, hcl, hsplit⟩
  | string =>
    simp only [Resp.step, hcache, okAuto, streamedOf, List.append_nil, true_and]
    exact ⟨he, hcache, bd, hb, hnop, hcl, hsplit⟩
  | close =>
    simp only [Resp.step, hb, okAuto, streamedOf, List.append_nil, true_and]
    refine ⟨he, hcache, bd.close, rfl, ?_, ?_, ?_⟩ <;> simp [Body.close, hnop, hcl, hsplit]
  | read n =>
    simp only [Resp.step, hb, okAuto, true_and]
    rcases hr : bd.read n with ⟨⟨d, e⟩, bd'⟩
    have hro : bd.readO n = ((d, e.toOpt), bd') := by
      simp [Body.readO, hr]
    obtain ⟨hs, hc', _, hnop', _, _, _⟩ := Body.readO_spec bd n hcl d _ bd' hro
    simp only [streamedOf, List.append_nil]
    refine ⟨he, hcache, bd', rfl, by rw [hnop', hnop], hc', ?_⟩
    rw [List.append_assoc, ← hs, hsplit]
  | readAll =>
    simp only [Resp.step, hb, okAuto, true_and]
    simp only [Body.readAll, hcl, Bool.false_eq_true, if_false, streamedOf, List.append_nil]
    refine ⟨he, hcache, _, rfl, hnop, rfl, ?_⟩
    simp [hsplit]

theorem streamedOf_cons (x : Op × Obs) (rest : List (Op × Obs)) :
    streamedOf (x :: rest) = streamedOf [x] ++ streamedOf rest := by
  rcases x with ⟨op, o⟩
  cases op <;> cases o <;> simp [streamedOf]

/-- After auto-read, EVERY interleaving of observation ops sees the cached bytes, and what
is streamed from the restored `Body` in between is a prefix of the same bytes. -/
theorem auto_run (B : Bytes) (ops : List Op) (r : Resp) (consumed : Bytes)
    (hinv : AutoInv B r consumed) :
    (∀ x ∈ (r.run ops).1, okAuto B x) ∧
    ∃ t, B = consumed ++ streamedOf (r.run ops).1 ++ t := by
  induction ops generalizing r consumed with
  | nil =>
    obtain ⟨_, _, bd, _, _, _, hsplit⟩ := hinv
    exact ⟨by simp [Resp.run], bd.chunks.flatten, by simp [Resp.run, streamedOf, hsplit]⟩
  | cons op ops ih =>
    obtain ⟨hok, hinv'⟩ := auto_step B r consumed hinv op
    obtain ⟨hall, t, ht⟩ := ih (r.step op).2 _ hinv'
    simp only [Resp.run]
    refine ⟨?_, t, ?_⟩
    · intro x hx
      simp only [List.mem_cons] at hx
      rcases hx with rfl | hx
      · exact hok
      · exact hall x hx
    · rw [streamedOf_cons, ht]
      simp [List.append_assoc]

end Req.C02

namespace Req.C02
open Req.Proto

/-! ### save to writer / file, and streaming without auto-read -/

theorem afterRoundTrip_save (cfg : Cfg) (st : Nat) (cks : List Bytes) (h : cfg.save = true) :
    (afterRoundTrip cfg st (Body.transport cks .eof)).out = some cks.flatten ∧
    (afterRoundTrip cfg st (Body.transport cks .eof)).err = none := by
  by_cases hr : wantsBind cfg st = true
  · simp [afterRoundTrip, autoRead, h, handleDownload, Body.readAll_transport, Fin.toErr, Body.close,
      parseResponseBody, hr, Resp.toBytes]
  · simp [afterRoundTrip, autoRead, h, handleDownload, Body.readAll_transport, Fin.toErr, Body.close,
      parseResponseBody, hr]

theorem afterRoundTrip_stream (cfg : Cfg) (st : Nat) (cks : List Bytes) (fin : Fin)
    (hs : cfg.save = false)
    (h : cfg.clientDisable = true ∨ cfg.reqDisable = true ∨ st ≤ 199)
    (hres : wantsBind cfg st = false) :
    afterRoundTrip cfg st (Body.transport cks fin) =
      { status := st, err := none, cache := none, body := some (Body.transport cks fin), out := none } := by
  have : autoRead cfg { status := st, err := none, cache := none, body := some (Body.transport cks fin), out := none } = false := by
    rcases h with h | h | h
    · simp [autoRead, h]
    · simp [autoRead, h]
    · simp [autoRead]; omega
  simp [afterRoundTrip, this, handleDownload, hs, parseResponseBody, hres]

/-- `ToBytes` on a response that was not auto-read returns what the stream still holds. -/
theorem toBytes_rest (st : Nat) (bd : Body) (hc : bd.closed = false) (hf : bd.fin = .eof) :
    (({ status := st, err := none, cache := none, body := some bd, out := none } : Resp).toBytes).1 =
      (bd.chunks.flatten, .ok) := by
  simp [Resp.toBytes, Body.readAll, hc, hf, Fin.toErr]

end Req.C02
