import Req.Pool.Monitor
/-! What acceptance by the history monitor implies (C09). -/
namespace Req.Lemmas.C09Monitor
open Req.Pool.Monitor

theorem runFrom_ok_mem (cfg : Cfg) : ∀ (h : List Ev) (s : St) (i : Nat) (s' : St),
    runFrom cfg s i h = .ok s' → ∀ e ∈ h, ∃ s₁ s₂, step cfg s₁ e = .ok s₂ := by
  intro h
  induction h with
  | nil => intro s i s' _ e he; cases he
  | cons a t ih =>
    intro s i s' hrun e he
    unfold runFrom at hrun
    cases hstep : step cfg s a with
    | error k => rw [hstep] at hrun; cases hrun
    | ok s1 =>
      rw [hstep] at hrun
      rcases List.mem_cons.mp he with rfl | he
      · exact ⟨s, s1, hstep⟩
      · exact ih s1 (i + 1) s' hrun e he

/-- A `done` event that the monitor lets pass echoes its own tag with an intact body. -/
theorem step_done_ok (cfg : Cfg) (s s' : St) (t echo : Nat) (ok early : Bool)
    (h : step cfg s (.done t echo ok early) = .ok s') : echo = t ∧ ok = true := by
  simp only [step] at h
  split at h
  · cases h
  · split at h
    · cases h
    · split at h
      · cases h
      · next hne =>
        simp only [Bool.or_eq_true, bne_iff_ne, ne_eq, Bool.not_eq_true', not_or, Decidable.not_not,
          Bool.not_eq_false] at hne
        exact hne

/-- A `req` event on an HTTP/1.1 connection passes only if no request is outstanding on it. -/
theorem step_req_ok (cfg : Cfg) (s s' : St) (c t : Nat) (h : step cfg s (.req c t) = .ok s') :
    (s.outstanding.lookup c).isSome = false := by
  simp only [step] at h
  split at h
  · cases h
  · split at h
    · cases h
    · next hno =>
      cases hl : (s.outstanding.lookup c).isSome with
      | false => rfl
      | true => rw [hl] at hno; exact absurd rfl hno

end Req.Lemmas.C09Monitor
