import Req.Client.RetryDyn
import Req.Lemmas.C10Loop
/-! Helper lemmas about the retry loop with a mutable retry option (`Req.RetryDyn`). -/
namespace Req.Lemmas.C10Dyn
open Req.Retry Req.RetryDyn Req.Lemmas.C10Loop

variable {σ W : Type}

theorem nop_apply (d : Dyn) : Edit.nop.apply d = d := by
  cases d; simp [Edit.apply, Edit.nop]

theorem applyEv_nop (d : Dyn) (e : Event W) : applyEv Edits.nop d e = d := by
  cases e <;> simp [applyEv, editOf, Edits.nop, nop_apply]

theorem editsOf_nop (d : Dyn) (ev : List (Event W)) : editsOf Edits.nop d ev = d := by
  induction ev generalizing d with
  | nil => rfl
  | cons e t ih => simp [editsOf, List.foldl_cons, applyEv_nop] at ih ⊢; exact ih d

theorem editsOf_append (ed : Edits) (d : Dyn) (a b : List (Event W)) :
    editsOf ed d (a ++ b) = editsOf ed (editsOf ed d a) b := by
  simp [editsOf, List.foldl_append]

theorem editsOf_cons (ed : Edits) (d : Dyn) (e : Event W) (t : List (Event W)) :
    editsOf ed d (e :: t) = editsOf ed (applyEv ed d e) t := rfl

theorem editsOf_nil (ed : Edits) (d : Dyn) : editsOf ed d ([] : List (Event W)) = d := rfl

theorem withDyn_dynOf (p : Policy σ) : withDyn p (dynOf p) = p := by
  cases p; rfl

/-- The mutable part when the "absolutely cannot retry" test of pass `(o, ra)` reads it: after
the request-level response middleware of that pass. -/
def dynAtCheck (W : Type) (v : Variant) (p : Policy σ) (ed : Edits) (o : Outcome) (ra : Nat) (d : Dyn) : Dyn :=
  let rt := roundTrip v ra o
  editsOf ed d (runAfter (W := W) v ⟨ra, viewOf rt.1, (rt.1.bind (·.err)).map (·.2)⟩ ra p.after 0 rt.2).1

/-! ### the stages of one pass -/

theorem waitStage_tail (ed : Edits) (o : Outcome) (ra : Nat) (view : RespView) (resp : Option Resp)
    (ev : List (Event W)) (d3 : Dyn) (st2 : σ) :
    (waitStage ed o ra view resp ev d3 st2).events = ev ++ [.interval d3.interval (ra + 1) view] ∧
    (waitStage ed o ra view resp ev d3 st2).dyn = editsOf ed d3 [(.interval d3.interval (ra + 1) view : Event W)] ∧
    (waitStage ed o ra view resp ev d3 st2).ra = ra + 1 ∧
    (waitStage ed o ra view resp ev d3 st2).st = st2 := by
  unfold waitStage
  cases resp with
  | none => simp [editsOf]
  | some r => by_cases h : (o.ctxDone || (applyEv ed d3 (.interval d3.interval (ra + 1) view : Event W)).ctxDone) = true <;> simp [h, editsOf]

theorem waitStage_cont (ed : Edits) (o : Outcome) (ra : Nat) (view : RespView) (resp : Option Resp)
    (ev : List (Event W)) (d3 : Dyn) (st2 : σ) (x : Option Resp)
    (h : (waitStage ed o ra view resp ev d3 st2).out = .inr x) :
    o.ctxDone = false ∧ (waitStage ed o ra view resp ev d3 st2).dyn.ctxDone = false ∧ x = resp ∧ resp ≠ none := by
  unfold waitStage at h ⊢
  cases resp with
  | none => simp at h
  | some r =>
    by_cases hd : (o.ctxDone || (applyEv ed d3 (.interval d3.interval (ra + 1) view : Event W)).ctxDone) = true
    · simp [hd] at h
    · simp only [hd, Bool.false_eq_true, ↓reduceIte, Sum.inr.injEq] at h ⊢
      simp only [Bool.or_eq_true, not_or, Bool.not_eq_true] at hd
      exact ⟨hd.1, hd.2, h.symm, by simp⟩

/-- When the wait is not interrupted the loop goes round again (repaired code: `resp` is never nil). -/
theorem waitStage_goes (ed : Edits) (o : Outcome) (ra : Nat) (view : RespView) (r : Resp)
    (ev : List (Event W)) (d3 : Dyn) (st2 : σ)
    (h1 : o.ctxDone = false) (h2 : (editsOf ed d3 [(.interval d3.interval (ra + 1) view : Event W)]).ctxDone = false) :
    (waitStage ed o ra view (some r) ev d3 st2).out = .inr (some r) := by
  unfold waitStage
  simp only [editsOf, List.foldl_cons, List.foldl_nil] at h2
  simp [h1, h2]

theorem quiet_askConds (p : Policy σ) (ra : Nat) (view : RespView) (err : Option Err) :
    Quiet (askConds (W := W) p ra view err).1 := quiet_conds p _ _

theorem hookEvs_iterations (p : Policy σ) (ra : Nat) (view : RespView) (err : Option Err) :
    iterations (hookEvs (W := W) p ra view err) = 0 := hooks_iterations _ _

theorem retryStage_tail (p : Policy σ) (ed : Edits) (o : Outcome) (ra : Nat) (view : RespView)
    (resp : Option Resp) (err : Option Err) (ev0 : List (Event W)) (d1 : Dyn) (st1 : σ) :
    ∃ tail, (retryStage p ed o ra view resp err ev0 d1 st1).events = ev0 ++ tail ∧
      (retryStage p ed o ra view resp err ev0 d1 st1).dyn = editsOf ed d1 tail ∧
      iterations tail = 0 := by
  unfold retryStage
  simp only
  have hq2 := quiet_askConds (W := W) p ra view err
  by_cases hc : (askConds (W := W) p ra view err).2 = false
  · simp only [hc]
    exact ⟨_, rfl, rfl, hq2.iterations⟩
  · have hc' : (askConds (W := W) p ra view err).2 = true := by simpa using hc
    simp only [hc', Bool.true_eq_false, ↓reduceIte]
    obtain ⟨h1, h2, -⟩ := waitStage_tail (W := W) ed o ra view resp
      (ev0 ++ (askConds (W := W) p ra view err).1 ++ hookEvs (W := W) p ra view err)
      (editsOf ed (editsOf ed d1 (askConds (W := W) p ra view err).1) (hookEvs (W := W) p ra view err))
      (hookState p ra view err st1)
    refine ⟨(askConds (W := W) p ra view err).1 ++ hookEvs (W := W) p ra view err ++
        [.interval (editsOf ed (editsOf ed d1 (askConds (W := W) p ra view err).1)
          (hookEvs (W := W) p ra view err)).interval (ra + 1) view], ?_, ?_, ?_⟩
    · rw [h1]; simp only [List.append_assoc]
    · rw [h2]; simp only [editsOf_append]
    · simp only [iterations_append, hq2.iterations, hookEvs_iterations]
      simp [iterations, Event.isBefore]

theorem retryStage_cont (p : Policy σ) (ed : Edits) (o : Outcome) (ra : Nat) (view : RespView)
    (resp : Option Resp) (err : Option Err) (ev0 : List (Event W)) (d1 : Dyn) (st1 : σ) (x : Option Resp)
    (h : (retryStage p ed o ra view resp err ev0 d1 st1).out = .inr x) :
    o.ctxDone = false ∧ (retryStage p ed o ra view resp err ev0 d1 st1).dyn.ctxDone = false ∧
      (retryStage p ed o ra view resp err ev0 d1 st1).ra = ra + 1 ∧
      (askConds (W := W) p ra view err).2 = true := by
  unfold retryStage at h ⊢
  simp only at h ⊢
  by_cases hc : (askConds (W := W) p ra view err).2 = false
  · simp [hc] at h
  · have hc' : (askConds (W := W) p ra view err).2 = true := by simpa using hc
    simp only [hc', Bool.true_eq_false, ↓reduceIte] at h ⊢
    obtain ⟨a, b, -⟩ := waitStage_cont _ _ _ _ _ _ _ _ _ h
    exact ⟨a, b, (waitStage_tail ..).2.2.1, trivial⟩

/-! ### one pass -/

/-- Every pass leaves the mutable part as the callbacks it logged edited it, in call order,
and is one attempt. -/
theorem diteration_shape (v : Variant) (p : Policy σ) (ed : Edits) (mw : Nat → σ → σ × W)
    (su : σ → Bool) (o : Outcome) (ra : Nat) (st : σ) (d : Dyn) (prev : Option Resp) :
    (diteration v p ed mw su o ra st d prev).dyn = editsOf ed d (diteration v p ed mw su o ra st d prev).events ∧
    iterations (diteration v p ed mw su o ra st d prev).events = 1 := by
  unfold diteration
  split
  · simp [iterations, Event.isBefore, editsOf, applyEv, editOf, nop_apply]
  · simp only
    have hq1 : ∀ ob err, Quiet (runAfter (W := W) v ob ra p.after 0 err).1 := fun ob err => quiet_runAfter v ob ra p.after 0 err
    have h0 : iterations ([Event.before ra, .wire ra (mw ra st).2] : List (Event W)) = 1 := by
      simp [iterations, Event.isBefore, List.countP_cons]
    have he : ∀ l : List (Event W), editsOf ed d ([Event.before ra, .wire ra (mw ra st).2] ++ l) = editsOf ed d l := by
      intro l; simp [editsOf, applyEv, editOf, nop_apply]
    split
    · exact ⟨(he _).symm, by simp only [iterations_append, (hq1 _ _).iterations, h0]⟩
    · split
      · exact ⟨(he _).symm, by simp only [iterations_append, (hq1 _ _).iterations, h0]⟩
      · split
        · exact ⟨(he _).symm, by simp only [iterations_append, (hq1 _ _).iterations, h0]⟩
        · obtain ⟨tail, h1, h2, h3⟩ := retryStage_tail (W := W) p ed o ra (viewOf (roundTrip v ra o).1) (roundTrip v ra o).1
            (runAfter (W := W) v ⟨ra, viewOf (roundTrip v ra o).1, ((roundTrip v ra o).1.bind (·.err)).map (·.2)⟩ ra p.after 0 (roundTrip v ra o).2).2.1
            ([Event.before ra, .wire ra (mw ra st).2] ++
              (runAfter (W := W) v ⟨ra, viewOf (roundTrip v ra o).1, ((roundTrip v ra o).1.bind (·.err)).map (·.2)⟩ ra p.after 0 (roundTrip v ra o).2).1)
            (editsOf ed d (runAfter (W := W) v ⟨ra, viewOf (roundTrip v ra o).1, ((roundTrip v ra o).1.bind (·.err)).map (·.2)⟩ ra p.after 0 (roundTrip v ra o).2).1)
            (mw ra st).1
          rw [h1, h2]
          refine ⟨?_, ?_⟩
          · rw [List.append_assoc, he, editsOf_append]
          · simp only [iterations_append, (hq1 _ _).iterations, h0, h3]

/-- What must hold for the loop to go round again after pass `(o, ra)`. -/
theorem diteration_cont (v : Variant) (p : Policy σ) (ed : Edits) (mw : Nat → σ → σ × W)
    (su : σ → Bool) (o : Outcome) (ra : Nat) (st : σ) (d : Dyn) (prev : Option Resp) (x : Option Resp)
    (h : (diteration v p ed mw su o ra st d prev).out = .inr x) :
    o ≠ .beforeErr ∧ o ≠ .cancelled ∧
    cannotRetry (withDyn p (dynAtCheck W v p ed o ra d)) o ra = false ∧
    o.ctxDone = false ∧ (diteration v p ed mw su o ra st d prev).dyn.ctxDone = false ∧
    (diteration v p ed mw su o ra st d prev).ra = ra + 1 ∧ su (mw ra st).1 = false := by
  unfold diteration at h ⊢
  split at h
  · simp at h
  · rename_i ho
    simp only [ho, ↓reduceIte] at h ⊢
    split at h
    · simp at h
    · rename_i hab
      split at h
      · simp at h
      · rename_i hc
        split at h
        · simp at h
        · rename_i hsu
          simp only [hab, hc, hsu, Bool.false_eq_true, ↓reduceIte]
          have hc' : cannotRetry (withDyn p (dynAtCheck W v p ed o ra d)) o ra = false := by
            simpa [dynAtCheck] using hc
          have hoc : o ≠ .cancelled := by
            intro e
            rw [e] at hc'
            simp [cannotRetry] at hc'
          obtain ⟨a, b, c, -⟩ := retryStage_cont _ _ _ _ _ _ _ _ _ _ _ h
          exact ⟨ho, hoc, hc', a, b, c, by simpa using hsu⟩

/-! ### the loop -/

theorem dloop_cons_stop (v : Variant) (p : Policy σ) (ed : Edits) (mw : Nat → σ → σ × W)
    (su : σ → Bool) (o : Outcome) (rest : List Outcome) (ra : Nat) (st : σ) (d : Dyn) (prev : Option Resp) (f : Final)
    (h : (diteration v p ed mw su o ra st d prev).out = .inl f) :
    dloop v p ed mw su (o :: rest) ra st d prev =
      ((diteration v p ed mw su o ra st d prev).events, f,
        ⟨(diteration v p ed mw su o ra st d prev).ra, (diteration v p ed mw su o ra st d prev).st,
         (diteration v p ed mw su o ra st d prev).dyn, rest⟩) := by
  simp only [dloop, h]

theorem dloop_cons_cont (v : Variant) (p : Policy σ) (ed : Edits) (mw : Nat → σ → σ × W)
    (su : σ → Bool) (o : Outcome) (rest : List Outcome) (ra : Nat) (st : σ) (d : Dyn) (prev : Option Resp) (x : Option Resp)
    (h : (diteration v p ed mw su o ra st d prev).out = .inr x) :
    dloop v p ed mw su (o :: rest) ra st d prev =
      ((diteration v p ed mw su o ra st d prev).events ++
        (dloop v p ed mw su rest (diteration v p ed mw su o ra st d prev).ra (diteration v p ed mw su o ra st d prev).st
          (diteration v p ed mw su o ra st d prev).dyn x).1,
       (dloop v p ed mw su rest (diteration v p ed mw su o ra st d prev).ra (diteration v p ed mw su o ra st d prev).st
          (diteration v p ed mw su o ra st d prev).dyn x).2) := by
  simp only [dloop, h]

end Req.Lemmas.C10Dyn
