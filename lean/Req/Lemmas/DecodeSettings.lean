import Req.Client.DecodeSettings
/-! Helper lemmas for the settings life-cycle (C15). -/
namespace Req.Decode
open Req.Proto

theorem map_modify {α β : Type} (f : α → β) (g : α → α) (g' : β → β)
    (h : ∀ a, f (g a) = g' (f a)) (l : List α) (i : Nat) :
    (l.modify i g).map f = (l.map f).modify i g' := by
  induction l generalizing i with
  | nil => simp
  | cons a l ih =>
    cases i with
    | zero => simp [h]
    | succ i => simp [ih]

theorem applyOps_snoc (c : Config) (l : List SetOp) (op : SetOp) :
    applyOps c (l ++ [op]) = SetOp.apply (applyOps c l) op := by
  simp [applyOps, List.foldl_append]

theorem fam_step (ls : List (List SetOp)) (op : FamOp) :
    (FamOp.applyLin ls op).map (applyOps Config.default) =
      FamOp.apply (ls.map (applyOps Config.default)) op := by
  cases op with
  | on i op =>
    simp only [FamOp.applyLin, FamOp.apply]
    exact map_modify _ _ _ (fun l => applyOps_snoc _ l op) ls i
  | clone i =>
    simp only [FamOp.applyLin, FamOp.apply, List.getElem?_map]
    cases ls[i]? <;> simp


end Req.Decode
