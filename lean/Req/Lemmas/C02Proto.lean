import Req.Lemmas.C02Cross
import Req.Lemmas.C02H2
/-!
C02 — an abstract origin message and how it travels as HTTP/2 frames: the HEADERS field list
the origin sends for it and what `handleResponse` makes of that list.
-/
namespace Req.C02
open Req.Proto Req.Ascii

theorem forall_uint8 (P : UInt8 → Prop) (h : ∀ i : Fin 256, P (UInt8.ofFin i)) : ∀ x, P x := by
  intro x
  have := h x.toFin
  simpa using this

set_option maxRecDepth 100000 in
theorem toLower_toUpper : ∀ c : UInt8, toLower (toUpper c) = toLower c := by
  apply forall_uint8; decide
set_option maxRecDepth 100000 in
theorem toLower_toLower : ∀ c : UInt8, toLower (toLower c) = toLower c := by
  apply forall_uint8; decide
set_option maxRecDepth 100000 in
theorem toLower_noUpper : ∀ c : UInt8, isUpper c = false → toLower c = c := by
  apply forall_uint8; decide

theorem lower_canonGo (up : Bool) (s : Bytes) : lower (canonGo up s) = lower s := by
  induction s generalizing up with
  | nil => rfl
  | cons c cs ih =>
    have := ih (c == 45)
    simp only [lower] at this
    cases up
    · simp [canonGo, lower, toLower_toLower, this]
    · simp [canonGo, lower, toLower_toUpper, this]

theorem lower_canonical (k : Bytes) : lower (canonicalMIMEHeaderKey k) = lower k := by
  unfold canonicalMIMEHeaderKey
  split
  · exact lower_canonGo true k
  · rfl

theorem lower_noUpper (s : Bytes) (h : s.any isUpper = false) : lower s = s := by
  induction s with
  | nil => rfl
  | cons c cs ih =>
    simp only [List.any_cons, Bool.or_eq_false_iff] at h
    simp only [lower, List.map_cons, toLower_noUpper c h.1]
    congr 1
    exact ih h.2

/-- A lower-case name whose canonical form is `target` is `lower target`. -/
theorem canonical_eq_lower (k target : Bytes) (hk : k.any isUpper = false)
    (h : canonicalMIMEHeaderKey k = target) : k = lower target := by
  have := lower_canonical k
  rw [h, lower_noUpper k hk] at this
  exact this.symm

def kContentLength : Bytes := [67, 111, 110, 116, 101, 110, 116, 45, 76, 101, 110, 103, 116, 104]

/-- The canonical name of a plain field is not `Content-Length`. -/
theorem plain_not_cl (kv : Bytes × Bytes) (h : PlainField kv) :
    (canonicalMIMEHeaderKey kv.1 == kContentLength) = false := by
  obtain ⟨h1, _, _, _, _, h6, _⟩ := h
  rw [beq_eq_false_iff_ne]
  intro heq
  have := canonical_eq_lower kv.1 kContentLength h1 heq
  have hl : lower kContentLength = kContentLengthLower := by decide
  rw [hl] at this
  simp [this] at h6

/-! ### the HEADERS field list of the origin's final response -/

/-- An origin message, protocol-independent: status (as digits and as a number), ordinary
fields (lower-case names, as HTTP/2 and HTTP/3 carry them), body, trailer fields. -/
structure AMsg where
  code : Nat
  sv : Bytes
  fields : Fields
  body : Bytes
  trailers : Fields
deriving Repr

structure AMsg.OK (M : AMsg) : Prop where
  svNe : M.sv ≠ []
  svCode : natOfDigits M.sv = some M.code
  svValid : validFieldValue M.sv = true
  final : ¬ (100 ≤ M.code ∧ M.code ≤ 199)
  plain : ∀ kv ∈ M.fields, PlainField kv
  trailersOK : ∀ kv ∈ M.trailers, isPseudo kv.1 = false

/-- What the caller is to see under the header: canonical names, the origin's order. -/
def AMsg.header (M : AMsg) : Fields := M.fields.map canonKV

def AMsg.trailer (M : AMsg) : Fields := M.trailers.map canonKV

/-- The field list of the final HEADERS frame: `:status`, optionally `content-length`, the
ordinary fields. -/
def AMsg.h2Head (M : AMsg) (declare : Option Bytes) : Fields :=
  (kStatus, M.sv) :: ((match declare with | some cb => [(kContentLengthLower, cb)] | none => []) ++ M.fields)

/-- The `Content-Length` entry of the header when the origin announced the length. -/
def clEntry : Option Bytes → Fields
  | some cb => [(kContentLength, cb)]
  | none => []

def clValues : Option Bytes → List Bytes
  | some cb => [cb]
  | none => []

theorem filter_plain_cl (fs : Fields) (hfs : ∀ kv ∈ fs, PlainField kv) :
    (fs.map canonKV).filter (fun x => x.1 == kContentLength) = [] := by
  apply List.filter_eq_nil_iff.mpr
  intro kv hkv
  simp only [List.mem_map] at hkv
  obtain ⟨kv0, h0, rfl⟩ := hkv
  have := plain_not_cl kv0 (hfs kv0 h0)
  simpa [canonKV] using this

/-- `handleResponse` on the origin's final HEADERS: status, header, no announced trailers, and
the declared length. -/
theorem h2Head_spec (M : AMsg) (hM : M.OK) (declare : Option Bytes) :
    h2StatusValue (M.h2Head declare) = some M.sv ∧
    h2Fields (M.h2Head declare) = clEntry declare ++ M.header ∧
    h2Declared (M.h2Head declare) = [] ∧
    h2ContentLengths (M.h2Head declare) = clValues declare := by
  cases declare with
  | none =>
    obtain ⟨h1, h2, h3⟩ := h2_fields_plain M.fields hM.plain M.sv
    refine ⟨by simpa [AMsg.h2Head] using h1, by simpa [AMsg.h2Head, AMsg.header, clEntry] using h2,
      by simpa [AMsg.h2Head] using h3, ?_⟩
    unfold h2ContentLengths
    have h2' : h2Fields (M.h2Head none) = M.fields.map canonKV := by simpa [AMsg.h2Head] using h2
    rw [h2']
    have := filter_plain_cl M.fields hM.plain
    simp only [kContentLength] at this
    rw [this]
    rfl
  | some cb =>
    -- the content-length field is a regular field with canonical name Content-Length
    have hplain' : ∀ kv ∈ M.fields, PlainField kv := hM.plain
    obtain ⟨_, h2, h3⟩ := h2_fields_plain M.fields hM.plain M.sv
    have hreg : h2Regular (M.h2Head (some cb)) = (kContentLength, cb) :: M.fields.map canonKV := by
      unfold h2Regular AMsg.h2Head
      have hps : isPseudo kStatus = true := by decide
      have hcl : isPseudo kContentLengthLower = false := by decide
      have hcan : canonicalMIMEHeaderKey kContentLengthLower = kContentLength := by decide
      simp only [List.filter_cons, hps, Bool.not_true, Bool.false_eq_true, if_false, List.cons_append,
        List.nil_append, hcl, Bool.not_false, if_true, List.map_cons, hcan]
      have : M.fields.filter (fun kv => !isPseudo kv.1) = M.fields := by
        apply List.filter_eq_self.mpr
        intro kv hkv
        simp [(hplain' kv hkv).2.2.1]
      rw [this]
      rfl
    have hnotr : ∀ kv ∈ M.fields.map canonKV, (kv.1 != [84, 114, 97, 105, 108, 101, 114]) = true := by
      intro kv hkv
      simp only [List.mem_map] at hkv
      obtain ⟨kv0, h0, rfl⟩ := hkv
      have := (hplain' kv0 h0).2.2.2.2.2.2.1
      simp only [canonKV, bne_iff_ne, ne_eq]
      intro heq
      simp [kTrailer, heq] at this
    have hf : h2Fields (M.h2Head (some cb)) = (kContentLength, cb) :: M.fields.map canonKV := by
      unfold h2Fields
      rw [hreg]
      have h0 : (kContentLength != [84, 114, 97, 105, 108, 101, 114]) = true := by decide
      simp only [List.filter_cons, h0, if_true]
      congr 1
      exact List.filter_eq_self.mpr hnotr
    refine ⟨by simp [AMsg.h2Head, h2StatusValue, kStatus], by simpa [AMsg.header, clEntry] using hf, ?_, ?_⟩
    · unfold h2Declared
      rw [hreg]
      have h0 : (kContentLength == [84, 114, 97, 105, 108, 101, 114]) = false := by decide
      simp only [List.filter_cons, h0, Bool.false_eq_true, if_false]
      have : (M.fields.map canonKV).filter (fun x => x.1 == [84, 114, 97, 105, 108, 101, 114]) = [] := by
        apply List.filter_eq_nil_iff.mpr
        intro kv hkv
        have := hnotr kv hkv
        simpa using this
      rw [this]
      rfl
    · unfold h2ContentLengths
      rw [hf]
      have h0 : (kContentLength ==
          [67, 111, 110, 116, 101, 110, 116, 45, 76, 101, 110, 103, 116, 104]) = true := by decide
      simp only [List.filter_cons, h0, if_true, List.map_cons]
      have := filter_plain_cl M.fields hM.plain
      simp only [kContentLength] at this
      rw [this]
      rfl

end Req.C02
