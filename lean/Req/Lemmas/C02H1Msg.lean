import Req.C02.H1Body
import Req.Lemmas.C02Reader
import Req.Lemmas.C02Bufio
import Req.Lemmas.C02H1Simple
import Req.Lemmas.C02Chunked
import Req.Lemmas.C02Trailer
/-!
C02 — the three HTTP/1.1 body automata started from ANY state of the connection reader
(whatever the head reader left buffered, whatever segmentation the rest of the wire arrives
in): one uniform statement `BodyExact`.
-/
namespace Req.C02
open Req.Proto

/-- The caller reads exactly `B`: for EVERY sequence of read sizes the bytes handed out are a
prefix of `B`; a run that ends with an error ends with `io.EOF`, and then the bytes are exactly
`B`, `Response.Trailer` received `t`, and the connection reader stands exactly at `rest`; with
positive read sizes and more reads than bytes the run does end. -/
def BodyExact (bd : H1Body) (B : Bytes) (t : Option Trailer) (rest : Bytes) : Prop :=
  ∀ ks : List Nat,
    (∃ u, B = outBytes (bd.runReads ks).1 ++ u) ∧
    (∀ e, lastErr (bd.runReads ks).1 = some e →
      e = .eof ∧ outBytes (bd.runReads ks).1 = B ∧ (bd.runReads ks).2.trailer = t ∧
      (bd.runReads ks).2.br.rem = rest) ∧
    ((∀ k ∈ ks, 0 < k) → B.length < ks.length → ∃ e, lastErr (bd.runReads ks).1 = some e)

/-- What the last (error) read satisfies, for invariant-style refinements. -/
theorem runReads_final {σ ε : Type} {read : σ → Nat → (Bytes × Option ε) × σ} {Inv : σ → Prop}
    {exp : σ → Bytes} {isEof : ε → Prop} (R : Refines read Inv exp isEof) (Q : ε → σ → Prop)
    (hQ : ∀ s k d e s', Inv s → read s k = ((d, some e), s') → Q e s')
    (ks : List Nat) (s : σ) (h : Inv s) (e : ε)
    (he : lastErr (runReads read s ks).1 = some e) : Q e (runReads read s ks).2 := by
  induction ks generalizing s with
  | nil => simp [runReads, lastErr] at he
  | cons k ks ih =>
    unfold runReads at he ⊢
    rcases hr : read s k with ⟨⟨d, e'⟩, s'⟩
    rw [hr] at he
    cases e' with
    | some e' =>
      simp only [lastErr_single, Option.some.injEq] at he
      subst he
      exact hQ s k d e' s' h hr
    | none =>
      simp only at he ⊢
      have hi := (R.step_ok s k d s' h hr).1
      have hne : (runReads read s' ks).1 ≠ [] := by
        intro h0; rw [h0] at he; simp [lastErr] at he
      rw [lastErr_cons_ne _ _ hne] at he
      exact ih s' hi he

/-- The trailer slot is only ever written by the chunked reader. -/
theorem read_trailer_unchanged (bd : H1Body) (k : Nat) (h : ∀ cr, bd.src ≠ .chunked cr) :
    (bd.read k).2.trailer = bd.trailer ∧ ∀ cr, (bd.read k).2.src ≠ .chunked cr := by
  unfold H1Body.read
  split
  · exact ⟨rfl, h⟩
  · unfold H1Body.readLocked
    split
    · exact ⟨rfl, h⟩
    · split
      · rename_i n hs
        simp only
        split <;> (split <;> (try split)) <;> simp
      · rename_i hs
        simp only
        rcases hr : bd.br.read k with ⟨⟨d, e⟩, br'⟩
        simp only
        split <;> simp [hs]
      · rename_i cr hs
        exact absurd hs (h cr)

theorem runReads_trailer_unchanged (ks : List Nat) (bd : H1Body) (h : ∀ cr, bd.src ≠ .chunked cr) :
    (bd.runReads ks).2.trailer = bd.trailer := by
  unfold H1Body.runReads
  induction ks generalizing bd with
  | nil => rfl
  | cons k ks ih =>
    unfold runReads
    obtain ⟨h1, h2⟩ := read_trailer_unchanged bd k h
    rcases hr : bd.read k with ⟨⟨d, e⟩, bd'⟩
    rw [hr] at h1 h2
    cases e with
    | none =>
      simp only
      rw [ih bd' h2]
      exact h1
    | some e => exact h1

/-- **Declared length**, from any reader state whose unread wire is `body ++ rest`. -/
theorem bodyExact_length (br : Bufio) (body rest : Bytes) (hn : 0 < body.length)
    (hrem : br.rem = body ++ rest) (hw : br.WF) :
    BodyExact (H1Body.new (.length body.length) br) body none rest := by
  intro ks
  have hinv : LimInv (H1Body.new (.length body.length) br) :=
    ⟨body.length, rfl, hn, by simp [H1Body.new, hrem], rfl, rfl, hw⟩
  have hexp : limExp (H1Body.new (.length body.length) br) = body := by
    simp [limExp, H1Body.new, hrem]
  refine ⟨?_, ?_, ?_⟩
  · have := runReads_prefix limited_refines ks _ hinv
    rw [hexp] at this
    exact this
  · intro e he
    have heof : e = .eof :=
      runReads_final limited_refines (fun e _ => e = .eof)
        (fun s k d e s' hs hr => limited_only_eof s k hs d e s' hr) ks _ hinv e he
    subst heof
    have hout := runReads_eof limited_refines ks _ hinv .eof he rfl
    rw [hexp] at hout
    refine ⟨rfl, hout, ?_, ?_⟩
    · rw [runReads_trailer_unchanged ks _ (by intro cr; simp [H1Body.new])]
      rfl
    · have := limited_run_rem ks _ hinv
      simp only [H1Body.runReads] at hout ⊢
      rw [this, hout]
      simp [H1Body.new, hrem]
  · intro hpos hlen
    exact runReads_terminates limited_refines limited_progress ks _ hinv hpos (by rw [hexp]; exact hlen)

/-- **Close-delimited**, from any reader state whose unread wire is `body` and whose connection
then ends with FIN. -/
theorem bodyExact_close (br : Bufio) (body : Bytes) (hrem : br.rem = body) (hw : br.WF)
    (hfin : br.net.fin = .eof) :
    BodyExact (H1Body.new .close br) body none [] := by
  intro ks
  have hinv : CloseInv (H1Body.new .close br) := ⟨rfl, rfl, rfl, hw, hfin⟩
  have hexp : closeExp (H1Body.new .close br) = body := by simp [closeExp, H1Body.new, hrem]
  refine ⟨?_, ?_, ?_⟩
  · have := runReads_prefix close_refines ks _ hinv
    rw [hexp] at this; exact this
  · intro e he
    have hq := runReads_final close_refines (fun e s' => e = .eof ∧ s'.br.rem = [])
        (fun s k d e s' hs hr => by
          obtain ⟨hsplit, _, _, hx⟩ := close_read s k hs d (some e) s' hr
          obtain ⟨h1, h2, h3⟩ := hx e rfl
          refine ⟨h1, ?_⟩
          rw [h2, h3] at hsplit
          simpa using hsplit.symm) ks _ hinv e he
    obtain ⟨rfl, hr0⟩ := hq
    have hout := runReads_eof close_refines ks _ hinv .eof he rfl
    rw [hexp] at hout
    refine ⟨rfl, hout, ?_, hr0⟩
    rw [runReads_trailer_unchanged ks _ (by intro cr; simp [H1Body.new])]
    rfl
  · intro hpos hlen
    exact runReads_terminates close_refines close_progress ks _ hinv hpos (by rw [hexp]; exact hlen)

/-- **Chunked**, from any reader state whose unread wire is the chunks `cs` (any split of the
body into chunks, any size-line spelling the reader's parser maps to the chunk length), the
last-chunk line, a trailer section that `readTrailer` reads as `t`, and `rest`. -/
theorem bodyExact_chunked (br : Bufio) (cs : List WChunk) (hcs : ∀ c ∈ cs, c.OK br.cap)
    (last : Bytes) (hl : LastOK br.cap last) (tail rest : Bytes) (t : Option Trailer)
    (ht : TrailerOK br.cap tail rest t)
    (hrem : br.rem = wireFrom cs last tail) (hw : br.WF) (hf : br.Fits) :
    BodyExact (H1Body.new .chunked br) (dataOf cs) t rest := by
  intro ks
  have hrel : ChunkRel br.cap last tail (H1Body.new .chunked br) (dataOf cs) := by
    refine ⟨Chunked.init, rfl, rfl, ?_, rfl, rfl, rfl, hw, hf, rfl⟩
    simp only [H1Body.new, hrem]
    exact CPos.header cs hcs
  have R := chunked_refines br.cap last tail rest t hl ht
  refine ⟨runReadsR_prefix R ks _ _ hrel, ?_, ?_⟩
  · intro e he
    have hfin := runReadsR_final R (fun e bd' => e = .eof ∧ bd'.trailer = t ∧ bd'.br.rem = rest)
      (fun bd E k d e bd' hr h => by
        obtain ⟨h1, _, h3, h4⟩ := (chunked_read br.cap last tail rest t hl ht bd E k hr d (some e) bd' h).2 e rfl
        exact ⟨h1, h3, h4⟩) ks _ _ hrel e he
    obtain ⟨rfl, h2, h3⟩ := hfin
    exact ⟨rfl, runReadsR_eof R ks _ _ hrel .eof he rfl, h2, h3⟩
  · intro hpos hlen
    exact runReadsR_terminates_bytes R
      (fun bd E k d bd' hr hk h => by
        obtain ⟨_, _, _, hp⟩ := (chunked_read br.cap last tail rest t hl ht bd E k hr d none bd' h).1 rfl
        exact hp hk) ks _ _ hrel hpos hlen

end Req.C02

namespace Req.C02
open Req.Proto

/-! ### the head's lines under any segmentation -/

/-- `n` times `ReadSlice('\n')` — the primitive under `bufio.ReadLine` / `textproto.Reader`
with which the head reader consumes the status line, the field lines and the blank line. -/
def Bufio.readLines : Nat → Bufio → List Bytes × Bufio
  | 0, b => ([], b)
  | n + 1, b =>
    match b.readSlice (b.cap + 2) 10 with
    | ((l, none), b') =>
      let (ls, b'') := Bufio.readLines n b'
      (l :: ls, b'')
    | ((l, some _), b') => ([l], b')

/-- The wire form of a list of lines (each given without its final LF). -/
def linesWire (ls : List Bytes) : Bytes := (ls.map fun l => l ++ [10]).flatten

/-- **Line reading is independent of the segmentation**: whatever pieces the network delivers,
whatever is buffered already, `ReadSlice` hands out exactly the lines (each fitting the
buffer) and the reader then stands exactly behind them. -/
theorem Bufio.readLines_spec (ls : List Bytes) (b : Bufio) (R : Bytes) (hw : b.WF) (hf : b.Fits)
    (hrem : b.rem = linesWire ls ++ R) (hno : ∀ l ∈ ls, (10 : UInt8) ∉ l)
    (hfit : ∀ l ∈ ls, l.length + 1 ≤ b.cap) :
    ∃ b', Bufio.readLines ls.length b = (ls.map (fun l => l ++ [10]), b') ∧ b'.rem = R ∧ b'.WF ∧ b'.Fits ∧
      b'.cap = b.cap ∧ b'.net.fin = b.net.fin := by
  induction ls generalizing b with
  | nil => exact ⟨b, rfl, by simpa [linesWire] using hrem, hw, hf, rfl, rfl⟩
  | cons l ls ih =>
    have hrem' : b.rem = l ++ 10 :: (linesWire ls ++ R) := by
      rw [hrem]; simp [linesWire, List.append_assoc]
    have hl := hfit l (by simp)
    obtain ⟨b1, hr, hrem1, hw1, hf1, hcap1, hfin1⟩ :=
      Bufio.readSlice_line (b.cap + 2) b l _ hw hf hrem' (hno l (by simp)) hl (by omega) (by omega)
    obtain ⟨b', hrs, h2, h3, h4, h5, h6⟩ := ih b1 hw1 hf1 hrem1 (fun x hx => hno x (by simp [hx]))
      (fun x hx => by rw [hcap1]; exact hfit x (by simp [hx]))
    refine ⟨b', ?_, h2, h3, h4, by rw [h5, hcap1], by rw [h6, hfin1]⟩
    simp only [List.length_cons, Bufio.readLines, hr, hrs, List.map_cons]

end Req.C02
