import Req.Lemmas.CancelInv
/-! Preservation of the C08 lifecycle invariant by the environment events. -/
set_option linter.unusedSimpArgs false
set_option linter.unusedVariables false
namespace Req.Cancel

set_option maxHeartbeats 800000 in
theorem inv_ev_cancel_h1 (cfg : Cfg) (s : St) (e : CtxErr) (hi : Inv cfg s) (hg : evGuard cfg s (.cancel e) = true)
    (hs : cfg.stack = .h1) : Inv cfg (evApply cfg s (.cancel e)) := by
  obtain ⟨a1, a2, a3, a4, a5, a6, a7, a8, H1, H2, H3⟩ := hi
  have d1 := @body_not_inflight s.phase
  have d2 := @preConn_not_inflight s.phase
  have d3 := @preConn_not_body s.phase
  have d4 := @preConn_cases s.phase
  simp only [evGuard, Bool.and_eq_true, beq_iff_eq, Bool.not_eq_true', Bool.or_eq_true, bne_iff_ne, ne_eq] at hg
  obtain ⟨b1, b2, b3, b4, b5, b6, b7⟩ := H1 hs
  clear H1 H2 H3
  simp only [evApply]
  inv_stack hs

set_option maxHeartbeats 800000 in
theorem inv_ev_cancel_h2 (cfg : Cfg) (s : St) (e : CtxErr) (hi : Inv cfg s) (hg : evGuard cfg s (.cancel e) = true)
    (hs : cfg.stack = .h2) : Inv cfg (evApply cfg s (.cancel e)) := by
  obtain ⟨a1, a2, a3, a4, a5, a6, a7, a8, H1, H2, H3⟩ := hi
  have d1 := @body_not_inflight s.phase
  have d2 := @preConn_not_inflight s.phase
  have d3 := @preConn_not_body s.phase
  have d4 := @preConn_cases s.phase
  simp only [evGuard, Bool.and_eq_true, beq_iff_eq, Bool.not_eq_true', Bool.or_eq_true, bne_iff_ne, ne_eq] at hg
  obtain ⟨b1, b2, b3, b4, b5, b6, b7, b8⟩ := H2 hs
  clear H1 H2 H3
  simp only [evApply]
  inv_stack hs

set_option maxHeartbeats 800000 in
theorem inv_ev_cancel_h3 (cfg : Cfg) (s : St) (e : CtxErr) (hi : Inv cfg s) (hg : evGuard cfg s (.cancel e) = true)
    (hs : cfg.stack = .h3) : Inv cfg (evApply cfg s (.cancel e)) := by
  obtain ⟨a1, a2, a3, a4, a5, a6, a7, a8, H1, H2, H3⟩ := hi
  have d1 := @body_not_inflight s.phase
  have d2 := @preConn_not_inflight s.phase
  have d3 := @preConn_not_body s.phase
  have d4 := @preConn_cases s.phase
  simp only [evGuard, Bool.and_eq_true, beq_iff_eq, Bool.not_eq_true', Bool.or_eq_true, bne_iff_ne, ne_eq] at hg
  obtain ⟨b1, b2, b3, b4, b5, b6, b7, b8⟩ := H3 hs
  clear H1 H2 H3
  simp only [evApply]
  inv_stack hs

theorem inv_ev_cancel (cfg : Cfg) (s : St) (e : CtxErr) (hi : Inv cfg s) (hg : evGuard cfg s (.cancel e) = true) :
    Inv cfg (evApply cfg s (.cancel e)) := by
  rcases stack_cases cfg.stack with hs | hs | hs
  · exact inv_ev_cancel_h1 cfg s e hi hg hs
  · exact inv_ev_cancel_h2 cfg s e hi hg hs
  · exact inv_ev_cancel_h3 cfg s e hi hg hs

set_option maxHeartbeats 800000 in
theorem inv_ev_connIdle_h1 (cfg : Cfg) (s : St) (hi : Inv cfg s) (hg : evGuard cfg s .connIdle = true)
    (hs : cfg.stack = .h1) : Inv cfg (evApply cfg s .connIdle) := by
  obtain ⟨a1, a2, a3, a4, a5, a6, a7, a8, H1, H2, H3⟩ := hi
  have d1 := @body_not_inflight s.phase
  have d2 := @preConn_not_inflight s.phase
  have d3 := @preConn_not_body s.phase
  have d4 := @preConn_cases s.phase
  simp only [evGuard, Bool.and_eq_true, beq_iff_eq, Bool.not_eq_true', Bool.or_eq_true, bne_iff_ne, ne_eq] at hg
  obtain ⟨b1, b2, b3, b4, b5, b6, b7⟩ := H1 hs
  clear H1 H2 H3
  simp only [evApply]
  inv_stack hs

set_option maxHeartbeats 800000 in
theorem inv_ev_connIdle_h2 (cfg : Cfg) (s : St) (hi : Inv cfg s) (hg : evGuard cfg s .connIdle = true)
    (hs : cfg.stack = .h2) : Inv cfg (evApply cfg s .connIdle) := by
  obtain ⟨a1, a2, a3, a4, a5, a6, a7, a8, H1, H2, H3⟩ := hi
  have d1 := @body_not_inflight s.phase
  have d2 := @preConn_not_inflight s.phase
  have d3 := @preConn_not_body s.phase
  have d4 := @preConn_cases s.phase
  simp only [evGuard, Bool.and_eq_true, beq_iff_eq, Bool.not_eq_true', Bool.or_eq_true, bne_iff_ne, ne_eq] at hg
  obtain ⟨b1, b2, b3, b4, b5, b6, b7, b8⟩ := H2 hs
  clear H1 H2 H3
  simp only [evApply]
  inv_stack hs

set_option maxHeartbeats 800000 in
theorem inv_ev_connIdle_h3 (cfg : Cfg) (s : St) (hi : Inv cfg s) (hg : evGuard cfg s .connIdle = true)
    (hs : cfg.stack = .h3) : Inv cfg (evApply cfg s .connIdle) := by
  obtain ⟨a1, a2, a3, a4, a5, a6, a7, a8, H1, H2, H3⟩ := hi
  have d1 := @body_not_inflight s.phase
  have d2 := @preConn_not_inflight s.phase
  have d3 := @preConn_not_body s.phase
  have d4 := @preConn_cases s.phase
  simp only [evGuard, Bool.and_eq_true, beq_iff_eq, Bool.not_eq_true', Bool.or_eq_true, bne_iff_ne, ne_eq] at hg
  obtain ⟨b1, b2, b3, b4, b5, b6, b7, b8⟩ := H3 hs
  clear H1 H2 H3
  simp only [evApply]
  inv_stack hs

theorem inv_ev_connIdle (cfg : Cfg) (s : St) (hi : Inv cfg s) (hg : evGuard cfg s .connIdle = true) :
    Inv cfg (evApply cfg s .connIdle) := by
  rcases stack_cases cfg.stack with hs | hs | hs
  · exact inv_ev_connIdle_h1 cfg s hi hg hs
  · exact inv_ev_connIdle_h2 cfg s hi hg hs
  · exact inv_ev_connIdle_h3 cfg s hi hg hs

set_option maxHeartbeats 800000 in
theorem inv_ev_dialStart_h1 (cfg : Cfg) (s : St) (hi : Inv cfg s) (hg : evGuard cfg s .dialStart = true)
    (hs : cfg.stack = .h1) : Inv cfg (evApply cfg s .dialStart) := by
  obtain ⟨a1, a2, a3, a4, a5, a6, a7, a8, H1, H2, H3⟩ := hi
  have d1 := @body_not_inflight s.phase
  have d2 := @preConn_not_inflight s.phase
  have d3 := @preConn_not_body s.phase
  have d4 := @preConn_cases s.phase
  simp only [evGuard, Bool.and_eq_true, beq_iff_eq, Bool.not_eq_true', Bool.or_eq_true, bne_iff_ne, ne_eq] at hg
  obtain ⟨b1, b2, b3, b4, b5, b6, b7⟩ := H1 hs
  clear H1 H2 H3
  simp only [evApply]
  inv_stack hs

set_option maxHeartbeats 800000 in
theorem inv_ev_dialStart_h2 (cfg : Cfg) (s : St) (hi : Inv cfg s) (hg : evGuard cfg s .dialStart = true)
    (hs : cfg.stack = .h2) : Inv cfg (evApply cfg s .dialStart) := by
  obtain ⟨a1, a2, a3, a4, a5, a6, a7, a8, H1, H2, H3⟩ := hi
  have d1 := @body_not_inflight s.phase
  have d2 := @preConn_not_inflight s.phase
  have d3 := @preConn_not_body s.phase
  have d4 := @preConn_cases s.phase
  simp only [evGuard, Bool.and_eq_true, beq_iff_eq, Bool.not_eq_true', Bool.or_eq_true, bne_iff_ne, ne_eq] at hg
  obtain ⟨b1, b2, b3, b4, b5, b6, b7, b8⟩ := H2 hs
  clear H1 H2 H3
  simp only [evApply]
  inv_stack hs

set_option maxHeartbeats 800000 in
theorem inv_ev_dialStart_h3 (cfg : Cfg) (s : St) (hi : Inv cfg s) (hg : evGuard cfg s .dialStart = true)
    (hs : cfg.stack = .h3) : Inv cfg (evApply cfg s .dialStart) := by
  obtain ⟨a1, a2, a3, a4, a5, a6, a7, a8, H1, H2, H3⟩ := hi
  have d1 := @body_not_inflight s.phase
  have d2 := @preConn_not_inflight s.phase
  have d3 := @preConn_not_body s.phase
  have d4 := @preConn_cases s.phase
  simp only [evGuard, Bool.and_eq_true, beq_iff_eq, Bool.not_eq_true', Bool.or_eq_true, bne_iff_ne, ne_eq] at hg
  obtain ⟨b1, b2, b3, b4, b5, b6, b7, b8⟩ := H3 hs
  clear H1 H2 H3
  simp only [evApply]
  inv_stack hs

theorem inv_ev_dialStart (cfg : Cfg) (s : St) (hi : Inv cfg s) (hg : evGuard cfg s .dialStart = true) :
    Inv cfg (evApply cfg s .dialStart) := by
  rcases stack_cases cfg.stack with hs | hs | hs
  · exact inv_ev_dialStart_h1 cfg s hi hg hs
  · exact inv_ev_dialStart_h2 cfg s hi hg hs
  · exact inv_ev_dialStart_h3 cfg s hi hg hs

set_option maxHeartbeats 800000 in
theorem inv_ev_hsDone_h1 (cfg : Cfg) (s : St) (hi : Inv cfg s) (hg : evGuard cfg s .hsDone = true)
    (hs : cfg.stack = .h1) : Inv cfg (evApply cfg s .hsDone) := by
  obtain ⟨a1, a2, a3, a4, a5, a6, a7, a8, H1, H2, H3⟩ := hi
  have d1 := @body_not_inflight s.phase
  have d2 := @preConn_not_inflight s.phase
  have d3 := @preConn_not_body s.phase
  have d4 := @preConn_cases s.phase
  simp only [evGuard, Bool.and_eq_true, beq_iff_eq, Bool.not_eq_true', Bool.or_eq_true, bne_iff_ne, ne_eq] at hg
  obtain ⟨b1, b2, b3, b4, b5, b6, b7⟩ := H1 hs
  clear H1 H2 H3
  simp only [evApply]
  inv_stack hs

set_option maxHeartbeats 800000 in
theorem inv_ev_hsDone_h2 (cfg : Cfg) (s : St) (hi : Inv cfg s) (hg : evGuard cfg s .hsDone = true)
    (hs : cfg.stack = .h2) : Inv cfg (evApply cfg s .hsDone) := by
  obtain ⟨a1, a2, a3, a4, a5, a6, a7, a8, H1, H2, H3⟩ := hi
  have d1 := @body_not_inflight s.phase
  have d2 := @preConn_not_inflight s.phase
  have d3 := @preConn_not_body s.phase
  have d4 := @preConn_cases s.phase
  simp only [evGuard, Bool.and_eq_true, beq_iff_eq, Bool.not_eq_true', Bool.or_eq_true, bne_iff_ne, ne_eq] at hg
  obtain ⟨b1, b2, b3, b4, b5, b6, b7, b8⟩ := H2 hs
  clear H1 H2 H3
  simp only [evApply]
  inv_stack hs

set_option maxHeartbeats 800000 in
theorem inv_ev_hsDone_h3 (cfg : Cfg) (s : St) (hi : Inv cfg s) (hg : evGuard cfg s .hsDone = true)
    (hs : cfg.stack = .h3) : Inv cfg (evApply cfg s .hsDone) := by
  obtain ⟨a1, a2, a3, a4, a5, a6, a7, a8, H1, H2, H3⟩ := hi
  have d1 := @body_not_inflight s.phase
  have d2 := @preConn_not_inflight s.phase
  have d3 := @preConn_not_body s.phase
  have d4 := @preConn_cases s.phase
  simp only [evGuard, Bool.and_eq_true, beq_iff_eq, Bool.not_eq_true', Bool.or_eq_true, bne_iff_ne, ne_eq] at hg
  obtain ⟨b1, b2, b3, b4, b5, b6, b7, b8⟩ := H3 hs
  clear H1 H2 H3
  simp only [evApply]
  inv_stack hs

theorem inv_ev_hsDone (cfg : Cfg) (s : St) (hi : Inv cfg s) (hg : evGuard cfg s .hsDone = true) :
    Inv cfg (evApply cfg s .hsDone) := by
  rcases stack_cases cfg.stack with hs | hs | hs
  · exact inv_ev_hsDone_h1 cfg s hi hg hs
  · exact inv_ev_hsDone_h2 cfg s hi hg hs
  · exact inv_ev_hsDone_h3 cfg s hi hg hs

set_option maxHeartbeats 800000 in
theorem inv_ev_dialDone_h1 (cfg : Cfg) (s : St) (hi : Inv cfg s) (hg : evGuard cfg s .dialDone = true)
    (hs : cfg.stack = .h1) : Inv cfg (evApply cfg s .dialDone) := by
  obtain ⟨a1, a2, a3, a4, a5, a6, a7, a8, H1, H2, H3⟩ := hi
  have d1 := @body_not_inflight s.phase
  have d2 := @preConn_not_inflight s.phase
  have d3 := @preConn_not_body s.phase
  have d4 := @preConn_cases s.phase
  simp only [evGuard, Bool.and_eq_true, beq_iff_eq, Bool.not_eq_true', Bool.or_eq_true, bne_iff_ne, ne_eq] at hg
  obtain ⟨b1, b2, b3, b4, b5, b6, b7⟩ := H1 hs
  clear H1 H2 H3
  simp only [evApply]
  split <;> (try split) <;> rename_i hph <;> (try simp only [beq_iff_eq] at hph)
  all_goals inv_stack hs

set_option maxHeartbeats 800000 in
theorem inv_ev_dialDone_h2 (cfg : Cfg) (s : St) (hi : Inv cfg s) (hg : evGuard cfg s .dialDone = true)
    (hs : cfg.stack = .h2) : Inv cfg (evApply cfg s .dialDone) := by
  obtain ⟨a1, a2, a3, a4, a5, a6, a7, a8, H1, H2, H3⟩ := hi
  have d1 := @body_not_inflight s.phase
  have d2 := @preConn_not_inflight s.phase
  have d3 := @preConn_not_body s.phase
  have d4 := @preConn_cases s.phase
  simp only [evGuard, Bool.and_eq_true, beq_iff_eq, Bool.not_eq_true', Bool.or_eq_true, bne_iff_ne, ne_eq] at hg
  obtain ⟨b1, b2, b3, b4, b5, b6, b7, b8⟩ := H2 hs
  clear H1 H2 H3
  simp only [evApply]
  split <;> (try split) <;> rename_i hph <;> (try simp only [beq_iff_eq] at hph)
  all_goals inv_stack hs

set_option maxHeartbeats 800000 in
theorem inv_ev_dialDone_h3 (cfg : Cfg) (s : St) (hi : Inv cfg s) (hg : evGuard cfg s .dialDone = true)
    (hs : cfg.stack = .h3) : Inv cfg (evApply cfg s .dialDone) := by
  obtain ⟨a1, a2, a3, a4, a5, a6, a7, a8, H1, H2, H3⟩ := hi
  have d1 := @body_not_inflight s.phase
  have d2 := @preConn_not_inflight s.phase
  have d3 := @preConn_not_body s.phase
  have d4 := @preConn_cases s.phase
  simp only [evGuard, Bool.and_eq_true, beq_iff_eq, Bool.not_eq_true', Bool.or_eq_true, bne_iff_ne, ne_eq] at hg
  obtain ⟨b1, b2, b3, b4, b5, b6, b7, b8⟩ := H3 hs
  clear H1 H2 H3
  simp only [evApply]
  split <;> (try split) <;> rename_i hph <;> (try simp only [beq_iff_eq] at hph)
  all_goals inv_stack hs

theorem inv_ev_dialDone (cfg : Cfg) (s : St) (hi : Inv cfg s) (hg : evGuard cfg s .dialDone = true) :
    Inv cfg (evApply cfg s .dialDone) := by
  rcases stack_cases cfg.stack with hs | hs | hs
  · exact inv_ev_dialDone_h1 cfg s hi hg hs
  · exact inv_ev_dialDone_h2 cfg s hi hg hs
  · exact inv_ev_dialDone_h3 cfg s hi hg hs

set_option maxHeartbeats 800000 in
theorem inv_ev_wrote_h1 (cfg : Cfg) (s : St) (hi : Inv cfg s) (hg : evGuard cfg s .wrote = true)
    (hs : cfg.stack = .h1) : Inv cfg (evApply cfg s .wrote) := by
  obtain ⟨a1, a2, a3, a4, a5, a6, a7, a8, H1, H2, H3⟩ := hi
  have d1 := @body_not_inflight s.phase
  have d2 := @preConn_not_inflight s.phase
  have d3 := @preConn_not_body s.phase
  have d4 := @preConn_cases s.phase
  simp only [evGuard, Bool.and_eq_true, beq_iff_eq, Bool.not_eq_true', Bool.or_eq_true, bne_iff_ne, ne_eq] at hg
  obtain ⟨b1, b2, b3, b4, b5, b6, b7⟩ := H1 hs
  clear H1 H2 H3
  cases hp : s.phase <;> simp [hp] at hg
  case writingHeaders =>
    by_cases hb : 0 < cfg.bodyChunks
    · simp (config := {decide := true}) only [evApply, hp, hs, hb, if_true, if_false, beq_self_eq_true]
      inv_stack hs
    · simp (config := {decide := true}) only [evApply, hp, hs, hb, if_true, if_false, beq_self_eq_true]
      inv_stack hs
  case writingBody i =>
    by_cases hb : i + 1 < cfg.bodyChunks
    · simp (config := {decide := true}) only [evApply, hp, hs, hb, if_true, if_false]
      inv_stack hs
    · simp (config := {decide := true}) only [evApply, hp, hs, hb, if_true, if_false]
      inv_stack hs

set_option maxHeartbeats 800000 in
theorem inv_ev_wrote_h2 (cfg : Cfg) (s : St) (hi : Inv cfg s) (hg : evGuard cfg s .wrote = true)
    (hs : cfg.stack = .h2) : Inv cfg (evApply cfg s .wrote) := by
  obtain ⟨a1, a2, a3, a4, a5, a6, a7, a8, H1, H2, H3⟩ := hi
  have d1 := @body_not_inflight s.phase
  have d2 := @preConn_not_inflight s.phase
  have d3 := @preConn_not_body s.phase
  have d4 := @preConn_cases s.phase
  simp only [evGuard, Bool.and_eq_true, beq_iff_eq, Bool.not_eq_true', Bool.or_eq_true, bne_iff_ne, ne_eq] at hg
  obtain ⟨b1, b2, b3, b4, b5, b6, b7, b8⟩ := H2 hs
  clear H1 H2 H3
  cases hp : s.phase <;> simp [hp] at hg
  case writingHeaders =>
    by_cases hb : 0 < cfg.bodyChunks
    · simp (config := {decide := true}) only [evApply, hp, hs, hb, if_true, if_false, beq_self_eq_true]
      inv_stack hs
    · simp (config := {decide := true}) only [evApply, hp, hs, hb, if_true, if_false, beq_self_eq_true]
      inv_stack hs
  case writingBody i =>
    by_cases hb : i + 1 < cfg.bodyChunks
    · simp (config := {decide := true}) only [evApply, hp, hs, hb, if_true, if_false]
      inv_stack hs
    · simp (config := {decide := true}) only [evApply, hp, hs, hb, if_true, if_false]
      inv_stack hs

set_option maxHeartbeats 800000 in
theorem inv_ev_wrote_h3 (cfg : Cfg) (s : St) (hi : Inv cfg s) (hg : evGuard cfg s .wrote = true)
    (hs : cfg.stack = .h3) : Inv cfg (evApply cfg s .wrote) := by
  obtain ⟨a1, a2, a3, a4, a5, a6, a7, a8, H1, H2, H3⟩ := hi
  have d1 := @body_not_inflight s.phase
  have d2 := @preConn_not_inflight s.phase
  have d3 := @preConn_not_body s.phase
  have d4 := @preConn_cases s.phase
  simp only [evGuard, Bool.and_eq_true, beq_iff_eq, Bool.not_eq_true', Bool.or_eq_true, bne_iff_ne, ne_eq] at hg
  obtain ⟨b1, b2, b3, b4, b5, b6, b7, b8⟩ := H3 hs
  clear H1 H2 H3
  cases hp : s.phase <;> simp [hp] at hg
  case writingHeaders =>
    by_cases hb : 0 < cfg.bodyChunks
    · simp (config := {decide := true}) only [evApply, hp, hs, hb, if_true, if_false, beq_self_eq_true]
      inv_stack hs
    · simp (config := {decide := true}) only [evApply, hp, hs, hb, if_true, if_false, beq_self_eq_true]
      inv_stack hs
  case writingBody i =>
    by_cases hb : i + 1 < cfg.bodyChunks
    · simp (config := {decide := true}) only [evApply, hp, hs, hb, if_true, if_false]
      inv_stack hs
    · simp (config := {decide := true}) only [evApply, hp, hs, hb, if_true, if_false]
      inv_stack hs

theorem inv_ev_wrote (cfg : Cfg) (s : St) (hi : Inv cfg s) (hg : evGuard cfg s .wrote = true) :
    Inv cfg (evApply cfg s .wrote) := by
  rcases stack_cases cfg.stack with hs | hs | hs
  · exact inv_ev_wrote_h1 cfg s hi hg hs
  · exact inv_ev_wrote_h2 cfg s hi hg hs
  · exact inv_ev_wrote_h3 cfg s hi hg hs

set_option maxHeartbeats 800000 in
theorem inv_ev_gotHeaders_h1 (cfg : Cfg) (s : St) (hi : Inv cfg s) (hg : evGuard cfg s .gotHeaders = true)
    (hs : cfg.stack = .h1) : Inv cfg (evApply cfg s .gotHeaders) := by
  obtain ⟨a1, a2, a3, a4, a5, a6, a7, a8, H1, H2, H3⟩ := hi
  have d1 := @body_not_inflight s.phase
  have d2 := @preConn_not_inflight s.phase
  have d3 := @preConn_not_body s.phase
  have d4 := @preConn_cases s.phase
  simp only [evGuard, Bool.and_eq_true, beq_iff_eq, Bool.not_eq_true', Bool.or_eq_true, bne_iff_ne, ne_eq] at hg
  obtain ⟨b1, b2, b3, b4, b5, b6, b7⟩ := H1 hs
  clear H1 H2 H3
  by_cases hb : 0 < cfg.respChunks
  · simp (config := {decide := true}) only [evApply, hs, hb, if_true, if_false]
    inv_stack hs
  · simp (config := {decide := true}) only [evApply, completeOk, hs, hb, if_true, if_false]
    inv_stack hs

set_option maxHeartbeats 800000 in
theorem inv_ev_gotHeaders_h2 (cfg : Cfg) (s : St) (hi : Inv cfg s) (hg : evGuard cfg s .gotHeaders = true)
    (hs : cfg.stack = .h2) : Inv cfg (evApply cfg s .gotHeaders) := by
  obtain ⟨a1, a2, a3, a4, a5, a6, a7, a8, H1, H2, H3⟩ := hi
  have d1 := @body_not_inflight s.phase
  have d2 := @preConn_not_inflight s.phase
  have d3 := @preConn_not_body s.phase
  have d4 := @preConn_cases s.phase
  simp only [evGuard, Bool.and_eq_true, beq_iff_eq, Bool.not_eq_true', Bool.or_eq_true, bne_iff_ne, ne_eq] at hg
  obtain ⟨b1, b2, b3, b4, b5, b6, b7, b8⟩ := H2 hs
  clear H1 H2 H3
  by_cases hb : 0 < cfg.respChunks
  · simp (config := {decide := true}) only [evApply, hs, hb, if_true, if_false]
    inv_stack hs
  · simp (config := {decide := true}) only [evApply, completeOk, hs, hb, if_true, if_false]
    inv_stack hs

set_option maxHeartbeats 800000 in
theorem inv_ev_gotHeaders_h3 (cfg : Cfg) (s : St) (hi : Inv cfg s) (hg : evGuard cfg s .gotHeaders = true)
    (hs : cfg.stack = .h3) : Inv cfg (evApply cfg s .gotHeaders) := by
  obtain ⟨a1, a2, a3, a4, a5, a6, a7, a8, H1, H2, H3⟩ := hi
  have d1 := @body_not_inflight s.phase
  have d2 := @preConn_not_inflight s.phase
  have d3 := @preConn_not_body s.phase
  have d4 := @preConn_cases s.phase
  simp only [evGuard, Bool.and_eq_true, beq_iff_eq, Bool.not_eq_true', Bool.or_eq_true, bne_iff_ne, ne_eq] at hg
  obtain ⟨b1, b2, b3, b4, b5, b6, b7, b8⟩ := H3 hs
  clear H1 H2 H3
  by_cases hb : 0 < cfg.respChunks
  · simp (config := {decide := true}) only [evApply, hs, hb, if_true, if_false]
    inv_stack hs
  · simp (config := {decide := true}) only [evApply, completeOk, hs, hb, if_true, if_false]
    inv_stack hs

theorem inv_ev_gotHeaders (cfg : Cfg) (s : St) (hi : Inv cfg s) (hg : evGuard cfg s .gotHeaders = true) :
    Inv cfg (evApply cfg s .gotHeaders) := by
  rcases stack_cases cfg.stack with hs | hs | hs
  · exact inv_ev_gotHeaders_h1 cfg s hi hg hs
  · exact inv_ev_gotHeaders_h2 cfg s hi hg hs
  · exact inv_ev_gotHeaders_h3 cfg s hi hg hs

set_option maxHeartbeats 800000 in
theorem inv_ev_gotBody_h1 (cfg : Cfg) (s : St) (hi : Inv cfg s) (hg : evGuard cfg s .gotBody = true)
    (hs : cfg.stack = .h1) : Inv cfg (evApply cfg s .gotBody) := by
  obtain ⟨a1, a2, a3, a4, a5, a6, a7, a8, H1, H2, H3⟩ := hi
  have d1 := @body_not_inflight s.phase
  have d2 := @preConn_not_inflight s.phase
  have d3 := @preConn_not_body s.phase
  have d4 := @preConn_cases s.phase
  simp only [evGuard, Bool.and_eq_true, beq_iff_eq, Bool.not_eq_true', Bool.or_eq_true, bne_iff_ne, ne_eq] at hg
  obtain ⟨b1, b2, b3, b4, b5, b6, b7⟩ := H1 hs
  clear H1 H2 H3
  cases hp : s.phase <;> simp [hp, Phase.body] at hg
  case readingBody j =>
    by_cases hb : j + 1 < cfg.respChunks
    · simp (config := {decide := true}) only [evApply, hp, hs, hb, if_true, if_false]
      inv_stack hs
    · simp (config := {decide := true}) only [evApply, completeOk, hp, hs, hb, if_true, if_false]
      inv_stack hs

set_option maxHeartbeats 800000 in
theorem inv_ev_gotBody_h2 (cfg : Cfg) (s : St) (hi : Inv cfg s) (hg : evGuard cfg s .gotBody = true)
    (hs : cfg.stack = .h2) : Inv cfg (evApply cfg s .gotBody) := by
  obtain ⟨a1, a2, a3, a4, a5, a6, a7, a8, H1, H2, H3⟩ := hi
  have d1 := @body_not_inflight s.phase
  have d2 := @preConn_not_inflight s.phase
  have d3 := @preConn_not_body s.phase
  have d4 := @preConn_cases s.phase
  simp only [evGuard, Bool.and_eq_true, beq_iff_eq, Bool.not_eq_true', Bool.or_eq_true, bne_iff_ne, ne_eq] at hg
  obtain ⟨b1, b2, b3, b4, b5, b6, b7, b8⟩ := H2 hs
  clear H1 H2 H3
  cases hp : s.phase <;> simp [hp, Phase.body] at hg
  case readingBody j =>
    by_cases hb : j + 1 < cfg.respChunks
    · simp (config := {decide := true}) only [evApply, hp, hs, hb, if_true, if_false]
      inv_stack hs
    · simp (config := {decide := true}) only [evApply, completeOk, hp, hs, hb, if_true, if_false]
      inv_stack hs

set_option maxHeartbeats 800000 in
theorem inv_ev_gotBody_h3 (cfg : Cfg) (s : St) (hi : Inv cfg s) (hg : evGuard cfg s .gotBody = true)
    (hs : cfg.stack = .h3) : Inv cfg (evApply cfg s .gotBody) := by
  obtain ⟨a1, a2, a3, a4, a5, a6, a7, a8, H1, H2, H3⟩ := hi
  have d1 := @body_not_inflight s.phase
  have d2 := @preConn_not_inflight s.phase
  have d3 := @preConn_not_body s.phase
  have d4 := @preConn_cases s.phase
  simp only [evGuard, Bool.and_eq_true, beq_iff_eq, Bool.not_eq_true', Bool.or_eq_true, bne_iff_ne, ne_eq] at hg
  obtain ⟨b1, b2, b3, b4, b5, b6, b7, b8⟩ := H3 hs
  clear H1 H2 H3
  cases hp : s.phase <;> simp [hp, Phase.body] at hg
  case readingBody j =>
    by_cases hb : j + 1 < cfg.respChunks
    · simp (config := {decide := true}) only [evApply, hp, hs, hb, if_true, if_false]
      inv_stack hs
    · simp (config := {decide := true}) only [evApply, completeOk, hp, hs, hb, if_true, if_false]
      inv_stack hs

theorem inv_ev_gotBody (cfg : Cfg) (s : St) (hi : Inv cfg s) (hg : evGuard cfg s .gotBody = true) :
    Inv cfg (evApply cfg s .gotBody) := by
  rcases stack_cases cfg.stack with hs | hs | hs
  · exact inv_ev_gotBody_h1 cfg s hi hg hs
  · exact inv_ev_gotBody_h2 cfg s hi hg hs
  · exact inv_ev_gotBody_h3 cfg s hi hg hs

set_option maxHeartbeats 800000 in
theorem inv_ev_attemptFails_h1 (cfg : Cfg) (s : St) (hi : Inv cfg s) (hg : evGuard cfg s .attemptFails = true)
    (hs : cfg.stack = .h1) : Inv cfg (evApply cfg s .attemptFails) := by
  obtain ⟨a1, a2, a3, a4, a5, a6, a7, a8, H1, H2, H3⟩ := hi
  have d1 := @body_not_inflight s.phase
  have d2 := @preConn_not_inflight s.phase
  have d3 := @preConn_not_body s.phase
  have d4 := @preConn_cases s.phase
  simp only [evGuard, Bool.and_eq_true, beq_iff_eq, Bool.not_eq_true', Bool.or_eq_true, bne_iff_ne, ne_eq] at hg
  obtain ⟨b1, b2, b3, b4, b5, b6, b7⟩ := H1 hs
  clear H1 H2 H3
  simp only [evApply, hs]
  inv_stack hs

set_option maxHeartbeats 800000 in
theorem inv_ev_attemptFails_h2 (cfg : Cfg) (s : St) (hi : Inv cfg s) (hg : evGuard cfg s .attemptFails = true)
    (hs : cfg.stack = .h2) : Inv cfg (evApply cfg s .attemptFails) := by
  obtain ⟨a1, a2, a3, a4, a5, a6, a7, a8, H1, H2, H3⟩ := hi
  have d1 := @body_not_inflight s.phase
  have d2 := @preConn_not_inflight s.phase
  have d3 := @preConn_not_body s.phase
  have d4 := @preConn_cases s.phase
  simp only [evGuard, Bool.and_eq_true, beq_iff_eq, Bool.not_eq_true', Bool.or_eq_true, bne_iff_ne, ne_eq] at hg
  obtain ⟨b1, b2, b3, b4, b5, b6, b7, b8⟩ := H2 hs
  clear H1 H2 H3
  simp only [evApply, hs]
  inv_stack hs

set_option maxHeartbeats 800000 in
theorem inv_ev_attemptFails_h3 (cfg : Cfg) (s : St) (hi : Inv cfg s) (hg : evGuard cfg s .attemptFails = true)
    (hs : cfg.stack = .h3) : Inv cfg (evApply cfg s .attemptFails) := by
  obtain ⟨a1, a2, a3, a4, a5, a6, a7, a8, H1, H2, H3⟩ := hi
  have d1 := @body_not_inflight s.phase
  have d2 := @preConn_not_inflight s.phase
  have d3 := @preConn_not_body s.phase
  have d4 := @preConn_cases s.phase
  simp only [evGuard, Bool.and_eq_true, beq_iff_eq, Bool.not_eq_true', Bool.or_eq_true, bne_iff_ne, ne_eq] at hg
  obtain ⟨b1, b2, b3, b4, b5, b6, b7, b8⟩ := H3 hs
  clear H1 H2 H3
  simp only [evApply, hs]
  inv_stack hs

theorem inv_ev_attemptFails (cfg : Cfg) (s : St) (hi : Inv cfg s) (hg : evGuard cfg s .attemptFails = true) :
    Inv cfg (evApply cfg s .attemptFails) := by
  rcases stack_cases cfg.stack with hs | hs | hs
  · exact inv_ev_attemptFails_h1 cfg s hi hg hs
  · exact inv_ev_attemptFails_h2 cfg s hi hg hs
  · exact inv_ev_attemptFails_h3 cfg s hi hg hs

set_option maxHeartbeats 800000 in
theorem inv_ev_sleepElapse_h1 (cfg : Cfg) (s : St) (hi : Inv cfg s) (hg : evGuard cfg s .sleepElapse = true)
    (hs : cfg.stack = .h1) : Inv cfg (evApply cfg s .sleepElapse) := by
  obtain ⟨a1, a2, a3, a4, a5, a6, a7, a8, H1, H2, H3⟩ := hi
  have d1 := @body_not_inflight s.phase
  have d2 := @preConn_not_inflight s.phase
  have d3 := @preConn_not_body s.phase
  have d4 := @preConn_cases s.phase
  simp only [evGuard, Bool.and_eq_true, beq_iff_eq, Bool.not_eq_true', Bool.or_eq_true, bne_iff_ne, ne_eq] at hg
  obtain ⟨b1, b2, b3, b4, b5, b6, b7⟩ := H1 hs
  clear H1 H2 H3
  simp only [Res.released, Bool.and_eq_true, Bool.not_eq_true', bne_iff_ne, ne_eq] at hg
  cases hc : s.ctx
  · simp only [evApply, hc, freshRes]
    inv_stack hs
  · simp only [evApply, hc, freshRes]
    inv_stack hs

set_option maxHeartbeats 800000 in
theorem inv_ev_sleepElapse_h2 (cfg : Cfg) (s : St) (hi : Inv cfg s) (hg : evGuard cfg s .sleepElapse = true)
    (hs : cfg.stack = .h2) : Inv cfg (evApply cfg s .sleepElapse) := by
  obtain ⟨a1, a2, a3, a4, a5, a6, a7, a8, H1, H2, H3⟩ := hi
  have d1 := @body_not_inflight s.phase
  have d2 := @preConn_not_inflight s.phase
  have d3 := @preConn_not_body s.phase
  have d4 := @preConn_cases s.phase
  simp only [evGuard, Bool.and_eq_true, beq_iff_eq, Bool.not_eq_true', Bool.or_eq_true, bne_iff_ne, ne_eq] at hg
  obtain ⟨b1, b2, b3, b4, b5, b6, b7, b8⟩ := H2 hs
  clear H1 H2 H3
  simp only [Res.released, Bool.and_eq_true, Bool.not_eq_true', bne_iff_ne, ne_eq] at hg
  cases hc : s.ctx
  · simp only [evApply, hc, freshRes]
    inv_stack hs
  · simp only [evApply, hc, freshRes]
    inv_stack hs

set_option maxHeartbeats 800000 in
theorem inv_ev_sleepElapse_h3 (cfg : Cfg) (s : St) (hi : Inv cfg s) (hg : evGuard cfg s .sleepElapse = true)
    (hs : cfg.stack = .h3) : Inv cfg (evApply cfg s .sleepElapse) := by
  obtain ⟨a1, a2, a3, a4, a5, a6, a7, a8, H1, H2, H3⟩ := hi
  have d1 := @body_not_inflight s.phase
  have d2 := @preConn_not_inflight s.phase
  have d3 := @preConn_not_body s.phase
  have d4 := @preConn_cases s.phase
  simp only [evGuard, Bool.and_eq_true, beq_iff_eq, Bool.not_eq_true', Bool.or_eq_true, bne_iff_ne, ne_eq] at hg
  obtain ⟨b1, b2, b3, b4, b5, b6, b7, b8⟩ := H3 hs
  clear H1 H2 H3
  simp only [Res.released, Bool.and_eq_true, Bool.not_eq_true', bne_iff_ne, ne_eq] at hg
  cases hc : s.ctx
  · simp only [evApply, hc, freshRes]
    inv_stack hs
  · simp only [evApply, hc, freshRes]
    inv_stack hs

theorem inv_ev_sleepElapse (cfg : Cfg) (s : St) (hi : Inv cfg s) (hg : evGuard cfg s .sleepElapse = true) :
    Inv cfg (evApply cfg s .sleepElapse) := by
  rcases stack_cases cfg.stack with hs | hs | hs
  · exact inv_ev_sleepElapse_h1 cfg s hi hg hs
  · exact inv_ev_sleepElapse_h2 cfg s hi hg hs
  · exact inv_ev_sleepElapse_h3 cfg s hi hg hs

theorem inv_ev (cfg : Cfg) (s : St) (e : Ev) (hi : Inv cfg s) (hg : evGuard cfg s e = true) :
    Inv cfg (evApply cfg s e) := by
  cases e
  case cancel e => exact inv_ev_cancel cfg s e hi hg
  case connIdle => exact inv_ev_connIdle cfg s hi hg
  case dialStart => exact inv_ev_dialStart cfg s hi hg
  case dialDone => exact inv_ev_dialDone cfg s hi hg
  case hsDone => exact inv_ev_hsDone cfg s hi hg
  case wrote => exact inv_ev_wrote cfg s hi hg
  case gotHeaders => exact inv_ev_gotHeaders cfg s hi hg
  case gotBody => exact inv_ev_gotBody cfg s hi hg
  case attemptFails => exact inv_ev_attemptFails cfg s hi hg
  case sleepElapse => exact inv_ev_sleepElapse cfg s hi hg

end Req.Cancel
