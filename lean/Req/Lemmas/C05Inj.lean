import Req.H2.WriteOps
import Req.Lemmas.C05H2
/-!
Lemmas for `write_injective` / `every_write_read_back` (Req.Props.C05Inj): every `Framer.Write*`
call writes `header(length, type, flags, stream) ++ payload`, and (type, flags, stream, payload)
determine the arguments.
-/
namespace Req.Lemmas.C05.Inj
open Req.Proto Req.H2.Frame Req.Lemmas.C05.H2

attribute [local simp] tData tHeaders tPriority tRSTStream tSettings tPushPromise tPing tGoAway
  tWindowUpdate tContinuation flagEndStream flagAck flagEndHeaders flagPadded flagPriority two24 two31

theorem frameBytes_ok (t f s : Nat) (payload : Bytes) (h : payload.length < two24) :
    frameBytes t f s payload = .ok (headerBytes payload.length t f s ++ payload) := by
  simp only [frameBytes]; rw [if_neg (by omega)]

theorem pushPromisePayload_length_le (p : PushPromiseParam) :
    (pushPromisePayload p).length ≤ 1 + 4 + p.blockFragment.length + p.padLength := by
  unfold pushPromisePayload
  simp only [List.length_append, List.length_replicate]
  have h1 : (if (p.padLength != 0) = true then [u8 p.padLength] else []).length ≤ 1 := by
    split <;> simp
  have h2 : (be32 p.promiseID).length = 4 := by simp [be32]
  omega

/-- what every writer puts on the wire, and the ranges of the four parts. -/
theorem write_parts (a : WOp) (h : a.Wf) :
    a.write = .ok (headerBytes a.payload.length a.typ a.flags a.sid ++ a.payload) ∧
      a.payload.length < two24 ∧ a.typ < 256 ∧ a.flags < 256 ∧ a.sid < two31 := by
  cases a with
  | data sid es d pad =>
    obtain ⟨hs, hp⟩ := h
    cases pad with
    | none =>
      simp only at hp
      have hl : (WOp.data sid es d none).payload.length < two24 := by
        simp only [two24] at hp
        simp [WOp.payload]; omega
      refine ⟨?_, hl, by simp [WOp.typ], by cases es <;> simp [WOp.flags, b2n], hs.2⟩
      rw [← frameBytes_ok _ _ _ _ hl]
      simp [WOp.write, writeData, validStreamID_of sid hs, WOp.payload, WOp.typ, WOp.flags, WOp.sid, b2n]
    | some p =>
      obtain ⟨hp1, hp2, hp3⟩ := hp
      have hany : p.any (· != 0) = false := by
        simp only [List.any_eq_false, List.all_eq_true] at *
        intro x hx; have := hp2 x hx; simp_all
      have hl : (WOp.data sid es d (some p)).payload.length < two24 := by
        simp only [two24] at hp3
        simp [WOp.payload]; omega
      refine ⟨?_, hl, by simp [WOp.typ], by cases es <;> simp [WOp.flags, b2n], hs.2⟩
      rw [← frameBytes_ok _ _ _ _ hl]
      have : ¬ p.length > 255 := by omega
      simp [WOp.write, writeData, validStreamID_of sid hs, this, hany, WOp.payload, WOp.typ, WOp.flags,
        WOp.sid, b2n]
  | headers p =>
    have hw := Req.Lemmas.C05.H2.headersPayload_length_le p h.2.2.1
    obtain ⟨hs, hpl, hpr, hlen⟩ := h
    have hl : (headersPayload p).length < two24 := by simp only [two24] at hlen ⊢; omega
    refine ⟨?_, hl, by simp [WOp.typ], (headersFlags_bits p).1, hs.2⟩
    show writeHeaders false p = _
    rw [show (WOp.headers p).payload = headersPayload p from rfl,
      show (WOp.headers p).flags = headersFlags p from rfl]
    rw [← frameBytes_ok _ _ _ _ hl]
    have hd : validStreamIDOrZero p.priority.streamDep = true := by
      have := hpr.1; simp [validStreamIDOrZero] at *; omega
    simp [writeHeaders, validStreamID_of _ hs, hd, headersFlags, headersPayload, WOp.typ, WOp.sid]
  | priority sid p =>
    obtain ⟨hs, hpr⟩ := h
    have hl : (prioBytes p).length < two24 := by simp [prioBytes, be32]
    refine ⟨?_, hl, by simp [WOp.typ], by simp [WOp.flags], hs.2⟩
    show writePriority false sid p = _
    rw [show (WOp.priority sid p).payload = prioBytes p from rfl]
    rw [← frameBytes_ok _ _ _ _ hl]
    have hd : validStreamIDOrZero p.streamDep = true := by
      have := hpr.1; simp [validStreamIDOrZero] at *; omega
    simp [writePriority, validStreamID_of _ hs, hd, WOp.typ, WOp.sid, WOp.flags]
  | rstStream sid c =>
    obtain ⟨hs, hc⟩ := h
    have hl : (be32 c).length < two24 := by simp [be32]
    refine ⟨?_, hl, by simp [WOp.typ], by simp [WOp.flags], hs.2⟩
    show writeRSTStream false sid c = _
    rw [show (WOp.rstStream sid c).payload = be32 c from rfl, ← frameBytes_ok _ _ _ _ hl]
    simp [writeRSTStream, validStreamID_of _ hs, WOp.typ, WOp.sid, WOp.flags]
  | settings ss =>
    obtain ⟨_, hsz, _⟩ := h
    have hl : (encodeSettings ss).length < two24 := by rw [encodeSettings_length]; exact hsz
    refine ⟨?_, hl, by simp [WOp.typ], by simp [WOp.flags], by simp [WOp.sid]⟩
    show writeSettings ss = _
    rw [show (WOp.settings ss).payload = encodeSettings ss from rfl, ← frameBytes_ok _ _ _ _ hl]
    simp [writeSettings, WOp.typ, WOp.sid, WOp.flags]
  | settingsAck =>
    refine ⟨?_, by simp [WOp.payload], by simp [WOp.typ], by simp [WOp.flags], by simp [WOp.sid]⟩
    simp [WOp.write, writeSettingsAck, frameBytes, WOp.payload, WOp.typ, WOp.flags, WOp.sid]
  | pushPromise p =>
    have hw := pushPromisePayload_length_le p
    obtain ⟨hs, hpid, hpl, hlen⟩ := h
    have hl : (pushPromisePayload p).length < two24 := by simp only [two24] at hlen ⊢; omega
    have fb : pushPromiseFlags p < 256 := by
      unfold pushPromiseFlags
      cases (p.padLength != 0) <;> cases p.endHeaders <;> decide
    refine ⟨?_, hl, by simp [WOp.typ], fb, hs.2⟩
    show writePushPromise false p = _
    rw [show (WOp.pushPromise p).payload = pushPromisePayload p from rfl,
      show (WOp.pushPromise p).flags = pushPromiseFlags p from rfl, ← frameBytes_ok _ _ _ _ hl]
    simp [writePushPromise, validStreamID_of _ hs, validStreamID_of _ hpid, pushPromiseFlags,
      pushPromisePayload, WOp.typ, WOp.sid]
  | ping ack d =>
    have hd : d.length = 8 := h
    have hl : d.length < two24 := by simp [hd]
    refine ⟨?_, hl, by simp [WOp.typ], by cases ack <;> simp [WOp.flags, b2n], by simp [WOp.sid]⟩
    show writePing ack d = _
    rw [show (WOp.ping ack d).payload = d from rfl, ← frameBytes_ok _ _ _ _ hl]
    simp [writePing, WOp.typ, WOp.sid, WOp.flags]
  | goAway m c d =>
    obtain ⟨hm, hc, hsz⟩ := h
    have hl : (be32 (m % two31) ++ be32 c ++ d).length < two24 := by
      simp only [two24] at hsz; simp [be32]; omega
    refine ⟨?_, hl, by simp [WOp.typ], by simp [WOp.flags], by simp [WOp.sid]⟩
    show writeGoAway m c d = _
    rw [show (WOp.goAway m c d).payload = be32 (m % two31) ++ be32 c ++ d from rfl,
      ← frameBytes_ok _ _ _ _ hl]
    simp [writeGoAway, WOp.typ, WOp.sid, WOp.flags]
  | windowUpdate sid i =>
    obtain ⟨hs, h1, h2⟩ := h
    have hl : (be32 i).length < two24 := by simp [be32]
    refine ⟨?_, hl, by simp [WOp.typ], by simp [WOp.flags], hs⟩
    show writeWindowUpdate false sid i = _
    rw [show (WOp.windowUpdate sid i).payload = be32 i from rfl, ← frameBytes_ok _ _ _ _ hl]
    have a1 : ¬ i < 1 := by omega
    have a2 : ¬ i > 2147483647 := by omega
    simp [writeWindowUpdate, a1, a2, WOp.typ, WOp.sid, WOp.flags]
  | continuation sid eh f =>
    obtain ⟨hs, hl⟩ := h
    refine ⟨?_, hl, by simp [WOp.typ], by cases eh <;> simp [WOp.flags, b2n], hs.2⟩
    show writeContinuation false sid eh f = _
    rw [show (WOp.continuation sid eh f).payload = f from rfl, ← frameBytes_ok _ _ _ _ hl]
    simp [writeContinuation, validStreamID_of _ hs, WOp.typ, WOp.sid, WOp.flags]
  | raw t fl sid p =>
    obtain ⟨_, ht, hf, hs, hl⟩ := h
    refine ⟨?_, hl, ht, hf, hs⟩
    show writeRawFrame t fl sid p = _
    rw [show (WOp.raw t fl sid p).payload = p from rfl, ← frameBytes_ok _ _ _ _ hl]
    rfl

/-! ### the four parts determine the frame on the wire, and conversely -/

theorem wire_inj (l t f s l' t' f' s' : Nat) (p p' : Bytes)
    (hl : l < two24) (ht : t < 256) (hf : f < 256) (hs : s < two31)
    (hl' : l' < two24) (ht' : t' < 256) (hf' : f' < 256) (hs' : s' < two31)
    (h : headerBytes l t f s ++ p = headerBytes l' t' f' s' ++ p') :
    l = l' ∧ t = t' ∧ f = f' ∧ s = s' ∧ p = p' := by
  have h1 := frameHeader_roundtrip l t f s p hl ht hf hs
  have h2 := frameHeader_roundtrip l' t' f' s' p' hl' ht' hf' hs'
  rw [h] at h1
  rw [h1] at h2
  simp only [Option.some.injEq, Prod.mk.injEq, FrameHeader.mk.injEq] at h2
  obtain ⟨⟨a, b, c, d⟩, e⟩ := h2
  exact ⟨a, b, c, d, e⟩

/-! ### the parts determine the arguments -/

theorem be32_inj (a b : Nat) (ha : a < 4294967296) (hb : b < 4294967296) (h : be32 a = be32 b) :
    a = b := by
  have h1 := rd32_be32 a ha
  have h2 := rd32_be32 b hb
  simp only [be32, List.cons.injEq, and_true] at h
  obtain ⟨e1, e2, e3, e4⟩ := h
  rw [e1, e2, e3, e4] at h1
  omega

theorem u8_inj (a b : Nat) (ha : a < 256) (hb : b < 256) (h : u8 a = u8 b) : a = b := by
  have h1 := u8_toNat a
  have h2 := u8_toNat b
  rw [h] at h1
  omega

theorem prioBytes_inj (p q : Priority) (hp : WfPriority p) (hq : WfPriority q)
    (h : prioBytes p = prioBytes q) : p = q := by
  have h1 := takePrio_prioBytes p [] hp
  have h2 := takePrio_prioBytes q [] hq
  rw [h] at h1
  rw [h1] at h2
  simpa using h2

theorem prioBytes_length (p : Priority) : (prioBytes p).length = 5 := by simp [prioBytes, be32]

theorem encodeSettings_inj (a b : List (Nat × Nat))
    (ha : ∀ s ∈ a, s.1 < 65536 ∧ s.2 < 4294967296) (hb : ∀ s ∈ b, s.1 < 65536 ∧ s.2 < 4294967296)
    (h : encodeSettings a = encodeSettings b) : a = b := by
  rw [← decode_encodeSettings a ha, ← decode_encodeSettings b hb, h]

theorem zeros_eq (p q : Bytes) (hp : p.all (· == 0) = true) (hq : q.all (· == 0) = true)
    (hl : p.length = q.length) : p = q := by
  induction p generalizing q with
  | nil => cases q <;> simp_all
  | cons x xs ih =>
    cases q with
    | nil => simp at hl
    | cons y ys =>
      simp only [List.all_cons, Bool.and_eq_true, beq_iff_eq] at hp hq
      simp only [List.length_cons, Nat.add_right_cancel_iff] at hl
      rw [hp.1, hq.1, ih ys hp.2 hq.2 hl]

theorem b2n_flags2 (a b a' b' : Bool) (x y : Nat) (hx : 0 < x) (hxy : x < y)
    (h : b2n a x + b2n b y = b2n a' x + b2n b' y) : a = a' ∧ b = b' := by
  cases a <;> cases b <;> cases a' <;> cases b' <;> simp [b2n] at h ⊢ <;> omega

theorem headersFlags_inj (p q : HeadersParam) (h : headersFlags p = headersFlags q) :
    (p.padLength != 0) = (q.padLength != 0) ∧ p.endStream = q.endStream ∧
      p.endHeaders = q.endHeaders ∧ p.priority.isZero = q.priority.isZero := by
  obtain ⟨sid, frag, es, eh, pl, pr⟩ := p
  obtain ⟨sid', frag', es', eh', pl', pr'⟩ := q
  unfold headersFlags at h
  simp only at h ⊢
  generalize (pl != 0) = a at *
  generalize (pl' != 0) = a' at *
  generalize pr.isZero = z at *
  generalize pr'.isZero = z' at *
  cases a <;> cases a' <;> cases es <;> cases es' <;> cases eh <;> cases eh' <;> cases z <;> cases z' <;>
    simp [b2n] at h ⊢

theorem pushPromiseFlags_inj (p q : PushPromiseParam) (h : pushPromiseFlags p = pushPromiseFlags q) :
    (p.padLength != 0) = (q.padLength != 0) ∧ p.endHeaders = q.endHeaders := by
  obtain ⟨sid, pid, frag, eh, pl⟩ := p
  obtain ⟨sid', pid', frag', eh', pl'⟩ := q
  unfold pushPromiseFlags at h
  simp only at h ⊢
  generalize (pl != 0) = a at *
  generalize (pl' != 0) = a' at *
  cases a <;> cases a' <;> cases eh <;> cases eh' <;> simp [b2n] at h ⊢

theorem append_replicate_inj (a b : Bytes) (n : Nat) (h : a ++ List.replicate n (0 : UInt8) = b ++ List.replicate n 0) :
    a = b := List.append_cancel_right h

theorem headers_args_inj (p q : HeadersParam) (hp : WfHeaders p) (hq : WfHeaders q)
    (hf : headersFlags p = headersFlags q) (hs : p.streamID = q.streamID)
    (hpay : headersPayload p = headersPayload q) : p = q := by
  obtain ⟨f1, f2, f3, f4⟩ := headersFlags_inj p q hf
  obtain ⟨sid, frag, es, eh, pl, pr⟩ := p
  obtain ⟨sid', frag', es', eh', pl', pr'⟩ := q
  simp only at f1 f2 f3 f4 hs
  subst hs f2 f3
  obtain ⟨_, hpl, hpr, _⟩ := hp
  obtain ⟨_, hpl', hpr', _⟩ := hq
  simp only at hpl hpl' hpr hpr'
  unfold headersPayload at hpay
  simp only at hpay
  -- priority part
  have hprio : pr = pr' ∧ ((if (pl != 0) = true then [u8 pl] else []) ++ frag ++ List.replicate pl 0 =
      (if (pl' != 0) = true then [u8 pl'] else []) ++ frag' ++ List.replicate pl' 0) := by
    cases hz : pr.isZero
    · have hz' : pr'.isZero = false := by rw [← f4, hz]
      simp only [hz, hz', Bool.not_false, ↓reduceIte, List.append_assoc] at hpay
      by_cases h0 : pl = 0
      · have h0' : pl' = 0 := by
          have : (pl != 0) = false := by simp [h0]
          rw [this] at f1; simpa using f1.symm
        subst h0 h0'
        simp only [bne_self_eq_false, Bool.false_eq_true, ↓reduceIte, List.nil_append,
          List.replicate_zero, List.append_nil] at hpay ⊢
        have hl := List.append_inj hpay (by rw [prioBytes_length, prioBytes_length])
        exact ⟨prioBytes_inj _ _ hpr hpr' hl.1, hl.2⟩
      · have h0' : pl' ≠ 0 := by
          have : (pl != 0) = true := by simp [h0]
          rw [this] at f1; simpa using f1.symm
        have e1 : (pl != 0) = true := by simp [h0]
        have e2 : (pl' != 0) = true := by simp [h0']
        simp only [e1, e2, ↓reduceIte, List.cons_append, List.nil_append, List.cons.injEq] at hpay ⊢
        obtain ⟨hu, hrest⟩ := hpay
        have hl := List.append_inj hrest (by rw [prioBytes_length, prioBytes_length])
        exact ⟨prioBytes_inj _ _ hpr hpr' hl.1, by rw [hu]; simp [hl.2]⟩
    · have hz' : pr'.isZero = true := by rw [← f4, hz]
      simp only [hz, hz', Bool.not_true, Bool.false_eq_true, ↓reduceIte, List.append_nil] at hpay
      exact ⟨by rw [isZero_eq pr hz, isZero_eq pr' hz'], hpay⟩
  obtain ⟨hpr_eq, hrest⟩ := hprio
  subst hpr_eq
  -- padding part
  by_cases h0 : pl = 0
  · have h0' : pl' = 0 := by
      have : (pl != 0) = false := by simp [h0]
      rw [this] at f1; simpa using f1.symm
    subst h0 h0'
    simp only [bne_self_eq_false, Bool.false_eq_true, ↓reduceIte, List.nil_append,
      List.replicate_zero, List.append_nil] at hrest
    subst hrest; rfl
  · have h0' : pl' ≠ 0 := by
      have : (pl != 0) = true := by simp [h0]
      rw [this] at f1; simpa using f1.symm
    have e1 : (pl != 0) = true := by simp [h0]
    have e2 : (pl' != 0) = true := by simp [h0']
    simp only [e1, e2, ↓reduceIte, List.cons_append, List.nil_append, List.cons.injEq] at hrest
    obtain ⟨hu, hrest⟩ := hrest
    have hpe : pl = pl' := u8_inj pl pl' hpl hpl' hu
    subst hpe
    have := append_replicate_inj _ _ _ hrest
    subst this; rfl

theorem pushPromise_args_inj (p q : PushPromiseParam) (hp : WfPushPromise p) (hq : WfPushPromise q)
    (hf : pushPromiseFlags p = pushPromiseFlags q) (hs : p.streamID = q.streamID)
    (hpay : pushPromisePayload p = pushPromisePayload q) : p = q := by
  obtain ⟨f1, f2⟩ := pushPromiseFlags_inj p q hf
  obtain ⟨sid, pid, frag, eh, pl⟩ := p
  obtain ⟨sid', pid', frag', eh', pl'⟩ := q
  simp only at f1 f2 hs
  subst hs f2
  obtain ⟨_, hpid, hpl, _⟩ := hp
  obtain ⟨_, hpid', hpl', _⟩ := hq
  simp only at hpl hpl' hpid hpid'
  have b1 : pid < 4294967296 := by have := hpid.2; simp only [two31] at this; omega
  have b2 : pid' < 4294967296 := by have := hpid'.2; simp only [two31] at this; omega
  unfold pushPromisePayload at hpay
  simp only at hpay
  have h4 : (be32 pid).length = (be32 pid').length := by simp [be32]
  by_cases h0 : pl = 0
  · have h0' : pl' = 0 := by
      have : (pl != 0) = false := by simp [h0]
      rw [this] at f1; simpa using f1.symm
    subst h0 h0'
    simp only [bne_self_eq_false, Bool.false_eq_true, ↓reduceIte, List.nil_append,
      List.replicate_zero, List.append_nil] at hpay
    have hl := List.append_inj hpay h4
    have := be32_inj _ _ b1 b2 hl.1
    subst this
    have := hl.2
    subst this; rfl
  · have h0' : pl' ≠ 0 := by
      have : (pl != 0) = true := by simp [h0]
      rw [this] at f1; simpa using f1.symm
    have e1 : (pl != 0) = true := by simp [h0]
    have e2 : (pl' != 0) = true := by simp [h0']
    simp only [e1, e2, ↓reduceIte, List.cons_append, List.nil_append, List.cons.injEq,
      List.append_assoc] at hpay
    obtain ⟨hu, hrest⟩ := hpay
    have hpe : pl = pl' := u8_inj pl pl' hpl hpl' hu
    subst hpe
    have hl := List.append_inj hrest h4
    have := be32_inj _ _ b1 b2 hl.1
    subst this
    have := append_replicate_inj _ _ _ hl.2
    subst this; rfl

theorem data_args_inj (sid sid' : Nat) (es es' : Bool) (d d' : Bytes) (pad pad' : Option Bytes)
    (hw : WfData sid d pad) (hw' : WfData sid' d' pad')
    (hf : (WOp.data sid es d pad).flags = (WOp.data sid' es' d' pad').flags) (hs : sid = sid')
    (hp : (WOp.data sid es d pad).payload = (WOp.data sid' es' d' pad').payload) :
    WOp.data sid es d pad = WOp.data sid' es' d' pad' := by
  subst hs
  simp only [WOp.flags] at hf
  obtain ⟨e1, e2⟩ := b2n_flags2 _ _ _ _ flagEndStream flagPadded (by decide) (by decide) hf
  subst e1
  cases pad with
  | none =>
    cases pad' with
    | none => simp [WOp.payload] at hp; subst hp; rfl
    | some q => simp at e2
  | some q =>
    cases pad' with
    | none => simp at e2
    | some q' =>
      obtain ⟨_, h1, h2, _⟩ := hw
      obtain ⟨_, h1', h2', _⟩ := hw'
      simp only [WOp.payload, Option.isSome_some, ↓reduceIte, Option.getD_some, List.cons_append,
        List.nil_append, List.cons.injEq] at hp
      obtain ⟨hu, hrest⟩ := hp
      have hl : q.length = q'.length := u8_inj _ _ (by omega) (by omega) hu
      have := List.append_inj' hrest hl
      obtain ⟨a, b⟩ := this
      subst a b; rfl

end Req.Lemmas.C05.Inj
