import Req.Pool.H2Mux
import Req.Lemmas.C09H2Inv
/-! Step-level facts about admission and wake-ups of the HTTP/2 demultiplexer model. -/
namespace Req.Lemmas.C09H2Slots
open Req.Pool.H2Mux Req.Lemmas.C09H2Rel Req.Lemmas.C09H2Core Req.Lemmas.C09H2Inv

/-- `awaitOpenSlotForStreamLocked` + `addStreamLocked`: the table grows only when the connection
is usable and below the peer's limit. -/
theorem slotLoop_admits (cfg : Cfg) (s : St) (k : Caller)
    (h : (slotLoop cfg s k).streams.length > s.streams.length) :
    s.closed = false ∧ canTake cfg s = true ∧ s.streams.length < s.maxConc ∧
      (slotLoop cfg s k).streams = (s.nextId, k) :: s.streams := by
  unfold slotLoop at h ⊢
  split at h
  · simp [exitWith, setCS] at h
  · next hc =>
    split at h
    · next hl =>
      rw [if_neg hc, if_pos hl]
      refine ⟨?_, ?_, hl, rfl⟩
      · cases hcl : s.closed with
        | false => rfl
        | true => exact absurd (Or.inl hcl) hc
      · cases hct : canTake cfg s with
        | true => rfl
        | false => exact absurd (Or.inr hct) hc
    · simp [setCS] at h

theorem streams_of_core {s t : St} (h : core t = core s) : t.streams = s.streams := by
  have := congrArg Core.streams h; simpa [core] using this

/-- Every op other than the two that run `awaitOpenSlotForStreamLocked` leaves the table as it is
or shrinks it. -/
theorem step_no_growth (cfg : Cfg) (s : St) (op : Op)
    (hop : (∀ k, op ≠ .openSlot k) ∧ (∀ k, op ≠ .wake k)) :
    (step cfg s op).1.streams.length ≤ s.streams.length := by
  have hc := step_core cfg s op
  have hs : (step cfg s op).1.streams = (core (step cfg s op).1).streams := rfl
  rw [hs]
  -- which abstract transitions can each op make
  cases op with
  | openSlot k => exact absurd rfl (hop.1 k)
  | wake k => exact absurd rfl (hop.2 k)
  | forget k =>
    simp only [step]
    split
    · exact Nat.le_refl _
    · try dsimp only
      repeat' split
      all_goals first
        | exact Nat.le_refl _
        | (simp only [core, setCS, broadcast]; exact List.length_filter_le _ _)
  | rlProcess =>
    simp only [step]
    split
    · exact Nat.le_refl _
    · next f tgt _ =>
      have := (rel_process { s with rl := none } f tgt).streams
      simp only [core, this]; exact Nat.le_refl _
  | reserve k => simp only [step]; repeat' split
                 all_goals (simp [core, setCS])
  | begin k a b => simp only [step]; repeat' split
                   all_goals (simp [core, setCS])
  | acquire k => simp only [step]; repeat' split
                 all_goals (simp [core, setCS])
  | writeHeaders k => simp only [step]; repeat' split
                      all_goals (simp [core, setCS, exitWith])
  | wakeUpload k => simp only [step]; repeat' split
                    all_goals (simp [core, setCS])
  | finishWrite k => simp only [step]; repeat' split
                     all_goals (simp [core, setCS, exitWith])
  | retire k =>
    simp only [step]
    split
    · exact Nat.le_refl _
    · try dsimp only
      repeat' split
      all_goals (simp [core, setCS, abortLocked, broadcast, decrReserved])
  | cancel k => simp only [step]; repeat' split
                all_goals (simp [core, setCS, broadcast])
  | rtSee k => simp only [step]; repeat' split
               all_goals (simp [core, setCS])
  | rtReturn k => simp only [step]; repeat' split
                  all_goals (simp [core, setCS, abortLocked, broadcast])
  | closeBody k => simp only [step]; repeat' split
                   all_goals (simp [core, setCS, abortLocked, broadcast])
  | idleTimeout => simp only [step]; repeat' split
                   all_goals (simp [core])
  | rlRead f => simp only [step]; repeat' split
                all_goals (simp [core])

end Req.Lemmas.C09H2Slots
