import Req.H3.Rfc9114
/-! Helper lemmas and proofs for `h3_fields_accept_iff` / `h3_trailers_accept_iff` (C05): the
executable checks of the parser model against the declarative RFC 9114 predicates, via an abstraction
of the parser state to what accept/reject depends on. -/
set_option linter.unusedSimpArgs false
set_option linter.unusedVariables false
namespace Req.Lemmas.C05.Fields
open Req.H3.Fields Req.Proto Req.Ascii Req.H3.Rfc9114

/-! ### bridging the executable checks and the declarative ones -/

theorem isPseudo_iff (f : Field) : f.isPseudo = true ↔ IsPseudo f := by
  unfold Field.isPseudo IsPseudo
  cases hn : f.name with
  | nil => simp
  | cons c tl =>
    simp only [beq_iff_eq, List.cons.injEq]
    constructor
    · intro h; exact ⟨tl, h, rfl⟩
    · rintro ⟨tl', h, _⟩; exact h

theorem hasUpper_iff (n : Bytes) : hasUpper n = false ↔ LowercaseName n := by
  simp [hasUpper, LowercaseName, isUpper]

theorem validValue_iff (v : Bytes) : validValue v = true ↔ ValidFieldValue v := by
  simp only [validValue, ValidFieldValue, List.all_eq_true, Bool.or_eq_true, Bool.not_eq_true',
    Bool.or_eq_false_iff, decide_eq_false_iff_not, beq_iff_eq, decide_eq_true_eq]
  constructor
  · intro h b hb hc
    rcases h b hb with ⟨h1, h2⟩ | h3
    · rcases hc with hc | hc
      · exact absurd hc h1
      · exact absurd hc (by simpa using h2)
    · exact h3
  · intro h b hb
    by_cases hc : b < 32 ∨ b = 127
    · right; exact h b hb hc
    · left
      simp only [not_or] at hc
      exact ⟨hc.1, by simpa using hc.2⟩

theorem validName_iff (n : Bytes) : validName n = true ↔ IsToken n := by
  simp only [validName, IsToken, Bool.and_eq_true, Bool.not_eq_true', List.all_eq_true]
  constructor
  · rintro ⟨h1, h2⟩; exact ⟨by intro hn; simp [hn] at h1, h2⟩
  · rintro ⟨h1, h2⟩; exact ⟨by cases n <;> simp_all, h2⟩

theorem connection_iff (n : Bytes) : invalidHeaderFields.contains n = true ↔ ConnectionSpecific n := by
  simp [invalidHeaderFields, ConnectionSpecific]

theorem isStatus3_iff (v : Bytes) : isStatus3 v = true ↔ StatusOK v := by
  unfold isStatus3 StatusOK
  split
  · next a b c =>
    simp [isDigit]
    constructor
    · rintro ⟨⟨h1, h2⟩, h3⟩; exact ⟨h1, h2, h3⟩
    · rintro ⟨h1, h2, h3⟩; exact ⟨⟨h1, h2⟩, h3⟩
  · next hne =>
    simp only [Bool.false_eq_true, false_iff, not_and]
    intro hl
    exfalso
    match v, hl with
    | [a, b, c], _ => exact hne a b c rfl

/-- the executable form of `RegularOK` (the checks `step`/`checkRegular` perform). -/
def regularOKb (f : Field) : Bool :=
  !hasUpper f.name && validValue f.value && validName f.name && !invalidHeaderFields.contains f.name
    && !(f.name == sTe && f.value != sTrailers)

theorem regularOKb_iff (f : Field) : regularOKb f = true ↔ RegularOK f := by
  unfold regularOKb RegularOK
  simp only [Bool.and_eq_true, Bool.not_eq_true', ← hasUpper_iff, ← validValue_iff, ← validName_iff,
    ← connection_iff, Bool.and_eq_false_iff, beq_eq_false_iff_ne, bne_eq_false_iff_eq,
    Bool.not_eq_true]
  constructor
  · rintro ⟨⟨⟨⟨h1, h2⟩, h3⟩, h4⟩, h5⟩
    refine ⟨h1, h3, h2, h4, ?_⟩
    intro hte
    rcases h5 with h5 | h5
    · exact absurd hte h5
    · exact h5
  · rintro ⟨h1, h3, h2, h4, h5⟩
    refine ⟨⟨⟨⟨h1, h2⟩, h3⟩, h4⟩, ?_⟩
    by_cases hte : f.name = sTe
    · right; exact h5 hte
    · left; exact hte

/-! ### the accept/reject-relevant part of the parser state -/

structure A where
  reg : Bool           -- a regular field was read
  cl : Option Bytes    -- the first content-length value, if any
  st : Bool            -- a (non-empty) :status was read
  deriving DecidableEq

def abs (a : Acc) : A :=
  ⟨a.readFirstRegular, if a.readContentLength then some a.contentLengthStr else none,
   !a.hdr.status.isEmpty⟩

def astep (σ : A) (f : Field) : Option A :=
  if f.isPseudo then
    if !σ.reg && f.name == pStatus && isStatus3 f.value then some { σ with st := true } else none
  else if regularOKb f then
    if f.name == sContentLength then
      match σ.cl with
      | none => some { reg := true, cl := some f.value, st := σ.st }
      | some c => if c == f.value then some { σ with reg := true } else none
    else some { σ with reg := true }
  else none

def okAbs : Except Err Acc → Option A
  | .ok a => some (abs a)
  | .error _ => none

theorem status3_props (v : Bytes) (h : isStatus3 v = true) : validValue v = true ∧ v.isEmpty = false := by
  unfold isStatus3 at h
  split at h
  · next a b c =>
    simp only [Bool.and_eq_true, isDigit, decide_eq_true_eq] at h
    obtain ⟨⟨⟨a1, a2⟩, b1, b2⟩, c1, c2⟩ := h
    refine ⟨?_, rfl⟩
    have key : ∀ x : UInt8, 48 ≤ x → x ≤ 57 → (!(decide (x < 32) || x == 127) || x == 9) = true := by
      intro x h1 h2
      rw [UInt8.le_iff_toNat_le] at h1 h2
      have h32 : ¬ x < 32 := by rw [UInt8.lt_iff_toNat_lt]; simp at *; omega
      have h127 : (x == 127) = false := by
        rw [beq_eq_false_iff_ne]; intro he; subst he; simp at h2
      simp [h32, h127]
    simp only [validValue, List.all_cons, List.all_nil, Bool.and_true, Bool.and_eq_true]
    exact ⟨key a a1 a2, key b b1 b2, key c c1 c2⟩
  · cases h

theorem pseudoSet_status (h : Header) (f : Field) (hs : f.name = pStatus) (h3 : isStatus3 f.value = true) :
    pseudoSet h f = .ok ({ h with status := f.value }, true) := by
  have e1 : (pStatus == pPath) = false := by decide
  have e2 : (pStatus == pMethod) = false := by decide
  have e3 : (pStatus == pAuthority) = false := by decide
  have e4 : (pStatus == pProtocol) = false := by decide
  have e5 : (pStatus == pScheme) = false := by decide
  simp [pseudoSet, hs, h3, e1, e2, e3, e4, e5]

/-- every other outcome of the name switch is an error or a request pseudo-header -/
theorem pseudoSet_other (h : Header) (f : Field)
    (hn : ¬ (f.name = pStatus ∧ isStatus3 f.value = true)) :
    (∃ e, pseudoSet h f = .error e) ∨ (∃ h', pseudoSet h f = .ok (h', false)) := by
  unfold pseudoSet
  split; · exact Or.inr ⟨_, rfl⟩
  split; · exact Or.inr ⟨_, rfl⟩
  split; · exact Or.inr ⟨_, rfl⟩
  split; · exact Or.inr ⟨_, rfl⟩
  split; · exact Or.inr ⟨_, rfl⟩
  split
  · next hs =>
    split
    · next h3 => exact absurd ⟨by simpa using hs, h3⟩ hn
    · exact Or.inl ⟨_, rfl⟩
  · exact Or.inl ⟨_, rfl⟩

theorem stepPseudo_abs (a : Acc) (f : Field) :
    okAbs (stepPseudo false a f) =
      if !a.readFirstRegular && f.name == pStatus && isStatus3 f.value then some { abs a with st := true }
      else none := by
  unfold stepPseudo
  by_cases hr : a.readFirstRegular = true
  · simp [hr, okAbs]
  · have hr' : a.readFirstRegular = false := by simpa using hr
    simp only [hr', Bool.false_eq_true, if_false, Bool.not_false, Bool.true_and]
    by_cases hc : f.name = pStatus ∧ isStatus3 f.value = true
    · rw [pseudoSet_status _ f hc.1 hc.2]
      have := (status3_props _ hc.2).2
      simp [okAbs, abs, hc.1, hc.2, hr', this]
    · have hcond : (f.name == pStatus && isStatus3 f.value) = false := by
        rw [Bool.and_eq_false_iff]
        by_cases hs : f.name = pStatus
        · right; simpa using fun h3 => hc ⟨hs, h3⟩
        · left; simpa using hs
      rw [hcond]
      rcases pseudoSet_other a.hdr f hc with ⟨e, he⟩ | ⟨h', he⟩
      · simp [he, okAbs]
      · simp [he, okAbs]

/-- `checkRegular` as a Boolean -/
def regB (f : Field) : Bool :=
  validName f.name && !invalidHeaderFields.contains f.name && !(f.name == sTe && f.value != sTrailers)

theorem checkRegular_cases (f : Field) :
    (regB f = true ∧ checkRegular f = .ok ()) ∨ (regB f = false ∧ ∃ e, checkRegular f = .error e) := by
  unfold checkRegular regB
  cases h1 : validName f.name <;> cases h2 : invalidHeaderFields.contains f.name <;>
    cases h3 : (f.name == sTe && f.value != sTrailers) <;> simp

theorem stepRegular_abs (a : Acc) (f : Field) :
    okAbs (stepRegular a f) =
      if regB f then
        (if f.name == sContentLength then
          match (abs a).cl with
          | none => some { reg := true, cl := some f.value, st := (abs a).st }
          | some c => if c == f.value then some { abs a with reg := true } else none
        else some { abs a with reg := true })
      else none := by
  unfold stepRegular
  rcases checkRegular_cases f with ⟨hb, hc⟩ | ⟨hb, e, hc⟩
  · rw [hc, hb]
    simp only [if_true]
    by_cases hcl : (f.name == sContentLength) = true
    · simp only [hcl, if_true]
      by_cases hr : a.readContentLength = true
      · simp only [hr, Bool.not_true, Bool.false_eq_true, if_false, abs, if_true]
        by_cases he : a.contentLengthStr = f.value
        · simp [he, okAbs, abs, hr]
        · have : (a.contentLengthStr != f.value) = true := by simpa using he
          simp [this, okAbs, he]
      · have hr' : a.readContentLength = false := by simpa using hr
        simp [hr', okAbs, abs]
    · have hcl' : (f.name == sContentLength) = false := by simpa using hcl
      simp [hcl', okAbs, abs]
  · rw [hc, hb]
    simp [okAbs]

/-- **the parser's loop body, seen through the abstraction, is `astep`** -/
theorem step_abs (a : Acc) (f : Field) : okAbs (step false a f) = astep (abs a) f := by
  unfold step astep
  by_cases hp : f.isPseudo = true
  · simp only [hp, if_true]
    by_cases hu : hasUpper f.name = true
    · -- an upper-case pseudo name is not ":status"
      have : (f.name == pStatus) = false := by
        rw [beq_eq_false_iff_ne]; intro he; rw [he] at hu; revert hu; decide
      simp [hu, okAbs, this]
    · have hu' : hasUpper f.name = false := by simpa using hu
      by_cases hv : validValue f.value = true
      · simp only [hu', hv, Bool.false_eq_true, if_false, Bool.not_true]
        rw [stepPseudo_abs]
        rfl
      · have hv' : validValue f.value = false := by simpa using hv
        have : isStatus3 f.value = false := by
          cases h3 : isStatus3 f.value with
          | false => rfl
          | true =>
            have := (status3_props _ h3).1
            rw [hv'] at this; cases this
        simp [hu', hv', okAbs, this]
  · have hp' : f.isPseudo = false := by simpa using hp
    simp only [hp', Bool.false_eq_true, if_false]
    by_cases hu : hasUpper f.name = true
    · simp [hu, okAbs, regularOKb]
    · have hu' : hasUpper f.name = false := by simpa using hu
      by_cases hv : validValue f.value = true
      · simp only [hu', hv, Bool.false_eq_true, if_false, Bool.not_true]
        rw [stepRegular_abs]
        simp only [regularOKb, regB, hu', hv, Bool.not_false, Bool.true_and, Bool.and_assoc]
      · have hv' : validValue f.value = false := by simpa using hv
        simp [hu', hv', okAbs, regularOKb]

def arun : A → List Field → Option A
  | σ, [] => some σ
  | σ, f :: fs =>
    match astep σ f with
    | none => none
    | some σ' => arun σ' fs

theorem loop_abs (a : Acc) (fs : List Field) : okAbs (loop false a fs) = arun (abs a) fs := by
  induction fs generalizing a with
  | nil => simp [loop, okAbs, arun]
  | cons f fs ih =>
    have hs := step_abs a f
    simp only [loop, arun]
    cases hstep : step false a f with
    | error e => rw [hstep] at hs; simp only [okAbs] at hs; rw [← hs]; simp [okAbs]
    | ok a' => rw [hstep] at hs; simp only [okAbs] at hs; rw [← hs]; exact ih a'

/-- `contentLengthStr` is only ever set together with `readContentLength` -/
def ClInv (a : Acc) : Prop := a.readContentLength = false → a.contentLengthStr = []

theorem step_inv (a a' : Acc) (f : Field) (h : step false a f = .ok a') (hi : ClInv a) : ClInv a' := by
  unfold step at h
  split at h; · cases h
  split at h; · cases h
  split at h
  · unfold stepPseudo at h
    split at h; · cases h
    split at h; · cases h
    split at h; · cases h
    cases h; exact hi
  · unfold stepRegular at h
    split at h; · cases h
    split at h
    · split at h
      · cases h; intro hc; simp at hc
      · split at h; · cases h
        cases h; exact hi
    · cases h; exact hi

theorem loop_inv (a a' : Acc) (fs : List Field) (h : loop false a fs = .ok a') (hi : ClInv a) : ClInv a' := by
  induction fs generalizing a with
  | nil => simp [loop] at h; cases h; exact hi
  | cons f fs ih =>
    simp only [loop] at h
    split at h; · cases h
    next a1 h1 => exact ih a1 h (step_inv a a1 f h1 hi)

/-- what `parseHeaders` and `updateResponseFromHeaders` still check after the loop -/
def fin (σ : A) : Prop := σ.st = true ∧ ∀ c, σ.cl = some c → c = [] ∨ (parseUint63 c).isSome = true

theorem update_ok_iff (fs : List Field) :
    (∃ r, updateResponseFromHeaders fs = .ok r) ↔ ∃ σ, arun ⟨false, none, false⟩ fs = some σ ∧ fin σ := by
  have habs : abs {} = ⟨false, none, false⟩ := by simp [abs]
  have hl := loop_abs {} fs
  rw [habs] at hl
  unfold updateResponseFromHeaders parseHeaders
  cases hloop : loop false {} fs with
  | error e =>
    rw [hloop] at hl; simp only [okAbs] at hl
    simp [← hl]
  | ok a =>
    rw [hloop] at hl; simp only [okAbs] at hl
    have hinv := loop_inv {} a fs hloop (by intro _; rfl)
    rw [← hl]
    simp only [Option.some.injEq, exists_eq_left']
    unfold fin abs
    simp only
    by_cases hcl : a.contentLengthStr.isEmpty = true
    · have hnil : a.contentLengthStr = [] := by simpa using hcl
      simp only [hcl, if_true]
      by_cases hst : a.hdr.status.isEmpty = true
      · simp [hst]
      · have hst' : a.hdr.status.isEmpty = false := by simpa using hst
        simp only [hst', Bool.false_eq_true, if_false, Bool.not_false, true_and]
        constructor
        · intro _ c hc
          left
          split at hc
          · cases hc; exact hnil
          · cases hc
        · intro _; exact ⟨_, rfl⟩
    · have hcl' : a.contentLengthStr.isEmpty = false := by simpa using hcl
      have hrc : a.readContentLength = true := by
        cases hr : a.readContentLength with
        | true => rfl
        | false => have := hinv hr; simp [this] at hcl'
      simp only [hcl', Bool.false_eq_true, if_false, hrc, if_true]
      cases hp : parseUint63 a.contentLengthStr with
      | none =>
        simp only [reduceCtorEq, exists_false, false_iff, not_and]
        intro _ hall
        rcases hall a.contentLengthStr rfl with hn | hs
        · simp [hn] at hcl'
        · simp [hp] at hs
      | some cl =>
        simp only
        by_cases hst : a.hdr.status.isEmpty = true
        · simp [hst]
        · have hst' : a.hdr.status.isEmpty = false := by simpa using hst
          simp only [hst', Bool.false_eq_true, if_false, Bool.not_false, true_and]
          constructor
          · intro _ c hc; cases hc; right; simp [hp]
          · intro _; exact ⟨_, rfl⟩

theorem validCL_iff (c : Bytes) : (parseUint63 c).isSome = true ↔ ValidCL c := by
  unfold parseUint63 ValidCL
  by_cases h : (!c.isEmpty && c.all isDigit && decide (decVal c < 2 ^ 63)) = true
  · rw [if_pos h]
    simp only [Option.isSome_some, true_iff]
    simp only [Bool.and_eq_true, Bool.not_eq_true', List.all_eq_true, decide_eq_true_eq, isDigit] at h
    obtain ⟨⟨h1, h2⟩, h3⟩ := h
    refine ⟨by intro hn; simp [hn] at h1, ?_, h3⟩
    intro x hx; simpa using h2 x hx
  · rw [if_neg h]
    simp only [Option.isSome_none, Bool.false_eq_true, false_iff]
    rintro ⟨h1, h2, h3⟩
    apply h
    simp only [Bool.and_eq_true, Bool.not_eq_true', List.all_eq_true, decide_eq_true_eq, isDigit]
    refine ⟨⟨by cases c <;> simp_all, ?_⟩, h3⟩
    intro x hx; simpa using h2 x hx

/-- the declarative reading of a section from abstract state `σ` -/
def D (σ : A) (fs : List Field) : Prop :=
  ∃ ps rs, fs = ps ++ rs ∧ (σ.reg = true → ps = []) ∧ (∀ f ∈ ps, IsPseudo f ∧ ResponsePseudoOK f) ∧
    (∀ f ∈ rs, ¬ IsPseudo f ∧ RegularOK f) ∧ (σ.st = true ∨ ps ≠ []) ∧
    CLAgree (σ.cl.toList ++ clValues rs)

theorem clAgree_congr (l1 l2 : List Bytes) (h : ∀ x, x ∈ l1 ↔ x ∈ l2) : CLAgree l1 ↔ CLAgree l2 := by
  unfold CLAgree
  constructor
  · rintro ⟨h1, h2⟩
    exact ⟨fun v hv w hw => h1 v ((h v).mpr hv) w ((h w).mpr hw), fun v hv => h2 v ((h v).mpr hv)⟩
  · rintro ⟨h1, h2⟩
    exact ⟨fun v hv w hw => h1 v ((h v).mp hv) w ((h w).mp hw), fun v hv => h2 v ((h v).mp hv)⟩

theorem clValues_cons (f : Field) (fs : List Field) :
    clValues (f :: fs) = if f.name == sContentLength then f.value :: clValues fs else clValues fs := by
  unfold clValues
  by_cases h : (f.name == sContentLength) = true <;> simp [List.filter_cons, h]

theorem astep_pseudo (σ σ1 : A) (f : Field) (hp : IsPseudo f) :
    astep σ f = some σ1 ↔ (σ.reg = false ∧ ResponsePseudoOK f ∧ σ1 = { σ with st := true }) := by
  have hp' := (isPseudo_iff f).mpr hp
  unfold astep ResponsePseudoOK
  simp only [hp', if_true, ← isStatus3_iff]
  by_cases hc : (!σ.reg && f.name == pStatus && isStatus3 f.value) = true
  · rw [if_pos hc]
    simp only [Bool.and_eq_true, Bool.not_eq_true', beq_iff_eq] at hc
    simp only [Option.some.injEq]
    constructor
    · intro h; exact ⟨hc.1.1, ⟨hc.1.2, hc.2⟩, h.symm⟩
    · intro h; exact h.2.2.symm
  · rw [if_neg hc]
    simp only [reduceCtorEq, false_iff]
    rintro ⟨h1, ⟨h2, h3⟩, _⟩
    apply hc
    simp [h1, h2, h3]

theorem astep_regular (σ σ1 : A) (f : Field) (hp : ¬ IsPseudo f) :
    astep σ f = some σ1 ↔
      (RegularOK f ∧
        ((f.name = sContentLength ∧ σ.cl = none ∧ σ1 = ⟨true, some f.value, σ.st⟩) ∨
         (f.name = sContentLength ∧ σ.cl = some f.value ∧ σ1 = { σ with reg := true }) ∨
         (f.name ≠ sContentLength ∧ σ1 = { σ with reg := true }))) := by
  have hp' : f.isPseudo = false := by
    cases h : f.isPseudo with
    | false => rfl
    | true => exact absurd ((isPseudo_iff f).mp h) hp
  unfold astep
  simp only [hp', Bool.false_eq_true, if_false, ← regularOKb_iff]
  by_cases hr : regularOKb f = true
  · simp only [hr, if_true, true_and]
    by_cases hcl : f.name = sContentLength
    · have : (f.name == sContentLength) = true := by simpa using hcl
      simp only [this, if_true, hcl]
      cases hσ : σ.cl with
      | none => simp [eq_comm]
      | some c =>
        by_cases hc : c = f.value
        · subst hc; simp [eq_comm]
        · have : (c == f.value) = false := by simpa using hc
          simp [this, hc]
    · have : (f.name == sContentLength) = false := by simpa using hcl
      simp [this, hcl, eq_comm]
  · simp [hr]

theorem fin_iff_D_nil (σ : A) : fin σ ↔ D σ [] := by
  unfold fin D
  constructor
  · rintro ⟨h1, h2⟩
    refine ⟨[], [], rfl, fun _ => rfl, by simp, by simp, Or.inl h1, ?_⟩
    simp only [clValues, List.filter_nil, List.map_nil, List.append_nil, CLAgree]
    cases hσ : σ.cl with
    | none => simp
    | some c =>
      simp only [Option.toList_some, List.mem_singleton]
      constructor
      · intro v hv w hw; rw [hv, hw]
      · intro v hv
        rw [hv]
        rcases h2 c hσ with h | h
        · exact Or.inl h
        · exact Or.inr ((validCL_iff c).mp h)
  · rintro ⟨ps, rs, hsplit, _, _, _, hst, hcl⟩
    obtain ⟨hps, hrs⟩ := List.nil_eq_append_iff.mp hsplit
    subst hps hrs
    refine ⟨by simpa using hst, ?_⟩
    intro c hc
    simp only [clValues, List.filter_nil, List.map_nil, List.append_nil, CLAgree] at hcl
    rcases hcl.2 c (by simp [hc]) with h | h
    · exact Or.inl h
    · exact Or.inr ((validCL_iff c).mpr h)

theorem arun_iff_D (fs : List Field) (σ : A) :
    (∃ σ', arun σ fs = some σ' ∧ fin σ') ↔ D σ fs := by
  induction fs generalizing σ with
  | nil => simp only [arun, Option.some.injEq, exists_eq_left']; exact fin_iff_D_nil σ
  | cons f fs ih =>
    simp only [arun]
    by_cases hp : IsPseudo f
    · -- a pseudo-header field: it must extend the pseudo prefix
      constructor
      · rintro ⟨σ', h, hf⟩
        cases hs : astep σ f with
        | none => rw [hs] at h; cases h
        | some σ1 =>
          rw [hs] at h
          obtain ⟨hreg, hok, rfl⟩ := (astep_pseudo σ σ1 f hp).mp hs
          obtain ⟨ps, rs, rfl, h1, h2, h3, _, h5⟩ := (ih _).mp ⟨σ', h, hf⟩
          refine ⟨f :: ps, rs, rfl, ?_, ?_, h3, Or.inr (by simp), h5⟩
          · intro hr; rw [hreg] at hr; cases hr
          · intro g hg
            rcases List.mem_cons.mp hg with rfl | hg
            · exact ⟨hp, hok⟩
            · exact h2 g hg
      · rintro ⟨ps, rs, hsplit, h1, h2, h3, h4, h5⟩
        cases ps with
        | nil =>
          simp only [List.nil_append] at hsplit
          have : f ∈ rs := by rw [← hsplit]; simp
          exact absurd hp (h3 f this).1
        | cons g ps =>
          simp only [List.cons_append, List.cons.injEq] at hsplit
          obtain ⟨rfl, rfl⟩ := hsplit
          have hreg : σ.reg = false := by
            cases hr : σ.reg with
            | false => rfl
            | true => have := h1 hr; cases this
          have hs := (astep_pseudo σ { σ with st := true } f hp).mpr ⟨hreg, (h2 f (by simp)).2, rfl⟩
          rw [hs]
          apply (ih _).mpr
          exact ⟨ps, rs, rfl, fun hr => by simp [hreg] at hr, fun g hg => h2 g (by simp [hg]), h3,
            Or.inl rfl, h5⟩
    · -- a regular field: the pseudo prefix is over
      constructor
      · rintro ⟨σ', h, hf⟩
        cases hs : astep σ f with
        | none => rw [hs] at h; cases h
        | some σ1 =>
          rw [hs] at h
          obtain ⟨hok, hcase⟩ := (astep_regular σ σ1 f hp).mp hs
          obtain ⟨ps, rs, hsplit, h1, h2, h3, h4, h5⟩ := (ih _).mp ⟨σ', h, hf⟩
          have hreg1 : σ1.reg = true := by
            rcases hcase with ⟨_, _, rfl⟩ | ⟨_, _, rfl⟩ | ⟨_, rfl⟩ <;> rfl
          have hps : ps = [] := h1 hreg1
          subst hps
          simp only [List.nil_append] at hsplit
          subst hsplit
          have hst1 : σ1.st = σ.st := by
            rcases hcase with ⟨_, _, rfl⟩ | ⟨_, _, rfl⟩ | ⟨_, rfl⟩ <;> rfl
          refine ⟨[], f :: fs, rfl, fun _ => rfl, by simp, ?_, ?_, ?_⟩
          · intro g hg
            rcases List.mem_cons.mp hg with rfl | hg
            · exact ⟨hp, hok⟩
            · exact h3 g hg
          · rcases h4 with h4 | h4
            · left; rw [← hst1]; exact h4
            · exact absurd rfl h4
          · rw [clValues_cons]
            rcases hcase with ⟨hn, hc, rfl⟩ | ⟨hn, hc, rfl⟩ | ⟨hn, rfl⟩
            · have : (f.name == sContentLength) = true := by simpa using hn
              simpa [this, hc] using h5
            · have : (f.name == sContentLength) = true := by simpa using hn
              rw [this, hc]
              simp only [if_true]
              refine (clAgree_congr _ _ ?_).mp h5
              intro x; simp [hc]
            · have : (f.name == sContentLength) = false := by simpa using hn
              simpa [this] using h5
      · rintro ⟨ps, rs, hsplit, h1, h2, h3, h4, h5⟩
        cases ps with
        | cons g ps =>
          simp only [List.cons_append, List.cons.injEq] at hsplit
          obtain ⟨rfl, _⟩ := hsplit
          exact absurd (h2 f (by simp)).1 hp
        | nil =>
          simp only [List.nil_append] at hsplit
          subst hsplit
          have hok := (h3 f (by simp)).2
          have hst : σ.st = true := by
            rcases h4 with h4 | h4
            · exact h4
            · exact absurd rfl h4
          rw [clValues_cons] at h5
          by_cases hn : f.name = sContentLength
          · have hb : (f.name == sContentLength) = true := by simpa using hn
            rw [hb] at h5
            simp only [if_true] at h5
            cases hσ : σ.cl with
            | none =>
              have hs := (astep_regular σ ⟨true, some f.value, σ.st⟩ f hp).mpr
                ⟨hok, Or.inl ⟨hn, hσ, rfl⟩⟩
              rw [hs]
              apply (ih _).mpr
              refine ⟨[], fs, rfl, fun _ => rfl, by simp, fun g hg => h3 g (by simp [hg]), Or.inl hst, ?_⟩
              simpa [hσ] using h5
            | some c =>
              have hc : c = f.value := h5.1 c (by simp [hσ]) f.value (by simp)
              subst hc
              have hs := (astep_regular σ { σ with reg := true } f hp).mpr
                ⟨hok, Or.inr (Or.inl ⟨hn, hσ, rfl⟩)⟩
              rw [hs]
              apply (ih _).mpr
              refine ⟨[], fs, rfl, fun _ => rfl, by simp, fun g hg => h3 g (by simp [hg]), Or.inl hst, ?_⟩
              refine (clAgree_congr _ _ ?_).mp h5
              intro x; simp [hσ]
          · have hb : (f.name == sContentLength) = false := by simpa using hn
            rw [hb] at h5
            simp only [Bool.false_eq_true, if_false] at h5
            have hs := (astep_regular σ { σ with reg := true } f hp).mpr
              ⟨hok, Or.inr (Or.inr ⟨hn, rfl⟩)⟩
            rw [hs]
            apply (ih _).mpr
            exact ⟨[], fs, rfl, fun _ => rfl, by simp, fun g hg => h3 g (by simp [hg]), Or.inl hst, h5⟩

/-- **h3_fields_accept_iff**: `updateResponseFromHeaders` accepts a decoded response field section
iff the section is well-formed in the sense of RFC 9114 §4.2/§4.3 (`Rfc9114.ResponseSection`). -/
theorem h3_fields_accept_iff (fs : List Field) :
    (∃ r, updateResponseFromHeaders fs = .ok r) ↔ ResponseSection fs := by
  rw [update_ok_iff, arun_iff_D]
  unfold D ResponseSection
  constructor
  · rintro ⟨ps, rs, h0, _, h2, h3, h4, h5⟩
    refine ⟨ps, rs, h0, h2, h3, ?_, by simpa using h5⟩
    rcases h4 with h4 | h4
    · cases h4
    · exact h4
  · rintro ⟨ps, rs, h0, h2, h3, h4, h5⟩
    exact ⟨ps, rs, h0, (fun h => by cases h), h2, h3, Or.inr h4, by simpa using h5⟩

theorem regularOKb_eq (f : Field) :
    regularOKb f = (!hasUpper f.name && validValue f.value && regB f) := by
  simp only [regularOKb, regB, Bool.and_assoc]

theorem trailerLoop_iff (fs : List Field) (m : HeaderMap) :
    (∃ r, trailerLoop m fs = .ok r) ↔ TrailerSection fs := by
  unfold TrailerSection
  induction fs generalizing m with
  | nil => simp [trailerLoop]
  | cons f fs ih =>
    simp only [trailerLoop, List.mem_cons, forall_eq_or_imp]
    by_cases hp : f.isPseudo = true
    · have := (isPseudo_iff f).mp hp
      simp [hp, this]
    · have hp' : f.isPseudo = false := by simpa using hp
      have hnp : ¬ IsPseudo f := fun h => hp ((isPseudo_iff f).mpr h)
      simp only [hp', Bool.false_eq_true, if_false, hnp, not_false_eq_true, true_and]
      rw [← regularOKb_iff, regularOKb_eq]
      by_cases hu : hasUpper f.name = true
      · simp [hu]
      · have hu' : hasUpper f.name = false := by simpa using hu
        by_cases hv : validValue f.value = true
        · simp only [hu', hv, Bool.false_eq_true, if_false, Bool.not_true, Bool.not_false, Bool.true_and]
          rcases checkRegular_cases f with ⟨hb, hc⟩ | ⟨hb, e, hc⟩
          · rw [hc, hb]; simp only [true_and]; exact ih _
          · rw [hc, hb]; simp
        · have hv' : validValue f.value = false := by simpa using hv
          simp [hu', hv']

/-- **h3_trailers_accept_iff**: `parseTrailers` accepts a decoded trailer section iff it contains no
pseudo-header field and only valid regular fields (RFC 9114 §4.3 and §4.2). -/
theorem h3_trailers_accept_iff (fs : List Field) :
    (∃ r, parseTrailers fs = .ok r) ↔ TrailerSection fs :=
  trailerLoop_iff fs []

end Req.Lemmas.C05.Fields
