import Req.Client.Pipeline
/-! Helper lemmas for C18: shape of the per-attempt invocation log. -/
namespace Req.Pipeline
open Req.Result

def Ev.isRaised : Ev → Bool
  | .raised _ => true
  | _ => false

def Ev.isUdReq : Ev → Bool
  | .udReq _ => true
  | _ => false

def Ev.isCResp : Ev → Bool
  | .cResp _ => true
  | _ => false

def Ev.isRResp : Ev → Bool
  | .rResp _ => true
  | _ => false

/-- The exchange and the client-level response middleware that follow it. -/
def Ev.isExch : Ev → Bool
  | .send => true
  | .cResp _ => true
  | _ => false

/-! ### request middleware -/

/-- Log of `runReqMws`: the middleware that ran, in order from `i`, then at most the
bookkeeping entry of the failure. -/
theorem runReqMws_shape (i : Nat) (acts : List ReqAct) :
    (∃ e k, (runReqMws i acts) = (some e, (List.range' i (k + 1)).map .udReq ++ [.raised e]) ∧
        k < acts.length ∧ acts[k]? = some (.fail e) ∧ ∀ j, j < k → acts[j]? = some .ok) ∨
    ((runReqMws i acts) = (none, (List.range' i acts.length).map .udReq) ∧ ∀ act ∈ acts, act = .ok) := by
  induction acts generalizing i with
  | nil => right; simp [runReqMws]
  | cons act rest ih =>
    cases act with
    | ok =>
      rcases ih (i + 1) with ⟨e, k, h1, h2, h3, h4⟩ | ⟨h1, h2⟩
      · left
        refine ⟨e, k + 1, ?_, by simpa using h2, by simpa using h3, ?_⟩
        · simp only [runReqMws, h1]
          simp [List.range'_succ]
        · intro j hj
          cases j with
          | zero => simp
          | succ j => simpa using h4 j (by omega)
      · right
        refine ⟨?_, ?_⟩
        · simp only [runReqMws, h1]
          simp [List.range'_succ]
        · intro a ha
          rcases List.mem_cons.mp ha with rfl | ha
          · rfl
          · exact h2 a ha
    | fail e =>
      left
      exact ⟨e, 0, by simp [runReqMws], by simp, by simp, by intro j hj; omega⟩

/-! ### Client.roundTrip -/

theorem clientAct_evs (r : Resp) (act : RespAct) : ∀ e ∈ (clientAct r act).2, e.isRaised = true := by
  cases act <;> simp [clientAct, Ev.isRaised]

theorem filter_of_all_raised (p : Ev → Bool) (hp : ∀ e, e.isRaised = true → p e = false) (l : List Ev)
    (h : ∀ e ∈ l, e.isRaised = true) : l.filter p = [] := by
  apply List.filter_eq_nil_iff.mpr
  intro e he
  simp [hp e (h e he)]

theorem clientLoop_exch (i : Nat) (acts : List RespAct) (r : Resp) :
    (clientLoop i acts r).2.filter Ev.isExch = (List.range' i acts.length).map .cResp := by
  induction acts generalizing i r with
  | nil => simp [clientLoop]
  | cons act rest ih =>
    simp only [clientLoop, List.filter_cons, Ev.isExch, List.filter_append, if_true]
    rw [filter_of_all_raised Ev.isExch (by intro e he; cases e <;> simp_all [Ev.isRaised, Ev.isExch]) _ (clientAct_evs r act)]
    simp [ih, List.range'_succ]

theorem autoRead_evs (s : Stack) (r : Resp) : ∀ e ∈ (autoRead s r).2, e.isRaised = true := by
  unfold autoRead
  split
  · split
    · split <;> simp [Ev.isRaised]
    · simp
  · simp

theorem parseResp_evs (s : Stack) (r : Resp) : ∀ e ∈ (parseResp s r).evs, e.isRaised = true ∨ ∃ c, e = .unm c := by
  unfold parseResp
  simp only [List.mem_append]
  intro e he
  rcases he with he | he
  · right
    unfold unmEv at he
    split at he
    · simp at he; exact ⟨_, he⟩
    · simp at he
  · left
    unfold newErrEv at he
    split at he
    · simp at he; simp [he, Ev.isRaised]
    · simp at he

/-- Events that can appear inside a round trip (wrappers + Client.roundTrip). -/
def Ev.inRT : Ev → Bool
  | .send | .raised _ | .unm _ | .cResp _ | .wrap _ => true
  | _ => false

/-- Events that can appear in the request-level response loop. -/
def Ev.inReqLoop : Ev → Bool
  | .rResp _ | .raised _ | .unm _ | .resend => true
  | _ => false

theorem clientLoop_inRT (i : Nat) (acts : List RespAct) (r : Resp) :
    ∀ e ∈ (clientLoop i acts r).2, e.inRT = true := by
  induction acts generalizing i r with
  | nil => simp [clientLoop]
  | cons act rest ih =>
    intro e he
    simp only [clientLoop, List.mem_cons, List.mem_append] at he
    rcases he with (rfl | he) | he
    · rfl
    · have := clientAct_evs r act e he
      cases e <;> simp_all [Ev.isRaised, Ev.inRT]
    · exact ih _ _ e he

theorem raised_inRT {e : Ev} (h : e.isRaised = true) : e.inRT = true := by
  cases e <;> simp_all [Ev.isRaised, Ev.inRT]

theorem exchange_evs (s : Stack) (a : Nat) : ∀ e ∈ (exchange s a).2, e.isRaised = true := by
  unfold exchange
  split <;> simp [Ev.isRaised]

theorem download_evs (s : Stack) (a : Nat) (r : Resp) : ∀ e ∈ (download s a r).2, e.isRaised = true := by
  unfold download
  split
  · simp
  · split
    · simp
    · split <;> simp [Ev.isRaised]

theorem clientRoundTrip_inRT (s : Stack) (a : Nat) : ∀ e ∈ (clientRoundTrip s a).evs, e.inRT = true := by
  unfold clientRoundTrip
  split
  · simp [Ev.inRT]
  · intro e he
    simp only [List.mem_cons, List.mem_append] at he
    rcases he with ((((rfl | he) | he) | he) | he) | he
    · rfl
    · exact raised_inRT (exchange_evs _ _ e he)
    · exact raised_inRT (autoRead_evs _ _ e he)
    · rcases parseResp_evs _ _ e he with h | ⟨c, rfl⟩
      · exact raised_inRT h
      · rfl
    · exact raised_inRT (download_evs _ _ _ e he)
    · exact clientLoop_inRT _ _ _ e he

theorem filter_nil_of_forall {p : Ev → Bool} {l : List Ev} (h : ∀ e ∈ l, p e = false) : l.filter p = [] := by
  apply List.filter_eq_nil_iff.mpr
  intro e he; simp [h e he]

/-- One exchange: the transport call followed by every client response middleware, once, in
registration order — or no exchange at all when GetBody fails. -/
theorem clientRoundTrip_exch (s : Stack) (a : Nat) :
    (clientRoundTrip s a).evs.filter Ev.isExch =
      if s.getBodyAt a then [] else .send :: (List.range s.clientResp.length).map .cResp := by
  unfold clientRoundTrip
  split
  · simp [Ev.isExch]
  · simp only [List.filter_cons, List.filter_append, Ev.isExch, if_true]
    rw [filter_of_all_raised Ev.isExch (by intro e he; cases e <;> simp_all [Ev.isRaised, Ev.isExch]) _ (autoRead_evs _ _)]
    rw [filter_nil_of_forall (l := (parseResp _ _).evs) (by
      intro e he
      rcases parseResp_evs _ _ e he with h | ⟨c, rfl⟩
      · cases e <;> simp_all [Ev.isRaised, Ev.isExch]
      · rfl)]
    rw [filter_of_all_raised Ev.isExch (by intro e he; cases e <;> simp_all [Ev.isRaised, Ev.isExch]) _ (download_evs _ _ _)]
    rw [clientLoop_exch]
    rw [filter_of_all_raised Ev.isExch (by intro e he; cases e <;> simp_all [Ev.isRaised, Ev.isExch]) _ (exchange_evs _ _)]
    simp [Stack.clientAt, List.range_eq_range']

/-! ### wrappers -/

theorem runWrappers_inRT (a : Nat) (core : RT) (hc : ∀ e ∈ core.evs, e.inRT = true) (ws : List (Nat × WAct)) :
    ∀ e ∈ (runWrappers a core ws).evs, e.inRT = true := by
  induction ws with
  | nil => simpa [runWrappers] using hc
  | cons w rest ih =>
    obtain ⟨i, act⟩ := w
    cases act <;> simp only [runWrappers] <;> intro e he <;>
      simp only [List.mem_cons, List.mem_append, List.not_mem_nil, or_false] at he <;>
      (try rcases he with (rfl | he) | rfl) <;> (try rcases he with rfl | he) <;> (try rcases he with rfl | rfl) <;>
      first | rfl | exact ih e he | skip

theorem runWrappers_exch (a : Nat) (core : RT) (ws : List (Nat × WAct)) :
    (runWrappers a core ws).evs.filter Ev.isExch = core.evs.filter Ev.isExch ∨
    (runWrappers a core ws).evs.filter Ev.isExch = [] := by
  induction ws with
  | nil => left; rfl
  | cons w rest ih =>
    obtain ⟨i, act⟩ := w
    cases act <;> simp only [runWrappers, List.filter_cons, List.filter_append, Ev.isExch, List.filter_nil] <;>
      first | (simp; done) | (simpa using ih)


/-! ### request-level response middleware -/

/-- Events a single request-level middleware can add besides its own `rResp` entry. -/
def Ev.inStep : Ev → Bool
  | .raised _ | .unm _ | .resend => true
  | _ => false

def StepOut.evs : StepOut → List Ev
  | .cont _ evs => evs
  | .stop _ _ evs => evs
  | .crash => []

theorem raised_inStep {e : Ev} (h : e.isRaised = true) : e.inStep = true := by
  cases e <;> simp_all [Ev.isRaised, Ev.inStep]

theorem rebind_evs (s : Stack) (a : Nat) (r : Resp) : ∀ e ∈ (rebind s a r).evs, e.inStep = true := by
  have hrp : ∀ e, (e = Ev.resend ∨ e ∈ (autoRead s r).2) ∨ e ∈ (parseResp s (autoRead s r).1).evs → e.inStep = true := by
    intro e he
    rcases he with (rfl | he) | he
    · rfl
    · exact raised_inStep (autoRead_evs _ _ e he)
    · rcases parseResp_evs _ _ e he with h | ⟨c, rfl⟩
      · exact raised_inStep h
      · rfl
  unfold rebind
  simp only []
  split
  · simp only [StepOut.evs, List.mem_cons, List.mem_append]; exact hrp
  · split
    · split
      · simp only [StepOut.evs, List.mem_cons, List.mem_append, List.mem_singleton]
        intro e he
        rcases he with he | he
        · exact hrp e he
        · simp only [List.not_mem_nil, or_false] at he; subst he; rfl
      · simp only [StepOut.evs, List.mem_cons, List.mem_append]; exact hrp
    · simp only [StepOut.evs, List.mem_cons, List.mem_append]; exact hrp

theorem digestResend_evs (fx : Fixes) (s : Stack) (a : Nat) (r : Resp) (re : TOut) :
    ∀ e ∈ (digestResend fx s a r re).evs, e.inStep = true := by
  cases re with
  | fail e => simp [digestResend, StepOut.evs, Ev.inStep]
  | resp h =>
    simp only [digestResend]
    split
    · exact rebind_evs _ _ _
    · simp [StepOut.evs, Ev.inStep]

theorem digestStep_evs (fx : Fixes) (s : Stack) (a : Nat) (ok : Bool) (re : TOut) (r : Resp) :
    ∀ e ∈ (digestStep fx s a ok re r).evs, e.inStep = true := by
  unfold digestStep
  split
  · simp [StepOut.evs]
  · split
    · split <;> simp [StepOut.evs]
    · split
      · simp [StepOut.evs]
      · split
        · simp [StepOut.evs, Ev.inStep]
        · exact digestResend_evs _ _ _ _ _

theorem stageStep_evs (fx : Fixes) (s : Stack) (a : Nat) (resp : Option Resp) (act : RAct) :
    ∀ e ∈ (stageStep fx s a resp act).evs, e.inStep = true := by
  cases act with
  | mw m => cases m <;> simp [stageStep, StepOut.evs, Ev.inStep]
  | digest ok re =>
    cases resp with
    | none => simp [stageStep, StepOut.evs]
    | some r => simpa [stageStep] using digestStep_evs fx s a ok re r

theorem inStep_not_rresp {e : Ev} (h : e.inStep = true) : e.isRResp = false := by
  cases e <;> simp_all [Ev.inStep, Ev.isRResp]

/-- The request-level loop runs the middleware in order from `i`; it stops early only when one
of them returns an error (or the library crashes). -/
theorem reqRespLoop_rresp (fx : Fixes) (s : Stack) (a : Nat) (acts : List RAct) :
    ∀ i resp err, ∃ j, j ≤ acts.length ∧ (acts ≠ [] → 0 < j) ∧
      (reqRespLoop fx s a i acts resp err).evs.filter Ev.isRResp = (List.range' i j).map .rResp ∧
      (j < acts.length → (reqRespLoop fx s a i acts resp err).returned = true ∨
                          (reqRespLoop fx s a i acts resp err).crash = true) := by
  induction acts with
  | nil => intro i resp err; exact ⟨0, by simp [reqRespLoop]⟩
  | cons act rest ih =>
    intro i resp err
    simp only [reqRespLoop]
    have hstep := stageStep_evs fx s a resp act
    rcases hs : stageStep fx s a resp act with ⟨r1, evs⟩ | ⟨r1, e, evs⟩ | _
    · obtain ⟨j, h1, h2, h3, h4⟩ := ih (i + 1) r1 (if fx.keepErr then err else none)
      refine ⟨j + 1, by simpa using h1, by simp, ?_, ?_⟩
      · simp only [List.filter_cons, Ev.isRResp, if_true, List.filter_append]
        rw [filter_nil_of_forall (l := evs) (by
          intro e he; rw [hs] at hstep; exact inStep_not_rresp (hstep e (by simpa [StepOut.evs] using he)))]
        simp [h3, List.range'_succ]
      · intro hj
        exact h4 (by simpa using hj)
    · refine ⟨1, by simp, by simp, ?_, ?_⟩
      · simp only [List.filter_cons, Ev.isRResp, if_true]
        rw [filter_nil_of_forall (l := evs) (by
          intro e' he; rw [hs] at hstep; exact inStep_not_rresp (hstep e' (by simpa [StepOut.evs] using he)))]
        simp [List.range'_succ]
      · intro _; left; simp
    · refine ⟨1, by simp, by simp, ?_, ?_⟩
      · simp [Ev.isRResp, List.range'_succ]
      · intro _; right; simp

theorem reqRespLoop_inReqLoop (fx : Fixes) (s : Stack) (a : Nat) (acts : List RAct) :
    ∀ i resp err, ∀ e ∈ (reqRespLoop fx s a i acts resp err).evs, e.inReqLoop = true := by
  induction acts with
  | nil => intro i resp err; simp [reqRespLoop]
  | cons act rest ih =>
    intro i resp err e he
    simp only [reqRespLoop] at he
    have hstep := stageStep_evs fx s a resp act
    have hin : ∀ e : Ev, e.inStep = true → e.inReqLoop = true := by
      intro e h; cases e <;> simp_all [Ev.inStep, Ev.inReqLoop]
    rcases hs : stageStep fx s a resp act with ⟨r1, evs⟩ | ⟨r1, e', evs⟩ | _
    · rw [hs] at he hstep
      simp only [List.mem_cons, List.mem_append] at he
      rcases he with (rfl | he) | he
      · rfl
      · exact hin _ (hstep e (by simpa [StepOut.evs] using he))
      · exact ih _ _ _ e he
    · rw [hs] at he hstep
      simp only [List.mem_cons] at he
      rcases he with rfl | he
      · rfl
      · exact hin _ (hstep e (by simpa [StepOut.evs] using he))
    · rw [hs] at he
      simp only [List.mem_cons, List.not_mem_nil, or_false] at he
      subst he; rfl

/-! ### one attempt -/

/-- Events after the request-middleware phase of an attempt. -/
def Ev.late (e : Ev) : Bool := e.inRT || e.inReqLoop

theorem roundTrip_inRT (s : Stack) (a : Nat) :
    ∀ e ∈ (runWrappers a (clientRoundTrip s a) (wrapChain (s.wrapAt a))).evs, e.inRT = true :=
  runWrappers_inRT a _ (clientRoundTrip_inRT s a) _

/-- Shape of an attempt's log: the user request middleware first, in registration order; after a
failing one nothing else; the built-in block next; everything else (wrappers, exchange,
response middleware) only after all of them succeeded. -/
theorem attempt_request_phase (fx : Fixes) (s : Stack) (a : Nat) (prev : Option Resp) :
    (∃ k e, k < (s.udAt a).length ∧ (s.udAt a)[k]? = some (.fail e) ∧ (∀ j, j < k → (s.udAt a)[j]? = some .ok) ∧
        (attempt fx s a prev).evs = (List.range (k + 1)).map .udReq ++ [.raised e] ∧
        (attempt fx s a prev).returned = true ∧ (attempt fx s a prev).err = some e ∧
        (attempt fx s a prev).resp = prev ∧ (attempt fx s a prev).crash = false) ∨
    ((∀ act ∈ s.udAt a, act = .ok) ∧
      ((∃ e, s.builtinAt a = .fail e ∧
          (attempt fx s a prev).evs = (List.range (s.udAt a).length).map .udReq ++ [.raised e] ∧
          (attempt fx s a prev).returned = true ∧ (attempt fx s a prev).err = some e ∧
          (attempt fx s a prev).resp = prev ∧ (attempt fx s a prev).crash = false) ∨
       (s.builtinAt a = .ok ∧ ∃ more,
          (attempt fx s a prev).evs = (List.range (s.udAt a).length).map .udReq ++ .builtin :: more ∧
          ∀ e ∈ more, e.late = true))) := by
  unfold attempt
  rcases runReqMws_shape 0 (s.udAt a) with ⟨e, k, h1, h2, h3, h4⟩ | ⟨h1, h2⟩
  · left
    refine ⟨k, e, h2, h3, h4, ?_⟩
    simp [h1, List.range_eq_range']
  · right
    refine ⟨h2, ?_⟩
    simp only [h1]
    cases hb : s.builtinAt a with
    | fail e => left; exact ⟨e, rfl, by simp [List.range_eq_range']⟩
    | ok =>
      right
      refine ⟨rfl, _, by simp [List.range_eq_range']; rfl, ?_⟩
      intro e he
      simp only [List.mem_append] at he
      rcases he with he | he
      · simp [Ev.late, roundTrip_inRT s a e he]
      · simp [Ev.late, reqRespLoop_inReqLoop fx s a _ _ _ _ e he]

theorem inReqLoop_not_exch {e : Ev} (h : e.inReqLoop = true) : e.isExch = false := by
  cases e <;> simp_all [Ev.inReqLoop, Ev.isExch]

theorem inRT_not_rresp {e : Ev} (h : e.inRT = true) : e.isRResp = false := by
  cases e <;> simp_all [Ev.inRT, Ev.isRResp]

theorem udReq_filter_exch (k : Nat) : ((List.range k).map Ev.udReq).filter Ev.isExch = [] := by
  apply filter_nil_of_forall; intro e he; simp at he; obtain ⟨_, _, rfl⟩ := he; rfl

theorem udReq_filter_rresp (k : Nat) : ((List.range k).map Ev.udReq).filter Ev.isRResp = [] := by
  apply filter_nil_of_forall; intro e he; simp at he; obtain ⟨_, _, rfl⟩ := he; rfl

/-- At most one exchange per attempt, and after it EVERY client response middleware runs,
exactly once, in registration order. -/
theorem attempt_exchange (fx : Fixes) (s : Stack) (a : Nat) (prev : Option Resp) :
    (attempt fx s a prev).evs.filter Ev.isExch = [] ∨
    (attempt fx s a prev).evs.filter Ev.isExch = .send :: (List.range s.clientResp.length).map .cResp := by
  rcases attempt_request_phase fx s a prev with ⟨k, e, _, _, _, h, _⟩ | ⟨_, ⟨e, _, h, _⟩ | ⟨hb, more, h, _⟩⟩
  · left; rw [h]; simp [udReq_filter_exch, Ev.isExch]
  · left; rw [h]; simp [udReq_filter_exch, Ev.isExch]
  · clear h
    unfold attempt
    rcases runReqMws_shape 0 (s.udAt a) with ⟨e, k, h1, h2, h3, h4⟩ | ⟨h1, h2⟩
    · left; simp [h1, List.range_eq_range'.symm, udReq_filter_exch, Ev.isExch]
    · simp only [h1, hb, List.filter_append, List.filter_cons]
      rw [← List.range_eq_range', udReq_filter_exch]
      rw [filter_nil_of_forall (l := (reqRespLoop _ _ _ _ _ _ _).evs)
        (fun e he => inReqLoop_not_exch (reqRespLoop_inReqLoop fx s a _ _ _ _ e he))]
      simp only [Ev.isExch, List.nil_append, List.append_nil, Bool.false_eq_true, if_false]
      rcases runWrappers_exch a (clientRoundTrip s a) (wrapChain (s.wrapAt a)) with h | h
      · rw [h, clientRoundTrip_exch]
        split
        · left; rfl
        · right; rfl
      · left; exact h

/-- The attempt once every request middleware succeeded. -/
theorem attempt_eq_of_ok (fx : Fixes) (s : Stack) (a : Nat) (prev : Option Resp)
    (h1 : ∀ act ∈ s.udAt a, act = .ok) (hb : s.builtinAt a = .ok) :
    attempt fx s a prev =
      let rt := runWrappers a (clientRoundTrip s a) (wrapChain (s.wrapAt a))
      let resp := if fx.nilGuard then nilGuard rt.resp rt.err else rt.resp
      let t := reqRespLoop fx s a 0 (s.reqRespAt a) resp rt.err
      { t with evs := (List.range (s.udAt a).length).map .udReq ++ .builtin :: rt.evs ++ t.evs } := by
  unfold attempt
  rcases runReqMws_shape 0 (s.udAt a) with ⟨e, k, _, h2, h3, _⟩ | ⟨h, _⟩
  · have := h1 _ (List.mem_of_getElem? h3); cases this
  · simp [h, hb, List.range_eq_range']

theorem builtin_mem_iff (fx : Fixes) (s : Stack) (a : Nat) (prev : Option Resp) :
    .builtin ∈ (attempt fx s a prev).evs ↔ (∀ act ∈ s.udAt a, act = .ok) ∧ s.builtinAt a = .ok := by
  rcases attempt_request_phase fx s a prev with ⟨k, e, hk, h1, _, h, _⟩ | ⟨hok, ⟨e, hb, h, _⟩ | ⟨hb, more, h, _⟩⟩
  · rw [h]
    constructor
    · intro hm; simp at hm
    · intro ⟨hok, _⟩; have := hok _ (List.mem_of_getElem? h1); cases this
  · rw [h]
    constructor
    · intro hm; simp at hm
    · intro ⟨_, hb'⟩; rw [hb] at hb'; cases hb'
  · rw [h]; simp only [hb, and_true]; constructor
    · intro _; exact hok
    · intro _; simp

/-- Once the request middleware succeeded, the request-level response middleware run in
registration order; the loop stops early only when one of them returns an error. -/
theorem attempt_rresp (fx : Fixes) (s : Stack) (a : Nat) (prev : Option Resp)
    (hb : .builtin ∈ (attempt fx s a prev).evs) :
    ∃ j, j ≤ s.reqResp.length ∧ (s.reqResp ≠ [] → 0 < j) ∧
      (attempt fx s a prev).evs.filter Ev.isRResp = (List.range j).map .rResp ∧
      (j < s.reqResp.length → (attempt fx s a prev).returned = true ∨ (attempt fx s a prev).crash = true) := by
  obtain ⟨h1, h2⟩ := (builtin_mem_iff fx s a prev).mp hb
  rw [attempt_eq_of_ok fx s a prev h1 h2]
  simp only []
  generalize hr : (if fx.nilGuard = true then _ else _ : Option Resp) = resp
  obtain ⟨j, hj1, hj2, hj3, hj4⟩ := reqRespLoop_rresp fx s a (s.reqRespAt a) 0 resp
    (runWrappers a (clientRoundTrip s a) (wrapChain (s.wrapAt a))).err
  have hlen : (s.reqRespAt a).length = s.reqResp.length := by simp [Stack.reqRespAt]
  refine ⟨j, by omega, ?_, ?_, ?_⟩
  · intro hne; apply hj2; intro h; apply hne; simpa [Stack.reqRespAt] using h
  · simp only [List.filter_append, List.filter_cons, udReq_filter_rresp, Ev.isRResp]
    rw [filter_nil_of_forall (l := (runWrappers _ _ _).evs) (fun e he => inRT_not_rresp (roundTrip_inRT s a e he))]
    simpa [List.range_eq_range'] using hj3
  · intro hlt; exact hj4 (by omega)

/-! ### the attempt loop -/

/-- Every element of `do`'s attempt list is an `attempt`, the i-th one with index `a + i`. -/
theorem doLoop_atts (fx : Fixes) (s : Stack) :
    ∀ fuel a prev i t, (doLoop fx s fuel a prev).atts[i]? = some t → ∃ prev', t = attempt fx s (a + i) prev' := by
  intro fuel
  induction fuel with
  | zero =>
    intro a prev i t h
    simp [doLoop, exhaustedOut] at h
  | succ fuel ih =>
    intro a prev i t h
    simp only [doLoop] at h
    have single : ∀ (l : List Att), l = [attempt fx s a prev] → l[i]? = some t → ∃ prev', t = attempt fx s (a + i) prev' := by
      intro l hl h; subst hl; cases i <;> simp at h; subst h; exact ⟨prev, rfl⟩
    split at h
    · exact single _ rfl h
    · split at h
      · exact single _ rfl h
      · split at h
        · exact single _ rfl h
        · split at h
          · split at h
            · exact single _ rfl h
            · split at h
              · exact single _ rfl h
              · cases i with
                | zero => simp at h; subst h; exact ⟨prev, rfl⟩
                | succ i =>
                  simp only [List.getElem?_cons_succ] at h
                  obtain ⟨p', hp⟩ := ih _ _ _ _ h
                  exact ⟨p', by rw [hp]; congr 1; omega⟩
          · exact single _ rfl h

/-- The loop makes at most as many attempts as it has fuel. -/
theorem doLoop_atts_le_fuel (fx : Fixes) (s : Stack) :
    ∀ fuel a prev, (doLoop fx s fuel a prev).atts.length ≤ fuel := by
  intro fuel
  induction fuel with
  | zero => intro a prev; simp [doLoop, exhaustedOut]
  | succ fuel ih =>
    intro a prev
    simp only [doLoop]
    split
    · simp [crashOut]
    · split
      · simp [stopOut]
      · split
        · simp [stopOut]
        · split
          · split
            · simp [crashOut]
            · split
              · simp [waitOut]
              · have := ih (a + 1) (some (cleanup (applyHook ‹Resp› (s.retryHookAt a))))
                simp only [List.length_cons]; omega
          · simp [stopOut]

/-- A loop that has not run out of fuel made at least one attempt. -/
theorem doLoop_atts_pos (fx : Fixes) (s : Stack) :
    ∀ fuel a prev, (doLoop fx s fuel a prev).exhausted = false → 0 < (doLoop fx s fuel a prev).atts.length := by
  intro fuel
  cases fuel with
  | zero => intro a prev h; simp [doLoop, exhaustedOut] at h
  | succ fuel =>
    intro a prev _
    simp only [doLoop]
    split
    · simp [crashOut]
    · split
      · simp [stopOut]
      · split
        · simp [stopOut]
        · split
          · split
            · simp [crashOut]
            · split
              · simp [waitOut]
              · simp
          · simp [stopOut]

/-- A bounded loop (`MaxRetries ≥ 0`) never runs out of fuel when given `MaxRetries + 1 - a`. -/
theorem doLoop_bounded_not_exhausted (fx : Fixes) (s : Stack) (hb : s.unbounded = false) :
    ∀ fuel a prev, a ≤ s.maxRetries → s.maxRetries + 1 ≤ a + fuel → (doLoop fx s fuel a prev).exhausted = false := by
  intro fuel
  induction fuel with
  | zero => intro a prev h1 h2; omega
  | succ fuel ih =>
    intro a prev h1 h2
    simp only [doLoop]
    split
    · rfl
    · split
      · rfl
      · split
        · rfl
        · rename_i hcr
          have hlt : a < s.maxRetries := by
            simp only [cannotRetry, hb, Bool.not_false, Bool.true_and, Bool.or_eq_true, decide_eq_true_eq, not_or] at hcr
            omega
          split
          · split
            · rfl
            · split
              · rfl
              · exact ih (a + 1) _ (by omega) (by omega)
          · rfl

/-- A bounded loop makes at most `MaxRetries + 1 - a` attempts, whatever the fuel. -/
theorem doLoop_atts_bounded (fx : Fixes) (s : Stack) (hb : s.unbounded = false) :
    ∀ fuel a prev, (doLoop fx s fuel a prev).atts.length + a ≤ s.maxRetries + 1 ∨ s.maxRetries < a ∧ (doLoop fx s fuel a prev).atts.length ≤ 1 := by
  intro fuel
  induction fuel with
  | zero => intro a prev; simp only [doLoop, exhaustedOut, List.length_nil]; omega
  | succ fuel ih =>
    intro a prev
    simp only [doLoop]
    have one : ∀ l : List Att, l.length = 1 → (l.length + a ≤ s.maxRetries + 1 ∨ s.maxRetries < a ∧ l.length ≤ 1) := by
      intro l hl; rw [hl]; omega
    split
    · exact one _ rfl
    · split
      · exact one _ rfl
      · split
        · exact one _ rfl
        · rename_i hcr
          have hlt : a < s.maxRetries := by
            simp only [cannotRetry, hb, Bool.not_false, Bool.true_and, Bool.or_eq_true, decide_eq_true_eq, not_or] at hcr
            omega
          split
          · split
            · exact one _ rfl
            · split
              · exact one _ rfl
              · rcases ih (a + 1) (some (cleanup (applyHook ‹Resp› (s.retryHookAt a)))) with h | ⟨h, _⟩
                · left; simp only [List.length_cons]; omega
                · omega
          · exact one _ rfl

def Out.atts : Out → List Att
  | .crash a => a
  | .ret _ _ _ a => a
  | .mustPanic _ _ a => a
  | .exhausted a => a

def Out.isCrash : Out → Bool
  | .crash _ => true
  | _ => false

theorem run_atts (fx : Fixes) (s : Stack) : (run fx s).atts = (callDo fx s).atts := by
  unfold run
  simp only []
  split
  · rfl
  · split
    · rfl
    · split
      · rfl
      · split
        · rfl
        · split <;> rfl

theorem callDo_atts (fx : Fixes) (s : Stack) (i : Nat) (t : Att) (h : (callDo fx s).atts[i]? = some t) :
    ∃ prev, t = attempt fx s i prev := by
  unfold callDo at h
  split at h
  · simp at h
  · split at h
    · simp at h
    · simpa using doLoop_atts fx s _ _ _ _ _ h

/-- Attempts never exceed `MaxRetries + 1` when `MaxRetries ≥ 0`. -/
theorem callDo_atts_length (fx : Fixes) (s : Stack) (hb : s.unbounded = false) :
    (callDo fx s).atts.length ≤ s.maxRetries + 1 := by
  unfold callDo
  split
  · simp
  · split
    · simp
    · rcases doLoop_atts_bounded fx s hb s.fuelFor 0 none with h | ⟨h, _⟩
      · omega
      · omega

/-- … and in every case they never exceed the fuel (the attempts the script describes). -/
theorem callDo_atts_le_fuel (fx : Fixes) (s : Stack) : (callDo fx s).atts.length ≤ s.fuelFor := by
  unfold callDo
  split
  · simp
  · split
    · simp
    · exact doLoop_atts_le_fuel fx s _ _ _

/-- A call with `MaxRetries ≥ 0` always comes to an end within the fuel `callDo` supplies. -/
theorem callDo_bounded_not_exhausted (fx : Fixes) (s : Stack) (hb : s.unbounded = false) :
    (callDo fx s).exhausted = false := by
  unfold callDo
  split
  · rfl
  · split
    · rfl
    · exact doLoop_bounded_not_exhausted fx s hb _ 0 none (by omega) (by simp [Stack.fuelFor, hb])

end Req.Pipeline
