import Req.Lemmas.C09PoolExcl
/-! LRU / total-idle invariants of the pool model (C09). -/
namespace Req.Lemmas.C09PoolLru
open Req.Pool.H1Pool Req.Lemmas.C09Pool Req.Lemmas.C09PoolExcl

structure LruCore (s : St) : Prop where
  lruNodup : s.lru.Nodup
  idleInLru : ∀ k c, c ∈ s.idle k → c ∈ s.lru
  lruIdleOrClosed : ∀ c, c ∈ s.lru → (∃ k, c ∈ s.idle k) ∨ s.closed c = true
  noDup : s.dupPanic = false
  closedCreated : ∀ c, s.closed c = true → s.ckey c ≠ none

def LruLen (cfg : Cfg) (s : St) : Prop := cfg.maxIdle ≠ 0 → s.lru.length ≤ cfg.maxIdle

/-- Same idle lists and LRU, `closed` only grows (and only on created connections). -/
theorem LruCore_of_closed_mono {s s' : St} (hi : s'.idle = s.idle) (hl : s'.lru = s.lru)
    (hd : s'.dupPanic = s.dupPanic)
    (hmono : ∀ x, s.closed x = true → s'.closed x = true)
    (hcr : ∀ x, s'.closed x = true → s'.ckey x ≠ none) (h : LruCore s) : LruCore s' where
  lruNodup := by rw [hl]; exact h.lruNodup
  idleInLru := by rw [hi, hl]; exact h.idleInLru
  lruIdleOrClosed := fun c hc => by
    rw [hl] at hc; rw [hi]
    rcases h.lruIdleOrClosed c hc with h1 | h1
    · exact Or.inl h1
    · exact Or.inr (hmono c h1)
  noDup := by rw [hd]; exact h.noDup
  closedCreated := hcr

theorem LruCore_of_frame {s s' : St} (hi : s'.idle = s.idle) (hl : s'.lru = s.lru)
    (hd : s'.dupPanic = s.dupPanic) (hc : s'.closed = s.closed) (hk : s'.ckey = s.ckey)
    (h : LruCore s) : LruCore s' :=
  LruCore_of_closed_mono hi hl hd (by rw [hc]; intros; assumption) (by rw [hc, hk]; exact h.closedCreated) h

theorem closeConn_closed (cfg : Cfg) (s : St) (c x : Conn) :
    (closeConn cfg s c).closed x = true ↔ s.closed x = true ∨ (x = c ∧ s.ckey c ≠ none) := by
  unfold closeConn
  split
  · next hc =>
    constructor
    · exact Or.inl
    · rintro (h | ⟨rfl, _⟩)
      · exact h
      · exact hc
  · split
    · next hk => simp [hk]
    · next k hk =>
      simp only [decConns_closed, upd]
      constructor
      · intro h
        split at h
        · next he => exact Or.inr ⟨he, by simp [hk]⟩
        · exact Or.inl h
      · rintro (h | ⟨rfl, _⟩)
        · split
          · rfl
          · exact h
        · simp

theorem LruCore_closeConn (cfg : Cfg) (s : St) (c : Conn) (h : LruCore s) : LruCore (closeConn cfg s c) := by
  apply LruCore_of_closed_mono (s := s) (by simp) (by simp) (by simp) _ _ h
  · intro x hx; exact (closeConn_closed cfg s c x).mpr (Or.inl hx)
  · intro x hx
    simp only [closeConn_ckey]
    rcases (closeConn_closed cfg s c x).mp hx with h1 | ⟨rfl, h1⟩
    · exact h.closedCreated x h1
    · exact h1

theorem LruCore_decConns (cfg : Cfg) (s : St) (k : Key) (h : LruCore s) : LruCore (decConns cfg s k) :=
  LruCore_of_frame (by simp) (by simp) (by simp) (by simp) (by simp) h

@[simp] theorem removeIdleLocked_dupPanic (s : St) (c : Conn) : (removeIdleLocked s c).1.dupPanic = s.dupPanic := by
  unfold removeIdleLocked; (repeat' split) <;> rfl

theorem removeIdleLocked_lru (s : St) (c : Conn) (hk : s.ckey c ≠ none) :
    (removeIdleLocked s c).1.lru = s.lru.erase c := by
  unfold removeIdleLocked
  split
  · next h => exact absurd h hk
  · split <;> rfl

/-- Membership in the idle lists after `removeIdleLocked c` (with duplicate-free lists keyed
consistently): everything except `c`. -/
theorem removeIdleLocked_idle_mem (s : St) (c : Conn) (he : Excl s) (k : Key) (x : Conn) :
    x ∈ (removeIdleLocked s c).1.idle k ↔ x ∈ s.idle k ∧ x ≠ c := by
  unfold removeIdleLocked
  split
  · next hck =>
    constructor
    · intro hx
      refine ⟨hx, ?_⟩
      intro hxc; subst hxc
      rw [he.idleKey k x hx] at hck; cases hck
    · exact fun h => h.1
  · next kc hck =>
    split
    · next hcont =>
      simp only [upd]
      split
      · next hkk =>
        subst hkk
        rw [List.Nodup.mem_erase_iff (he.idleNodup _)]
        exact ⟨fun h => ⟨h.2, h.1⟩, fun h => ⟨h.2, h.1⟩⟩
      · next hkk =>
        constructor
        · intro hx
          refine ⟨hx, ?_⟩
          intro hxc; subst hxc
          rw [he.idleKey k x hx] at hck
          simp at hck; exact hkk hck
        · exact fun h => h.1
    · next hcont =>
      constructor
      · intro hx
        refine ⟨hx, ?_⟩
        intro hxc; subst hxc
        have e := he.idleKey k x hx
        rw [e] at hck; simp at hck; subst hck
        exact hcont (by simpa using hx)
      · exact fun h => h.1

theorem LruCore_removeIdleLocked (s : St) (c : Conn) (hk : s.ckey c ≠ none) (he : Excl s) (h : LruCore s) :
    LruCore (removeIdleLocked s c).1 where
  lruNodup := by rw [removeIdleLocked_lru s c hk]; exact h.lruNodup.erase c
  idleInLru := fun k x hx => by
    rw [removeIdleLocked_lru s c hk]
    obtain ⟨h1, h2⟩ := (removeIdleLocked_idle_mem s c he k x).mp hx
    exact (List.mem_erase_of_ne h2).mpr (h.idleInLru k x h1)
  lruIdleOrClosed := fun x hx => by
    rw [removeIdleLocked_lru s c hk] at hx
    obtain ⟨hne, hm⟩ := (List.Nodup.mem_erase_iff h.lruNodup).mp hx
    rcases h.lruIdleOrClosed x hm with ⟨k, hk'⟩ | hcl
    · exact Or.inl ⟨k, (removeIdleLocked_idle_mem s c he k x).mpr ⟨hk', hne⟩⟩
    · exact Or.inr (by simpa using hcl)
  noDup := by simp [h.noDup]
  closedCreated := by simpa using h.closedCreated

theorem LruLen_erase (cfg : Cfg) (s s' : St) (c : Conn) (hl : s'.lru = s.lru.erase c) (h : LruLen cfg s) :
    LruLen cfg s' := by
  intro hm; rw [hl]; exact Nat.le_trans List.length_erase_le (h hm)


theorem lru_created (s : St) (c : Conn) (he : Excl s) (h : LruCore s) (hc : c ∈ s.lru) : s.ckey c ≠ none := by
  rcases h.lruIdleOrClosed c hc with ⟨k, hk⟩ | hcl
  · rw [he.idleKey k c hk]; simp
  · exact h.closedCreated c hcl

theorem LruCore_evictOldest (cfg : Cfg) (s : St) (he : Excl s) (h : LruCore s) :
    LruCore (evictOldest cfg s) ∧ (evictOldest cfg s).lru.length ≤ s.lru.length - 1 := by
  unfold evictOldest
  split
  · next hnone =>
    refine ⟨h, ?_⟩
    have : s.lru = [] := by simpa using hnone
    simp [this]
  · next oldest hsome =>
    obtain ⟨ys, hys⟩ := List.getLast?_eq_some_iff.mp hsome
    have hnd := h.lruNodup
    rw [hys] at hnd
    have hnotin : oldest ∉ ys := by
      rw [List.nodup_append] at hnd
      intro hm; exact hnd.2.2 oldest hm oldest (by simp) rfl
    have hdrop : s.lru.dropLast = ys := by rw [hys]; exact List.dropLast_concat
    have hold : oldest ∈ s.lru := by rw [hys]; simp
    have hcreated : s.ckey oldest ≠ none := lru_created s oldest he h hold
    -- the intermediate state after dropping the LRU tail and closing the connection
    let sb := closeConn cfg { s with lru := s.lru.dropLast } oldest
    have heb : Excl sb := Excl_closeConn cfg _ oldest (Excl_of_frame (s := s) rfl rfl rfl rfl rfl he)
    have hckb : sb.ckey oldest ≠ none := by simp [sb, hcreated]
    have hlru : (removeIdleLocked sb oldest).1.lru = ys := by
      rw [removeIdleLocked_lru sb oldest hckb]
      simp only [sb, closeConn_lru, hdrop]
      exact List.erase_of_not_mem hnotin
    have hidle : ∀ k x, x ∈ (removeIdleLocked sb oldest).1.idle k ↔ x ∈ s.idle k ∧ x ≠ oldest := by
      intro k x
      rw [removeIdleLocked_idle_mem sb oldest heb k x]
      simp [sb]
    have hclosed : ∀ x, (removeIdleLocked sb oldest).1.closed x = true ↔ s.closed x = true ∨ x = oldest := by
      intro x
      simp only [removeIdleLocked_closed, sb]
      rw [closeConn_closed]
      simp [hcreated]
    refine ⟨⟨?_, ?_, ?_, ?_, ?_⟩, ?_⟩
    · rw [hlru]; rw [List.nodup_append] at hnd; exact hnd.1
    · intro k x hx
      rw [hlru]
      obtain ⟨h1, h2⟩ := (hidle k x).mp hx
      have := h.idleInLru k x h1
      rw [hys] at this
      rcases List.mem_append.mp this with hm | hm
      · exact hm
      · simp at hm; exact absurd hm h2
    · intro x hx
      rw [hlru] at hx
      have hxne : x ≠ oldest := by intro e; subst e; exact hnotin hx
      have hxl : x ∈ s.lru := by rw [hys]; exact List.mem_append.mpr (Or.inl hx)
      rcases h.lruIdleOrClosed x hxl with ⟨k, hk⟩ | hcl
      · exact Or.inl ⟨k, (hidle k x).mpr ⟨hk, hxne⟩⟩
      · exact Or.inr ((hclosed x).mpr (Or.inl hcl))
    · simp [sb, h.noDup]
    · intro x hx
      simp only [removeIdleLocked_ckey, sb, closeConn_ckey]
      rcases (hclosed x).mp hx with h1 | rfl
      · exact h.closedCreated x h1
      · exact hcreated
    · rw [hlru, hys]; simp

theorem LruCore_addIdle (cfg : Cfg) (s : St) (c : Conn) (k : Key) (hf : Free s c) (hk : s.ckey c = some k)
    (hnl : c ∉ s.lru) (he : Excl s) (h : LruCore s) (hlen : LruLen cfg s) :
    LruCore (addIdle cfg s c k) ∧ LruLen cfg (addIdle cfg s c k) := by
  let s2 : St := { s with idle := upd s.idle k (s.idle k ++ [c]), lru := c :: s.lru }
  have h2 : LruCore s2 := by
    refine ⟨List.nodup_cons.mpr ⟨hnl, h.lruNodup⟩, ?_, ?_, h.noDup, h.closedCreated⟩
    · intro k' x hx
      simp only [s2, upd] at hx
      split at hx
      · next heq =>
        subst heq
        rcases List.mem_append.mp hx with hx | hx
        · exact List.mem_cons_of_mem _ (h.idleInLru _ x hx)
        · simp at hx; subst hx; exact List.mem_cons_self
      · exact List.mem_cons_of_mem _ (h.idleInLru k' x hx)
    · intro x hx
      rcases List.mem_cons.mp hx with rfl | hx
      · exact Or.inl ⟨k, by simp [s2]⟩
      · rcases h.lruIdleOrClosed x hx with ⟨k', hk'⟩ | hcl
        · refine Or.inl ⟨k', ?_⟩
          simp only [s2, upd]
          split
          · next heq => subst heq; exact List.mem_append.mpr (Or.inl hk')
          · exact hk'
        · exact Or.inr hcl
  have he2 : Excl s2 := by
    have := Excl_addIdle cfg s c k hf hk he
    -- re-derive for the intermediate state (no eviction): same argument as in Excl_addIdle
    refine ⟨?_, ?_, ?_, ?_, he.transitNodup, he.transitNotHeld, he.heldUnique, he.transitCreated,
      he.heldCreated, he.connsNodup, he.connsCreated⟩
    · intro k'
      simp only [s2, upd]
      split
      · next heq =>
        subst heq
        rw [List.nodup_append]
        refine ⟨he.idleNodup _, by simp, ?_⟩
        intro a ha b hb
        simp at hb; subst hb
        intro hab; subst hab
        exact hf.1 _ ha
      · exact he.idleNodup k'
    · intro k' x hx
      simp only [s2, upd] at hx
      split at hx
      · next heq =>
        subst heq
        rcases List.mem_append.mp hx with hx | hx
        · exact he.idleKey _ x hx
        · simp at hx; subst hx; exact hk
      · exact he.idleKey k' x hx
    · intro k' x hx
      simp only [s2, upd] at hx
      split at hx
      · next heq =>
        subst heq
        rcases List.mem_append.mp hx with hx | hx
        · exact he.idleNotTransit _ x hx
        · simp at hx; subst hx; exact hf.2.1
      · exact he.idleNotTransit k' x hx
    · intro k' x w hx
      simp only [s2, upd] at hx
      split at hx
      · next heq =>
        subst heq
        rcases List.mem_append.mp hx with hx | hx
        · exact he.idleNotHeld _ x w hx
        · simp at hx; subst hx; exact hf.2.2 w
      · exact he.idleNotHeld k' x w hx
  unfold addIdle
  simp only
  split
  · next hover =>
    obtain ⟨hc, hl⟩ := LruCore_evictOldest cfg s2 he2 h2
    refine ⟨hc, ?_⟩
    intro hm
    have := hlen hm
    simp only [s2, List.length_cons] at hl
    omega
  · next hnot =>
    refine ⟨h2, ?_⟩
    intro hm
    show (c :: s.lru).length ≤ cfg.maxIdle
    have : ¬ ((c :: s.lru).length > cfg.maxIdle) := fun hgt => hnot ⟨hm, hgt⟩
    omega


def LruAll (cfg : Cfg) (s : St) : Prop := LruCore s ∧ LruLen cfg s

theorem LruAll_of_frame {cfg : Cfg} {s s' : St} (hi : s'.idle = s.idle) (hl : s'.lru = s.lru)
    (hd : s'.dupPanic = s.dupPanic) (hc : s'.closed = s.closed) (hk : s'.ckey = s.ckey)
    (h : LruAll cfg s) : LruAll cfg s' :=
  ⟨LruCore_of_frame hi hl hd hc hk h.1, by intro hm; rw [hl]; exact h.2 hm⟩

theorem free_not_in_lru (s : St) (c : Conn) (hf : Free s c) (hnc : s.closed c = false) (h : LruCore s) :
    c ∉ s.lru := by
  intro hc
  rcases h.lruIdleOrClosed c hc with ⟨k, hk⟩ | hcl
  · exact hf.1 k hk
  · rw [hnc] at hcl; cases hcl

theorem LruAll_tryPut (cfg : Cfg) (s : St) (c : Conn) (k : Key) (hf : Free s c) (hk : s.ckey c = some k)
    (he : Excl s) (h : LruAll cfg s) : LruAll cfg (tryPut cfg s c k).1 := by
  unfold tryPut
  split
  · exact h
  · split
    · exact h
    · next hncl =>
      have hnc : s.closed c = false := by simpa using hncl
      split
      · exact LruAll_of_frame (s := s) rfl rfl rfl rfl rfl h
      · next q heq =>
        have h1 : LruAll cfg { s with idleWait := upd s.idleWait k q } :=
          LruAll_of_frame (s := s) rfl rfl rfl rfl rfl h
        have he1 : Excl { s with idleWait := upd s.idleWait k q } := Excl_of_frame (s := s) rfl rfl rfl rfl rfl he
        have hf1 : Free { s with idleWait := upd s.idleWait k q } c := hf
        have hnl : c ∉ s.lru := free_not_in_lru s c hf hnc h.1
        simp only
        split
        · exact h1
        · split
          · exact h1
          · split
            · next hdup =>
              exfalso
              simp only [Bool.or_eq_true, List.contains_iff_mem] at hdup
              rcases hdup with hd | hd
              · exact hf.1 k hd
              · exact hnl hd
            · exact LruCore_addIdle cfg _ c k hf1 hk hnl he1 h1.1 h1.2

theorem LruAll_queueIdle (cfg : Cfg) (s : St) (w : Want) (k : Key) (he : Excl s) (h : LruAll cfg s) :
    LruAll cfg (queueIdle cfg s w k).1 := by
  unfold queueIdle
  split
  · exact h
  · simp only
    split
    · next c rest heq =>
      obtain ⟨pre, hpre, hprecl, _⟩ := scanIdle_some _ _ _ _ heq
      obtain ⟨hs1, hs2, hcr, hcl⟩ := scan_facts (s.idle k) pre rest c (he.idleNodup k) hpre
      -- every element of the old list is dropped-and-closed, the candidate, or kept
      have hsplit : ∀ x, x ∈ s.idle k → s.closed x = true ∨ x = c ∨ x ∈ rest := by
        intro x hx
        have : x ∈ (s.idle k).reverse := List.mem_reverse.mpr hx
        rw [hpre] at this
        rcases List.mem_append.mp this with hm | hm
        · exact Or.inl (hprecl x hm)
        · rcases List.mem_cons.mp hm with rfl | hm
          · exact Or.inr (Or.inl rfl)
          · exact Or.inr (Or.inr hm)
      split
      · -- delivered: c leaves the list and the LRU
        refine ⟨⟨h.1.lruNodup.erase c, ?_, ?_, h.1.noDup, h.1.closedCreated⟩, ?_⟩
        · intro k' x hx
          simp only [upd] at hx
          split at hx
          · next hkk =>
            subst hkk
            have hxr : x ∈ rest := List.mem_reverse.mp hx
            have hxne : x ≠ c := by intro e; subst e; exact hcr hxr
            exact (List.mem_erase_of_ne hxne).mpr (h.1.idleInLru _ x (hs2.subset hx))
          · next hkk =>
            have hxne : x ≠ c := by
              intro e; subst e
              have e1 := he.idleKey k' x hx
              have e2 := he.idleKey k x hcl
              rw [e1] at e2; simp at e2; exact hkk e2
            exact (List.mem_erase_of_ne hxne).mpr (h.1.idleInLru k' x hx)
        · intro x hx
          obtain ⟨hne, hm⟩ := (List.Nodup.mem_erase_iff h.1.lruNodup).mp hx
          rcases h.1.lruIdleOrClosed x hm with ⟨k', hk'⟩ | hcl'
          · by_cases hkk : k' = k
            · subst hkk
              rcases hsplit x hk' with h1 | h1 | h1
              · exact Or.inr h1
              · exact absurd h1 hne
              · exact Or.inl ⟨k', by simp [upd]; exact h1⟩
            · exact Or.inl ⟨k', by simp [upd, hkk]; exact hk'⟩
          · exact Or.inr hcl'
        · intro hm; exact Nat.le_trans List.length_erase_le (h.2 hm)
      · -- not delivered: broken ones dropped from the list, LRU untouched
        refine ⟨⟨h.1.lruNodup, ?_, ?_, h.1.noDup, h.1.closedCreated⟩, h.2⟩
        · intro k' x hx
          simp only [upd] at hx
          split at hx
          · next hkk => subst hkk; exact h.1.idleInLru _ x (hs1.subset hx)
          · exact h.1.idleInLru k' x hx
        · intro x hx
          rcases h.1.lruIdleOrClosed x hx with ⟨k', hk'⟩ | hcl'
          · by_cases hkk : k' = k
            · subst hkk
              rcases hsplit x hk' with h1 | h1 | h1
              · exact Or.inr h1
              · exact Or.inl ⟨k', by simp [upd, h1]⟩
              · exact Or.inl ⟨k', by simp [upd]; exact Or.inl h1⟩
            · exact Or.inl ⟨k', by simp [upd, hkk]; exact hk'⟩
          · exact Or.inr hcl'
    · next r heq =>
      have hall := scanIdle_none _ _ _ heq
      refine ⟨⟨h.1.lruNodup, ?_, ?_, h.1.noDup, h.1.closedCreated⟩, h.2⟩
      · intro k' x hx
        simp only [upd] at hx
        split at hx
        · simp at hx
        · exact h.1.idleInLru k' x hx
      · intro x hx
        rcases h.1.lruIdleOrClosed x hx with ⟨k', hk'⟩ | hcl'
        · by_cases hkk : k' = k
          · subst hkk
            exact Or.inr (hall x (List.mem_reverse.mpr hk'))
          · exact Or.inl ⟨k', by simp [upd, hkk]; exact hk'⟩
        · exact Or.inr hcl'


theorem queueDial_frame2 (cfg : Cfg) (s : St) (w : Want) (k : Key) :
    (queueDial cfg s w k).lru = s.lru ∧ (queueDial cfg s w k).dupPanic = s.dupPanic ∧
    (queueDial cfg s w k).closed = s.closed := by
  unfold queueDial startDial
  (repeat' split) <;> exact ⟨rfl, rfl, rfl⟩

theorem LruAll_closeConn (cfg : Cfg) (s : St) (c : Conn) (h : LruAll cfg s) : LruAll cfg (closeConn cfg s c) :=
  ⟨LruCore_closeConn cfg s c h.1, by intro hm; simp only [closeConn_lru]; exact h.2 hm⟩

theorem LruAll_decConns (cfg : Cfg) (s : St) (k : Key) (h : LruAll cfg s) : LruAll cfg (decConns cfg s k) :=
  ⟨LruCore_decConns cfg s k h.1, by intro hm; simp only [decConns_lru]; exact h.2 hm⟩

theorem LruAll_removeIdleLocked (cfg : Cfg) (s : St) (c : Conn) (hk : s.ckey c ≠ none) (he : Excl s)
    (h : LruAll cfg s) : LruAll cfg (removeIdleLocked s c).1 :=
  ⟨LruCore_removeIdleLocked s c hk he h.1, LruLen_erase cfg s _ c (removeIdleLocked_lru s c hk) h.2⟩

theorem LruAll_create (cfg : Cfg) (s : St) (c : Conn) (k : Key) (w : Want) (hfresh : s.ckey c = none)
    (he : Excl s) (h : LruAll cfg s) :
    LruAll cfg { s with ckey := upd s.ckey c (some k), closed := upd s.closed c false,
                        conns := c :: s.conns, dialing := s.dialing.erase w } := by
  have hnl : c ∉ s.lru := fun hc => lru_created s c he h.1 hc hfresh
  refine ⟨⟨h.1.lruNodup, h.1.idleInLru, ?_, h.1.noDup, ?_⟩, h.2⟩
  · intro x hx
    rcases h.1.lruIdleOrClosed x hx with h1 | h1
    · exact Or.inl h1
    · refine Or.inr ?_
      have : x ≠ c := by intro e; subst e; exact hnl hx
      simp only [upd, this, if_false]; exact h1
  · intro x hx
    simp only [upd] at hx ⊢
    split at hx
    · cases hx
    · next hne => simp only [hne, if_false]; exact h.1.closedCreated x hx

theorem LruAll_step (cfg : Cfg) (s : St) (op : Op) (he : Excl s) (h : LruAll cfg s) :
    LruAll cfg (step cfg s op).1 := by
  cases op with
  | newWant w k =>
    simp only [step]; split
    · exact h
    · exact LruAll_of_frame (s := s) rfl rfl rfl rfl rfl h
  | queueIdle w => simp only [step]; split; exact h; exact LruAll_queueIdle cfg s w _ he h
  | queueDial w =>
    simp only [step]; split; exact h
    split; exact h
    next k _ _ =>
    obtain ⟨a, _, _, d, _⟩ := queueDial_frame cfg s w k
    obtain ⟨b, c, e⟩ := queueDial_frame2 cfg s w k
    exact LruAll_of_frame a b c e d h
  | dialBegin w =>
    simp only [step]; split; exact h
    split; exact h
    split; exact h
    exact LruAll_decConns cfg _ _ (LruAll_of_frame (s := s) rfl rfl rfl rfl rfl h)
  | dialOk w c =>
    simp only [step]; split
    · next k hwk hck =>
      split; exact h
      have h1 := LruAll_create cfg s c k w hck he h
      split
      · exact LruAll_of_frame (s := { s with ckey := upd s.ckey c (some k), closed := upd s.closed c false,
                                              conns := c :: s.conns, dialing := s.dialing.erase w })
          rfl rfl rfl rfl rfl h1
      · exact LruAll_of_frame (s := { s with ckey := upd s.ckey c (some k), closed := upd s.closed c false,
                                              conns := c :: s.conns, dialing := s.dialing.erase w })
          rfl rfl rfl rfl rfl h1
    · exact h
  | dialFail w =>
    simp only [step]; split; exact h
    split; exact h
    simp only
    split
    · exact LruAll_decConns cfg _ _ (LruAll_of_frame (s := s) rfl rfl rfl rfl rfl h)
    · exact LruAll_decConns cfg _ _ (LruAll_of_frame (s := s) rfl rfl rfl rfl rfl h)
  | dialEnd w =>
    simp only [step]; split
    · exact h
    · exact LruAll_of_frame (s := s) rfl rfl rfl rfl rfl h
  | recv w =>
    simp only [step]; split
    · exact LruAll_of_frame (s := s) rfl rfl rfl rfl rfl h
    · exact LruAll_of_frame (s := s) rfl rfl rfl rfl rfl h
    · exact h
  | cancel w =>
    simp only [step]; split; exact h
    split
    · exact LruAll_of_frame (s := s) rfl rfl rfl rfl rfl h
    · exact LruAll_of_frame (s := s) rfl rfl rfl rfl rfl h
    · exact LruAll_of_frame (s := s) rfl rfl rfl rfl rfl h
    · exact h
  | putT c =>
    simp only [step]; split; exact h
    split; exact h
    next k hk hmem =>
    have hmem' : c ∈ s.transit := by simpa using hmem
    have h1 := LruAll_tryPut cfg { s with transit := s.transit.erase c } c k
      (Free_after_transit_erase s c hmem' he) hk (Excl_transit_erase s c he)
      (LruAll_of_frame (s := s) rfl rfl rfl rfl rfl h)
    split
    · exact h1
    · exact LruAll_of_frame (s := (tryPut cfg { s with transit := s.transit.erase c } c k).1)
        rfl rfl rfl rfl rfl h1
  | closeT c =>
    simp only [step]; split; exact h
    exact LruAll_closeConn cfg _ c (LruAll_of_frame (s := s) rfl rfl rfl rfl rfl h)
  | finishPut w =>
    simp only [step]; split
    · next c hst =>
      split; exact h
      next k hk =>
      have hholds : (s.wst w).holds c = true := by rw [hst]; exact (holds_inUse c c).mpr rfl
      have h1 := LruAll_tryPut cfg { s with wst := upd s.wst w .finished } c k
        (Free_after_release s w c .finished (fun d => holds_finished d) hholds he) hk
        (Excl_release s w .finished (fun d => holds_finished d) he)
        (LruAll_of_frame (s := s) rfl rfl rfl rfl rfl h)
      split
      · exact h1
      · exact LruAll_of_frame (s := (tryPut cfg { s with wst := upd s.wst w .finished } c k).1)
          rfl rfl rfl rfl rfl h1
    · exact h
  | finishClose w =>
    simp only [step]; split
    · exact LruAll_closeConn cfg _ _ (LruAll_of_frame (s := s) rfl rfl rfl rfl rfl h)
    · exact h
  | serverCloseIdle c =>
    simp only [step]; split; exact h
    split
    · exact LruAll_closeConn cfg s c h
    · exact h
  | removeIdle c =>
    simp only [step]; split; exact h
    next k hk =>
    split
    · exact LruAll_removeIdleLocked cfg s c (by rw [hk]; simp) he h
    · exact h
  | idleTimeout c =>
    simp only [step]; split; exact h
    next hin =>
    have hmem : c ∈ s.lru := by simpa using hin
    exact LruAll_closeConn cfg _ c (LruAll_removeIdleLocked cfg s c (lru_created s c he h.1 hmem) he h)
  | closeIdleConnections =>
    simp only [step]
    refine ⟨⟨by simp, by intro k c hc; simp at hc, by intro c hc; simp at hc, h.1.noDup, h.1.closedCreated⟩, ?_⟩
    intro _; simp

theorem LruAll_init (cfg : Cfg) : LruAll cfg {} :=
  ⟨⟨by simp, by intro k c hc; simp at hc, by intro c hc; simp at hc, rfl, by intro c hc; simp at hc⟩,
   by intro _; simp⟩

theorem Excl_LruAll_run (cfg : Cfg) (s : St) (ops : List Op) (he : Excl s) (h : LruAll cfg s) :
    Excl (run cfg s ops) ∧ LruAll cfg (run cfg s ops) := by
  induction ops generalizing s with
  | nil => exact ⟨he, h⟩
  | cons op ops ih => exact ih _ (Excl_step cfg s op he) (LruAll_step cfg s op he h)


/-! ### total number of idle connections -/

theorem nodup_subset_length (l₁ : List Nat) : ∀ (l₂ : List Nat), l₁.Nodup → (∀ x ∈ l₁, x ∈ l₂) →
    l₁.length ≤ l₂.length := by
  induction l₁ with
  | nil => intros; simp
  | cons a t ih =>
    intro l₂ hnd hsub
    have ha : a ∈ l₂ := hsub a List.mem_cons_self
    obtain ⟨hat, hndt⟩ := List.nodup_cons.mp hnd
    have hsub' : ∀ x ∈ t, x ∈ l₂.erase a := by
      intro x hx
      have hne : x ≠ a := by intro e; subst e; exact hat hx
      exact (List.mem_erase_of_ne hne).mpr (hsub x (List.mem_cons_of_mem _ hx))
    have := ih (l₂.erase a) hndt hsub'
    rw [List.length_erase_of_mem ha] at this
    have hpos : 0 < l₂.length := List.length_pos_of_mem ha
    simp only [List.length_cons]
    omega

theorem flatMap_idle_nodup (s : St) (he : Excl s) (ks : List Key) (hks : ks.Nodup) :
    (ks.flatMap s.idle).Nodup := by
  induction ks with
  | nil => simp
  | cons k rest ih =>
    obtain ⟨hk, hrest⟩ := List.nodup_cons.mp hks
    simp only [List.flatMap_cons]
    rw [List.nodup_append]
    refine ⟨he.idleNodup k, ih hrest, ?_⟩
    intro a ha b hb hab
    subst hab
    obtain ⟨k', hk', hbk'⟩ := List.mem_flatMap.mp hb
    have e1 := he.idleKey k a ha
    have e2 := he.idleKey k' a hbk'
    rw [e1] at e2; simp at e2; subst e2
    exact hk hk'

/-- Over any set of distinct keys, the idle lists together hold at most `|idleLRU|` connections. -/
theorem total_idle_le_lru (s : St) (he : Excl s) (h : LruCore s) (ks : List Key) (hks : ks.Nodup) :
    (ks.map (fun k => (s.idle k).length)).sum ≤ s.lru.length := by
  rw [← List.length_flatMap]
  apply nodup_subset_length _ _ (flatMap_idle_nodup s he ks hks)
  intro x hx
  obtain ⟨k, _, hk⟩ := List.mem_flatMap.mp hx
  exact h.idleInLru k x hk

end Req.Lemmas.C09PoolLru
