import Req.Lemmas.H1Body
/-!
Hex print/parse round trip and the chunked writer/reader round trip.
-/
namespace Req.H1
open Req.Proto

/-! ### hex digits -/

theorem hexVal_hexDigitByte : ∀ d, d < 16 → hexVal? (hexDigitByte d) = some d := by decide

/-- A hex digit byte is not LF, not `;`, not ASCII whitespace. -/
theorem hexDigitByte_plain : ∀ d, d < 16 →
    hexDigitByte d ≠ LF ∧ hexDigitByte d ≠ 59 ∧ isASCIISpace (hexDigitByte d) = false := by decide

def IsHexDigit (c : UInt8) : Prop := ∃ d, d < 16 ∧ c = hexDigitByte d

theorem toHexAcc_digits (fuel n : Nat) (acc : Bytes) (h : ∀ c ∈ acc, IsHexDigit c) :
    ∀ c ∈ toHexAcc fuel n acc, IsHexDigit c := by
  induction fuel generalizing n acc with
  | zero => simpa [toHexAcc] using h
  | succ fuel ih =>
    simp only [toHexAcc]
    split
    · next hn =>
      intro c hc
      rcases List.mem_cons.mp hc with rfl | hc
      · exact ⟨n, hn, rfl⟩
      · exact h c hc
    · apply ih
      intro c hc
      rcases List.mem_cons.mp hc with rfl | hc
      · exact ⟨n % 16, Nat.mod_lt _ (by decide), rfl⟩
      · exact h c hc

theorem parseHexAcc_toHexAcc (fuel n : Nat) (acc : Bytes) (h : n < 16 ^ fuel) :
    parseHexAcc 0 (toHexAcc fuel n acc) = parseHexAcc n acc := by
  induction fuel generalizing n acc with
  | zero =>
    have : n = 0 := by simpa using h
    simp [toHexAcc, this]
  | succ fuel ih =>
    simp only [toHexAcc]
    split
    · next hn => simp [parseHexAcc, hexVal_hexDigitByte n hn]
    · next hn =>
      have hdiv : n / 16 < 16 ^ fuel := by
        rw [Nat.div_lt_iff_lt_mul (by decide)]
        rw [Nat.pow_succ] at h
        exact h
      rw [ih (n / 16) _ hdiv]
      simp only [parseHexAcc, hexVal_hexDigitByte (n % 16) (Nat.mod_lt _ (by decide))]
      congr 1
      omega

theorem toHexAcc_length (fuel n k : Nat) (acc : Bytes) (hk : 1 ≤ k) (h : n < 16 ^ k) :
    (toHexAcc fuel n acc).length ≤ k + acc.length := by
  induction fuel generalizing n k acc with
  | zero => simp [toHexAcc]
  | succ fuel ih =>
    simp only [toHexAcc]
    split
    · simp; omega
    · next hn =>
      have hk2 : 2 ≤ k := by
        rcases Nat.lt_or_ge k 2 with h1 | h1
        · have : k = 1 := by omega
          subst this
          simp at h
          omega
        · exact h1
      have hdiv : n / 16 < 16 ^ (k - 1) := by
        rw [Nat.div_lt_iff_lt_mul (by decide)]
        have : 16 ^ k = 16 ^ (k - 1) * 16 := by
          rw [← Nat.pow_succ]; congr 1; omega
        rw [← this]; exact h
      have := ih (n / 16) (k - 1) (hexDigitByte (n % 16) :: acc) (by omega) hdiv
      simp at this
      omega

theorem lt_sixteen_pow_succ (n : Nat) : n < 16 ^ (n + 1) := by
  have h1 : n < 2 ^ n := Nat.lt_two_pow_self
  have h2 : 2 ^ n ≤ 2 ^ (4 * (n + 1)) := Nat.pow_le_pow_right (by decide) (by omega)
  have h3 : (2 : Nat) ^ (4 * (n + 1)) = 16 ^ (n + 1) := by
    rw [Nat.pow_mul]
  omega

theorem toHex_ne_nil (n : Nat) : toHex n ≠ [] := by
  unfold toHex
  simp only [toHexAcc]
  split
  · simp
  · intro h
    have := toHexAcc_digits n (n / 16) [hexDigitByte (n % 16)] (by
      intro c hc; simp at hc; exact ⟨n % 16, Nat.mod_lt _ (by decide), hc⟩)
    have hlen : ∀ (fuel m : Nat) (acc : Bytes), acc ≠ [] → toHexAcc fuel m acc ≠ [] := by
      intro fuel
      induction fuel with
      | zero => intro m acc ha; simpa [toHexAcc] using ha
      | succ f ihf =>
        intro m acc ha
        simp only [toHexAcc]
        split
        · simp
        · exact ihf _ _ (by simp)
    exact hlen n (n / 16) [hexDigitByte (n % 16)] (by simp) h

theorem toHex_digits (n : Nat) : ∀ c ∈ toHex n, IsHexDigit c :=
  toHexAcc_digits _ _ [] (by simp)

/-- **Hex round trip**: what `%x` prints, `parseHexUint` reads back (for every uint64). -/
theorem parseHexUint_toHex (n : Nat) (h : n < 2 ^ 64) : parseHexUint (toHex n) = some n := by
  unfold parseHexUint
  have hne := toHex_ne_nil n
  have hlen : (toHex n).length ≤ 16 := by
    have := toHexAcc_length (n + 1) n 16 [] (by decide) (by
      have : (16 : Nat) ^ 16 = 2 ^ 64 := by decide
      omega)
    simpa [toHex] using this
  have hparse : parseHexAcc 0 (toHex n) = some n := by
    unfold toHex
    rw [parseHexAcc_toHexAcc _ _ _ (lt_sixteen_pow_succ n)]
    rfl
  have h1 : (toHex n).isEmpty = false := by
    cases hx : toHex n with
    | nil => exact absurd hx hne
    | cons _ _ => rfl
  have h2 : ¬ (toHex n).length > 16 := by omega
  simp [h1, h2, hparse]

/-! ### list helpers -/

theorem splitLF_of_noLF {a : Bytes} (h : ∀ c ∈ a, c ≠ LF) (r : Bytes) :
    splitLF (a ++ LF :: r) = some (a, r) := by
  induction a with
  | nil => simp [splitLF]
  | cons c cs ih =>
    have hc : c ≠ LF := h c (by simp)
    have := ih (fun x hx => h x (by simp [hx]))
    simp [splitLF, hc, this]

theorem cutByte_none {b : UInt8} {a : Bytes} (h : ∀ c ∈ a, c ≠ b) : cutByte b a = none := by
  induction a with
  | nil => rfl
  | cons c cs ih =>
    have hc : c ≠ b := h c (by simp)
    simp [cutByte, hc, ih (fun x hx => h x (by simp [hx]))]

theorem dropWhile_of_head {p : UInt8 → Bool} {l : Bytes} (h : ∀ c ∈ l.head?, p c = false) :
    l.dropWhile p = l := by
  cases l with
  | nil => rfl
  | cons c cs =>
    have : p c = false := h c (by simp)
    simp [List.dropWhile, this]

/-- The size field of the line `hex CR LF` is `hex`. -/
theorem chunkSizeField_hexLine {hx : Bytes} (hd : ∀ c ∈ hx, IsHexDigit c) :
    chunkSizeField (hx ++ [CR, LF]) = hx := by
  have hplain : ∀ c ∈ hx, c ≠ LF ∧ c ≠ 59 ∧ isASCIISpace c = false := by
    intro c hc
    obtain ⟨d, hd16, rfl⟩ := hd c hc
    exact hexDigitByte_plain d hd16
  have htrim : trimTrailingWS (hx ++ [CR, LF]) = hx := by
    unfold trimTrailingWS
    simp only [List.reverse_append, List.reverse_cons, List.reverse_nil, List.nil_append,
      List.cons_append]
    have h1 : isASCIISpace LF = true := by decide
    have h2 : isASCIISpace CR = true := by decide
    simp only [List.dropWhile, h1, h2]
    rw [dropWhile_of_head]
    · simp
    · intro c hc
      have : c ∈ hx.reverse := List.mem_of_mem_head? hc
      exact (hplain c (List.mem_reverse.mp this)).2.2
  unfold chunkSizeField
  simp only [htrim]
  rw [cutByte_none (fun c hc => (hplain c hc).2.1)]

/-! ### one chunk, then the rest -/

theorem wrap64_id {z : Int} (h1 : -(2 ^ 63) ≤ z) (h2 : z < 2 ^ 63) : wrap64 z = z := by
  unfold wrap64
  have : (z + 2 ^ 63) % 2 ^ 64 = z + 2 ^ 63 := Int.emod_eq_of_lt (by omega) (by omega)
  omega

/-- A size line no longer than 18 bytes in front of at least one data byte leaves no excess. -/
theorem excess_zero (L n : Nat) (hL : L ≤ 18) (hrel : L + 2 ≤ 16 + 2 * n) (hn : n < 2 ^ 61) :
    max (wrap64 ((0 : Int) + (L : Int) + 2 - (16 + 2 * (n : Int)))) 0 = 0 := by
  have hz : wrap64 ((0 : Int) + (L : Int) + 2 - (16 + 2 * (n : Int))) =
      (0 : Int) + (L : Int) + 2 - (16 + 2 * (n : Int)) := wrap64_id (by omega) (by omega)
  rw [hz]
  omega

theorem readChunkLine_hexLine {B : Nat} {hx : Bytes} (hd : ∀ c ∈ hx, IsHexDigit c)
    (hlen : hx.length ≤ 16) (hB : 18 ≤ B) (r : Bytes) :
    readChunkLine B (hx ++ [CR, LF] ++ r) = some (hx ++ [CR, LF], r) := by
  have hno : ∀ c ∈ hx ++ [CR], c ≠ LF := by
    intro c hc
    rcases List.mem_append.mp hc with hc | hc
    · obtain ⟨d, hd16, rfl⟩ := hd c hc
      exact (hexDigitByte_plain d hd16).1
    · simp at hc; subst hc; decide
  have hs : splitLF (hx ++ [CR, LF] ++ r) = some (hx ++ [CR], r) := by
    have := splitLF_of_noLF hno r
    simpa using this
  unfold readChunkLine
  simp only [hs]
  have : (hx ++ [CR]).length + 1 ≤ B ∧ (hx ++ [CR]).length + 1 < maxLineLength := by
    simp [maxLineLength]; omega
  rw [if_pos this]
  simp

/-- Reading one written chunk: the data comes out and the loop continues behind it with the
overhead counter back at zero. -/
theorem chunkLoop_encodeChunk {fuel B : Nat} {d : Bytes} (hd : d ≠ []) (hsz : d.length < 2 ^ 61)
    (hB : 18 ≤ B) (tail : Bytes) :
    chunkLoop (fuel + 1) B 0 (encodeChunk d ++ tail) =
      ((d ++ (chunkLoop fuel B 0 tail).1), (chunkLoop fuel B 0 tail).2) := by
  have hne : d.isEmpty = false := by
    cases d with
    | nil => exact absurd rfl hd
    | cons _ _ => rfl
  have hdig := toHex_digits d.length
  have hlen16 : (toHex d.length).length ≤ 16 := by
    have := toHexAcc_length (d.length + 1) d.length 16 [] (by decide) (by
      have : (16 : Nat) ^ 16 = 2 ^ 64 := by decide
      omega)
    simpa [toHex] using this
  have hline : readChunkLine B (encodeChunk d ++ tail) =
      some (toHex d.length ++ [CR, LF], d ++ [CR, LF] ++ tail) := by
    have := readChunkLine_hexLine (B := B) hdig hlen16 hB (d ++ [CR, LF] ++ tail)
    simpa [encodeChunk, hne, List.append_assoc] using this
  have hparse : parseHexUint (chunkSizeField (toHex d.length ++ [CR, LF])) = some d.length := by
    rw [chunkSizeField_hexLine hdig]
    exact parseHexUint_toHex _ (by omega)
  have hpos : 0 < d.length := List.length_pos_iff.mpr hd
  -- the overhead counter stays at zero
  have hL : (toHex d.length ++ [CR, LF]).length ≤ 18 := by simp; omega
  have hrel : (toHex d.length ++ [CR, LF]).length + 2 ≤ 16 + 2 * d.length := by
    rcases Nat.lt_or_ge d.length 2 with h1 | h2
    · have h1' : d.length = 1 := by omega
      have : toHex 1 = [49] := by decide
      simp [h1', this]
    · omega
  have hex := excess_zero _ _ hL hrel hsz
  simp only [chunkLoop, hline, hparse]
  rw [hex]
  have h0 : d.length ≠ 0 := by omega
  have hlenr : ¬ (d ++ [CR, LF] ++ tail).length < d.length := by simp
  have hdrop : (d ++ [CR, LF] ++ tail).drop d.length = CR :: LF :: tail := by
    simp [List.append_assoc]
  have htake : (d ++ [CR, LF] ++ tail).take d.length = d := by
    simp [List.append_assoc]
  simp only [h0, if_false, hlenr, hdrop, htake]
  have : ¬ ((0 : Int) > 16 * 1024) := by decide
  simp only [this, if_false]

/-- The last-chunk line `0 CR LF`: the reader stops, the trailer section follows. -/
theorem chunkLoop_last {fuel B : Nat} (hB : 18 ≤ B) (rest : Bytes) :
    chunkLoop (fuel + 1) B 0 ([48, CR, LF] ++ rest) = ([], some rest) := by
  have hdig : ∀ c ∈ ([48] : Bytes), IsHexDigit c := by
    intro c hc; simp at hc; subst hc; exact ⟨0, by decide, by decide⟩
  have hline : readChunkLine B (48 :: CR :: LF :: rest) = some ([48, CR, LF], rest) := by
    have := readChunkLine_hexLine (B := B) hdig (by simp) hB rest
    simpa using this
  have hparse : parseHexUint (chunkSizeField ([48, CR, LF])) = some 0 := by
    have := chunkSizeField_hexLine hdig
    simp only [List.cons_append, List.nil_append] at this
    rw [this]
    decide
  show chunkLoop (fuel + 1) B 0 (48 :: CR :: LF :: rest) = ([], some rest)
  simp only [chunkLoop, hline, hparse]
  simp

/-- **Chunked round trip** on the loop: for every split of a body into non-empty chunks, and
whatever follows the last-chunk line, the reader returns the concatenation and stops exactly
behind the last-chunk line. -/
theorem chunkLoop_encodeChunked {B : Nat} (hB : 18 ≤ B) (chunks : List Bytes)
    (hne : ∀ c ∈ chunks, c ≠ []) (hsz : ∀ c ∈ chunks, c.length < 2 ^ 61) (rest : Bytes)
    (fuel : Nat) (hf : chunks.length < fuel) :
    chunkLoop fuel B 0 (encodeChunked chunks ++ rest) = (chunks.flatten, some rest) := by
  induction chunks generalizing fuel with
  | nil =>
    obtain ⟨f, rfl⟩ : ∃ f, fuel = f + 1 := ⟨fuel - 1, by simp at hf; omega⟩
    simpa [encodeChunked] using chunkLoop_last (fuel := f) hB rest
  | cons d ds ih =>
    obtain ⟨f, rfl⟩ : ∃ f, fuel = f + 1 := ⟨fuel - 1, by simp at hf; omega⟩
    have hd : d ≠ [] := hne d (by simp)
    have hdz : d.length < 2 ^ 61 := hsz d (by simp)
    have hrec := ih (fun c hc => hne c (by simp [hc])) (fun c hc => hsz c (by simp [hc])) f
      (by simp at hf; omega)
    have hshape : encodeChunked (d :: ds) ++ rest = encodeChunk d ++ (encodeChunked ds ++ rest) := by
      simp [encodeChunked, List.append_assoc]
    rw [hshape, chunkLoop_encodeChunk hd hdz hB, hrec]
    simp

theorem encodeChunk_length {d : Bytes} (hd : d ≠ []) : 1 ≤ (encodeChunk d).length := by
  cases d with
  | nil => exact absurd rfl hd
  | cons c cs => simp [encodeChunk]; omega

theorem encodeChunked_length (chunks : List Bytes) (hne : ∀ c ∈ chunks, c ≠ []) :
    chunks.length < (encodeChunked chunks).length := by
  induction chunks with
  | nil => simp [encodeChunked]
  | cons d ds ih =>
    have h1 := encodeChunk_length (hne d (by simp))
    have h2 := ih (fun c hc => hne c (by simp [hc]))
    simp [encodeChunked] at h2 ⊢
    omega

/-! ### header map -/

theorem HeaderMap.get_del_self (h : HeaderMap) (k : Bytes) : (HeaderMap.del h k).get k = none := by
  unfold HeaderMap.del HeaderMap.get
  induction h with
  | nil => rfl
  | cons p ps ih =>
    simp only [List.filter]
    split
    · next hp =>
      simp only [List.lookup]
      have : (k == p.1) = false := by
        have : (p.1 != k) = true := hp
        simp only [bne_iff_ne, ne_eq] at this
        simp [beq_eq_false_iff_ne]
        exact fun h => this h.symm
      simp [this, ih]
    · exact ih

theorem HeaderMap.get_del_none (h : HeaderMap) (k k' : Bytes) (hn : HeaderMap.get h k = none) :
    (HeaderMap.del h k').get k = none := by
  unfold HeaderMap.del HeaderMap.get at *
  induction h with
  | nil => rfl
  | cons p ps ih =>
    simp only [List.lookup] at hn
    split at hn
    · simp at hn
    · next hkp =>
      simp only [List.filter]
      split
      · simp only [List.lookup, hkp]
        exact ih hn
      · exact ih hn

end Req.H1
