import Req.H2.WriteBlock
import Req.Lemmas.C05H2
/-!
Lemmas for `header_block_fragmentation` / `header_block_reassembled` (Req.Props.C05Frag):
`ClientConn.writeHeaders` cuts a header block into HEADERS + CONTINUATION frames that the frame
reader returns one by one and whose fragments concatenate to the block.
-/
namespace Req.Lemmas.C05.Frag
open Req.Proto Req.H2.Frame Req.Lemmas.C05.H2

/-! ### chunks -/

theorem chunks_flatten (max : Nat) (hm : 1 ≤ max) :
    ∀ (fuel : Nat) (b : Bytes), b.length ≤ fuel → (chunks max fuel b).flatten = b := by
  intro fuel
  induction fuel with
  | zero => intro b hb; have : b = [] := List.length_eq_zero_iff.mp (by omega); subst this; rfl
  | succ n ih =>
    intro b hb
    unfold chunks
    split
    next he => simp at he; subst he; rfl
    next he =>
      have hlen : (b.drop max).length ≤ n := by
        have : b.length ≠ 0 := by intro h0; exact he (by simp [List.length_eq_zero_iff.mp h0])
        simp only [List.length_drop]; omega
      simp only [List.flatten_cons, ih _ hlen, List.take_append_drop]

theorem chunks_bound (max : Nat) (hm : 1 ≤ max) :
    ∀ (fuel : Nat) (b : Bytes), ∀ c ∈ chunks max fuel b, c.length ≤ max ∧ c ≠ [] := by
  intro fuel
  induction fuel with
  | zero => intro b c hc; simp [chunks] at hc
  | succ n ih =>
    intro b c hc
    unfold chunks at hc
    split at hc
    · simp at hc
    next he =>
      rcases List.mem_cons.mp hc with rfl | hc
      · refine ⟨by simp only [List.length_take]; omega, ?_⟩
        intro h0
        have : b.length ≠ 0 := by intro h0; exact he (by simp [List.length_eq_zero_iff.mp h0])
        have h1 : (b.take max).length = 0 := by rw [h0]; rfl
        simp only [List.length_take] at h1; omega
      · exact ih _ c hc

theorem chunks_ne_nil (max fuel : Nat) (b : Bytes) (hb : b ≠ []) (hf : 1 ≤ fuel) :
    chunks max fuel b ≠ [] := by
  cases fuel with
  | zero => omega
  | succ n =>
    unfold chunks
    have : b.isEmpty = false := by cases b <;> simp_all
    simp [this]

/-! ### contFrags -/

theorem contFrags_chunks : ∀ cs : List Bytes, (contFrags cs).map (·.chunk) = cs
  | [] => rfl
  | [c] => rfl
  | c :: c2 :: cs => by
    have := contFrags_chunks (c2 :: cs)
    simp only [contFrags, List.map_cons] at this ⊢
    rw [this]

theorem contFrags_length : ∀ cs : List Bytes, (contFrags cs).length = cs.length
  | [] => rfl
  | [c] => rfl
  | c :: c2 :: cs => by
    have := contFrags_length (c2 :: cs)
    simp only [contFrags, List.length_cons] at this ⊢
    omega

theorem contFrags_isHeaders : ∀ cs : List Bytes,
    (contFrags cs).map (·.isHeaders) = List.replicate cs.length false
  | [] => rfl
  | [c] => rfl
  | c :: c2 :: cs => by
    have := contFrags_isHeaders (c2 :: cs)
    simp only [contFrags, List.map_cons, List.length_cons, List.replicate_succ] at this ⊢
    rw [this]

theorem contFrags_endHeaders : ∀ cs : List Bytes, cs ≠ [] →
    (contFrags cs).map (·.endHeaders) = List.replicate (cs.length - 1) false ++ [true]
  | [], h => absurd rfl h
  | [c], _ => rfl
  | c :: c2 :: cs, _ => by
    have := contFrags_endHeaders (c2 :: cs) (by simp)
    simp only [contFrags, List.map_cons, List.length_cons, Nat.add_sub_cancel] at this ⊢
    rw [this]
    simp [List.replicate_succ]

theorem mem_contFrags {cs : List Bytes} {f : BlockFrag} (h : f ∈ contFrags cs) :
    f.isHeaders = false ∧ f.chunk ∈ cs := by
  have h1 : f.isHeaders ∈ (contFrags cs).map (·.isHeaders) := List.mem_map_of_mem h
  have h2 : f.chunk ∈ (contFrags cs).map (·.chunk) := List.mem_map_of_mem h
  rw [contFrags_isHeaders] at h1
  rw [contFrags_chunks] at h2
  exact ⟨(List.mem_replicate.mp h1).2, h2⟩

/-! ### the fragmentation itself -/

theorem fragmentation (prio : Priority) (maxFrame : Nat) (block : Bytes) (hb : block ≠ [])
    (hm : 1 ≤ maxFrame) (hp : prio.isZero = false → 5 ≤ maxFrame) :
    ∃ fr, fragments prio maxFrame block = .ok fr ∧
      (fr.map (·.chunk)).flatten = block ∧
      fr.map (·.isHeaders) = true :: List.replicate (fr.length - 1) false ∧
      fr.map (·.endHeaders) = List.replicate (fr.length - 1) false ++ [true] ∧
      (∀ f ∈ fr, f.chunk.length + (if f.isHeaders && !prio.isZero then 5 else 0) ≤ maxFrame) ∧
      (∀ f ∈ fr, f.isHeaders = false → f.chunk ≠ []) := by
  have hbe : block.isEmpty = false := by cases block <;> simp_all
  have hnp : (!prio.isZero && decide (maxFrame < 5)) = false := by
    cases hz : prio.isZero
    · have := hp hz; simp; omega
    · simp
  let max1 := if prio.isZero then maxFrame else maxFrame - 5
  let rest := chunks maxFrame block.length (block.drop max1)
  refine ⟨⟨true, rest.isEmpty, block.take max1⟩ :: contFrags rest, ?_, ?_, ?_, ?_, ?_, ?_⟩
  · unfold fragments
    simp only [hbe, hnp, Bool.false_eq_true, ↓reduceIte]
    rfl
  · simp only [List.map_cons, contFrags_chunks, List.flatten_cons]
    rw [chunks_flatten maxFrame hm _ _ (by simp only [List.length_drop]; omega), List.take_append_drop]
  · simp only [List.map_cons, contFrags_isHeaders, List.length_cons, contFrags_length,
      Nat.add_sub_cancel]
  · simp only [List.map_cons, List.length_cons, contFrags_length, Nat.add_sub_cancel]
    cases hr : rest with
    | nil => simp [contFrags]
    | cons c cs =>
      have := contFrags_endHeaders (c :: cs) (by simp)
      simp only [List.length_cons, Nat.add_sub_cancel] at this
      simp only [this, List.isEmpty_cons, List.length_cons, List.replicate_succ, List.cons_append]
  · intro f hf
    rcases List.mem_cons.mp hf with rfl | hf
    · simp only [List.length_take, Bool.true_and]
      cases hz : prio.isZero
      · have := hp hz
        simp only [max1, hz, Bool.false_eq_true, ↓reduceIte, Bool.not_false]; omega
      · simp only [max1, hz, ↓reduceIte, Bool.not_true, Bool.false_eq_true]; omega
    · obtain ⟨h1, h2⟩ := mem_contFrags hf
      have := (chunks_bound maxFrame hm _ _ _ h2).1
      simp [h1]; omega
  · intro f hf hh
    rcases List.mem_cons.mp hf with rfl | hf
    · simp at hh
    · exact (chunks_bound maxFrame hm _ _ _ (mem_contFrags hf).2).2

/-! ### reading the frames back -/

theorem reader_eta (r : Reader) (sid : Nat) (h : r.lastHeaderStream = sid) :
    { r with lastHeaderStream := sid } = r := by
  cases r; simp_all

theorem fragBytes_cont (sid : Nat) (es : Bool) (prio : Priority) (eh : Bool) (c : Bytes) :
    fragBytes sid es prio ⟨false, eh, c⟩ =
      match writeContinuation false sid eh c with
      | .ok b => b
      | .error _ => [] := rfl

/-- the CONTINUATION frames of a block are read back one by one; the last one closes the block. -/
theorem cont_read (sid : Nat) (es : Bool) (prio : Priority) (hs : ValidSid sid) :
    ∀ (cs : List Bytes), cs ≠ [] → ∀ (r : Reader) (rest : Bytes) (k : Nat),
      (∀ c ∈ cs, c.length < two24 ∧ c.length ≤ r.maxReadSize) →
      r.lastHeaderStream = sid → r.allowIllegalReads = false →
      readAll (cs.length + k) r ((contFrags cs).flatMap (fragBytes sid es prio) ++ rest) =
        (contFrags cs).map (fun f => Except.ok (fragFrame sid es prio f)) ++
          readAll k { r with lastHeaderStream := 0 } rest
  | [], h => absurd rfl h
  | [c], _ => by
    intro r rest k hc hst hl
    obtain ⟨hc1, hc2⟩ := hc c (by simp)
    obtain ⟨out, hw, hrd⟩ := continuation_parse_write sid true c hs hc1
    have hready : Ready r c.length sid := ⟨hst, hl, hc2⟩
    have hr := hrd r rest hready
    simp only [contFrags, List.flatMap_cons, List.flatMap_nil, List.append_nil, fragBytes_cont, hw,
      List.length_cons, List.length_nil, Nat.zero_add, List.map_cons, List.map_nil]
    rw [Nat.add_comm 1 k]
    simp only [readAll, hr, ↓reduceIte, fragFrame, Bool.false_eq_true, List.cons_append, List.nil_append]
  | c :: c2 :: cs, _ => by
    intro r rest k hc hst hl
    obtain ⟨hc1, hc2⟩ := hc c (by simp)
    obtain ⟨out, hw, hrd⟩ := continuation_parse_write sid false c hs hc1
    have hready : Ready r c.length sid := ⟨hst, hl, hc2⟩
    have ih := cont_read sid es prio hs (c2 :: cs) (by simp) r rest k
      (fun x hx => hc x (by simp [hx])) hst hl
    have hr := hrd r (((contFrags (c2 :: cs)).flatMap (fragBytes sid es prio)) ++ rest) hready
    simp only [Bool.false_eq_true, ↓reduceIte, reader_eta r sid hst] at hr
    have hlen : (c :: c2 :: cs).length + k = ((c2 :: cs).length + k) + 1 := by
      simp only [List.length_cons]; omega
    rw [hlen]
    have e : contFrags (c :: c2 :: cs) = ⟨false, false, c⟩ :: contFrags (c2 :: cs) := rfl
    rw [e]
    simp only [List.flatMap_cons, fragBytes_cont, hw, List.append_assoc, List.map_cons]
    simp only [readAll, hr, ih, fragFrame, Bool.false_eq_true, ↓reduceIte, List.cons_append]

theorem writeHeaders_eq (p : HeadersParam) (h : WfHeaders p) :
    writeHeaders false p =
      .ok (headerBytes (headersPayload p).length tHeaders (headersFlags p) p.streamID ++ headersPayload p) := by
  obtain ⟨hs, hpl, hpr, hlen⟩ := h
  have hll := headersPayload_length_le p hpr
  have hw' : frameBytes tHeaders (headersFlags p) p.streamID (headersPayload p) =
      .ok (headerBytes (headersPayload p).length tHeaders (headersFlags p) p.streamID ++ headersPayload p) := by
    simp only [frameBytes]; rw [if_neg (by omega)]
  have hw : writeHeaders false p = frameBytes tHeaders (headersFlags p) p.streamID (headersPayload p) := by
    have hd : validStreamIDOrZero p.priority.streamDep = true := by
      have := hpr.1; simp [validStreamIDOrZero] at *; omega
    simp [writeHeaders, validStreamID_of _ hs, hd, headersFlags, headersPayload]
  exact hw.trans hw'

theorem writeHeaders_out (p : HeadersParam) (out : Bytes) (hwf : WfHeaders p)
    (h : writeHeaders false p = .ok out) (hp0 : p.padLength = 0) :
    out.length - 9 = (if p.priority.isZero then 0 else 5) + p.blockFragment.length := by
  rw [writeHeaders_eq p hwf] at h
  cases h
  cases hz : p.priority.isZero <;>
    simp [hp0, hz, headerBytes, be32, prioBytes, headersPayload] <;> omega

theorem headersFlags_nopad (p : HeadersParam) (hp0 : p.padLength = 0) :
    headersFlags p = b2n p.endStream flagEndStream + b2n p.endHeaders flagEndHeaders
      + b2n (!p.priority.isZero) flagPriority := by
  simp [headersFlags, hp0, b2n]

/-- **Wire level**: what `writeHeaders` wrote is read back frame by frame. -/
theorem block_read (sid : Nat) (es : Bool) (prio : Priority) (maxFrame : Nat) (block : Bytes)
    (hs : ValidSid sid) (hpr : WfPriority prio) (hb : block ≠ []) (hm : 1 ≤ maxFrame)
    (hp : prio.isZero = false → 5 ≤ maxFrame) (hsz : maxFrame + 6 < two24)
    (r : Reader) (hr : Ready r maxFrame 0) (rest : Bytes) (k : Nat) :
    ∃ fr out, fragments prio maxFrame block = .ok fr ∧
      writeBlock sid es prio maxFrame block = .ok out ∧
      readAll (fr.length + k) r (out ++ rest) =
        fr.map (fun f => Except.ok (fragFrame sid es prio f)) ++ readAll k r rest := by
  obtain ⟨fr, hfr, _, _, _, hbound, _⟩ := fragmentation prio maxFrame block hb hm hp
  refine ⟨fr, fr.flatMap (fragBytes sid es prio), hfr, by simp only [writeBlock, hfr], ?_⟩
  -- expose the shape of `fr`
  have hbe : block.isEmpty = false := by cases block <;> simp_all
  have hnp : (!prio.isZero && decide (maxFrame < 5)) = false := by
    cases hz : prio.isZero
    · have := hp hz; simp; omega
    · simp
  unfold fragments at hfr
  simp only [hbe, hnp, Bool.false_eq_true, ↓reduceIte, Except.ok.injEq] at hfr
  subst hfr
  generalize hrest : chunks maxFrame block.length
      (block.drop (if prio.isZero then maxFrame else maxFrame - 5)) = cs at *
  generalize hc0 : block.take (if prio.isZero then maxFrame else maxFrame - 5) = c0 at *
  have hb0 := hbound ⟨true, cs.isEmpty, c0⟩ (by simp)
  simp only [Bool.true_and] at hb0
  let p : HeadersParam := ⟨sid, c0, es, cs.isEmpty, 0, prio⟩
  have hwf : WfHeaders p := ⟨hs, (by show (0 : Nat) < 256; decide), hpr, by simp only [p]; split at hb0 <;> omega⟩
  obtain ⟨out0, hw0, hrd0⟩ := Req.Lemmas.C05.H2.headers_parse_write p hwf
  have hlen0 := writeHeaders_out p out0 hwf hw0 rfl
  have hfits : out0.length - 9 ≤ r.maxReadSize := by
    rw [hlen0]; simp only [p]
    have := hr.fits
    cases hz : prio.isZero <;> simp [hz] at hb0 ⊢ <;> omega
  have hr0 := hrd0 r ((contFrags cs).flatMap (fragBytes sid es prio) ++ rest) ⟨hr.state, hr.legal, hfits⟩
  have hfb : fragBytes sid es prio ⟨true, cs.isEmpty, c0⟩ = out0 := by
    simp only [fragBytes, ↓reduceIte]
    show (match writeHeaders false p with | .ok b => b | .error _ => []) = out0
    rw [hw0]
  have hframe : Frame.headers ⟨out0.length - 9, tHeaders, headersFlags p, p.streamID⟩ p.priority p.blockFragment
      = fragFrame sid es prio ⟨true, cs.isEmpty, c0⟩ := by
    rw [hlen0, headersFlags_nopad p rfl]
    simp only [fragFrame, ↓reduceIte, p]
  rw [hframe] at hr0
  simp only [List.flatMap_cons, hfb, List.append_assoc, List.length_cons, List.map_cons]
  have hlen : (contFrags cs).length + 1 + k = ((contFrags cs).length + k) + 1 := by omega
  rw [hlen]
  simp only [readAll, hr0]
  congr 1
  cases hcs : cs with
  | nil =>
    simp only [hcs, contFrags, List.length_nil, Nat.zero_add, List.flatMap_nil, List.nil_append, List.map_nil,
      List.isEmpty_nil, ↓reduceIte, p]
    rw [reader_eta r 0 hr.state]
    rfl
  | cons c cs' =>
    have hcr := cont_read sid es prio hs (c :: cs') (by simp)
      { r with lastHeaderStream := sid } rest k
      (by
        intro x hx
        have hx' : (⟨false, false, x⟩ : BlockFrag).chunk ∈ (c :: cs') := hx
        have hmem : ∃ f ∈ contFrags (c :: cs'), f.chunk = x := by
          have : x ∈ (contFrags (c :: cs')).map (·.chunk) := by rw [contFrags_chunks]; exact hx
          obtain ⟨f, hf, rfl⟩ := List.mem_map.mp this
          exact ⟨f, hf, rfl⟩
        obtain ⟨f, hf, rfl⟩ := hmem
        have hbf := hbound f (by rw [hcs]; simp [hf])
        have hih := (mem_contFrags hf).1
        simp only [hih, Bool.false_and, Bool.false_eq_true, ↓reduceIte, Nat.add_zero] at hbf
        have := hr.fits
        exact ⟨by omega, by simp only; omega⟩)
      rfl hr.legal
    simp only [contFrags_length] at hcr ⊢
    simp only [hcs, List.isEmpty_cons, Bool.false_eq_true, ↓reduceIte, p]
    rw [hcr]
    congr 2
    cases r; simp_all [Ready]
    exact hr.state.symm

end Req.Lemmas.C05.Frag
