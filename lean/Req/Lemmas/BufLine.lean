import Req.H1.BufLine
/-! Helper lemmas about the bufio model: byte conservation of every primitive. -/
namespace Req.H1.BufLine
open Req.Proto

theorem dropLast_append_of_getLast? {α} {l : List α} {a : α} (h : l.getLast? = some a) :
    l.dropLast ++ [a] = l := by
  have hne : l ≠ [] := by intro h0; simp [h0] at h
  have h2 := List.getLast?_eq_some_getLast hne
  rw [h2] at h
  cases h
  exact List.dropLast_concat_getLast hne

theorem lastIs_dropLast {c : UInt8} {l : Bytes} (h : lastIs c l = true) : l.dropLast ++ [c] = l := by
  apply dropLast_append_of_getLast?
  simpa [lastIs] using h

theorem cutNL_append {s l r : Bytes} (h : cutNL s = some (l, r)) : l ++ r = s := by
  induction s generalizing l r with
  | nil => simp [cutNL] at h
  | cons c cs ih =>
    unfold cutNL at h
    split at h
    · cases h; simp_all
    · split at h
      · next l' r' heq =>
        cases h
        simp [ih heq]
      · cases h

theorem srcRead_bytes {cap : Nat} {src src' : List Chunk} {d : Bytes} {e : Option SrcErr}
    (h : srcRead cap src = (d, e, src')) : d ++ srcBytes src' = srcBytes src := by
  cases src with
  | nil => simp [srcRead] at h; obtain ⟨rfl, _, rfl⟩ := h; simp [srcBytes]
  | cons c rest =>
    simp only [srcRead] at h
    split at h
    · cases h; simp [srcBytes]
    · cases h; simp [srcBytes, ← List.append_assoc, List.take_append_drop]

theorem fillLoop_bytes (B i : Nat) (st : Rd) : (fillLoop B i st).bytes = st.bytes := by
  induction i generalizing st with
  | zero => simp [fillLoop, Rd.bytes]
  | succ i ih =>
    unfold fillLoop
    split
    · next d e src' h => simp [Rd.bytes, srcRead_bytes h]
    · next d src' h =>
      split
      · simp [Rd.bytes, srcRead_bytes h]
      · rw [ih]; simp [Rd.bytes, srcRead_bytes h]

theorem fill_bytes (B : Nat) (st : Rd) : (fill B st).bytes = st.bytes := fillLoop_bytes B 100 st

theorem readSliceLoop_bytes (B f : Nat) (st : Rd) :
    (readSliceLoop B f st).1.line ++ (readSliceLoop B f st).2.bytes = st.bytes := by
  induction f generalizing st with
  | zero => simp [readSliceLoop]
  | succ f ih =>
    unfold readSliceLoop
    split
    · next line rest h => simp [Rd.bytes, ← cutNL_append h]
    · split
      · simp [Rd.bytes]
      · split
        · simp [Rd.bytes]
        · rw [ih, fill_bytes]

theorem readSlice_bytes (B : Nat) (st : Rd) :
    (readSlice B st).1.line ++ (readSlice B st).2.bytes = st.bytes := readSliceLoop_bytes B _ st

/-! ### direct reader access of the parser: ReadByte / skipSpace -/

def resByte : Res UInt8 → Bytes
  | .ok c => [c]
  | .error _ => []

theorem readByteLoop_bytes (B f : Nat) (st : Rd) :
    resByte (readByteLoop B f st).1 ++ (readByteLoop B f st).2.bytes = st.bytes := by
  induction f generalizing st with
  | zero => simp [readByteLoop, resByte]
  | succ f ih =>
    unfold readByteLoop
    cases hb : st.buf with
    | cons c rest => simp [Rd.bytes, hb, resByte]
    | nil =>
      cases he : st.err with
      | some e => simp [Rd.bytes, hb, resByte]
      | none => simp only []; rw [ih, fill_bytes]

theorem skipSpaceLoop_bytes (B f : Nat) (acc : Bytes) (st : Rd) :
    (skipSpaceLoop B f acc st).1 ++ (skipSpaceLoop B f acc st).2.bytes = acc ++ st.bytes := by
  induction f generalizing acc st with
  | zero => simp [skipSpaceLoop]
  | succ f ih =>
    unfold skipSpaceLoop
    have hb := readByteLoop_bytes B 2 st
    unfold readByte
    cases h : readByteLoop B 2 st with
    | mk r st1 =>
      rw [h] at hb
      cases r with
      | error e =>
        simp only [resByte, List.nil_append] at hb
        simp [hb]
      | ok c =>
        simp only [resByte] at hb
        simp only []
        split
        · rw [ih]; simp [← hb]
        · simp only [Rd.bytes] at hb ⊢
          rw [← hb]; simp

/-- `skipSpace` returns exactly the bytes it removed from the stream (so the parser built on
it is `Accounted`, see `dump_prog_exact`). -/
theorem skipSpace_bytes (B : Nat) (st : Rd) :
    (skipSpace B st).1 ++ (skipSpace B st).2.bytes = st.bytes := by
  have := skipSpaceLoop_bytes B (st.bytes.length + 1) [] st
  simpa [skipSpace] using this

/-! ### the recursion fuel is never exhausted -/

theorem fillLoop_progress (B i : Nat) (st : Rd) :
    st.buf.length ≤ (fillLoop B i st).buf.length ∧
    ((fillLoop B i st).err.isSome = true ∨ st.buf.length < (fillLoop B i st).buf.length) ∧
    (st.err ≠ some .stuck → (fillLoop B i st).err ≠ some .stuck) := by
  induction i generalizing st with
  | zero => simp [fillLoop]
  | succ i ih =>
    unfold fillLoop
    split
    · simp
    · next d src' h =>
      split
      · next hd => simp; omega
      · next hd =>
        have hd0 : d.length = 0 := by omega
        have := ih { buf := st.buf ++ d, err := st.err, src := src' }
        simp only [List.length_append, hd0, Nat.add_zero] at this
        exact this

theorem readSliceLoop_not_stuck (B f : Nat) (st : Rd) (hs : st.err ≠ some .stuck)
    (hf : (B - st.buf.length) + (if st.err.isSome then 0 else 1) + 1 ≤ f) :
    (readSliceLoop B f st).1.err ≠ some .stuck := by
  induction f generalizing st with
  | zero => omega
  | succ f ih =>
    unfold readSliceLoop
    split
    · simp
    · split
      · next e he => simp; intro h; exact hs (by rw [he, h])
      · next he =>
        split
        · simp
        · next hlt =>
          have hp := fillLoop_progress B 100 st
          apply ih
          · exact hp.2.2 hs
          · simp only [he, Option.isSome_none, Bool.false_eq_true, if_false] at hf
            unfold fill
            rcases hp.2.1 with h | h
            · simp only [h, if_true]; omega
            · split <;> omega

/-- `ReadSlice` always returns a Go result: the `stuck` marker is unreachable. -/
theorem readSlice_not_stuck (B : Nat) (st : Rd) (hs : st.err ≠ some .stuck) :
    (readSlice B st).1.err ≠ some .stuck := by
  apply readSliceLoop_not_stuck B (B + 2) st hs
  split <;> omega

/-- Errors a reader state can hold pending: only what `fill` stores. -/
def GoodErr (e : Option RErr) : Prop :=
  e ≠ some .stuck ∧ e ≠ some .bufferFull ∧ e ≠ some .tooLarge

theorem goodErr_none : GoodErr none := by simp [GoodErr]

theorem fillLoop_goodErr (B i : Nat) (st : Rd) (h : GoodErr st.err) : GoodErr (fillLoop B i st).err := by
  induction i generalizing st with
  | zero => simp [fillLoop, GoodErr]
  | succ i ih =>
    unfold fillLoop
    split
    · simp [GoodErr]
    · split
      · exact h
      · exact ih _ h

/-- What `ReadSlice` leaves and returns. -/
theorem readSliceLoop_spec (B f : Nat) (st : Rd) (h : GoodErr st.err) :
    GoodErr (readSliceLoop B f st).2.err ∧
    ((readSliceLoop B f st).1.err = some .bufferFull → B ≤ (readSliceLoop B f st).1.line.length) ∧
    ((readSliceLoop B f st).1.err ≠ some .tooLarge) := by
  induction f generalizing st with
  | zero => simp [readSliceLoop, h]
  | succ f ih =>
    unfold readSliceLoop
    split
    · simp [h]
    · split
      · next e he =>
        refine ⟨goodErr_none, ?_, ?_⟩
        · intro hb; simp only at hb; exact absurd (he.trans hb) h.2.1
        · intro hb; simp only at hb; exact absurd (he.trans hb) h.2.2
      · split
        · next hle => exact ⟨h, fun _ => hle, by simp⟩
        · exact ih _ (fillLoop_goodErr B 100 st h)

theorem dumpReadLine_spec (B : Nat) (st : Rd) (h : GoodErr st.err) :
    GoodErr (dumpReadLine B st).2.1.err ∧
    (dumpReadLine B st).1.err ≠ some .stuck ∧
    ((dumpReadLine B st).1.isPrefix = true → B ≤ (dumpReadLine B st).2.2.length + 1) := by
  have hs := readSliceLoop_spec B (B + 2) st h
  have hn := readSlice_not_stuck B st h.1
  unfold readSlice at hn
  unfold dumpReadLine readSlice
  cases hr : readSliceLoop B (B + 2) st with
  | mk r st1 =>
    rw [hr] at hs hn
    simp only at hs hn ⊢
    split
    · next hb =>
      have hlen := hs.2.1 hb
      split
      · next hcr =>
        refine ⟨hs.1, by simp, fun _ => ?_⟩
        have := congrArg List.length (lastIs_dropLast hcr)
        simp at this ⊢
        omega
      · exact ⟨hs.1, by simp, fun _ => by simp only; omega⟩
    · split
      · exact ⟨hs.1, hn, by simp⟩
      · exact ⟨hs.1, by simp, by simp⟩

end Req.H1.BufLine
