import Req.H2.Race
import Req.Lemmas.C06Recv
import Req.Lemmas.C06Wake
/-!
C06 — helper lemmas for the two-phase refinement (`Req.H2.Race`).

Part A is about the monitors only: the race-tolerant reading follows the strict one wherever the
strict one accepts, and where it forgives, the strict verdict is one of exactly three:
`frame-size`, `stream-window-exceeded` (both on a DATA frame), `max-concurrent-streams` (on the
HEADERS of a new stream).

Part B is the simulation: the refined machine's histories are accepted by the tolerant reading.
The core is a commutation fact at the monitor: booking a DATA frame (`debit`) commutes with
acknowledging a SETTINGS frame.
-/
set_option linter.unusedSimpArgs false
namespace Req.Lemmas.C06
open Req.H2 Req.H2.Flow Req.H2.Conn Req.H2.Monitor Req.H2.Race

/-! ## Part A: strict and tolerant monitor -/

/-- where the strict monitor accepts a frame, the tolerant one does the same -/
theorem tolerant_client_of_strict {t : Tolerant} {f : Frame} {m' : Send} (h : t.m.client f = .ok m') :
    ∃ t', Tolerant.client t f = .ok t' ∧ t'.m = m' := by
  cases f <;> simp only [Tolerant.client, h] <;> exact ⟨_, rfl, rfl⟩

theorem tolerant_run_of_strict : ∀ (evs : List Event) {t : Tolerant} {m' : Send},
    Send.run t.m evs = .ok m' → ∃ t', Tolerant.run t evs = .ok t' ∧ t'.m = m' := by
  intro evs
  induction evs with
  | nil => intro t m' h; cases h; exact ⟨t, rfl, rfl⟩
  | cons e es ih =>
    intro t m' h
    cases e with
    | c f =>
      simp only [Send.run, Send.step] at h
      cases hc : t.m.client f with
      | error r => rw [hc] at h; cases h
      | ok m1 =>
        rw [hc] at h
        obtain ⟨t1, h1, h2⟩ := tolerant_client_of_strict hc
        simp only [Tolerant.run, h1]
        exact ih (t := t1) (by rw [h2]; exact h)
    | p f =>
      simp only [Send.run, Send.step] at h
      simp only [Tolerant.run]
      exact ih (t := { t with m := Send.peer t.m f }) h

/-- … with the same successor state -/
theorem tolerant_client_strict_state {t t' : Tolerant} {f : Frame} {m' : Send}
    (h : t.m.client f = .ok m') (ht : Tolerant.client t f = .ok t') : t'.m = m' := by
  obtain ⟨t1, h1, h2⟩ := tolerant_client_of_strict h
  rw [h1] at ht; cases ht; exact h2

def raceVerdict (r : String) : Prop :=
  r = "frame-size" ∨ r = "stream-window-exceeded" ∨ r = "max-concurrent-streams"

theorem findM_setM {l : List MStream} {id : Nat} {s s' : MStream} (hf : findM l id = some s)
    (hid : s'.id = s.id) : findM (setM l s') id = some s' := by
  have hsid : s.id = id := (findM_mem hf).2
  induction l with
  | nil => simp [findM] at hf
  | cons a l ih =>
    unfold findM at hf ih ⊢
    unfold setM at ih ⊢
    simp only [List.map]
    by_cases ha : a.id = id
    · have : a.id = s'.id := by rw [hid, hsid]; exact ha
      have hs' : s'.id = id := by rw [hid]; exact hsid
      simp [List.find?, this, hs']
    · simp only [List.find?, ha, decide_false] at hf
      have : ¬ a.id = s'.id := by rw [hid, hsid]; exact ha
      simp only [this, if_false, List.find?, ha, decide_false]
      exact ih hf

theorem client_some_error (m : Send) {v : Nat} (h : m.hdrOpen = some v) (f : Frame)
    (hf : ∀ id len eh, f ≠ .continuation id len eh) : m.client f = .error "header-block-interrupted" := by
  cases f with
  | continuation id len eh => exact absurd rfl (hf id len eh)
  | _ => simp [Send.client, h]

theorem ite_err_ne_ok {α : Type} {c : Prop} [Decidable c] {a b : String} {x : α} :
    (if c then (Except.error a : Except String α) else Except.error b) = Except.ok x → False := by
  intro h; split at h <;> cases h

theorem ite_ok_of_ok {α : Type} {c : Prop} [Decidable c] {a : String} {x y : α} :
    (if c then (Except.error a : Except String α) else Except.ok y) = Except.ok x → x = y := by
  intro h
  split at h
  · cases h
  · cases h; rfl

theorem ite_err_of_err {α : Type} {c : Prop} [Decidable c] {a r : String} {x : α} :
    (if c then (Except.error a : Except String α) else Except.ok x) = Except.error r → r = a := by
  intro h
  split at h
  · cases h; rfl
  · cases h

/-- where the tolerant monitor forgives, the strict verdict is one of the three -/
theorem tolerant_forgives_only {t t' : Tolerant} {f : Frame} {r : String}
    (ht : Tolerant.client t f = .ok t') (hs : t.m.client f = .error r) : raceVerdict r := by
  cases f with
  | settingsAck => simp only [Tolerant.client, hs] at ht; cases ht
  | settings vals => simp only [Tolerant.client, hs] at ht; cases ht
  | windowUpdate id inc => simp only [Tolerant.client, hs] at ht; cases ht
  | priority id => simp only [Tolerant.client, hs] at ht; cases ht
  | continuation id len eh => simp only [Tolerant.client, hs] at ht; cases ht
  | rst id => simp only [Tolerant.client, hs] at ht; cases ht
  | ping a d => simp only [Tolerant.client, hs] at ht; cases ht
  | data id len es =>
    simp only [Tolerant.client, hs] at ht
    split at ht
    · rename_i w mf s hg hf
      -- the lenient reading (more generous window and frame size) accepts the frame
      split at ht
      · cases ht
      · rename_i ml hl
        cases hh : t.m.hdrOpen with
        | some v =>
          rw [client_some_error _ (by simpa using hh) _ (by intro a b c hx; cases hx)] at hl
          cases hl
        | none =>
          have hfl := findM_setM (s' := { s with win := if w > s.win then w else s.win }) hf rfl
          simp only [Send.client, hh, hf, Bool.not_true, Bool.false_eq_true, if_false] at hs
          simp only [Send.client, hh, hfl, Bool.not_true, Bool.false_eq_true, if_false] at hl
          by_cases h1 : len > t.m.maxFrame
          · rw [if_pos h1] at hs
            cases hs; exact Or.inl rfl
          · rw [if_neg h1] at hs
            by_cases h2 : (s.cEnd || s.cRst) = true
            · exfalso
              rw [if_pos h2] at hl
              exact ite_err_ne_ok hl
            · rw [if_neg h2] at hs
              by_cases h3 : len > 0 ∧ (len : Int) > t.m.connWin
              · exfalso
                rw [if_neg h2, if_pos h3] at hl
                exact ite_err_ne_ok hl
              · rw [if_neg h3] at hs
                by_cases h4 : len > 0 ∧ (len : Int) > s.win
                · rw [if_pos h4] at hs
                  cases hs; exact Or.inr (Or.inl rfl)
                · rw [if_neg h4] at hs
                  cases hs
    · cases ht
  | headers id len es eh =>
    simp only [Tolerant.client, hs] at ht
    split at ht
    · rename_i old hgc
      split at ht
      · cases ht
      · rename_i ml hl
        cases hh : t.m.hdrOpen with
        | some v =>
          rw [client_some_error _ (by simpa using hh) _ (by intro a b c hx; cases hx)] at hl
          cases hl
        | none =>
          simp only [Send.client, hh, Bool.not_true, Bool.false_eq_true, if_false] at hs hl
          by_cases h1 : len > t.m.maxFrame
          · exfalso
            rw [if_pos h1] at hl
            cases hl
          · rw [if_neg h1] at hs hl
            by_cases h2 : id > t.m.lastId
            · rw [if_pos h2] at hs hl
              by_cases h3 : id % 2 = 0
              · exfalso
                rw [if_pos h3] at hl
                cases hl
              · rw [if_neg h3] at hs
                have := ite_err_of_err hs
                rw [this]; exact Or.inr (Or.inr rfl)
            · exfalso
              rw [if_neg h2] at hs hl
              -- the two readings agree on a known stream
              cases hf : findM t.m.streams id with
              | none => simp only [hf] at hl; cases hl
              | some s =>
                simp only [hf] at hs hl
                by_cases h4 : (s.cEnd || s.cRst) = true
                · rw [if_pos h4] at hl; cases hl
                · rw [if_neg h4] at hs hl
                  by_cases h5 : (!es) = true
                  · rw [if_pos h5] at hl; cases hl
                  · rw [if_neg h5] at hs; cases hs
    · cases ht

/-- **the strict verdict on a history the tolerant reading accepts**: accepted as well, or
rejected with one of the three race verdicts -/
theorem strict_of_tolerant : ∀ (h : List Event) {t t' : Tolerant}, Tolerant.run t h = .ok t' →
    Send.run t.m h = .ok t'.m ∨ ∃ r, Send.run t.m h = .error r ∧ raceVerdict r := by
  intro h
  induction h with
  | nil => intro t t' ht; cases ht; exact Or.inl rfl
  | cons e es ih =>
    intro t t' ht
    cases e with
    | p f =>
      simp only [Tolerant.run] at ht
      simp only [Send.run, Send.step]
      exact ih (t := { t with m := Send.peer t.m f }) ht
    | c f =>
      simp only [Tolerant.run] at ht
      cases hc : Tolerant.client t f with
      | error r => rw [hc] at ht; cases ht
      | ok t1 =>
        rw [hc] at ht
        simp only [Send.run, Send.step]
        cases hs : t.m.client f with
        | error r => exact Or.inr ⟨r, rfl, tolerant_forgives_only hc hs⟩
        | ok m1 =>
          have := tolerant_client_strict_state hs hc
          simp only
          rw [← this]
          exact ih ht

/-! ## Part B: the monitor's bookkeeping of a DATA frame commutes with a SETTINGS acknowledgement -/

/-- what accepting `DATA id len es` does to the monitor's books -/
def debit (m : Send) (id len : Nat) (es : Bool) : Send :=
  match findM m.streams id with
  | none => m
  | some s => { m with connWin := m.connWin - len,
                       streams := setM m.streams { s with win := s.win - len, cEnd := es } }

def addWin (d : Int) (s : MStream) : MStream := { s with win := s.win + d }

theorem findM_map_addWin (d : Int) (l : List MStream) (id : Nat) :
    findM (l.map (addWin d)) id = (findM l id).map (addWin d) := by
  induction l with
  | nil => rfl
  | cons a l ih =>
    unfold findM at *
    simp only [List.map_cons, List.find?]
    have : (addWin d a).id = a.id := rfl
    rw [this]
    by_cases h : a.id = id
    · simp [h]
    · simp only [h, decide_false]; exact ih

theorem setM_map_addWin (d : Int) (l : List MStream) (s : MStream) :
    setM (l.map (addWin d)) (addWin d s) = (setM l s).map (addWin d) := by
  unfold setM
  rw [List.map_map, List.map_map]
  apply List.map_congr_left
  intro x _
  simp only [Function.comp]
  have h1 : (addWin d x).id = x.id := rfl
  have h2 : (addWin d s).id = s.id := rfl
  rw [h1, h2]
  split <;> rfl

theorem map_addWin_zero (l : List MStream) : l.map (addWin 0) = l := by
  have : ∀ x : MStream, addWin 0 x = x := by intro x; simp [addWin]
  induction l with
  | nil => rfl
  | cons a l ih => simp only [List.map_cons, this, ih]

/-- the streams after acknowledging a SETTINGS frame: every window moved by the same amount -/
theorem ackSetting_shape (m : Send) (p : Nat × Nat) :
    ∃ d : Int, (ackSetting m p).streams = m.streams.map (addWin d) ∧ (ackSetting m p).connWin = m.connWin ∧
      (ackSetting m p).hdrOpen = m.hdrOpen ∧ (ackSetting m p).lastId = m.lastId ∧
      (ackSetting m p).pending = m.pending := by
  unfold ackSetting
  split
  · exact ⟨0, (map_addWin_zero _).symm, rfl, rfl, rfl, rfl⟩
  · split
    · exact ⟨0, (map_addWin_zero _).symm, rfl, rfl, rfl, rfl⟩
    · split
      · exact ⟨_, rfl, rfl, rfl, rfl, rfl⟩
      · exact ⟨0, (map_addWin_zero _).symm, rfl, rfl, rfl, rfl⟩

theorem map_addWin_addWin (a b : Int) (l : List MStream) :
    (l.map (addWin a)).map (addWin b) = l.map (addWin (a + b)) := by
  rw [List.map_map]
  apply List.map_congr_left
  intro x _
  simp only [Function.comp, addWin]
  congr 1
  omega

theorem foldl_ack_shape (vals : List (Nat × Nat)) : ∀ m : Send,
    ∃ d : Int, (vals.foldl ackSetting m).streams = m.streams.map (addWin d) ∧
      (vals.foldl ackSetting m).connWin = m.connWin ∧ (vals.foldl ackSetting m).hdrOpen = m.hdrOpen ∧
      (vals.foldl ackSetting m).lastId = m.lastId ∧ (vals.foldl ackSetting m).pending = m.pending := by
  induction vals with
  | nil => intro m; exact ⟨0, (map_addWin_zero _).symm, rfl, rfl, rfl, rfl⟩
  | cons p ps ih =>
    intro m
    simp only [List.foldl_cons]
    obtain ⟨d1, a1, a2, a3, a4, a5⟩ := ackSetting_shape m p
    obtain ⟨d2, b1, b2, b3, b4, b5⟩ := ih (ackSetting m p)
    refine ⟨d1 + d2, ?_, b2.trans a2, b3.trans a3, b4.trans a4, b5.trans a5⟩
    rw [b1, a1, map_addWin_addWin]

theorem debit_ackSetting (m : Send) (p : Nat × Nat) (id len : Nat) (es : Bool) :
    debit (ackSetting m p) id len es = ackSetting (debit m id len es) p := by
  unfold ackSetting
  split
  · unfold debit; simp only; split <;> rfl
  · split
    · unfold debit; simp only; split <;> rfl
    · split
      · -- SETTINGS_INITIAL_WINDOW_SIZE: every window moves by the same delta
        rename_i h1 h2 h3
        have hmap : ∀ l : List MStream, (l.map fun s => { s with win := s.win + ((p.2 : Int) - (m.initWin : Int)) }) =
            l.map (addWin ((p.2 : Int) - (m.initWin : Int))) := fun l => rfl
        unfold debit
        simp only [hmap, findM_map_addWin]
        cases hf : findM m.streams id with
        | none => rfl
        | some s =>
          simp only [Option.map_some, hmap]
          have : ({ addWin ((p.2 : Int) - (m.initWin : Int)) s with
                     win := (addWin ((p.2 : Int) - (m.initWin : Int)) s).win - (len : Int), cEnd := es } : MStream) =
              addWin ((p.2 : Int) - (m.initWin : Int)) { s with win := s.win - (len : Int), cEnd := es } := by
            simp only [addWin]
            congr 1
            omega
          rw [this, setM_map_addWin]
      · rfl

theorem debit_foldl (vals : List (Nat × Nat)) (id len : Nat) (es : Bool) : ∀ m : Send,
    debit (vals.foldl ackSetting m) id len es = vals.foldl ackSetting (debit m id len es) := by
  induction vals with
  | nil => intro m; rfl
  | cons p ps ih => intro m; simp only [List.foldl_cons]; rw [ih, debit_ackSetting]

/-- what the strict monitor's acceptance of a DATA frame says -/
theorem client_data_ok {m m' : Send} {id len : Nat} {es : Bool} (h : m.client (.data id len es) = .ok m') :
    m.hdrOpen = none ∧ len ≤ m.maxFrame ∧ ∃ s, findM m.streams id = some s ∧ (s.cEnd || s.cRst) = false ∧
      ¬ (len > 0 ∧ (len : Int) > m.connWin) ∧ ¬ (len > 0 ∧ (len : Int) > s.win) ∧ m' = debit m id len es := by
  cases hh : m.hdrOpen with
  | some v => rw [client_some_error _ hh _ (by intro a b c hx; cases hx)] at h; cases h
  | none =>
    refine ⟨rfl, ?_⟩
    simp only [Send.client, hh, Bool.not_true, Bool.false_eq_true, if_false] at h
    by_cases h1 : len > m.maxFrame
    · rw [if_pos h1] at h; cases h
    · rw [if_neg h1] at h
      refine ⟨by omega, ?_⟩
      cases hf : findM m.streams id with
      | none => simp only [hf] at h; cases h
      | some s =>
        simp only [hf] at h
        by_cases h2 : (s.cEnd || s.cRst) = true
        · rw [if_pos h2] at h; cases h
        · rw [if_neg h2] at h
          by_cases h3 : len > 0 ∧ (len : Int) > m.connWin
          · rw [if_pos h3] at h; cases h
          · rw [if_neg h3] at h
            by_cases h4 : len > 0 ∧ (len : Int) > s.win
            · rw [if_pos h4] at h; cases h
            · rw [if_neg h4] at h
              cases h
              refine ⟨s, rfl, by simpa using h2, h3, h4, ?_⟩
              simp only [debit, hf, hh]

/-! ## Part C: the simulation of the refined machine by the tolerant monitor -/

theorem peer_settings_invalid (m : Send) {vals : List (Nat × Nat)} (h : vals.any invalidSetting = true) :
    m.peer (.settings vals) = m := by
  simp only [Send.peer]
  have : (vals.any fun p => (p.1 == sInitialWindowSize && decide (p.2 > 2147483647)) || (p.1 == sMaxFrameSize && (decide (p.2 < 16384) || decide (p.2 > 16777215)))) = true := h
  rw [this]; rfl

theorem peer_settings_valid (m : Send) {vals : List (Nat × Nat)} (h : vals.any invalidSetting = false) :
    m.peer (.settings vals) = { m with pending := m.pending ++ [vals] } := by
  simp only [Send.peer]
  have : (vals.any fun p => (p.1 == sInitialWindowSize && decide (p.2 > 2147483647)) || (p.1 == sMaxFrameSize && (decide (p.2 < 16384) || decide (p.2 > 16777215)))) = false := h
  rw [this]; rfl

/-- the two ways `processSettings` can go -/
theorem peerSettings_shape {st : State} {m : Send} (h : SInv (view st) m) (vals : List (Nat × Nat)) :
    (peerSettings st vals = ({ st with closed := true }, []) ∧ vals.any invalidSetting = true) ∨
    (∃ st1, peerSettings st vals = (st1, [Frame.settingsAck]) ∧ st1.closed = st.closed ∧
      vals.any invalidSetting = false ∧ SInv (view st1) (vals.foldl ackSetting m)) := by
  have h0 : SInv { (view st) with seenSettings := true } m := { h with concNone := by intro hx; simp at hx }
  have cn0 : st.seenSettings = false → false = false → m.maxConc = none := fun hs _ => h.concNone hs
  unfold peerSettings
  split
  · rename_i hnone
    exact Or.inl ⟨rfl, applySettings_none hnone⟩
  · rename_i st1 seenMax hsome
    obtain ⟨b1, b2, b3, b4⟩ := sim_applySettings h0 cn0 hsome
    have hcl := (sames_applySettings hsome).closed
    right
    refine ⟨_, rfl, ?_, b1, ?_⟩
    · split
      · exact hcl
      · exact hcl
    · split
      · rename_i hseen
        have hv1 : ({ (view st1) with seenSettings := true } : View) = view st1 := by
          simp only [view, hseen]
        rw [hv1] at b2
        exact b2
      · rename_i hseen
        have hseen' : st1.seenSettings = false := by cases hx : st1.seenSettings <;> simp [hx] at hseen ⊢
        refine { b2 with conc := ?_, concNone := by intro hx; simp [view] at hx }
        intro k hk
        cases hsm : seenMax with
        | true => simp only [view, if_true]; exact b2.conc k hk
        | false =>
          have := b3 hseen' hsm
          rw [this] at hk; cases hk

/-- the grace values the tolerant monitor notes at an acknowledgement -/
def graceOf (t : Tolerant) (m0 : Send) (s : MStream) : Nat × Int × Nat :=
  match t.grace.find? (·.1 == s.id) with
  | some (_, w, mf) => (s.id, (if w > s.win then w else s.win), (if mf > m0.maxFrame then mf else m0.maxFrame))
  | none => (s.id, s.win, m0.maxFrame)

theorem graceOf_ge (t : Tolerant) (m0 : Send) (s : MStream) :
    (graceOf t m0 s).1 = s.id ∧ s.win ≤ (graceOf t m0 s).2.1 ∧ m0.maxFrame ≤ (graceOf t m0 s).2.2 := by
  unfold graceOf
  split
  · refine ⟨rfl, ?_, ?_⟩
    · simp only; split <;> omega
    · simp only; split <;> omega
  · exact ⟨rfl, Int.le_refl _, Nat.le_refl _⟩

theorem find_grace_map (g : MStream → Nat × Int × Nat) (hg : ∀ s, (g s).1 = s.id) :
    ∀ (l : List MStream) (id : Nat) (s : MStream), findM l id = some s →
      (l.map g).find? (·.1 == id) = some (g s) := by
  intro l
  induction l with
  | nil => intro id s h; simp [findM] at h
  | cons a l ih =>
    intro id s h
    unfold findM at h ih
    simp only [List.map_cons, List.find?, hg]
    by_cases ha : a.id = id
    · simp only [List.find?, ha, decide_true] at h
      cases h
      simp [ha]
    · simp only [List.find?, ha, decide_false] at h
      have : (a.id == id) = false := by simp [ha]
      simp only [this]
      exact ih id s h

/-- the tolerant monitor's step over "SETTINGS, acknowledgement" -/
theorem tolerant_settings_ack (t : Tolerant) (hp : t.m.pending = []) (hh : t.m.hdrOpen = none)
    {vals : List (Nat × Nat)} (hv : vals.any invalidSetting = false) :
    ∃ t2, Tolerant.run t [Event.p (.settings vals), Event.c .settingsAck] = .ok t2 ∧
      t2.m = vals.foldl ackSetting t.m ∧
      t2.grace = t.m.streams.map (graceOf t t.m) ∧
      (∃ conc, t2.graceConc = some conc ∧
        (∀ k, conc = some k → ∀ j, t.m.maxConc = some j → j ≤ k) ∧ (t.m.maxConc = none → conc = none)) := by
  have hm : ({ t.m with pending := [], hdrOpen := none } : Send) = t.m := by
    cases htm : t.m; rw [htm] at hp hh; simp_all
  have hm2 : ({ t.m with pending := [] } : Send) = t.m := by
    cases htm : t.m; rw [htm] at hp; simp_all
  simp only [Tolerant.run, peer_settings_valid _ hv, hp, List.nil_append]
  simp only [Tolerant.client, Send.client, hh, hm, hm2]
  refine ⟨_, rfl, rfl, ?_, ?_⟩
  · apply List.map_congr_left
    intro x _
    rfl
  · refine ⟨_, rfl, ?_, ?_⟩
    · intro k hk j hj
      cases hg : t.graceConc with
      | none => simp only [hg, hj] at hk; cases hk; exact Nat.le_refl _
      | some o =>
        cases o with
        | none => simp only [hg] at hk; cases hk
        | some a =>
          simp only [hg, hj] at hk
          cases hk
          split <;> omega
    · intro hn
      cases hg : t.graceConc with
      | none => simp only [hn]
      | some o =>
        cases o with
        | none => rfl
        | some a => simp only [hn]

/-- a DATA frame that the strict monitor accepted *before* an acknowledgement is accepted by the
tolerant monitor *after* it, with the same books as if it had come first -/
theorem tolerant_data_after_ack {t2 : Tolerant} {m m1 : Send} {id len : Nat} {es : Bool}
    (hm : m.client (.data id len es) = .ok m1) (vals : List (Nat × Nat))
    (hA : t2.m = vals.foldl ackSetting m)
    (hG : ∀ s, findM m.streams id = some s →
      ∃ w mf, t2.grace.find? (·.1 == id) = some (id, w, mf) ∧ s.win ≤ w ∧ m.maxFrame ≤ mf) :
    ∃ t3, Tolerant.client t2 (.data id len es) = .ok t3 ∧ t3.m = vals.foldl ackSetting m1 := by
  obtain ⟨hh, hlen, s, hf, hfl, h3, h4, hm1⟩ := client_data_ok hm
  obtain ⟨d, a1, a2, a3, a4, a5⟩ := foldl_ack_shape vals m
  have hfa : findM t2.m.streams id = some (addWin d s) := by
    rw [hA, a1, findM_map_addWin, hf]; rfl
  have hgoal : vals.foldl ackSetting m1 = debit t2.m id len es := by
    rw [hm1, ← debit_foldl, hA]
  rw [hgoal]
  cases hs : t2.m.client (.data id len es) with
  | ok x =>
    obtain ⟨_, _, _, _, _, _, _, hx⟩ := client_data_ok hs
    refine ⟨{ t2 with m := x, grace := t2.grace.filter (·.1 != id) }, ?_, hx⟩
    simp only [Tolerant.client, hs]
  | error r =>
    obtain ⟨w, mf, hg, hw, hmf⟩ := hG s hf
    have hh2 : t2.m.hdrOpen = none := by rw [hA, a3]; exact hh
    have hcw : t2.m.connWin = m.connWin := by rw [hA, a2]
    -- the lenient reading accepts
    have hfl2 := findM_setM (l := t2.m.streams)
      (s' := { addWin d s with win := if w > (addWin d s).win then w else (addWin d s).win }) hfa rfl
    have hlen' : ¬ len > (if mf > t2.m.maxFrame then mf else t2.m.maxFrame) := by split <;> omega
    have hwin' : ¬ (len > 0 ∧ (len : Int) > (if w > (addWin d s).win then w else (addWin d s).win)) := by
      intro hx; apply h4; refine ⟨hx.1, ?_⟩
      have := hx.2
      split at this <;> omega
    have hfl' : ((addWin d s).cEnd || (addWin d s).cRst) = false := hfl
    have h3' : ¬ (len > 0 ∧ (len : Int) > t2.m.connWin) := by rw [hcw]; exact h3
    refine ⟨{ t2 with m := debit t2.m id len es, grace := t2.grace.filter (·.1 != id) }, ?_, rfl⟩
    simp only [Tolerant.client, hs, hg, hfa]
    simp only [Send.client, hh2, hfl2, Bool.not_true, Bool.false_eq_true, if_false, if_neg hlen', hfl',
      if_neg h3', if_neg hwin', debit, hfa]

theorem writeStep_data {c0 : Int} {mf : Nat} {s s' : Stream} {c : Int} {f : Frame}
    (hw : writeStep c0 mf s = some (c, s', f)) : ∃ len es, f = Frame.data s.id len es := by
  unfold writeStep at hw
  split at hw
  · cases hw
  · split at hw
    · split at hw
      · cases hw; exact ⟨_, _, rfl⟩
      · cases hw
    · split at hw
      · cases hw
      · cases hw; exact ⟨_, _, rfl⟩

/-- what the refined induction carries: the monitor owes nothing; as long as the connection is
up, the simulation invariant holds for the tolerant monitor's books -/
structure RaceInv (st : State) (t : Tolerant) : Prop where
  pending : t.m.pending = []
  hdr : t.m.hdrOpen = none
  sinv : st.closed = false → SInv (view st) t.m

theorem race_plain {st : State} {t : Tolerant} (h : RaceInv st t) (op : Op) (hok : op.ok) :
    ∃ t', Tolerant.run t (rstep st (.plain op)).2 = .ok t' ∧ RaceInv (rstep st (.plain op)).1 t' := by
  simp only [rstep]
  cases hc : st.closed with
  | true =>
    have : step st op = (st, []) := by unfold step; simp [hc]
    simp only [this, if_true]
    exact ⟨t, rfl, h⟩
  | false =>
    simp only [Bool.false_eq_true, if_false]
    obtain ⟨m', h1, h2⟩ := sim_step (h.sinv hc) op hok
    simp only [hc, Bool.false_eq_true, if_false] at h1
    obtain ⟨t', h3, h4⟩ := tolerant_run_of_strict _ h1
    exact ⟨t', h3, ⟨by rw [h4]; exact h2.pending, by rw [h4]; exact h2.hdr, fun _ => by rw [h4]; exact h2⟩⟩

theorem tolerant_run_append : ∀ (a b : List Event) (t x : Tolerant), Tolerant.run t a = .ok x →
    Tolerant.run t (a ++ b) = Tolerant.run x b := by
  intro a
  induction a with
  | nil => intro b t x hx; cases hx; rfl
  | cons e es ih =>
    intro b t x hx
    cases e with
    | c f =>
      simp only [List.cons_append, Tolerant.run] at hx ⊢
      cases hcf : Tolerant.client t f with
      | error r => rw [hcf] at hx; cases hx
      | ok t1 => rw [hcf] at hx; simp only; exact ih b t1 x hx
    | p f =>
      simp only [List.cons_append, Tolerant.run] at hx ⊢
      exact ih b _ x hx

theorem bool_false_of_not_true {b : Bool} (h : ¬ b = true) : b = false := by
  cases b <;> simp at h ⊢

theorem race_write {st : State} {t : Tolerant} (h : RaceInv st t) (id : Nat) (vals : List (Nat × Nat)) :
    ∃ t', Tolerant.run t (rstep st (.writeRaced id vals)).2 = .ok t' ∧
      RaceInv (rstep st (.writeRaced id vals)).1 t' := by
  simp only [rstep]
  by_cases hc : st.closed = true
  · rw [if_pos hc]; exact ⟨t, rfl, h⟩
  · rw [if_neg hc]
    have hs := h.sinv (bool_false_of_not_true hc)
    split
    · exact ⟨t, rfl, h⟩
    · rename_i s hf
      split
      · exact ⟨t, rfl, h⟩
      · rename_i c s' f hw
        obtain ⟨m1, hm1, hi1⟩ := sim_writeStep hs hf hw
        obtain ⟨len, es, rfl⟩ := writeStep_data hw
        by_cases hc1 : (settle { st with connOut := c } s').closed = true
        · -- atomic after all
          rw [if_pos hc1]
          obtain ⟨t', h3, h4⟩ := tolerant_run_of_strict [Event.c (Frame.data s.id len es)] (t := t)
            (send_run_single_c hm1)
          exact ⟨t', h3, ⟨by rw [h4]; exact hi1.pending, by rw [h4]; exact hi1.hdr, fun _ => by rw [h4]; exact hi1⟩⟩
        · rw [if_neg hc1]
          rcases peerSettings_shape hi1 vals with ⟨hps, hinv⟩ | ⟨st2, hps, hcl, hval, hi2⟩
          · -- an invalid SETTINGS frame: the connection is torn down, the frame never leaves
            simp only [settingsEvents, hps, List.map_nil, if_true, List.append_nil]
            refine ⟨{ t with m := t.m.peer (.settings vals) }, rfl, ?_⟩
            simp only [peer_settings_invalid _ hinv]
            exact ⟨h.pending, h.hdr, fun hx => by simp at hx⟩
          · have hc2 : st2.closed = false := by rw [hcl]; exact bool_false_of_not_true hc1
            simp only [settingsEvents, hps, List.map_cons, List.map_nil, hc2, Bool.false_eq_true, if_false]
            obtain ⟨t2, ht2, ha, hg, _⟩ := tolerant_settings_ack t h.pending h.hdr hval
            have hG : ∀ ms, findM t.m.streams s.id = some ms →
                ∃ w mf, t2.grace.find? (·.1 == s.id) = some (s.id, w, mf) ∧ ms.win ≤ w ∧ t.m.maxFrame ≤ mf := by
              intro ms hms
              have := find_grace_map (graceOf t t.m) (fun x => (graceOf_ge t t.m x).1) _ _ _ hms
              obtain ⟨g1, g2, g3⟩ := graceOf_ge t t.m ms
              have hid : ms.id = s.id := (findM_mem hms).2
              rw [hg, this]
              refine ⟨(graceOf t t.m ms).2.1, (graceOf t t.m ms).2.2, ?_, g2, g3⟩
              rw [← hid, ← g1]
            obtain ⟨t3, ht3, hm3⟩ := tolerant_data_after_ack hm1 vals ha hG
            refine ⟨t3, ?_, ?_⟩
            · have e1 : (Event.p (PFrame.settings vals) :: [Event.c Frame.settingsAck] ++ [Event.c (Frame.data s.id len es)]) =
                  [Event.p (.settings vals), Event.c .settingsAck] ++ [Event.c (Frame.data s.id len es)] := rfl
              rw [e1, tolerant_run_append _ _ _ _ ht2]
              simp only [Tolerant.run, ht3]
            · -- the books are those of the atomic order "DATA, SETTINGS, acknowledgement"
              exact ⟨by rw [hm3]; exact hi2.pending, by rw [hm3]; exact hi2.hdr, fun _ => by rw [hm3]; exact hi2⟩

theorem openCount_map_addWin (d : Int) (l : List MStream) : openCount (l.map (addWin d)) = openCount l := by
  induction l with
  | nil => rfl
  | cons a l ih =>
    unfold openCount at *
    simp only [List.map_cons, List.filter]
    have : (addWin d a).closed = a.closed := rfl
    rw [this]
    split <;> simp [ih]

theorem conc_check_false (old : Option Nat) (n : Nat) :
    (∀ k, old = some k → n + 1 ≤ k) →
    (match old with | some k => decide (n + 1 > k) | none => false) = false := by
  intro h
  cases old with
  | none => rfl
  | some k => have := h k rfl; simp; omega

/-- the monitor's books after the first frame of a new stream's header block -/
def firstHdrMon (m : Send) (id : Nat) (es fin : Bool) : Send :=
  { m with lastId := id, hdrOpen := (if fin then none else some id),
           streams := m.streams ++ [{ id := id, win := m.initWin, cEnd := es, cRst := false, pEnd := false, pRst := false }] }

/-- a new stream's header block under the tolerant reading: accepted when the stream limit in
force at admission time (the most generous one since the last new stream) had room -/
theorem theaders_run {t : Tolerant} (hdr : t.m.hdrOpen = none) (id len : Nat) (es prio : Bool) (mf : Nat)
    (hmf : t.m.maxFrame = mf) (h16 : 16384 ≤ mf) (hlen : 0 < len) (hid : id > t.m.lastId) (hodd : id % 2 = 1)
    (hconc : ∃ old, t.graceConc = some old ∧ ∀ k, old = some k → openCount t.m.streams + 1 ≤ k) :
    ∃ t', Tolerant.run t ((headerFrames (len + 1) id len es mf prio true true).map Event.c) = .ok t' ∧
      t'.m = openedMon t.m id es := by
  have hne : ¬ len = 0 := by omega
  simp only [headerFrames, hne, if_false, List.map_cons, true_and, and_true, if_true]
  generalize hlimit : (if prio = true then mf - 5 else mf) = limit
  have hl1 : limit ≤ mf := by rw [← hlimit]; split <;> omega
  have hl2 : 0 < limit := by rw [← hlimit]; split <;> omega
  have hl3 : prio = true → limit + 5 ≤ mf := by intro hp; rw [← hlimit]; simp [hp]; omega
  generalize hchunk : (if len > limit then limit else len) = chunk
  have hc1 : chunk ≤ limit := by rw [← hchunk]; split <;> omega
  have hc2 : 0 < chunk := by rw [← hchunk]; split <;> omega
  have hc3 : chunk ≤ len := by rw [← hchunk]; split <;> omega
  have hflen : ¬ (chunk + (if prio = true then 5 else 0) > t.m.maxFrame) := by
    rw [hmf]
    by_cases hp : prio = true
    · have := hl3 hp; simp [hp]; omega
    · simp [hp]; omega
  have heven : ¬ id % 2 = 0 := by omega
  obtain ⟨old, hgc, hold⟩ := hconc
  -- the state after the first frame, whichever way it was accepted
  have hfirst : ∃ t1, Tolerant.client t (Frame.headers id (chunk + (if prio = true then 5 else 0)) es (decide (len - chunk = 0))) =
      .ok t1 ∧ t1.m = firstHdrMon t.m id es (decide (len - chunk = 0)) := by
    cases hs : t.m.client (Frame.headers id (chunk + (if prio = true then 5 else 0)) es (decide (len - chunk = 0))) with
    | ok x =>
      refine ⟨{ t with m := x, graceConc := if id > t.m.lastId then none else t.graceConc }, ?_, ?_⟩
      · simp only [Tolerant.client, hs]
      · simp only [Send.client, hdr, Bool.not_true, Bool.false_eq_true, if_false, if_neg hflen, if_pos hid,
          if_neg heven] at hs
        have := ite_ok_of_ok hs
        rw [this]; rfl
    | error r =>
      refine ⟨{ m := firstHdrMon t.m id es (decide (len - chunk = 0)), grace := t.grace, graceConc := none }, ?_, rfl⟩
      simp only [Tolerant.client, hs, hgc]
      simp only [Send.client, hdr, Bool.not_true, Bool.false_eq_true, if_false, if_neg hflen, if_pos hid,
        if_neg heven, firstHdrMon]
      cases ho : old with
      | none => simp only [Bool.false_eq_true, if_false]
      | some k =>
        have hk := hold k ho
        have : decide (openCount t.m.streams + 1 > k) = false := by simp; omega
        simp only [this, Bool.false_eq_true, if_false]
  obtain ⟨t1, ht1, hm1⟩ := hfirst
  simp only [Tolerant.run, ht1]
  by_cases hrest : len - chunk = 0
  · refine ⟨t1, ?_, ?_⟩
    · simp [hrest, headerFrames_zero, Tolerant.run]
    · rw [hm1]; simp only [firstHdrMon, hrest, decide_true, if_true, openedMon]
  · have hdr1 : t1.m.hdrOpen = some id := by
      rw [hm1]; simp only [firstHdrMon, hrest, decide_false, Bool.false_eq_true, if_false]
    have hmf1 : t1.m.maxFrame = mf := by rw [hm1]; exact hmf
    have hrun := cont_run id es mf prio true (by omega) len (len - chunk) t1.m hdr1 hmf1 (by omega) (by omega)
    obtain ⟨t2, ht2, hm2⟩ := tolerant_run_of_strict _ hrun
    refine ⟨t2, ht2, ?_⟩
    rw [hm2, hm1]
    simp only [firstHdrMon, openedMon]

theorem race_open {st : State} {t : Tolerant} (h : RaceInv st t) (r : Req) (vals : List (Nat × Nat))
    (hlen : 0 < r.hdrLen) :
    ∃ t', Tolerant.run t (rstep st (.openRaced r vals)).2 = .ok t' ∧
      RaceInv (rstep st (.openRaced r vals)).1 t' := by
  simp only [rstep]
  by_cases hc : st.closed = true
  · rw [if_pos hc]; exact ⟨t, rfl, h⟩
  · rw [if_neg hc]
    have hs := h.sinv (bool_false_of_not_true hc)
    split
    · exact ⟨t, rfl, h⟩
    · rename_i hadm
      -- admitted: a slot was free under the limit in force now
      have hslot : liveCount st.streams < st.maxConcurrent := by
        simp only [Bool.or_eq_true, Bool.not_eq_true', decide_eq_false_iff_not, not_or, Bool.not_eq_false,
          Decidable.not_not] at hadm
        exact hadm.2
      rcases peerSettings_shape hs vals with ⟨hps, hinv⟩ | ⟨st1, hps, hcl, hval, hi1⟩
      · simp only [settingsEvents, hps, List.map_nil, if_true]
        refine ⟨{ t with m := t.m.peer (.settings vals) }, rfl, ?_⟩
        simp only [peer_settings_invalid _ hinv]
        exact ⟨h.pending, h.hdr, fun hx => by simp at hx⟩
      · have hc1 : st1.closed = false := by rw [hcl]; exact bool_false_of_not_true hc
        simp only [settingsEvents, hps, List.map_cons, List.map_nil, hc1, Bool.false_eq_true, if_false]
        obtain ⟨t2, ht2, ha, _, conc, hgc, hge, hnone⟩ := tolerant_settings_ack t h.pending h.hdr hval
        have hfixes : st1.cfg.fixes = Fixes.all := by have := hi1.fixes; simpa only [view] using this
        have hi2 : SInv (view st1) t2.m := by rw [ha]; exact hi1
        -- the limit noted at the acknowledgement covers the admission
        obtain ⟨d, a1, _, _, _, _⟩ := foldl_ack_shape vals t.m
        have hconc : ∃ old, t2.graceConc = some old ∧ ∀ k, old = some k → openCount t2.m.streams + 1 ≤ k := by
          refine ⟨conc, hgc, ?_⟩
          intro k hk
          rw [ha, a1, openCount_map_addWin]
          have h2 := rels_open_le_live hs.rel
          simp only [view] at h2
          cases hj : t.m.maxConc with
          | none => rw [hnone hj] at hk; cases hk
          | some j =>
            have h1 := hs.conc j hj
            simp only [view] at h1
            have := hge k hk j hj
            omega
        obtain ⟨t3, ht3, hm3⟩ := theaders_run (t := t2) hi2.hdr st1.nextStreamID r.hdrLen
          (!(!(r.known && r.bodyLen == 0))) st1.cfg.hdrPrio st1.maxFrameSize hi2.maxFrame hi2.frameLo hlen
          hi2.lastId hi2.odd hconc
        refine ⟨t3, ?_, ?_⟩
        · have e1 : (Event.p (PFrame.settings vals) :: [Event.c Frame.settingsAck] ++ (doOpen st1 r).2.map Event.c) =
              [Event.p (.settings vals), Event.c .settingsAck] ++ (doOpen st1 r).2.map Event.c := rfl
          rw [e1, tolerant_run_append _ _ _ _ ht2, doOpen_frames hfixes]
          exact ht3
        · have hfin := sinv_doOpen hi2 r
          rw [← hm3] at hfin
          exact ⟨hfin.pending, hfin.hdr, fun _ => hfin⟩

theorem race_step {st : State} {t : Tolerant} (h : RaceInv st t) (op : ROp) (hok : op.ok) :
    ∃ t', Tolerant.run t (rstep st op).2 = .ok t' ∧ RaceInv (rstep st op).1 t' := by
  cases op with
  | plain op => exact race_plain h op hok
  | writeRaced id vals => exact race_write h id vals
  | openRaced r vals => exact race_open h r vals hok

theorem race_runFrom (ops : List ROp) (hok : ∀ op ∈ ops, op.ok) :
    ∀ {st : State} {t t0 : Tolerant} {hist : List Event},
    Tolerant.run t0 hist = .ok t → RaceInv st t →
    ∃ t', Tolerant.run t0 (rrunFrom st hist ops).2 = .ok t' ∧ RaceInv (rrunFrom st hist ops).1 t' := by
  induction ops with
  | nil => intro st t t0 hist hr h; exact ⟨t, hr, h⟩
  | cons op rest ih =>
    intro st t t0 hist hr h
    obtain ⟨t1, h1, h2⟩ := race_step h op (hok op List.mem_cons_self)
    have : rrunFrom st hist (op :: rest) = rrunFrom (rstep st op).1 (hist ++ (rstep st op).2) rest := rfl
    rw [this]
    refine ih (fun o ho => hok o (List.mem_cons_of_mem _ ho)) ?_ h2
    rw [tolerant_run_append _ _ _ _ hr]
    exact h1

end Req.Lemmas.C06
