import Req.Client.CompressAuto
/-!
Generic facts about byte automata (`Req.Client.CompressAuto`): cutting the input, strict
prefixes of a complete unit, repetition, and the incremental reader's streaming law.
-/
namespace Req.Compress.Auto
open Req.Proto Req.Compress
variable (A : Auto)

theorem run_nil (s : A.σ) : A.run [] s = (s, [], []) := rfl

theorem run_cons_working (b : UInt8) (inp : Bytes) (s : A.σ) (h : A.phase s = .working) :
    A.run (b :: inp) s =
      ((A.run inp (A.step s b).1).1,
       optList (A.step s b).2 ++ (A.run inp (A.step s b).1).2.1,
       (A.run inp (A.step s b).1).2.2) := by
  simp [run, h]

theorem run_stopped (inp : Bytes) (s : A.σ) (h : A.phase s ≠ .working) :
    A.run inp s = (s, [], inp) := by
  cases inp with
  | nil => rfl
  | cons b inp =>
    unfold run
    split
    · contradiction
    · rfl

/-- **run_append** — the outcome does not depend on where the input is cut: running over
`p ++ q` is running over `p` and then over what is left. -/
theorem run_append (p q : Bytes) (s : A.σ) :
    A.run (p ++ q) s =
      ((A.run ((A.run p s).2.2 ++ q) (A.run p s).1).1,
       (A.run p s).2.1 ++ (A.run ((A.run p s).2.2 ++ q) (A.run p s).1).2.1,
       (A.run ((A.run p s).2.2 ++ q) (A.run p s).1).2.2) := by
  induction p generalizing s with
  | nil => simp [run_nil]
  | cons b p ih =>
    by_cases h : A.phase s = .working
    · rw [List.cons_append, run_cons_working A b (p ++ q) s h, run_cons_working A b p s h, ih]
      simp [List.append_assoc]
    · rw [run_stopped A (b :: p ++ q) s h, run_stopped A (b :: p) s h]
      simp [run_stopped A _ s h]

/-- sequencing: once `p` is consumed entirely, what follows is run from the state reached -/
theorem run_seq (p q : Bytes) (s s' : A.σ) (o : Bytes) (h : A.run p s = (s', o, [])) :
    A.run (p ++ q) s = ((A.run q s').1, o ++ (A.run q s').2.1, (A.run q s').2.2) := by
  rw [run_append, h]; simp

/-- one step, spelled out -/
theorem run_step (b : UInt8) (inp : Bytes) (s s' : A.σ) (o : Option UInt8)
    (hp : A.phase s = .working) (hs : A.step s b = (s', o)) :
    A.run (b :: inp) s = ((A.run inp s').1, optList o ++ (A.run inp s').2.1, (A.run inp s').2.2) := by
  rw [run_cons_working A b inp s hp, hs]

/-- input is left over only when the automaton has stopped -/
theorem stopped_of_rest (inp : Bytes) (s : A.σ) (h : (A.run inp s).2.2 ≠ []) :
    A.phase (A.run inp s).1 ≠ .working := by
  induction inp generalizing s with
  | nil => simp [run_nil] at h
  | cons b inp ih =>
    by_cases hp : A.phase s = .working
    · rw [run_cons_working A b inp s hp] at h ⊢
      exact ih _ h
    · rw [run_stopped A _ s hp]; exact hp

/-- the output after a part of the input is a prefix of the output after all of it -/
theorem out_prefix (p q : Bytes) (s : A.σ) :
    ∃ y, (A.run (p ++ q) s).2.1 = (A.run p s).2.1 ++ y := by
  rw [run_append]; exact ⟨_, rfl⟩

/-- **working_on_strict_prefix** — if the automaton consumes ALL of `w`, then after every strict
prefix of `w` it is still working and has consumed that prefix entirely: it cannot have
delivered a verdict (`done` or `failed`) early. -/
theorem working_on_strict_prefix (w : Bytes) (s : A.σ) (hall : (A.run w s).2.2 = [])
    (p q : Bytes) (hw : w = p ++ q) (hq : q ≠ []) :
    A.phase (A.run p s).1 = .working ∧ (A.run p s).2.2 = [] := by
  subst hw
  have hwork : A.phase (A.run p s).1 = .working := by
    by_cases h : A.phase (A.run p s).1 = .working
    · exact h
    · exfalso
      rw [run_append, run_stopped A _ _ h] at hall
      simp at hall
      exact hq hall.2
  refine ⟨hwork, ?_⟩
  by_cases h : (A.run p s).2.2 = []
  · exact h
  · exact absurd hwork (stopped_of_rest A p s h)

theorem run_not_fresh (hl : A.Lawful) (b : UInt8) (inp : Bytes) (s : A.σ)
    (hs : A.phase s = .working) (hall : (A.run (b :: inp) s).2.2 = []) :
    A.fresh (A.run (b :: inp) s).1 = false := by
  induction inp generalizing s b with
  | nil =>
    rw [run_cons_working A b [] s hs]; simp [run_nil, hl.step_not_fresh]
  | cons c inp ih =>
    rw [run_cons_working A b (c :: inp) s hs] at hall ⊢
    by_cases h1 : A.phase (A.step s b).1 = .working
    · exact ih c _ h1 hall
    · rw [run_stopped A _ _ h1] at hall; simp at hall

/-! ### complete units and their repetition -/

/-- `w` is a complete unit with output `x`: from the initial state the automaton consumes all
of `w`, releases `x` and is done. -/
def IsUnit (w x : Bytes) : Prop :=
  ∃ sd, A.run w A.init = (sd, x, []) ∧ A.phase sd = .done

theorem IsUnit.ne_nil {A : Auto} {w x : Bytes} (h : A.IsUnit w x) (hinit : A.phase A.init = .working) :
    w ≠ [] := by
  obtain ⟨sd, hr, hd⟩ := h
  intro hw; subst hw
  simp [run_nil] at hr
  rw [← hr.1, hinit] at hd
  exact absurd hd (by decide)

theorem many_phase_working (s : A.σ) (h : A.phase s = .working) : A.many.phase s = .working := by
  simp [many, h]

theorem many_phase_done (s : A.σ) (h : A.phase s = .done) : A.many.phase s = .working := by
  simp [many, h]

theorem many_step_working (s : A.σ) (b : UInt8) (h : A.phase s = .working) :
    A.many.step s b = A.step s b := by
  simp [many, h, isDone]

theorem many_step_done (s : A.σ) (b : UInt8) (h : A.phase s = .done) :
    A.many.step s b = A.step A.init b := by
  simp [many, h, isDone]

/-- while the unit automaton is working, the repetition does what it does -/
theorem many_run_working (p r : Bytes) (s : A.σ) (hall : (A.run p s).2.2 = [])
    (hs : A.phase s = .working ∨ p = []) :
    A.many.run (p ++ r) s =
      ((A.many.run r (A.run p s).1).1,
       (A.run p s).2.1 ++ (A.many.run r (A.run p s).1).2.1,
       (A.many.run r (A.run p s).1).2.2) := by
  induction p generalizing s with
  | nil => simp [run_nil]
  | cons c p ih =>
    have hw : A.phase s = .working := by
      rcases hs with h | h
      · exact h
      · simp at h
    rw [List.cons_append, run_cons_working A.many c (p ++ r) s (many_phase_working A s hw),
      many_step_working A s c hw]
    rw [run_cons_working A c p s hw] at hall ⊢
    have hs1 : A.phase (A.step s c).1 = .working ∨ p = [] := by
      by_cases h1 : A.phase (A.step s c).1 = .working
      · exact Or.inl h1
      · rw [run_stopped A _ _ h1] at hall; exact Or.inr (by simpa using hall)
    rw [ih _ hall hs1]
    simp [List.append_assoc]

/-- after a complete unit the next byte starts a new one -/
theorem many_run_restart (c : UInt8) (p : Bytes) (s : A.σ) (hs : A.phase s = .done)
    (hinit : A.phase A.init = .working) :
    A.many.run (c :: p) s = A.many.run (c :: p) A.init := by
  rw [run_cons_working A.many c p s (many_phase_done A s hs),
    run_cons_working A.many c p A.init (many_phase_working A _ hinit),
    many_step_done A s c hs, many_step_working A _ c hinit]

/-- a boundary state: nothing consumed yet, or a unit just completed -/
def Boundary (s : A.σ) : Prop := s = A.init ∨ A.phase s = .done

theorem many_run_from_boundary (inp : Bytes) (s : A.σ) (hb : A.Boundary s)
    (hinit : A.phase A.init = .working) (hne : inp ≠ []) :
    A.many.run inp s = A.many.run inp A.init := by
  rcases hb with h | h
  · rw [h]
  · cases inp with
    | nil => exact absurd rfl hne
    | cons c p => exact many_run_restart A c p s h hinit

/-- **many_units** — a sequence of complete units, followed by anything: the repetition
releases the units' outputs one after the other, and continues with what follows from a
boundary state. -/
theorem many_units (hinit : A.phase A.init = .working) (us : List (Bytes × Bytes))
    (hus : ∀ u ∈ us, A.IsUnit u.1 u.2) (s0 : A.σ) (hs0 : A.Boundary s0) (r : Bytes) :
    ∃ s1, A.Boundary s1 ∧
      A.many.run ((us.map (·.1)).flatten ++ r) s0 =
        ((A.many.run r s1).1, (us.map (·.2)).flatten ++ (A.many.run r s1).2.1,
         (A.many.run r s1).2.2) := by
  induction us generalizing s0 with
  | nil => exact ⟨s0, hs0, by simp⟩
  | cons u us ih =>
    have hu := hus u (by simp)
    obtain ⟨sd, hr, hd⟩ := hu
    have hne : u.1 ≠ [] := IsUnit.ne_nil ⟨sd, hr, hd⟩ hinit
    obtain ⟨s1, hb1, h1⟩ := ih (fun v hv => hus v (by simp [hv])) sd (Or.inr hd)
    refine ⟨s1, hb1, ?_⟩
    have hne' : u.1 ++ ((us.map (·.1)).flatten ++ r) ≠ [] := by simp [hne]
    simp only [List.map_cons, List.flatten_cons, List.append_assoc]
    rw [many_run_from_boundary A _ s0 hs0 hinit hne',
      many_run_working A u.1 _ A.init (by rw [hr]) (Or.inl hinit), hr]
    simp only
    rw [h1]

/-- **mean_many_units** — a body that consists of complete units (none, one, several: a
multi-member gzip stream) means the concatenation of their payloads and ends the way the
underlying body ends: cleanly on `io.EOF`, with the framing layer's error otherwise — at a unit
boundary the decoder alone cannot tell a complete message from one that was cut there. -/
theorem mean_many_units (hl : A.Lawful) (hfi : A.fresh A.init = true) (us : List (Bytes × Bytes))
    (hus : ∀ u ∈ us, A.IsUnit u.1 u.2) (fin : Term) :
    A.many.mean fin (us.map (·.1)).flatten A.init = ((us.map (·.2)).flatten, fin) := by
  have hinit := hl.fresh_working _ hfi
  obtain ⟨s1, hb1, h1⟩ := many_units A hinit us hus A.init (Or.inl rfl) []
  have e : A.many.run [] s1 = (s1, [], []) := rfl
  simp only [List.append_nil, e] at h1
  have hv : A.many.verdict fin s1 = fin := by
    rcases hb1 with h | h
    · simp [verdict, many, h, hinit, hfi]
    · simp [verdict, many, h, isDone]
  simp only [mean, h1, hv]

/-- **mean_many_truncated** — complete units followed by a strict, non-empty prefix of one
more: everything delivered is a prefix of the full output and the stream ends in an error
(`io.ErrUnexpectedEOF`, or the underlying body's own error) — never cleanly. -/
theorem mean_many_truncated (hl : A.Lawful) (hfi : A.fresh A.init = true)
    (us : List (Bytes × Bytes)) (hus : ∀ u ∈ us, A.IsUnit u.1 u.2)
    (w x p q : Bytes) (hu : A.IsUnit w x) (hw : w = p ++ q) (hp : p ≠ []) (hq : q ≠ [])
    (fin : Term) :
    ∃ y z, x = y ++ z ∧
      A.many.mean fin ((us.map (·.1)).flatten ++ p) A.init =
        ((us.map (·.2)).flatten ++ y, noEOF fin) := by
  have hinit := hl.fresh_working _ hfi
  obtain ⟨sd, hr, hd⟩ := hu
  have hall : (A.run w A.init).2.2 = [] := by rw [hr]
  obtain ⟨hwk, hrest⟩ := working_on_strict_prefix A w A.init hall p q hw hq
  obtain ⟨z, hz⟩ := out_prefix A p q A.init
  rw [← hw, hr] at hz
  refine ⟨(A.run p A.init).2.1, z, hz, ?_⟩
  obtain ⟨s1, hb1, h1⟩ := many_units A hinit us hus A.init (Or.inl rfl) p
  have h2 := many_run_working A p [] A.init hrest (Or.inl hinit)
  have e : A.many.run [] (A.run p A.init).1 = ((A.run p A.init).1, [], []) := rfl
  simp only [List.append_nil, e] at h2
  have hv : A.many.verdict fin (A.run p A.init).1 = noEOF fin := by
    obtain ⟨b, p', rfl⟩ := List.exists_cons_of_ne_nil hp
    have hnf := run_not_fresh A hl b p' A.init hinit hrest
    simp [verdict, many, hwk, hnf, isDone]
  simp only [mean, h1, many_run_from_boundary A p s1 hb1 hinit hp, h2, hv]

/-- as long as no unit completes, the repetition is the unit automaton -/
theorem many_run_no_done (inp : Bytes) (s : A.σ) (hs : A.phase s ≠ .done)
    (hend : A.phase (A.run inp s).1 ≠ .done) : A.many.run inp s = A.run inp s := by
  induction inp generalizing s with
  | nil => rfl
  | cons b inp ih =>
    cases hp : A.phase s with
    | done => exact absurd hp hs
    | failed e =>
      have h1 : A.phase s ≠ .working := by rw [hp]; intro hc; cases hc
      have h2 : A.many.phase s ≠ .working := by
        show (match A.phase s with | .done => Phase.working | p => p) ≠ _
        rw [hp]; intro hc; cases hc
      rw [run_stopped A _ s h1]
      exact run_stopped A.many _ s h2
    | working =>
      rw [run_cons_working A b inp s hp] at hend
      have h1 : A.phase (A.step s b).1 ≠ .done := by
        intro hd
        have hnw : A.phase (A.step s b).1 ≠ .working := by rw [hd]; intro hc; cases hc
        rw [run_stopped A inp _ hnw] at hend
        exact hend hd
      rw [run_cons_working A.many b inp s (many_phase_working A s hp), many_step_working A s b hp,
        run_cons_working A b inp s hp, ih _ h1 hend]
      rfl

/-- complete units followed by something: the units' outputs, then what the rest means from a
fresh start -/
theorem mean_many_units_then (hl : A.Lawful) (hfi : A.fresh A.init = true)
    (us : List (Bytes × Bytes)) (hus : ∀ u ∈ us, A.IsUnit u.1 u.2) (r : Bytes) (hr : r ≠ [])
    (fin : Term) :
    A.many.mean fin ((us.map (·.1)).flatten ++ r) A.init =
      ((us.map (·.2)).flatten ++ (A.many.mean fin r A.init).1, (A.many.mean fin r A.init).2) := by
  have hinit := hl.fresh_working _ hfi
  obtain ⟨s1, hb1, h1⟩ := many_units A hinit us hus A.init (Or.inl rfl) r
  simp only [mean, h1, many_run_from_boundary A r s1 hb1 hinit hr]

/-- a unit that fails: the repetition reports what the unit automaton reports -/
theorem mean_many_of_failed (inp : Bytes) (e : Term) (o rest : Bytes) (sf : A.σ)
    (hinit : A.phase A.init = .working)
    (hrun : A.run inp A.init = (sf, o, rest)) (hf : A.phase sf = .failed e) (fin : Term) :
    A.many.mean fin inp A.init = (o, e) := by
  have h0 : A.phase A.init ≠ .done := by rw [hinit]; intro hc; cases hc
  have h1 : A.phase (A.run inp A.init).1 ≠ .done := by rw [hrun, hf]; intro hc; cases hc
  simp only [mean, many_run_no_done A inp A.init h0 h1, hrun]
  congr 1
  show (match (match A.phase sf with | .done => Phase.working | p => p) with
    | .done => Term.eof | .failed e => e | .working => _) = e
  rw [hf]

/-- a unit that is still working when the input ends (and has consumed something): the
repetition ends in `noEOF fin` -/
theorem mean_many_of_working (hl : A.Lawful) (b : UInt8) (inp : Bytes) (o : Bytes) (sw : A.σ)
    (hinit : A.phase A.init = .working)
    (hrun : A.run (b :: inp) A.init = (sw, o, [])) (hw : A.phase sw = .working) (fin : Term) :
    A.many.mean fin (b :: inp) A.init = (o, noEOF fin) := by
  have h0 : A.phase A.init ≠ .done := by rw [hinit]; intro hc; cases hc
  have h1 : A.phase (A.run (b :: inp) A.init).1 ≠ .done := by rw [hrun, hw]; intro hc; cases hc
  have hnf := run_not_fresh A hl b inp A.init hinit (by rw [hrun])
  rw [hrun] at hnf
  simp only [mean, many_run_no_done A _ A.init h0 h1, hrun]
  congr 1
  simp [verdict, many, hw, hnf, isDone]

/-! ### single unit (raw DEFLATE: nothing is consumed after the final block) -/

/-- a complete unit followed by anything: the output, a clean end, the rest untouched -/
theorem mean_unit (w x r : Bytes) (hu : A.IsUnit w x) (fin : Term) :
    A.mean fin (w ++ r) A.init = (x, .eof) := by
  obtain ⟨sd, hr, hd⟩ := hu
  have hnw : A.phase sd ≠ .working := by rw [hd]; decide
  simp [mean, run_append, hr, run_stopped A _ sd hnw, verdict, hd]

/-- a strict prefix of a unit: a prefix of the output, then an error -/
theorem mean_unit_truncated (hl : A.Lawful) (hinit : A.phase A.init = .working)
    (w x p q : Bytes) (hu : A.IsUnit w x) (hw : w = p ++ q) (hp : p ≠ []) (hq : q ≠ [])
    (fin : Term) :
    ∃ y z, x = y ++ z ∧ A.mean fin p A.init = (y, noEOF fin) := by
  obtain ⟨sd, hr, hd⟩ := hu
  have hall : (A.run w A.init).2.2 = [] := by rw [hr]
  obtain ⟨hwk, hrest⟩ := working_on_strict_prefix A w A.init hall p q hw hq
  obtain ⟨z, hz⟩ := out_prefix A p q A.init
  rw [← hw, hr] at hz
  refine ⟨(A.run p A.init).2.1, z, hz, ?_⟩
  obtain ⟨b, p', rfl⟩ := List.exists_cons_of_ne_nil hp
  have hnf := run_not_fresh A hl b p' A.init hinit hrest
  simp [mean, verdict, hwk, hnf]

/-! ### the incremental reader satisfies the streaming law -/

theorem pull_len (fin : Term) (inp : Bytes) (n : Nat) (s : A.σ) :
    (A.pull fin inp n s).2.1.length ≤ n := by
  induction inp generalizing n s with
  | nil => cases n <;> simp [pull]
  | cons b inp ih =>
    cases n with
    | zero => simp [pull]
    | succ n =>
      unfold pull
      split
      · split
        · simp; exact ih n _
        · exact ih (n + 1) _
      · simp

theorem pull_none (fin : Term) (inp : Bytes) (n : Nat) (s : A.σ)
    (h : (A.pull fin inp n s).2.2 = none) :
    A.run inp s =
      ((A.run (A.pull fin inp n s).1.2 (A.pull fin inp n s).1.1).1,
       (A.pull fin inp n s).2.1 ++ (A.run (A.pull fin inp n s).1.2 (A.pull fin inp n s).1.1).2.1,
       (A.run (A.pull fin inp n s).1.2 (A.pull fin inp n s).1.1).2.2) := by
  induction inp generalizing n s with
  | nil => cases n <;> simp [pull] at h ⊢
  | cons b inp ih =>
    cases n with
    | zero => simp [pull]
    | succ n =>
      unfold pull at h ⊢
      split at h
      · rename_i hp
        split at h
        · rename_i s' o hst
          simp only at h
          have := ih n s' h
          rw [run_cons_working A b inp s hp, hst]
          simp only [optList]
          rw [this]; simp
        · rename_i s' hst
          have := ih (n + 1) s' h
          rw [run_cons_working A b inp s hp, hst]
          simp only [optList]
          rw [this]; simp
      · simp at h

theorem pull_some (fin : Term) (inp : Bytes) (n : Nat) (s : A.σ) (t : Term)
    (h : (A.pull fin inp n s).2.2 = some t) :
    A.run inp s = ((A.pull fin inp n s).1.1, (A.pull fin inp n s).2.1, (A.pull fin inp n s).1.2) ∧
      t = A.verdict fin (A.pull fin inp n s).1.1 ∧
      A.run (A.pull fin inp n s).1.2 (A.pull fin inp n s).1.1 =
        ((A.pull fin inp n s).1.1, [], (A.pull fin inp n s).1.2) := by
  induction inp generalizing n s with
  | nil =>
    cases n with
    | zero => simp [pull] at h
    | succ n => simp [pull] at h ⊢; exact ⟨run_nil A s, h.symm, run_nil A s⟩
  | cons b inp ih =>
    cases n with
    | zero => simp [pull] at h
    | succ n =>
      unfold pull at h ⊢
      split at h
      · rename_i hp
        split at h
        · rename_i s' o hst
          simp only at h
          obtain ⟨h1, h2, h3⟩ := ih n s' h
          rw [run_cons_working A b inp s hp, hst]
          simp only [optList]
          rw [h1]
          exact ⟨by simp, h2, h3⟩
        · rename_i s' hst
          obtain ⟨h1, h2, h3⟩ := ih (n + 1) s' h
          rw [run_cons_working A b inp s hp, hst]
          simp only [optList]
          rw [h1]
          exact ⟨by simp, h2, h3⟩
      · rename_i hp
        simp only at h ⊢
        have hnw : A.phase s ≠ .working := by
          intro hw; exact hp hw
        refine ⟨run_stopped A _ s hnw, ?_, run_stopped A _ s hnw⟩
        simpa using h.symm

theorem pull_progress (fin : Term) (inp : Bytes) (n : Nat) (s : A.σ) (hn : 0 < n)
    (h : (A.pull fin inp n s).2.2 = none) : (A.pull fin inp n s).2.1 ≠ [] := by
  induction inp generalizing n s with
  | nil => cases n <;> simp [pull] at h hn
  | cons b inp ih =>
    cases n with
    | zero => omega
    | succ n =>
      unfold pull at h ⊢
      split at h
      · split at h
        · simp
        · exact ih (n + 1) _ (by omega) h
      · simp at h

/-- The incremental reader over an automaton: state = automaton state, unread input, how the
underlying body ends. -/
def reader : Reader where
  σ := A.σ × Bytes × Term
  read := fun st n =>
    let r := A.pull st.2.2 st.2.1 n st.1
    ((r.1.1, r.1.2, st.2.2), r.2.1, r.2.2)
  rest := fun st => A.mean st.2.2 st.2.1 st.1
  read_len := fun st n => pull_len A st.2.2 st.2.1 n st.1
  read_none := by
    intro st n h
    simp only at h
    have := pull_none A st.2.2 st.2.1 n st.1 h
    simp only [mean]
    rw [this]
  read_some := by
    intro st n t h
    simp only at h
    obtain ⟨h1, h2, h3⟩ := pull_some A st.2.2 st.2.1 n st.1 t h
    simp only [mean]
    rw [h1, h3]
    simp [h2]
  read_progress := fun st n hn h => pull_progress A st.2.2 st.2.1 n st.1 hn h

/-- **codec** — the automaton as an instance of the `Codec` parameter of `Req.Props.C14`. -/
def codec : Codec := { A.reader with openR := fun src => .ok (A.init, src.data, src.fin) }

theorem codec_total (src : Src) : A.codec.total src = A.mean src.fin src.data A.init := rfl

end Req.Compress.Auto
