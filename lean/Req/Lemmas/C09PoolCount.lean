import Req.Lemmas.C09PoolExcl
/-! Slot accounting of the pool model (C09): `connsPerHost[k]` = live connections + running dials,
hence the "connCount underflow" panic of `decConnsPerHost` is unreachable. -/
namespace Req.Lemmas.C09PoolCount
open Req.Pool.H1Pool Req.Lemmas.C09Pool Req.Lemmas.C09PoolExcl

def cnt (p : Nat → Bool) : List Nat → Nat
  | [] => 0
  | a :: l => (if p a then 1 else 0) + cnt p l

theorem cnt_congr (p q : Nat → Bool) (l : List Nat) (h : ∀ x ∈ l, p x = q x) : cnt p l = cnt q l := by
  induction l with
  | nil => rfl
  | cons a t ih =>
    simp only [cnt]
    rw [h a List.mem_cons_self, ih (fun x hx => h x (List.mem_cons_of_mem _ hx))]

theorem cnt_erase (p : Nat → Bool) (l : List Nat) (w : Nat) (hw : w ∈ l) :
    cnt p (l.erase w) + (if p w then 1 else 0) = cnt p l := by
  induction l with
  | nil => cases hw
  | cons a t ih =>
    by_cases hwa : a = w
    · subst hwa; simp [cnt]; omega
    · have hw' : w ∈ t := by
        rcases List.mem_cons.mp hw with h | h
        · exact absurd h.symm hwa
        · exact h
      have hbeq : (a == w) = false := by simpa using hwa
      rw [List.erase_cons, hbeq]
      simp only [cnt, Bool.false_eq_true, if_false]
      have := ih hw'
      omega

/-- Flipping the predicate from true to false at one element of a duplicate-free list. -/
theorem cnt_flip (p q : Nat → Bool) (l : List Nat) (c : Nat) (hnd : l.Nodup) (hc : c ∈ l)
    (hp : p c = true) (hq : q c = false) (hother : ∀ x, x ≠ c → q x = p x) :
    cnt q l + 1 = cnt p l := by
  induction l with
  | nil => cases hc
  | cons a t ih =>
    obtain ⟨hat, hndt⟩ := List.nodup_cons.mp hnd
    by_cases hac : a = c
    · subst hac
      simp only [cnt, hp, hq, if_true, Bool.false_eq_true, if_false]
      have : cnt q t = cnt p t := cnt_congr q p t (fun x hx => hother x (by intro e; subst e; exact hat hx))
      omega
    · have hc' : c ∈ t := by
        rcases List.mem_cons.mp hc with h | h
        · exact absurd h.symm hac
        · exact h
      simp only [cnt, hother a hac]
      have := ih hndt hc'
      omega

def liveCnt (ckey : Conn → Option Key) (closed : Conn → Bool) (k : Key) (l : List Conn) : Nat :=
  cnt (fun c => ckey c == some k && !closed c) l
def dialCnt (wkey : Want → Option Key) (k : Key) (l : List Want) : Nat :=
  cnt (fun w => wkey w == some k) l

theorem dialCnt_cons (wkey : Want → Option Key) (k : Key) (w : Want) (l : List Want) :
    dialCnt wkey k (w :: l) = (if wkey w = some k then 1 else 0) + dialCnt wkey k l := by
  simp [dialCnt, cnt]

theorem dialCnt_erase (wkey : Want → Option Key) (k : Key) (w : Want) (l : List Want) (hw : w ∈ l) :
    dialCnt wkey k (l.erase w) + (if wkey w = some k then 1 else 0) = dialCnt wkey k l := by
  have := cnt_erase (fun w => wkey w == some k) l w hw
  simp only [dialCnt]
  simpa using this

structure Acct (s : St) : Prop where
  bal : ∀ k, s.cph k = liveCnt s.ckey s.closed k s.conns + dialCnt s.wkey k s.dialing
  noUnderflow : s.underflow = false
  dialWaitKey : ∀ k w, w ∈ s.dialWait k → s.wkey w = some k
  dialingCreated : ∀ w, w ∈ s.dialing → s.wkey w ≠ none

/-- The state handed to `decConnsPerHost(k)`: one slot of key `k` has just been vacated. -/
structure DecPre (s : St) (k : Key) : Prop where
  balOther : ∀ k', k' ≠ k → s.cph k' = liveCnt s.ckey s.closed k' s.conns + dialCnt s.wkey k' s.dialing
  balK : s.cph k = liveCnt s.ckey s.closed k s.conns + dialCnt s.wkey k s.dialing + 1
  noUnderflow : s.underflow = false
  dialWaitKey : ∀ k' w, w ∈ s.dialWait k' → s.wkey w = some k'
  dialingCreated : ∀ w, w ∈ s.dialing → s.wkey w ≠ none

theorem popUntilWaiting_mem (wst : Want → WSt) (l : List Want) :
    (∀ w, (popUntilWaiting wst l).1 = some w → w ∈ l) ∧ (∀ x, x ∈ (popUntilWaiting wst l).2 → x ∈ l) := by
  induction l with
  | nil => simp [popUntilWaiting]
  | cons a q ih =>
    unfold popUntilWaiting
    split
    · constructor
      · intro w hw; simp at hw; subst hw; exact List.mem_cons_self
      · intro x hx; exact List.mem_cons_of_mem _ hx
    · constructor
      · intro w hw; exact List.mem_cons_of_mem _ (ih.1 w hw)
      · intro x hx; exact List.mem_cons_of_mem _ (ih.2 x hx)

theorem Acct_decConns (cfg : Cfg) (hpos : cfg.maxConnsPerHost > 0) (s : St) (k : Key) (h : DecPre s k) :
    Acct (decConns cfg s k) := by
  unfold decConns
  split
  · next hle => omega
  · split
    · next hz => have := h.balK; omega
    · split
      · next w q heq =>
        -- the slot goes to a waiting want of the same key
        have hmem := (popUntilWaiting_mem s.wst (s.dialWait k)).1 w (by rw [heq])
        have hqsub := (popUntilWaiting_mem s.wst (s.dialWait k)).2
        rw [heq] at hqsub
        have hwk : s.wkey w = some k := h.dialWaitKey k w hmem
        refine ⟨?_, h.noUnderflow, ?_, ?_⟩
        · intro k'
          simp only [startDial]
          rw [dialCnt_cons, hwk]
          by_cases hkk : k' = k
          · subst hkk
            have := h.balK
            simp; omega
          · have := h.balOther k' hkk
            have hne : ¬ (some k = some k') := by simp; exact fun e => hkk e.symm
            simp only [hne, if_false]; omega
        · intro k' x hx
          simp only [startDial, upd] at hx
          split at hx
          · next he => subst he; exact h.dialWaitKey _ x (hqsub x hx)
          · exact h.dialWaitKey k' x hx
        · intro x hx
          simp only [startDial] at hx ⊢
          rcases List.mem_cons.mp hx with rfl | hx
          · rw [hwk]; simp
          · exact h.dialingCreated x hx
      · next q heq =>
        have hqsub := (popUntilWaiting_mem s.wst (s.dialWait k)).2
        rw [heq] at hqsub
        refine ⟨?_, h.noUnderflow, ?_, h.dialingCreated⟩
        · intro k'
          simp only [upd]
          split
          · next hkk =>
            subst hkk
            have := h.balK
            omega
          · next hkk => exact h.balOther k' hkk
        · intro k' x hx
          simp only [upd] at hx
          split at hx
          · next he => subst he; exact h.dialWaitKey _ x (hqsub x hx)
          · exact h.dialWaitKey k' x hx


theorem Acct_of_frame {s s' : St} (h1 : s'.cph = s.cph) (h2 : s'.ckey = s.ckey) (h3 : s'.closed = s.closed)
    (h4 : s'.conns = s.conns) (h5 : s'.wkey = s.wkey) (h6 : s'.dialing = s.dialing)
    (h7 : s'.underflow = s.underflow) (h8 : s'.dialWait = s.dialWait) (h : Acct s) : Acct s' where
  bal := by rw [h1, h2, h3, h4, h5, h6]; exact h.bal
  noUnderflow := by rw [h7]; exact h.noUnderflow
  dialWaitKey := by rw [h8, h5]; exact h.dialWaitKey
  dialingCreated := by rw [h6, h5]; exact h.dialingCreated

theorem liveCnt_close (ckey : Conn → Option Key) (closed : Conn → Bool) (k k' : Key) (l : List Conn)
    (c : Conn) (hnd : l.Nodup) (hc : c ∈ l) (hk : ckey c = some k) (hnc : closed c = false) :
    liveCnt ckey (upd closed c true) k' l + (if k' = k then 1 else 0) = liveCnt ckey closed k' l := by
  unfold liveCnt
  by_cases hkk : k' = k
  · subst hkk
    simp only [if_true]
    apply cnt_flip _ _ l c hnd hc
    · simp [hk, hnc]
    · simp [upd]
    · intro x hx; simp [upd, hx]
  · simp only [hkk, if_false, Nat.add_zero]
    apply cnt_congr
    intro x _
    by_cases hxc : x = c
    · subst hxc
      have : (ckey x == some k') = false := by rw [hk]; simp; exact fun e => hkk e.symm
      simp [this]
    · simp [upd, hxc]

theorem liveCnt_create (ckey : Conn → Option Key) (closed : Conn → Bool) (k k' : Key) (l : List Conn)
    (c : Conn) (hc : c ∉ l) :
    liveCnt (upd ckey c (some k)) (upd closed c false) k' (c :: l)
      = (if k' = k then 1 else 0) + liveCnt ckey closed k' l := by
  unfold liveCnt
  simp only [cnt, upd_same]
  have : cnt (fun x => upd ckey c (some k) x == some k' && !upd closed c false x) l
       = cnt (fun x => ckey x == some k' && !closed x) l := by
    apply cnt_congr
    intro x hx
    have hxc : x ≠ c := by intro e; subst e; exact hc hx
    simp [upd, hxc]
  rw [this]
  by_cases hkk : k' = k
  · subst hkk; simp
  · have : ¬ (k = k') := fun e => hkk e.symm
    simp [hkk, this]

theorem Acct_closeConn (cfg : Cfg) (hpos : cfg.maxConnsPerHost > 0) (s : St) (c : Conn)
    (hnd : s.conns.Nodup) (hcr : ∀ c, c ∈ s.conns ↔ s.ckey c ≠ none) (h : Acct s) :
    Acct (closeConn cfg s c) := by
  unfold closeConn
  split
  · exact h
  · next hncl =>
    have hnc : s.closed c = false := by simpa using hncl
    split
    · exact h
    · next k hk =>
      apply Acct_decConns cfg hpos
      have hmem : c ∈ s.conns := (hcr c).mpr (by rw [hk]; simp)
      refine ⟨?_, ?_, h.noUnderflow, h.dialWaitKey, h.dialingCreated⟩
      · intro k' hkk
        have := liveCnt_close s.ckey s.closed k k' s.conns c hnd hmem hk hnc
        simp only [hkk, if_false, Nat.add_zero] at this
        simp only
        rw [this]; exact h.bal k'
      · have := liveCnt_close s.ckey s.closed k k s.conns c hnd hmem hk hnc
        simp only [if_true] at this
        simp only
        have hb := h.bal k
        omega

@[simp] theorem removeIdleLocked_frameA (s : St) (c : Conn) :
    (removeIdleLocked s c).1.dialing = s.dialing ∧ (removeIdleLocked s c).1.wkey = s.wkey ∧
    (removeIdleLocked s c).1.underflow = s.underflow ∧ (removeIdleLocked s c).1.dialWait = s.dialWait := by
  unfold removeIdleLocked; (repeat' split) <;> exact ⟨rfl, rfl, rfl, rfl⟩

theorem Acct_removeIdleLocked (s : St) (c : Conn) (h : Acct s) : Acct (removeIdleLocked s c).1 := by
  obtain ⟨a, b, d, e⟩ := removeIdleLocked_frameA s c
  exact Acct_of_frame (by simp) (by simp) (by simp) (by simp) b a d e h

theorem Acct_evictOldest (cfg : Cfg) (hpos : cfg.maxConnsPerHost > 0) (s : St)
    (hnd : s.conns.Nodup) (hcr : ∀ c, c ∈ s.conns ↔ s.ckey c ≠ none) (h : Acct s) :
    Acct (evictOldest cfg s) := by
  unfold evictOldest
  split
  · exact h
  · next oldest _ =>
    apply Acct_removeIdleLocked
    exact Acct_closeConn cfg hpos { s with lru := s.lru.dropLast } oldest hnd hcr
      (Acct_of_frame (s := s) rfl rfl rfl rfl rfl rfl rfl rfl h)

theorem Acct_addIdle (cfg : Cfg) (hpos : cfg.maxConnsPerHost > 0) (s : St) (c : Conn) (k : Key)
    (hnd : s.conns.Nodup) (hcr : ∀ c, c ∈ s.conns ↔ s.ckey c ≠ none) (h : Acct s) :
    Acct (addIdle cfg s c k) := by
  unfold addIdle
  simp only
  split
  · exact Acct_evictOldest cfg hpos { s with idle := upd s.idle k (s.idle k ++ [c]), lru := c :: s.lru }
      hnd hcr (Acct_of_frame (s := s) rfl rfl rfl rfl rfl rfl rfl rfl h)
  · exact Acct_of_frame (s := s) rfl rfl rfl rfl rfl rfl rfl rfl h

theorem Acct_tryPut (cfg : Cfg) (hpos : cfg.maxConnsPerHost > 0) (s : St) (c : Conn) (k : Key)
    (hnd : s.conns.Nodup) (hcr : ∀ c, c ∈ s.conns ↔ s.ckey c ≠ none) (h : Acct s) :
    Acct (tryPut cfg s c k).1 := by
  unfold tryPut
  split
  · exact h
  · split
    · exact h
    · split
      · exact Acct_of_frame (s := s) rfl rfl rfl rfl rfl rfl rfl rfl h
      · next q _ =>
        have h1 : Acct { s with idleWait := upd s.idleWait k q } :=
          Acct_of_frame (s := s) rfl rfl rfl rfl rfl rfl rfl rfl h
        simp only
        split
        · exact h1
        · split
          · exact h1
          · split
            · exact Acct_of_frame (s := { s with idleWait := upd s.idleWait k q }) rfl rfl rfl rfl rfl rfl rfl rfl h1
            · exact Acct_addIdle cfg hpos { s with idleWait := upd s.idleWait k q } c k hnd hcr h1

theorem Acct_queueIdle (cfg : Cfg) (s : St) (w : Want) (k : Key) (h : Acct s) : Acct (queueIdle cfg s w k).1 := by
  unfold queueIdle
  split
  · exact h
  · simp only
    split
    · split
      · exact Acct_of_frame (s := s) rfl rfl rfl rfl rfl rfl rfl rfl h
      · exact Acct_of_frame (s := s) rfl rfl rfl rfl rfl rfl rfl rfl h
    · exact Acct_of_frame (s := s) rfl rfl rfl rfl rfl rfl rfl rfl h


theorem cleanFront_subset (wst : Want → WSt) (l : List Want) : ∀ x, x ∈ cleanFront wst l → x ∈ l := by
  induction l with
  | nil => simp [cleanFront]
  | cons a q ih =>
    unfold cleanFront
    split
    · intros; assumption
    · intro x hx; exact List.mem_cons_of_mem _ (ih x hx)

theorem DecPre_of_erase (s : St) (w : Want) (k : Key) (hw : w ∈ s.dialing) (hwk : s.wkey w = some k)
    (h : Acct s) : DecPre { s with dialing := s.dialing.erase w } k := by
  refine ⟨?_, ?_, h.noUnderflow, h.dialWaitKey, ?_⟩
  · intro k' hkk
    have := dialCnt_erase s.wkey k' w s.dialing hw
    have hne : ¬ (some k = some k') := by simp; exact fun e => hkk e.symm
    rw [hwk] at this
    simp only [hne, if_false, Nat.add_zero] at this
    simp only
    rw [this]; exact h.bal k'
  · have := dialCnt_erase s.wkey k w s.dialing hw
    rw [hwk] at this
    simp only [if_true] at this
    have hb := h.bal k
    simp only
    omega
  · intro x hx; exact h.dialingCreated x (List.mem_of_mem_erase hx)

theorem DecPre_of_frame {s s' : St} {k : Key} (h1 : s'.cph = s.cph) (h2 : s'.ckey = s.ckey)
    (h3 : s'.closed = s.closed) (h4 : s'.conns = s.conns) (h5 : s'.wkey = s.wkey)
    (h6 : s'.dialing = s.dialing) (h7 : s'.underflow = s.underflow) (h8 : s'.dialWait = s.dialWait)
    (h : DecPre s k) : DecPre s' k where
  balOther := by rw [h1, h2, h3, h4, h5, h6]; exact h.balOther
  balK := by rw [h1, h2, h3, h4, h5, h6]; exact h.balK
  noUnderflow := by rw [h7]; exact h.noUnderflow
  dialWaitKey := by rw [h8, h5]; exact h.dialWaitKey
  dialingCreated := by rw [h6, h5]; exact h.dialingCreated

theorem Acct_step (cfg : Cfg) (hpos : cfg.maxConnsPerHost > 0) (s : St) (op : Op) (he : Excl s)
    (h : Acct s) : Acct (step cfg s op).1 := by
  have hnd := he.connsNodup
  have hcr := he.connsCreated
  cases op with
  | newWant w k =>
    simp only [step]; split
    · exact h
    · next hnone =>
      have hnotin : w ∉ s.dialing := fun hm => h.dialingCreated w hm hnone
      refine ⟨?_, h.noUnderflow, ?_, ?_⟩
      · intro k'
        have : dialCnt (upd s.wkey w (some k)) k' s.dialing = dialCnt s.wkey k' s.dialing := by
          unfold dialCnt
          apply cnt_congr
          intro x hx
          have : x ≠ w := by intro e; subst e; exact hnotin hx
          simp [upd, this]
        simp only
        rw [this]; exact h.bal k'
      · intro k' x hx
        have e := h.dialWaitKey k' x hx
        have : x ≠ w := by intro e'; subst e'; rw [hnone] at e; cases e
        simp only [upd, this, if_false]; exact e
      · intro x hx
        have : x ≠ w := by intro e; subst e; exact hnotin hx
        simp only [upd, this, if_false]; exact h.dialingCreated x hx
  | queueIdle w => simp only [step]; split; exact h; exact Acct_queueIdle cfg s w _ h
  | queueDial w =>
    simp only [step]; split; exact h
    split; exact h
    next k hwk _ =>
    unfold queueDial
    split
    · omega
    · split
      · refine ⟨?_, h.noUnderflow, h.dialWaitKey, ?_⟩
        · intro k'
          simp only [startDial]
          rw [dialCnt_cons, hwk]
          simp only [upd]
          by_cases hkk : k' = k
          · subst hkk; have := h.bal k'; simp; omega
          · have := h.bal k'
            have hne : ¬ (some k = some k') := by simp; exact fun e => hkk e.symm
            simp only [hkk, hne, if_false]; omega
        · intro x hx
          simp only [startDial] at hx ⊢
          rcases List.mem_cons.mp hx with rfl | hx
          · rw [hwk]; simp
          · exact h.dialingCreated x hx
      · refine ⟨h.bal, h.noUnderflow, ?_, h.dialingCreated⟩
        intro k' x hx
        simp only [upd] at hx
        split at hx
        · next hkk =>
          subst hkk
          rcases List.mem_append.mp hx with hx | hx
          · exact h.dialWaitKey _ x (cleanFront_subset _ _ x hx)
          · simp at hx; subst hx; exact hwk
        · exact h.dialWaitKey k' x hx
  | dialBegin w =>
    simp only [step]; split; exact h
    next k hwk =>
    split; exact h
    next hmem =>
    split; exact h
    have hmem' : w ∈ s.dialing := by simpa using hmem
    exact Acct_decConns cfg hpos _ k (DecPre_of_erase s w k hmem' hwk h)
  | dialOk w c =>
    simp only [step]; split
    · next k hwk hck =>
      split; exact h
      next hmem =>
      have hmem' : w ∈ s.dialing := by simpa using hmem
      have hcnot : c ∉ s.conns := fun hm => (hcr c).mp hm hck
      have h1 : Acct { s with ckey := upd s.ckey c (some k), closed := upd s.closed c false,
                              conns := c :: s.conns, dialing := s.dialing.erase w } := by
        refine ⟨?_, h.noUnderflow, h.dialWaitKey, ?_⟩
        · intro k'
          simp only
          rw [liveCnt_create s.ckey s.closed k k' s.conns c hcnot]
          have := dialCnt_erase s.wkey k' w s.dialing hmem'
          rw [hwk] at this
          have hb := h.bal k'
          by_cases hkk : k' = k
          · subst hkk; simp at this ⊢; omega
          · have hne : ¬ (some k = some k') := by simp; exact fun e => hkk e.symm
            simp only [hne, if_false, Nat.add_zero] at this
            simp only [hkk, if_false]; omega
        · intro x hx; exact h.dialingCreated x (List.mem_of_mem_erase hx)
      split
      · exact Acct_of_frame (s := { s with ckey := upd s.ckey c (some k), closed := upd s.closed c false,
                                            conns := c :: s.conns, dialing := s.dialing.erase w })
          rfl rfl rfl rfl rfl rfl rfl rfl h1
      · exact Acct_of_frame (s := { s with ckey := upd s.ckey c (some k), closed := upd s.closed c false,
                                            conns := c :: s.conns, dialing := s.dialing.erase w })
          rfl rfl rfl rfl rfl rfl rfl rfl h1
    · exact h
  | dialFail w =>
    simp only [step]; split; exact h
    next k hwk =>
    split; exact h
    next hmem =>
    have hmem' : w ∈ s.dialing := by simpa using hmem
    have hd := DecPre_of_erase s w k hmem' hwk h
    simp only
    split
    · exact Acct_decConns cfg hpos _ k
        (DecPre_of_frame (s := { s with dialing := s.dialing.erase w }) rfl rfl rfl rfl rfl rfl rfl rfl hd)
    · exact Acct_decConns cfg hpos _ k hd
  | dialEnd w =>
    simp only [step]; split
    · exact h
    · exact Acct_of_frame (s := s) rfl rfl rfl rfl rfl rfl rfl rfl h
  | recv w =>
    simp only [step]; split
    · exact Acct_of_frame (s := s) rfl rfl rfl rfl rfl rfl rfl rfl h
    · exact Acct_of_frame (s := s) rfl rfl rfl rfl rfl rfl rfl rfl h
    · exact h
  | cancel w =>
    simp only [step]; split; exact h
    split
    · exact Acct_of_frame (s := s) rfl rfl rfl rfl rfl rfl rfl rfl h
    · exact Acct_of_frame (s := s) rfl rfl rfl rfl rfl rfl rfl rfl h
    · exact Acct_of_frame (s := s) rfl rfl rfl rfl rfl rfl rfl rfl h
    · exact h
  | putT c =>
    simp only [step]; split; exact h
    split; exact h
    next k _ _ =>
    have h1 := Acct_tryPut cfg hpos { s with transit := s.transit.erase c } c k hnd hcr
      (Acct_of_frame (s := s) rfl rfl rfl rfl rfl rfl rfl rfl h)
    split
    · exact h1
    · exact Acct_of_frame (s := (tryPut cfg { s with transit := s.transit.erase c } c k).1)
        rfl rfl rfl rfl rfl rfl rfl rfl h1
  | closeT c =>
    simp only [step]; split; exact h
    exact Acct_closeConn cfg hpos { s with transit := s.transit.erase c } c hnd hcr
      (Acct_of_frame (s := s) rfl rfl rfl rfl rfl rfl rfl rfl h)
  | finishPut w =>
    simp only [step]; split
    · next c _ =>
      split; exact h
      next k _ =>
      have h1 := Acct_tryPut cfg hpos { s with wst := upd s.wst w .finished } c k hnd hcr
        (Acct_of_frame (s := s) rfl rfl rfl rfl rfl rfl rfl rfl h)
      split
      · exact h1
      · exact Acct_of_frame (s := (tryPut cfg { s with wst := upd s.wst w .finished } c k).1)
          rfl rfl rfl rfl rfl rfl rfl rfl h1
    · exact h
  | finishClose w =>
    simp only [step]; split
    · next c _ =>
      exact Acct_closeConn cfg hpos { s with wst := upd s.wst w .finished } c hnd hcr
        (Acct_of_frame (s := s) rfl rfl rfl rfl rfl rfl rfl rfl h)
    · exact h
  | serverCloseIdle c =>
    simp only [step]; split; exact h
    split
    · exact Acct_closeConn cfg hpos s c hnd hcr h
    · exact h
  | removeIdle c =>
    simp only [step]; split; exact h
    split
    · exact Acct_removeIdleLocked s c h
    · exact h
  | idleTimeout c =>
    simp only [step]; split; exact h
    exact Acct_closeConn cfg hpos _ c (by simpa using hnd) (by simpa using hcr) (Acct_removeIdleLocked s c h)
  | closeIdleConnections =>
    simp only [step]
    exact Acct_of_frame (s := s) rfl rfl rfl rfl rfl rfl rfl rfl h

theorem Acct_init : Acct {} :=
  ⟨by intro k; simp [liveCnt, dialCnt, cnt], rfl, by intro k w hw; simp at hw, by intro w hw; simp at hw⟩

theorem Excl_Acct_run (cfg : Cfg) (hpos : cfg.maxConnsPerHost > 0) (s : St) (ops : List Op) (he : Excl s)
    (h : Acct s) : Acct (run cfg s ops) := by
  induction ops generalizing s with
  | nil => exact h
  | cons op ops ih => exact ih _ (Excl_step cfg s op he) (Acct_step cfg hpos s op he h)

end Req.Lemmas.C09PoolCount
