import Req.Pool.H2Mux
/-!
`Rel P s s'`: `s'` differs from `s` only in fields that do not decide routing, admission order or
the wire order, except that a caller `k` may have been given new items satisfying `P k`.
All the helpers of the read loop (`abortLocked`, `broadcast`, `endStream`, `readerCleanup`,
`setGoAway`, the `process*` functions) are `Rel`-steps; the invariants of C09H2Mux are
transported across them.
-/
namespace Req.Lemmas.C09H2Rel
open Req.Pool.H2Mux

structure Rel (P : Caller → Item → Prop) (s s' : St) : Prop where
  streams : s'.streams = s.streams
  nextId : s'.nextId = s.nextId
  rx : s'.rx = s.rx
  hdrWire : s'.hdrWire = s.hdrWire
  hdrMu : s'.hdrMu = s.hdrMu
  pendingReq : s'.pendingReq = s.pendingReq
  forgetPanic : s'.forgetPanic = s.forgetPanic
  rl : s'.rl = s.rl
  id : ∀ k, (s'.cs k).id = (s.cs k).id
  phase : ∀ k, (s'.cs k).phase = (s.cs k).phase
  got : ∀ k, ∃ new, (s'.cs k).got = new ++ (s.cs k).got ∧ ∀ it ∈ new, P k it

theorem Rel.refl (P) (s : St) : Rel P s s :=
  ⟨rfl, rfl, rfl, rfl, rfl, rfl, rfl, rfl, fun _ => rfl, fun _ => rfl,
   fun _ => ⟨[], rfl, by intro it h; cases h⟩⟩

theorem Rel.trans {P} {a b c : St} (h1 : Rel P a b) (h2 : Rel P b c) : Rel P a c where
  streams := h2.streams.trans h1.streams
  nextId := h2.nextId.trans h1.nextId
  rx := h2.rx.trans h1.rx
  hdrWire := h2.hdrWire.trans h1.hdrWire
  hdrMu := h2.hdrMu.trans h1.hdrMu
  pendingReq := h2.pendingReq.trans h1.pendingReq
  forgetPanic := h2.forgetPanic.trans h1.forgetPanic
  rl := h2.rl.trans h1.rl
  id := fun k => (h2.id k).trans (h1.id k)
  phase := fun k => (h2.phase k).trans (h1.phase k)
  got := fun k => by
    obtain ⟨n1, e1, p1⟩ := h1.got k
    obtain ⟨n2, e2, p2⟩ := h2.got k
    refine ⟨n2 ++ n1, by rw [e2, e1, List.append_assoc], ?_⟩
    intro it hit
    rcases List.mem_append.mp hit with h | h
    · exact p2 it h
    · exact p1 it h

theorem upd_same {β} (f : Nat → β) (k : Nat) (v : β) : upd f k v k = v := by simp [upd]
theorem upd_other {β} (f : Nat → β) (k j : Nat) (v : β) (h : j ≠ k) : upd f k v j = f j := by
  simp [upd, h]

/-- Replacing caller `k`'s stream object by one with the same id and phase whose `got` extends
the old one by `P`-items. -/
theorem rel_setCS (P) (s : St) (k : Caller) (c : CS) (hid : c.id = (s.cs k).id)
    (hph : c.phase = (s.cs k).phase)
    (hgot : ∃ new, c.got = new ++ (s.cs k).got ∧ ∀ it ∈ new, P k it) : Rel P s (setCS s k c) where
  streams := rfl
  nextId := rfl
  rx := rfl
  hdrWire := rfl
  hdrMu := rfl
  pendingReq := rfl
  forgetPanic := rfl
  rl := rfl
  id := fun j => by
    by_cases h : j = k
    · subst h; simp [setCS, upd_same, hid]
    · simp [setCS, upd_other _ _ _ _ h]
  phase := fun j => by
    by_cases h : j = k
    · subst h; simp [setCS, upd_same, hph]
    · simp [setCS, upd_other _ _ _ _ h]
  got := fun j => by
    by_cases h : j = k
    · subst h; simpa [setCS, upd_same] using hgot
    · exact ⟨[], by simp [setCS, upd_other _ _ _ _ h], by intro it hh; cases hh⟩

/-- The same with `got` untouched. -/
theorem rel_setCS' (P) (s : St) (k : Caller) (c : CS) (hid : c.id = (s.cs k).id)
    (hph : c.phase = (s.cs k).phase) (hgot : c.got = (s.cs k).got) : Rel P s (setCS s k c) :=
  rel_setCS P s k c hid hph ⟨[], by simpa using hgot, by intro it h; cases h⟩

theorem rel_broadcast (P) (s : St) : Rel P s (broadcast s) :=
  ⟨rfl, rfl, rfl, rfl, rfl, rfl, rfl, rfl, fun _ => rfl, fun _ => rfl,
   fun _ => ⟨[], rfl, by intro it h; cases h⟩⟩

theorem Rel.thenBroadcast {P} {s t : St} (h : Rel P s t) : Rel P s (broadcast t) :=
  h.trans (rel_broadcast P t)

theorem rel_abortLocked (P) (s : St) (k : Caller) (e : Err) : Rel P s (abortLocked s k e) := by
  unfold abortLocked
  dsimp only
  apply Rel.thenBroadcast
  apply rel_setCS' <;> rfl

theorem Rel.thenAbort {P} {s t : St} (h : Rel P s t) (k : Caller) (e : Err) :
    Rel P s (abortLocked t k e) := h.trans (rel_abortLocked P t k e)

theorem rel_endStreamError (P) (s : St) (k : Caller) (e : Err) : Rel P s (endStreamError s k e) := by
  unfold endStreamError
  dsimp only
  apply Rel.thenAbort
  apply rel_setCS' <;> rfl

theorem rel_endStream (P) (s : St) (k : Caller) (sid seq tag : Nat)
    (hp : P k ⟨sid, seq, tag, .eof⟩) : Rel P s (endStream s k sid seq tag) := by
  unfold endStream
  dsimp only
  split
  · exact Rel.refl P s
  · refine rel_setCS P s k _ rfl rfl ⟨[⟨sid, seq, tag, .eof⟩], rfl, ?_⟩
    intro it hit
    simp at hit
    subst hit
    exact hp

theorem rel_foldl (P) {α} (f : St → α → St) (hf : ∀ s a, Rel P s (f s a)) (l : List α) (s : St) :
    Rel P s (l.foldl f s) := by
  induction l generalizing s with
  | nil => exact Rel.refl P s
  | cons a l ih => exact (hf s a).trans (ih (f s a))

theorem rel_readerCleanup (P) (s : St) (code : Option Nat) : Rel P s (readerCleanup s code) := by
  unfold readerCleanup
  have h1 : Rel P s { s with readerDead := true, closed := true, goAwaySent := code } :=
    ⟨rfl, rfl, rfl, rfl, rfl, rfl, rfl, rfl, fun _ => rfl, fun _ => rfl,
     fun _ => ⟨[], rfl, by intro it h; cases h⟩⟩
  refine h1.trans (Rel.trans (rel_foldl P _ ?_ _ _) (rel_broadcast P _))
  intro a p
  split
  · exact Rel.refl P a
  · exact rel_abortLocked P a p.2 .conn

theorem rel_setGoAway (P) (s : St) (last code : Nat) : Rel P s (setGoAway s last code) := by
  unfold setGoAway
  have h1 : ∀ g, Rel P s { s with goAway := g } := fun g =>
    ⟨rfl, rfl, rfl, rfl, rfl, rfl, rfl, rfl, fun _ => rfl, fun _ => rfl,
     fun _ => ⟨[], rfl, by intro it h; cases h⟩⟩
  refine (h1 _).trans (rel_foldl P _ ?_ _ _)
  intro a p
  split
  · exact Rel.refl P a
  · exact rel_abortLocked P a p.2 _

@[simp] theorem setCS_cs_same (s : St) (k : Caller) (c : CS) : (setCS s k c).cs k = c := by
  simp [setCS, upd_same]

theorem setCS_cs_other (s : St) (k j : Caller) (c : CS) (h : j ≠ k) : (setCS s k c).cs j = s.cs j := by
  simp [setCS, upd_other _ _ _ _ h]

theorem Rel.thenEndStreamError {P} {s t : St} (h : Rel P s t) (k : Caller) (e : Err) :
    Rel P s (endStreamError t k e) := h.trans (rel_endStreamError P t k e)

theorem Rel.thenEndStream {P} {s t : St} (h : Rel P s t) (k : Caller) (sid seq tag : Nat)
    (hp : P k ⟨sid, seq, tag, .eof⟩) : Rel P s (endStream t k sid seq tag) :=
  h.trans (rel_endStream P t k sid seq tag hp)

theorem Rel.thenReaderCleanup {P} {s t : St} (h : Rel P s t) (code : Option Nat) :
    Rel P s (readerCleanup t code) := h.trans (rel_readerCleanup P t code)

theorem Rel.thenSetCS {P} {s t : St} (h : Rel P s t) (k : Caller) (c : CS)
    (hid : c.id = (t.cs k).id) (hph : c.phase = (t.cs k).phase)
    (hgot : ∃ new, c.got = new ++ (t.cs k).got ∧ ∀ it ∈ new, P k it) : Rel P s (setCS t k c) :=
  h.trans (rel_setCS P t k c hid hph hgot)

/-- What a frame for stream `sid` read at position `seq` with payload `tag` may deliver, and to whom. -/
def PItem (k0 : Caller) (sid seq tag : Nat) : Caller → Item → Prop :=
  fun k it => k = k0 ∧ it.sid = sid ∧ it.seq = seq ∧ it.tag = tag

syntax "rel_chain" : tactic
macro_rules
  | `(tactic| rel_chain) => `(tactic|
      repeat (first
        | exact Rel.refl _ _
        | apply Rel.thenReaderCleanup
        | apply Rel.thenEndStreamError
        | apply Rel.thenEndStream
        | apply Rel.thenAbort
        | apply Rel.thenBroadcast
        | apply Rel.thenSetCS))

theorem got_none (P : Item → Prop) (l : List Item) : ∃ new, l = new ++ l ∧ ∀ it ∈ new, P it :=
  ⟨[], rfl, by intro it h; cases h⟩

theorem got_one (P : Item → Prop) (x : Item) (l : List Item) (h : P x) :
    ∃ new, x :: l = new ++ l ∧ ∀ it ∈ new, P it :=
  ⟨[x], rfl, by intro it hit; simp at hit; subst hit; exact h⟩

syntax "rel_side" : tactic
macro_rules
  | `(tactic| rel_side) => `(tactic|
      first
        | rfl
        | exact got_none _ _
        | (try simp only [logItem, closePipe, setCS_cs_same]
           first
             | rfl
             | exact got_none _ _
             | (apply got_one; simp [PItem])
             | simp [PItem]))

theorem rel_processHeaders (s : St) (k : Caller) (sid : Nat) (kind : HKind) (fin : Bool) (tag seq : Nat) :
    Rel (PItem k sid seq tag) s (processHeaders s k sid kind fin tag seq) := by
  unfold processHeaders
  dsimp only
  repeat' split
  all_goals rel_chain
  all_goals rel_side

theorem rel_processData (s : St) (k : Caller) (sid : Nat) (len : Nat) (fin : Bool) (tag seq : Nat) :
    Rel (PItem k sid seq tag) s (processData s k sid len fin tag seq) := by
  unfold processData
  dsimp only
  repeat' split
  all_goals rel_chain
  all_goals rel_side

theorem rel_with_doNotReuse (P) (s : St) (b : Bool) : Rel P s { s with doNotReuse := b } :=
  ⟨rfl, rfl, rfl, rfl, rfl, rfl, rfl, rfl, fun _ => rfl, fun _ => rfl,
   fun _ => ⟨[], rfl, by intro it h; cases h⟩⟩

theorem rel_processReset (s : St) (k : Caller) (sid code seq : Nat) :
    Rel (PItem k sid seq code) s (processReset s k sid code seq) := by
  unfold processReset
  dsimp only
  apply Rel.thenSetCS
  · apply Rel.thenAbort
    split
    · exact rel_with_doNotReuse _ s true
    · exact Rel.refl _ _
  · rfl
  · rfl
  · simp only [logItem, closePipe]
    apply got_one
    simp [PItem]

/-- What processing frame `f`, looked up as `tgt`, at position `seq` may deliver. -/
def PFrame (f : Frame) (tgt : Option Caller) (seq : Nat) : Caller → Item → Prop :=
  fun k it => tgt = some k ∧ f.sid? = some it.sid ∧ it.seq = seq ∧ it.tag = f.tag

theorem Rel.mono {P Q : Caller → Item → Prop} {s t : St} (h : Rel P s t)
    (hpq : ∀ k it, P k it → Q k it) : Rel Q s t :=
  ⟨h.streams, h.nextId, h.rx, h.hdrWire, h.hdrMu, h.pendingReq, h.forgetPanic, h.rl, h.id, h.phase,
   fun k => (h.got k).elim fun n hn => ⟨n, hn.1, fun it hit => hpq k it (hn.2 it hit)⟩⟩

theorem rel_with_settings (P) (s : St) (m : Nat) (b : Bool) :
    Rel P s { s with maxConc := m, seenSettings := b } :=
  ⟨rfl, rfl, rfl, rfl, rfl, rfl, rfl, rfl, fun _ => rfl, fun _ => rfl,
   fun _ => ⟨[], rfl, by intro it h; cases h⟩⟩

theorem rel_process (s : St) (f : Frame) (tgt : Option Caller) :
    Rel (PFrame f tgt (s.rx.length - 1)) s (process s f tgt) := by
  unfold process
  dsimp only
  split
  · exact Rel.refl _ _
  · next id kind fin tag k =>
    exact (rel_processHeaders s k id kind fin tag _).mono (by
      intro k' it ⟨h1, h2, h3, h4⟩; subst h1; exact ⟨rfl, by simp [Frame.sid?, h2], h3, by simp [Frame.tag, h4]⟩)
  · split
    · exact rel_readerCleanup _ _ _
    · exact Rel.refl _ _
  · next id len fin tag k =>
    exact (rel_processData s k id len fin tag _).mono (by
      intro k' it ⟨h1, h2, h3, h4⟩; subst h1; exact ⟨rfl, by simp [Frame.sid?, h2], h3, by simp [Frame.tag, h4]⟩)
  · exact Rel.refl _ _
  · next id code k =>
    exact (rel_processReset s k id code _).mono (by
      intro k' it ⟨h1, h2, h3, h4⟩; subst h1; exact ⟨rfl, by simp [Frame.sid?, h2], h3, by simp [Frame.tag, h4]⟩)
  · repeat' split
    · exact Rel.refl _ _
    · exact rel_readerCleanup _ _ _
    · exact rel_broadcast _ _
  · split
    · apply Rel.thenAbort
      apply rel_setCS' <;> rfl
    · exact rel_broadcast _ _
  · exact rel_readerCleanup _ _ _
  · exact rel_setGoAway _ _ _ _
  · repeat' split
    all_goals first
      | exact (rel_with_settings _ _ _ _).thenBroadcast
      | exact rel_with_settings _ _ _ _
      | exact (Rel.refl _ _).thenBroadcast
      | exact Rel.refl _ _
  · exact rel_readerCleanup _ _ _

end Req.Lemmas.C09H2Rel
