import Req.Client.Scope
/-!
Helper lemmas for C19 on the value model: every primitive changes at most one record (its
target) or appends one; records never change their parent; the count never shrinks.
-/
namespace Req.Scope

theorem updOwner_other (s : VState) (o b : Nat) (g : VOwner → VOwner) (h : o ≠ b) :
    (s.updOwner o g).owner b = s.owner b := by
  unfold VState.updOwner
  split
  · simp [Ne.symm h]
  · rfl

theorem updOwner_count (s : VState) (o : Nat) (g : VOwner → VOwner) : (s.updOwner o g).count = s.count := by
  unfold VState.updOwner
  split <;> rfl

theorem updOwner_self (s : VState) (o : Nat) (g : VOwner → VOwner) (h : o < s.count) :
    (s.updOwner o g).owner o = g (s.owner o) := by
  simp [VState.updOwner, h]

/-- the record a primitive may change (`none`: it only appends a record) -/
def primTarget (s : VState) : Prim → Option Nat
  | .newClient => none
  | .derive _ _ _ => none
  | .set o _ _ _ => some o
  | .add o _ _ _ => some o
  | .replace o _ _ => some o
  | .clear o _ => some o
  | .append o _ _ => some o
  | .copyFrom o _ _ => some o
  | .wrap o _ _ _ _ => some o
  | .jarStore r _ => if r < s.count then (s.owner r).parent else none

theorem stepV_count_le (s : VState) (p : Prim) : s.count ≤ (stepV s p).count := by
  cases p <;> simp only [stepV]
  case newClient => omega
  case derive src t req => split <;> simp
  case set o f k vs => split <;> simp [updOwner_count]
  case add o f k vs => split <;> simp [updOwner_count]
  case replace o f m => simp [updOwner_count]
  case clear o f => simp [updOwner_count]
  case append o f xs => split <;> simp [updOwner_count]
  case copyFrom o d sr => simp [updOwner_count]
  case wrap o sl ch xs b => split <;> simp [updOwner_count]
  case jarStore r v =>
    split
    · split <;> simp [updOwner_count]
    · simp

/-- frame: a record that is not the primitive's target is unchanged -/
theorem stepV_frame (s : VState) (p : Prim) (b : Nat) (hb : b < s.count) (ht : primTarget s p ≠ some b) :
    (stepV s p).owner b = s.owner b := by
  cases p <;> simp only [stepV, primTarget] at ht ⊢
  case newClient => simp [Nat.ne_of_lt hb]
  case derive src t req =>
    split
    · simp [Nat.ne_of_lt hb]
    · rfl
  case set o f k vs => split <;> first | rfl | exact updOwner_other _ _ _ _ (by simpa using ht)
  case add o f k vs => split <;> first | rfl | exact updOwner_other _ _ _ _ (by simpa using ht)
  case replace o f m => exact updOwner_other _ _ _ _ (by simpa using ht)
  case clear o f => exact updOwner_other _ _ _ _ (by simpa using ht)
  case append o f xs => split <;> first | rfl | exact updOwner_other _ _ _ _ (by simpa using ht)
  case copyFrom o d sr => exact updOwner_other _ _ _ _ (by simpa using ht)
  case wrap o sl ch xs bl => split <;> first | rfl | exact updOwner_other _ _ _ _ (by simpa using ht)
  case jarStore r v =>
    split
    · rename_i hr
      simp only [hr, if_true] at ht
      split
      · rename_i c hc
        exact updOwner_other _ _ _ _ (by rw [hc] at ht; simpa using ht)
      · rfl
    · rfl

theorem updOwner_parent (s : VState) (o : Nat) (g : VOwner → VOwner) (hg : ∀ w, (g w).parent = w.parent) (b : Nat) :
    ((s.updOwner o g).owner b).parent = (s.owner b).parent := by
  unfold VState.updOwner
  split
  · simp only
    by_cases hb : b = o
    · subst hb; simp [hg]
    · simp [hb]
  · rfl

/-- a primitive changes only the `val` of its target, never a parent -/
theorem stepV_parent (s : VState) (p : Prim) (b : Nat) (hb : b < s.count) :
    ((stepV s p).owner b).parent = (s.owner b).parent := by
  cases p <;> simp only [stepV]
  case newClient => simp [Nat.ne_of_lt hb]
  case derive src t req =>
    split
    · simp [Nat.ne_of_lt hb]
    · rfl
  case set o f k vs => split <;> first | rfl | exact updOwner_parent _ _ _ (by intro w; rfl) b
  case add o f k vs => split <;> first | rfl | exact updOwner_parent _ _ _ (by intro w; rfl) b
  case replace o f m => exact updOwner_parent _ _ _ (by intro w; rfl) b
  case clear o f => exact updOwner_parent _ _ _ (by intro w; rfl) b
  case append o f xs => split <;> first | rfl | exact updOwner_parent _ _ _ (by intro w; rfl) b
  case copyFrom o d sr => exact updOwner_parent _ _ _ (by intro w; rfl) b
  case wrap o sl ch xs bl =>
    split
    · exact updOwner_parent _ _ _ (by intro w; simp only [VOwner.setVal]; split <;> rfl) b
    · rfl
  case jarStore r v =>
    split
    · split
      · exact updOwner_parent _ _ _ (by intro w; rfl) b
      · rfl
    · rfl

/-- static target of a primitive that is not `jarStore` -/
def staticTarget : Prim → Option Nat
  | .jarStore _ _ => none
  | .newClient => none
  | .derive _ _ _ => none
  | .set o _ _ _ => some o
  | .add o _ _ _ => some o
  | .replace o _ _ => some o
  | .clear o _ => some o
  | .append o _ _ => some o
  | .copyFrom o _ _ => some o
  | .wrap o _ _ _ _ => some o

def isJarStore : Prim → Bool
  | .jarStore _ _ => true
  | _ => false

theorem primTarget_static (s : VState) (p : Prim) (h : isJarStore p = false) : primTarget s p = staticTarget p := by
  cases p <;> simp [isJarStore] at h <;> rfl

theorem runV_count_le : ∀ (ps : List Prim) (s : VState), s.count ≤ (runV s ps).count := by
  intro ps
  induction ps with
  | nil => intro s; exact Nat.le_refl _
  | cons p ps ih =>
    intro s
    simp only [runV, List.foldl_cons]
    exact Nat.le_trans (stepV_count_le s p) (ih (stepV s p))

/-- frame for a list of primitives none of which is aimed at `b` -/
theorem runV_frame (b : Nat) : ∀ (ps : List Prim) (s : VState), b < s.count →
    (∀ p ∈ ps, isJarStore p = false ∧ staticTarget p ≠ some b) → (runV s ps).owner b = s.owner b := by
  intro ps
  induction ps with
  | nil => intro s _ _; rfl
  | cons p ps ih =>
    intro s hb hps
    simp only [runV, List.foldl_cons]
    have hp := hps p (by simp)
    have h1 : (stepV s p).owner b = s.owner b :=
      stepV_frame s p b hb (by rw [primTarget_static s p hp.1]; exact hp.2)
    have h2 := ih (stepV s p) (Nat.lt_of_lt_of_le hb (stepV_count_le s p)) (fun q hq => hps q (by simp [hq]))
    simp only [runV] at h2
    rw [h2, h1]

theorem runV_parent (b : Nat) : ∀ (ps : List Prim) (s : VState), b < s.count →
    ((runV s ps).owner b).parent = (s.owner b).parent := by
  intro ps
  induction ps with
  | nil => intro s _; rfl
  | cons p ps ih =>
    intro s hb
    simp only [runV, List.foldl_cons]
    have h2 := ih (stepV s p) (Nat.lt_of_lt_of_le hb (stepV_count_le s p))
    simp only [runV] at h2
    rw [h2, stepV_parent s p b hb]

/-- every primitive of a setter is aimed at the setter's record -/
theorem setter_targets (o : Nat) (st : Setter) :
    (st.prims o).all (fun p => !isJarStore p && staticTarget p == some o) = true := by
  cases st <;> simp [Setter.prims, isJarStore, staticTarget]
  all_goals (repeat' split) <;> simp [isJarStore, staticTarget]

end Req.Scope

namespace Req.Scope

/-! ### Multimap reads after writes; the header merge -/

theorem get_cons (e : Nat × List Nat) (m : AMap) (k : Nat) :
    AMap.get (e :: m) k = if e.1 = k then e.2 else AMap.get m k := by
  unfold AMap.get
  by_cases h : e.1 = k
  · simp [List.find?, h]
  · have : (e.1 == k) = false := by simpa using h
    simp [List.find?, this, h]

theorem get_nil (k : Nat) : AMap.get [] k = [] := rfl

theorem has_cons (e : Nat × List Nat) (m : AMap) (k : Nat) :
    AMap.has (e :: m) k = (e.1 == k || AMap.has m k) := by
  simp [AMap.has]

theorem get_append_single (m : AMap) (k k' : Nat) (vs : List Nat) :
    AMap.get (m ++ [(k, vs)]) k' = if AMap.has m k' then AMap.get m k' else if k = k' then vs else [] := by
  induction m with
  | nil => simp [get_cons, get_nil, AMap.has]
  | cons e m ih =>
    rw [List.cons_append, get_cons, get_cons, has_cons, ih]
    by_cases h : e.1 = k'
    · simp [h]
    · have : (e.1 == k') = false := by simpa using h
      simp [h, this]

theorem get_map_set (m : AMap) (k k' : Nat) (vs : List Nat) :
    AMap.get (m.map (fun e => if e.1 == k then (k, vs) else e)) k' =
      if k' = k then (if AMap.has m k then vs else []) else AMap.get m k' := by
  induction m with
  | nil => simp [get_nil, AMap.has]
  | cons e m ih =>
    rw [List.map_cons, get_cons, ih, get_cons, has_cons]
    by_cases hek : e.1 = k
    · have hb : (e.1 == k) = true := by simpa using hek
      simp only [hb, if_true]
      by_cases hk' : k' = k
      · simp [hk']
      · have : ¬ k = k' := fun h => hk' h.symm
        have hek' : ¬ e.1 = k' := by rw [hek]; exact this
        simp [hk', this, hek']
    · have hb : (e.1 == k) = false := by simpa using hek
      simp only [hb, Bool.false_eq_true, if_false, Bool.false_or]
      by_cases hk' : k' = k
      · subst hk'
        simp [hek]
      · simp [hk']

theorem get_set_same (m : AMap) (k : Nat) (vs : List Nat) : (m.set k vs).get k = vs := by
  unfold AMap.set
  by_cases h : AMap.has m k
  · simp only [h, if_true]
    rw [get_map_set]; simp [h]
  · simp only [h, Bool.false_eq_true, if_false]
    rw [get_append_single]; simp [h]

theorem get_set_other (m : AMap) (k k' : Nat) (vs : List Nat) (hne : k' ≠ k) : (m.set k vs).get k' = m.get k' := by
  unfold AMap.set
  by_cases h : AMap.has m k
  · simp only [h, if_true]
    rw [get_map_set]; simp [hne]
  · simp only [h, Bool.false_eq_true, if_false]
    rw [get_append_single]
    by_cases h' : AMap.has m k'
    · simp [h']
    · have hk : ¬ k = k' := fun e => hne e.symm
      simp only [h', Bool.false_eq_true, if_false, hk]
      -- an absent key reads as no values
      have : ∀ (m : AMap), AMap.has m k' = false → AMap.get m k' = [] := by
        intro m
        induction m with
        | nil => intro _; rfl
        | cons e m ih =>
          intro hh
          rw [has_cons] at hh
          rw [get_cons]
          have h1 : ¬ e.1 = k' := by
            intro he; simp [he] at hh
          simp only [h1, if_false]
          exact ih (by simpa [h1] using hh)
      exact (this m (by simpa using h')).symm

/-- fold of the header merge keeps a key the request already has values for -/
theorem mergeHeaders_keeps (k : Nat) : ∀ (c r : AMap), (r.get k).isEmpty = false →
    (mergeHeaders c r).get k = r.get k := by
  intro c
  induction c with
  | nil => intro r _; rfl
  | cons e c ih =>
    intro r hr
    simp only [mergeHeaders, List.foldl_cons]
    have step : ((if (r.get e.1).isEmpty then r.set e.1 e.2 else r).get k) = r.get k := by
      by_cases hek : e.1 = k
      · subst hek; simp [hr]
      · split
        · exact get_set_other r e.1 k e.2 (fun h => hek h.symm)
        · rfl
    have := ih (if (r.get e.1).isEmpty then r.set e.1 e.2 else r) (by rw [step]; exact hr)
    simp only [mergeHeaders] at this
    rw [this, step]

/-- a client header the request has no values for is sent with the client's values -/
theorem mergeHeaders_client (k : Nat) : ∀ (c r : AMap), (r.get k).isEmpty = true → (c.get k).isEmpty = false →
    (mergeHeaders c r).get k = c.get k := by
  intro c
  induction c with
  | nil => intro r _ hc; simp [get_nil] at hc
  | cons e c ih =>
    intro r hr hc
    simp only [mergeHeaders, List.foldl_cons]
    rw [get_cons] at hc ⊢
    by_cases hek : e.1 = k
    · simp only [hek, if_true] at hc ⊢
      have hacc : (if (r.get k).isEmpty then r.set k e.2 else r) = r.set k e.2 := by
        rw [hr]; simp
      rw [hacc]
      have := mergeHeaders_keeps k c (r.set k e.2) (by rw [get_set_same]; exact hc)
      simp only [mergeHeaders] at this
      rw [this, get_set_same]
    · simp only [hek, if_false] at hc ⊢
      have hacc : ((if (r.get e.1).isEmpty then r.set e.1 e.2 else r).get k).isEmpty = true := by
        split
        · rw [get_set_other r e.1 k e.2 (fun h => hek h.symm)]; exact hr
        · exact hr
      have := ih _ hacc hc
      simp only [mergeHeaders] at this
      exact this

/-! ### What `Clone` builds -/

theorem copyFrom_val (s : VState) (o : Nat) (ho : o < s.count) (dst src f : Field) :
    ((stepV s (.copyFrom o dst src)).owner o).val f =
      if f = dst then norm (kind dst) ((s.owner o).val src) else (s.owner o).val f := by
  simp only [stepV]
  rw [updOwner_self _ _ _ ho]
  rfl

theorem copyFrom_count (s : VState) (o : Nat) (dst src : Field) : (stepV s (.copyFrom o dst src)).count = s.count := by
  simp only [stepV]; exact updOwner_count _ _ _

theorem copyFrom_parent (s : VState) (o : Nat) (ho : o < s.count) (dst src : Field) :
    ((stepV s (.copyFrom o dst src)).owner o).parent = (s.owner o).parent := by
  simp only [stepV]
  rw [updOwner_self _ _ _ ho]
  rfl

theorem derive_new (s : VState) (i : Nat) (hi : i < s.count) (t : Table) (req : Bool) :
    (stepV s (.derive i t req)).count = s.count + 1 ∧
    (stepV s (.derive i t req)).owner s.count = ⟨if req then some i else none, deriveVal t (s.owner i)⟩ := by
  simp [stepV, hi]

end Req.Scope
