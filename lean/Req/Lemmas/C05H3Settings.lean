import Req.H3.SettingsWrite
import Req.Lemmas.C05H3
import Req.Lemmas.C05H3Stream
/-! Proofs for the round-6 theorems about `settingsFrame.Append` written statement by statement
(`Req.H3.SettingsWrite`): the declared length is the payload length, for every `Other` (colliding
with the dedicated identifiers or not) and every pair of iteration orders. -/
set_option linter.unusedSimpArgs false
set_option linter.unusedVariables false
namespace Req.Lemmas.C05.H3Settings
open Req.H3.Varint Req.H3.Frame Req.H3.Stream Req.H3.SettingsWrite Req.Proto
open Req.Lemmas.C05.Varint Req.Lemmas.C05.H3 Req.Lemmas.C05.H3Stream

/-- `Len(i)` is the length of what `Append(i)` writes, and both panic together. -/
theorem len_eq_append (i : Nat) : len i = (append i).map List.length := by
  simp only [len, append]
  split; · rfl
  split; · rfl
  split; · rfl
  split; · rfl
  rfl

/-- the sum of `Len(id) + Len(val)` over a list of pairs; `none` = a `Len` panics. -/
def plen : List (Nat × Nat) → Option Nat
  | [] => some 0
  | (id, v) :: ps =>
    match len id, len v, plen ps with
    | some a, some b, some c => some (a + b + c)
    | _, _, _ => none

theorem otherLen_none (ps : List (Nat × Nat)) : otherLen ps none = none := by
  induction ps with
  | nil => rfl
  | cons p ps ih => obtain ⟨id, v⟩ := p; simp [otherLen, addPairLen, ih]

theorem otherLen_eq (ps : List (Nat × Nat)) (l : Nat) :
    otherLen ps (some l) = (plen ps).map (l + ·) := by
  induction ps generalizing l with
  | nil => simp [otherLen, plen]
  | cons p ps ih =>
    obtain ⟨id, v⟩ := p
    simp only [otherLen, addPairLen, plen]
    cases len id with
    | none => simp [otherLen_none]
    | some a =>
      cases len v with
      | none => simp [otherLen_none]
      | some b =>
        simp only [ih]
        cases plen ps with
        | none => simp
        | some c => simp; omega

theorem plen_perm {ps qs : List (Nat × Nat)} (h : ps.Perm qs) : plen ps = plen qs := by
  induction h with
  | nil => rfl
  | cons x _ ih => obtain ⟨id, v⟩ := x; simp only [plen, ih]
  | swap x y l =>
    obtain ⟨i1, v1⟩ := x
    obtain ⟨i2, v2⟩ := y
    simp only [plen]
    cases len i1 <;> cases len v1 <;> cases len i2 <;> cases len v2 <;> cases plen l <;> simp
    omega
  | trans _ _ ih1 ih2 => exact ih1.trans ih2

theorem plen_eq_appendPairs (ps : List (Nat × Nat)) :
    plen ps = (appendPairs ps).map List.length := by
  induction ps with
  | nil => simp [plen, appendPairs]
  | cons p ps ih =>
    obtain ⟨id, v⟩ := p
    simp only [plen, appendPairs, appendPair, ih, len_eq_append]
    cases append id <;> cases append v <;> cases appendPairs ps <;> simp
    omega

theorem len51 : len settingDatagram = some 1 := by decide
theorem len8 : len settingExtendedConnect = some 1 := by decide
theorem len1 : len 1 = some 1 := by decide

/-- the value of `l` in `Append` = the sum over the pairs the frame carries. -/
theorem declaredLen_eq_plen (ord1 : List (Nat × Nat)) (s : Settings) (hp : ord1.Perm s.other) :
    declaredLen ord1 s = plen (writtenPairs s) := by
  obtain ⟨dg, ec, other⟩ := s
  simp only at hp
  unfold declaredLen writtenPairs
  simp only [otherLen_eq, plen_perm hp]
  cases dg <;> cases ec <;>
    simp only [Bool.false_eq_true, if_false, if_true, List.nil_append, List.cons_append, plen,
      addPairLen, len51, len8, len1] <;>
    cases plen other <;> simp <;> omega

/-- **declared length = payload length**, with the panics of `Len` and `Append` coinciding. -/
theorem declaredLen_eq (ord1 : List (Nat × Nat)) (s : Settings) (hp : ord1.Perm s.other) :
    declaredLen ord1 s = (settingsPayload s).map List.length := by
  rw [declaredLen_eq_plen ord1 s hp, plen_eq_appendPairs]
  rfl

theorem writePairs_none (ps : List (Nat × Nat)) : writePairs ps none = none := by
  induction ps with
  | nil => rfl
  | cons p ps ih => obtain ⟨id, v⟩ := p; simp [writePairs, putVarint, ih]

theorem writePairs_eq (ps : List (Nat × Nat)) (b : Bytes) :
    writePairs ps (some b) = (appendPairs ps).map (b ++ ·) := by
  induction ps generalizing b with
  | nil => simp [writePairs, appendPairs]
  | cons p ps ih =>
    obtain ⟨id, v⟩ := p
    simp only [writePairs, putVarint, appendPairs, appendPair]
    cases append id with
    | none => simp [writePairs_none]
    | some x =>
      cases append v with
      | none => simp [writePairs_none]
      | some y =>
        simp only [ih]
        cases appendPairs ps <;> simp

theorem append51 : append settingDatagram = some [51] := by decide
theorem append8 : append settingExtendedConnect = some [8] := by decide
theorem append1 : append 1 = some [1] := by decide
theorem append4 : append 4 = some [4] := by decide

/-- the statement-by-statement `Append` is the "length from the payload" writer of `H3/Frame.lean`:
for every `Other` and every pair of iteration orders. -/
theorem appendGo_eq (ord1 : List (Nat × Nat)) (s : Settings) (hp : ord1.Perm s.other) :
    appendGo ord1 s = appendSettings s := by
  unfold appendGo appendSettings
  rw [declaredLen_eq ord1 s hp]
  cases hpl : settingsPayload s with
  | none => rfl
  | some p =>
    simp only [Option.map_some, appendPair, putVarint, append4]
    cases hl : append p.length with
    | none =>
      obtain ⟨dg, ec, other⟩ := s
      cases dg <;> cases ec <;> simp [writePairs_none]
    | some y =>
      obtain ⟨dg, ec, other⟩ := s
      unfold settingsPayload at hpl
      cases dg <;> cases ec <;>
        simp only [Bool.false_eq_true, if_false, if_true, List.nil_append, List.cons_append,
          appendPairs, appendPair, append51, append8, append1, putVarint, writePairs_eq] at hpl ⊢ <;>
        cases ho : appendPairs other <;> simp [ho] at hpl ⊢ <;> simp [← hpl]

/-- what the peer's reader sees at the head of the written frame: type 4, then a length that is
exactly the number of bytes written behind it. -/
theorem appendGo_frame (ord1 : List (Nat × Nat)) (s : Settings) (hp : ord1.Perm s.other)
    (out : Bytes) (h : appendGo ord1 s = some out) :
    ∃ x y p, append 4 = some x ∧ append p.length = some y ∧ settingsPayload s = some p ∧
      out = x ++ (y ++ p) := by
  rw [appendGo_eq ord1 s hp] at h
  unfold appendSettings at h
  split at h; · cases h
  next p hpl =>
  split at h; · cases h
  next hd hhd =>
  cases h
  obtain ⟨x, y, hx, hy, rfl⟩ := appendPair_some _ _ _ hhd
  exact ⟨x, y, p, hx, hy, hpl, by simp⟩

theorem foldSteps_eq_foldT (ps : List (Nat × Nat)) (a : SettingsAcc) :
    foldSteps a ps = foldT a ps false := by
  induction ps generalizing a with
  | nil => simp [foldSteps, foldT]
  | cons p ps ih =>
    obtain ⟨id, v⟩ := p
    simp only [foldSteps, foldT]
    cases settingsStep a id v with
    | error e => rfl
    | ok a' => exact ih a'

/-- what `parseSettingsFrame` makes of ANY list of written pairs: accepted ⇔ `SettingsOK`. -/
theorem parse_written_iff (ps : List (Nat × Nat)) (bs : Bytes) (h : appendPairs ps = some bs)
    (s' : Settings) :
    parseSettingsPayload bs = .ok s' ↔ (SettingsOK ps ∧ s' = settingsOf ps) := by
  rw [parseSettingsPayload_eq_fold ps bs h, foldSteps_eq_foldT, foldT_ok_iff, stepsOK_iff]
  unfold SettingsOK settingsOf valOK
  constructor
  · rintro ⟨_, ⟨h2, _, h4⟩, h5⟩; exact ⟨⟨h2, h4⟩, h5⟩
  · rintro ⟨⟨h2, h4⟩, h5⟩; exact ⟨rfl, ⟨h2, fun id _ => not_seen_init id, h4⟩, h5⟩

/-- a collision of `Other` with a set dedicated flag repeats an identifier on the wire. -/
theorem collides_not_nodup (s : Settings) (h : Collides s) :
    ¬ ((writtenPairs s).map (·.1)).Nodup := by
  obtain ⟨dg, ec, other⟩ := s
  unfold Collides at h
  unfold writtenPairs
  simp only at h ⊢
  rcases h with ⟨hd, hm⟩ | ⟨he, hm⟩
  · subst hd
    cases ec <;>
      simp only [if_true, Bool.false_eq_true, if_false, List.nil_append, List.cons_append,
        List.append_nil, List.map_cons, List.nodup_cons, List.mem_cons] <;>
      intro hn
    · exact hn.1 hm
    · exact hn.1 (.inr hm)
  · subst he
    cases dg <;>
      simp only [if_true, Bool.false_eq_true, if_false, List.nil_append, List.cons_append,
        List.append_nil, List.map_cons, List.nodup_cons, List.mem_cons] <;>
      intro hn
    · exact hn.1 hm
    · exact hn.2.1 hm

/-- the verdict of `ParseNext` on a SETTINGS frame whose payload is complete: the payload's. -/
def frameVerdict (p rest : Bytes) : Except Err Frame × Bytes :=
  match parseSettingsPayload p with
  | .error e => (.error e, rest)
  | .ok s' => (.ok (.settings s'), rest)

/-- wire level, for EVERY settings value (colliding or not): `ParseNext` reads the type, reads a
length that is exactly the payload written, judges exactly that payload and leaves exactly what
follows the frame — accepted or refused, the control stream stays aligned. -/
theorem appendGo_parseNext (ord1 : List (Nat × Nat)) (s : Settings) (hp : ord1.Perm s.other)
    (out rest : Bytes) (fuel : Nat) (h : appendGo ord1 s = some out) (hsz : out.length ≤ 8192) :
    ∃ p, settingsPayload s = some p ∧
      parseNext (fuel + 1) (out ++ rest) = truncated (frameVerdict p rest) := by
  obtain ⟨x, y, p, hx, hy, hpl, rfl⟩ := appendGo_frame ord1 s hp out h
  refine ⟨p, hpl, ?_⟩
  have hlen : p.length ≤ 8192 := by simp only [List.length_append] at hsz; omega
  simp only [parseNext]
  rw [List.append_assoc, read_append 4 x _ hx]
  simp only
  rw [List.append_assoc, read_append p.length y _ hy]
  simp only [show (4 : Nat) ≠ 0 by decide, show (4 : Nat) ≠ 1 by decide, ↓reduceIte]
  unfold parseSettingsFrame frameVerdict
  rw [if_neg (by omega), if_neg (by simp)]
  simp only [List.take_left', List.drop_left']
  cases parseSettingsPayload p <;> rfl

theorem foldl_applyPair_other (ps : List (Nat × Nat)) (s0 : Settings) :
    (ps.foldl applyPair s0).other =
      s0.other ++ ps.filter (fun p => p.1 != settingExtendedConnect && p.1 != settingDatagram) := by
  induction ps generalizing s0 with
  | nil => simp
  | cons p ps ih =>
    simp only [List.foldl_cons, ih, List.filter_cons]
    unfold applyPair
    by_cases h1 : p.1 = settingExtendedConnect
    · simp [h1]
    · by_cases h2 : p.1 = settingDatagram
      · simp [h1, h2, show settingDatagram ≠ settingExtendedConnect by decide]
      · simp [h1, h2]

/-- if the written frame parses back to the SAME settings, `Other` was a map disjoint from the two
dedicated identifiers. -/
theorem roundtrip_wf (s : Settings) (p : Bytes) (hp : settingsPayload s = some p)
    (h : parseSettingsPayload p = .ok s) : WfSettings s := by
  have hw := (parse_written_iff (writtenPairs s) p hp s).mp h
  obtain ⟨⟨hnd, _⟩, hs⟩ := hw
  have ho : s.other = (writtenPairs s).filter
      (fun p => p.1 != settingExtendedConnect && p.1 != settingDatagram) := by
    have := congrArg Settings.other hs
    unfold settingsOf at this
    rw [foldl_applyPair_other] at this
    simpa using this
  obtain ⟨dg, ec, other⟩ := s
  unfold writtenPairs at ho hnd
  simp only at ho hnd
  have hf : other = other.filter
      (fun p => p.1 != settingExtendedConnect && p.1 != settingDatagram) := by
    cases dg <;> cases ec <;> simpa [List.filter_cons] using ho
  have hnd' : (other.map (·.1)).Nodup := by
    rw [List.map_append, List.nodup_append] at hnd
    exact hnd.2.1
  refine ⟨hnd', ?_⟩
  intro q hq
  have := List.filter_eq_self.mp hf.symm q hq
  simp only [Bool.and_eq_true, bne_iff_ne, ne_eq] at this
  exact this

end Req.Lemmas.C05.H3Settings
