import Req.Lemmas.C02Bufio
/-! `ReadSlice('\n')`, `io.ReadFull(…, 2)`, `Peek` on a `Bufio` whose unread wire is known. -/
namespace Req.C02
open Req.Proto

theorem indexOf_not_mem (c : UInt8) (l : Bytes) (h : c ∉ l) : indexOf c l = none := by
  induction l with
  | nil => rfl
  | cons x xs ih =>
    simp only [List.mem_cons, not_or] at h
    have hx : (x == c) = false := by
      simp only [beq_eq_false_iff_ne, ne_eq]
      exact fun h' => h.1 h'.symm
    simp [indexOf, hx, ih h.2]

theorem indexOf_append (c : UInt8) (l X : Bytes) (h : c ∉ l) : indexOf c (l ++ c :: X) = some l.length := by
  induction l with
  | nil => simp [indexOf]
  | cons x xs ih =>
    simp only [List.mem_cons, not_or] at h
    have hx : (x == c) = false := by
      simp only [beq_eq_false_iff_ne, ne_eq]
      exact fun h' => h.1 h'.symm
    simp [indexOf, hx, ih h.2]

/-- `ReadSlice('\n')` returns exactly the next line, however the connection segments it,
provided the line fits the buffer. -/
theorem Bufio.readSlice_line (fuel : Nat) (b : Bufio) (l R : Bytes) (hw : b.WF) (hf : b.Fits)
    (hrem : b.rem = l ++ 10 :: R) (hno : (10 : UInt8) ∉ l) (hfit : l.length + 1 ≤ b.cap)
    (hfuel : l.length + 2 ≤ fuel + b.buf.length) (hfuel0 : 0 < fuel) :
    ∃ b', b.readSlice fuel 10 = ((l ++ [10], none), b') ∧ b'.rem = R ∧ b'.WF ∧ b'.Fits ∧
      b'.cap = b.cap ∧ b'.net.fin = b.net.fin := by
  induction fuel generalizing b with
  | zero => omega
  | succ fuel ih =>
    unfold Bufio.readSlice
    have hsplit : b.buf ++ b.net.segs.flatten = l ++ 10 :: R := hrem
    rcases List.append_eq_append_iff.mp hsplit with ⟨a', hl, hfl⟩ | ⟨c', hb, hR⟩
    · -- the buffer holds a prefix of the line: no newline yet
      have hnobuf : (10 : UInt8) ∉ b.buf := by
        intro h; apply hno; rw [hl]; exact List.mem_append_left _ h
      rw [indexOf_not_mem _ _ hnobuf]
      have hmore : b.net.segs.flatten ≠ [] := by rw [hfl]; simp
      have herr : b.err = none := by
        cases he : b.err with
        | none => rfl
        | some e => exact absurd (hw e he).1 hmore
      have hbl : b.buf.length ≤ l.length := by rw [hl]; simp
      have hnfull : ¬ b.buf.length ≥ b.cap := by omega
      simp only [herr, hnfull, if_false]
      obtain ⟨d, hd, hbuf', hrem', hw', hf', hcap', _, hfin'⟩ := Bufio.fill_spec b hw hf (by omega) hmore herr
      have hdl : 0 < d.length := List.length_pos_iff.mpr hd
      have hfuel' : l.length + 2 ≤ fuel + b.fill.buf.length := by
        rw [hbuf', List.length_append]; omega
      have hfuel0' : 0 < fuel := by omega
      obtain ⟨b', h1, h2, h3, h4, h5, h6⟩ := ih b.fill hw' hf' (by rw [hrem', hrem]) (by rw [hcap']; exact hfit) hfuel' hfuel0'
      exact ⟨b', h1, h2, h3, h4, by rw [h5, hcap'], by rw [h6, hfin']⟩
    · cases c' with
      | nil =>
        -- the buffer holds exactly the line without its newline
        simp only [List.append_nil] at hb
        simp only [List.nil_append] at hR
        have hnobuf : (10 : UInt8) ∉ b.buf := by rw [hb]; exact hno
        rw [indexOf_not_mem _ _ hnobuf]
        have hmore : b.net.segs.flatten ≠ [] := by rw [← hR]; simp
        have herr : b.err = none := by
          cases he : b.err with
          | none => rfl
          | some e => exact absurd (hw e he).1 hmore
        have hbl : b.buf.length = l.length := by rw [hb]
        have hnfull : ¬ b.buf.length ≥ b.cap := by omega
        simp only [herr, hnfull, if_false]
        obtain ⟨d, hd, hbuf', hrem', hw', hf', hcap', _, hfin'⟩ := Bufio.fill_spec b hw hf (by omega) hmore herr
        have hdl : 0 < d.length := List.length_pos_iff.mpr hd
        have hfuel' : l.length + 2 ≤ fuel + b.fill.buf.length := by
          rw [hbuf', List.length_append]; omega
        have hfuel0' : 0 < fuel := by omega
        obtain ⟨b', h1, h2, h3, h4, h5, h6⟩ := ih b.fill hw' hf' (by rw [hrem', hrem]) (by rw [hcap']; exact hfit) hfuel' hfuel0'
        exact ⟨b', h1, h2, h3, h4, by rw [h5, hcap'], by rw [h6, hfin']⟩
      | cons x X =>
        simp only [List.cons_append, List.cons.injEq] at hR
        obtain ⟨rfl, hR⟩ := hR
        have htake : (l ++ 10 :: X).take (l.length + 1) = l ++ [10] := by
          rw [List.take_append]
          simp [List.take_of_length_le]
        have hdrop : (l ++ 10 :: X).drop (l.length + 1) = X := by
          rw [List.drop_append]
          simp
        refine ⟨{ b with buf := X }, ?_, ?_, ?_, ?_, rfl, rfl⟩
        · rw [hb, indexOf_append _ _ _ hno]
          simp only [htake, hdrop]
        · simp [Bufio.rem, hR]
        · intro e he; exact hw e he
        · unfold Bufio.Fits at hf ⊢
          rw [hb] at hf
          simp only [List.length_append, List.length_cons] at hf
          simp only
          omega

/-- `io.ReadFull(br, buf[:2])` returns exactly the next two bytes, however they are segmented. -/
theorem Bufio.readFull_two (b : Bufio) (x y : UInt8) (R : Bytes) (hw : b.WF) (hf : b.Fits)
    (hrem : b.rem = x :: y :: R) :
    ∃ b', b.readFull 3 2 [] = (([x, y], none), b') ∧ b'.rem = R ∧ b'.WF ∧ b'.Fits ∧
      b'.cap = b.cap ∧ b'.net.fin = b.net.fin := by
  have hne : b.rem ≠ [] := by rw [hrem]; simp
  rcases hr : b.read 2 with ⟨⟨d, e⟩, b1⟩
  obtain ⟨hw1, hcap1, hfin1, hsplit, hlen, hcase, _⟩ := Bufio.read_spec b 2 (by omega) hw d e b1 hr
  have hf1 := Bufio.read_fits b 2 hf d e b1 hr
  obtain ⟨rfl, hd⟩ := hcase hne
  rw [hrem] at hsplit
  have hdl : 0 < d.length := List.length_pos_iff.mpr hd
  unfold Bufio.readFull
  simp only [List.length_nil, ge_iff_le, Nat.not_succ_le_zero, if_false, Nat.sub_zero, hr, List.nil_append]
  match d, hsplit, hlen, hdl with
  | [a], hsplit, _, _ =>
    simp only [List.cons_append, List.nil_append, List.cons.injEq] at hsplit
    obtain ⟨rfl, hrem1⟩ := hsplit
    have hne1 : b1.rem ≠ [] := by rw [← hrem1]; simp
    rcases hr1 : b1.read 1 with ⟨⟨d1, e1⟩, b2⟩
    obtain ⟨hw2, hcap2, hfin2, hsplit1, hlen1, hcase1, _⟩ := Bufio.read_spec b1 1 (by omega) hw1 d1 e1 b2 hr1
    have hf2 := Bufio.read_fits b1 1 hf1 d1 e1 b2 hr1
    obtain ⟨rfl, hd1⟩ := hcase1 hne1
    rw [← hrem1] at hsplit1
    have hd1l : 0 < d1.length := List.length_pos_iff.mpr hd1
    match d1, hsplit1, hlen1, hd1l with
    | [a1], hsplit1, _, _ =>
      simp only [List.cons_append, List.nil_append, List.cons.injEq] at hsplit1
      obtain ⟨rfl, hrem2⟩ := hsplit1
      unfold Bufio.readFull
      simp only [List.length_cons, List.length_nil, ge_iff_le, Nat.reduceLeDiff, if_false, Nat.reduceSub, hr1]
      unfold Bufio.readFull
      simp only [List.cons_append, List.nil_append, List.length_cons, List.length_nil, ge_iff_le,
        Nat.le_refl, if_true]
      exact ⟨b2, rfl, hrem2.symm, hw2, hf2, by rw [hcap2, hcap1], by rw [hfin2, hfin1]⟩
  | [a, a'], hsplit, _, _ =>
    simp only [List.cons_append, List.nil_append, List.cons.injEq] at hsplit
    obtain ⟨rfl, rfl, hrem1⟩ := hsplit
    unfold Bufio.readFull
    simp only [List.length_cons, List.length_nil, ge_iff_le, Nat.le_refl, if_true]
    exact ⟨b1, rfl, hrem1.symm, hw1, hf1, hcap1, hfin1⟩
  | a :: a' :: a'' :: _, _, hlen, _ => simp at hlen

/-- The fill loop of `Peek(n)`: afterwards at least `n` bytes are buffered (when the wire has
that many and they fit), nothing is lost. -/
theorem Bufio.fillUntil_spec (fuel n : Nat) (b : Bufio) (hw : b.WF) (hf : b.Fits)
    (hn : n ≤ b.rem.length) (hcap : n ≤ b.cap) (hfuel : n ≤ fuel + b.buf.length) :
    (Bufio.fillUntil fuel n b).rem = b.rem ∧ (Bufio.fillUntil fuel n b).WF ∧ (Bufio.fillUntil fuel n b).Fits ∧
    (Bufio.fillUntil fuel n b).cap = b.cap ∧ (Bufio.fillUntil fuel n b).net.fin = b.net.fin ∧
    n ≤ (Bufio.fillUntil fuel n b).buf.length := by
  induction fuel generalizing b with
  | zero =>
    unfold Bufio.fillUntil
    exact ⟨rfl, hw, hf, rfl, rfl, by omega⟩
  | succ fuel ih =>
    unfold Bufio.fillUntil
    split
    next hcond =>
      obtain ⟨h1, h2, h3⟩ := hcond
      have herr : b.err = none := by
        cases he : b.err with
        | none => rfl
        | some e => simp [he] at h3
      have hmore : b.net.segs.flatten ≠ [] := by
        intro h0
        simp only [Bufio.rem, h0, List.append_nil] at hn
        omega
      obtain ⟨d, hd, hbuf', hrem', hw', hf', hcap', _, hfin'⟩ := Bufio.fill_spec b hw hf h2 hmore herr
      have hdl : 0 < d.length := List.length_pos_iff.mpr hd
      obtain ⟨i1, i2, i3, i4, i5, i6⟩ := ih b.fill hw' hf' (by rw [hrem']; exact hn) (by rw [hcap']; exact hcap)
        (by rw [hbuf', List.length_append]; omega)
      exact ⟨by rw [i1, hrem'], i2, i3, by rw [i4, hcap'], by rw [i5, hfin'], i6⟩
    next hcond =>
      refine ⟨rfl, hw, hf, rfl, rfl, ?_⟩
      -- the loop stopped: enough buffered (the other two exits are impossible here)
      by_cases h1 : b.buf.length < n
      · exfalso
        apply hcond
        refine ⟨h1, ?_, ?_⟩
        · unfold Bufio.Fits at hf; omega
        · cases he : b.err with
          | none => rfl
          | some e =>
            have := (hw e he).1
            simp only [Bufio.rem, this, List.append_nil] at hn
            omega
      · omega

/-- `Peek(n)` shows the next `n` bytes of the wire without consuming them. -/
theorem Bufio.peek_spec (b : Bufio) (n : Nat) (hw : b.WF) (hf : b.Fits)
    (hn : n ≤ b.rem.length) (hcap : n ≤ b.cap) :
    ∃ b', b.peek n = ((b.rem.take n, none), b') ∧ b'.rem = b.rem ∧ b'.WF ∧ b'.Fits ∧ b'.cap = b.cap ∧
      b'.net.fin = b.net.fin ∧ n ≤ b'.buf.length := by
  obtain ⟨h1, h2, h3, h4, h5, h6⟩ := Bufio.fillUntil_spec (n + 1) n b hw hf hn hcap (by omega)
  refine ⟨Bufio.fillUntil (n + 1) n b, ?_, h1, h2, h3, h4, h5, h6⟩
  unfold Bufio.peek
  have hc : ¬ n > (Bufio.fillUntil (n + 1) n b).cap := by rw [h4]; omega
  have hl : ¬ (Bufio.fillUntil (n + 1) n b).buf.length < n := by omega
  simp only [hc, hl, if_false]
  have : (Bufio.fillUntil (n + 1) n b).buf.take n = b.rem.take n := by
    rw [← h1]
    simp only [Bufio.rem]
    rw [List.take_append_of_le_length h6]
  rw [this]

end Req.C02
