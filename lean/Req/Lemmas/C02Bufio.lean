import Req.C02.Bufio
/-!
`Net` / `Bufio` facts: every operation consumes a prefix of the unread wire
(`Bufio.rem` = buffered bytes ++ bytes the connection will still deliver), whatever the
segmentation.
-/
namespace Req.C02
open Req.Proto

/-! ### Net -/

theorem Net.readSegs_none (segs : List Bytes) (k : Nat) (segs' : List Bytes)
    (h : Net.readSegs segs k = (none, segs')) : segs.flatten = [] ∧ segs' = [] := by
  induction segs with
  | nil => simp [Net.readSegs] at h; simp [h]
  | cons s rest ih =>
    unfold Net.readSegs at h
    split at h
    next hs =>
      have := ih h
      simp [List.isEmpty_iff.mp hs, this]
    next hs =>
      split at h <;> simp at h

theorem Net.readSegs_some (segs : List Bytes) (k : Nat) (d : Bytes) (segs' : List Bytes)
    (h : Net.readSegs segs k = (some d, segs')) :
    segs.flatten = d ++ segs'.flatten ∧ d.length ≤ k ∧ (0 < k → d ≠ []) := by
  induction segs with
  | nil => simp [Net.readSegs] at h
  | cons s rest ih =>
    unfold Net.readSegs at h
    split at h
    next hs =>
      obtain ⟨h1, h2, h3⟩ := ih h
      exact ⟨by simp [List.isEmpty_iff.mp hs, h1], h2, h3⟩
    next hs =>
      have hne : s ≠ [] := by simpa [List.isEmpty_iff] using hs
      split at h
      next hle =>
        simp only [Prod.mk.injEq, Option.some.injEq] at h
        obtain ⟨rfl, rfl⟩ := h
        exact ⟨by simp, hle, fun _ => hne⟩
      next hgt =>
        simp only [Prod.mk.injEq, Option.some.injEq] at h
        obtain ⟨rfl, rfl⟩ := h
        refine ⟨by simp [← List.append_assoc, List.take_append_drop], by simp; omega, ?_⟩
        intro hk
        have : 0 < (s.take k).length := by
          simp only [List.length_take]
          have := List.length_pos_iff.mpr hne
          omega
        exact List.length_pos_iff.mp this

/-! ### Bufio -/

/-- A pending error means the connection has nothing more to deliver. -/
def Bufio.WF (b : Bufio) : Prop :=
  ∀ e, b.err = some e → b.net.segs.flatten = [] ∧ e = b.net.fin.toErr

/-- The buffer never holds more than its size. -/
def Bufio.Fits (b : Bufio) : Prop := b.buf.length ≤ b.cap

theorem Bufio.new_fits (cap : Nat) (n : Net) : (Bufio.new cap n).Fits := by
  simp [Bufio.new, Bufio.Fits]

theorem Bufio.new_wf (cap : Nat) (n : Net) : (Bufio.new cap n).WF := by
  intro e h; simp [Bufio.new] at h

theorem Bufio.new_rem (cap : Nat) (n : Net) : (Bufio.new cap n).rem = n.segs.flatten := by
  simp [Bufio.new, Bufio.rem]

/-- `Read(p)` with `len(p) = k > 0`: a non-empty prefix of the unread wire of at most `k`
bytes, or — only when nothing is left — the connection's end error. -/
theorem Bufio.read_spec (b : Bufio) (k : Nat) (hk : 0 < k) (hw : b.WF)
    (d : Bytes) (e : Option IOErr) (b' : Bufio) (h : b.read k = ((d, e), b')) :
    b'.WF ∧ b'.cap = b.cap ∧ b'.net.fin = b.net.fin ∧ b.rem = d ++ b'.rem ∧ d.length ≤ k ∧
    ((b.rem ≠ [] → e = none ∧ d ≠ []) ∧ (b.rem = [] → e = some b.net.fin.toErr ∧ d = [])) := by
  unfold Bufio.read at h
  have hk0 : ¬ k = 0 := by omega
  simp only [hk0, if_false] at h
  split at h
  next hemp =>
    have hbuf : b.buf = [] := List.isEmpty_iff.mp hemp
    split at h
    next e0 he0 =>
      -- pending error, empty buffer
      simp only [Prod.mk.injEq] at h
      obtain ⟨⟨rfl, rfl⟩, rfl⟩ := h
      obtain ⟨hfl, hee⟩ := hw e0 he0
      refine ⟨?_, rfl, rfl, ?_, by simp, ?_⟩
      · intro e h; simp at h
      · simp [Bufio.rem, hbuf]
      · simp [Bufio.rem, hbuf, hfl, hee]
    next he0 =>
      split at h
      next hbig =>
        -- direct read
        unfold Net.read at h
        rcases hr : Net.readSegs b.net.segs k with ⟨od, segs'⟩
        rw [hr] at h
        cases od with
        | some d0 =>
          simp only [Prod.mk.injEq] at h
          obtain ⟨⟨rfl, rfl⟩, rfl⟩ := h
          obtain ⟨hfl, hlen, hne⟩ := Net.readSegs_some _ _ _ _ hr
          refine ⟨?_, rfl, rfl, ?_, hlen, ?_⟩
          · intro e h; simp [he0] at h
          · simp [Bufio.rem, hbuf, hfl]
          · simp [Bufio.rem, hbuf, hfl, hne hk]
        | none =>
          simp only [Prod.mk.injEq] at h
          obtain ⟨⟨rfl, rfl⟩, rfl⟩ := h
          obtain ⟨hfl, hs'⟩ := Net.readSegs_none _ _ _ hr
          refine ⟨?_, rfl, rfl, ?_, by simp, ?_⟩
          · intro e h; simp [he0] at h
          · simp [Bufio.rem, hbuf, hfl, hs']
          · simp [Bufio.rem, hbuf, hfl]
      next hsmall =>
        unfold Net.read at h
        rcases hr : Net.readSegs b.net.segs b.cap with ⟨od, segs'⟩
        rw [hr] at h
        cases od with
        | some d0 =>
          simp only [Prod.mk.injEq] at h
          obtain ⟨⟨rfl, rfl⟩, rfl⟩ := h
          have hcap : 0 < b.cap := by omega
          obtain ⟨hfl, hlen, hne⟩ := Net.readSegs_some _ _ _ _ hr
          have hd0 := hne hcap
          refine ⟨?_, rfl, rfl, ?_, by simp; omega, ?_⟩
          · intro e h; simp [he0] at h
          · simp [Bufio.rem, hbuf, hfl, ← List.append_assoc, List.take_append_drop]
          · have : d0.take k ≠ [] := by
              have h1 := List.length_pos_iff.mpr hd0
              have : 0 < (d0.take k).length := by simp only [List.length_take]; omega
              exact List.length_pos_iff.mp this
            simp [Bufio.rem, hbuf, hfl, hd0, this]
        | none =>
          simp only [Prod.mk.injEq] at h
          obtain ⟨⟨rfl, rfl⟩, rfl⟩ := h
          obtain ⟨hfl, hs'⟩ := Net.readSegs_none _ _ _ hr
          refine ⟨?_, rfl, rfl, ?_, by simp, ?_⟩
          · intro e h; simp [he0] at h
          · simp [Bufio.rem, hbuf, hfl, hs']
          · simp [Bufio.rem, hbuf, hfl]
  next hne =>
    have hbuf : b.buf ≠ [] := by simpa [List.isEmpty_iff] using hne
    simp only [Prod.mk.injEq] at h
    obtain ⟨⟨rfl, rfl⟩, rfl⟩ := h
    refine ⟨?_, rfl, rfl, ?_, by simp; omega, ?_⟩
    · intro e h; exact hw e h
    · simp [Bufio.rem, ← List.append_assoc, List.take_append_drop]
    · have : b.buf.take k ≠ [] := by
        have h1 := List.length_pos_iff.mpr hbuf
        have : 0 < (b.buf.take k).length := by simp only [List.length_take]; omega
        exact List.length_pos_iff.mp this
      simp [Bufio.rem, hbuf, this]

end Req.C02

namespace Req.C02
open Req.Proto

/-- `Read` keeps the buffer within its size. -/
theorem Bufio.read_fits (b : Bufio) (k : Nat) (hf : b.Fits) (d : Bytes) (e : Option IOErr) (b' : Bufio)
    (h : b.read k = ((d, e), b')) : b'.Fits := by
  unfold Bufio.read at h
  unfold Bufio.Fits at hf ⊢
  split at h
  · split at h <;> (simp only [Prod.mk.injEq] at h; obtain ⟨_, rfl⟩ := h; exact hf)
  · split at h
    · split at h
      · simp only [Prod.mk.injEq] at h; obtain ⟨_, rfl⟩ := h; exact hf
      · split at h
        · unfold Net.read at h
          rcases hr : Net.readSegs b.net.segs k with ⟨od, segs'⟩
          rw [hr] at h
          cases od <;> (simp only [Prod.mk.injEq] at h; obtain ⟨_, rfl⟩ := h; exact hf)
        · unfold Net.read at h
          rcases hr : Net.readSegs b.net.segs b.cap with ⟨od, segs'⟩
          rw [hr] at h
          cases od with
          | none => simp only [Prod.mk.injEq] at h; obtain ⟨_, rfl⟩ := h; exact hf
          | some d0 =>
            simp only [Prod.mk.injEq] at h
            obtain ⟨_, rfl⟩ := h
            have := (Net.readSegs_some _ _ _ _ hr).2.1
            simp only [List.length_drop]
            omega
    · simp only [Prod.mk.injEq] at h
      obtain ⟨_, rfl⟩ := h
      simp only [List.length_drop]
      omega

/-- `fill` on a buffer with free space while the connection still has bytes: at least one
more byte is buffered, nothing is lost. -/
theorem Bufio.fill_spec (b : Bufio) (hw : b.WF) (hf : b.Fits) (hfree : b.buf.length < b.cap)
    (hmore : b.net.segs.flatten ≠ []) (herr : b.err = none) :
    ∃ d, d ≠ [] ∧ b.fill.buf = b.buf ++ d ∧ b.fill.rem = b.rem ∧ b.fill.WF ∧ b.fill.Fits ∧
      b.fill.cap = b.cap ∧ b.fill.err = none ∧ b.fill.net.fin = b.net.fin := by
  unfold Bufio.fill Net.read
  rcases hr : Net.readSegs b.net.segs (b.cap - b.buf.length) with ⟨od, segs'⟩
  cases od with
  | none =>
    have := (Net.readSegs_none _ _ _ hr).1
    exact absurd this hmore
  | some d =>
    obtain ⟨hfl, hlen, hne⟩ := Net.readSegs_some _ _ _ _ hr
    refine ⟨d, hne (by omega), rfl, ?_, ?_, ?_, rfl, herr, rfl⟩
    · simp [Bufio.rem, hfl]
    · intro e he; simp [herr] at he
    · simp only [Bufio.Fits, List.length_append]; unfold Bufio.Fits at hf; omega

end Req.C02
