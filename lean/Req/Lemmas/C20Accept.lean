import Req.Lemmas.C20Digest
/-!
Helper lemmas for C20 `digest_accepted`: what the verifier's parameter lookup finds in the
header `authorize` writes, and that every parameter `authorize` writes is well formed.
-/
namespace Req.Rfc7616
open Req.Proto Req.Digest Req.Ascii

/-- The server's record of a challenge that the client read as `c`: the same realm, nonce,
opaque, algorithm token, the (single, comma-free) qop option, userhash flag. -/
def issuedOf (c : Challenge) : Issued :=
  { realm := c.realm, nonce := c.nonce,
    opaq := if c.opaq.isEmpty then none else some c.opaq,
    algorithm := if c.algorithm.isEmpty then none else some c.algorithm,
    qops := if c.qop.isEmpty then [] else [c.qop],
    userhash := c.userhash == b!"true" }

def pairs (l : List Param) : Params := l.map fun p => (p.name, p.value)

section gets
variable (h : Bytes → Bytes) (c : Challenge) (cr : Cred) (nc cn : Bytes)

theorem get_username : get (pairs (params h c cr nc cn)) b!"username" =
    some (if c.userhash == b!"true" then h (colonJoin [cr.user, c.realm]) else cr.user) := by
  simp only [params, pairs]
  split <;> split <;> split <;> split <;> rfl

theorem get_realm : get (pairs (params h c cr nc cn)) b!"realm" = some c.realm := by
  simp only [params, pairs]
  split <;> split <;> split <;> split <;> rfl

theorem get_nonce : get (pairs (params h c cr nc cn)) b!"nonce" = some c.nonce := by
  simp only [params, pairs]
  split <;> split <;> split <;> split <;> rfl

theorem get_uri : get (pairs (params h c cr nc cn)) b!"uri" = some cr.uri := by
  simp only [params, pairs]
  split <;> split <;> split <;> split <;> rfl

theorem get_response : get (pairs (params h c cr nc cn)) b!"response" = some (response h c cr nc cn) := by
  simp only [params, pairs]
  split <;> split <;> split <;> split <;> rfl

theorem get_opaque : get (pairs (params h c cr nc cn)) b!"opaque" = (issuedOf c).opaq := by
  simp only [params, pairs, issuedOf]
  split <;> split <;> split <;> split <;> simp_all <;> rfl

theorem get_algorithm : get (pairs (params h c cr nc cn)) b!"algorithm" = (issuedOf c).algorithm := by
  simp only [params, pairs, issuedOf]
  split <;> split <;> split <;> split <;> simp_all <;> rfl

theorem get_userhash : get (pairs (params h c cr nc cn)) b!"userhash" =
    if c.userhash == b!"true" then some c.userhash else none := by
  simp only [params, pairs]
  split <;> split <;> split <;> split <;> rfl

theorem get_qop : get (pairs (params h c cr nc cn)) b!"qop" =
    if c.qop.isEmpty then none else some c.qop := by
  simp only [params, pairs]
  split <;> split <;> split <;> split <;> rfl

theorem get_nc : get (pairs (params h c cr nc cn)) b!"nc" =
    if c.qop.isEmpty then none else some nc := by
  simp only [params, pairs]
  split <;> split <;> split <;> split <;> rfl

theorem get_cnonce : get (pairs (params h c cr nc cn)) b!"cnonce" =
    if c.qop.isEmpty then none else some cn := by
  simp only [params, pairs]
  split <;> split <;> split <;> split <;> rfl

theorem names_distinct : namesDistinct (pairs (params h c cr nc cn)) = true := by
  simp only [params, pairs]
  split <;> split <;> split <;> split <;> rfl

theorem params_ne_nil : params h c cr nc cn ≠ [] := by
  simp only [params]
  split <;> simp

end gets
section ok
variable (h : Bytes → Bytes) (c : Challenge) (cr : Cred) (nc cn : Bytes)

theorem okQ (n v : Bytes) (hn : n ≠ []) (ht : n.all isTokenByte = true) (hv : v.all isQd = true) :
    Param.okP ⟨n, v, true⟩ := ⟨hn, ht, by simp only [if_true]; exact hv⟩

theorem okB (n v : Bytes) (hn : n ≠ []) (ht : n.all isTokenByte = true) (hv : v ≠ [])
    (hvt : v.all isTokenByte = true) : Param.okP ⟨n, v, false⟩ :=
  ⟨hn, ht, by simp only [Bool.false_eq_true, if_false]; exact ⟨hv, hvt⟩⟩

theorem response_qd (h : Bytes → Bytes) (hh : ∀ x, (h x).all isQd = true) (c : Challenge) (cr : Cred)
    (nc cn : Bytes) : (response h c cr nc cn).all isQd = true := by
  unfold response
  simp only
  split <;> exact hh _

theorem params_ok (hh : ∀ x, (h x).all isQd = true)
    (huser : c.userhash = b!"true" ∨ cr.user.all isQd = true)
    (hrealm : c.realm.all isQd = true) (hnonce : c.nonce.all isQd = true)
    (huri : cr.uri.all isQd = true) (hop : c.opaq.all isQd = true)
    (halg : c.algorithm = [] ∨ (c.algorithm ≠ [] ∧ c.algorithm.all isTokenByte = true))
    (hqop : c.qop = [] ∨ c.qop = b!"auth")
    (hnc : nc ≠ [] ∧ nc.all isTokenByte = true) (hcn : cn.all isQd = true) :
    ∀ p ∈ params h c cr nc cn, Param.okP p := by
  intro p hp
  simp only [params, List.mem_append] at hp
  rcases hp with (((hp | hp) | hp) | hp) | hp
  · split at hp
    · rename_i huh
      have e : c.userhash = b!"true" := eq_of_beq huh
      simp only [List.mem_singleton] at hp
      subst hp
      rw [e]
      exact okB _ _ (by decide) (by decide) (by decide) (by decide)
    · cases hp
  · simp only [List.mem_cons, List.not_mem_nil, or_false] at hp
    rcases hp with rfl | rfl | rfl | rfl | rfl
    · refine okQ _ _ (by decide) (by decide) ?_
      split
      · exact hh _
      · rename_i hn
        rcases huser with e | e
        · exact absurd (by rw [e]; rfl) hn
        · exact e
    · exact okQ _ _ (by decide) (by decide) hrealm
    · exact okQ _ _ (by decide) (by decide) hnonce
    · exact okQ _ _ (by decide) (by decide) huri
    · exact okQ _ _ (by decide) (by decide) (response_qd h hh c cr nc cn)
  · split at hp
    · cases hp
    · rename_i hne
      simp only [List.mem_singleton] at hp
      subst hp
      rcases halg with e | ⟨e1, e2⟩
      · exact absurd (by rw [e]; rfl) hne
      · exact okB _ _ (by decide) (by decide) e1 e2
  · split at hp
    · cases hp
    · simp only [List.mem_singleton] at hp
      subst hp
      exact okQ _ _ (by decide) (by decide) hop
  · split at hp
    · cases hp
    · rename_i hne
      rcases hqop with e | e
      · exact absurd (by rw [e]; rfl) hne
      · simp only [List.mem_cons, List.not_mem_nil, or_false] at hp
        rcases hp with rfl | rfl | rfl
        · rw [e]; exact okB _ _ (by decide) (by decide) (by decide) (by decide)
        · exact okB _ _ (by decide) (by decide) hnc.1 hnc.2
        · exact okQ _ _ (by decide) (by decide) hcn

end ok
end Req.Rfc7616
