import Req.Pool.H2Mux
import Req.Lemmas.C09H2Rel
/-!
The routing-relevant projection (`core`) of an `H2Mux` state and the abstract transitions
(`CStep`) every op of the model performs on it.  `step_core` is the only place where the step
function is unfolded; the invariants (C09H2Inv) are proved over `CStep`.
-/
namespace Req.Lemmas.C09H2Core
open Req.Pool.H2Mux Req.Lemmas.C09H2Rel

structure Core where
  streams : List (Nat × Caller)
  nextId : Nat
  hdrMu : Option Caller
  hdrWire : List Nat
  pendingReq : Nat
  forgetPanic : Bool
  rx : List Frame
  rl : Option (Frame × Option Caller)
  id : Caller → Nat
  phase : Caller → Phase
  got : Caller → List Item

def core (s : St) : Core :=
  ⟨s.streams, s.nextId, s.hdrMu, s.hdrWire, s.pendingReq, s.forgetPanic, s.rx, s.rl,
   fun k => (s.cs k).id, fun k => (s.cs k).phase, fun k => (s.cs k).got⟩

/-- holds `reqHeaderMu` -/
def holds (p : Phase) : Prop := p = .holdMu ∨ p = .pending ∨ p = .opened

/-- plain phase changes that touch nothing else -/
def plain (p p' : Phase) : Prop :=
  (p = .idle ∧ p' = .wantMu) ∨ (p = .wantMu ∧ p' = .exiting) ∨ (p = .sent ∧ p' = .exiting) ∨
  (p = .exiting ∧ p' = .finishing)

def pendDec (c : Core) (k : Caller) : Nat :=
  if c.phase k = .pending then c.pendingReq - 1 else c.pendingReq

inductive CStep : Core → Core → Prop
  | quiet (c : Core) : CStep c c
  | phase (c : Core) (k : Caller) (p' : Phase) (h : plain (c.phase k) p') :
      CStep c { c with phase := upd c.phase k p' }
  | acquire (c : Core) (k : Caller) (h1 : c.phase k = .wantMu) (h2 : c.hdrMu = none) :
      CStep c { c with phase := upd c.phase k .holdMu, hdrMu := some k }
  | exitHeld (c : Core) (k : Caller) (h : holds (c.phase k)) :
      CStep c { c with phase := upd c.phase k .exiting, hdrMu := none, pendingReq := pendDec c k }
  | admit (c : Core) (k : Caller) (h : c.phase k = .holdMu ∨ c.phase k = .pending) :
      CStep c { c with phase := upd c.phase k .opened, id := upd c.id k c.nextId,
                       streams := (c.nextId, k) :: c.streams, nextId := c.nextId + 2,
                       pendingReq := pendDec c k }
  | park (c : Core) (k : Caller) (h : c.phase k = .holdMu ∨ c.phase k = .pending) :
      CStep c { c with phase := upd c.phase k .pending, pendingReq := pendDec c k + 1 }
  | wrote (c : Core) (k : Caller) (h : c.phase k = .opened) :
      CStep c { c with phase := upd c.phase k .sent, hdrMu := none, hdrWire := c.hdrWire ++ [c.id k] }
  | forgot (c : Core) (k : Caller) (h : c.phase k = .finishing) :
      CStep c { c with phase := upd c.phase k .done,
                       streams := if c.id k = 0 then c.streams else
                         if (c.streams.lookup (c.id k)).isSome then c.streams.filter (fun p => p.1 ≠ c.id k)
                         else c.streams,
                       forgetPanic := if c.id k = 0 then c.forgetPanic else
                         if (c.streams.lookup (c.id k)).isSome then c.forgetPanic else true }
  | read (c : Core) (f : Frame) (tgt : Option Caller) (h1 : c.rl = none)
      (h2 : ∀ k, tgt = some k → ∃ i, f.sid? = some i ∧ c.streams.lookup i = some k) :
      CStep c { c with rx := c.rx ++ [f], rl := some (f, tgt) }
  | processed (c : Core) (f : Frame) (tgt : Option Caller) (got' : Caller → List Item)
      (h1 : c.rl = some (f, tgt))
      (h2 : ∀ k, ∃ new, got' k = new ++ c.got k ∧ ∀ it ∈ new, PFrame f tgt (c.rx.length - 1) k it) :
      CStep c { c with rl := none, got := got' }

/-! ### computing `core` -/

theorem upd_self {β} (f : Nat → β) (k : Nat) : upd f k (f k) = f := by
  funext j; simp only [upd]; split
  · next h => rw [h]
  · rfl

/-- `core` after replacing caller `k`'s object. -/
def Core.setCaller (c : Core) (k : Caller) (i : Nat) (p : Phase) (g : List Item) : Core :=
  { c with id := upd c.id k i, phase := upd c.phase k p, got := upd c.got k g }

theorem core_setCS (s : St) (k : Caller) (c : CS) :
    core (setCS s k c) = (core s).setCaller k c.id c.phase c.got := by
  simp only [core, setCS, Core.setCaller]
  congr 1 <;> (funext j; simp only [upd]; split <;> rfl)

/-- A caller's object replaced by one with the same id, phase and got. -/
theorem core_setCS_same (s : St) (k : Caller) (c : CS) (h1 : c.id = (s.cs k).id)
    (h2 : c.phase = (s.cs k).phase) (h3 : c.got = (s.cs k).got) : core (setCS s k c) = core s := by
  rw [core_setCS, h1, h2, h3]
  show (core s).setCaller k ((core s).id k) ((core s).phase k) ((core s).got k) = core s
  simp only [Core.setCaller, upd_self]

theorem core_of_rel {s s' : St} (h : Rel (fun _ _ => False) s s') : core s' = core s := by
  have hg : ∀ k, (s'.cs k).got = (s.cs k).got := by
    intro k
    obtain ⟨n, e, p⟩ := h.got k
    cases n with
    | nil => simpa using e
    | cons x _ => exact absurd (p x List.mem_cons_self) id
  simp only [core, h.streams, h.nextId, h.hdrMu, h.hdrWire, h.pendingReq, h.forgetPanic, h.rx, h.rl]
  congr 1
  · funext k; exact h.id k
  · funext k; exact h.phase k
  · funext k; exact hg k

theorem core_broadcast (s : St) : core (broadcast s) = core s := rfl

theorem core_abortLocked (s : St) (k : Caller) (e : Err) : core (abortLocked s k e) = core s :=
  core_of_rel (rel_abortLocked _ s k e)

theorem core_exitWith (s : St) (k : Caller) (e : Option Err) (held : Bool) :
    core (exitWith s k e held) =
      { core s with phase := upd (core s).phase k .exiting,
                    hdrMu := if held then none else (core s).hdrMu } := by
  unfold exitWith
  dsimp only
  cases held
  · simp only [Bool.false_eq_true, if_false]
    rw [core_setCS]
    simp only [Core.setCaller]
    show ({ core s with id := upd (core s).id k ((core s).id k), phase := _, got := upd (core s).got k ((core s).got k) } : Core) = _
    rw [upd_self, upd_self]
  · simp only [if_true]
    show ({ core (setCS s k _) with hdrMu := none } : Core) = _
    rw [core_setCS]
    simp only [Core.setCaller]
    show ({ core s with id := upd (core s).id k ((core s).id k), phase := _, got := upd (core s).got k ((core s).got k), hdrMu := none } : Core) = _
    rw [upd_self, upd_self]

/-- `slotLoop` for a caller that holds `reqHeaderMu` in phase `holdMu` or `pending`, started in a
state whose `pendingReq` is already decremented (`wake`) or untouched (`openSlot`). -/
theorem slotLoop_core (cfg : Cfg) (s : St) (k : Caller) (c0 : Core)
    (hph : c0.phase k = .holdMu ∨ c0.phase k = .pending)
    (hc : core s = { c0 with pendingReq := pendDec c0 k }) :
    CStep c0 (core (slotLoop cfg s k)) := by
  unfold slotLoop
  split
  · rw [core_exitWith, hc]
    simp only [if_true]
    exact CStep.exitHeld c0 k (by rcases hph with h | h <;> simp [holds, h])
  · split
    · have : core (addStream s k) =
          { c0 with
            phase := upd c0.phase k .opened, id := upd c0.id k c0.nextId,
            streams := (c0.nextId, k) :: c0.streams, nextId := c0.nextId + 2, pendingReq := pendDec c0 k } := by
        unfold addStream
        dsimp only
        show ({ core (setCS s k _) with streams := _, nextId := _ } : Core) = _
        rw [core_setCS, hc]
        simp only [Core.setCaller]
        have hn : s.nextId = c0.nextId := by
          have := congrArg Core.nextId hc; simpa [core] using this
        have hs : s.streams = c0.streams := by
          have := congrArg Core.streams hc; simpa [core] using this
        have hg : (s.cs k).got = c0.got k := by
          have := congrArg (fun c => Core.got c k) hc; simpa [core] using this
        rw [hn, hs, hg, upd_self]
      rw [this]
      exact CStep.admit c0 k hph
    · dsimp only
      have : ∀ cw w, core ({ setCS s k { s.cs k with phase := .pending } with
          pendingReq := s.pendingReq + 1, condWait := cw, waits := w } : St) =
          { c0 with phase := upd c0.phase k .pending, pendingReq := pendDec c0 k + 1 } := by
        intro cw w
        show ({ core (setCS s k _) with pendingReq := s.pendingReq + 1 } : Core) = _
        rw [core_setCS, hc]
        simp only [Core.setCaller]
        have hp : s.pendingReq = pendDec c0 k := by
          have := congrArg Core.pendingReq hc; simpa [core] using this
        have hi : (s.cs k).id = c0.id k := by
          have := congrArg (fun c => Core.id c k) hc; simpa [core] using this
        have hg : (s.cs k).got = c0.got k := by
          have := congrArg (fun c => Core.got c k) hc; simpa [core] using this
        rw [hp, hi, hg, upd_self, upd_self]
      rw [this]
      exact CStep.park c0 k hph

theorem Core.ext' (a b : Core) (h1 : a.streams = b.streams) (h2 : a.nextId = b.nextId)
    (h3 : a.hdrMu = b.hdrMu) (h4 : a.hdrWire = b.hdrWire) (h5 : a.pendingReq = b.pendingReq)
    (h6 : a.forgetPanic = b.forgetPanic) (h7 : a.rx = b.rx) (h8 : a.rl = b.rl)
    (h9 : ∀ k, a.id k = b.id k) (h10 : ∀ k, a.phase k = b.phase k) (h11 : ∀ k, a.got k = b.got k) :
    a = b := by
  cases a; cases b
  simp only [Core.mk.injEq]
  exact ⟨h1, h2, h3, h4, h5, h6, h7, h8, funext h9, funext h10, funext h11⟩

theorem CStep.of_eq {c c1 c2 : Core} (h : CStep c c1) (e : c2 = c1) : CStep c c2 := e ▸ h

/-- proves `core X = C` for explicit `X` built from `setCS` / record updates -/
syntax "core_eq" : tactic
macro_rules
  | `(tactic| core_eq) => `(tactic|
      (apply Core.ext' <;> intros <;>
        (simp only [core, abortLocked, setCS, upd, broadcast, decrReserved, pendDec] <;> (try split) <;> simp_all)))

theorem core_phase_eq (s : St) (k : Caller) : (core s).phase k = (s.cs k).phase := rfl

theorem streamByID_lookup (s : St) (i : Nat) (k : Caller) (h : streamByID s i = some k) :
    s.streams.lookup i = some k := by
  unfold streamByID at h
  split at h
  · next k' hk => split at h <;> simp_all
  · cases h

theorem core_eq_of_rel_setCS {s t : St} (hr : Rel (fun _ _ => False) s t) (k : Caller) (c : CS) (p : Phase)
    (h1 : c.id = (t.cs k).id) (h3 : c.got = (t.cs k).got) (hp : c.phase = p) :
    core (setCS t k c) = { core s with phase := upd (core s).phase k p } := by
  rw [← core_of_rel hr]
  apply Core.ext' <;> intros <;> simp only [core, setCS, upd] <;> (try split) <;> simp_all

theorem core_ite_closed (t : St) (p : Prop) [Decidable p] :
    core (if p then (({ t with closed := true } : St), Out.none) else (t, Out.none)).1 = core t := by
  split <;> rfl

theorem step_core (cfg : Cfg) (s : St) (op : Op) : CStep (core s) (core (step cfg s op).1) := by
  cases op with
  | reserve k =>
    simp only [step]
    repeat' split
    all_goals (refine CStep.of_eq (CStep.quiet _) ?_; core_eq)
  | begin k isHead upload =>
    simp only [step]
    split
    · exact CStep.quiet _
    · next h =>
      refine CStep.of_eq (CStep.phase _ k .wantMu (Or.inl ⟨by simpa [core] using h, rfl⟩)) ?_
      core_eq
  | acquire k =>
    simp only [step]
    split
    · exact CStep.quiet _
    · next h =>
      have h' : (s.cs k).phase = .wantMu ∧ s.hdrMu = none := by
        constructor
        · exact Classical.not_not.mp (fun hn => h (Or.inl hn))
        · cases hm : s.hdrMu with
          | none => rfl
          | some x => exact absurd (Or.inr (by simp [hm])) h
      refine CStep.of_eq (CStep.acquire (core s) k h'.1 h'.2) ?_
      core_eq
  | openSlot k =>
    simp only [step]
    split
    · exact CStep.quiet _
    · next h =>
      have h' : (s.cs k).phase = .holdMu := Classical.not_not.mp h
      apply slotLoop_core cfg _ k (core s) (Or.inl h')
      have : (core s).phase k = .holdMu := h'
      core_eq
  | wake k =>
    simp only [step]
    split
    · exact CStep.quiet _
    · next h =>
      have h' : (s.cs k).phase = .pending := Classical.not_not.mp (fun hn => h (Or.inl hn))
      have hcore : core ({ s with woken := s.woken.erase k, pendingReq := s.pendingReq - 1 } : St) =
          { core s with pendingReq := pendDec (core s) k } := by
        simp [core, pendDec, h']
      split
      · rw [core_exitWith, hcore]
        simp only [if_true]
        exact CStep.exitHeld _ k (by simp [holds, core_phase_eq, h'])
      · exact slotLoop_core cfg _ k (core s) (Or.inr h') hcore
  | writeHeaders k =>
    simp only [step]
    split
    · exact CStep.quiet _
    · next h =>
      have h' : (s.cs k).phase = .opened := Classical.not_not.mp h
      have hpd : pendDec (core s) k = (core s).pendingReq := by simp [pendDec, core_phase_eq, h']
      have hx : ∀ (t : St) e, core t = core s → CStep (core s) (core (exitWith t k e true)) := by
        intro t e ht
        rw [core_exitWith, ht]
        simp only [if_true]
        have := CStep.exitHeld (core s) k (by simp [holds, core_phase_eq, h'])
        rw [hpd] at this
        exact this
      split
      · exact hx s _ rfl
      · split
        · apply hx
          core_eq
        · refine CStep.of_eq (CStep.wrote (core s) k h') ?_
          core_eq
  | wakeUpload k =>
    simp only [step]
    repeat' split
    all_goals (refine CStep.of_eq (CStep.quiet _) ?_; core_eq)
  | finishWrite k =>
    simp only [step]
    split
    · next h =>
      split
      · rw [core_exitWith]
        simp only [Bool.false_eq_true, if_false]
        exact CStep.phase _ k _ (Or.inr (Or.inl ⟨h, rfl⟩))
      · exact CStep.quiet _
    · next h =>
      have hx : ∀ e, CStep (core s) (core (exitWith s k e false)) := by
        intro e
        rw [core_exitWith]
        simp only [Bool.false_eq_true, if_false]
        exact CStep.phase _ k _ (Or.inr (Or.inr (Or.inl ⟨h, rfl⟩)))
      repeat' split
      all_goals first | exact CStep.quiet _ | exact hx _
    · exact CStep.quiet _
  | retire k =>
    simp only [step]
    split
    · exact CStep.quiet _
    · next h =>
      have h' : (s.cs k).phase = .exiting := Classical.not_not.mp h
      have key : ∀ (t : St) (c : CS), Rel (fun _ _ => False) s t → c.id = (t.cs k).id → c.got = (t.cs k).got →
          c.phase = .finishing → CStep (core s) (core (setCS t k c)) := by
        intro t c hr h1 h3 hp
        rw [core_eq_of_rel_setCS hr k c .finishing h1 h3 hp]
        exact CStep.phase _ k _ (Or.inr (Or.inr (Or.inr ⟨h', rfl⟩)))
      have hs0 : Rel (fun _ _ => False) s
          (if (s.cs k).id = 0 then decrReserved (setCS s k { s.cs k with resv := false }) else s) := by
        split
        · refine Rel.trans (b := setCS s k _) ?_ ⟨rfl, rfl, rfl, rfl, rfl, rfl, rfl, rfl, fun _ => rfl, fun _ => rfl,
            fun _ => ⟨[], rfl, by intro it hh; cases hh⟩⟩
          apply rel_setCS' <;> rfl
        · exact Rel.refl _ _
      have hw : ∀ (t : St) w, Rel (fun _ _ => False) s t → Rel (fun _ _ => False) s { t with rstWire := w } :=
        fun t w ht => ht.trans ⟨rfl, rfl, rfl, rfl, rfl, rfl, rfl, rfl, fun _ => rfl, fun _ => rfl,
          fun _ => ⟨[], rfl, by intro it hh; cases hh⟩⟩
      try dsimp only
      split
      · apply key
        · split
          · split
            · exact hw _ _ (hs0.thenAbort k _)
            · exact hs0.thenAbort k _
          · exact hs0.thenAbort k _
        · rfl
        · rfl
        · rfl
      · apply key
        · split
          · exact hw _ _ hs0
          · exact hs0
        · rfl
        · rfl
        · rfl
  | forget k =>
    simp only [step]
    split
    · exact CStep.quiet _
    · next h =>
      have h' : (s.cs k).phase = .finishing := Classical.not_not.mp h
      have hfor := CStep.forgot (core s) k h'
      try dsimp only
      by_cases hid : (s.cs k).id = 0
      · simp only [hid, if_true]
        refine CStep.of_eq hfor ?_
        have hid' : (core s).id k = 0 := hid
        clear hfor
        apply Core.ext' <;> intros <;> simp only [core, setCS, upd] <;> (try split) <;> simp_all [core]
      · simp only [hid, if_false]
        rw [core_ite_closed, core_broadcast]
        refine CStep.of_eq hfor ?_
        have hst : (setCS s k { s.cs k with phase := .done }).streams = s.streams := rfl
        rw [hst]
        clear hfor
        cases hl : (s.streams.lookup (s.cs k).id).isSome
        all_goals
          apply Core.ext' <;> intros <;>
            simp only [core, setCS, upd, hl, hid, ↓reduceIte, Bool.false_eq_true] <;> (try split) <;>
            (first | rfl | simp_all [core])
  | cancel k =>
    simp only [step]
    repeat' split
    all_goals (refine CStep.of_eq (CStep.quiet _) ?_; core_eq)
  | rtSee k =>
    simp only [step]
    repeat' split
    all_goals (refine CStep.of_eq (CStep.quiet _) ?_; core_eq)
  | rtReturn k =>
    simp only [step]
    split
    · exact CStep.quiet _
    · repeat' split
      all_goals first
        | exact CStep.quiet _
        | (refine CStep.of_eq (CStep.quiet _) ?_; core_eq)

  | closeBody k =>
    simp only [step]
    split
    · exact CStep.quiet _
    · refine CStep.of_eq (CStep.quiet _) ?_; core_eq
  | idleTimeout =>
    simp only [step]
    split <;> exact CStep.quiet _
  | rlRead f =>
    simp only [step]
    split
    · exact CStep.quiet _
    · next h =>
      have hrl : s.rl = none := by
        cases hr : s.rl with
        | none => rfl
        | some x => exact absurd (Or.inr (by simp [hr])) h
      refine CStep.read (core s) f _ hrl ?_
      intro k hk
      split at hk
      · next i hi => exact ⟨i, hi, streamByID_lookup s i k hk⟩
      · cases hk
  | rlProcess =>
    simp only [step]
    split
    · exact CStep.quiet _
    · next f tgt hrl =>
      have hr := rel_process { s with rl := none } f tgt
      refine CStep.of_eq (CStep.processed (core s) f tgt
        (fun k => ((process { s with rl := none } f tgt).cs k).got) hrl (fun k => hr.got k)) ?_
      apply Core.ext' <;> intros <;>
        simp only [core, hr.streams, hr.nextId, hr.hdrMu, hr.hdrWire, hr.pendingReq, hr.forgetPanic, hr.rx, hr.rl,
          hr.id, hr.phase]

end Req.Lemmas.C09H2Core
