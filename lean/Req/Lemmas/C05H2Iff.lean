import Req.H2.FrameRfc
import Req.Lemmas.C05H2
/-!
The typed parsers of `internal/http2/frame.go` return exactly the verdict of RFC 9113 §6
(`Req.H2.Frame.Rfc.verdict`): per-type lemmas and the dispatch.
-/
namespace Req.Lemmas.C05.H2Iff
open Req.Proto Req.H2.Frame Req.H2.Frame.Rfc

theorem ofResult_ite (c : Prop) [Decidable c] (a b : Except RErr Frame) :
    ofResult (if c then a else b) = if c then ofResult a else ofResult b := by
  split <;> rfl
theorem ofResult_ok (f : Frame) : ofResult (.ok f) = .accept := rfl
theorem ofResult_error (e : RErr) : ofResult (.error e) = .reject e := rfl

theorem headers_aux (fh : FrameHeader) (p : Bytes) (pd pr : Bool) :
    ofResult (match takePad pd p with
      | .error e => .error e
      | .ok (padLength, p) =>
        match takePrio pr p with
        | .error e => .error e
        | .ok (prio, p) =>
          if p.length < padLength then .error (.stream fh.streamID errProtocol)
          else .ok (.headers fh prio (p.take (p.length - padLength)))) =
      (if p.length < b2n pd 1 + b2n pr 5 then Verdict.reject .unexpectedEOF
       else if p.length - (b2n pd 1 + b2n pr 5) < (if pd then (p.headD 0).toNat else 0) then
         .reject (.stream fh.streamID errProtocol)
       else .accept) := by
  cases pd <;> cases pr <;>
    rcases p with _ | ⟨a, _ | ⟨b, _ | ⟨c, _ | ⟨d, _ | ⟨e, _ | ⟨f, r⟩⟩⟩⟩⟩⟩ <;>
    simp only [takePad, takePrio, b2n, ofResult_ite, ofResult_ok, ofResult_error, List.length_cons,
      List.length_nil, List.headD_cons, List.headD_nil, ↓reduceIte, Bool.false_eq_true] <;>
    (repeat' split) <;> (try rfl) <;> (try omega)

theorem pp_aux (fh : FrameHeader) (p : Bytes) (pd : Bool) :
    ofResult (match takePad pd p with
      | .error e => .error e
      | .ok (padLength, p) =>
        match p with
        | a :: b :: c :: d :: p =>
          if padLength > p.length then .error (.conn errProtocol)
          else .ok (.pushPromise fh (rd32 a b c d % two31) (p.take (p.length - padLength)))
        | _ => .error .unexpectedEOF) =
      (if p.length < b2n pd 1 + 4 then Verdict.reject .unexpectedEOF
       else if p.length - (b2n pd 1 + 4) < (if pd then (p.headD 0).toNat else 0) then connProtocol
       else .accept) := by
  cases pd <;>
    rcases p with _ | ⟨a, _ | ⟨b, _ | ⟨c, _ | ⟨d, _ | ⟨e, r⟩⟩⟩⟩⟩ <;>
    simp only [takePad, b2n, ofResult_ite, ofResult_ok, ofResult_error, List.length_cons, connProtocol,
      List.length_nil, List.headD_cons, List.headD_nil, ↓reduceIte, Bool.false_eq_true] <;>
    (repeat' split) <;> (try rfl) <;> (try omega) <;> (try (simp at *; done)) <;> (try (simp at *; omega))

theorem data_aux (fh : FrameHeader) (p : Bytes) (pd : Bool) :
    ofResult (if pd then
        match p with
        | [] => .error .unexpectedEOF
        | pad :: p =>
          if pad.toNat > p.length then .error (.conn errProtocol)
          else .ok (.data fh (p.take (p.length - pad.toNat)))
      else .ok (.data fh p)) =
      (if pd ∧ p.length = 0 then Verdict.reject .unexpectedEOF
       else if pd ∧ (if pd then (p.headD 0).toNat else 0) ≥ p.length then connProtocol
       else .accept) := by
  cases pd <;> rcases p with _ | ⟨a, r⟩ <;>
    simp only [ofResult_ite, ofResult_ok, ofResult_error, List.length_cons, connProtocol,
      List.length_nil, List.headD_cons, List.headD_nil, ↓reduceIte, Bool.false_eq_true, false_and, true_and] <;>
    (repeat' split) <;> (try rfl) <;> (try omega) <;> (try (simp at *; done)) <;> (try (simp at *; omega))

theorem data_verdict (fh : FrameHeader) (p : Bytes) : ofResult (parseData fh p) = Rfc.data fh p := by
  by_cases h0 : fh.streamID = 0
  · simp [parseData, Rfc.data, h0, ofResult, connProtocol]
  · simp only [parseData, Rfc.data, padLen, padded, h0, ↓reduceIte]
    exact data_aux fh p _

theorem headers_verdict (fh : FrameHeader) (p : Bytes) :
    ofResult (parseHeaders fh p) = Rfc.headers fh p := by
  by_cases h0 : fh.streamID = 0
  · simp [parseHeaders, Rfc.headers, h0, ofResult, connProtocol]
  · simp only [parseHeaders, Rfc.headers, fixedHeaders, padLen, padded, hasPrio, h0, ↓reduceIte]
    exact headers_aux fh p _ _

theorem priority_verdict (fh : FrameHeader) (p : Bytes) :
    ofResult (parsePriority fh p) = Rfc.priority fh p := by
  rcases p with _ | ⟨a, _ | ⟨b, _ | ⟨c, _ | ⟨d, _ | ⟨w, _ | ⟨x, r⟩⟩⟩⟩⟩⟩ <;>
    by_cases h0 : fh.streamID = 0 <;>
    simp [parsePriority, Rfc.priority, ofResult, connFrameSize, connProtocol, h0]

theorem rstStream_verdict (fh : FrameHeader) (p : Bytes) :
    ofResult (parseRSTStream fh p) = Rfc.rstStream fh p := by
  rcases p with _ | ⟨a, _ | ⟨b, _ | ⟨c, _ | ⟨d, _ | ⟨x, r⟩⟩⟩⟩⟩ <;>
    by_cases h0 : fh.streamID = 0 <;>
    simp [parseRSTStream, Rfc.rstStream, ofResult, connFrameSize, connProtocol, h0]

theorem settings_verdict (fh : FrameHeader) (p : Bytes) (hl : fh.length = p.length) :
    ofResult (parseSettings fh p) = Rfc.settings fh p := by
  unfold parseSettings Rfc.settings isAck initialWindowTooLarge
  rw [hl]
  by_cases h1 : hasFlag fh.flags flagAck = true ∧ p.length > 0
  · simp [h1, ofResult, connFrameSize]
  · simp only [h1, ↓reduceIte]
    by_cases h2 : fh.streamID ≠ 0
    · simp [h2, ofResult, connProtocol]
    · simp only [h2, ↓reduceIte]
      by_cases h3 : p.length % 6 ≠ 0
      · simp [h3, ofResult, connFrameSize]
      · simp only [h3, ↓reduceIte]
        cases hv : settingsValue (decodeSettings p) 4 with
        | none => simp [ofResult]
        | some v =>
          simp only
          by_cases h4 : v > two31 - 1
          · have : v > 2147483647 := h4
            simp [h4, this, ofResult]
          · have : ¬ v > 2147483647 := h4
            simp [h4, this, ofResult]

theorem pushPromise_verdict (fh : FrameHeader) (p : Bytes) :
    ofResult (parsePushPromise fh p) = Rfc.pushPromise fh p := by
  by_cases h0 : fh.streamID = 0
  · simp [parsePushPromise, Rfc.pushPromise, h0, ofResult, connProtocol]
  · simp only [parsePushPromise, Rfc.pushPromise, fixedPushPromise, padLen, padded, h0, ↓reduceIte]
    exact pp_aux fh p _

theorem ping_verdict (fh : FrameHeader) (p : Bytes) : ofResult (parsePing fh p) = Rfc.ping fh p := by
  by_cases h1 : p.length = 8 <;> by_cases h0 : fh.streamID = 0 <;>
    simp [parsePing, Rfc.ping, ofResult, connFrameSize, connProtocol, h0, h1]

theorem goAway_verdict (fh : FrameHeader) (p : Bytes) :
    ofResult (parseGoAway fh p) = Rfc.goAway fh p := by
  rcases p with _ | ⟨a, _ | ⟨b, _ | ⟨c, _ | ⟨d, _ | ⟨e, _ | ⟨f, _ | ⟨g, _ | ⟨h, r⟩⟩⟩⟩⟩⟩⟩⟩ <;>
    by_cases h0 : fh.streamID = 0 <;>
    simp [parseGoAway, Rfc.goAway, ofResult, connFrameSize, connProtocol, h0]

theorem wu_aux (fh : FrameHeader) (v : Nat) :
    ofResult
        (if v = 0 then
          if fh.streamID = 0 then Except.error (RErr.conn errProtocol)
          else Except.error (RErr.stream fh.streamID errProtocol)
        else Except.ok (Frame.windowUpdate fh v)) =
      if 0 + 1 + 1 + 1 + 1 ≠ 4 then connFrameSize
      else
        if v = 0 then
          if fh.streamID = 0 then connProtocol else Verdict.reject (RErr.stream fh.streamID errProtocol)
        else Verdict.accept := by
  by_cases hz : v = 0 <;> by_cases h0 : fh.streamID = 0 <;>
    simp [hz, h0, ofResult, connProtocol]

theorem windowUpdate_verdict (fh : FrameHeader) (p : Bytes) :
    ofResult (parseWindowUpdate fh p) = Rfc.windowUpdate fh p := by
  rcases p with _ | ⟨a, _ | ⟨b, _ | ⟨c, _ | ⟨d, _ | ⟨x, r⟩⟩⟩⟩⟩
  case cons.cons.cons.cons.nil =>
    have e2 : word0 [a, b, c, d] = rd32 a b c d := by simp [word0]
    simp only [parseWindowUpdate, Rfc.windowUpdate, e2, List.length_cons, List.length_nil]
    exact wu_aux fh _
  all_goals simp [parseWindowUpdate, Rfc.windowUpdate, ofResult, connFrameSize]

theorem continuation_verdict (fh : FrameHeader) (p : Bytes) :
    ofResult (parseContinuation fh p) = Rfc.continuation fh p := by
  by_cases h0 : fh.streamID = 0 <;>
    simp [parseContinuation, Rfc.continuation, ofResult, connProtocol, h0]

/-- **the typed parsers implement the RFC 9113 §6 verdict.** -/
theorem parse_verdict (fh : FrameHeader) (p : Bytes) (hl : fh.length = p.length) :
    ofResult (parsePayload fh p) = verdict fh p := by
  unfold parsePayload verdict
  split
  · exact data_verdict fh p
  split
  · exact headers_verdict fh p
  split
  · exact priority_verdict fh p
  split
  · exact rstStream_verdict fh p
  split
  · exact settings_verdict fh p hl
  split
  · exact pushPromise_verdict fh p
  split
  · exact ping_verdict fh p
  split
  · exact goAway_verdict fh p
  split
  · exact windowUpdate_verdict fh p
  split
  · exact continuation_verdict fh p
  · rfl

theorem ofResult_accept (r : Except RErr Frame) : ofResult r = .accept ↔ ∃ f, r = .ok f := by
  cases r <;> simp [ofResult]

theorem ofResult_reject (r : Except RErr Frame) (e : RErr) : ofResult r = .reject e ↔ r = .error e := by
  cases r <;> simp [ofResult]

theorem acc {r : Except RErr Frame} {v : Verdict} (h : ofResult r = v) :
    (∃ f, r = .ok f) ↔ v = .accept := by rw [← h, ofResult_accept]
theorem rej {r : Except RErr Frame} {v : Verdict} (h : ofResult r = v) (e : RErr) :
    r = .error e ↔ v = .reject e := by rw [← h, ofResult_reject]

end Req.Lemmas.C05.H2Iff
