import Req.Lemmas.MultipartBody
/-! Helper lemmas for the multipart round trip (C17): good parts, items, composition. -/
namespace Req.Multipart
open Req.Proto Req.Ascii

/-! ### what a body may carry -/

/-- A field that multipart/form-data can carry: non-empty name made of bytes a header value may
contain (Go's `multipart.Writer` writes field names unencoded), value free of the delimiter. -/
structure FieldOK (b : Bytes) (kv : Bytes × Bytes) : Prop where
  name_ne : kv.1 ≠ []
  name_safe : ∀ c ∈ kv.1, headerUnsafe c = false
  free : BoundaryFree (delim b) (crlf ++ kv.2)

/-- A content type the part header can carry: blank (no header is written), or valid header
bytes without surrounding white space. -/
def CTypeOK (t : Bytes) : Prop :=
  isStringEmpty t = true ∨
  (t ≠ [] ∧ (∀ c ∈ t, validValueByte c = true) ∧ (t.head?.map isLWS).getD false = false ∧
    (t.getLast?.map isLWS).getD false = false)

/-- A file upload that multipart/form-data can carry. ANY bytes are allowed in the names. -/
structure FileOK (b : Bytes) (f : File) : Prop where
  param_ne : f.param ≠ []
  filename_ne : f.filename ≠ []
  params : GoodParams (fileParams f)
  ctype : CTypeOK f.ctype
  free : BoundaryFree (delim b) (crlf ++ f.content)

/-- The content type the server finds on the part. -/
def seenCType (f : File) : Bytes := if isStringEmpty f.ctype then [] else f.ctype

def fieldItem (kv : Bytes × Bytes) : Item := .field kv.1 kv.2
def fileItem (f : File) : Item := .file (arrive f.param) (arrive f.filename) (seenCType f) f.content

def fieldHeaders (kv : Bytes × Bytes) : List (Bytes × Bytes) := [(cdHeader, fieldDisposition kv.1)]
def fileHeaders (f : File) : List (Bytes × Bytes) :=
  (cdHeader, fileDisposition f) :: (if isStringEmpty f.ctype then [] else [(ctHeader, f.ctype)])

/-! ### byte facts -/

set_option maxRecDepth 100000 in
theorem tokenChar_valid : ∀ c : UInt8, isTokenChar c = true → validValueByte c = true := by
  apply Req.Form.byte_forall
  decide

theorem header_consts :
    (∀ x ∈ cdHeader, isTokenByte x = true) ∧ canonGo true cdHeader = cdHeader ∧
    (∀ x ∈ ctHeader, isTokenByte x = true) ∧ canonGo true ctHeader = ctHeader ∧
    (∀ x ∈ formData, validValueByte x = true) ∧ (∀ x ∈ nameKey, validValueByte x = true) ∧
    (cdHeader == ctHeader) = false ∧ (nameKey == filenameKey) = false ∧
    lower nameKey = nameKey ∧ lower filenameKey = filenameKey := by decide

theorem escapeQuotes_valid (k : Bytes) (h : ∀ c ∈ k, headerUnsafe c = false) :
    ∀ c ∈ escapeQuotes k, validValueByte c = true := by
  intro c hc
  simp only [escapeQuotes, List.mem_flatMap] at hc
  obtain ⟨x, hx, hcx⟩ := hc
  split at hcx
  · simp at hcx; rcases hcx with rfl | rfl <;> decide
  · split at hcx
    · simp at hcx; rcases hcx with rfl | rfl <;> decide
    · simp at hcx; subst hcx; simp [validValueByte, h c hx]

/-! ### dispositions as header values -/

theorem fieldDisposition_value (k : Bytes) (h : ∀ c ∈ k, headerUnsafe c = false) :
    fieldDisposition k ≠ [] ∧ (∀ c ∈ fieldDisposition k, validValueByte c = true) ∧
    ((fieldDisposition k).head?.map isLWS).getD false = false ∧
    ((fieldDisposition k).getLast?.map isLWS).getD false = false := by
  obtain ⟨-, -, -, -, hfd, hnk, -⟩ := header_consts
  refine ⟨by simp [fieldDisposition, formData], ?_, by simp [fieldDisposition, formData]; decide, ?_⟩
  · intro c hc
    simp only [fieldDisposition, List.mem_append, List.mem_cons] at hc
    rcases hc with ((((hc | hc) | hc) | hc) | hc) | hc
    · exact hfd c hc
    · simp at hc; rcases hc with rfl | rfl <;> decide
    · exact hnk c hc
    · simp at hc; rcases hc with rfl | rfl <;> decide
    · exact escapeQuotes_valid k h c hc
    · simp at hc; subst hc; decide
  · have : fieldDisposition k = (formData ++ [59, 32] ++ nameKey ++ [61, 34] ++ escapeQuotes k) ++ [34] := rfl
    rw [this, List.getLast?_concat]; decide

theorem cdParam_valid (p : Bytes × Bytes) (hk : ∀ x ∈ p.1, isTokenChar x = true) :
    ∀ c ∈ cdParam p, validValueByte c = true := by
  intro c hc
  simp only [cdParam, List.mem_append, List.mem_cons] at hc
  rcases hc with (((hc | hc) | hc) | hc) | hc
  · simp at hc; rcases hc with rfl | rfl <;> decide
  · exact tokenChar_valid c (hk c hc)
  · simp at hc; rcases hc with rfl | rfl <;> decide
  · exact quote_valid p.2 c hc
  · simp at hc; subst hc; decide

theorem fileDisposition_value (f : File) (hg : GoodParams (fileParams f)) (hne : fileParams f ≠ []) :
    fileDisposition f ≠ [] ∧ (∀ c ∈ fileDisposition f, validValueByte c = true) ∧
    ((fileDisposition f).head?.map isLWS).getD false = false ∧
    ((fileDisposition f).getLast?.map isLWS).getD false = false := by
  obtain ⟨-, -, -, -, hfd, -⟩ := header_consts
  refine ⟨by simp [fileDisposition, formData], ?_, by simp [fileDisposition, formData]; decide, ?_⟩
  · intro c hc
    simp only [fileDisposition, List.mem_append, List.mem_flatMap] at hc
    rcases hc with hc | ⟨p, hp, hc⟩
    · exact hfd c hc
    · exact cdParam_valid p (hg.1 p hp).2.1 c hc
  · obtain ⟨l', pl, hl⟩ : ∃ l' pl, fileParams f = l' ++ [pl] :=
      ⟨(fileParams f).dropLast, (fileParams f).getLast hne, (List.dropLast_concat_getLast hne).symm⟩
    have : fileDisposition f
        = (formData ++ l'.flatMap cdParam ++ ([59, 32] ++ pl.1 ++ [61, 34] ++ quote pl.2)) ++ [34] := by
      simp [fileDisposition, hl, cdParam]
    rw [this, List.getLast?_concat]; decide

/-! ### good parts -/

theorem goodPart_field (b : Bytes) (kv : Bytes × Bytes) (h : FieldOK b kv) :
    GoodPart (delim b) (fieldPart kv) (fieldHeaders kv) := by
  obtain ⟨hcd, hcanon, -⟩ := header_consts
  obtain ⟨v1, v2, v3, v4⟩ := fieldDisposition_value kv.1 h.name_safe
  refine ⟨?_, by simp [fieldPart, fieldHeader, headerLine, cdHeader], h.free⟩
  intro n rest hn
  obtain ⟨m, rfl⟩ : ∃ m, n = m + 2 := ⟨n - 2, by omega⟩
  have hshape : (fieldPart kv).header ++ rest
      = headerLine cdHeader (fieldDisposition kv.1) ++ (crlf ++ rest) := by
    simp [fieldPart, fieldHeader]
  rw [hshape, readHeaders_line (m + 1) true cdHeader _ _ (by decide) hcd hcanon v1 v2 v3 v4 (by simp [crlf]; decide),
    readHeaders_blank]
  rfl

theorem goodPart_file (b : Bytes) (f : File) (h : FileOK b f) :
    GoodPart (delim b) (filePart f) (fileHeaders f) := by
  obtain ⟨hcd, hcanon, hct, hctcanon, -⟩ := header_consts
  have hne : fileParams f ≠ [] := by
    have := h.param_ne
    cases hp : f.param with
    | nil => exact absurd hp this
    | cons c cs => simp [fileParams, hp]
  obtain ⟨v1, v2, v3, v4⟩ := fileDisposition_value f h.params hne
  refine ⟨?_, by simp [filePart, fileHeader, headerLine, cdHeader], h.free⟩
  intro n rest hn
  by_cases hblank : isStringEmpty f.ctype = true
  · obtain ⟨m, rfl⟩ : ∃ m, n = m + 2 := ⟨n - 2, by omega⟩
    have hshape : (filePart f).header ++ rest
        = headerLine cdHeader (fileDisposition f) ++ (crlf ++ rest) := by
      simp [filePart, fileHeader, hblank]
    rw [hshape, readHeaders_line (m + 1) true cdHeader _ _ (by decide) hcd hcanon v1 v2 v3 v4 (by simp [crlf]; decide),
      readHeaders_blank]
    simp [fileHeaders, hblank]
  · obtain ⟨m, rfl⟩ : ∃ m, n = m + 3 := ⟨n - 3, by omega⟩
    rcases h.ctype with hb | ⟨t1, t2, t3, t4⟩
    · exact absurd hb hblank
    · have hshape : (filePart f).header ++ rest
          = headerLine cdHeader (fileDisposition f) ++ (headerLine ctHeader f.ctype ++ (crlf ++ rest)) := by
        simp [filePart, fileHeader, hblank]
      rw [hshape, readHeaders_line (m + 2) true cdHeader _ _ (by decide) hcd hcanon v1 v2 v3 v4
          (by simp [headerLine, ctHeader]; decide),
        readHeaders_line (m + 1) false ctHeader _ _ (by decide) hct hctcanon t1 t2 t3 t4 (by simp [crlf]; decide),
        readHeaders_blank]
      simp [fileHeaders, hblank]

/-! ### items -/

theorem safe_no_crlf (k : Bytes) (h : ∀ c ∈ k, headerUnsafe c = false) :
    ∀ c ∈ k, (c == 13) = false ∧ (c == 10) = false :=
  fun c hc => safe_facts c (h c hc)

theorem itemOf_field (kv : Bytes × Bytes) (hne : kv.1 ≠ []) (hs : ∀ c ∈ kv.1, headerUnsafe c = false) :
    itemOf ⟨fieldHeaders kv, kv.2⟩ = .ok (some (fieldItem kv)) := by
  obtain ⟨-, -, -, -, -, -, -, hnf, -⟩ := header_consts
  have hk : kv.1.isEmpty = false := by
    cases h : kv.1 with
    | nil => exact absurd h hne
    | cons c cs => rfl
  simp [itemOf, fieldHeaders, lookup, parseMediaType_field kv.1 (safe_no_crlf kv.1 hs), hnf, hk, fieldItem]

theorem fileParams_shape (f : File) (hp : f.param ≠ []) (hn : f.filename ≠ []) :
    fileParams f = (nameKey, f.param) :: (filenameKey, f.filename) :: f.extra := by
  have h1 : f.param.isEmpty = false := by
    cases h : f.param with
    | nil => exact absurd h hp
    | cons c cs => rfl
  have h2 : f.filename.isEmpty = false := by
    cases h : f.filename with
    | nil => exact absurd h hn
    | cons c cs => rfl
  simp [fileParams, h1, h2]

theorem itemOf_file (b : Bytes) (f : File) (h : FileOK b f) :
    itemOf ⟨fileHeaders f, f.content⟩ = .ok (some (fileItem f)) := by
  obtain ⟨-, -, -, -, -, -, hcc, hnf, hln, hlf⟩ := header_consts
  have hshape := fileParams_shape f h.param_ne h.filename_ne
  have hpm := parseMediaType_cdParams (fileParams f) h.params
  rw [hshape] at hpm
  have ha1 : (arrive f.param).isEmpty = false := by
    have := arrive_ne_nil f.param h.param_ne
    cases hx : arrive f.param with
    | nil => exact absurd hx this
    | cons c cs => rfl
  have ha2 : (arrive f.filename).isEmpty = false := by
    have := arrive_ne_nil f.filename h.filename_ne
    cases hx : arrive f.filename with
    | nil => exact absurd hx this
    | cons c cs => rfl
  have hfd : fileDisposition f = formData ++ List.flatMap cdParam ((nameKey, f.param) :: (filenameKey, f.filename) :: f.extra) := by
    simp [fileDisposition, hshape]
  have hlk : lookup cdHeader (fileHeaders f) = fileDisposition f := by simp [fileHeaders, lookup]
  have hct : lookup ctHeader (fileHeaders f) = seenCType f := by
    by_cases hblank : isStringEmpty f.ctype = true
    · simp [fileHeaders, lookup, hcc, seenCType, hblank]
    · simp [fileHeaders, lookup, hcc, seenCType, hblank]
  unfold itemOf
  simp only [hlk, hct]
  rw [hfd, hpm]
  simp [lookup, hln, hlf, hnf, ha1, ha2, fileItem]

theorem itemsOf_map {α} (l : List α) (raw : α → RawPart) (item : α → Item)
    (h : ∀ x ∈ l, itemOf (raw x) = .ok (some (item x))) :
    itemsOf (l.map raw) = .ok (l.map item) := by
  induction l with
  | nil => simp [itemsOf]
  | cons x xs ih =>
    simp [itemsOf, h x (by simp), ih (fun y hy => h y (List.mem_cons_of_mem _ hy))]

end Req.Multipart
