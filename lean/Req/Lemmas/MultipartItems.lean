import Req.Lemmas.MultipartBody
/-! Helper lemmas for the multipart round trip (C17): good parts, items, composition. -/
namespace Req.Multipart
open Req.Proto Req.Ascii

/-! ### what a body may carry -/

/-- A field that multipart/form-data can carry: a non-empty name (ANY bytes — the name is
quoted like a file name since fixes/C17-7; an empty name is refused by `checkField`) and a
value free of the delimiter. -/
structure FieldOK (b : Bytes) (kv : Bytes × Bytes) : Prop where
  name_ne : kv.1 ≠ []
  free : BoundaryFree (delim b) (crlf ++ kv.2)

/-- A content type the part header can carry: blank (no header is written), or valid header
bytes without surrounding white space. -/
def CTypeOK (t : Bytes) : Prop :=
  isStringEmpty t = true ∨
  (t ≠ [] ∧ (∀ c ∈ t, validValueByte c = true) ∧ (t.head?.map isLWS).getD false = false ∧
    (t.getLast?.map isLWS).getD false = false)

/-- A file upload that multipart/form-data can carry. ANY bytes are allowed in the names. -/
structure FileOK (b : Bytes) (f : File) : Prop where
  param_ne : f.param ≠ []
  filename_ne : f.filename ≠ []
  params : GoodParams (fileParams f)
  ctype : CTypeOK f.ctype
  free : BoundaryFree (delim b) (crlf ++ f.content)

/-- The content type the server finds on the part. -/
def seenCType (f : File) : Bytes := if isStringEmpty f.ctype then [] else f.ctype

def fieldItem (kv : Bytes × Bytes) : Item := .field (arrive kv.1) kv.2
def fileItem (f : File) : Item := .file (arrive f.param) (arrive f.filename) (seenCType f) f.content

def fieldHeaders (kv : Bytes × Bytes) : List (Bytes × Bytes) := [(cdHeader, fieldDisposition kv.1)]
def fileHeaders (f : File) : List (Bytes × Bytes) :=
  (cdHeader, fileDisposition f) :: (if isStringEmpty f.ctype then [] else [(ctHeader, f.ctype)])

/-! ### byte facts -/

set_option maxRecDepth 100000 in
theorem tokenChar_valid : ∀ c : UInt8, isTokenChar c = true → validValueByte c = true := by
  apply Req.Form.byte_forall
  decide

theorem header_consts :
    (∀ x ∈ cdHeader, isTokenByte x = true) ∧ canonGo true cdHeader = cdHeader ∧
    (∀ x ∈ ctHeader, isTokenByte x = true) ∧ canonGo true ctHeader = ctHeader ∧
    (∀ x ∈ formData, validValueByte x = true) ∧ (∀ x ∈ nameKey, validValueByte x = true) ∧
    (cdHeader == ctHeader) = false ∧ (nameKey == filenameKey) = false ∧
    lower nameKey = nameKey ∧ lower filenameKey = filenameKey := by decide

/-! ### dispositions as header values -/

theorem cdParam_valid (p : Bytes × Bytes) (hk : ∀ x ∈ p.1, isTokenChar x = true) :
    ∀ c ∈ cdParam p, validValueByte c = true := by
  intro c hc
  simp only [cdParam, List.mem_append, List.mem_cons] at hc
  rcases hc with (((hc | hc) | hc) | hc) | hc
  · simp at hc; rcases hc with rfl | rfl <;> decide
  · exact tokenChar_valid c (hk c hc)
  · simp at hc; rcases hc with rfl | rfl <;> decide
  · exact quote_valid p.2 c hc
  · simp at hc; subst hc; decide

/-- `form-data` followed by a non-empty list of good parameters is a valid header value. -/
theorem disposition_value (l : List (Bytes × Bytes)) (hg : GoodParams l) (hne : l ≠ []) :
    formData ++ l.flatMap cdParam ≠ [] ∧ (∀ c ∈ formData ++ l.flatMap cdParam, validValueByte c = true) ∧
    ((formData ++ l.flatMap cdParam).head?.map isLWS).getD false = false ∧
    ((formData ++ l.flatMap cdParam).getLast?.map isLWS).getD false = false := by
  obtain ⟨-, -, -, -, hfd, -⟩ := header_consts
  refine ⟨by simp [formData], ?_, by simp [formData]; decide, ?_⟩
  · intro c hc
    simp only [List.mem_append, List.mem_flatMap] at hc
    rcases hc with hc | ⟨p, hp, hc⟩
    · exact hfd c hc
    · exact cdParam_valid p (hg.1 p hp).2.1 c hc
  · obtain ⟨l', pl, hl⟩ : ∃ l' pl, l = l' ++ [pl] :=
      ⟨l.dropLast, l.getLast hne, (List.dropLast_concat_getLast hne).symm⟩
    have : formData ++ l.flatMap cdParam
        = (formData ++ l'.flatMap cdParam ++ ([59, 32] ++ pl.1 ++ [61, 34] ++ quote pl.2)) ++ [34] := by
      simp [hl, cdParam]
    rw [this, List.getLast?_concat]; decide

theorem fileDisposition_value (f : File) (hg : GoodParams (fileParams f)) (hne : fileParams f ≠ []) :
    fileDisposition f ≠ [] ∧ (∀ c ∈ fileDisposition f, validValueByte c = true) ∧
    ((fileDisposition f).head?.map isLWS).getD false = false ∧
    ((fileDisposition f).getLast?.map isLWS).getD false = false :=
  disposition_value (fileParams f) hg hne

theorem goodParams_name (k : Bytes) : GoodParams [(nameKey, k)] := by
  refine ⟨?_, by simp⟩
  intro p hp
  simp only [List.mem_singleton] at hp
  subst hp
  show nameKey ≠ [] ∧ (∀ x ∈ nameKey, isTokenChar x = true) ∧ (lower nameKey).contains 42 = false
  decide

theorem fieldDisposition_eq (k : Bytes) :
    fieldDisposition k = formData ++ [(nameKey, k)].flatMap cdParam := by
  simp [fieldDisposition]

theorem fieldDisposition_value (k : Bytes) :
    fieldDisposition k ≠ [] ∧ (∀ c ∈ fieldDisposition k, validValueByte c = true) ∧
    ((fieldDisposition k).head?.map isLWS).getD false = false ∧
    ((fieldDisposition k).getLast?.map isLWS).getD false = false := by
  rw [fieldDisposition_eq]
  exact disposition_value _ (goodParams_name k) (by simp)

/-! ### good parts -/

theorem goodPart_field (b : Bytes) (kv : Bytes × Bytes) (h : FieldOK b kv) :
    GoodPart (delim b) (fieldPart kv) (fieldHeaders kv) := by
  obtain ⟨hcd, hcanon, -⟩ := header_consts
  obtain ⟨v1, v2, v3, v4⟩ := fieldDisposition_value kv.1
  refine ⟨?_, by simp [fieldPart, fieldHeader, headerLine, cdHeader], h.free⟩
  intro n rest hn
  obtain ⟨m, rfl⟩ : ∃ m, n = m + 2 := ⟨n - 2, by omega⟩
  have hshape : (fieldPart kv).header ++ rest
      = headerLine cdHeader (fieldDisposition kv.1) ++ (crlf ++ rest) := by
    simp [fieldPart, fieldHeader]
  rw [hshape, readHeaders_line (m + 1) true cdHeader _ _ (by decide) hcd hcanon v1 v2 v3 v4 (by simp [crlf]; decide),
    readHeaders_blank]
  rfl

theorem goodPart_file (b : Bytes) (f : File) (h : FileOK b f) :
    GoodPart (delim b) (filePart f) (fileHeaders f) := by
  obtain ⟨hcd, hcanon, hct, hctcanon, -⟩ := header_consts
  have hne : fileParams f ≠ [] := by
    have := h.param_ne
    cases hp : f.param with
    | nil => exact absurd hp this
    | cons c cs => simp [fileParams, hp]
  obtain ⟨v1, v2, v3, v4⟩ := fileDisposition_value f h.params hne
  refine ⟨?_, by simp [filePart, fileHeader, headerLine, cdHeader], h.free⟩
  intro n rest hn
  by_cases hblank : isStringEmpty f.ctype = true
  · obtain ⟨m, rfl⟩ : ∃ m, n = m + 2 := ⟨n - 2, by omega⟩
    have hshape : (filePart f).header ++ rest
        = headerLine cdHeader (fileDisposition f) ++ (crlf ++ rest) := by
      simp [filePart, fileHeader, hblank]
    rw [hshape, readHeaders_line (m + 1) true cdHeader _ _ (by decide) hcd hcanon v1 v2 v3 v4 (by simp [crlf]; decide),
      readHeaders_blank]
    simp [fileHeaders, hblank]
  · obtain ⟨m, rfl⟩ : ∃ m, n = m + 3 := ⟨n - 3, by omega⟩
    rcases h.ctype with hb | ⟨t1, t2, t3, t4⟩
    · exact absurd hb hblank
    · have hshape : (filePart f).header ++ rest
          = headerLine cdHeader (fileDisposition f) ++ (headerLine ctHeader f.ctype ++ (crlf ++ rest)) := by
        simp [filePart, fileHeader, hblank]
      rw [hshape, readHeaders_line (m + 2) true cdHeader _ _ (by decide) hcd hcanon v1 v2 v3 v4
          (by simp [headerLine, ctHeader]; decide),
        readHeaders_line (m + 1) false ctHeader _ _ (by decide) hct hctcanon t1 t2 t3 t4 (by simp [crlf]; decide),
        readHeaders_blank]
      simp [fileHeaders, hblank]

/-! ### items -/

theorem safe_no_crlf (k : Bytes) (h : ∀ c ∈ k, headerUnsafe c = false) :
    ∀ c ∈ k, (c == 13) = false ∧ (c == 10) = false :=
  fun c hc => safe_facts c (h c hc)

theorem itemOf_field (kv : Bytes × Bytes) (hne : kv.1 ≠ []) :
    itemOf ⟨fieldHeaders kv, kv.2⟩ = .ok (some (fieldItem kv)) := by
  obtain ⟨-, -, -, -, -, -, -, hnf, hln, -⟩ := header_consts
  have ha : (arrive kv.1).isEmpty = false := by
    have := arrive_ne_nil kv.1 hne
    cases hx : arrive kv.1 with
    | nil => exact absurd hx this
    | cons c cs => rfl
  have hpm := parseMediaType_cdParams [(nameKey, kv.1)] (goodParams_name kv.1)
  rw [← fieldDisposition_eq] at hpm
  simp [itemOf, fieldHeaders, lookup, hpm, hnf, hln, ha, fieldItem]

theorem fileParams_shape (f : File) (hp : f.param ≠ []) (hn : f.filename ≠ []) :
    fileParams f = (nameKey, f.param) :: (filenameKey, f.filename) :: f.extra := by
  have h1 : f.param.isEmpty = false := by
    cases h : f.param with
    | nil => exact absurd h hp
    | cons c cs => rfl
  have h2 : f.filename.isEmpty = false := by
    cases h : f.filename with
    | nil => exact absurd h hn
    | cons c cs => rfl
  simp [fileParams, h1, h2]

theorem itemOf_file (b : Bytes) (f : File) (h : FileOK b f) :
    itemOf ⟨fileHeaders f, f.content⟩ = .ok (some (fileItem f)) := by
  obtain ⟨-, -, -, -, -, -, hcc, hnf, hln, hlf⟩ := header_consts
  have hshape := fileParams_shape f h.param_ne h.filename_ne
  have hpm := parseMediaType_cdParams (fileParams f) h.params
  rw [hshape] at hpm
  have ha1 : (arrive f.param).isEmpty = false := by
    have := arrive_ne_nil f.param h.param_ne
    cases hx : arrive f.param with
    | nil => exact absurd hx this
    | cons c cs => rfl
  have ha2 : (arrive f.filename).isEmpty = false := by
    have := arrive_ne_nil f.filename h.filename_ne
    cases hx : arrive f.filename with
    | nil => exact absurd hx this
    | cons c cs => rfl
  have hfd : fileDisposition f = formData ++ List.flatMap cdParam ((nameKey, f.param) :: (filenameKey, f.filename) :: f.extra) := by
    simp [fileDisposition, hshape]
  have hlk : lookup cdHeader (fileHeaders f) = fileDisposition f := by simp [fileHeaders, lookup]
  have hct : lookup ctHeader (fileHeaders f) = seenCType f := by
    by_cases hblank : isStringEmpty f.ctype = true
    · simp [fileHeaders, lookup, hcc, seenCType, hblank]
    · simp [fileHeaders, lookup, hcc, seenCType, hblank]
  unfold itemOf
  simp only [hlk, hct]
  rw [hfd, hpm]
  simp [lookup, hln, hlf, hnf, ha1, ha2, fileItem]

/-! ### the error branch of `writeChecked` and what it guarantees -/

set_option maxRecDepth 100000 in
theorem tchar_token : ∀ c : UInt8, isTChar c = true → isTokenChar c = true := by
  apply Req.Form.byte_forall
  decide

theorem checkAll_ok {α} (chk : α → Except WriteErr Unit) (l : List α) :
    checkAll chk l = .ok () ↔ ∀ x ∈ l, chk x = .ok () := by
  induction l with
  | nil => simp [checkAll]
  | cons x xs ih =>
    simp only [checkAll, List.mem_cons, forall_eq_or_imp]
    cases h : chk x with
    | error e => simp
    | ok u => cases u; simp [ih]

theorem checkAll_cases {α} (chk : α → Except WriteErr Unit) (l : List α) :
    checkAll chk l = .ok () ∨ ∃ x ∈ l, ∃ e, chk x = .error e ∧ checkAll chk l = .error e := by
  induction l with
  | nil => left; rfl
  | cons x xs ih =>
    cases h : chk x with
    | error e => right; exact ⟨x, by simp, e, h, by simp [checkAll, h]⟩
    | ok u =>
      cases u
      rcases ih with ih | ⟨y, hy, e, h1, h2⟩
      · left; simp [checkAll, h, ih]
      · right; exact ⟨y, List.mem_cons_of_mem _ hy, e, h1, by simp [checkAll, h, h2]⟩

theorem checkField_ok (kv : Bytes × Bytes) : checkField kv = .ok () ↔ kv.1 ≠ [] := by
  unfold checkField
  cases h : kv.1 with
  | nil => simp
  | cons c cs => simp

theorem checkFile_ok (f : File) :
    checkFile f = .ok () ↔
      (∀ c ∈ f.ctype, headerUnsafe c = false) ∧ ∀ p ∈ f.extra, p.1 ≠ [] ∧ ∀ c ∈ p.1, isTChar c = true := by
  unfold checkFile validFieldValue validParamKey
  by_cases h1 : (f.ctype.all fun c => !headerUnsafe c) = true
  · by_cases h2 : (f.extra.any fun p => !(!p.1.isEmpty && p.1.all isTChar)) = true
    · simp only [h1, h2, Bool.not_true, Bool.false_eq_true, if_false, if_true, reduceCtorEq, false_iff]
      intro ⟨_, hk⟩
      simp only [List.any_eq_true] at h2
      obtain ⟨p, hp, hb⟩ := h2
      obtain ⟨k1, k2⟩ := hk p hp
      have : p.1.isEmpty = false := by cases hx : p.1 with
        | nil => exact absurd hx k1
        | cons c cs => rfl
      have h3 : p.1.all isTChar = true := List.all_eq_true.mpr k2
      simp [this, h3] at hb
    · simp only [h1, h2, Bool.not_true, Bool.false_eq_true, if_false, true_iff]
      constructor
      · intro c hc
        have := List.all_eq_true.mp h1 c hc
        simpa using this
      · intro p hp
        have hn : (!p.1.isEmpty && p.1.all isTChar) = true := by
          cases hb : (!p.1.isEmpty && p.1.all isTChar) with
          | true => rfl
          | false => exact absurd (List.any_eq_true.mpr ⟨p, hp, by simp [hb]⟩) h2
        simp only [Bool.and_eq_true, List.all_eq_true] at hn
        refine ⟨?_, hn.2⟩
        intro he; simp [he] at hn
  · simp only [h1, Bool.not_false, if_true, reduceCtorEq, false_iff]
    intro ⟨hc, _⟩
    apply h1
    apply List.all_eq_true.mpr
    intro c hcm
    simp [hc c hcm]

/-- What remains a DOMAIN restriction of a file upload once `checkFile` has accepted it:
non-empty names (`SetFileUpload` refuses the others), extra parameter names without `*`
(RFC 2231 continuations are another syntax) and pairwise different from each other and from
`name` / `filename` ignoring case, a content type without surrounding blanks (a header value is
trimmed), content free of the delimiter. -/
structure FileDomain (b : Bytes) (f : File) : Prop where
  param_ne : f.param ≠ []
  filename_ne : f.filename ≠ []
  keys_plain : ∀ p ∈ f.extra, (lower p.1).contains 42 = false
  keys_nodup : ((fileParams f).map fun p => lower p.1).Nodup
  ctype_trim : isStringEmpty f.ctype = true ∨
    ((f.ctype.head?.map isLWS).getD false = false ∧ (f.ctype.getLast?.map isLWS).getD false = false)
  free : BoundaryFree (delim b) (crlf ++ f.content)

theorem fileOK_of_checked (b : Bytes) (f : File) (hc : checkFile f = .ok ()) (hd : FileDomain b f) :
    FileOK b f := by
  obtain ⟨hct, hkeys⟩ := (checkFile_ok f).mp hc
  refine ⟨hd.param_ne, hd.filename_ne, ⟨?_, hd.keys_nodup⟩, ?_, hd.free⟩
  · intro p hp
    rw [fileParams_shape f hd.param_ne hd.filename_ne] at hp
    simp only [List.mem_cons] at hp
    rcases hp with rfl | rfl | hp
    · show nameKey ≠ [] ∧ (∀ x ∈ nameKey, isTokenChar x = true) ∧ (lower nameKey).contains 42 = false
      decide
    · show filenameKey ≠ [] ∧ (∀ x ∈ filenameKey, isTokenChar x = true) ∧ (lower filenameKey).contains 42 = false
      decide
    · exact ⟨(hkeys p hp).1, fun x hx => tchar_token x ((hkeys p hp).2 x hx), hd.keys_plain p hp⟩
  · rcases hd.ctype_trim with hb | ⟨t1, t2⟩
    · exact Or.inl hb
    · by_cases hb : isStringEmpty f.ctype = true
      · exact Or.inl hb
      · right
        refine ⟨?_, fun c hc => by simp [validValueByte, hct c hc], t1, t2⟩
        intro he; simp [he, isStringEmpty] at hb

theorem itemsOf_map {α} (l : List α) (raw : α → RawPart) (item : α → Item)
    (h : ∀ x ∈ l, itemOf (raw x) = .ok (some (item x))) :
    itemsOf (l.map raw) = .ok (l.map item) := by
  induction l with
  | nil => simp [itemsOf]
  | cons x xs ih =>
    simp [itemsOf, h x (by simp), ih (fun y hy => h y (List.mem_cons_of_mem _ hy))]

end Req.Multipart
